(* Generic correspondence driver.  Links against an extracted [Model] and a generated one-line [Entry]
   (let run_case = Model.<entry point>) exposing
     run_case : z list list -> z list list
   where z/positive are the extracted Coq inductives (Zpos/Zneg/Z0, XI/XO/XH).
   Trace file format:
     # case <id> [free text]
     > i1 i2 ...        an operation (integers, decimal)
     < o1 o2 ...        the observation the implementation produced for it
   For each case the ops are handed to the model; its predicted observations are
   compared line by line with the recorded ones.
   Output: one line per mismatch
     MISMATCH case=<id> op=<k> model=<...> impl=<...>
   and a final line "SUMMARY cases=<n> ops=<m> mismatches=<k> undecodable=<u>".  *)
open Model

let rec pos_of_int64 (n : int64) : positive =
  if Int64.equal n 1L then XH
  else
    let rest = pos_of_int64 (Int64.shift_right_logical n 1) in
    if Int64.equal (Int64.logand n 1L) 1L then XI rest else XO rest

let z_of_string (s : string) : z =
  let neg = String.length s > 0 && s.[0] = '-' in
  let body = if neg then String.sub s 1 (String.length s - 1) else s in
  let n = Int64.of_string ("0u" ^ body) in
  if Int64.equal n 0L then Z0 else if neg then Zneg (pos_of_int64 n) else Zpos (pos_of_int64 n)

let rec int64_of_pos (p : positive) : int64 =
  match p with
  | XH -> 1L
  | XO q -> Int64.shift_left (int64_of_pos q) 1
  | XI q -> Int64.logor (Int64.shift_left (int64_of_pos q) 1) 1L

let string_of_z (x : z) : string =
  match x with
  | Z0 -> "0"
  | Zpos p -> Printf.sprintf "%Lu" (int64_of_pos p)
  | Zneg p -> "-" ^ Printf.sprintf "%Lu" (int64_of_pos p)

let split_ws s = List.filter (fun x -> x <> "") (String.split_on_char ' ' (String.trim s))

let line_to_string (l : z list) = String.concat " " (List.map string_of_z l)

let () =
  let file = Sys.argv.(1) in
  let maxprint = try int_of_string Sys.argv.(2) with _ -> 50 in
  let ic = open_in file in
  let cases = ref 0 and nops = ref 0 and mism = ref 0 and undec = ref 0 in
  let cur_id = ref "" in
  let ops = ref [] and obs = ref [] in
  let flush () =
    if !ops <> [] then begin
      incr cases;
      let opl = List.rev !ops and obl = List.rev !obs in
      let pred = Entry.run_case (List.map (List.map z_of_string) opl) in
      let rec cmp k ps os =
        match ps, os with
        | p :: ps', o :: os' ->
            incr nops;
            let pstr = line_to_string p in
            let ostr = String.concat " " o in
            if pstr = "-1" && ostr <> "-1" then incr undec;
            if pstr <> ostr then begin
              incr mism;
              if !mism <= maxprint then
                Printf.printf "MISMATCH case=%s op=%d model=[%s] impl=[%s]\n" !cur_id k pstr ostr
            end;
            cmp (k + 1) ps' os'
        | [], [] -> ()
        | _ ->
            incr mism;
            Printf.printf "MISMATCH case=%s op=%d model/impl observation counts differ\n" !cur_id k
      in
      cmp 0 pred obl
    end;
    ops := []; obs := []
  in
  (try
     while true do
       let l = input_line ic in
       if String.length l = 0 then ()
       else match l.[0] with
         | '#' -> flush ();
             (match split_ws (String.sub l 1 (String.length l - 1)) with
              | "case" :: id :: _ -> cur_id := id
              | _ -> ())
         | '>' -> ops := split_ws (String.sub l 1 (String.length l - 1)) :: !ops
         | '<' -> obs := split_ws (String.sub l 1 (String.length l - 1)) :: !obs
         | _ -> ()
     done
   with End_of_file -> flush ());
  close_in ic;
  Printf.printf "SUMMARY cases=%d ops=%d mismatches=%d undecodable=%d\n" !cases !nops !mism !undec
