module genconsts

go 1.23
