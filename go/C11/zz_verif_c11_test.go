package durable

// C11 harness (injected by `go test -overlay`; lives in /verif; shares generator and dump with go/C10).
// One replica, long delete/undelete/final-delete/RS heavy histories over the `submittable` alphabet.
// After every command the real database is dumped and
//   - compared with the extracted Coq model (trace C11.trace),
//   - checked by c11Mon: a Go transcription of the invariant clauses (a)-(h) of DESIGN.md C11 plus the
//     history clauses (ids never reused; versions never decrease, +1 per replica-set change; a deleted blob is
//     invisible; nothing changes in read-only mode; a blob that is neither deleted nor expired is never removed).

import (
	"fmt"
	"sort"
	"testing"

	vw "github.com/westerndigitalcorporation/blb/pkg/verifwire"
)

const c11RSPieceLength = 64*1024*1024 - 64*1024 - 64 // internal/curator.RSPieceLength (import cycle: copied, pinned by genconsts on the model side)

type c11Range struct {
	part   uint32
	lo, hi uint64 // [lo, hi)
}

type c11Mon struct {
	caseID  string
	created map[uint64]bool // blob ids ever returned by CreateBlob
	seen    map[uint64]bool // blob ids ever present in the database
	gone    map[uint64]bool // blob ids finally deleted
	allocs  []c11Range
	fired   map[string]bool
}

func newC11Mon(id string) *c11Mon {
	return &c11Mon{caseID: id, created: map[uint64]bool{}, seen: map[uint64]bool{}, gone: map[uint64]bool{}, fired: map[string]bool{}}
}

func (m *c11Mon) report(sig, what string, c *mCmd, idx uint64, extra map[string]interface{}) {
	if m.fired[sig] {
		return
	}
	m.fired[sig] = true
	d := map[string]interface{}{"op": vw.Ints(c.line(idx))}
	for k, v := range extra {
		d[k] = v
	}
	vw.Report(vw.Violation{Property: "C11", Signature: sig, What: what, Case: m.caseID, Detail: d})
}

func c11TractEq(a, b *mTract) bool {
	if a.ver != b.ver || len(a.hosts) != len(b.hosts) {
		return false
	}
	for i := range a.hosts {
		if a.hosts[i] != b.hosts[i] {
			return false
		}
	}
	for i := range a.rs {
		if (a.rs[i] == nil) != (b.rs[i] == nil) || (a.rs[i] != nil && *a.rs[i] != *b.rs[i]) {
			return false
		}
	}
	return true
}

func c11BlobEq(a, b *mBlob) bool {
	if a.storage != b.storage || a.hint != b.hint || a.repl != b.repl || a.del != b.del || a.mt != b.mt || a.at != b.at || a.ex != b.ex || len(a.tracts) != len(b.tracts) {
		return false
	}
	for i := range a.tracts {
		if !c11TractEq(&a.tracts[i], &b.tracts[i]) {
			return false
		}
	}
	return true
}

func c11Names(c *mCmd, id uint64) bool {
	for _, b := range c.tblobs {
		if b == id {
			return true
		}
	}
	return false
}

func c11NamesTract(c *mCmd, id uint64, idx int) bool {
	for _, t := range c.ttracts {
		if t[0] == id && t[1] == uint64(idx) {
			return true
		}
	}
	return false
}

// res = wire result line of the command (tag first)
func (m *c11Mon) check(prev, cur *mDump, c *mCmd, idx uint64, res []int64) {
	k := c.kind
	ok := false // command reported success
	switch res[0] {
	case 1, 3, 4, 7, 8:
		ok = res[1] == 0
	case 5:
		ok = res[2] == 0
	case 6, 9:
		ok = res[1] == 0
	case 2:
		ok = true
	}

	// ---- (a) id allocators
	parts := map[uint32]mPart{}
	for _, p := range cur.parts {
		parts[p.id] = p
	}
	for _, p := range prev.parts {
		q, has := parts[p.id]
		if !has || q.nb < p.nb || q.nr < p.nr {
			m.report("a-allocator-decreased:"+k, "a partition disappeared or its NextBlobKey / NextRsChunkKey decreased", c, idx, map[string]interface{}{"partition": p.id})
		}
	}
	for i := range cur.blobs {
		b := &cur.blobs[i]
		p, has := parts[uint32(b.id>>32)]
		if !has || uint64(uint32(b.id)) >= uint64(p.nb) {
			m.report("a-blob-key-not-below-next:"+k, "a blob exists whose key is not below its partition's NextBlobKey (the id could be handed out again)", c, idx, map[string]interface{}{"blob": b.id})
		}
		if m.gone[b.id] {
			m.report("a-blob-id-reused:"+k, "a finally deleted blob id is present again", c, idx, map[string]interface{}{"blob": b.id})
		}
		m.seen[b.id] = true
	}
	for _, ch := range cur.chunks {
		p, has := parts[ch.part&(1<<30-1)]
		if !has || ch.id+uint64(len(ch.hosts)) > p.nr {
			m.report("a-chunk-id-not-below-next:"+k, "an RS chunk occupies ids that are not below its partition's NextRsChunkKey", c, idx, map[string]interface{}{"chunk": fmt.Sprint(ch.part, ":", ch.id)})
		}
	}
	if res[0] == 5 && ok {
		id := uint64(res[1])
		if m.created[id] || prev.blob(id) != nil {
			m.report("a-blob-id-returned-twice:"+k, "CreateBlob returned an id that was returned or existed before", c, idx, map[string]interface{}{"blob": id})
		}
		m.created[id] = true
	}
	if res[0] == 9 && ok {
		r := c11Range{uint32(res[2]), uint64(res[3]), uint64(res[3]) + uint64(c.args[0])}
		for _, o := range m.allocs {
			if o.part == r.part && r.lo < o.hi && o.lo < r.hi {
				m.report("a-rs-ids-returned-twice:"+k, "AllocateRSChunkIDs returned a range overlapping an earlier one", c, idx, nil)
			}
		}
		m.allocs = append(m.allocs, r)
	}

	// ---- per blob history: (b) (d) (e) and removal
	for i := range prev.blobs {
		pb := &prev.blobs[i]
		cb := cur.blob(pb.id)
		if cb == nil {
			m.gone[pb.id] = true
			if k != "FinishDelete" || !c11Names(c, pb.id) {
				m.report("e-removed-not-by-final-delete:"+k, "a blob disappeared through a command other than a final deletion naming it", c, idx, map[string]interface{}{"blob": pb.id})
			} else {
				del, exp := int64(pb.del)*1e9, int64(pb.ex)*1e9
				if del == 0 && !(exp != 0 && exp < c.scanCutoff) {
					m.report("e-live-blob-removed:"+k, "final deletion removed a blob that is neither marked deleted nor expired (its deletion was undone, or its expiry extended, after the scan that listed it)", c, idx,
						map[string]interface{}{"blob": pb.id, "deleted": pb.del, "expires": pb.ex, "scan_cutoff": c.scanCutoff})
				}
			}
			continue
		}
		if len(cb.tracts) < len(pb.tracts) {
			m.report("b-tract-list-shrank:"+k, "a blob's tract list got shorter", c, idx, map[string]interface{}{"blob": pb.id})
			continue
		}
		if pb.del != 0 {
			// (e) invisible: only undelete may touch it
			undel := k == "UndeleteBlob" && c11Names(c, pb.id)
			if !undel && !c11BlobEq(pb, cb) {
				m.report("e-deleted-blob-changed:"+k, "a blob marked deleted was modified by a command other than undelete", c, idx, map[string]interface{}{"blob": pb.id})
			}
			if undel && ok {
				x := *cb
				x.del = pb.del
				if cb.del != 0 || !c11BlobEq(pb, &x) {
					m.report("e-undelete-effect:"+k, "undelete did not exactly clear the deletion mark", c, idx, map[string]interface{}{"blob": pb.id})
				}
			}
			if c11Names(c, pb.id) && !ok && (k == "ExtendBlob" || k == "DeleteBlob" || k == "SetMetadata" || k == "ChangeTract" || k == "UpdateStorageClass" || k == "CommitRSChunk") {
				// fine: rejected
			} else if c11Names(c, pb.id) && ok && k != "UndeleteBlob" && k != "FinishDelete" && k != "UpdateTimes" {
				m.report("e-deleted-blob-visible:"+k, "a command naming a blob marked deleted succeeded", c, idx, map[string]interface{}{"blob": pb.id})
			}
		}
		// (d) versions
		for ti := range pb.tracts {
			pv, cv := pb.tracts[ti].ver, cb.tracts[ti].ver
			named := (k == "ChangeTract" || k == "CommitRSChunk") && ok && c11NamesTract(c, pb.id, ti)
			if named && c.noVersion {
				// outside `submittable`: an entry without a version is stored unchecked (theorem commitrs_without_version_unchecked)
				continue
			}
			switch {
			case cv < pv:
				m.report("d-version-decreased:"+k, "a tract's version decreased", c, idx, map[string]interface{}{"blob": pb.id, "tract": ti, "before": pv, "after": cv})
			case named && cv != pv+1:
				m.report("d-version-not-plus-one:"+k, "a replica-set change did not raise the tract's version by exactly one", c, idx, map[string]interface{}{"blob": pb.id, "tract": ti, "before": pv, "after": cv})
			case !named && cv != pv:
				m.report("d-version-changed:"+k, "a tract's version changed without a replica-set change naming it", c, idx, map[string]interface{}{"blob": pb.id, "tract": ti, "before": pv, "after": cv})
			}
		}
		for ti := len(pb.tracts); ti < len(cb.tracts); ti++ {
			if cb.tracts[ti].ver != 1 {
				m.report("d-new-tract-version:"+k, "a new tract does not start at version 1", c, idx, nil)
			}
		}
	}

	// ---- (c) replication factor
	for i := range cur.blobs {
		b := &cur.blobs[i]
		for ti := range b.tracts {
			t := &b.tracts[ti]
			if len(t.hosts) != 0 && int64(len(t.hosts)) != b.repl || (b.storage == 0 && int64(len(t.hosts)) != b.repl) {
				m.report("c-holders-not-repl:"+k, "a replicated tract does not have exactly the blob's replication factor of holders", c, idx, map[string]interface{}{"blob": b.id, "tract": ti, "holders": len(t.hosts), "repl": b.repl})
			}
			for _, h := range t.hosts {
				if h == 0 {
					m.report("c-zero-holder:"+k, "a tract lists tractserver id 0", c, idx, nil)
				}
			}
		}
	}

	// ---- (f) read-only mode
	if prev.ro && k != "SetReadOnly" {
		a, b := prev.ints(), cur.ints()
		a[2], b[2] = 0, 0 // txn_index may advance
		if !mIntsEq(a, b) {
			m.report("f-readonly-mutation:"+k, "metadata changed while read-only mode was set", c, idx, nil)
		}
		if res[0] != 0 && res[0] != 10 && !(res[0] == 1 && res[1] != 0) {
			m.report("f-readonly-not-rejected:"+k, "a mutating command was not rejected while read-only mode was set", c, idx, map[string]interface{}{"result": vw.Ints(res)})
		}
	}

	// ---- (g) RS pointers -> chunk lists the tract at an in-range extent overlapping nothing
	for i := range cur.blobs {
		b := &cur.blobs[i]
		for ti := range b.tracts {
			for ci, p := range b.tracts[ti].rs {
				if p == nil {
					continue
				}
				ch := cur.chunk(uint32(p.Partition), p.ID)
				if ch == nil {
					m.report("g-pointer-to-missing-chunk:"+k, "a tract points to an RS chunk that does not exist", c, idx, map[string]interface{}{"blob": b.id, "tract": ti, "class": ci + 1})
					continue
				}
				found := false
				for _, piece := range ch.data {
					for ei, e := range piece {
						if e.blob == b.id && int(e.idx) == ti {
							found = true
							if uint64(e.off)+uint64(e.length) > c11RSPieceLength {
								m.report("g-extent-out-of-range:"+k, "a tract's extent exceeds the RS piece", c, idx, nil)
							}
							for ej, o := range piece {
								if ej != ei && uint64(e.off) < uint64(o.off)+uint64(o.length) && uint64(o.off) < uint64(e.off)+uint64(e.length) {
									m.report("g-extent-overlap:"+k, "two tracts overlap inside one RS piece", c, idx, nil)
								}
							}
						}
					}
				}
				if !found {
					m.report("g-chunk-does-not-list-tract:"+k, "a tract points to an RS chunk that does not list it", c, idx, map[string]interface{}{"blob": b.id, "tract": ti, "class": ci + 1})
				}
			}
		}
	}

	// ---- (h) known tractserver ids
	known := map[uint32]bool{}
	for _, t := range cur.tsids {
		known[t] = true
	}
	if !sort.SliceIsSorted(cur.tsids, func(i, j int) bool { return cur.tsids[i] < cur.tsids[j] }) {
		m.report("h-tsids-unsorted:"+k, "known tractserver list is not sorted", c, idx, nil)
	}
	for i := range cur.blobs {
		for _, t := range cur.blobs[i].tracts {
			for _, h := range t.hosts {
				if !known[h] {
					m.report("h-unknown-tsid:"+k, "a tractserver id used by a tract is missing from the known set", c, idx, map[string]interface{}{"tsid": h})
				}
			}
		}
	}
	for _, ch := range cur.chunks {
		for _, h := range ch.hosts {
			if !known[h] {
				m.report("h-unknown-tsid:"+k, "a tractserver id used by an RS chunk is missing from the known set", c, idx, map[string]interface{}{"tsid": h})
			}
		}
	}
}

func c11RunCase(ci int, tr *vw.Trace) {
	id := fmt.Sprint(ci)
	r := vw.NewRng(vw.Seed() ^ 0xC11).Fork(uint64(ci))
	g := mNewGen(r)
	A := mNewReplica("c11")
	defer A.close()
	tr.Case(id)
	mon := newC11Mon(id)
	n := r.Range(10, vw.Scale(70, 150))
	idx := uint64(0)
	cur := mTakeDump(A.h)
	var kinds []string
	sample := ""
	for p := 1; p <= n; p++ {
		c := g.next(cur, p-1, "c11")
		idx += uint64(r.PickInt(1, 1, 1, 2))
		res, pan := mApply(A, c, idx)
		if pan != "" {
			vw.Report(vw.Violation{Property: "C11", Signature: "crash:" + c.kind, What: "a submittable command made the replica panic", Case: id,
				Detail: map[string]interface{}{"panic": pan, "op": vw.Ints(c.line(idx))}})
			return
		}
		g.learn(c, idx, res)
		rl := mResult(res)
		next := mTakeDump(A.h)
		tr.Op(c.line(idx)...)
		tr.Obs(mObs(rl, next)...)
		mon.check(cur, next, c, idx, rl)
		cur = next
		kinds = append(kinds, c.kind)
		vw.Stat("cmd:"+c.kind, 1)
		if len(rl) >= 2 && (rl[0] == 1 || rl[0] == 6 || rl[0] == 7 || rl[0] == 8) {
			vw.Stat(fmt.Sprintf("err:%s:%d", c.kind, rl[1]), 1)
		}
		if ci < 2 && p < 14 {
			sample += fmt.Sprintf(" %s@%d->%v", c.kind, idx, rl)
		}
	}
	nb, nt, nc, nd := len(cur.blobs), 0, len(cur.chunks), 0
	for _, b := range cur.blobs {
		nt += len(b.tracts)
		if b.del != 0 {
			nd++
		}
	}
	vw.Stat("final:blobs", int64(nb))
	vw.Stat("final:tracts", int64(nt))
	vw.Stat("final:chunks", int64(nc))
	vw.Stat("final:deleted", int64(nd))
	vw.Stat("final:removed", int64(len(mon.gone)))
	vw.Distinct(fmt.Sprintf("%s/%d/%d/%d", mFingerprint(kinds), nb, nt, nc))
	if ci < 2 {
		vw.Sample(fmt.Sprintf("case %d (%d commands):%s", ci, n, sample))
	}
}

func TestVerifC11(t *testing.T) {
	if !vw.Enabled() {
		t.Skip("verification harness: run through /verif/bin/check")
	}
	tr := vw.OpenTrace("C11.trace")
	defer tr.Close()
	defer vw.Finish("C11")
	vw.Stat(fmt.Sprintf("tree-has-finishdelete-cutoff=%v", mHasCutoff()), 1)
	ncases := vw.Scale(300, 8000)
	for ci := 0; ci < ncases; ci++ {
		if !vw.CaseSelected(fmt.Sprint(ci)) {
			continue
		}
		c11RunCase(ci, tr)
	}
}
