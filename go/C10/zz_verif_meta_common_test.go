package durable

// Shared part of the C10 / C11 harnesses (injected by `go test -overlay`; lives in /verif).
// - canonical dump of every bucket of the real curator database
// - wire encoding of commands and results (see coq/theories/Meta/CuratorWire.v)
// - history generator over the `submittable` alphabet of DESIGN.md appendix B.1
//   (stale, repeated and boundary arguments included) plus a small malformed stream.

import (
	"bytes"
	"encoding/binary"
	"fmt"
	"os"
	"path/filepath"
	"reflect"
	"sort"
	"time"

	"github.com/westerndigitalcorporation/blb/internal/core"
	"github.com/westerndigitalcorporation/blb/internal/curator/durable/state"
	"github.com/westerndigitalcorporation/blb/internal/curator/durable/state/fb"
	"github.com/westerndigitalcorporation/blb/pkg/raft/raft"
	vw "github.com/westerndigitalcorporation/blb/pkg/verifwire"
)

// ---------------------------------------------------------------- dump

type mTract struct {
	hosts []uint32
	ver   uint32
	rs    [4]*core.RSChunkID // Rs63, Rs83, Rs103, Rs125
}

type mBlob struct {
	id                    uint64
	storage, hint, repl   int64
	del, mt, at, ex       uint32
	tracts                []mTract
}

type mPart struct {
	id uint32
	nb uint32
	nr uint64
}

type mRT struct {
	blob        uint64
	idx         uint16
	length, off uint32
}

type mChunk struct {
	part  uint32
	id    uint64
	hosts []uint32
	data  [][]mRT
}

type mDump struct {
	cid    uint32
	ro     bool
	index  uint64
	tsids  []uint32
	parts  []mPart
	blobs  []mBlob
	chunks []mChunk
}

func mPtr(f *fb.TractIDF) *core.RSChunkID {
	if f == nil {
		return nil
	}
	c := f.RSChunkID()
	return &c
}

func mTakeDump(h *StateHandler) *mDump {
	txn := h.LocalReadOnlyTxn()
	defer txn.Commit()
	d := &mDump{cid: uint32(txn.GetCuratorID()), ro: txn.GetReadOnlyMode(), index: txn.GetIndex()}
	for _, t := range txn.GetKnownTSIDs() {
		d.tsids = append(d.tsids, uint32(t))
	}
	for _, p := range txn.GetPartitions() {
		d.parts = append(d.parts, mPart{uint32(p.ID), p.P.NextBlobKey(), p.P.NextRsChunkKey()})
	}
	it, has := txn.GetIterator(0)
	for has {
		id, b := it.Blob()
		mb := mBlob{id: uint64(id), storage: int64(b.Storage()), hint: int64(b.Hint()), repl: int64(b.Repl()),
			del: b.Deletedsec(), mt: b.Mtimesec(), at: b.Atimesec(), ex: b.Expiressec()}
		var t fb.TractF
		for i := 0; i < b.TractsLength(); i++ {
			b.Tracts(&t, i)
			mt := mTract{ver: t.Version()}
			for j := 0; j < t.HostsLength(); j++ {
				mt.hosts = append(mt.hosts, t.Hosts(j))
			}
			var a, bb, c, dd fb.TractIDF
			mt.rs[0] = mPtr(t.Rs63Chunk(&a))
			mt.rs[1] = mPtr(t.Rs83Chunk(&bb))
			mt.rs[2] = mPtr(t.Rs103Chunk(&c))
			mt.rs[3] = mPtr(t.Rs125Chunk(&dd))
			mb.tracts = append(mb.tracts, mt)
		}
		d.blobs = append(d.blobs, mb)
		has = it.Next()
	}
	cit, chas := txn.GetRSChunkIterator(core.RSChunkID{})
	for chas {
		id, c := cit.RSChunk()
		mc := mChunk{part: uint32(id.Partition), id: id.ID}
		for j := 0; j < c.HostsLength(); j++ {
			mc.hosts = append(mc.hosts, c.Hosts(j))
		}
		var data fb.RSC_DataF
		var rt fb.RSC_TractF
		for i := 0; i < c.DataLength(); i++ {
			c.Data(&data, i)
			var piece []mRT
			for j := 0; j < data.TractsLength(); j++ {
				data.Tracts(&rt, j)
				tid := rt.TractID()
				piece = append(piece, mRT{uint64(tid.Blob), uint16(tid.Index), rt.Length(), rt.Offset()})
			}
			mc.data = append(mc.data, piece)
		}
		d.chunks = append(d.chunks, mc)
		chas = cit.Next()
	}
	return d
}

func mB(b bool) int64 {
	if b {
		return 1
	}
	return 0
}

func (d *mDump) ints() []int64 {
	var l vw.L
	l.Add(int64(d.cid), mB(d.ro), int64(d.index), int64(len(d.tsids)))
	for _, t := range d.tsids {
		l.Add(int64(t))
	}
	l.Add(int64(len(d.parts)))
	for _, p := range d.parts {
		l.Add(int64(p.id), int64(p.nb), int64(p.nr))
	}
	l.Add(int64(len(d.blobs)))
	for _, b := range d.blobs {
		l.Add(int64(b.id), b.storage, b.hint, b.repl, int64(b.del), int64(b.mt), int64(b.at), int64(b.ex), int64(len(b.tracts)))
		for _, t := range b.tracts {
			l.Add(int64(len(t.hosts)))
			for _, h := range t.hosts {
				l.Add(int64(h))
			}
			l.Add(int64(t.ver))
			for _, p := range t.rs {
				if p == nil {
					l.Add(0, 0, 0)
				} else {
					l.Add(1, int64(p.Partition), int64(p.ID))
				}
			}
		}
	}
	l.Add(int64(len(d.chunks)))
	for _, c := range d.chunks {
		l.Add(int64(c.part), int64(c.id), int64(len(c.hosts)))
		for _, h := range c.hosts {
			l.Add(int64(h))
		}
		l.Add(int64(len(c.data)))
		for _, p := range c.data {
			l.Add(int64(len(p)))
			for _, r := range p {
				l.Add(int64(r.blob), int64(r.idx), int64(r.length), int64(r.off))
			}
		}
	}
	return l
}

func (d *mDump) blob(id uint64) *mBlob {
	for i := range d.blobs {
		if d.blobs[i].id == id {
			return &d.blobs[i]
		}
	}
	return nil
}

func (d *mDump) chunk(part uint32, id uint64) *mChunk {
	for i := range d.chunks {
		if d.chunks[i].part == part && d.chunks[i].id == id {
			return &d.chunks[i]
		}
	}
	return nil
}

func mIntsEq(a, b []int64) bool {
	if len(a) != len(b) {
		return false
	}
	for i := range a {
		if a[i] != b[i] {
			return false
		}
	}
	return true
}

// full-range state checksum of checksum.go (what replicas compare in production)
func mFullChecksum(h *StateHandler) uint64 {
	txn := h.LocalReadOnlyTxn()
	defer txn.Commit()
	ck, _ := txn.Checksum(state.ChecksumPosition{}, 1<<30)
	return ck
}

// ---------------------------------------------------------------- handlers

func mTempDir(tag string) string {
	base := "/dev/shm"
	if st, err := os.Stat(base); err != nil || !st.IsDir() {
		base = os.TempDir()
	}
	dir, err := os.MkdirTemp(base, "blbverif-"+tag+"-")
	if err != nil {
		panic(err)
	}
	return dir
}

type mReplica struct {
	dir string
	h   *StateHandler
}

func mNewReplica(tag string) *mReplica {
	r := &mReplica{dir: mTempDir(tag)}
	r.open()
	return r
}

func (r *mReplica) open() {
	cfg := DefaultStateConfig
	cfg.DBDir = r.dir
	r.h = NewStateHandler(&cfg, nil)
}

// restart = close the database and build a new handler on the same directory
func (r *mReplica) restart() {
	r.h.state.Close()
	r.open()
}

func (r *mReplica) close() {
	r.h.state.Close()
	os.RemoveAll(r.dir)
}

func (r *mReplica) snapshot() []byte {
	s, err := r.h.Snapshot()
	if err != nil {
		panic(err)
	}
	var buf bytes.Buffer
	if err := s.Save(&buf); err != nil {
		panic(err)
	}
	s.Release()
	return buf.Bytes()
}

func mSnapIndex(snap []byte) uint64 { return binary.BigEndian.Uint64(snap[8:16]) }

func (r *mReplica) restore(snap []byte) {
	r.h.SnapshotRestore(bytes.NewReader(snap), 0, 0)
}

// ---------------------------------------------------------------- commands and results on the wire

type mCmd struct {
	op        int64
	args      []int64
	cmd       interface{}
	kind      string
	malformed int // 0 = submittable; 1 = outside it, the process is expected to die; 2 = outside it, unspecified; 3 = outside it, no crash, compared with the model
	// what the monitors need to know about the command
	tblobs     []uint64    // blobs named by the command
	ttracts    [][2]uint64 // (blob, index) of the tracts named by ChangeTract / CommitRSChunk
	scanCutoff int64       // FinishDelete: cutoff of the scan that produced the list
	noVersion  bool        // CommitRSChunk whose entries carry NewVersion < 2 ("no version": not checked by the command)
}

func (c *mCmd) line(idx uint64) []int64 {
	return append([]int64{c.op, int64(idx)}, c.args...)
}

func (c *mCmd) entry(idx uint64) raft.Entry {
	return raft.Entry{Index: idx, Cmd: cmdToBytes(c.cmd)}
}

// does this tree's FinishDeleteCommand carry the cutoff (repair of F18)?
func mHasCutoff() bool {
	_, ok := reflect.TypeOf(FinishDeleteCommand{}).FieldByName("Cutoff")
	return ok
}

func mFinishCmd(ids []core.BlobID, cutoff int64) (interface{}, int64) {
	c := FinishDeleteCommand{Blobs: ids}
	v := reflect.ValueOf(&c).Elem().FieldByName("Cutoff")
	if v.IsValid() && v.CanSet() && v.Kind() == reflect.Int64 {
		v.SetInt(cutoff)
		return c, cutoff
	}
	return c, 0
}

func mSplit64(x uint64) (int64, int64) { return int64(x >> 32), int64(x & 0xffffffff) }

func mResult(res interface{}) []int64 {
	switch r := res.(type) {
	case nil:
		return []int64{0}
	case core.Error:
		return []int64{1, int64(r)}
	case SetRegistrationResult:
		return []int64{2, int64(r.ID)}
	case AddPartitionResult:
		return []int64{3, int64(r.Err)}
	case SyncPartitionsResult:
		return []int64{4, int64(r.Err)}
	case CreateBlobResult:
		return []int64{5, int64(r.ID), int64(r.Err)}
	case ExtendBlobResult:
		return []int64{6, int64(r.Err), int64(r.NewSize)}
	case DeleteBlobResult:
		return []int64{7, int64(r.Err)}
	case UndeleteBlobResult:
		return []int64{8, int64(r.Err)}
	case AllocateRSChunkIDsResult:
		return []int64{9, int64(r.Err), int64(r.ID.Partition), int64(r.ID.ID)}
	case ChecksumResult:
		out := []int64{10}
		if r.Next.Blob == nil {
			out = append(out, 0, 0)
		} else {
			out = append(out, 1, int64(binary.BigEndian.Uint64(r.Next.Blob)))
		}
		if r.Next.RS == nil {
			out = append(out, 0, 0, 0)
		} else {
			k := r.Next.RS
			part := binary.BigEndian.Uint32(k[0:4])
			id := uint64(binary.BigEndian.Uint16(k[4:6]))<<32 | uint64(binary.BigEndian.Uint32(k[6:10]))
			out = append(out, 1, int64(part), int64(id))
		}
		hi, lo := mSplit64(r.Checksum)
		return append(out, hi, lo, int64(r.Index))
	}
	return []int64{-99}
}

// ---------------------------------------------------------------- generator

type mTractRead struct {
	blob   uint64
	idx    int
	ver    uint32
	nhosts int
}

type mScan struct {
	cutoff int64
	ids    []uint64
}

type mAlloc struct {
	part uint32
	id   uint64
	n    int
	cls  int
}

type mCkRes struct {
	index    uint64
	checksum uint64
	next     state.ChecksumPosition
}

type mGen struct {
	r      *vw.Rng
	now    int64 // ns
	reads  []mTractRead
	scans  []mScan
	allocs []mAlloc
	cks    []mCkRes
	ro     bool
	maxTS  int

	lastAllocCls int
	everSeen     map[uint64]bool // blob ids that existed at some point (to name already-removed ones)
}

const mSec = int64(time.Second)

func mNewGen(r *vw.Rng) *mGen {
	return &mGen{r: r, now: 1600000000 * mSec, maxTS: 14}
}

func (g *mGen) tick() { g.now += int64(g.r.Range(1, 3)) * mSec }

func (g *mGen) tsid() uint32 {
	if g.r.Chance(1, 40) {
		return 1<<20 - 1 // largest id the packing holds
	}
	return uint32(g.r.Range(1, g.maxTS))
}

func (g *mGen) hosts(n int) []core.TractserverID {
	seen := map[uint32]bool{}
	var out []core.TractserverID
	for len(out) < n {
		t := g.tsid()
		if seen[t] {
			t = uint32(g.r.Range(1, g.maxTS+n))
			if seen[t] {
				continue
			}
		}
		seen[t] = true
		out = append(out, core.TractserverID(t))
	}
	return out
}

func mHostInts(hs []core.TractserverID) []int64 {
	out := []int64{int64(len(hs))}
	for _, h := range hs {
		out = append(out, int64(h))
	}
	return out
}

// pick a blob id: existing (live or deleted), or one that does not exist
func (g *mGen) blobID(d *mDump, preferDeleted bool) uint64 {
	if len(d.blobs) == 0 || g.r.Chance(1, 12) {
		switch g.r.Intn(3) {
		case 0:
			return uint64(g.r.Range(1, 4))<<32 | uint64(g.r.Range(1, 30)) // maybe beyond NextBlobKey
		case 1:
			return uint64(9)<<32 | 1 // partition never added
		default:
			return 0
		}
	}
	if preferDeleted {
		var del []uint64
		for _, b := range d.blobs {
			if b.del != 0 {
				del = append(del, b.id)
			}
		}
		if len(del) > 0 && g.r.Chance(3, 4) {
			return del[g.r.Intn(len(del))]
		}
	}
	return d.blobs[g.r.Intn(len(d.blobs))].id
}

// remember what a curator loop would have read at this point (used later, possibly stale)
func (g *mGen) observe(d *mDump) {
	if g.everSeen == nil {
		g.everSeen = map[uint64]bool{}
	}
	for _, b := range d.blobs {
		g.everSeen[b.id] = true
	}
	for _, b := range d.blobs {
		if b.del != 0 {
			continue
		}
		for i, t := range b.tracts {
			if g.r.Chance(1, 3) {
				g.reads = append(g.reads, mTractRead{b.id, i, t.ver, len(t.hosts)})
			}
		}
	}
	if len(g.reads) > 60 {
		g.reads = g.reads[len(g.reads)-60:]
	}
	if g.r.Chance(1, 2) {
		// gcMetadataLoop scan: cutoff = now - MetadataUndeleteTime
		cutoff := g.now - int64(g.r.PickInt(0, 2, 5, 10))*mSec
		sc := mScan{cutoff: cutoff}
		for _, b := range d.blobs {
			del, exp := int64(b.del)*1e9, int64(b.ex)*1e9
			if (del != 0 && del < cutoff) || (exp != 0 && exp < cutoff) {
				sc.ids = append(sc.ids, b.id)
			}
		}
		if len(sc.ids) > 0 {
			g.scans = append(g.scans, sc)
		}
	}
}

func (g *mGen) setRO(b bool) *mCmd {
	return &mCmd{op: 1, args: []int64{mB(b)}, cmd: SetReadOnlyModeCommand{ReadOnly: b}, kind: "SetReadOnly"}
}

func (g *mGen) setReg() *mCmd {
	id := uint32(g.r.Range(1, 5))
	return &mCmd{op: 2, args: []int64{int64(id)}, cmd: SetRegistrationCommand{ID: core.CuratorID(id)}, kind: "SetRegistration"}
}

func (g *mGen) addPart() *mCmd {
	p := uint32(g.r.Range(1, 4))
	return &mCmd{op: 3, args: []int64{int64(p)}, cmd: AddPartitionCommand{ID: core.PartitionID(p)}, kind: "AddPartition"}
}

func (g *mGen) syncParts() *mCmd {
	n := g.r.Range(0, 3)
	var ps []core.PartitionID
	args := []int64{int64(n)}
	for i := 0; i < n; i++ {
		p := uint32(g.r.Range(1, 5))
		ps = append(ps, core.PartitionID(p))
		args = append(args, int64(p))
	}
	return &mCmd{op: 4, args: args, cmd: SyncPartitionsCommand{Partitions: ps}, kind: "SyncPartitions"}
}

func (g *mGen) create() *mCmd {
	repl := g.r.PickInt(1, 2, 3, 3, 3, 4, 5, 10)
	exp := int64(0)
	switch g.r.Intn(6) {
	case 0:
		exp = g.now + int64(g.r.Range(1, 20))*mSec
	case 1:
		exp = g.now - int64(g.r.Range(1, 20))*mSec // already in the past
	}
	hint := g.r.Intn(4)
	return &mCmd{op: 5, args: []int64{int64(repl), g.now, exp, int64(hint)},
		cmd: CreateBlobCommand{Repl: repl, InitialTime: g.now, Expires: exp, Hint: core.StorageHint(hint)}, kind: "CreateBlob"}
}

func (g *mGen) extend(d *mDump) *mCmd {
	id := g.blobID(d, false)
	b := d.blob(id)
	n, repl := 0, 3
	if b != nil {
		n, repl = len(b.tracts), int(b.repl)
	}
	first := n
	switch g.r.Intn(10) {
	case 0:
		first = n + 1
	case 1:
		if n > 0 {
			first = n - 1
		}
	case 2:
		first = 0
	}
	k := g.r.PickInt(1, 1, 1, 2, 2, 3)
	if g.r.Chance(1, 25) {
		k = 0
	}
	var hs [][]core.TractserverID
	args := []int64{int64(id), int64(first), int64(k)}
	for i := 0; i < k; i++ {
		l := repl
		if g.r.Chance(1, 12) {
			l = repl + g.r.PickInt(-1, 1)
			if l < 1 {
				l = 1
			}
		}
		h := g.hosts(l)
		hs = append(hs, h)
		args = append(args, mHostInts(h)...)
	}
	return &mCmd{op: 6, args: args, cmd: ExtendBlobCommand{ID: core.BlobID(id), FirstTractKey: core.TractKey(first), Hosts: hs}, kind: "ExtendBlob", tblobs: []uint64{id}}
}

func (g *mGen) del(d *mDump) *mCmd {
	id := g.blobID(d, false)
	return &mCmd{op: 7, args: []int64{int64(id), g.now}, cmd: DeleteBlobCommand{ID: core.BlobID(id), When: time.Unix(0, g.now)}, kind: "DeleteBlob", tblobs: []uint64{id}}
}

func (g *mGen) undel(d *mDump) *mCmd {
	id := g.blobID(d, true)
	return &mCmd{op: 8, args: []int64{int64(id)}, cmd: UndeleteBlobCommand{ID: core.BlobID(id)}, kind: "UndeleteBlob", tblobs: []uint64{id}}
}

// a FinishDelete as older versions logged it / as StateHandler.FinishDelete(blobs) still proposes it: no cutoff.
// Only harmless lists are generated (blobs currently marked deleted, blobs that are already gone, unknown ids), possibly
// with repeated ids, so that the legacy semantics cannot remove a live blob here.
func (g *mGen) finishLegacy(d *mDump) *mCmd {
	var cand []uint64
	for _, b := range d.blobs {
		if b.del != 0 {
			cand = append(cand, b.id)
		}
	}
	var gone []uint64
	for id := range g.everSeen {
		if d.blob(id) == nil {
			gone = append(gone, id)
		}
	}
	sort.Slice(gone, func(i, j int) bool { return gone[i] < gone[j] })
	cand = append(cand, gone...)
	cand = append(cand, uint64(9)<<32|1, uint64(1)<<32|4000)
	n := g.r.Range(1, 3)
	var ids []core.BlobID
	for i := 0; i < n; i++ {
		ids = append(ids, core.BlobID(cand[g.r.Intn(len(cand))]))
	}
	if g.r.Chance(1, 2) {
		ids = append(ids, ids[0]) // the same id twice in one command
	}
	c, _ := mFinishCmd(ids, 0)
	args := []int64{0, int64(len(ids))}
	m := &mCmd{op: 9, args: args, cmd: c, kind: "FinishDelete", scanCutoff: 1 << 62}
	for _, id := range ids {
		m.args = append(m.args, int64(id))
		m.tblobs = append(m.tblobs, uint64(id))
	}
	return m
}

// FinishDelete from an earlier scan (stale allowed); nil if no scan found anything yet
func (g *mGen) finish(d *mDump) *mCmd {
	if g.r.Chance(1, 5) {
		return g.finishLegacy(d)
	}
	if len(g.scans) == 0 {
		return nil
	}
	sc := g.scans[g.r.Intn(len(g.scans))]
	if g.r.Chance(2, 3) {
		sc = g.scans[len(g.scans)-1]
	}
	var ids []core.BlobID
	for _, id := range sc.ids {
		if g.r.Chance(4, 5) {
			ids = append(ids, core.BlobID(id))
		}
	}
	if len(ids) == 0 {
		ids = append(ids, core.BlobID(sc.ids[0]))
	}
	if g.r.Chance(1, 4) {
		ids = append(ids, ids[g.r.Intn(len(ids))]) // a repeated id within one command
	}
	c, cutoff := mFinishCmd(ids, sc.cutoff)
	args := []int64{cutoff, int64(len(ids))}
	for _, id := range ids {
		args = append(args, int64(id))
	}
	m := &mCmd{op: 9, args: args, cmd: c, kind: "FinishDelete", scanCutoff: sc.cutoff}
	for _, id := range ids {
		m.tblobs = append(m.tblobs, uint64(id))
	}
	return m
}

func mTime(n int64) time.Time {
	if n == 0 {
		return time.Time{}
	}
	return time.Unix(0, n)
}

func (g *mGen) setMeta(d *mDump) *mCmd {
	id := g.blobID(d, false)
	var m, a, e int64
	if g.r.Bool() {
		m = g.now + int64(g.r.Range(-5, 5))*mSec
	}
	if g.r.Bool() {
		a = g.now + int64(g.r.Range(-5, 5))*mSec
	}
	if g.r.Chance(1, 3) {
		e = g.now + int64(g.r.Range(-10, 30))*mSec
	}
	hint := g.r.PickInt(0, 0, 1, 2, 3)
	return &mCmd{op: 10, args: []int64{int64(id), m, a, e, int64(hint)},
		cmd: SetMetadataCommand{ID: core.BlobID(id), Metadata: core.BlobInfo{MTime: mTime(m), ATime: mTime(a), Expires: mTime(e), Hint: core.StorageHint(hint)}},
		kind: "SetMetadata", tblobs: []uint64{id}}
}

func (g *mGen) mkChange(blob uint64, idx int, ver int, hs []core.TractserverID) *mCmd {
	args := []int64{int64(blob), int64(idx), int64(ver)}
	args = append(args, mHostInts(hs)...)
	return &mCmd{op: 11, args: args, tblobs: []uint64{blob}, ttracts: [][2]uint64{{blob, uint64(idx)}},
		cmd: ChangeTractCommand{ID: core.TractID{Blob: core.BlobID(blob), Index: core.TractKey(idx)}, NewVersion: ver, NewHosts: hs}, kind: "ChangeTract"}
}

// ChangeTract from an earlier read (replicateTract / fixVersion): version-at-read + 1, same number of hosts
func (g *mGen) change(d *mDump) *mCmd {
	if len(g.reads) == 0 {
		return nil
	}
	rd := g.reads[g.r.Intn(len(g.reads))]
	if g.r.Chance(1, 2) {
		// a fresh read of the current state
		var live []mTractRead
		for _, b := range d.blobs {
			if b.del == 0 {
				for i, t := range b.tracts {
					live = append(live, mTractRead{b.id, i, t.ver, len(t.hosts)})
				}
			}
		}
		if len(live) > 0 {
			rd = live[g.r.Intn(len(live))]
		}
	}
	return g.mkChange(rd.blob, rd.idx, int(rd.ver)+1, g.hosts(rd.nhosts))
}

func (g *mGen) updateTimes(d *mDump) *mCmd {
	n := g.r.Range(1, 3)
	var ups []state.UpdateTime
	args := []int64{int64(n)}
	for i := 0; i < n; i++ {
		id := g.blobID(d, false)
		var m, a int64
		if g.r.Chance(2, 3) {
			m = g.now + int64(g.r.Range(-4, 4))*mSec + int64(g.r.Intn(1000))
		}
		if g.r.Chance(2, 3) {
			a = g.now + int64(g.r.Range(-4, 4))*mSec + int64(g.r.Intn(1000))
		}
		ups = append(ups, state.UpdateTime{Blob: core.BlobID(id), MTime: m, ATime: a})
		args = append(args, int64(id), m, a)
	}
	return &mCmd{op: 12, args: args, cmd: UpdateTimesCommand{Updates: ups}, kind: "UpdateTimes"}
}

var mRSParams = map[int][2]int{1: {6, 3}, 2: {8, 3}, 3: {10, 3}, 4: {12, 5}}

func (g *mGen) allocRS() *mCmd {
	cls := g.r.Range(1, 4)
	n := (mRSParams[cls][0] + mRSParams[cls][1]) * g.r.PickInt(1, 1, 2)
	g.lastAllocCls = cls
	return &mCmd{op: 13, args: []int64{int64(n)}, cmd: AllocateRSChunkIDsCommand{N: n}, kind: "AllocateRSChunkIDs"}
}

func (g *mGen) mkCommit(part uint32, id uint64, cls int, hs []core.TractserverID, data [][]state.EncodedTract) *mCmd {
	args := []int64{int64(part), int64(id), int64(cls)}
	args = append(args, mHostInts(hs)...)
	args = append(args, int64(len(data)))
	for _, p := range data {
		args = append(args, int64(len(p)))
		for _, e := range p {
			args = append(args, int64(e.ID.Blob), int64(e.ID.Index), int64(e.Offset), int64(e.Length), int64(e.NewVersion))
		}
	}
	var tt [][2]uint64
	var tb []uint64
	for _, p := range data {
		for _, e := range p {
			tt = append(tt, [2]uint64{uint64(e.ID.Blob), uint64(e.ID.Index)})
			tb = append(tb, uint64(e.ID.Blob))
		}
	}
	return &mCmd{op: 14, args: args, ttracts: tt, tblobs: tb,
		cmd: CommitRSChunkCommand{ID: core.RSChunkID{Partition: core.PartitionID(part), ID: id}, Storage: core.StorageClass(cls), Hosts: hs, Data: data},
		kind: "CommitRSChunk"}
}

// CommitRSChunk as encCommit builds it: id from an allocation (fresh or already used), N data pieces laid out
// back to back (pack_layout_wf), tracts from an earlier scan, NewVersion = version at scan + 1
func (g *mGen) commit(d *mDump) *mCmd {
	if len(g.allocs) == 0 || len(g.reads) == 0 {
		return nil
	}
	al := g.allocs[g.r.Intn(len(g.allocs))]
	if g.r.Chance(2, 3) {
		al = g.allocs[len(g.allocs)-1]
	}
	cls := al.cls // packChunks allocates k*(N+M) ids for the class it then commits with
	nm := mRSParams[cls]
	id := al.id
	if al.n > nm[0]+nm[1] && g.r.Bool() {
		id += uint64(nm[0] + nm[1])
	}
	hs := g.hosts(nm[0] + nm[1])
	// choose distinct tracts
	want := g.r.Range(1, 5)
	used := map[[2]uint64]bool{}
	var chosen []mTractRead
	for tries := 0; tries < 20 && len(chosen) < want; tries++ {
		rd := g.reads[g.r.Intn(len(g.reads))]
		k := [2]uint64{rd.blob, uint64(rd.idx)}
		if used[k] {
			continue
		}
		used[k] = true
		chosen = append(chosen, rd)
	}
	data := make([][]state.EncodedTract, nm[0])
	offs := make([]int, nm[0])
	for _, rd := range chosen {
		p := g.r.Intn(nm[0])
		ln := g.r.PickInt(0, 1, 100, 4096, 8<<20)
		data[p] = append(data[p], state.EncodedTract{ID: core.TractID{Blob: core.BlobID(rd.blob), Index: core.TractKey(rd.idx)},
			Offset: offs[p], Length: ln, NewVersion: int(rd.ver) + 1})
		offs[p] += ln
	}
	// boundary stream: entries that carry no version (NewVersion 1); the command does not check those
	noVer := g.r.Chance(1, 6)
	if noVer {
		for _, p := range data {
			for i := range p {
				p[i].NewVersion = 1
			}
		}
	}
	m := g.mkCommit(al.part, id, cls, hs, data)
	m.noVersion = noVer
	return m
}

func (g *mGen) rsHosts(d *mDump) *mCmd {
	var part uint32 = 2<<30 | 1
	var id uint64 = 77
	n := 9
	if len(d.chunks) == 0 && g.r.Chance(4, 5) {
		return nil
	}
	if len(d.chunks) > 0 && g.r.Chance(5, 6) {
		c := d.chunks[g.r.Intn(len(d.chunks))]
		part, id, n = c.part, c.id, len(c.hosts)
	}
	if g.r.Chance(1, 8) {
		n += g.r.PickInt(-1, 1)
	}
	hs := g.hosts(n)
	args := []int64{int64(part), int64(id)}
	args = append(args, mHostInts(hs)...)
	return &mCmd{op: 15, args: args, cmd: UpdateRSHostsCommand{ID: core.RSChunkID{Partition: core.PartitionID(part), ID: id}, Hosts: hs}, kind: "UpdateRSHosts"}
}

func (g *mGen) mkUpdateSC(id uint64, cls int) *mCmd {
	return &mCmd{op: 16, args: []int64{int64(id), int64(cls)},
		cmd: UpdateStorageClassCommand{ID: core.BlobID(id), Storage: core.StorageClass(cls)}, kind: "UpdateStorageClass", tblobs: []uint64{id}}
}

func (g *mGen) updateSC(d *mDump) *mCmd {
	id := g.blobID(d, false)
	cls := g.r.Range(0, 4)
	// storageClassLoop only proposes a class every tract already has; favour that case
	if b := d.blob(id); b != nil && len(b.tracts) > 0 && g.r.Chance(2, 3) {
		for c := 1; c <= 4; c++ {
			all := true
			for _, t := range b.tracts {
				if t.rs[c-1] == nil {
					all = false
				}
			}
			if all {
				cls = c
			}
		}
	}
	return g.mkUpdateSC(id, cls)
}

func (g *mGen) checksum() *mCmd {
	var start state.ChecksumPosition
	if len(g.cks) > 0 && g.r.Chance(2, 3) {
		start = g.cks[len(g.cks)-1].next
	}
	n := g.r.Range(1, 3)
	args := []int64{0, 0, 0, 0, 0, int64(n)}
	if start.Blob != nil {
		args[0], args[1] = 1, int64(binary.BigEndian.Uint64(start.Blob))
	}
	if start.RS != nil {
		k := start.RS
		args[2] = 1
		args[3] = int64(binary.BigEndian.Uint32(k[0:4]))
		args[4] = int64(uint64(binary.BigEndian.Uint16(k[4:6]))<<32 | uint64(binary.BigEndian.Uint32(k[6:10])))
	}
	return &mCmd{op: 17, args: args, cmd: ChecksumCommand{Start: start, N: n}, kind: "Checksum"}
}

func (g *mGen) mkVerify(idx, ck uint64) *mCmd {
	hi, lo := mSplit64(ck)
	return &mCmd{op: 18, args: []int64{int64(idx), hi, lo}, cmd: VerifyChecksumCommand{Index: idx, Checksum: ck}, kind: "VerifyChecksum"}
}

func (g *mGen) verify() *mCmd {
	if len(g.cks) == 0 {
		return nil
	}
	c := g.cks[len(g.cks)-1]
	if g.r.Chance(1, 5) {
		c = g.cks[g.r.Intn(len(g.cks))]
	}
	return g.mkVerify(c.index, c.checksum)
}

// learn from a result (what the proposer would get back)
func (g *mGen) learn(c *mCmd, idx uint64, res interface{}) {
	switch r := res.(type) {
	case AllocateRSChunkIDsResult:
		if r.Err == core.NoError {
			g.allocs = append(g.allocs, mAlloc{uint32(r.ID.Partition), r.ID.ID, int(c.args[0]), g.lastAllocCls})
		}
	case ChecksumResult:
		g.cks = append(g.cks, mCkRes{r.Index, r.Checksum, r.Next})
	}
	if c.op == 1 {
		g.ro = c.args[0] == 1
	}
}

// next submittable command for the current state; bias selects the mix ("c10" broad, "c11" delete/RS heavy)
func (g *mGen) next(d *mDump, step int, bias string) *mCmd {
	g.tick()
	if g.r.Chance(1, 2) {
		g.observe(d)
	}
	if step == 0 {
		return g.setReg()
	}
	if step == 1 || len(d.parts) == 0 && g.r.Chance(3, 4) {
		return g.addPart()
	}
	if g.ro && g.r.Chance(1, 4) {
		return g.setRO(false)
	}
	nblobs := len(d.blobs)
	for {
		var c *mCmd
		x := g.r.Intn(100)
		if bias == "c11" {
			switch {
			case x < 2:
				c = g.setRO(true)
			case x < 4:
				c = g.addPart()
			case x < 5:
				c = g.syncParts()
			case x < 15 || nblobs < 2:
				c = g.create()
			case x < 30:
				c = g.extend(d)
			case x < 40:
				c = g.del(d)
			case x < 48:
				c = g.undel(d)
			case x < 58:
				c = g.finish(d)
			case x < 62:
				c = g.setMeta(d)
			case x < 72:
				c = g.change(d)
			case x < 75:
				c = g.updateTimes(d)
			case x < 80:
				c = g.allocRS()
			case x < 90:
				c = g.commit(d)
			case x < 93:
				c = g.rsHosts(d)
			case x < 99:
				c = g.updateSC(d)
			default:
				c = g.setReg()
			}
		} else {
			switch {
			case x < 3:
				c = g.setRO(!g.ro || g.r.Chance(1, 3))
			case x < 5:
				c = g.setReg()
			case x < 8:
				c = g.addPart()
			case x < 11:
				c = g.syncParts()
			case x < 21 || nblobs < 2:
				c = g.create()
			case x < 34:
				c = g.extend(d)
			case x < 40:
				c = g.del(d)
			case x < 44:
				c = g.undel(d)
			case x < 49:
				c = g.finish(d)
			case x < 54:
				c = g.setMeta(d)
			case x < 63:
				c = g.change(d)
			case x < 68:
				c = g.updateTimes(d)
			case x < 73:
				c = g.allocRS()
			case x < 81:
				c = g.commit(d)
			case x < 85:
				c = g.rsHosts(d)
			case x < 90:
				c = g.updateSC(d)
			case x < 95:
				c = g.checksum()
			default:
				c = g.verify()
			}
		}
		if c != nil {
			return c
		}
	}
}

// a command just outside `submittable` for the current state (nil if the state offers no opportunity)
func (g *mGen) malformed(d *mDump) *mCmd {
	var live []mTractRead
	for _, b := range d.blobs {
		if b.del == 0 {
			for i, t := range b.tracts {
				live = append(live, mTractRead{b.id, i, t.ver, len(t.hosts)})
			}
		}
	}
	switch g.r.Intn(6) {
	case 4: // outside hosts_sub, no crash: a host id of 0 or >= 2^20 in an ExtendBlob (20-bit packing, zero-terminated length)
		var lb []mBlob
		for _, b := range d.blobs {
			if b.del == 0 && b.repl >= 1 {
				lb = append(lb, b)
			}
		}
		if len(lb) == 0 {
			return nil
		}
		b := lb[g.r.Intn(len(lb))]
		hs := g.hosts(int(b.repl))
		hs[g.r.Intn(len(hs))] = core.TractserverID(g.r.PickInt(0, 1<<20, 1<<20+5, 1<<21))
		args := []int64{int64(b.id), int64(len(b.tracts)), 1}
		args = append(args, mHostInts(hs)...)
		return &mCmd{op: 6, args: args, malformed: 3, kind: "ExtendBlob", tblobs: []uint64{b.id},
			cmd: ExtendBlobCommand{ID: core.BlobID(b.id), FirstTractKey: core.TractKey(len(b.tracts)), Hosts: [][]core.TractserverID{hs}}}
	case 5: // outside submittable, no crash: CommitRSChunk naming the REPLICATED class
		if len(live) == 0 {
			return nil
		}
		rd := live[g.r.Intn(len(live))]
		data := [][]state.EncodedTract{{{ID: core.TractID{Blob: core.BlobID(rd.blob), Index: core.TractKey(rd.idx)}, Offset: 0, Length: 10, NewVersion: int(rd.ver) + 1}}}
		m := g.mkCommit(2<<30|1, 998000+uint64(g.r.Intn(100)), 0, g.hosts(9), data)
		m.malformed = 3
		return m
	case 0: // a checksum that does not match the one this replica computed at that index
		if len(g.cks) == 0 {
			return nil
		}
		c := g.cks[len(g.cks)-1]
		m := g.mkVerify(c.index, c.checksum^1)
		m.malformed = 1
		return m
	case 1: // unknown storage class in a commit that reaches Class.Set
		if len(live) == 0 {
			return nil
		}
		rd := live[g.r.Intn(len(live))]
		data := [][]state.EncodedTract{{{ID: core.TractID{Blob: core.BlobID(rd.blob), Index: core.TractKey(rd.idx)}, Offset: 0, Length: 10, NewVersion: int(rd.ver) + 1}}}
		m := g.mkCommit(2<<30|1, 999000+uint64(g.r.Intn(100)), g.r.PickInt(5, 9, 200), g.hosts(9), data)
		m.malformed = 1
		return m
	case 2: // unknown storage class for a blob that has tracts
		if len(live) == 0 {
			return nil
		}
		m := g.mkUpdateSC(live[g.r.Intn(len(live))].blob, g.r.PickInt(5, 9, 77))
		m.malformed = 1
		return m
	default: // ChangeTract with Index = TractsLength (the `>` that should be `>=`): reads past the vector
		if len(live) == 0 {
			return nil
		}
		rd := live[g.r.Intn(len(live))]
		b := d.blob(rd.blob)
		m := g.mkChange(rd.blob, len(b.tracts), 2, g.hosts(int(b.repl)))
		m.malformed = 2
		return m
	}
}

// apply one command to a replica; returns result line, dump, and whether the code panicked
func mApply(rep *mReplica, c *mCmd, idx uint64) (res interface{}, panicked string) {
	defer func() {
		if e := recover(); e != nil {
			panicked = fmt.Sprint(e)
		}
	}()
	res = rep.h.Apply(c.entry(idx))
	return
}

func mObs(res []int64, d *mDump) []int64 {
	return append(append([]int64{}, res...), d.ints()...)
}

// ---------------------------------------------------------------- misc

func mFingerprint(kinds []string) string {
	s := append([]string(nil), kinds...)
	sort.Strings(s)
	return fmt.Sprint(s)
}

func mCleanupOld() {
	// remove directories left behind by killed child processes
	for _, base := range []string{"/dev/shm", os.TempDir()} {
		m, _ := filepath.Glob(filepath.Join(base, "blbverif-child-*"))
		for _, p := range m {
			if st, err := os.Stat(p); err == nil && time.Since(st.ModTime()) > 10*time.Minute {
				os.RemoveAll(p)
			}
		}
	}
}
