package durable

// C10 harness, master half (injected by `go test -overlay` into internal/master/durable; lives in /verif).
// One case = one generated command history delivered to real master StateHandlers (nil raft):
//   A  straight application, snapshot (gob of the state) taken after command j
//   B  a replica that applied the first k <= j commands restores A's snapshot and gets the commands after j
//      (k = 0 is the restarted master: fresh state + snapshot + log suffix)
// Every Apply result and the state after it are compared with the extracted Coq model (the state checksum is
// modelled exactly); the restore step is judged relationally (verdict 7 = the restored replica does not hold
// the snapshot's state); monitors compare the Go replicas with each other.

import (
	"bytes"
	"context"
	"fmt"
	"os"
	"os/exec"
	"strconv"
	"strings"
	"testing"
	"time"

	"github.com/westerndigitalcorporation/blb/internal/core"
	"github.com/westerndigitalcorporation/blb/pkg/raft/raft"
	vw "github.com/westerndigitalcorporation/blb/pkg/verifwire"
)

type mmCmd struct {
	op        int64
	args      []int64
	cmd       interface{}
	kind      string
	malformed bool
}

func (c *mmCmd) line(idx uint64) []int64 { return append([]int64{c.op, int64(idx)}, c.args...) }

func mmDump(h *StateHandler) []int64 {
	s := h.state
	out := []int64{int64(len(s.Partitions))}
	for _, c := range s.Partitions {
		out = append(out, int64(c))
	}
	ro := int64(0)
	if s.ReadOnly {
		ro = 1
	}
	return append(out, int64(s.NextCuratorID), int64(s.NextTractserverID), ro)
}

func mmResult(res interface{}) []int64 {
	switch r := res.(type) {
	case nil:
		return []int64{0}
	case core.Error:
		return []int64{1, int64(r)}
	case core.CuratorID:
		return []int64{2, int64(r)}
	case core.TractserverID:
		return []int64{3, int64(r)}
	case NewPartitionRes:
		return []int64{4, int64(r.PartitionID), int64(r.Err)}
	case ChecksumRes:
		return []int64{5, int64(r.Index), int64(r.Checksum)}
	}
	return []int64{-99}
}

func mmEq(a, b []int64) bool {
	if len(a) != len(b) {
		return false
	}
	for i := range a {
		if a[i] != b[i] {
			return false
		}
	}
	return true
}

func mmNew() *StateHandler {
	cfg := DefaultStateConfig
	return NewStateHandler(&cfg, nil)
}

func mmSnapshot(h *StateHandler) []byte {
	s, err := h.Snapshot()
	if err != nil {
		panic(err)
	}
	var buf bytes.Buffer
	if err := s.Save(&buf); err != nil {
		panic(err)
	}
	s.Release()
	return buf.Bytes()
}

func mmApply(h *StateHandler, c *mmCmd, idx uint64) (res interface{}, panicked string) {
	defer func() {
		if e := recover(); e != nil {
			panicked = fmt.Sprint(e)
		}
	}()
	res = h.Apply(raft.Entry{Index: idx, Cmd: cmdToBytes(c.cmd)})
	return
}

type mmCk struct {
	idx uint64
	ck  uint32
}

func mmGen(r *vw.Rng, h *StateHandler, cks []mmCk, malformed bool) *mmCmd {
	if malformed && len(cks) > 0 {
		c := cks[len(cks)-1]
		return &mmCmd{op: 205, args: []int64{int64(c.idx), int64(c.ck ^ 1)}, cmd: ChecksumVerifyCmd{Index: c.idx, Checksum: c.ck ^ 1}, kind: "ChecksumVerify", malformed: true}
	}
	x := r.Intn(100)
	switch {
	case x < 22:
		return &mmCmd{op: 201, cmd: RegisterCuratorCmd{}, kind: "RegisterCurator"}
	case x < 40:
		return &mmCmd{op: 202, cmd: RegisterTractserverCmd{}, kind: "RegisterTractserver"}
	case x < 65:
		// any id a curator might present: valid, zero, not yet handed out
		cid := r.Intn(int(h.state.NextCuratorID) + 2)
		return &mmCmd{op: 203, args: []int64{int64(cid)}, cmd: NewPartitionCmd{CuratorID: core.CuratorID(cid)}, kind: "NewPartition"}
	case x < 80:
		b := r.Chance(2, 5)
		if h.state.ReadOnly {
			b = r.Chance(1, 4)
		}
		v := int64(0)
		if b {
			v = 1
		}
		return &mmCmd{op: 206, args: []int64{v}, cmd: SetReadOnlyModeCmd{ReadOnly: b}, kind: "SetReadOnlyMode"}
	case x < 92 || len(cks) == 0:
		return &mmCmd{op: 204, cmd: ChecksumRequestCmd{}, kind: "ChecksumRequest"}
	default:
		c := cks[len(cks)-1]
		if r.Chance(1, 4) {
			c = cks[r.Intn(len(cks))]
		}
		return &mmCmd{op: 205, args: []int64{int64(c.idx), int64(c.ck)}, cmd: ChecksumVerifyCmd{Index: c.idx, Checksum: c.ck}, kind: "ChecksumVerify"}
	}
}

func c10mRunCase(ci int, tr *vw.Trace, child bool) {
	id := fmt.Sprint(ci)
	r := vw.NewRng(vw.Seed() ^ 0xC10A).Fork(uint64(ci))
	A := mmNew()
	if tr != nil {
		tr.Case(id)
	}
	n := r.Range(3, vw.Scale(30, 60))
	wantMalformed := r.Chance(1, 10)
	j := r.Intn(n + 1)
	var snap []byte
	var snapDump []int64
	var cmds []*mmCmd
	var idxs []uint64
	var ress [][]int64
	var cks []mmCk
	report := func(sig, what string, detail map[string]interface{}) {
		vw.Report(vw.Violation{Property: "C10", Signature: sig, What: what, Case: id, Detail: detail})
	}
	// raft calls Snapshot() on the FSM goroutine and Save() later: up to 3 commands are applied in between
	var snapObj raft.Snapshoter
	snapTaken, snapLogged := false, false
	deferLeft := 0
	type tline struct{ op, obs []int64 }
	var pending []tline
	emit := func(op, obs []int64) {
		if tr == nil {
			return
		}
		if snapTaken && !snapLogged {
			pending = append(pending, tline{op, obs})
			return
		}
		tr.Op(op...)
		tr.Obs(obs...)
	}
	beginSnap := func() {
		var err error
		if snapObj, err = A.Snapshot(); err != nil {
			panic(err)
		}
		snapTaken = true
		snapDump = mmDump(A)
		deferLeft = r.PickInt(0, 1, 2, 3)
	}
	finishSnap := func() {
		if !snapTaken || snapLogged {
			return
		}
		var buf bytes.Buffer
		if err := snapObj.Save(&buf); err != nil {
			panic(err)
		}
		snapObj.Release()
		snap = buf.Bytes()
		snapLogged = true
		if tr != nil {
			tr.Op(211)
			tr.Obs(snapDump...)
			for _, l := range pending {
				tr.Op(l.op...)
				tr.Obs(l.obs...)
			}
			pending = nil
		}
	}
	if tr != nil {
		// a master case starts with an op >= 200
		tr.Op(214)
		tr.Obs(mmDump(A)...)
	}
	if j == 0 {
		beginSnap()
		if deferLeft == 0 {
			finishSnap()
		}
	}
	idx := uint64(0)
	died := false
	for p := 1; p <= n; p++ {
		c := mmGen(r, A, cks, wantMalformed && p == n)
		idx += uint64(r.PickInt(1, 1, 1, 2, 3))
		if c.malformed {
			vw.Stat("m-malformed:"+c.kind, 1)
			if child {
				A.Apply(raft.Entry{Index: idx, Cmd: cmdToBytes(c.cmd)})
				fmt.Println("C10MCHILD-SURVIVED")
				return
			}
			finishSnap()
			if c10mSpawnChild(ci) {
				vw.Stat("m-malformed-crash", 1)
				tr.Op(c.line(idx)...)
				tr.Obs(-3)
				died = true
				break
			}
			vw.Stat("m-malformed-survived", 1)
		}
		res, pan := mmApply(A, c, idx)
		if pan != "" {
			finishSnap()
			report("crash-on-api-command:master:"+c.kind, "a command the master's own API can submit made the replica panic while applying it",
				map[string]interface{}{"panic": pan, "op": vw.Ints(c.line(idx))})
			died = true
			break
		}
		rl := mmResult(res)
		if cr, ok := res.(ChecksumRes); ok {
			cks = append(cks, mmCk{cr.Index, cr.Checksum})
		}
		cmds, idxs, ress = append(cmds, c), append(idxs, idx), append(ress, rl)
		vw.Stat("m-cmd:"+c.kind, 1)
		emit(c.line(idx), append(append([]int64{}, rl...), mmDump(A)...))
		if snapTaken && !snapLogged {
			if deferLeft--; deferLeft <= 0 {
				finishSnap()
			} else {
				vw.Stat("m-commands-between-Snapshot-and-Save", 1)
			}
		}
		if p == j {
			beginSnap()
			if deferLeft == 0 {
				finishSnap()
			}
		}
	}
	finishSnap()
	if child {
		fmt.Println("C10MCHILD-NO-MALFORMED")
		return
	}
	n = len(cmds)
	if died || snap == nil {
		return
	}
	finalA := mmDump(A)
	ckA := A.state.checksum()
	jj := j
	// route B
	k := r.Intn(jj + 1)
	switch r.Intn(4) {
	case 0:
		k = 0 // restarted master: fresh state
	case 1:
		k = jj
	}
	B := mmNew()
	tr.Op(214)
	tr.Obs(mmDump(B)...)
	for p := 1; p <= k; p++ {
		res, _ := mmApply(B, cmds[p-1], idxs[p-1])
		tr.Op(cmds[p-1].line(idxs[p-1])...)
		tr.Obs(append(mmResult(res), mmDump(B)...)...)
	}
	before := mmDump(B)
	B.SnapshotRestore(bytes.NewReader(snap), idxs[len(idxs)-1], 1)
	after := mmDump(B)
	tr.Op(append([]int64{212}, after...)...)
	tr.Obs(777, 1)
	f7 := false
	if !mmEq(after, snapDump) {
		// the one deviation explained by gob decoding into the live struct: everything equals the snapshot except
		// that ReadOnly, false (= not transmitted) in the snapshot, kept the replica's old value true
		L := len(after)
		if len(snapDump) == L && mmEq(after[:L-1], snapDump[:L-1]) && snapDump[L-1] == 0 && before[len(before)-1] == 1 && after[L-1] == 1 {
			f7 = true
			report("restore-keeps-old-field:master:ReadOnly", "after SnapshotRestore the master replica is still read-only although the snapshot it restored is not (a field that is zero in the snapshot kept its old value)",
				map[string]interface{}{"k": k, "j": jj, "before": vw.Ints(before), "snapshot": vw.Ints(snapDump), "after": vw.Ints(after)})
		} else {
			report("restore-not-replace:master", "after SnapshotRestore the master replica does not hold the state the snapshot was taken at",
				map[string]interface{}{"k": k, "j": jj, "before": vw.Ints(before), "snapshot_taken_at": vw.Ints(snapDump), "after": vw.Ints(after)})
		}
	}
	suffix := ""
	if f7 {
		suffix = ":after-restore-kept-ReadOnly"
	}
	for p := jj + 1; p <= n; p++ {
		res, pan := mmApply(B, cmds[p-1], idxs[p-1])
		if pan != "" {
			report("crash-on-api-command:master:"+cmds[p-1].kind, "a replica panicked while applying a submittable command", map[string]interface{}{"panic": pan})
			return
		}
		rl := mmResult(res)
		tr.Op(cmds[p-1].line(idxs[p-1])...)
		tr.Obs(append(append([]int64{}, rl...), mmDump(B)...)...)
		if !mmEq(rl, ress[p-1]) {
			report("result-diverge-snapshot:master"+suffix, "a master replica restored from a snapshot returned a different result for the same command",
				map[string]interface{}{"position": p, "straight": vw.Ints(ress[p-1]), "restored": vw.Ints(rl), "k": k, "j": jj})
			break
		}
	}
	finalB := mmDump(B)
	if !mmEq(finalA, finalB) || ckA != B.state.checksum() {
		report("replicas-diverge-snapshot:master"+suffix, "two master replicas given the same command sequence hold different state (snapshot route vs straight application); the periodic checksum comparison would abort the process",
			map[string]interface{}{"k": k, "j": jj, "straight": vw.Ints(finalA), "restored": vw.Ints(finalB), "checksum_straight": ckA, "checksum_restored": B.state.checksum()})
	}
	vw.Distinct(fmt.Sprintf("m/%d/%d/%d/%v", n, jj, k, finalA))
	if ci < 2 {
		var sb strings.Builder
		fmt.Fprintf(&sb, "master case %d: n=%d snapshot after %d onto replica at %d:", ci, n, jj, k)
		for p, c := range cmds {
			if p < 14 {
				fmt.Fprintf(&sb, " %s@%d->%v", c.kind, idxs[p], ress[p])
			}
		}
		vw.Sample(sb.String())
	}
}

func c10mSpawnChild(ci int) bool {
	ctx, cancel := context.WithTimeout(context.Background(), 90*time.Second)
	defer cancel()
	cmd := exec.CommandContext(ctx, os.Args[0], "-test.run", "^TestVerifC10M$", "-test.count=1")
	cmd.Env = append(os.Environ(), "VERIF_C10M_CHILD="+strconv.Itoa(ci))
	out, err := cmd.CombinedOutput()
	survived := strings.Contains(string(out), "C10MCHILD-SURVIVED")
	if strings.Contains(string(out), "C10MCHILD-NO-MALFORMED") || (err == nil && !survived) {
		panic("C10M harness: child did not reach the malformed command\n" + string(out))
	}
	return !survived
}

func TestVerifC10M(t *testing.T) {
	if !vw.Enabled() {
		t.Skip("verification harness: run through /verif/bin/check")
	}
	if ch := os.Getenv("VERIF_C10M_CHILD"); ch != "" {
		ci, _ := strconv.Atoi(ch)
		c10mRunCase(ci, nil, true)
		return
	}
	tr := vw.OpenTrace("C10M.trace")
	defer tr.Close()
	defer vw.Finish("C10M")
	ncases := vw.Scale(1500, 40000)
	for ci := 0; ci < ncases; ci++ {
		if !vw.CaseSelected(fmt.Sprint(ci)) {
			continue
		}
		c10mRunCase(ci, tr, false)
	}
}
