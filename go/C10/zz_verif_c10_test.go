package durable

// C10 harness, curator half (injected by `go test -overlay`; lives in /verif).
// One case = one generated command history, delivered to real StateHandlers (nil raft) along three routes:
//   A  straight: every command once, in order                      (snapshot taken after command j)
//   B  a fresh replica applies the first k <= j commands, restores A's snapshot, then is handed the
//      commands from position s <= j+1 on (so some already-applied ones again)
//   C  a fresh replica applies the first m commands, is restarted (database reopened), and is handed
//      the commands from position s' <= m+1 on
// Every Apply result and the full canonical dump after it go to the trace and are compared with the extracted
// Coq model; the monitors compare the Go replicas with each other (dump, production checksum, results).
// Commands outside `submittable` end a case and run in a child process first, so that a crash is an observation.

import (
	"bytes"
	"context"
	"fmt"
	"os"
	"os/exec"
	"strconv"
	"strings"
	"testing"
	"time"

	"github.com/westerndigitalcorporation/blb/pkg/raft/raft"
	vw "github.com/westerndigitalcorporation/blb/pkg/verifwire"
)

type c10Hist struct {
	cmds []*mCmd
	idx  []uint64
	res  [][]int64 // route A results
}

// run one case; tr == nil in the child process (nothing recorded; the last, malformed command is executed for real)
func c10RunCase(ci int, tr *vw.Trace, child bool) {
	id := fmt.Sprint(ci)
	r := vw.NewRng(vw.Seed()).Fork(uint64(ci))
	g := mNewGen(r)
	A := mNewReplica("c10a")
	defer A.close()
	if tr != nil {
		tr.Case(id)
	}
	n := r.Range(6, vw.Scale(36, 60))
	wantMalformed := r.Chance(1, 7)
	if wantMalformed {
		n = r.Range(4, 20)
	}
	j := r.Intn(n + 1)
	var snap []byte
	var snapDump []int64
	snapLogged, snapTaken := false, false
	H := &c10Hist{}
	idx := uint64(0)
	var kinds []string
	report := func(sig, what string, detail map[string]interface{}) {
		vw.Report(vw.Violation{Property: "C10", Signature: sig, What: what, Case: id, Detail: detail})
	}
	// raft calls Snapshot() on the FSM goroutine and the snapshoter's Save() later, with more commands applied in
	// between: the snapshot object is taken after command j, Save() runs after up to 3 further commands.
	var snapObj raft.Snapshoter
	deferLeft := 0
	type tline struct{ op, obs []int64 }
	var pending []tline
	emit := func(op, obs []int64) {
		if tr == nil {
			return
		}
		if snapTaken && !snapLogged {
			pending = append(pending, tline{op, obs})
			return
		}
		tr.Op(op...)
		tr.Obs(obs...)
	}
	beginSnap := func() {
		var err error
		if snapObj, err = A.h.Snapshot(); err != nil {
			panic(err)
		}
		snapTaken = true
		snapDump = mTakeDump(A.h).ints()
		deferLeft = r.PickInt(0, 1, 2, 3)
	}
	saveOnly := func() { // Save() + Release(): from here on the snapshot is bytes
		if snapObj == nil {
			return
		}
		var buf bytes.Buffer
		if err := snapObj.Save(&buf); err != nil {
			panic(err)
		}
		snapObj.Release()
		snapObj = nil
		snap = buf.Bytes()
	}
	finishSnap := func() {
		saveOnly()
		if snap != nil && !snapLogged {
			snapLogged = true
			if tr == nil {
				return
			}
			tr.Op(101)
			tr.Obs(int64(mSnapIndex(snap)))
			for _, l := range pending {
				tr.Op(l.op...)
				tr.Obs(l.obs...)
			}
			pending = nil
		}
	}
	defer saveOnly() // never leave a read transaction open
	applyA := func(c *mCmd, idx uint64) (res interface{}, pan string) {
		if snapObj == nil {
			return mApply(A, c, idx)
		}
		// a writer that has to grow the bolt mmap waits for the snapshot's read transaction: save first then
		done := make(chan struct{})
		go func() { res, pan = mApply(A, c, idx); close(done) }()
		select {
		case <-done:
		case <-time.After(60 * time.Millisecond):
			vw.Stat("deferred-save-blocked-writer", 1)
			saveOnly()
			<-done
		}
		return
	}
	if j == 0 {
		beginSnap()
		if deferLeft == 0 {
			finishSnap()
		}
	}
	cur := mTakeDump(A.h)
	died := false
	for p := 1; p <= n && !died; p++ {
		var c *mCmd
		if wantMalformed && p == n && !cur.ro {
			c = g.malformed(cur)
		}
		if c == nil {
			c = g.next(cur, p-1, "c10")
		}
		idx += uint64(r.PickInt(1, 1, 1, 1, 2, 3)) // raft indices have gaps (configuration entries, no-ops)
		if c.malformed == 3 {
			vw.Stat("outside-submittable-no-crash:"+c.kind, 1)
		}
		if c.malformed == 1 || c.malformed == 2 {
			vw.Stat("malformed:"+c.kind, 1)
			if child {
				// the real thing: if this kills the process, the parent sees it
				saveOnly()
				A.h.Apply(c.entry(idx))
				fmt.Println("C10CHILD-SURVIVED")
				return
			}
			finishSnap()
			crashed := c10SpawnChild(ci)
			if c.malformed == 2 {
				// unspecified behaviour (read past a flatbuffer vector): not compared, the case ends here
				vw.Stat(fmt.Sprintf("unspecified-crashed=%v", crashed), 1)
				tr.Op(c.line(idx)...)
				tr.Obs(-3)
				died = true
				break
			}
			if crashed {
				vw.Stat("malformed-crash", 1)
				tr.Op(c.line(idx)...)
				tr.Obs(-3)
				died = true
				break
			}
			vw.Stat("malformed-survived", 1)
		}
		res, pan := applyA(c, idx)
		if pan != "" {
			finishSnap()
			report("crash-on-api-command:"+c.kind, "a command the service's own API can submit made the replica panic while applying it",
				map[string]interface{}{"panic": pan, "op": vw.Ints(c.line(idx))})
			died = true
			break
		}
		g.learn(c, idx, res)
		rl := mResult(res)
		if c.op == 17 {
			// the CRC the code computed is an oracle input of the model
			c.args = append(c.args, rl[len(rl)-3], rl[len(rl)-2])
		}
		cur = mTakeDump(A.h)
		H.cmds = append(H.cmds, c)
		H.idx = append(H.idx, idx)
		H.res = append(H.res, rl)
		kinds = append(kinds, c.kind)
		vw.Stat("cmd:"+c.kind, 1)
		if len(rl) >= 2 && rl[0] != 0 && rl[0] != 2 && rl[0] != 10 {
			e := rl[1]
			if rl[0] == 5 {
				e = rl[2]
			}
			vw.Stat(fmt.Sprintf("err:%s:%d", c.kind, e), 1)
		}
		emit(c.line(idx), mObs(rl, cur))
		if snapTaken && !snapLogged {
			if deferLeft--; deferLeft <= 0 {
				finishSnap()
			} else {
				vw.Stat("commands-between-Snapshot-and-Save", 1)
			}
		}
		if p == j {
			beginSnap()
			if deferLeft == 0 {
				finishSnap()
			}
		}
	}
	finishSnap()
	if child {
		fmt.Println("C10CHILD-NO-MALFORMED")
		return
	}
	n = len(H.cmds)
	if died || snap == nil {
		vw.Distinct(mFingerprint(kinds) + "/died")
		return
	}
	finalA := cur.ints()
	ckA := mFullChecksum(A.h)

	// deliver positions [from..to] (1-based) to rep, recording; returns results by position
	deliver := func(route string, rep *mReplica, from, to, fresh int, out map[int][]int64) bool {
		for p := from; p <= to; p++ {
			c := H.cmds[p-1]
			res, pan := mApply(rep, c, H.idx[p-1])
			if pan != "" {
				report("crash-on-api-command:"+c.kind, "a command the service's own API can submit made a replica panic while applying it",
					map[string]interface{}{"panic": pan, "op": vw.Ints(c.line(H.idx[p-1])), "route": route})
				return false
			}
			rl := mResult(res)
			out[p] = rl
			tr.Op(c.line(H.idx[p-1])...)
			tr.Obs(mObs(rl, mTakeDump(rep.h))...)
			// a command this replica sees for the first time must return what the straight replica returned; an
			// already-applied command handed over again is skipped (nil) or, at worst, answers the same again
			if !mIntsEq(rl, H.res[p-1]) && !(p < fresh && len(rl) == 1 && rl[0] == 0) {
				report("result-diverge-"+route, "a replica returned a different result for the same command at the same index",
					map[string]interface{}{"position": p, "redelivered": p < fresh, "straight": vw.Ints(H.res[p-1]), route: vw.Ints(rl), "op": vw.Ints(c.line(H.idx[p-1]))})
				return false
			}
		}
		return true
	}
	compare := func(route string, rep *mReplica, out map[int][]int64, fresh int, detail map[string]interface{}) {
		d := mTakeDump(rep.h).ints()
		if !mIntsEq(d, finalA) {
			detail["dump_straight"] = vw.Ints(finalA)
			detail["dump_"+route] = vw.Ints(d)
			report("replicas-diverge-"+route, "two replicas given the same command sequence hold different state ("+route+" route vs straight application)", detail)
		} else if ck := mFullChecksum(rep.h); ck != ckA {
			detail["checksum_straight"], detail["checksum_"+route] = ckA, ck
			report("checksum-diverge-"+route, "two replicas with the same logical state compute different production checksums ("+route+" route)", detail)
		}
	}

	// ---- route B: prefix k, snapshot of prefix j restored on top, suffix from s <= j+1
	jj := j
	if jj > n {
		jj = n
	}
	k := r.Intn(jj + 1)
	if r.Chance(1, 4) {
		k = jj
	}
	s := r.Range(1, jj+1)
	if r.Chance(1, 3) {
		s = jj + 1
	}
	B := mNewReplica("c10b")
	tr.Op(104)
	tr.Obs(mTakeDump(B.h).ints()...)
	outB := map[int][]int64{}
	if deliver("snapshot", B, 1, k, 1, outB) {
		B.restore(snap)
		db := mTakeDump(B.h).ints()
		tr.Op(102)
		tr.Obs(db...)
		if !mIntsEq(db, snapDump) {
			report("restore-not-replace", "after SnapshotRestore the replica does not hold the snapshot's state",
				map[string]interface{}{"k": k, "j": jj, "snapshot": vw.Ints(snapDump), "after": vw.Ints(db)})
		}
		outB = map[int][]int64{}
		if deliver("snapshot", B, s, n, jj+1, outB) {
			compare("snapshot", B, outB, jj+1, map[string]interface{}{"k": k, "j": jj, "suffix_from": s})
		}
	}
	B.close()

	// ---- route C: prefix m, restart, re-delivery from s' <= m+1
	m := r.Intn(n + 1)
	s2 := r.Range(1, m+1)
	C := mNewReplica("c10c")
	tr.Op(104)
	tr.Obs(mTakeDump(C.h).ints()...)
	outC := map[int][]int64{}
	if deliver("restart", C, 1, m, 1, outC) {
		before := mTakeDump(C.h).ints()
		C.restart()
		dc := mTakeDump(C.h).ints()
		tr.Op(103)
		tr.Obs(dc...)
		if !mIntsEq(before, dc) {
			report("restart-changes-state", "reopening the database changed the state",
				map[string]interface{}{"before": vw.Ints(before), "after": vw.Ints(dc)})
		}
		outC = map[int][]int64{}
		if deliver("restart", C, s2, n, m+1, outC) {
			compare("restart", C, outC, m+1, map[string]interface{}{"m": m, "redeliver_from": s2})
		}
	}
	C.close()
	vw.Stat("routes", 3)
	vw.Distinct(fmt.Sprintf("%s/%d/%d/%d/%d/%d", mFingerprint(kinds), jj, k, s, m, s2))
	if ci < 3 {
		var sb strings.Builder
		fmt.Fprintf(&sb, "case %d: n=%d snapshot after %d, route B k=%d suffix from %d, route C restart after %d redeliver from %d; commands:", ci, n, jj, k, s, m, s2)
		for p, c := range H.cmds {
			if p < 12 {
				fmt.Fprintf(&sb, " %s@%d->%v", c.kind, H.idx[p], H.res[p])
			}
		}
		vw.Sample(sb.String())
	}
}

// re-run case ci in a child process up to and including its malformed command; true if the child died
func c10SpawnChild(ci int) bool {
	ctx, cancel := context.WithTimeout(context.Background(), 90*time.Second)
	defer cancel()
	cmd := exec.CommandContext(ctx, os.Args[0], "-test.run", "^TestVerifC10$", "-test.count=1")
	cmd.Env = append(os.Environ(), "VERIF_C10_CHILD="+strconv.Itoa(ci))
	out, err := cmd.CombinedOutput()
	survived := strings.Contains(string(out), "C10CHILD-SURVIVED")
	if ctx.Err() != nil {
		panic("C10 harness: child process hung\n" + string(out))
	}
	if strings.Contains(string(out), "C10CHILD-NO-MALFORMED") {
		panic("C10 harness: child did not reach the malformed command (generator not deterministic?)\n" + string(out))
	}
	if err == nil && !survived {
		panic("C10 harness: child exited cleanly without marker\n" + string(out))
	}
	return !survived
}

func TestVerifC10(t *testing.T) {
	if !vw.Enabled() {
		t.Skip("verification harness: run through /verif/bin/check")
	}
	if ch := os.Getenv("VERIF_C10_CHILD"); ch != "" {
		ci, _ := strconv.Atoi(ch)
		c10RunCase(ci, nil, true)
		return
	}
	mCleanupOld()
	tr := vw.OpenTrace("C10.trace")
	defer tr.Close()
	defer vw.Finish("C10")
	vw.Stat(fmt.Sprintf("tree-has-finishdelete-cutoff=%v", mHasCutoff()), 1)
	ncases := vw.Scale(260, 6000)
	for ci := 0; ci < ncases; ci++ {
		if !vw.CaseSelected(fmt.Sprint(ci)) {
			continue
		}
		c10RunCase(ci, tr, false)
	}
}
