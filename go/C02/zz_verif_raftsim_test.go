package raft

// Shared deterministic n-node simulation used by the C02 and C07 harnesses (and available to C03).
// Injected with `go test -overlay`; lives in /verif.
//
// Real `core` objects run on the repository's in-memory storage (memState / wal.memLog / memSnapshotMgr).
// There are NO goroutines and NO timers: the harness owns the message soup and applies events
//   1 Bootstrap  2 Deliver  3 Tick  4 Propose  5 AddNode  6 RemoveNode  7 SnapshotDone  8 Restart
//   9 what-if crash after the k-th durable mutation of an event (state of the main line unchanged)
//  10 real crash after the k-th durable mutation of an event
// After every event the touched node is projected (see proj) and written as the observation line,
// and the monitors (the property's clauses, evaluated on the implementation) run over the global state.
// raft.go's own glue is used where it exists: (*Raft).sendMsgs (GUID/epoch stamping) and
// (*Raft).fsmSnapshotDone are called on a Raft value that only has storage/core/transport set.

import (
	"bytes"
	"encoding/binary"
	"encoding/json"
	"fmt"
	"io"
	"math/rand"
	"os"
	"sort"
	"strconv"
	"strings"

	vw "github.com/westerndigitalcorporation/blb/pkg/verifwire"
)

// ---------------------------------------------------------------- ids

func vsName(i int) string {
	if i == 0 {
		return ""
	}
	return "n" + strconv.Itoa(i)
}

func vsNum(s string) int64 {
	if s == "" {
		return 0
	}
	if len(s) >= 2 && s[0] == 'n' {
		if v, err := strconv.Atoi(s[1:]); err == nil {
			return int64(v)
		}
	}
	return 99
}

// ---------------------------------------------------------------- durable-mutation counting wrappers

type vsCrashSentinel struct{}

type vsMutCtl struct {
	count  int
	budget int // >0: panic(vsCrashSentinel) right after the budget-th mutation
	names  []string
}

func (c *vsMutCtl) did(name string) {
	c.count++
	c.names = append(c.names, name)
	if c.budget > 0 && c.count == c.budget {
		panic(vsCrashSentinel{})
	}
}

type vsState struct {
	*memState
	ctl *vsMutCtl
}

func (s *vsState) SaveState(v string, t uint64) { s.memState.SaveState(v, t); s.ctl.did("SaveState") }
func (s *vsState) SetCurrentTerm(t uint64)      { s.memState.SetCurrentTerm(t); s.ctl.did("SetCurrentTerm") }
func (s *vsState) SetVoteFor(v string)          { s.memState.SetVoteFor(v); s.ctl.did("SetVoteFor") }
func (s *vsState) SetGUIDFor(id string, g uint64) {
	s.memState.SetGUIDFor(id, g)
	s.ctl.did("SetGUIDFor")
}
func (s *vsState) FilterGUIDs(ids []string) { s.memState.FilterGUIDs(ids); s.ctl.did("FilterGUIDs") }

type vsLog struct {
	Log
	ctl *vsMutCtl
}

func (l *vsLog) Append(e ...Entry)  { l.Log.Append(e...); l.ctl.did("LogAppend") }
func (l *vsLog) Truncate(i uint64)  { l.Log.Truncate(i); l.ctl.did("LogTruncate") }
func (l *vsLog) Trim(i uint64)      { l.Log.Trim(i); l.ctl.did("LogTrim") }

type vsSnapMgr struct {
	*memSnapshotMgr
	ctl *vsMutCtl
}

func (m *vsSnapMgr) BeginSnapshot(meta SnapshotMetadata) (SnapshotFileWriter, error) {
	w, err := m.memSnapshotMgr.BeginSnapshot(meta)
	if err != nil {
		return w, err
	}
	return &vsSnapWriter{SnapshotFileWriter: w, ctl: m.ctl}, nil
}

type vsSnapWriter struct {
	SnapshotFileWriter
	ctl *vsMutCtl
}

func (w *vsSnapWriter) Commit() error {
	err := w.SnapshotFileWriter.Commit()
	if err == nil {
		w.ctl.did("SnapshotCommit")
	}
	return err
}

type vsTransport struct{ out []Msg }

func (t *vsTransport) Addr() string        { return "" }
func (t *vsTransport) Receive() <-chan Msg { return nil }
func (t *vsTransport) Send(m Msg)          { t.out = append(t.out, m) }
func (t *vsTransport) Close() error        { return nil }

// ---------------------------------------------------------------- nodes, soup, simulation

type vsNode struct {
	i    int
	st   *memState
	wl   Log // raw mem log
	sm   *memSnapshotMgr
	ctl  *vsMutCtl
	stor *Storage
	core *core
	cfg  Config

	// the state machine side (what fsmLoop keeps)
	applied     uint64
	appliedTerm uint64
	appliedConf *Membership
	pendingSnap *SnapshotMetadata

	// what raft.go's leader loop keeps
	nopTerm       uint64 // term in which this node proposed its NOP
	nopDoneTerm   uint64 // term whose NOP this node has seen committed
	reconfPending bool

	// monitor memory
	maxTerm     uint64
	commitSeen  uint64
	maxSentTerm uint64
	restarts    int
}

type vsSoupMsg struct {
	id      int
	m       Msg
	body    []byte
	from    int
	to      int
	ndeliv  int
	dropped bool
}

type vsCommitted struct {
	e          Entry
	commitTerm uint64
	by         int
}

type vsCfg struct {
	N                                                     int
	followerTO, candTO, hbTO, stepdownTO, snapTO, maxEnts uint32
	keep                                                  uint64
}

type vsSim struct {
	prop    string // "C02" or "C07"
	caseID  string
	cfg     vsCfg
	nodes   []*vsNode // index 1..N
	soup    []*vsSoupMsg
	tr      *vsTrace
	nextCmd int64
	evno    int
	quiet   bool // clone: no trace output
	context string

	// monitor state
	leaders   map[uint64]int
	votes     map[[2]uint64]string
	committed map[uint64]*vsCommitted
	grants    map[[2]uint64]string // (node,term) -> candidate a granted VoteResp was sent to
	viol      map[string]bool
	lastTouched int
	lastOp, lastObs vw.L
	hook    func(s *vsSim, ev vsEvent) bool // main line only: called before an event; true = the hook performed it
	ctxSig  string                          // appended to monitor signatures (crash context in clones)
	muteReports bool
}

func vsGUID(i int) uint64 { return uint64(7000 + i) }

func vsNewSim(prop, caseID string, cfg vsCfg, tr *vsTrace) *vsSim {
	s := &vsSim{prop: prop, caseID: caseID, cfg: cfg, tr: tr, nextCmd: 1,
		leaders: map[uint64]int{}, votes: map[[2]uint64]string{}, committed: map[uint64]*vsCommitted{},
		grants: map[[2]uint64]string{}, viol: map[string]bool{}}
	if vsNewSimHook != nil {
		vsNewSimHook(s)
	}
	s.nodes = make([]*vsNode, cfg.N+1)
	op := vw.L{0}
	op.AddInt(cfg.N)
	op.Add(int64(cfg.followerTO), int64(cfg.candTO), int64(cfg.hbTO), int64(cfg.stepdownTO), int64(cfg.snapTO), int64(cfg.maxEnts), int64(cfg.keep))
	for i := 1; i <= cfg.N; i++ {
		n := &vsNode{i: i, ctl: &vsMutCtl{}}
		n.st = &memState{myGUID: vsGUID(i), seenGUIDs: map[string]uint64{}}
		n.wl = NewMemLog()
		n.sm = NewMemSnapshotMgr().(*memSnapshotMgr)
		n.stor = &Storage{State: &vsState{n.st, n.ctl}, SnapshotManager: &vsSnapMgr{n.sm, n.ctl}, log: &vsLog{n.wl, n.ctl}}
		n.cfg = Config{
			ID: vsName(i), ClusterID: "verif",
			CandidateTimeout: cfg.candTO, FollowerTimeout: cfg.followerTO, LeaderStepdownTimeout: cfg.stepdownTO,
			RandomElectionRange: 0, HeartbeatTimeout: cfg.hbTO, SnapshotTimeout: cfg.snapTO,
			MaxNumEntsPerAppEnts: cfg.maxEnts, LogEntriesAfterSnapshot: cfg.keep,
			GenSeed: func(string) int64 { return 1 },
		}
		n.core = newCore(n.cfg, n.stor)
		s.nodes[i] = n
		op.Add(int64(vsGUID(i)))
	}
	s.tr.op(s, op)
	s.tr.obs(s, vw.L{0})
	return s
}

// ---------------------------------------------------------------- trace writer (line-flushed; a Fatalf may kill us any time)

type vsTrace struct {
	f     *os.File
	muted bool
	ops   int
}

func vsOpenTrace(path string) *vsTrace {
	f, err := os.OpenFile(path, os.O_CREATE|os.O_WRONLY|os.O_APPEND, 0o644)
	if err != nil {
		panic(err)
	}
	return &vsTrace{f: f}
}

func (t *vsTrace) line(pfx string, xs []int64) {
	var b bytes.Buffer
	b.WriteString(pfx)
	for _, x := range xs {
		b.WriteByte(' ')
		b.WriteString(strconv.FormatInt(x, 10))
	}
	b.WriteByte('\n')
	t.f.Write(b.Bytes())
}

func (t *vsTrace) caseHdr(id string) {
	if t == nil || t.muted {
		return
	}
	t.f.WriteString("# case " + id + "\n")
}

func (t *vsTrace) op(s *vsSim, xs []int64) {
	if t == nil || t.muted || s.quiet {
		return
	}
	t.ops++
	t.line(">", xs)
}

func (t *vsTrace) obs(s *vsSim, xs []int64) {
	if t == nil || t.muted || s.quiet {
		return
	}
	t.line("<", xs)
}

// ---------------------------------------------------------------- encodings

func vsEncMembers(l *vw.L, m *Membership) { // epoch nm members
	l.Add(int64(m.Epoch))
	l.AddInt(len(m.Members))
	for _, x := range m.Members {
		l.Add(vsNum(x))
	}
}

func vsEncMembershipPtr(l *vw.L, m *Membership) { // has index term epoch nm members
	if m == nil {
		l.Add(0)
		return
	}
	l.Add(1, int64(m.Index), int64(m.Term))
	vsEncMembers(l, m)
}

func vsCmdBytes(id int64) []byte {
	b := make([]byte, 8)
	binary.BigEndian.PutUint64(b, uint64(id))
	return b
}

// payload: k ints
func vsEncPayload(l *vw.L, e Entry) {
	switch e.Type {
	case EntryConf:
		var m Membership
		if !tryDecodeGob(e.Cmd, &m) {
			l.Add(1, -1)
			return
		}
		l.AddInt(1 + len(m.Members))
		l.Add(int64(m.Epoch))
		for _, x := range m.Members {
			l.Add(vsNum(x))
		}
	default:
		if len(e.Cmd) == 8 {
			l.Add(1, int64(binary.BigEndian.Uint64(e.Cmd)))
		} else if len(e.Cmd) == 0 {
			l.Add(0)
		} else {
			l.Add(1, -int64(len(e.Cmd)))
		}
	}
}

func vsEncEntry(l *vw.L, e Entry) { // term index type k payload
	l.Add(int64(e.Term), int64(e.Index), int64(e.Type))
	vsEncPayload(l, e)
}

func vsEncMsg(l *vw.L, m Msg) {
	kind := int64(0)
	switch m.(type) {
	case *AppEnts:
		kind = 1
	case *AppEntsResp:
		kind = 2
	case *VoteReq:
		kind = 3
	case *VoteResp:
		kind = 4
	case *InstallSnapshot:
		kind = 5
	}
	l.Add(kind, int64(m.GetTerm()), vsNum(m.GetFrom()), vsNum(m.GetTo()), int64(m.GetFromGUID()), int64(m.GetToGUID()), int64(m.GetEpoch()))
	switch x := m.(type) {
	case *AppEnts:
		l.Add(int64(x.PrevLogIndex), int64(x.PrevLogTerm), int64(x.LeaderCommit))
		l.AddBool(x.Entries != nil)
		l.AddInt(len(x.Entries))
		for _, e := range x.Entries {
			vsEncEntry(l, e)
		}
	case *AppEntsResp:
		l.AddBool(x.Success)
		l.Add(int64(x.Index), int64(x.Hint))
	case *VoteReq:
		l.Add(int64(x.LastLogIndex), int64(x.LastLogTerm))
	case *VoteResp:
		l.AddBool(x.Granted)
	case *InstallSnapshot:
		l.Add(int64(x.LastIndex), int64(x.LastTerm), int64(x.Membership.Index), int64(x.Membership.Term))
		vsEncMembers(l, &x.Membership)
	}
}

func vsCopyEntries(es []Entry) []Entry {
	if es == nil {
		return nil
	}
	out := make([]Entry, len(es))
	for i, e := range es {
		out[i] = e
		if e.Cmd != nil {
			out[i].Cmd = append([]byte(nil), e.Cmd...)
		}
	}
	return out
}

func vsCopyMembership(m Membership) Membership {
	m.Members = append([]string(nil), m.Members...)
	return m
}

type vsBody struct{ *bytes.Reader }

func (vsBody) Close() error { return nil }

// fresh deep copy of a soup message for one delivery
func (sm *vsSoupMsg) fresh() Msg {
	switch x := sm.m.(type) {
	case *AppEnts:
		c := *x
		c.Entries = vsCopyEntries(x.Entries)
		return &c
	case *AppEntsResp:
		c := *x
		return &c
	case *VoteReq:
		c := *x
		return &c
	case *VoteResp:
		c := *x
		return &c
	case *InstallSnapshot:
		c := *x
		c.Membership = vsCopyMembership(x.Membership)
		c.Body = vsBody{bytes.NewReader(sm.body)}
		return &c
	}
	return nil
}

func vsKind(m Msg) string {
	switch m.(type) {
	case *AppEnts:
		return "AppEnts"
	case *AppEntsResp:
		return "AppEntsResp"
	case *VoteReq:
		return "VoteReq"
	case *VoteResp:
		return "VoteResp"
	case *InstallSnapshot:
		return "InstallSnapshot"
	}
	return "?"
}

// ---------------------------------------------------------------- projection of one node

func (n *vsNode) role() int64 {
	switch n.core.state.name() {
	case stateFollower:
		return 0
	case stateCandidate:
		return 1
	case stateLeader:
		return 2
	}
	return 9
}

func (n *vsNode) logEntries() []Entry {
	fi, li, empty := n.wl.GetBound()
	if empty {
		return nil
	}
	return n.wl.Entries(fi, li+1)
}

func (n *vsNode) proj(l *vw.L) {
	c := n.core
	l.Add(int64(n.st.term), vsNum(n.st.voteFor), n.role(), vsNum(c.leaderID), int64(c.committedIndex))
	l.AddBool(c.needRestoreSnap)
	l.Add(int64(c.elapsed))
	f := c.follower.(*coreFollower)
	l.Add(int64(f.lastContact), int64(f.timeoutTicks))
	cd := c.candidate.(*coreCandidate)
	l.Add(int64(cd.timeoutTicks))
	var vs []int64
	for k := range cd.votes {
		vs = append(vs, vsNum(k))
	}
	sort.Slice(vs, func(i, j int) bool { return vs[i] < vs[j] })
	l.AddList(vs)
	ld := c.leader.(*coreLeader)
	l.Add(int64(ld.elapsedSinceLastLeaderCheck))
	var ps []*peer
	for _, p := range ld.peers {
		ps = append(ps, p)
	}
	sort.Slice(ps, func(i, j int) bool { return vsNum(ps[i].ID) < vsNum(ps[j].ID) })
	l.AddInt(len(ps))
	for _, p := range ps {
		l.Add(vsNum(p.ID), int64(p.nextIndex), int64(p.matchIndex))
		l.AddBool(p.sendingSnap)
		l.Add(int64(p.lastContactTime), int64(p.lastReceiveTime))
	}
	// log
	ents := n.logEntries()
	l.AddInt(len(ents))
	for _, e := range ents {
		vsEncEntry(l, e)
	}
	// snapshot
	meta := n.sm.snapMeta
	if meta == NilSnapshotMetadata {
		l.Add(0)
	} else {
		l.Add(1, int64(meta.LastIndex), int64(meta.LastTerm))
		vsEncMembershipPtr(l, meta.Membership)
	}
	vsEncMembershipPtr(l, c.latestConf)
	// guid table
	var gs []int64
	for k := range n.st.seenGUIDs {
		gs = append(gs, vsNum(k))
	}
	sort.Slice(gs, func(i, j int) bool { return gs[i] < gs[j] })
	l.AddInt(len(gs))
	for _, g := range gs {
		l.Add(g, int64(n.st.seenGUIDs[vsName(int(g))]))
	}
}

// ---------------------------------------------------------------- events

const (
	vsErrNone = iota
	vsErrNotLeader
	vsErrAlreadyConfigured
	vsErrNodeExists
	vsErrNodeNotExists
	vsErrTooMany
	vsErrOther
)

func vsErrCode(err error) int64 {
	switch err {
	case nil:
		return vsErrNone
	case ErrNodeNotLeader:
		return vsErrNotLeader
	case ErrAlreadyConfigured:
		return vsErrAlreadyConfigured
	case ErrNodeExists:
		return vsErrNodeExists
	case ErrNodeNotExists:
		return vsErrNodeNotExists
	case ErrTooManyPendingReqs:
		return vsErrTooMany
	}
	return vsErrOther
}

// an event is: the op line (without the crash prefix), the node it touches and the action on the real core
type vsEvent struct {
	node int
	op   vw.L
	what string
	msg  *vsSoupMsg // the soup message a Deliver event hands over (nil otherwise)
	run  func(s *vsSim, n *vsNode) int64
}

func (s *vsSim) evBootstrap(node int, members []int, epoch uint64) vsEvent {
	op := vw.L{1, int64(node), int64(epoch)}
	op.AddInt(len(members))
	var ms []string
	for _, m := range members {
		op.Add(int64(m))
		ms = append(ms, vsName(m))
	}
	return vsEvent{node: node, op: op, what: "Bootstrap", run: func(s *vsSim, n *vsNode) int64 {
		return vsErrCode(n.core.proposeInitialMembership(Membership{Members: ms, Epoch: epoch}))
	}}
}

func (s *vsSim) evDeliver(sm *vsSoupMsg) vsEvent {
	return s.evDeliverTo(sm, sm.to)
}

func (s *vsSim) evDeliverTo(sm *vsSoupMsg, node int) vsEvent {
	op := vw.L{2, int64(node)}
	vsEncMsg(&op, sm.m)
	return vsEvent{node: node, op: op, what: vsKind(sm.m), msg: sm, run: func(s *vsSim, n *vsNode) int64 {
		n.core.HandleMsg(sm.fresh())
		return 0
	}}
}

func (s *vsSim) evTick(node int) vsEvent {
	return vsEvent{node: node, op: vw.L{3, int64(node)}, what: "Tick", run: func(s *vsSim, n *vsNode) int64 { n.core.Tick(); return 0 }}
}

// cmds: 0 = NOP, >0 normal command id
func (s *vsSim) evPropose(node int, cmds []int64) vsEvent {
	op := vw.L{4, int64(node)}
	op.AddInt(len(cmds))
	var es []Entry
	for _, c := range cmds {
		if c == 0 {
			op.Add(int64(EntryNOP), 0)
			es = append(es, Entry{Type: EntryNOP})
		} else {
			op.Add(int64(EntryNormal), c)
			es = append(es, Entry{Type: EntryNormal, Cmd: vsCmdBytes(c)})
		}
	}
	return vsEvent{node: node, op: op, what: "Propose", run: func(s *vsSim, n *vsNode) int64 {
		return vsErrCode(n.core.Propose(es...))
	}}
}

func (s *vsSim) evAddNode(node, member int) vsEvent {
	return vsEvent{node: node, op: vw.L{5, int64(node), int64(member), 0}, what: "AddNode", run: func(s *vsSim, n *vsNode) int64 {
		return vsErrCode(n.core.AddNode(vsName(member)))
	}}
}

func (s *vsSim) evRemoveNode(node, member int) vsEvent {
	return vsEvent{node: node, op: vw.L{6, int64(node), int64(member)}, what: "RemoveNode", run: func(s *vsSim, n *vsNode) int64 {
		return vsErrCode(n.core.RemoveNode(vsName(member)))
	}}
}

func vsSnapData(idx uint64) []byte {
	b := make([]byte, 8)
	binary.BigEndian.PutUint64(b, idx)
	return b
}

func (s *vsSim) evSnapDone(node int, meta SnapshotMetadata) vsEvent {
	op := vw.L{7, int64(node), int64(meta.LastIndex), int64(meta.LastTerm)}
	vsEncMembershipPtr(&op, meta.Membership)
	return vsEvent{node: node, op: op, what: "SnapshotDone", run: func(s *vsSim, n *vsNode) int64 {
		w, err := n.stor.BeginSnapshot(meta)
		if err != nil {
			return vsErrOther
		}
		w.Write(vsSnapData(meta.LastIndex))
		(&Raft{storage: n.stor, core: n.core}).fsmSnapshotDone(w)
		return 0
	}}
}

func (s *vsSim) evRestart(node int) vsEvent {
	return vsEvent{node: node, op: vw.L{8, int64(node)}, what: "Restart", run: func(s *vsSim, n *vsNode) int64 {
		s.restartNode(n)
		return 0
	}}
}

func (s *vsSim) restartNode(n *vsNode) {
	n.core = newCore(n.cfg, n.stor)
	n.applied, n.appliedTerm, n.appliedConf, n.pendingSnap = 0, 0, nil, nil
	n.nopTerm, n.nopDoneTerm, n.reconfPending = 0, 0, false
	n.commitSeen = 0
	n.restarts++
}

// step applies one event on the main line (or on a clone) and returns false if the op was a crash that fired.
func (s *vsSim) step(ev vsEvent) {
	if s.hook != nil && s.hook(s, ev) {
		return
	}
	s.stepCrash(ev, 0, false)
}

// stepCrash: k > 0 runs the event with a crash after its k-th durable mutation (op 10 when real, the caller handles
// what-if clones by running a real crash on a quiet clone and writing op 9 on the main line itself).
func (s *vsSim) stepCrash(ev vsEvent, k int, whatIfLine bool) (crashed bool, nmuts int) {
	n := s.nodes[ev.node]
	s.evno++
	s.lastTouched = ev.node
	op := ev.op
	if k > 0 {
		code := int64(10)
		if whatIfLine {
			code = 9
		}
		op = append(vw.L{code, int64(ev.node), int64(k)}, ev.op...)
	}
	s.tr.op(s, op)
	if ev.msg != nil && ev.msg.id < len(s.soup) {
		s.soup[ev.msg.id].ndeliv++
	}
	wasLeader := n.role() == 2
	prevTerm := n.st.term
	n.ctl.count, n.ctl.names, n.ctl.budget = 0, nil, k
	var status int64
	func() {
		defer func() {
			if r := recover(); r != nil {
				if _, ok := r.(vsCrashSentinel); ok {
					crashed = true
					return
				}
				panic(r)
			}
		}()
		status = ev.run(s, n)
	}()
	n.ctl.budget = 0
	nmuts = n.ctl.count
	var obs vw.L
	if k > 0 {
		obs.AddBool(crashed)
	}
	var out []*vsSoupMsg
	var commits []Entry
	if crashed {
		if s.ctxSig != "" {
			s.ctxSig = fmt.Sprintf("ev=%s,mut=%s", ev.what, n.ctl.names[k-1])
		}
		// everything volatile is gone, nothing was sent
		s.restartNode(n)
		obs.Add(0)
		n.proj(&obs)
		obs.Add(0, 0)
		s.afterRestore(n)
	} else {
		out, commits = s.collect(n)
		obs.Add(status)
		n.proj(&obs)
		s.afterRestore(n)
		obs.AddInt(len(out))
		for _, sm := range out {
			vsEncMsg(&obs, sm.m)
		}
		obs.AddInt(len(commits))
		for _, e := range commits {
			vsEncEntry(&obs, e)
		}
	}
	s.tr.obs(s, obs)
	s.lastOp, s.lastObs = op, obs
	if vsDebug {
		var ol vw.L
		for _, sm := range out {
			ol.Add(-9)
			vsEncMsg(&ol, sm.m)
		}
		fmt.Fprintf(os.Stderr, "DBG %s ev%d %s@n%d k=%d crashed=%v out=%d commits=%d :: %s :: op=%s :: out=%s\n", s.caseID, s.evno, ev.what, ev.node, k, crashed, len(out), len(commits), s.describe(), vsTail(vw.Ints(op), 160), vsTail(vw.Ints(ol), 200))
	}
	s.monitor(n, ev, out, commits, wasLeader, prevTerm, crashed)
	return
}

// collect does what the raft.go loop does after every core call: take commits, restore from snapshot if told, send messages.
func (s *vsSim) collect(n *vsNode) (out []*vsSoupMsg, commits []Entry) {
	commits = vsCopyEntries(n.core.TakeNewlyCommitted())
	tp := &vsTransport{}
	(&Raft{storage: n.stor, core: n.core, transport: tp}).sendMsgs()
	sort.SliceStable(tp.out, func(i, j int) bool { return vsNum(tp.out[i].GetTo()) < vsNum(tp.out[j].GetTo()) })
	for _, m := range tp.out {
		sm := &vsSoupMsg{id: len(s.soup), m: m, from: n.i, to: int(vsNum(m.GetTo()))}
		if is, ok := m.(*InstallSnapshot); ok {
			if is.Body != nil {
				sm.body, _ = io.ReadAll(is.Body)
				is.Body.Close()
			}
			is.Body = nil
			is.Membership = vsCopyMembership(is.Membership)
		}
		if ae, ok := m.(*AppEnts); ok {
			ae.Entries = vsCopyEntries(ae.Entries)
		}
		s.soup = append(s.soup, sm)
		out = append(out, sm)
	}
	return
}

func (s *vsSim) afterRestore(n *vsNode) {
	if n.core.needRestoreSnap {
		meta := n.sm.snapMeta
		n.applied, n.appliedTerm, n.appliedConf = meta.LastIndex, meta.LastTerm, meta.Membership
		if len(n.sm.snapData) != 8 || binary.BigEndian.Uint64(n.sm.snapData) != meta.LastIndex {
			s.report("snapshot-data-does-not-match-metadata", "snapshot payload is not the state at the snapshot's last index",
				map[string]interface{}{"node": n.i, "meta": meta.String()})
		}
		// (the projection was taken before: it shows needRestoreSnap as the core left it; raft.go clears it after the FSM restored)
		n.core.needRestoreSnap = false
	}
}

// ---------------------------------------------------------------- monitors (the property's clauses on the implementation)

func (s *vsSim) report(sig, what string, detail map[string]interface{}) {
	if s.muteReports {
		return
	}
	if s.ctxSig != "" {
		sig += ":" + s.ctxSig
	}
	if s.viol[sig] {
		return
	}
	s.viol[sig] = true
	if detail == nil {
		detail = map[string]interface{}{}
	}
	detail["event"] = s.evno
	if s.context != "" {
		detail["context"] = s.context
	}
	vsChildReport(vw.Violation{Property: s.prop, Signature: sig, What: what, Case: s.caseID, Detail: detail})
}

func vsEntryEq(a, b Entry) bool {
	return a.Term == b.Term && a.Index == b.Index && a.Type == b.Type && bytes.Equal(a.Cmd, b.Cmd)
}

// holds reports whether node n has entry (idx, term) in its log or covered by its snapshot
func (n *vsNode) holds(idx, term uint64) bool {
	meta := n.sm.snapMeta
	if meta != NilSnapshotMetadata && idx <= meta.LastIndex {
		return true
	}
	fi, li, empty := n.wl.GetBound()
	if empty || idx < fi || idx > li {
		return false
	}
	return n.wl.Term(idx) == term
}

func (s *vsSim) monitor(n *vsNode, ev vsEvent, out []*vsSoupMsg, commits []Entry, wasLeader bool, prevTerm uint64, crashed bool) {
	term := n.st.term
	// persistent term never decreases (also across restarts and crashes)
	if term < n.maxTerm {
		s.report("term-decreased", "a node's current term went backwards", map[string]interface{}{"node": n.i, "from": n.maxTerm, "to": term})
	}
	n.maxTerm = term
	// a vote, once cast in a term, is never changed (also across restarts and crashes)
	key := [2]uint64{uint64(n.i), term}
	if v, ok := s.votes[key]; ok && v != "" && v != n.st.voteFor {
		s.report("vote-changed-within-term", "a node changed the vote it had cast in a term", map[string]interface{}{"node": n.i, "term": term, "from": v, "to": n.st.voteFor})
	}
	if n.st.voteFor != "" || s.votes[key] == "" {
		s.votes[key] = n.st.voteFor
	}
	// acted-on term/vote must be durable
	if n.maxSentTerm > term {
		s.report("forgot-term-acted-on", "a node's durable term is below the term of a message it sent earlier", map[string]interface{}{"node": n.i, "sent": n.maxSentTerm, "term": term})
	}
	if g, ok := s.grants[key]; ok && g != n.st.voteFor {
		s.report("forgot-vote-acted-on", "a node's durable vote differs from a vote it granted in the same term", map[string]interface{}{"node": n.i, "term": term, "granted": g, "vote": n.st.voteFor})
	}
	for _, sm := range out {
		if sm.m.GetTerm() > n.maxSentTerm {
			n.maxSentTerm = sm.m.GetTerm()
		}
		if sm.m.GetTerm() != term {
			s.report("message-term-not-durable-term", "a message left a handler with a term different from the durable term", map[string]interface{}{"node": n.i})
		}
		if vr, ok := sm.m.(*VoteResp); ok && vr.Granted {
			gk := [2]uint64{uint64(n.i), vr.GetTerm()}
			if g, ok := s.grants[gk]; ok && g != vr.GetTo() {
				s.report("two-grants-in-one-term", "a node granted its vote to two candidates in one term", map[string]interface{}{"node": n.i, "term": vr.GetTerm(), "a": g, "b": vr.GetTo()})
			}
			s.grants[gk] = vr.GetTo()
			if n.st.voteFor != vr.GetTo() {
				s.report("grant-without-durable-vote", "a granted vote left the handler without the vote being durable", map[string]interface{}{"node": n.i})
			}
			// the request that was answered
			if rq, ok := s.lastVoteReq(ev); ok {
				meta := n.sm.snapMeta
				if meta != NilSnapshotMetadata && (rq.LastLogTerm < meta.LastTerm || (rq.LastLogTerm == meta.LastTerm && rq.LastLogIndex < meta.LastIndex)) {
					s.report("vote-granted-to-candidate-behind-own-snapshot", "a node granted its vote to a candidate whose log ends before the node's own durable snapshot (committed state)",
						map[string]interface{}{"node": n.i, "snapshot": meta.String(), "candLastIndex": rq.LastLogIndex, "candLastTerm": rq.LastLogTerm, "restarts": n.restarts})
				}
			}
		}
	}
	// (i) at most one leader per term, ever
	if n.role() == 2 {
		if l, ok := s.leaders[term]; ok && l != n.i {
			s.report("two-leaders-in-one-term", "two different nodes were leader in the same term", map[string]interface{}{"term": term, "a": l, "b": n.i})
		}
		s.leaders[term] = n.i
	}
	// commit index monotone between restarts
	if n.core.committedIndex < n.commitSeen {
		s.report("commit-index-decreased", "a node's commit index went backwards", map[string]interface{}{"node": n.i})
	}
	n.commitSeen = n.core.committedIndex
	// (iv) state machine safety + bookkeeping of what is committed
	for _, e := range commits {
		if e.Index != n.applied+1 {
			s.report("apply-gap", "entries were handed to the state machine out of order", map[string]interface{}{"node": n.i, "applied": n.applied, "got": e.Index})
		}
		n.applied, n.appliedTerm = e.Index, e.Term
		if e.Type == EntryConf {
			n.appliedConf = decodeConfEntry(e)
			n.reconfPending = false
		}
		if e.Type == EntryNOP && e.Term == term && n.role() == 2 {
			n.nopDoneTerm = term
		}
		if c, ok := s.committed[e.Index]; ok {
			if !vsEntryEq(c.e, e) {
				s.report("different-commands-applied-at-one-index", "two nodes handed different entries at the same index to the state machine",
					map[string]interface{}{"index": e.Index, "a": c.e.String(), "by": c.by, "b": e.String(), "node": n.i})
			}
		} else {
			s.committed[e.Index] = &vsCommitted{e: e, commitTerm: term, by: n.i}
		}
	}
	if n.core.committedIndex > n.stor.lastIndex() {
		s.report("commit-beyond-last-index", "commit index is beyond the last persisted index", map[string]interface{}{"node": n.i})
	}
	// snapshots hold committed state only
	if meta := n.sm.snapMeta; meta != NilSnapshotMetadata {
		if c, ok := s.committed[meta.LastIndex]; !ok || c.e.Term != meta.LastTerm {
			s.report("snapshot-of-uncommitted-state", "a snapshot's last (index, term) is not a committed entry", map[string]interface{}{"node": n.i, "meta": meta.String()})
		}
	}
	// (iii) every committed entry is held by every later leader
	for _, x := range s.nodes[1:] {
		if x.role() != 2 {
			continue
		}
		for idx, c := range s.committed {
			if x.st.term >= c.commitTerm && !x.holds(idx, c.e.Term) {
				s.report("leader-lacks-committed-entry", "a leader of a later term does not hold an entry committed earlier",
					map[string]interface{}{"leader": x.i, "term": x.st.term, "index": idx, "entryTerm": c.e.Term, "committedInTerm": c.commitTerm})
			}
		}
	}
	// (ii) log matching, pairwise, on the parts of the logs that are physically present
	s.checkLogMatching()
	// a node never loses a committed entry it held
	if crashed || ev.what == "Restart" {
		// checked by the caller for crashes (needs the pre-state)
	}
}

func (s *vsSim) lastVoteReq(ev vsEvent) (*VoteReq, bool) {
	if ev.what != "VoteReq" || len(ev.op) < 11 {
		return nil, false
	}
	return &VoteReq{LastLogIndex: uint64(ev.op[9]), LastLogTerm: uint64(ev.op[10])}, true
}

func (s *vsSim) checkLogMatching() {
	logs := make([][]Entry, len(s.nodes))
	for i := 1; i < len(s.nodes); i++ {
		logs[i] = s.nodes[i].logEntries()
		for j, e := range logs[i] {
			if j > 0 && e.Index != logs[i][j-1].Index+1 {
				s.report("log-not-contiguous", "log indices are not contiguous", map[string]interface{}{"node": i})
			}
		}
	}
	for a := 1; a < len(s.nodes); a++ {
		for b := a + 1; b < len(s.nodes); b++ {
			la, lb := logs[a], logs[b]
			if len(la) == 0 || len(lb) == 0 {
				continue
			}
			lo := la[0].Index
			if lb[0].Index > lo {
				lo = lb[0].Index
			}
			hi := la[len(la)-1].Index
			if lb[len(lb)-1].Index < hi {
				hi = lb[len(lb)-1].Index
			}
			// highest common index with equal terms
			top := uint64(0)
			for i := hi; i >= lo && i > 0; i-- {
				if la[i-la[0].Index].Term == lb[i-lb[0].Index].Term {
					top = i
					break
				}
			}
			for i := lo; i <= top && top > 0; i++ {
				ea, eb := la[i-la[0].Index], lb[i-lb[0].Index]
				if !vsEntryEq(ea, eb) {
					s.report("log-matching-broken", "two logs agree on (index, term) but differ at or before that index",
						map[string]interface{}{"a": a, "b": b, "agreeAt": top, "differAt": i, "ea": ea.String(), "eb": eb.String()})
					break
				}
			}
		}
	}
	// a log entry at a committed index with the committed term must be the committed entry; a snapshot boundary
	// that meets another node's log must agree with it on the term if that log entry is committed
	for i := 1; i < len(s.nodes); i++ {
		for _, e := range logs[i] {
			if c, ok := s.committed[e.Index]; ok && c.e.Term == e.Term && !vsEntryEq(c.e, e) {
				s.report("log-matching-broken", "a log holds an entry with the index and term of a committed entry but different content", map[string]interface{}{"node": i, "index": e.Index})
			}
		}
	}
}

// ---------------------------------------------------------------- helpers for generators

func (s *vsSim) node(i int) *vsNode { return s.nodes[i] }

func (s *vsSim) pending(filter func(*vsSoupMsg) bool) []*vsSoupMsg {
	var out []*vsSoupMsg
	for _, sm := range s.soup {
		if sm.ndeliv == 0 && !sm.dropped && sm.to >= 1 && sm.to <= s.cfg.N && (filter == nil || filter(sm)) {
			out = append(out, sm)
		}
	}
	return out
}

// afterEvent does what raft.go does right after the core becomes leader: propose the NOP of the term.
func (s *vsSim) maybeNop(i int) {
	n := s.nodes[i]
	if n.role() == 2 && n.nopTerm != n.st.term {
		n.nopTerm = n.st.term
		n.reconfPending = false
		s.step(s.evPropose(i, []int64{0}))
	}
}

func (s *vsSim) freshCmd() int64 { s.nextCmd++; return s.nextCmd - 1 }

// deliverAll delivers pending messages FIFO until quiescence (bounded), with raft.go's NOP discipline.
func (s *vsSim) deliverAll(filter func(*vsSoupMsg) bool, bound int) {
	for r := 0; r < bound; r++ {
		p := s.pending(filter)
		if len(p) == 0 {
			return
		}
		s.step(s.evDeliver(p[0]))
		s.maybeNop(p[0].to)
	}
}

func (s *vsSim) tickUntil(i int, role int64, bound int) bool {
	for r := 0; r < bound; r++ {
		if s.nodes[i].role() == role {
			return true
		}
		s.step(s.evTick(i))
		s.maybeNop(i)
	}
	return s.nodes[i].role() == role
}

func (s *vsSim) dropPending(filter func(*vsSoupMsg) bool) {
	for _, sm := range s.pending(filter) {
		sm.dropped = true
	}
}

func vsTo(nodes ...int) func(*vsSoupMsg) bool {
	return func(sm *vsSoupMsg) bool {
		for _, n := range nodes {
			if sm.to == n {
				return true
			}
		}
		return false
	}
}

func vsBetween(nodes ...int) func(*vsSoupMsg) bool {
	in := func(x int) bool {
		for _, n := range nodes {
			if n == x {
				return true
			}
		}
		return false
	}
	return func(sm *vsSoupMsg) bool { return in(sm.from) && in(sm.to) }
}

// snapshot of the applied state, as fsmLoop would request it
func (s *vsSim) snapBegin(i int) bool {
	n := s.nodes[i]
	if n.applied == 0 || n.appliedConf == nil {
		return false
	}
	mc := vsCopyMembership(*n.appliedConf)
	n.pendingSnap = &SnapshotMetadata{LastIndex: n.applied, LastTerm: n.appliedTerm, Membership: &mc}
	return true
}

func (s *vsSim) snapDone(i int) bool {
	n := s.nodes[i]
	if n.pendingSnap == nil {
		return false
	}
	meta := *n.pendingSnap
	n.pendingSnap = nil
	s.step(s.evSnapDone(i, meta))
	return true
}

func (s *vsSim) describe() string {
	var b strings.Builder
	for _, n := range s.nodes[1:] {
		fi, li, empty := n.wl.GetBound()
		fmt.Fprintf(&b, "n%d{t=%d v=%s %s c=%d log=[%d..%d]%v snap=%d", n.i, n.st.term, n.st.voteFor, n.core.state.name(), n.core.committedIndex, fi, li, empty, n.sm.snapMeta.LastIndex)
		if vsDebug && n.role() == 2 {
			for _, p := range n.core.leader.(*coreLeader).peers {
				fmt.Fprintf(&b, " %s:n%d/m%d", p.ID, p.nextIndex, p.matchIndex)
			}
		}
		b.WriteString("} ")
	}
	return b.String()
}

// ---------------------------------------------------------------- cloning the whole simulation

func vsCloneMembershipPtr(m *Membership) *Membership {
	if m == nil {
		return nil
	}
	c := vsCopyMembership(*m)
	return &c
}

func vsCloneCore(c *core, st *Storage) *core {
	d := *c
	d.storage = st
	d.msgs = nil
	d.committedEnts = nil
	d.latestConf = vsCloneMembershipPtr(c.latestConf)
	d.rand = rand.New(rand.NewSource(1))
	f := *c.follower.(*coreFollower)
	f.c = &d
	d.follower = &f
	cd := *c.candidate.(*coreCandidate)
	cd.c = &d
	if cd.votes != nil {
		cd.votes = map[string]bool{}
		for k, v := range c.candidate.(*coreCandidate).votes {
			cd.votes[k] = v
		}
	}
	d.candidate = &cd
	l := *c.leader.(*coreLeader)
	l.c = &d
	if l.peers != nil {
		l.peers = map[string]*peer{}
		for k, p := range c.leader.(*coreLeader).peers {
			pc := *p
			l.peers[k] = &pc
		}
	}
	d.leader = &l
	switch c.state {
	case c.follower:
		d.state = d.follower
	case c.candidate:
		d.state = d.candidate
	case c.leader:
		d.state = d.leader
	}
	return &d
}

func vsCloneNode(n *vsNode) *vsNode {
	m := *n
	m.ctl = &vsMutCtl{}
	m.st = &memState{voteFor: n.st.voteFor, term: n.st.term, myGUID: n.st.myGUID, seenGUIDs: map[string]uint64{}}
	for k, v := range n.st.seenGUIDs {
		m.st.seenGUIDs[k] = v
	}
	m.wl = NewMemLog()
	if es := n.logEntries(); len(es) > 0 {
		m.wl.Append(es...)
	}
	m.sm = &memSnapshotMgr{snapData: append([]byte(nil), n.sm.snapData...), snapMeta: n.sm.snapMeta}
	if n.sm.snapData == nil {
		m.sm.snapData = nil
	}
	m.sm.snapMeta.Membership = vsCloneMembershipPtr(n.sm.snapMeta.Membership)
	m.stor = &Storage{State: &vsState{m.st, m.ctl}, SnapshotManager: &vsSnapMgr{m.sm, m.ctl}, log: &vsLog{m.wl, m.ctl}}
	m.core = vsCloneCore(n.core, m.stor)
	if n.pendingSnap != nil {
		ps := *n.pendingSnap
		m.pendingSnap = &ps
	}
	return &m
}

func (s *vsSim) clone() *vsSim {
	c := &vsSim{prop: s.prop, caseID: s.caseID, cfg: s.cfg, nextCmd: s.nextCmd, evno: s.evno, quiet: true, tr: nil,
		leaders: map[uint64]int{}, votes: map[[2]uint64]string{}, committed: map[uint64]*vsCommitted{},
		grants: map[[2]uint64]string{}, viol: map[string]bool{}}
	for k, v := range s.leaders {
		c.leaders[k] = v
	}
	for k, v := range s.votes {
		c.votes[k] = v
	}
	for k, v := range s.committed {
		c.committed[k] = v
	}
	for k, v := range s.grants {
		c.grants[k] = v
	}
	for k, v := range s.viol {
		c.viol[k] = v
	}
	c.nodes = make([]*vsNode, len(s.nodes))
	for i := 1; i < len(s.nodes); i++ {
		c.nodes[i] = vsCloneNode(s.nodes[i])
	}
	c.soup = make([]*vsSoupMsg, len(s.soup))
	for i, sm := range s.soup {
		x := *sm
		c.soup[i] = &x
	}
	return c
}

func vsSameProj(a, b *vsNode) bool {
	var x, y vw.L
	a.proj(&x)
	b.proj(&y)
	if len(x) != len(y) {
		return false
	}
	for i := range x {
		if x[i] != y[i] {
			return false
		}
	}
	return true
}

// ---------------------------------------------------------------- child process protocol
// The parent test re-executes the test binary for ranges of cases; the child appends trace lines directly to the trace
// file and reports violations / stats / progress as lines of a journal file, flushed immediately.

var vsJournal *os.File
var vsDebug = os.Getenv("VERIF_RAFT_DEBUG") != ""

func vsJournalLine(kind string, v interface{}) {
	if vsJournal == nil {
		return
	}
	b, _ := json.Marshal(map[string]interface{}{"t": kind, "v": v})
	vsJournal.Write(append(b, '\n'))
}

func vsChildReport(v vw.Violation) { vsJournalLine("viol", v) }
func vsChildStat(k string, n int64) {
	if !vsStatMuted {
		vsStatBuf[k] += n
	}
}

var vsStatMuted bool

// set by the C07 harness to put the crash-enumeration hook on simulations built by the shared corpus scripts
var vsNewSimHook func(s *vsSim)

var vsStatBuf = map[string]int64{}

func vsFlushStats() {
	if len(vsStatBuf) > 0 {
		vsJournalLine("stats", vsStatBuf)
		vsStatBuf = map[string]int64{}
	}
}
