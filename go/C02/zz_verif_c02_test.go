package raft

// C02 harness: Raft consensus safety under arbitrary schedules and faults.
// Parent/child: every range of cases runs in a re-executed test binary so that a log.Fatalf inside the
// code under test becomes the observation FATAL (666 <code>) instead of killing the harness.

import (
	"bufio"
	"bytes"
	"encoding/json"
	"flag"
	"fmt"
	"os"
	"os/exec"
	"path/filepath"
	"regexp"
	"strconv"
	"strings"
	"testing"

	vw "github.com/westerndigitalcorporation/blb/pkg/verifwire"
)

// ---------------------------------------------------------------- fatal codes (shared with the Coq model: Raft/Core.v)

var vsFatalTable = []struct {
	code int
	name string
	sub  string
}{
	{1, "response-with-higher-term", "Not expected to receive message"},
	{2, "second-leader-in-term", "not from its leader"},
	{3, "no-term-for-last-index", "can't get the term of last index"},
	{4, "term-beyond-last-index", "is not allowed to exceed the last index"},
	{5, "no-snapshot-for-trimmed-term", "There must be a snapshot file exists"},
	{6, "gap-before-first-entry", "there's gap between last entry"},
	{7, "append-not-contiguous", "the index of first entry to append is not contiguous"},
	{8, "leader-got-append-in-own-term", "[leader] bug: received"},
	{9, "candidate-got-append-response", "[candidate] bug: not supposed to receive"},
	{10, "no-snapshot-to-ship", "can't find snapshot file when we were told to ship"},
	{11, "no-term-for-match-index", "Failed to get the term number of last index"},
	{12, "ack-beyond-last-index", "bug: ackIdx > last index"},
	{13, "reconfig-before-nop-committed", "not supposed to receive a reconfig request"},
	{14, "no-term-at-majority-index", "can't find the term number of the command at 'majorityIndex'"},
	{15, "commit-index-not-snapshot-index", "bug: commit index != snap index"},
	{16, "trim-outside-log", "bug: not in a valid state. first index"},
	{17, "entries-end-beyond-log", "can't exceed the last index"},
	{18, "log-read-mismatch", "Mismatch in entry retrieved from log"},
	{19, "log-term-of-missing-entry", "Can't find any entry with index"},
	{21, "log-append-rejected", "Invalid index"},
	{20, "runtime-panic", "panic:"},
}

func vsFatalCode(stderr string) (int, string) {
	for _, f := range vsFatalTable {
		if strings.Contains(stderr, f.sub) {
			return f.code, f.name
		}
	}
	return 99, "unknown"
}

// ---------------------------------------------------------------- parent

type vsRunCase func(ci int, r *vw.Rng, tr *vsTrace, resumeJ, resumeK int)

func vsParentMain(t *testing.T, prop string, testName string, ncases int) {
	out := vw.OutDir()
	tracePath := filepath.Join(out, prop+".trace")
	journalPath := filepath.Join(out, prop+".journal")
	os.Remove(tracePath)
	os.Remove(journalPath)
	os.WriteFile(tracePath, nil, 0o644)
	os.WriteFile(journalPath, nil, 0o644)
	defer vw.Finish(prop)
	next := 0
	resume := ""
	deaths := 0
	var joff int64
	for next < ncases {
		cmd := exec.Command(os.Args[0], "-test.run", "^"+testName+"$", "-test.timeout", "3000s")
		logdir, _ := os.MkdirTemp("", "vsglog")
		cmd.Env = append(os.Environ(), fmt.Sprintf("VERIF_RAFT_CHILD=%d:%d", next, ncases), "VERIF_RAFT_RESUME="+resume,
			"VERIF_RAFT_LOGDIR="+logdir, fmt.Sprintf("VERIF_RAFT_DEATHS=%d", deaths))
		var stderr, stdout bytes.Buffer
		cmd.Stderr = &stderr
		cmd.Stdout = &stdout
		err := cmd.Run()
		os.RemoveAll(logdir)
		if vsDebug {
			os.Stderr.Write(stderr.Bytes())
		}
		// journal
		curCase, curDone, ctx := "", true, ""
		jf, _ := os.Open(journalPath)
		jf.Seek(joff, 0)
		rd := bufio.NewReaderSize(jf, 1<<20)
		for {
			line, rerr := rd.ReadBytes('\n')
			if len(line) > 0 && line[len(line)-1] == '\n' {
				joff += int64(len(line))
				var rec struct {
					T string          `json:"t"`
					V json.RawMessage `json:"v"`
				}
				if json.Unmarshal(line, &rec) == nil {
					switch rec.T {
					case "viol":
						var v vw.Violation
						json.Unmarshal(rec.V, &v)
						vw.Report(v)
					case "stats":
						var m map[string]int64
						json.Unmarshal(rec.V, &m)
						for k, n := range m {
							vw.Stat(k, n)
						}
					case "distinct":
						var sfp string
						json.Unmarshal(rec.V, &sfp)
						vw.Distinct(sfp)
					case "sample":
						var sfp string
						json.Unmarshal(rec.V, &sfp)
						vw.Sample(sfp)
					case "case":
						json.Unmarshal(rec.V, &curCase)
						curDone = false
						ctx = ""
					case "done":
						curDone = true
					case "ctx":
						json.Unmarshal(rec.V, &ctx)
					}
				}
			}
			if rerr != nil {
				break
			}
		}
		jf.Close()
		if err == nil {
			break
		}
		// the child died: a Fatalf / panic in the code under test (or a harness bug, which shows as "unknown")
		deaths++
		es := stderr.String() + stdout.String()
		code, name := vsFatalCode(es)
		if curDone || curCase == "" {
			t.Fatalf("child died outside a case: %v\n%s", err, vsTail(es, 3000))
		}
		if code == 99 || code == 20 {
			// keep the evidence
			os.WriteFile(filepath.Join(out, fmt.Sprintf("%s.death%d.txt", prop, deaths)), []byte(vsTail(es, 20000)), 0o644)
		}
		// complete a dangling op line
		if vsLastLineIsOp(tracePath) {
			f, _ := os.OpenFile(tracePath, os.O_WRONLY|os.O_APPEND, 0o644)
			fmt.Fprintf(f, "< 666 %d\n", code)
			f.Close()
		}
		if strings.Contains(ctx, "phase=expected-fatal") && strings.Contains(ctx, fmt.Sprintf("code=%d", code)) {
			// a deliberately illegal request whose modelled outcome is this very Fatalf (compared through the 666 line)
			vw.Stat("expected-fatal."+name, 1)
			ci, _ := strconv.Atoi(strings.TrimPrefix(curCase, "c"))
			next, resume = ci+1, ""
			deaths--
			continue
		}
		sig := "fatal:" + name
		if ctx != "" {
			sig += ":" + vsCtxSig(ctx)
		}
		vw.Report(vw.Violation{Property: prop, Signature: sig, Case: curCase,
			What:   "log.Fatalf / panic in the Raft core while driven by legitimate events: " + name,
			Detail: map[string]interface{}{"context": ctx, "stderr": vsTail(vsFatalLine(es), 600)}})
		vw.Stat("fatal."+name, 1)
		ci, _ := strconv.Atoi(strings.TrimPrefix(curCase, "c"))
		if j, k, ok := vsCtxResume(ctx); ok && deaths < 200 {
			next = ci
			resume = fmt.Sprintf("%d:%d:%d", ci, j, k)
		} else {
			next = ci + 1
			resume = ""
		}
	}
	vw.Stat("child.deaths", int64(deaths))
}

func vsTail(s string, n int) string {
	if len(s) > n {
		return s[len(s)-n:]
	}
	return s
}

var vsFatalRe = regexp.MustCompile(`(?m)^(F\d{4} .*|panic: .*)$`)

func vsFatalLine(s string) string {
	if m := vsFatalRe.FindString(s); m != "" {
		return m
	}
	return s
}

func vsLastLineIsOp(path string) bool {
	b, err := os.ReadFile(path)
	if err != nil || len(b) == 0 {
		return false
	}
	b = bytes.TrimRight(b, "\n")
	i := bytes.LastIndexByte(b, '\n')
	return len(b) > i+1 && b[i+1] == '>'
}

// context strings: "phase=catchup j=12 k=2 ev=InstallSnapshot mut=SnapshotCommit"
func vsCtxSig(ctx string) string {
	var keep []string
	for _, f := range strings.Fields(ctx) {
		if strings.HasPrefix(f, "phase=") || strings.HasPrefix(f, "ev=") || strings.HasPrefix(f, "mut=") {
			keep = append(keep, f)
		}
	}
	return strings.Join(keep, ",")
}

func vsCtxResume(ctx string) (j, k int, ok bool) {
	j, k = -1, -1
	for _, f := range strings.Fields(ctx) {
		if strings.HasPrefix(f, "j=") {
			j, _ = strconv.Atoi(f[2:])
		}
		if strings.HasPrefix(f, "k=") {
			k, _ = strconv.Atoi(f[2:])
		}
	}
	return j, k, j >= 0 && k >= 0
}

// ---------------------------------------------------------------- child

func vsChildMain(prop string, run vsRunCase) {
	flag.Set("logtostderr", "false")
	flag.Set("stderrthreshold", "FATAL")
	flag.Set("log_dir", os.Getenv("VERIF_RAFT_LOGDIR"))
	out := vw.OutDir()
	var err error
	vsJournal, err = os.OpenFile(filepath.Join(out, prop+".journal"), os.O_WRONLY|os.O_APPEND, 0o644)
	if err != nil {
		panic(err)
	}
	tr := vsOpenTrace(filepath.Join(out, prop+".trace"))
	var a, b int
	fmt.Sscanf(os.Getenv("VERIF_RAFT_CHILD"), "%d:%d", &a, &b)
	rc, rj, rk := -1, -1, -1
	if rs := os.Getenv("VERIF_RAFT_RESUME"); rs != "" {
		fmt.Sscanf(rs, "%d:%d:%d", &rc, &rj, &rk)
	}
	root := vw.NewRng(vw.Seed())
	for ci := a; ci < b; ci++ {
		id := fmt.Sprintf("c%d", ci)
		if !vw.CaseSelected(id) {
			continue
		}
		vsJournalLine("case", id)
		if ci == rc {
			run(ci, root.Fork(uint64(ci)), tr, rj, rk)
		} else {
			run(ci, root.Fork(uint64(ci)), tr, -1, -1)
		}
		vsFlushStats()
		vsJournalLine("done", id)
	}
	vsJournal.Close()
}

// ---------------------------------------------------------------- C02: generator

func vsRandCfg(r *vw.Rng) vsCfg {
	c := vsCfg{N: r.PickInt(1, 2, 3, 3, 3, 4, 5, 5)}
	c.followerTO = uint32(r.PickInt(2, 3, 4))
	c.candTO = uint32(r.PickInt(2, 3, 4))
	c.hbTO = 1
	c.stepdownTO = uint32(r.PickInt(0, 0, 3, 5))
	c.snapTO = uint32(r.PickInt(2, 4, 6))
	c.maxEnts = uint32(r.PickInt(1, 2, 3, 1000))
	c.keep = uint64(r.PickInt(0, 0, 1, 2, 5))
	return c
}

type c02Gen struct {
	s        *vsSim
	r        *vw.Rng
	loose    bool
	churn    int // weight of ticking non-leaders
	isolated map[int]bool
	members  int
	snapHeavy bool
	direct    bool // reconfiguration requests go straight to a leader's core at arbitrary moments (no raft.go serialisation)
}

func (g *c02Gen) deliverable(sm *vsSoupMsg) bool {
	return !g.isolated[sm.from] && !g.isolated[sm.to]
}

func (g *c02Gen) leadersReady(needNop bool) []int {
	var out []int
	for _, n := range g.s.nodes[1:] {
		if n.role() == 2 && (!needNop || n.nopDoneTerm == n.st.term) {
			out = append(out, n.i)
		}
	}
	return out
}

func (g *c02Gen) stepRandom() {
	s, r := g.s, g.r
	N := s.cfg.N
	w := r.Intn(100)
	if g.snapHeavy && r.Chance(1, 6) {
		w = 92
	}
	if g.direct && r.Chance(1, 12) {
		w = 97
	}
	switch {
	case w < 48: // deliver a pending message
		p := s.pending(g.deliverable)
		if len(p) == 0 {
			g.tick()
			return
		}
		sm := p[0]
		if r.Chance(3, 10) {
			sm = p[r.Intn(len(p))]
		}
		s.step(s.evDeliver(sm))
		s.maybeNop(sm.to)
		vsChildStat("ev.deliver."+vsKind(sm.m), 1)
	case w < 54: // duplicate / late delivery of anything ever sent
		if len(s.soup) == 0 {
			return
		}
		sm := s.soup[r.Intn(len(s.soup))]
		if sm.to < 1 || sm.to > N {
			return
		}
		s.step(s.evDeliver(sm))
		s.maybeNop(sm.to)
		vsChildStat("ev.redeliver."+vsKind(sm.m), 1)
	case w < 58: // loss
		p := s.pending(nil)
		if len(p) > 0 {
			p[r.Intn(len(p))].dropped = true
			vsChildStat("ev.drop", 1)
		}
	case w < 80:
		g.tick()
	case w < 89: // proposal
		ls := g.leadersReady(!g.loose)
		if len(ls) == 0 {
			g.tick()
			return
		}
		l := ls[r.Intn(len(ls))]
		k := r.PickInt(1, 1, 1, 2, 3)
		var cmds []int64
		for i := 0; i < k; i++ {
			if r.Chance(1, 8) {
				cmds = append(cmds, 0)
			} else {
				cmds = append(cmds, s.freshCmd())
			}
		}
		s.step(s.evPropose(l, cmds))
		vsChildStat("ev.propose", 1)
	case w < 91: // restart
		i := r.Range(1, N)
		s.step(s.evRestart(i))
		vsChildStat("ev.restart", 1)
	case w < 94: // snapshot begin / done
		i := r.Range(1, N)
		if s.nodes[i].pendingSnap != nil && r.Chance(2, 3) {
			s.snapDone(i)
			vsChildStat("ev.snapdone", 1)
		} else if s.snapBegin(i) {
			if r.Chance(1, 2) {
				s.snapDone(i)
				vsChildStat("ev.snapdone", 1)
			}
		}
	case w < 96: // partition change
		if r.Chance(1, 2) || len(g.isolated) > 0 {
			g.isolated = map[int]bool{}
		}
		if r.Chance(2, 3) {
			k := r.Range(1, (N+1)/2)
			for i := 0; i < k; i++ {
				g.isolated[r.Range(1, N)] = true
			}
		}
		vsChildStat("ev.partition", 1)
	case w < 99 && g.direct:
		g.directReconf()
	case w < 99: // reconfiguration, as raft.go would issue it
		ls := g.leadersReady(true)
		if len(ls) == 0 {
			return
		}
		l := s.nodes[ls[r.Intn(len(ls))]]
		if l.reconfPending || l.core.latestConf == nil {
			return
		}
		in := map[int]bool{}
		for _, m := range l.core.latestConf.Members {
			in[int(vsNum(m))] = true
		}
		var outs, ins []int
		for i := 1; i <= N; i++ {
			if in[i] {
				ins = append(ins, i)
			} else {
				outs = append(outs, i)
			}
		}
		var ev vsEvent
		if len(outs) > 0 && (len(ins) <= 2 || r.Chance(1, 2)) {
			ev = s.evAddNode(l.i, outs[r.Intn(len(outs))])
		} else if len(ins) > 1 {
			ev = s.evRemoveNode(l.i, ins[r.Intn(len(ins))])
		} else {
			return
		}
		s.step(ev)
		l.reconfPending = true
		vsChildStat("ev.reconfig", 1)
	default: // a message delivered to the wrong node (misrouted): must be ignored
		if len(s.soup) == 0 {
			return
		}
		sm := s.soup[r.Intn(len(s.soup))]
		s.step(s.evDeliverTo(sm, r.Range(1, N)))
		vsChildStat("ev.misroute", 1)
	}
}

// lagPhase: one follower is cut off while the leader commits a few batches with the others, snapshots what it applied
// and trims its log; then the follower is reconnected (it will need the snapshot or the kept log suffix).
func (g *c02Gen) lagPhase() {
	s, r := g.s, g.r
	var l *vsNode
	for _, n := range s.nodes[1:] {
		if n.role() == 2 && (l == nil || n.st.term > l.st.term) {
			l = n
		}
	}
	if l == nil || l.core.latestConf == nil || len(l.core.latestConf.Members) < 3 {
		return
	}
	var others []int
	for _, m := range l.core.latestConf.Members {
		if int(vsNum(m)) != l.i {
			others = append(others, int(vsNum(m)))
		}
	}
	f := others[r.Intn(len(others))]
	g.isolated = map[int]bool{f: true}
	for b := r.Range(2, 3); b > 0 && l.role() == 2; b-- {
		s.step(s.evPropose(l.i, []int64{s.freshCmd(), s.freshCmd()}))
		for i := 0; i < 24; i++ {
			p := s.pending(g.deliverable)
			if len(p) == 0 {
				break
			}
			s.step(s.evDeliver(p[0]))
			s.maybeNop(p[0].to)
		}
		s.step(s.evTick(l.i))
	}
	for i := 0; i < 12; i++ {
		p := s.pending(g.deliverable)
		if len(p) == 0 {
			break
		}
		s.step(s.evDeliver(p[0]))
	}
	if s.snapBegin(l.i) {
		s.snapDone(l.i)
	}
	g.isolated = map[int]bool{}
	s.dropPending(func(m *vsSoupMsg) bool { return m.to == f || m.from == f })
	vsChildStat("lag.phases", 1)
}

// wouldFatalReconf predicts verifyNopCommitted's sanity Fatalf (no entry of the current term committed yet)
func vsWouldFatalReconf(n *vsNode) bool {
	ci := n.core.committedIndex
	if ci > n.stor.lastIndex() {
		return true
	}
	if ci == 0 {
		return n.st.term != 0
	}
	fi, li, empty := n.wl.GetBound()
	if !empty && ci >= fi && ci <= li {
		return n.wl.Term(ci) != n.st.term
	}
	if meta := n.sm.snapMeta; meta != NilSnapshotMetadata && meta.LastIndex == ci {
		return meta.LastTerm != n.st.term
	}
	return true
}

// directReconf: AddNode/RemoveNode straight at the core of any node that is leader in its own mind, whatever is pending:
// back to back, while the previous change is uncommitted, of existing members, of non-members, of the leader itself.
// The core's own guards decide (ErrNodeExists / ErrNodeNotExists / ErrTooManyPendingReqs); the outcome is in the
// observation line and is compared with the model. Requests that would hit verifyNopCommitted's Fatalf are not issued
// here (see expectedFatalReconf).
func (g *c02Gen) directReconf() {
	s, r := g.s, g.r
	N := s.cfg.N
	ls := g.leadersReady(false)
	if len(ls) == 0 {
		return
	}
	l := s.nodes[ls[r.Intn(len(ls))]]
	burst := r.PickInt(1, 1, 2, 2, 3)
	for b := 0; b < burst; b++ {
		if l.role() != 2 || l.core.latestConf == nil || vsWouldFatalReconf(l) {
			return
		}
		in := map[int]bool{}
		for _, m := range l.core.latestConf.Members {
			in[int(vsNum(m))] = true
		}
		var outs, ins []int
		for i := 1; i <= N; i++ {
			if in[i] {
				ins = append(ins, i)
			} else {
				outs = append(outs, i)
			}
		}
		var ev vsEvent
		switch k := r.Intn(10); {
		case k < 3 && len(outs) > 0:
			ev = s.evAddNode(l.i, outs[r.Intn(len(outs))])
		case k < 4:
			ev = s.evAddNode(l.i, ins[r.Intn(len(ins))]) // existing member
		case k < 5 && len(outs) > 0:
			ev = s.evRemoveNode(l.i, outs[r.Intn(len(outs))]) // not a member
		case k < 6 && len(ins) > 1 && in[l.i]:
			ev = s.evRemoveNode(l.i, l.i) // the leader itself
		case len(ins) > 1:
			ev = s.evRemoveNode(l.i, ins[r.Intn(len(ins))])
		default:
			return
		}
		s.step(ev)
		vsChildStat("ev.reconfig.direct", 1)
	}
	if r.Chance(1, 3) {
		// cut the leader off right after: what it accepted must not let it commit alone
		g.isolated = map[int]bool{l.i: true}
		vsChildStat("ev.reconfig.direct.isolated", 1)
	}
}

// expectedFatalReconf ends a case with a reconfiguration request before an entry of the current term is committed: the
// core's sanity Fatalf is the modelled outcome (666 13); the parent does not count it as a violation.
func (g *c02Gen) expectedFatalReconf() {
	s, r := g.s, g.r
	for _, n := range s.nodes[1:] {
		if n.role() != 2 || n.core.latestConf == nil || len(n.core.latestConf.Members) < 2 || !vsWouldFatalReconf(n) || n.core.committedIndex > n.stor.lastIndex() {
			continue
		}
		vsJournalLine("ctx", "phase=expected-fatal code=13")
		vsChildStat("ev.reconfig.direct.expected-fatal", 1)
		vsFlushStats()
		m := int(vsNum(n.core.latestConf.Members[r.Intn(len(n.core.latestConf.Members))]))
		if r.Chance(1, 2) {
			s.step(s.evRemoveNode(n.i, m))
		} else {
			s.step(s.evAddNode(n.i, m))
		}
		vsJournalLine("ctx", "")
		return
	}
}

func (g *c02Gen) tick() {
	s, r := g.s, g.r
	ls := g.leadersReady(false)
	i := r.Range(1, s.cfg.N)
	if len(ls) > 0 && !r.Chance(g.churn, 100) {
		i = ls[r.Intn(len(ls))]
	}
	s.step(s.evTick(i))
	s.maybeNop(i)
	vsChildStat("ev.tick", 1)
}

func c02Bootstrap(s *vsSim, r *vw.Rng) int {
	N := s.cfg.N
	m := N
	if N > 1 && r.Chance(1, 3) {
		m = r.Range(1, N)
	}
	var members []int
	for i := 1; i <= m; i++ {
		members = append(members, i)
	}
	s.step(s.evBootstrap(r.Range(1, m), members, uint64(r.Range(1, 1000))))
	return m
}

// c02WarmUp: one clean election and replication round so that the random phase starts from a working group
func c02WarmUp(s *vsSim, r *vw.Rng, members int) {
	var boot int
	for _, n := range s.nodes[1:] {
		if _, _, empty := n.wl.GetBound(); !empty {
			boot = n.i
		}
	}
	if boot == 0 {
		return
	}
	s.elect(boot, vsAll(members)...)
	s.deliverAll(nil, 200)
	if l := s.nodes[boot]; l.role() == 2 {
		s.step(s.evTick(boot))
		s.deliverAll(nil, 200)
	}
}

func c02RunCase(ci int, r *vw.Rng, tr *vsTrace, _, _ int) {
	id := fmt.Sprintf("c%d", ci)
	tr.caseHdr(id)
	if ci < len(c02Corpus) {
		s := c02Corpus[ci](id, tr)
		vsChildStat("corpus", 1)
		c02Finish(s, id, true)
		return
	}
	if ci < len(c02Corpus)+2 {
		s := c02Exhaustive(ci-len(c02Corpus), id, tr)
		c02Finish(s, id, true)
		return
	}
	cfg := vsRandCfg(r)
	if r.Chance(1, 3) {
		cfg.keep = uint64(r.PickInt(0, 0, 1))
	}
	s := vsNewSim("C02", id, cfg, tr)
	g := &c02Gen{s: s, r: r, loose: r.Chance(1, 5), churn: r.PickInt(3, 10, 30, 60), isolated: map[int]bool{}}
	g.direct = r.Chance(1, 4)
	g.members = c02Bootstrap(s, r)
	if g.direct || r.Chance(1, 2) {
		c02WarmUp(s, r, g.members)
		if r.Chance(1, 2) {
			g.lagPhase()
		}
	}
	nev := s.evno + r.Range(30, vw.Scale(120, 600))
	for s.evno < nev {
		g.stepRandom()
	}
	// heal and let the group converge a little: every clause must still hold
	if r.Chance(1, 2) {
		g.isolated = map[int]bool{}
		for i := 0; i < 40 && s.evno < nev+60; i++ {
			if p := s.pending(nil); len(p) > 0 {
				s.step(s.evDeliver(p[0]))
				s.maybeNop(p[0].to)
			} else {
				g.tick()
			}
		}
	}
	vsChildStat(fmt.Sprintf("nodes=%d", cfg.N), 1)
	if g.direct {
		vsChildStat("cases.direct.reconfig", 1)
		if r.Chance(1, 4) {
			g.expectedFatalReconf()
		}
	}
	c02Finish(s, id, false)
}

func c02Finish(s *vsSim, id string, corpus bool) {
	vsChildStat("cases", 1)
	vsChildStat("events", int64(s.evno))
	vsChildStat("committed.entries", int64(len(s.committed)))
	vsChildStat("terms.with.leader", int64(len(s.leaders)))
	maxTerm := uint64(0)
	snaps := 0
	for _, n := range s.nodes[1:] {
		if n.st.term > maxTerm {
			maxTerm = n.st.term
		}
		if n.sm.snapMeta != NilSnapshotMetadata {
			snaps++
		}
	}
	if len(s.committed) > 1 && len(s.leaders) > 0 {
		vsJournalLine("distinct", fmt.Sprintf("%s/%d/%d/%d/%d", s.describe(), len(s.committed), len(s.leaders), s.evno, len(s.soup)))
	}
	if snaps > 0 {
		vsChildStat("cases.with.snapshot", 1)
	}
	if len(s.leaders) > 1 {
		vsChildStat("cases.with.leader.change", 1)
	}
	if corpus || strings.HasSuffix(id, "7") {
		vsJournalLine("sample", fmt.Sprintf("case %s: %d events, %d msgs, committed=%d, leaders/term=%v, end: %s", id, s.evno, len(s.soup), len(s.committed), s.leaders, s.describe()))
	}
}

// ---------------------------------------------------------------- exhaustive search of short schedules (search support, not a proof)
// From a warm state every schedule of `depth` further events is explored on clones (deliver any pending message,
// re-deliver the newest delivered message of each kind, tick / restart any node, propose at any leader); only the monitors
// look at these states (no trace, no model comparison). States already seen with at least the same remaining depth are cut.

func (s *vsSim) fingerprint() string {
	var l vw.L
	for _, n := range s.nodes[1:] {
		n.proj(&l)
		l.Add(-7)
	}
	for _, sm := range s.soup {
		if sm.ndeliv == 0 && !sm.dropped {
			l.AddInt(sm.id)
		}
	}
	return vw.Ints(l)
}

func (s *vsSim) enumerate() []vsEvent {
	var evs []vsEvent
	seen := map[string]bool{}
	for _, sm := range s.pending(nil) {
		var l vw.L
		vsEncMsg(&l, sm.m)
		k := vw.Ints(l)
		if !seen[k] {
			seen[k] = true
			evs = append(evs, s.evDeliver(sm))
		}
	}
	lastOf := map[string]*vsSoupMsg{}
	for _, sm := range s.soup {
		if sm.ndeliv > 0 {
			lastOf[fmt.Sprint(vsKind(sm.m), sm.to)] = sm
		}
	}
	var keys []string
	for k := range lastOf {
		keys = append(keys, k)
	}
	sortStrings(keys)
	for _, k := range keys {
		evs = append(evs, s.evDeliver(lastOf[k]))
	}
	for i := 1; i <= s.cfg.N; i++ {
		evs = append(evs, s.evTick(i))
	}
	for i := 1; i <= s.cfg.N; i++ {
		evs = append(evs, s.evRestart(i))
	}
	for _, n := range s.nodes[1:] {
		if n.role() == 2 {
			evs = append(evs, s.evPropose(n.i, []int64{9000 + int64(n.i)}))
		}
	}
	return evs
}

func sortStrings(a []string) {
	for i := 1; i < len(a); i++ {
		for j := i; j > 0 && a[j] < a[j-1]; j-- {
			a[j], a[j-1] = a[j-1], a[j]
		}
	}
}

func (s *vsSim) dfs(depth int, seen map[string]int, count *int64) {
	if depth == 0 {
		return
	}
	for _, ev := range s.enumerate() {
		cl := s.clone()
		cl.ctxSig = "phase=exhaustive"
		cl.step(ev)
		cl.maybeNop(ev.node)
		*count++
		fp := cl.fingerprint()
		if d, ok := seen[fp]; ok && d >= depth-1 {
			continue
		}
		seen[fp] = depth - 1
		cl.dfs(depth-1, seen, count)
	}
}

func c02Exhaustive(variant int, id string, tr *vsTrace) *vsSim {
	depth := vw.Scale(3, 6)
	var s *vsSim
	switch variant {
	case 0: // fresh election in flight: candidate n1 has asked for votes, nothing delivered yet
		s = vsNewSim("C02", id, vsCorpusCfg(3, 2, 0), tr)
		s.step(s.evBootstrap(1, vsAll(3), 5))
		s.elect(1, 2, 3)
		s.sync(1, 2, 3)
		s.tickUntil(2, 1, 10)
	default: // a leader with uncommitted entries in flight and a follower that just restarted
		s = vsNewSim("C02", id, vsCorpusCfg(3, 1, 0), tr)
		s.step(s.evBootstrap(1, vsAll(3), 5))
		s.elect(1, 2, 3)
		s.sync(1, 2, 3)
		s.step(s.evPropose(1, []int64{s.freshCmd(), s.freshCmd()}))
		s.step(s.evRestart(3))
	}
	var count int64
	s.dfs(depth, map[string]int{}, &count)
	vsChildStat("exhaustive.states", count)
	vsChildStat(fmt.Sprintf("exhaustive.depth=%d", depth), 1)
	return s
}

func TestVerifC02(t *testing.T) {
	if !vw.Enabled() {
		t.Skip("verification harness: run through /verif/bin/check")
	}
	if os.Getenv("VERIF_RAFT_CHILD") != "" {
		vsChildMain("C02", c02RunCase)
		return
	}
	vsParentMain(t, "C02", "TestVerifC02", vw.Scale(400, 20000))
}

// ---------------------------------------------------------------- adversarial corpus (always runs first)

func vsCorpusCfg(n int, maxEnts uint32, keep uint64) vsCfg {
	return vsCfg{N: n, followerTO: 3, candTO: 3, hbTO: 1, stepdownTO: 0, snapTO: 4, maxEnts: maxEnts, keep: keep}
}

func vsAll(n int) []int {
	var out []int
	for i := 1; i <= n; i++ {
		out = append(out, i)
	}
	return out
}

// elect makes c a candidate and lets exactly `voters` answer its vote requests; everything else in flight is dropped.
func (s *vsSim) elect(c int, voters ...int) bool {
	s.dropPending(nil)
	if s.nodes[c].role() == 2 {
		// force a new election: a leader does not time out; use another node's higher term is not possible here
		return true
	}
	// tick until it starts a NEW election (term grows)
	t0 := s.nodes[c].st.term
	for i := 0; i < 20 && !(s.nodes[c].role() == 1 && s.nodes[c].st.term > t0); i++ {
		s.step(s.evTick(c))
	}
	for _, v := range voters {
		for _, sm := range s.pending(func(m *vsSoupMsg) bool { return m.from == c && m.to == v && vsKind(m.m) == "VoteReq" }) {
			s.step(s.evDeliver(sm))
		}
	}
	s.dropPending(func(m *vsSoupMsg) bool { return vsKind(m.m) == "VoteReq" })
	for _, sm := range s.pending(func(m *vsSoupMsg) bool { return m.to == c && vsKind(m.m) == "VoteResp" }) {
		s.step(s.evDeliver(sm))
		s.maybeNop(c)
	}
	s.maybeNop(c)
	return s.nodes[c].role() == 2
}

// sync delivers everything between the given nodes until quiet; other traffic is dropped.
func (s *vsSim) sync(nodes ...int) {
	for i := 0; i < 400; i++ {
		p := s.pending(vsBetween(nodes...))
		if len(p) == 0 {
			break
		}
		s.step(s.evDeliver(p[0]))
		s.maybeNop(p[0].to)
	}
	s.dropPending(nil)
}

// replicateUntil lets leader l and follower f talk (and only them) until l knows that f's log reaches index idx
// (at most idx: with one entry per AppEnts nothing beyond idx is delivered).
func (s *vsSim) replicateUntil(l, f int, idx uint64) {
	known := func() bool {
		ld := s.nodes[l].core.leader.(*coreLeader)
		p := ld.peers[vsName(f)]
		return p != nil && p.matchIndex >= idx
	}
	for i := 0; i < 80 && !known(); i++ {
		p := s.pending(vsBetween(l, f))
		_, li, empty := s.nodes[f].wl.GetBound()
		if !empty && li >= idx {
			// only acknowledgements and entry-less probes from now on
			var ok []*vsSoupMsg
			for _, sm := range p {
				if ae, isAE := sm.m.(*AppEnts); sm.to == l || (isAE && ae.Entries == nil) {
					ok = append(ok, sm)
				} else {
					sm.dropped = true
				}
			}
			p = ok
		}
		if len(p) == 0 {
			s.step(s.evTick(l))
			continue
		}
		s.step(s.evDeliver(p[0]))
	}
	s.dropPending(vsBetween(l, f))
}

// depose delivers the newest message `by` ever sent to c (a higher term makes c step down)
func (s *vsSim) depose(c, by int) {
	for i := len(s.soup) - 1; i >= 0; i-- {
		if s.soup[i].from == by && s.soup[i].to == c {
			s.step(s.evDeliver(s.soup[i]))
			return
		}
	}
}

func (s *vsSim) heartbeat(l int, nodes ...int) {
	s.step(s.evTick(l))
	s.sync(nodes...)
}

var c02Corpus = []func(id string, tr *vsTrace) *vsSim{
	// 0. Figure 8: an entry of an earlier term stored on a majority must not be committed by counting replicas
	func(id string, tr *vsTrace) *vsSim {
		s := vsNewSim("C02", id, vsCorpusCfg(5, 1, 0), tr)
		s.step(s.evBootstrap(1, vsAll(5), 77))
		s.elect(1, 2, 3) // S1 leader of term 2: log = conf(1,t1) NOP(2,t2)
		for _, f := range []int{3, 4, 5} {
			s.replicateUntil(1, f, 1) // everybody learns the configuration only (one entry per AppEnts)
		}
		s.replicateUntil(1, 2, 2) // (2,t2) reaches S2 only
		s.dropPending(nil)
		s.elect(5, 3, 4) // S5 leader of term 3 with NOP (2,t3), replicated to nobody
		s.depose(1, 5)
		s.dropPending(nil)
		s.elect(1, 2, 3) // S1 again, term 4, NOP (3,t4)
		s.replicateUntil(1, 3, 2)
		s.replicateUntil(1, 2, 2)
		// (2,t2) is now stored on S1,S2,S3 and every acknowledgement has reached S1: it must NOT be committed (term 4 != 2)
		s.dropPending(nil)
		s.depose(5, 1)
		s.dropPending(nil)
		s.elect(5, 3, 4) // S5 wins term 5 (its last entry (2,t3) beats (2,t2)) and overwrites index 2 everywhere
		for i := 0; i < 6; i++ {
			for _, n := range vsAll(5) {
				if s.nodes[n].role() == 2 {
					s.step(s.evTick(n))
				}
			}
			s.deliverAll(nil, 300)
		}
		return s
	},
	// 1. vote twice after restart: the vote is durable before the reply
	func(id string, tr *vsTrace) *vsSim {
		s := vsNewSim("C02", id, vsCorpusCfg(3, 1000, 0), tr)
		s.step(s.evBootstrap(1, vsAll(3), 5))
		s.sync(1, 2, 3)
		// n1 candidate, n2 grants; the response is lost
		s.tickUntil(1, 1, 10)
		for _, sm := range s.pending(func(m *vsSoupMsg) bool { return m.to == 2 }) {
			s.step(s.evDeliver(sm))
		}
		s.dropPending(nil)
		s.step(s.evRestart(2))
		// n3 campaigns in the same term
		s.tickUntil(3, 1, 10)
		for _, sm := range s.pending(func(m *vsSoupMsg) bool { return m.to == 2 }) {
			s.step(s.evDeliver(sm))
		}
		s.deliverAll(nil, 50)
		// and the old request again, twice
		for _, sm := range s.soup {
			if vsKind(sm.m) == "VoteReq" && sm.to == 2 {
				s.step(s.evDeliver(sm))
			}
		}
		s.deliverAll(nil, 50)
		return s
	},
	// 2. stale and duplicated AppEnts must not truncate a committed suffix
	func(id string, tr *vsTrace) *vsSim {
		s := vsNewSim("C02", id, vsCorpusCfg(3, 1, 0), tr)
		s.step(s.evBootstrap(1, vsAll(3), 5))
		s.elect(1, 2, 3)
		s.sync(1, 2, 3)
		for i := 0; i < 4; i++ {
			s.step(s.evPropose(1, []int64{s.freshCmd(), s.freshCmd()}))
			s.sync(1, 2, 3)
			s.heartbeat(1, 1, 2, 3)
		}
		// every AppEnts ever sent, newest first, then oldest first, to both followers
		for i := len(s.soup) - 1; i >= 0; i-- {
			if vsKind(s.soup[i].m) == "AppEnts" {
				s.step(s.evDeliver(s.soup[i]))
			}
		}
		n := len(s.soup)
		for i := 0; i < n; i++ {
			if vsKind(s.soup[i].m) == "AppEnts" {
				s.step(s.evDeliver(s.soup[i]))
			}
		}
		s.deliverAll(nil, 400)
		s.step(s.evPropose(1, []int64{s.freshCmd()}))
		s.deliverAll(nil, 400)
		return s
	},
	// 3. single-server reconfiguration interleaving (the case verifyNopCommitted's comment describes)
	func(id string, tr *vsTrace) *vsSim {
		cfg := vsCorpusCfg(5, 1000, 0)
		cfg.stepdownTO = 2
		s := vsNewSim("C02", id, cfg, tr)
		s.step(s.evBootstrap(1, []int{1, 2, 3, 4}, 9))
		s.elect(1, 2, 3)
		s.sync(1, 2, 3, 4)
		s.heartbeat(1, 1, 2, 3, 4)
		// leader n1 proposes S' = S + n5, replicated to nobody
		s.step(s.evAddNode(1, 5))
		s.dropPending(nil)
		// n2 is elected in S by n3, n4; commits its NOP in S; then proposes S'' = S - n4 and commits it with n3
		s.elect(2, 3, 4)
		s.sync(2, 3, 4)
		s.heartbeat(2, 2, 3, 4)
		if s.nodes[2].nopDoneTerm == s.nodes[2].st.term {
			s.step(s.evRemoveNode(2, 4))
			s.sync(2, 3)
			s.heartbeat(2, 2, 3)
			s.step(s.evPropose(2, []int64{s.freshCmd()}))
			s.sync(2, 3)
			s.heartbeat(2, 2, 3)
		}
		// n1 (which uses S') loses contact, steps down, campaigns and asks n4, n5 (and everybody): must not win with an older log
		s.tickUntil(1, 0, 10)
		s.elect(1, 4, 5)
		s.elect(1, 4, 5, 2, 3)
		for i := 0; i < 4; i++ {
			for _, n := range vsAll(5) {
				if s.nodes[n].role() == 2 {
					s.step(s.evTick(n))
				}
			}
			s.deliverAll(nil, 300)
		}
		return s
	},
	// 4. snapshot racing append: InstallSnapshot, stale AppEnts and duplicates in every order at a lagging follower
	func(id string, tr *vsTrace) *vsSim {
		s := vsNewSim("C02", id, vsCorpusCfg(3, 2, 0), tr)
		s.step(s.evBootstrap(1, vsAll(3), 5))
		s.elect(1, 2, 3)
		s.sync(1, 2, 3) // n3 has index 1..2
		for i := 0; i < 3; i++ {
			s.step(s.evPropose(1, []int64{s.freshCmd(), s.freshCmd()}))
			s.sync(1, 2)
			s.heartbeat(1, 1, 2)
		}
		// leader snapshots everything applied and trims its log completely (keep = 0)
		s.snapBegin(1)
		s.snapDone(1)
		s.step(s.evPropose(1, []int64{s.freshCmd()}))
		s.sync(1, 2)
		// n3 is probed, answers with a hint, gets the snapshot; old AppEnts for n3 are delivered around it
		var old []*vsSoupMsg
		for _, sm := range s.soup {
			if sm.to == 3 && vsKind(sm.m) == "AppEnts" {
				old = append(old, sm)
			}
		}
		s.step(s.evTick(1))
		for i := 0; i < 10; i++ {
			p := s.pending(vsBetween(1, 3))
			if len(p) == 0 {
				break
			}
			s.step(s.evDeliver(p[0]))
			if vsKind(p[0].m) == "InstallSnapshot" {
				for _, sm := range old {
					s.step(s.evDeliver(sm))
				}
				s.step(s.evDeliver(p[0])) // duplicate snapshot
			}
		}
		s.step(s.evRestart(3))
		for i := 0; i < 4; i++ {
			s.step(s.evTick(1))
			s.deliverAll(nil, 300)
		}
		s.step(s.evPropose(1, []int64{s.freshCmd()}))
		s.deliverAll(nil, 300)
		return s
	},
	// 5. snapshot at a follower whose log holds conflicting uncommitted entries beyond the snapshot point
	func(id string, tr *vsTrace) *vsSim {
		s := vsNewSim("C02", id, vsCorpusCfg(3, 1000, 1), tr)
		s.step(s.evBootstrap(3, vsAll(3), 5))
		s.elect(3, 1, 2)
		s.sync(1, 2, 3)
		// n3 (leader, term 2) appends entries nobody receives
		s.step(s.evPropose(3, []int64{s.freshCmd(), s.freshCmd(), s.freshCmd(), s.freshCmd(), s.freshCmd(), s.freshCmd()}))
		s.dropPending(nil)
		// n1 takes over in term 3, commits other entries with n2, snapshots and trims
		s.elect(1, 2)
		s.sync(1, 2)
		s.step(s.evPropose(1, []int64{s.freshCmd(), s.freshCmd(), s.freshCmd(), s.freshCmd()}))
		s.sync(1, 2)
		s.heartbeat(1, 1, 2)
		s.snapBegin(1)
		s.snapDone(1)
		s.step(s.evPropose(1, []int64{s.freshCmd()}))
		s.sync(1, 2)
		for i := 0; i < 5; i++ {
			s.step(s.evTick(1))
			s.deliverAll(nil, 300)
		}
		return s
	},
	// 6. two lagging followers while the leader snapshots and trims: one gets the snapshot, the other campaigns with its short log
	func(id string, tr *vsTrace) *vsSim {
		s := vsNewSim("C02", id, vsCorpusCfg(5, 1000, 0), tr)
		s.step(s.evBootstrap(1, vsAll(5), 5))
		s.elect(1, 2, 3)
		s.sync(1, 2, 3, 4, 5) // everybody has index 1..2
		s.step(s.evPropose(1, []int64{s.freshCmd()}))
		s.sync(1, 2, 3, 5) // n5 has 1..3, n4 stays at 1..2
		for i := 0; i < 3; i++ {
			s.step(s.evPropose(1, []int64{s.freshCmd(), s.freshCmd()}))
			s.sync(1, 2, 3)
			s.heartbeat(1, 1, 2, 3)
		}
		s.snapBegin(1)
		s.snapDone(1)
		s.step(s.evPropose(1, []int64{s.freshCmd()}))
		s.sync(1, 2, 3)
		// n4 is brought up to date with the snapshot
		for i := 0; i < 12; i++ {
			p := s.pending(vsBetween(1, 4))
			if len(p) == 0 {
				s.step(s.evTick(1))
				s.dropPending(func(m *vsSoupMsg) bool { return m.to != 4 && m.to != 1 })
				continue
			}
			s.step(s.evDeliver(p[0]))
			if vsKind(p[0].m) == "InstallSnapshot" {
				break
			}
		}
		s.dropPending(nil)
		// n5 (log 1..3) campaigns; n4 must refuse: its snapshot is ahead of n5's log
		s.tickUntil(5, 1, 10)
		for _, sm := range s.pending(func(m *vsSoupMsg) bool { return m.to == 4 && vsKind(m.m) == "VoteReq" }) {
			s.step(s.evDeliver(sm))
		}
		for i := 0; i < 5; i++ {
			for _, n := range vsAll(5) {
				if s.nodes[n].role() == 2 {
					s.step(s.evTick(n))
				}
			}
			s.deliverAll(nil, 300)
		}
		return s
	},
	// 7. reconfiguration requests straight at the core: every refusal, then back-to-back removals {1,2,3} -> {1,3} -> {1}
	//    while the first is uncommitted; the leader is cut off; the others elect a leader in the old configuration
	func(id string, tr *vsTrace) *vsSim {
		s := vsNewSim("C02", id, vsCorpusCfg(4, 1000, 0), tr)
		s.step(s.evBootstrap(1, []int{1, 2, 3}, 5))
		s.elect(1, 2, 3)
		s.sync(1, 2, 3)
		s.heartbeat(1, 1, 2, 3) // NOP of term 2 committed everywhere
		s.step(s.evAddNode(1, 2))    // existing member
		s.step(s.evRemoveNode(1, 4)) // not a member
		s.step(s.evAddNode(2, 4))    // not the leader
		s.step(s.evRemoveNode(1, 2)) // accepted: {1,3}, uncommitted
		s.step(s.evRemoveNode(1, 3)) // must be refused: previous change uncommitted
		s.step(s.evAddNode(1, 4))    // must be refused as well
		s.step(s.evRemoveNode(1, 1)) // and the leader itself
		s.dropPending(nil)           // the leader is cut off from now on
		s.step(s.evPropose(1, []int64{s.freshCmd()}))
		s.step(s.evTick(1))
		s.dropPending(nil)
		// n2 and n3 still hold {1,2,3}: n2 wins with n3's vote and commits its own entries
		s.elect(2, 3)
		s.sync(2, 3)
		s.heartbeat(2, 2, 3)
		if s.nodes[2].role() == 2 && s.nodes[2].nopDoneTerm == s.nodes[2].st.term {
			s.step(s.evPropose(2, []int64{s.freshCmd()}))
			s.sync(2, 3)
			s.heartbeat(2, 2, 3)
		}
		// heal
		for i := 0; i < 5; i++ {
			for _, n := range vsAll(4) {
				if s.nodes[n].role() == 2 {
					s.step(s.evTick(n))
				}
			}
			s.deliverAll(nil, 300)
		}
		return s
	},
}
