package curator

// C17 harness (injected by `go test -overlay`; lives in /verif).
// Drives the real tractserverMonitor + Curator.allocateTS on generated topologies,
// health/space states, existing/down sets and counts, and records
//   op 1: the allocation with its result  (checked relationally by the Coq spec alloc_verdict)
//   op 2: weightedRand with the random values it consumed   (functional)
//   op 3: buildReverseIndex                                  (functional, canonicalised)
//   op 4: refreshStatus' candidate set                        (functional)
//   op 5: RackBasedFailureDomain.GetFailureDomain on a host name (functional, byte level)
// In a quarter of the cases the monitor is built over the REAL RackBasedFailureDomain with host names written by
// the "XXYYDD" convention (racks with the same letters under different clusters); the model is then handed the
// ground-truth chains (physical rack / cluster numbers), not what the service returned.

import (
	"fmt"
	"math/rand"
	"sort"
	"strconv"
	"testing"
	"time"

	"github.com/westerndigitalcorporation/blb/internal/core"
	vw "github.com/westerndigitalcorporation/blb/pkg/verifwire"
)

type c17fds struct{ m map[string][]string }

func (f *c17fds) GetFailureDomain(hosts []string) [][]string {
	ret := make([][]string, len(hosts))
	for i, h := range hosts {
		ret[i] = f.m[h]
	}
	return ret
}

func c17name(n int64) string { return "n" + strconv.FormatInt(n, 10) }
func c17num(s string) int64 {
	if len(s) < 2 {
		return 0
	}
	v, _ := strconv.ParseInt(s[1:], 10, 64)
	return v
}

type c17host struct {
	addr   int64
	id     core.TractserverID
	chain  []int64
	beaten bool
	last   int64 // ns
	avail  uint64
}

func c17genTopology(r *vw.Rng, nested bool) []c17host {
	levels := r.PickInt(1, 1, 2, 2, 3, 3, 3, 4)
	nh := r.PickInt(1, 2, 3, 4, 5, 6, 8, 10, 12, 15, 20, 25, 30, 40)
	if vw.Thorough() && r.Chance(1, 10) {
		nh = r.Range(40, 120)
	}
	hosts := make([]c17host, nh)
	// number of domains per level above hosts
	ndom := make([]int, levels)
	for L := 1; L < levels; L++ {
		ndom[L] = r.PickInt(1, 2, 2, 3, 3, 4, 5, 8)
	}
	// parent[L][k] = domain at level L+1 that domain k of level L belongs to (nested trees)
	parent := make([][]int, levels)
	for L := 1; L+1 < levels; L++ {
		parent[L] = make([]int, ndom[L])
		for k := range parent[L] {
			parent[L][k] = r.Intn(ndom[L+1])
		}
	}
	skew := r.Chance(1, 2)
	for i := range hosts {
		h := &hosts[i]
		h.addr = int64(i + 1)
		h.id = core.TractserverID(100 + i)
		h.chain = []int64{h.addr}
		if levels > 1 {
			d := r.Intn(ndom[1])
			if skew && r.Chance(2, 3) {
				d = 0 // most hosts in one rack
			}
			for L := 1; L < levels; L++ {
				h.chain = append(h.chain, int64(L*100000+d+1))
				if L+1 < levels {
					if nested {
						d = parent[L][d]
					} else {
						d = r.Intn(ndom[L+1])
					}
				}
			}
		}
	}
	return hosts
}

var c17clusters = []string{"bb", "gg", "cc", "bg"}
var c17racks = []string{"aa", "ab", "ba", "a", "abc"}

// c17genNamed: hosts named cluster+rack+digits; chain = ground truth (host, physical rack, cluster).
func c17genNamed(r *vw.Rng) ([]c17host, map[int64]string) {
	nh := r.PickInt(2, 3, 4, 5, 6, 8, 10, 12, 15, 20, 25, 30)
	ncl := r.PickInt(1, 2, 2, 3, 3, 4)
	nrk := r.PickInt(1, 2, 2, 3, 3, 4, 5)
	hosts := make([]c17host, 0, nh)
	names := map[int64]string{}
	used := map[string]bool{}
	skew := r.Chance(1, 2)
	for len(hosts) < nh {
		ci, ri := r.Intn(ncl), r.Intn(nrk)
		if skew && r.Chance(2, 3) {
			ci, ri = 0, 0
		}
		name := c17clusters[ci] + c17racks[ri] + fmt.Sprintf("%02d", r.Intn(60))
		if r.Chance(1, 10) {
			name = c17clusters[ci] + c17racks[ri] + fmt.Sprintf("%d", r.Intn(2000))
		}
		if used[name] {
			continue
		}
		used[name] = true
		i := len(hosts)
		h := c17host{addr: int64(i + 1), id: core.TractserverID(100 + i)}
		h.chain = []int64{h.addr, int64(100000 + ci*10 + ri + 1), int64(200000 + ci + 1)}
		names[h.addr] = name
		hosts = append(hosts, h)
	}
	return hosts, names
}

func c17bytes(s string) []int64 {
	out := make([]int64, len(s))
	for i := 0; i < len(s); i++ {
		out[i] = int64(s[i])
	}
	return out
}

// c17letters / c17isDigits: the two halves of a convention name, computed independently of the code under test.
func c17split(name string) (string, string) {
	i := len(name)
	for i > 0 && name[i-1] >= '0' && name[i-1] <= '9' {
		i--
	}
	return name[:i], name[i:]
}

func c17randName(r *vw.Rng) string {
	switch r.Intn(10) {
	case 0: // malformed: arbitrary bytes, digits inside, no digits, only digits, empty, non-ASCII
		n := r.PickInt(0, 1, 2, 3, 5, 8)
		b := make([]byte, n)
		for i := range b {
			b[i] = byte(r.PickInt('0', '9', 'a', 'z', 'A', '-', '.', '5', 0xc3, 0xa9, ' '))
		}
		return string(b)
	case 1:
		return fmt.Sprintf("%d", r.Intn(100000))
	case 2:
		return c17clusters[r.Intn(len(c17clusters))]
	case 3:
		return "a" + fmt.Sprintf("%d", r.Intn(10)) + "b" + fmt.Sprintf("%d", r.Intn(100))
	default:
		return c17clusters[r.Intn(len(c17clusters))] + c17racks[r.Intn(len(c17racks))] + fmt.Sprintf("%02d", r.Intn(100))
	}
}

// c17domainOps: op 5 on generated names + the model-free uniqueness/nesting monitor.
func c17domainOps(r *vw.Rng, tr *vw.Trace, ci int) {
	n := r.Range(2, 6)
	names := make([]string, n)
	for i := range names {
		names[i] = c17randName(r)
	}
	got := RackBasedFailureDomain{}.GetFailureDomain(names)
	okShape := len(got) == n
	for i := 0; okShape && i < n; i++ {
		okShape = len(got[i]) == 3 && got[i][0] == names[i]
	}
	if !okShape {
		vw.Report(vw.Violation{Property: "C17", Signature: "failure-domain-chain-shape", Case: fmt.Sprint(ci),
			What:   "GetFailureDomain did not return one {host, rack, cluster} chain per host, host first",
			Detail: map[string]interface{}{"hosts": names, "got": fmt.Sprint(got)}})
		return
	}
	for i, nm := range names {
		var op, obs vw.L
		op.Add(5)
		op.Add(c17bytes(nm)...)
		obs.AddList(c17bytes(got[i][1]))
		obs.AddList(c17bytes(got[i][2]))
		tr.Op(op...)
		tr.Obs(obs...)
		vw.Stat("gfd.names", 1)
	}
	for i := 0; i < n; i++ {
		for j := i + 1; j < n; j++ {
			li, _ := c17split(names[i])
			lj, _ := c17split(names[j])
			sameRack := got[i][1] == got[j][1]
			if (li == lj) != sameRack {
				vw.Report(vw.Violation{Property: "C17", Signature: "rack-domain-name-not-globally-unique", Case: fmt.Sprint(ci),
					What:   "two hosts of different physical racks got the same rack-level failure domain (or two hosts of one rack different ones)",
					Detail: map[string]interface{}{"host1": names[i], "host2": names[j], "chain1": got[i], "chain2": got[j]}})
			}
			if sameRack && got[i][2] != got[j][2] {
				vw.Report(vw.Violation{Property: "C17", Signature: "failure-domains-not-nested", Case: fmt.Sprint(ci),
					What:   "one rack-level failure domain lies in two cluster-level domains",
					Detail: map[string]interface{}{"host1": names[i], "host2": names[j], "chain1": got[i], "chain2": got[j]}})
			}
		}
	}
}

func TestVerifC17(t *testing.T) {
	if !vw.Enabled() {
		t.Skip("verification harness: run through /verif/bin/check")
	}
	seed := vw.Seed()
	root := vw.NewRng(seed)
	tr := vw.OpenTrace("C17.trace")
	defer tr.Close()
	defer vw.Finish("C17")
	ncases := vw.Scale(3000, 200000)

	cfg := DefaultTestConfig
	cfg.TsUnhealthy = 20 * time.Second
	cfg.TsDown = 30 * time.Second
	cfg.TsHeartbeatGracePeriod = 30 * time.Second

	for ci := 0; ci < ncases; ci++ {
		if !vw.CaseSelected(fmt.Sprint(ci)) {
			continue
		}
		r := root.Fork(uint64(ci))
		tr.Case(fmt.Sprintf("%d", ci))
		named := r.Chance(1, 4)
		nested := !r.Chance(15, 100)
		var hosts []c17host
		var hostName map[int64]string
		hostNum := map[string]int64{}
		var svc FailureDomainService
		fds := &c17fds{m: map[string][]string{}}
		if named {
			hosts, hostName = c17genNamed(r)
			for a, nm := range hostName {
				hostNum[nm] = a
			}
			svc = RackBasedFailureDomain{}
			vw.Stat("topo.named", 1)
		} else {
			hosts = c17genTopology(r, nested)
			for _, h := range hosts {
				ch := make([]string, len(h.chain))
				for i, d := range h.chain {
					ch[i] = c17name(d)
				}
				fds.m[c17name(h.addr)] = ch
			}
			svc = fds
		}
		nameOf := func(a int64) string {
			if named {
				return hostName[a]
			}
			return c17name(a)
		}
		numOf := func(s string) int64 {
			if named {
				return hostNum[s]
			}
			return c17num(s)
		}

		base := int64(1000) * int64(time.Second)
		clock := base
		getTime := func() time.Time { return time.Unix(0, clock) }
		mon := newTractserverMonitor(&cfg, svc, getTime)
		c := &Curator{config: &cfg, tsMon: mon}

		// decide "now" and each host's state relative to it
		inGrace := r.Chance(1, 12)
		var now int64
		if inGrace {
			now = base + int64(r.Range(2, 29))*int64(time.Second)
		} else {
			now = base + int64(r.Range(60, 200))*int64(time.Second)
		}
		un := int64(cfg.TsUnhealthy)
		type beat struct {
			h     *c17host
			at    int64
			avail uint64
			final bool
		}
		var beats []beat
		var neverBeaten []core.TractserverID
		for i := range hosts {
			h := &hosts[i]
			switch k := r.Intn(20); {
			case k < 12: // healthy, recent beat
				h.beaten = true
				h.last = now - int64(r.Range(0, 19))*int64(time.Second)
			case k < 14: // boundary ages
				h.beaten = true
				h.last = now - un + int64(r.PickInt(-1, 0, 1))
			case k < 17: // unhealthy/down
				h.beaten = true
				h.last = now - int64(r.Range(21, 59))*int64(time.Second)
			default: // never beaten, only expected
				h.beaten = false
			}
			if h.last < base {
				h.last = base
			}
			switch k := r.Intn(11); {
			case k == 10:
				h.avail = 0 // no space at all (e.g. every disk lost)
			case k < 7:
				h.avail = minAvailSpace + uint64(r.Range(2, 1<<20))
			case k < 8:
				h.avail = minAvailSpace + uint64(r.PickInt(0, 1))
			default:
				h.avail = uint64(r.Intn(minAvailSpace))
			}
			if h.beaten {
				// earlier reports of the same server (other loads, incl. all-zero ones): only the last one may count
				if h.last > base && r.Chance(1, 2) {
					for k := r.Range(1, 2); k > 0; k-- {
						at := base + int64(r.Intn(int((h.last-base)/int64(time.Second))+1))*int64(time.Second)
						if at >= h.last {
							continue
						}
						var av uint64
						if r.Chance(1, 2) {
							av = minAvailSpace + uint64(r.Range(2, 1<<20))
						}
						beats = append(beats, beat{h, at, av, false})
					}
				}
				beats = append(beats, beat{h, h.last, h.avail, true})
			} else {
				h.avail = 0
				neverBeaten = append(neverBeaten, h.id)
			}
		}
		sort.SliceStable(beats, func(i, j int) bool { return beats[i].at < beats[j].at })
		var beatLog vw.L
		if len(neverBeaten) > 0 {
			mon.updateExpected(neverBeaten)
		}
		for _, b := range beats {
			clock = b.at
			load := core.TractserverLoad{AvailSpace: b.avail, TotalSpace: b.avail + 1000, NumTracts: 3}
			if b.avail == 0 && r.Chance(1, 2) {
				load = core.TractserverLoad{} // a server that lost all its disks reports nothing at all
			}
			mon.recvHeartbeat(b.h.id, nameOf(b.h.addr), load)
			beatLog.Add(b.h.addr, b.at, int64(b.avail))
			if !b.final {
				vw.Stat("beats.superseded", 1)
			}
		}
		clock = now
		// refresh status as of now (heartbeat handlers and status queries do this in production)
		mon.lock.Lock()
		mon.refreshStatus()
		mon.lock.Unlock()

		// host block for the wire
		var hb vw.L
		hb.AddInt(len(hosts))
		for _, h := range hosts {
			addr := h.addr
			if !h.beaten {
				addr = 0
			}
			hb.Add(addr)
			hb.AddBool(h.beaten)
			hb.Add(h.last, int64(h.avail))
			hb.AddList(h.chain)
		}
		cfgl := []int64{now, base, int64(cfg.TsHeartbeatGracePeriod), un, minAvailSpace}

		// op 4: candidate set
		{
			var op vw.L
			op.Add(4)
			op.Add(cfgl...)
			op.Add(hb...)
			tr.Op(op...)
			var got []int64
			idx := mon.getFailureDomainToFreeTS()
			if len(idx) > 0 {
				for k := range idx[0] {
					got = append(got, numOf(k))
				}
			}
			sort.Slice(got, func(i, j int) bool { return got[i] < got[j] })
			tr.Obs(got...)
			// op 6: the same candidate set predicted from the whole heartbeat history (last report wins)
			{
				var op6 vw.L
				op6.Add(6)
				op6.Add(cfgl...)
				op6.Add(beatLog...)
				tr.Op(op6...)
				tr.Obs(got...)
			}
		}

		// several allocations on this monitor state
		nalloc := r.Range(1, 4)
		for a := 0; a < nalloc; a++ {
			var existing, down []core.TractserverID
			var exA, dnA []int64
			missing := false
			addID := func(lst *[]core.TractserverID, al *[]int64) {
				if r.Chance(1, 40) {
					*lst = append(*lst, core.TractserverID(9999))
					missing = true
					return
				}
				h := hosts[r.Intn(len(hosts))]
				*lst = append(*lst, h.id)
				if h.beaten {
					*al = append(*al, h.addr)
				} else {
					*al = append(*al, 0)
				}
			}
			ne := r.PickInt(0, 0, 1, 1, 2, 2, 3, 5)
			nd := r.PickInt(0, 0, 0, 1, 1, 2, 3)
			for i := 0; i < ne; i++ {
				addID(&existing, &exA)
			}
			for i := 0; i < nd; i++ {
				addID(&down, &dnA)
			}
			num := r.PickInt(0, 1, 1, 1, 2, 2, 3, 3, 3, 4, 5, 9, 11, 13, 17)
			if r.Chance(1, 6) {
				num = r.Range(0, len(hosts)+2)
			}
			addrs, ids := c.allocateTS(num, existing, down)

			var op vw.L
			op.Add(1)
			op.Add(cfgl...)
			op.AddInt(num)
			op.AddBool(missing)
			op.AddList(exA)
			op.AddList(dnA)
			op.Add(hb...)
			var res []int64
			okIDs := true
			if addrs != nil {
				if len(ids) != len(addrs) {
					okIDs = false
				}
				for i, s := range addrs {
					res = append(res, numOf(s))
					if okIDs && int64(ids[i]) != 100+numOf(s)-1 {
						okIDs = false
					}
				}
			}
			// (nil, nil) is "nothing allocated"; allocateTS(0) returns (nil, []) which is an empty allocation
			some := addrs != nil || (num == 0 && ids != nil)
			op.AddBool(some)
			op.AddList(res)
			tr.Op(op...)
			tr.Obs(777, 1)
			if !okIDs {
				vw.Report(vw.Violation{Property: "C17", Signature: "ids-do-not-match-addrs", Case: fmt.Sprint(ci),
					What: "allocateTS returned ids that are not the ids of the returned addresses",
					Detail: map[string]interface{}{"addrs": addrs, "ids": fmt.Sprint(ids)}})
			}
			vw.Stat(fmt.Sprintf("alloc.num=%d", num), 1)
			if some {
				vw.Stat("alloc.some", 1)
			} else {
				vw.Stat("alloc.none", 1)
			}
			vw.Stat(fmt.Sprintf("topo.levels=%d", len(hosts[0].chain)), 1)
			if some && len(res) > 0 {
				vw.Distinct(fmt.Sprintf("%d/%d/%d/%v/%v/%v", len(hosts), len(hosts[0].chain), num, exA, dnA, res))
			}
			if ci < 3 && a == 0 {
				vw.Sample("alloc op: " + vw.Ints(op))
			}
		}

		// op 5: the real failure-domain service on generated names
		c17domainOps(r, tr, ci)

		// op 3: buildReverseIndex on the raw chains (any order, possibly ragged in the malformed stream)
		if !named {
			perm := r.Perm(len(hosts))
			var chains [][]string
			var op vw.L
			op.Add(3)
			op.AddInt(len(hosts))
			for _, i := range perm {
				ch := fds.m[c17name(hosts[i].addr)]
				chains = append(chains, ch)
				op.AddList(hosts[i].chain)
			}
			tr.Op(op...)
			idx := buildReverseIndex(chains)
			var obs vw.L
			obs.AddInt(len(idx))
			for _, lvl := range idx {
				obs.AddInt(len(lvl))
				var keys []string
				for k := range lvl {
					keys = append(keys, k)
				}
				sort.Slice(keys, func(i, j int) bool { return c17num(keys[i]) < c17num(keys[j]) })
				for _, k := range keys {
					obs.Add(c17num(k))
					obs.AddInt(len(lvl[k]))
					for _, h := range lvl[k] {
						obs.Add(c17num(h))
					}
				}
			}
			tr.Obs(obs...)
		}

		// op 2: weightedRand with recorded randomness
		{
			np := r.Range(2, 8)
			pool := make([][]string, np)
			var pl vw.L
			next := int64(1)
			for i := range pool {
				k := r.Range(1, 5)
				var xs []int64
				for j := 0; j < k; j++ {
					pool[i] = append(pool[i], c17name(next))
					xs = append(xs, next)
					next++
				}
				pl.AddList(xs)
			}
			num := r.Range(0, np-1)
			var s int64
			var raws []int64
			for {
				s = int64(r.U64() >> 1)
				tw := rand.New(rand.NewSource(s))
				raws = raws[:0]
				ok := true
				for i := 0; i < num; i++ {
					v := int64(tw.Int31())
					if v > (1<<31)-100000 {
						ok = false
					}
					raws = append(raws, v)
				}
				if ok {
					break
				}
			}
			rand.Seed(s)
			got := weightedRand(pool, num)
			var op vw.L
			op.Add(2)
			op.AddInt(num)
			op.AddList(raws)
			op.AddInt(np)
			op.Add(pl...)
			tr.Op(op...)
			var obs []int64
			for _, g := range got {
				obs = append(obs, c17num(g))
			}
			tr.Obs(obs...)
		}
	}
	vw.Stat("cases", int64(ncases))
}
