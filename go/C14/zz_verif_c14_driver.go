package verifcluster

// C14 driver (overlay-only; /verif/go/C14/zz_verif_c14_driver.go injected as
// pkg/verifcluster/zz_verif_c14_driver.go).  It uses the Cluster harness read-only (Cluster, Sched,
// talkers, Oracle) and adds: the storage-class round / tractPacker as a schedulable activity, the two
// durable calls of a move as parkable steps, atomic delivery (an RPC is executed and its reply handed
// over in one decision), atomic client reads, and the C14 monitors.  Trace lines are those of
// coq/theories/C14/Model.v.

import (
	"fmt"
	"math/rand"
	"sort"

	"github.com/westerndigitalcorporation/blb/client/blb"
	"github.com/westerndigitalcorporation/blb/internal/core"
	"github.com/westerndigitalcorporation/blb/internal/curator"
	"github.com/westerndigitalcorporation/blb/internal/tractserver"
	vw "github.com/westerndigitalcorporation/blb/pkg/verifwire"
)

const (
	KC14Alloc  Kind = 40
	KC14Commit Kind = 41

	C14N      = 6
	C14M      = 3
	C14Target = 64*1024 - 4 // = curator.padToLength: one padded tract fills a piece
)

type c14dur struct {
	id  core.RSChunkID
	err core.Error
}

type C14Blob struct {
	Idx  int
	ID   core.BlobID
	Repl int
	NT   int
	Warm bool
	O    *Oracle
}

type c14Write struct {
	op        *Op
	blob      int
	tract     int
	off       int64 // in the tract
	n         int
	wid       int
	rec       *WriteRec
	nWrite    int // Write RPCs this operation issued
	okWrites  int // Write RPCs of this operation that a replica accepted
	statClass int // class the last delivered StatBlob reply reported (-1 none)
}

type c14StatInfo struct {
	attempts int
	restarts int
}

type c14Round struct {
	op      *Op
	gen     int
	info    *curator.VerifC14Round
	statted map[core.TractID]map[int]c14StatInfo // stamps collected: tract -> host -> replica history at the stat
	source  map[core.TractID]int                 // replica PackTracts copied the tract from
	hinted  bool
	plan    [3]int // planned pack fault of this round: piece, position (0 first 1 middle 2 last), mode (0 one 1 several 2 all); piece < 0 = none
	base    int64  // first chunk id AllocateRSChunkIDs returned to this round (0 = none yet)
}

type c14Fin struct {
	op, n, err int64
}

// C14 is the driver of one case.
type C14 struct {
	Cl    *Cluster
	R     *vw.Rng
	Case  string
	Blobs []*C14Blob
	Bads  []Bad
	Acks  int
	Wid   int
	Ops   [][]int64
	Obs   [][]int64
	Cache bool

	wr       *c14Write
	rounds   []*c14Round
	known    map[*RPC]bool
	stamps   map[[3]uint64][2]int64 // (ts, tract key, real stamp) -> (epoch, count)
	attempts map[[2]uint64]int      // (ts, tract key) -> executed write attempts
	failMask map[int]bool           // sources whose nested reads fail during the current PackTracts
	failPair map[[2]uint64]bool     // (tract, source) reads that fail during the current PackTracts
	nextFail map[[2]uint64]bool     // chosen by the scheduler for the next PackTracts step
	PackPlan []int                  // if set: one planned pack fault per round, combinations (position*3+mode) taken in this order
	probeNo  int
	K        int // tracts per piece: the round packs towards Target = K * padToLength
	Target   int
	lastSrc  map[core.TractID]int // last source asked per tract during the current PackTracts
	taint    map[core.TractID]string
	Steps    int
	NRounds  int
	Stats    map[string]int
}

func tkey(id core.TractID) uint64 { return uint64(id.Blob)<<16 | uint64(id.Index) }

func chunkNo(id core.TractID) int64 {
	return int64((uint64(id.Blob)&0xffffffff)<<16 | uint64(id.Index))
}

func chunkTract(partition core.PartitionID, no int64) core.TractID {
	return core.RSChunkID{Partition: partition, ID: uint64(no)}.ToTractID()
}

// NewC14 boots the cluster: nTS tractservers, client 0 = the writer (cache per flag), client 1 = reader.
func NewC14(r *vw.Rng, nTS int, cache bool, caseID string) *C14 {
	rand.Seed(int64(r.U64() >> 1))
	d := &C14{Cl: NewCluster(nTS, []bool{cache, false}), R: r, Case: caseID, Wid: 1, Cache: cache,
		known: map[*RPC]bool{}, stamps: map[[3]uint64][2]int64{}, attempts: map[[2]uint64]int{},
		taint: map[core.TractID]string{}, Stats: map[string]int{}, K: 1, Target: C14Target}
	d.Cl.NestedFail = d.nestedFail
	d.line([]int64{1, int64(nTS), 2, b2i(cache), 0}, nil)
	return d
}

func (d *C14) line(op, obs []int64) {
	if obs == nil {
		obs = []int64{}
	}
	d.Ops = append(d.Ops, op)
	d.Obs = append(d.Obs, obs)
}

func (d *C14) report(sig, what string, det map[string]interface{}) {
	d.Bads = append(d.Bads, Bad{Sig: sig, What: what, Detail: det})
}

func (d *C14) blobIdx(id uint64) int {
	for _, b := range d.Blobs {
		if uint64(b.ID) == id {
			return b.Idx
		}
	}
	return -1
}

func (d *C14) TID(blob, tract int) core.TractID {
	return core.TractID{Blob: d.Blobs[blob].ID, Index: core.TractKey(tract)}
}

// SetPieceTracts makes the rounds of this case pack k tracts into every piece (Target = k * padToLength).
// Only k = 1 is in the model's regime: cases with k > 1 are judged by the monitors alone (no trace).
func (d *C14) SetPieceTracts(k int) { d.K, d.Target = k, k*C14Target }

func (d *C14) nestedFail(from, to int, id core.TractID, version int) bool {
	if d.lastSrc != nil {
		d.lastSrc[id] = to
	}
	if d.failPair != nil && d.failPair[[2]uint64{tkey(id), uint64(to)}] {
		return true
	}
	return d.failMask != nil && d.failMask[to]
}

// hook parks the durable calls of a round.
func (d *C14) hook(gen int) curator.VerifC14Hook {
	return func(kind int, term uint64, base core.RSChunkID, n int, exec func() (core.RSChunkID, core.Error)) (core.RSChunkID, core.Error) {
		r := &RPC{Kind: KC14Alloc, Client: -1, Gen: gen, Tract: -1, Aux: []int64{int64(n)}}
		if kind == 2 {
			r.Kind = KC14Commit
			r.Aux = []int64{int64(base.ID)}
		}
		r.exec = d.Cl.run(r, func() interface{} { id, e := exec(); return c14dur{id, e} })
		r.fail = func() interface{} { return c14dur{core.RSChunkID{}, core.ErrRaftTimeout} }
		v := d.Cl.S.Call(r).(c14dur)
		return v.id, v.err
	}
}

// descr is the model's descriptor of a call (Model.v mk_*).
func (d *C14) descr(r *RPC) []int64 {
	blob := int64(d.blobIdx(r.Blob))
	mk := func(kind Kind, cli, gen, ts int, blob int64, tract, ver int, off int64, ln, wid int, aux ...int64) []int64 {
		l := []int64{int64(kind), int64(cli), int64(gen), int64(ts), blob, int64(tract), int64(ver), off, int64(ln), int64(wid), int64(len(aux))}
		return append(l, aux...)
	}
	switch r.Kind {
	case KWrite:
		return mk(r.Kind, r.Client, 0, r.TS, blob, r.Tract, r.Version, r.Off, r.Len, r.Wid)
	case KGetTracts:
		return mk(r.Kind, r.Client, 0, 0, blob, -1, 0, 0, 0, 0, r.Aux...)
	case KStatBlob:
		return mk(r.Kind, r.Client, 0, 0, blob, -1, 0, 0, 0, 0)
	case KReportBadTS:
		return mk(r.Kind, r.Client, 0, 0, blob, r.Tract, 0, 0, 0, 0, r.Aux...)
	case KFixVersion:
		return mk(r.Kind, r.Client, 0, 0, blob, r.Tract, r.Version, 0, 0, 0, r.Aux...)
	case KSetVersion:
		aux := []int64{r.Aux[0], 0, 0, 0}
		if r.Aux[1] != 0 {
			tid := core.TractID{Blob: core.BlobID(r.Blob), Index: core.TractKey(r.Tract)}
			ec, ok := d.stamps[[3]uint64{uint64(r.TS), tkey(tid), uint64(r.Aux[1])}]
			if !ok {
				ec = [2]int64{-1, -1}
			}
			aux = []int64{r.Aux[0], 1, ec[0], ec[1]}
		}
		return mk(r.Kind, -1, r.Gen, r.TS, blob, r.Tract, r.Version, 0, 0, 0, aux...)
	case KCtlStatTract:
		return mk(r.Kind, -1, r.Gen, r.TS, blob, r.Tract, r.Version, 0, 0, 0)
	case KPackTracts, KRSEncode:
		return mk(r.Kind, -1, r.Gen, r.TS, 0, -1, 0, 0, r.Len, 0, r.Aux[0], r.Aux[2])
	case KGCTract:
		// one gone piece: aux = tsid, nold, ngone, blob, index
		no := int64(-1)
		if len(r.Aux) == 5 && r.Aux[1] == 0 && r.Aux[2] == 1 {
			no = chunkNo(core.TractID{Blob: core.BlobID(r.Aux[3]), Index: core.TractKey(r.Aux[4])})
		}
		return mk(r.Kind, -1, r.Gen, r.TS, 0, -1, 0, 0, 0, 0, r.Aux[0], no)
	case KC14Alloc, KC14Commit:
		return mk(r.Kind, -1, r.Gen, 0, 0, -1, 0, 0, 0, 0, r.Aux...)
	}
	return mk(r.Kind, r.Client, r.Gen, r.TS, blob, r.Tract, r.Version, r.Off, r.Len, r.Wid, r.Aux...)
}

func descrKey(l []int64) []int64 {
	k := append([]int64(nil), l[:10]...)
	return append(k, l[11:]...)
}

func (d *C14) outSection(fresh []*RPC) []int64 {
	var ls [][]int64
	for _, r := range fresh {
		ls = append(ls, d.descr(r))
	}
	sort.SliceStable(ls, func(i, j int) bool { return lessKey(descrKey(ls[i]), descrKey(ls[j])) })
	out := []int64{int64(len(ls))}
	for _, l := range ls {
		out = append(out, l...)
	}
	return out
}

// settle collects what an event caused: the calls that appeared and the activities that finished.
func (d *C14) settle() (fresh []*RPC, fin []c14Fin) {
	s := d.Cl.S
	s.Settle()
	s.Flush()
	for _, r := range s.Pending() {
		if !d.known[r] {
			d.known[r] = true
			fresh = append(fresh, r)
			if r.Kind == KWrite && d.wr != nil && r.Client == 0 {
				d.wr.nWrite++
			}
		}
	}
	for _, r := range s.TakeCompleted() {
		delete(d.known, r)
	}
	for _, op := range s.Ops {
		if !op.Done || op.Meta == nil {
			continue
		}
		switch m := op.Meta.(type) {
		case *c14Write:
			res := op.Result.(OpResult)
			op.Meta = nil
			fin = append(fin, c14Fin{int64(op.ID), int64(res.N), int64(res.Err)})
			d.finishWrite(m, res)
		case *c14Round:
			op.Meta = nil
			fin = append(fin, c14Fin{int64(op.ID), int64(m.info.Committed), 0})
			for i, x := range d.rounds {
				if x == m {
					d.rounds = append(d.rounds[:i], d.rounds[i+1:]...)
					break
				}
			}
			d.Stats[fmt.Sprintf("round.committed=%d", m.info.Committed)]++
		}
	}
	sort.Slice(fin, func(i, j int) bool { return fin[i].op < fin[j].op })
	return
}

func finSection(fin []c14Fin) []int64 {
	out := []int64{int64(len(fin))}
	for _, f := range fin {
		out = append(out, f.op, f.n, f.err)
	}
	return out
}

// ---- durable views ----

func (d *C14) durable(blob int) curator.VerifC14Blob { return d.Cl.D.C14Blob(d.Blobs[blob].ID) }

func (d *C14) replica(ts int, tid core.TractID) (tractserver.VerifReplica, bool) {
	l := d.Cl.TS[ts].Dump(map[core.TractID]bool{tid: true})
	if len(l) == 0 {
		return tractserver.VerifReplica{}, false
	}
	return l[0], true
}

func (d *C14) dumpReplica(ts int, tid core.TractID) []int64 {
	rep, ok := d.replica(ts, tid)
	if !ok {
		return []int64{0}
	}
	out := []int64{1, int64(rep.Version), int64(rep.Len), int64(len(rep.Runs) / 2)}
	return append(out, rep.Runs...)
}

func (d *C14) dumpPiece(ts int, chunk int64) []int64 {
	rep, ok := d.replica(ts, chunkTract(d.rsPartition(), chunk))
	if !ok {
		return []int64{0}
	}
	out := []int64{1, int64(rep.Len), int64(len(rep.Runs) / 2)}
	return append(out, rep.Runs...)
}

func (d *C14) rsPartition() core.PartitionID {
	return core.PartitionID(core.RSPartition<<30) | 1
}

func expandRuns(runs []int64) []byte {
	var b []byte
	for i := 0; i+1 < len(runs); i += 2 {
		for k := int64(0); k < runs[i]; k++ {
			b = append(b, byte(runs[i+1]))
		}
	}
	return b
}

var _ = blb.VerifBlob

// ---------------------------------------------------------------- setup

// NewBlob creates a blob of nt tracts with the given hint and writes every tract once (auto mode,
// through the real client and curator).  extra[i] more writes go to tract i.
func (d *C14) NewBlob(repl, nt int, warm bool, lens []int) *C14Blob {
	d.Cl.S.SetAuto(true)
	hint := core.StorageHintHOT
	tgt := int64(core.StorageClassREPLICATED)
	if warm {
		hint = core.StorageHintWARM
		tgt = int64(core.StorageClassRS_6_3)
	}
	id, err := d.Cl.Cur.C14CreateBlob(repl, hint)
	if err != core.NoError {
		panic("c14: create blob: " + err.String())
	}
	b := &C14Blob{Idx: len(d.Blobs), ID: id, Repl: repl, NT: nt, Warm: warm, O: &Oracle{Blob: id}}
	d.Blobs = append(d.Blobs, b)
	h := blb.VerifBlob(d.Cl.Cli[1], id)
	type sw struct {
		tract, wid, n int
		off           int64
	}
	var sws []sw
	for t := 0; t < nt; t++ {
		k := 1
		if d.R.Chance(1, 3) {
			k = 2
		}
		for j := 0; j < k; j++ {
			n := lens[t]
			off := int64(0)
			if j > 0 {
				n = d.R.Range(1, lens[t])
				off = int64(d.R.Intn(lens[t] - n + 1))
			}
			wid := d.Wid
			d.Wid++
			if j == 0 {
				d.pin(d.Cl.Cur, repl)
			}
			if _, e := h.WriteAt(Payload(wid, n), int64(t)*TractLen+off); e != nil {
				panic(fmt.Sprintf("c14: setup write: %v", e))
			}
			d.Acks++
			b.O.Writes = append(b.O.Writes, &WriteRec{Wid: wid, Off: int64(t)*TractLen + off, Len: n, Status: WAcked, AckIdx: d.Acks})
			sws = append(sws, sw{t, wid, n, off})
		}
	}
	d.line([]int64{2, int64(b.Idx), int64(nt), tgt}, nil)
	db := d.durable(b.Idx)
	if !db.OK || len(db.Tracts) != nt {
		panic("c14: setup: durable blob not as expected")
	}
	for t := 0; t < nt; t++ {
		l := []int64{20, int64(b.Idx), int64(t), int64(db.Tracts[t].Version), int64(len(db.Tracts[t].Hosts))}
		for _, hst := range db.Tracts[t].Hosts {
			l = append(l, int64(hst))
		}
		d.line(l, nil)
		first := true
		for _, w := range sws {
			if w.tract != t {
				continue
			}
			d.line([]int64{21, int64(b.Idx), int64(t), int64(w.wid), w.off, int64(w.n), b2i(!first)}, nil)
			if !first {
				for _, hst := range db.Tracts[t].Hosts {
					d.attempts[[2]uint64{uint64(hst), tkey(d.TID(b.Idx, t))}]++
				}
			}
			first = false
		}
		var obs []int64
		for _, hst := range db.Tracts[t].Hosts {
			obs = append(obs, d.dumpReplica(int(hst), d.TID(b.Idx, t))...)
		}
		d.line([]int64{22, int64(b.Idx), int64(t)}, obs)
	}
	d.Cl.SetEligible(d.Cl.Cur, nil)
	d.Cl.Touched()
	d.Cl.S.SetAuto(false)
	return b
}

// pin makes exactly 'need' of the tractservers the incarnation knows placement candidates (chosen by the
// case's generator): BLB's placement iterates Go maps, the set it picks is an environment input.
func (d *C14) pin(inc *curator.VerifCurator, need int) {
	if inc == nil {
		return
	}
	var known []int
	for i := 1; i < len(d.Cl.TS); i++ {
		if inc.KnowsTS(core.TractserverID(i)) {
			known = append(known, i)
		}
	}
	if len(known) <= need {
		d.Cl.SetEligible(inc, nil)
		return
	}
	el := map[int]bool{}
	for _, i := range d.R.Perm(len(known))[:need] {
		el[known[i]] = true
	}
	d.Cl.SetEligible(inc, el)
}

// ---------------------------------------------------------------- activities

// StartWrite starts WriteAt of the writer inside one tract.
func (d *C14) StartWrite(blob, tract int, off int64, n int) {
	b := d.Blobs[blob]
	wid := d.Wid
	d.Wid++
	rec := &WriteRec{Wid: wid, Off: int64(tract)*TractLen + off, Len: n}
	b.O.Writes = append(b.O.Writes, rec)
	data := Payload(wid, n)
	h := blb.VerifBlob(d.Cl.Cli[0], b.ID)
	m := &c14Write{blob: blob, tract: tract, off: off, n: n, wid: wid, rec: rec, statClass: -1}
	m.op = d.Cl.S.Go("write", m, func() interface{} {
		k, e := h.WriteAt(data, int64(tract)*TractLen+off)
		return OpResult{Kind: EvStartWrite, N: k, Err: toBlb(e)}
	})
	d.wr = m
	fresh, _ := d.settle()
	d.line([]int64{3, int64(m.op.ID), 0, int64(blob), int64(tract), off, int64(n), int64(wid)}, d.outSection(fresh))
}

func (d *C14) finishWrite(m *c14Write, res OpResult) {
	d.wr = nil
	tid := d.TID(m.blob, m.tract)
	if res.Err == core.NoError && res.N == m.n {
		d.Acks++
		m.rec.Status, m.rec.AckIdx = WAcked, d.Acks
		db := d.durable(m.blob)
		hasRS := db.OK && m.tract < len(db.Tracts) && db.Tracts[m.tract].HasRS
		det := map[string]interface{}{"blob": m.blob, "tract": m.tract, "wid": m.wid, "off": m.off, "len": m.n, "class": int(db.Class), "rs-pointer": hasRS, "write-rpcs": m.nWrite, "accepted-writes": m.okWrites}
		switch {
		case m.statClass > 0:
			d.report("write-acked-although-stat-reported-erasure-coded-class", "a write was acknowledged although the client's StatBlob reply said the blob is erasure coded", det)
		case m.okWrites == 0 && db.Class == core.StorageClassREPLICATED && hasRS:
			d.report("write-acked-without-any-replica-write/commit-to-switch-window", "WriteAt returned success although it sent the data to no replica: the tract has an RS pointer, GetTracts returned no hosts while the blob's class is still REPLICATED", det)
			d.taint[tid] = "acked-without-replica-write"
		case m.okWrites == 0 && db.Class != core.StorageClassREPLICATED && hasRS:
			d.report("write-acked-without-any-replica-write/class-switched-after-the-clients-stat", "WriteAt returned success although no replica accepted the data: the class was switched between the client's StatBlob and its GetTracts, which returned the tract without hosts", det)
			d.taint[tid] = "acked-without-replica-write"
		case m.okWrites == 0:
			d.report("write-acked-without-any-replica-write/other", "WriteAt returned success although no replica accepted the data", det)
			d.taint[tid] = "acked-without-replica-write"
		case db.Class != core.StorageClassREPLICATED:
			d.report("write-acked-after-class-switch", "a write was acknowledged after the blob's storage class was switched to erasure coding", det)
		case hasRS && d.taint[tid] == "commit-over-changed-version":
			d.report("write-acked-after-commit/replicas-accepted-it/after-commit-over-changed-version", "a write was acknowledged after CommitRSChunk gave the tract an RS pointer: the commit had not raised the durable version, the writer's locations were still current", det)
		case hasRS:
			d.report("write-acked-after-commit/replicas-accepted-it", "a write was acknowledged after CommitRSChunk gave the tract an RS pointer: the frozen replicas accepted it, the encoded copy cannot contain it", det)
		}
		d.Stats["write.acked"]++
	} else {
		m.rec.Status = WFailed
		d.Stats[fmt.Sprintf("write.err%d", int(res.Err))]++
		if res.Err == core.NoError {
			d.report("write-short-without-error", "WriteAt returned fewer bytes than asked without an error", map[string]interface{}{"n": res.N, "want": m.n})
		}
	}
}

// StartRound starts one round of the storage-class loop under the current leader incarnation.
func (d *C14) StartRound() {
	cur := d.Cl.Cur
	plan := [3]int{-1, 0, 0}
	if len(d.PackPlan) > 0 {
		c := d.PackPlan[d.NRounds%len(d.PackPlan)]
		plan = [3]int{d.R.Intn(C14N), c / 3, c % 3}
	}
	m := &c14Round{gen: cur.Gen, plan: plan, info: &curator.VerifC14Round{Arrange: d.R.Perm}, statted: map[core.TractID]map[int]c14StatInfo{}, source: map[core.TractID]int{}}
	before := make([]curator.VerifC14Blob, len(d.Blobs))
	for i := range d.Blobs {
		before[i] = d.durable(i)
	}
	termBefore := d.Cl.D.Term()
	hook := d.hook(cur.Gen)
	m.op = d.Cl.S.Go("round", m, func() interface{} {
		cur.C14RoundInto(m.info, d.Target, hook)
		return nil
	})
	d.rounds = append(d.rounds, m)
	d.NRounds++
	fresh, fin := d.settle()
	obs := []int64{int64(len(m.info.Switch))}
	for _, id := range m.info.Switch {
		bi := d.blobIdx(uint64(id))
		after := d.durable(bi)
		obs = append(obs, int64(bi), int64(after.Class))
		if after.Class != before[bi].Class {
			d.Stats["class-switched"]++
			if m.info.Term != termBefore {
				d.report("durable-step-applied-under-stale-term", "UpdateStorageClass was applied although the term had changed since the round started", map[string]interface{}{"blob": bi})
			}
		}
	}
	if len(m.info.Cleanup) > 0 {
		d.report("harness/unmodelled-cleanup", "updateStorageClass(current) ran (extra storage): outside the modelled regime", nil)
	}
	obs = append(obs, d.outSection(fresh)...)
	obs = append(obs, finSection(fin)...)
	d.line([]int64{80, int64(m.op.ID)}, obs)
}

func (d *C14) roundOfGen(gen int) *c14Round {
	for _, r := range d.rounds {
		if r.gen == gen {
			return r
		}
	}
	return nil
}

// allocHint: after the AllocateRSChunkIDs step, what packTracts laid out and allocateTS picked.
func (d *C14) allocHint(m *c14Round, base int64, fresh []*RPC) []int64 {
	info := m.info
	nenc := len(info.Chunks) / C14N
	out := []int64{int64(nenc)}
	for i := 0; i < nenc; i++ {
		// the PackTracts targets of this operation
		tgt := make([]int, C14N)
		found := 0
		for _, r := range fresh {
			if r.Kind == KPackTracts && r.Gen == m.gen {
				j := r.Aux[2] - base - int64(i*(C14N+C14M))
				if j >= 0 && j < C14N {
					tgt[j] = r.TS
					found++
				}
			}
		}
		var hosts []core.TractserverID
		if found == C14N {
			for _, a := range info.Allocs {
				ok := len(a) == C14N+C14M
				for j := 0; ok && j < C14N; j++ {
					ok = int(a[j]) == tgt[j]
				}
				if ok {
					hosts = a
				}
			}
		}
		out = append(out, int64(len(hosts)))
		for _, h := range hosts {
			out = append(out, int64(h))
		}
		for j := 0; j < C14N; j++ {
			ch := info.Chunks[i*C14N+j]
			if len(ch.Tracts) != 1 && d.K == 1 {
				d.report("harness/unmodelled-layout", "a chunk with other than one tract: outside the modelled regime", nil)
			}
			t := ch.Tracts[0]
			out = append(out, int64(d.blobIdx(uint64(t.ID.Blob))), int64(t.ID.Index), int64(t.Offset))
		}
	}
	return out
}

// ---------------------------------------------------------------- one scheduling decision

func (d *C14) replyLine(r *RPC) []int64 {
	switch v := r.Result.(type) {
	case core.Error:
		return []int64{int64(v)}
	case statReply:
		if v.Err != core.NoError {
			return []int64{int64(v.Err)}
		}
		return []int64{0, int64(v.Info.NumTracts), int64(v.Info.Class)}
	case tractsReply:
		if v.Err != core.NoError {
			return []int64{int64(v.Err)}
		}
		out := []int64{0, int64(len(v.Tracts))}
		for _, ti := range v.Tracts {
			out = append(out, int64(ti.Tract.Index), int64(ti.Version), int64(len(ti.TSIDs)))
			for i, id := range ti.TSIDs {
				k := int64(0)
				if i < len(ti.Hosts) && ti.Hosts[i] != "" {
					k = 1
				}
				out = append(out, int64(id), k)
			}
			if ti.RS.Present() {
				out = append(out, 1, int64(ti.RS.Chunk.ID), int64(ti.RS.TSID), int64(ti.RS.Offset), int64(ti.RS.Length))
			} else {
				out = append(out, 0)
			}
		}
		return out
	case core.StatTractReply:
		e, c := int64(0), int64(0)
		if v.ModStamp != 0 {
			e = int64(d.Cl.TS[r.TS].Restarts)
			c = int64(v.ModStamp - d.Cl.TS[r.TS].C14StampBase())
			tid := core.TractID{Blob: core.BlobID(r.Blob), Index: core.TractKey(r.Tract)}
			d.stamps[[3]uint64{uint64(r.TS), tkey(tid), v.ModStamp}] = [2]int64{e, c}
		}
		return []int64{int64(v.Err), v.Size, e, c}
	case c14dur:
		if r.Kind == KC14Alloc {
			return []int64{int64(v.err), int64(v.id.ID)}
		}
		return []int64{int64(v.err)}
	}
	return []int64{-9}
}

func (d *C14) dumpFor(r *RPC) []int64 {
	tid := core.TractID{Blob: core.BlobID(r.Blob), Index: core.TractKey(r.Tract)}
	switch r.Kind {
	case KWrite, KSetVersion, KCtlStatTract:
		return d.dumpReplica(r.TS, tid)
	case KPackTracts:
		return d.dumpPiece(r.TS, r.Aux[2])
	case KGCTract:
		dd := d.descr(r)
		if p := d.dumpPiece(r.TS, dd[len(dd)-1]); p[0] == 1 {
			return []int64{1}
		}
		return []int64{0}
	}
	return nil
}

// Step executes (or fails) a parked call and hands the reply to its caller.  failSrc = sources whose
// nested reads fail (PackTracts only).
func (d *C14) Step(r *RPC, mode int, failSrc []int) {
	for _, x := range d.Cl.S.Pending() {
		if x.State == StParked && x != r && x.Seq < r.Seq {
			a, b := d.descr(x), d.descr(r)
			if !lessKey(a, b) && !lessKey(b, a) {
				r = x
			}
		}
	}
	d.Steps++
	if r.Kind == KFixVersion && mode == ModeTwice {
		mode = ModeDeliver
	}
	op := append([]int64{7, int64(mode)}, d.descr(r)...)
	d.failMask = nil
	d.failPair = nil
	d.lastSrc = nil
	if r.Kind == KPackTracts && d.nextFail != nil {
		// per-(tract, source) failures chosen by the scheduler; with one tract per piece (the modelled
		// regime) they are exactly "these sources fail during this PackTracts"
		d.failPair = d.nextFail
		seen := map[int]bool{}
		for k := range d.nextFail {
			if !seen[int(k[1])] {
				seen[int(k[1])] = true
				failSrc = append(failSrc, int(k[1]))
			}
		}
		sort.Ints(failSrc)
		if d.K == 1 {
			d.failPair = nil // same thing, expressed per source as the model's line says
		}
	}
	d.nextFail = nil
	op = append(op, int64(len(failSrc)))
	if r.Kind == KPackTracts {
		d.failMask = map[int]bool{}
		d.lastSrc = map[core.TractID]int{}
		for _, h := range failSrc {
			op = append(op, int64(h))
			if d.failPair == nil {
				d.failMask[h] = true
			}
		}
	} else {
		op[len(op)-1] = 0
	}
	tid := core.TractID{Blob: core.BlobID(r.Blob), Index: core.TractKey(r.Tract)}
	// monitor inputs taken before the step
	var preDur []curator.VerifC14Blob
	termBefore := d.Cl.D.Term()
	if r.Kind == KC14Commit || r.Kind == KC14Alloc {
		for i := range d.Blobs {
			preDur = append(preDur, d.durable(i))
		}
	}
	if r.Kind == KC14Alloc {
		d.pin(d.Cl.Incarnation(r.Gen), C14N+C14M)
	}
	d.Cl.S.Start(r, mode)
	executed := r.Execs > 0
	if executed && r.Kind == KWrite {
		d.attempts[[2]uint64{uint64(r.TS), tkey(tid)}] += r.Execs
		if e, ok := r.Result.(core.Error); ok && e == core.NoError && d.wr != nil && r.Client == 0 && r.Wid == d.wr.wid {
			d.wr.okWrites++
		}
	}
	if executed && r.Kind == KStatBlob && r.Client == 0 && d.wr != nil && (mode == ModeDeliver || mode == ModeTwice) {
		if v, ok := r.Result.(statReply); ok && v.Err == core.NoError {
			d.wr.statClass = int(v.Info.Class)
		}
	}
	if executed && r.Kind == KGetTracts {
		if v, ok := r.Result.(tractsReply); ok && v.Err == core.NoError {
			for _, ti := range v.Tracts {
				if ti.RS.Present() && len(ti.TSIDs) > 0 {
					d.report("lookup-names-replicas-of-a-tract-that-has-an-rs-pointer",
						"GetTracts handed out the replicated hosts of a tract that already has an RS pointer: the lookup no longer keeps writers away from the frozen replicas (only the client's own check does)",
						map[string]interface{}{"tract": ti.Tract.String(), "hosts": fmt.Sprint(ti.TSIDs)})
				}
			}
		}
	}
	d.Stats[fmt.Sprintf("step.%d.mode%d", int(r.Kind), mode)]++
	// what the caller saw
	var reply []int64
	if executed && r.Kind != KFixVersion {
		reply = d.replyLine(r)
	}
	d.monitorStep(r, mode, executed, tid, preDur, termBefore)
	d.failMask, d.failPair, d.lastSrc = nil, nil, nil
	allocRound := d.roundByOp(r)
	var parity []int64
	if executed && r.Kind == KRSEncode && len(reply) == 1 && reply[0] == 0 {
		parity = d.roundOfGenAny(r.Gen, r.Aux[2]) // presence of the parity pieces
	}
	fresh, fin := d.settle()
	var obs []int64
	if executed {
		obs = append(obs, 1)
	} else {
		obs = append(obs, 0)
	}
	obs = append(obs, reply...)
	obs = append(obs, d.dumpFor(r)...)
	obs = append(obs, parity...)
	// oracle input of the alloc step
	hint := []int64{}
	if r.Kind == KC14Alloc && executed && mode != ModeLoseReply {
		if v, ok := r.Result.(c14dur); ok && v.err == core.NoError {
			if allocRound != nil {
				hint = d.allocHint(allocRound, int64(v.id.ID), fresh)
			}
		}
	}
	op = append(op, int64(len(hint)))
	op = append(op, hint...)
	obs = append(obs, d.outSection(fresh)...)
	obs = append(obs, finSection(fin)...)
	d.line(op, obs)
	d.Cl.Touched()
}

func (d *C14) roundByOp(r *RPC) *c14Round {
	// a round's calls carry its incarnation; at most one round runs per incarnation
	for _, m := range d.rounds {
		if m.gen == r.Gen {
			return m
		}
	}
	return nil
}

// parity presence after RSEncode for the operation whose base chunk is 'base'
func (d *C14) roundOfGenAny(gen int, base int64) []int64 {
	m := d.roundOfGen(gen)
	if m == nil {
		return nil
	}
	for _, a := range m.info.Allocs {
		if len(a) != C14N+C14M {
			continue
		}
		// this allocation belongs to the operation iff its data hosts hold the data pieces
		ok := true
		for j := 0; j < C14N && ok; j++ {
			ok = d.dumpPiece(int(a[j]), base+int64(j))[0] == 1
		}
		if !ok {
			continue
		}
		var out []int64
		for j := C14N; j < C14N+C14M; j++ {
			out = append(out, d.dumpPiece(int(a[j]), base+int64(j))[0])
		}
		return out
	}
	return nil
}

func (d *C14) RestartTS(i int) {
	d.Cl.RestartTS(i)
	fresh, fin := d.settle()
	obs := append(d.outSection(fresh), finSection(fin)...)
	d.line([]int64{9, int64(i)}, obs)
	d.Cl.Touched()
	d.Stats["restart"]++
}

func (d *C14) LeaderChange() {
	d.Cl.LeaderChange()
	d.settle()
	d.line([]int64{10}, nil)
	d.Stats["leader"]++
}

func (d *C14) Heartbeat(i int) {
	d.Cl.Heartbeat(i)
	d.line([]int64{11, int64(i)}, nil)
}

func (d *C14) HeartbeatAll() {
	for i := 1; i < len(d.Cl.TS); i++ {
		if !d.Cl.Cur.KnowsTS(core.TractserverID(i)) {
			d.Heartbeat(i)
		}
	}
}

// ---------------------------------------------------------------- monitors (model-free)

func (d *C14) replicaHistory(ts int, tid core.TractID) c14StatInfo {
	return c14StatInfo{attempts: d.attempts[[2]uint64{uint64(ts), tkey(tid)}], restarts: d.Cl.TS[ts].Restarts}
}

func (d *C14) monitorStep(r *RPC, mode int, executed bool, tid core.TractID, preDur []curator.VerifC14Blob, termBefore uint64) {
	if !executed {
		return
	}
	m := d.roundOfGen(r.Gen)
	switch r.Kind {
	case KCtlStatTract:
		// the packer keeps the stamp only if the reply reaches it
		if v, ok := r.Result.(core.StatTractReply); ok && v.Err == core.NoError && mode != ModeLoseReply && m != nil {
			if m.statted[tid] == nil {
				m.statted[tid] = map[int]c14StatInfo{}
			}
			m.statted[tid][r.TS] = d.replicaHistory(r.TS, tid)
		}
	case KSetVersion:
		if r.Aux[1] == 0 || m == nil {
			return
		}
		if e, ok := r.Result.(core.Error); ok && e == core.NoError {
			at, had := m.statted[tid][r.TS]
			now := d.replicaHistory(r.TS, tid)
			if had && (at.attempts != now.attempts || at.restarts != now.restarts) {
				d.report("conditional-bump-succeeded-after-write-or-restart-since-stat",
					"a conditional SetVersion carrying the stamp of an earlier stat succeeded although the replica saw a write attempt or a restart in between",
					map[string]interface{}{"ts": r.TS, "tract": tid.String(), "writes-at-stat": at.attempts, "writes-now": now.attempts, "restarts-at-stat": at.restarts, "restarts-now": now.restarts})
			}
		}
	case KPackTracts:
		if e, ok := r.Result.(core.Error); ok && e == core.NoError && m != nil {
			for id, src := range d.lastSrc {
				m.source[id] = src
			}
		}
	case KC14Alloc:
		if v, ok := r.Result.(c14dur); ok && v.err == core.NoError && m != nil {
			m.base = int64(v.id.ID)
		}
		if v, ok := r.Result.(c14dur); ok && v.err == core.NoError && m != nil && m.info.Term != termBefore {
			d.report("durable-step-applied-under-stale-term", "AllocateRSChunkIDs was applied although the term had changed since the round started", nil)
		}
	case KC14Commit:
		v, ok := r.Result.(c14dur)
		if !ok || v.err != core.NoError || m == nil {
			return
		}
		d.Stats["commit.applied"]++
		if m.info.Term != termBefore {
			d.report("durable-step-applied-under-stale-term", "CommitRSChunk was applied although the term had changed since the round started", nil)
		}
		// the encoded copy of each tract = its last acknowledged write state
		var cm *curator.VerifC14Commit
		for i := range m.info.Commits {
			if int64(m.info.Commits[i].Base.ID) == r.Aux[0] {
				cm = &m.info.Commits[i]
			}
		}
		if cm == nil {
			return
		}
		for i, ets := range cm.Data {
			for _, et := range ets {
				bi := d.blobIdx(uint64(et.ID.Blob))
				if bi < 0 {
					continue
				}
				piece, okp := d.replica(int(cm.Hosts[i]), chunkTract(cm.Base.Partition, int64(cm.Base.ID)+int64(i)))
				var data []byte
				if okp {
					all := expandRuns(piece.Runs)
					if et.Offset+et.Length <= len(all) {
						data = all[et.Offset : et.Offset+et.Length]
					}
				}
				b := d.Blobs[bi]
				lo := int64(et.ID.Index) * TractLen
				hi := lo
				for _, w := range b.O.Writes {
					if e := w.Off + int64(w.Len); w.Off >= lo && w.Off < lo+TractLen && e > hi {
						hi = e
					}
				}
				if int64(et.Length) > hi-lo {
					hi = lo + int64(et.Length)
				}
				pre := preDur[bi]
				statVer := -1
				for _, a := range m.info.Adds {
					if a.ID == et.ID {
						statVer = a.Version
					}
				}
				if statVer >= 0 && et.NewVersion != statVer+1 {
					d.report("commit-new-version-is-not-stat-version-plus-one", "CommitRSChunk carried a NewVersion other than the version the tract was stat'ed, packed and bumped at, plus one: the commit does not fence writers holding that version",
						map[string]interface{}{"blob": bi, "tract": int(et.ID.Index), "stat-version": statVer, "new-version": et.NewVersion})
				} else if int(et.ID.Index) < len(pre.Tracts) && pre.Tracts[et.ID.Index].Version != et.NewVersion-1 {
					d.report("commit-applied-although-stored-version-changed-since-stat",
						"CommitRSChunk was applied with NewVersion = stat version + 1 although the stored version of the tract was no longer the stat version: the commit does not raise the durable version, holders of the current version are not fenced",
						map[string]interface{}{"blob": bi, "tract": int(et.ID.Index), "stored-version": pre.Tracts[et.ID.Index].Version, "new-version": et.NewVersion})
					if d.taint[et.ID] == "" {
						d.taint[et.ID] = "commit-over-changed-version"
					}
				}
				cause := "other"
				if int(et.ID.Index) < len(pre.Tracts) && pre.Tracts[et.ID.Index].Version == et.NewVersion {
					cause = "stored-version-already-at-new-version"
				} else if src, ok := m.source[et.ID]; ok {
					if _, st := m.statted[et.ID][src]; !st {
						cause = "pack-source-replica-was-not-statted"
					}
				}
				for _, bad := range b.O.CheckRead("commit-encoded-copy", lo, int(hi-lo), data, d.Acks) {
					bad.Sig += "/" + cause
					if t := d.taint[et.ID]; t != "" {
						bad.Sig += "/after-" + t
					}
					bad.Detail["blob"], bad.Detail["tract"] = bi, int(et.ID.Index)
					bad.Detail["new-version"], bad.Detail["stored-version-before"] = et.NewVersion, pre.Tracts[et.ID.Index].Version
					bad.What = "when CommitRSChunk was applied, the encoded copy of a tract did not equal its last acknowledged write state: " + bad.What
					d.Bads = append(d.Bads, bad)
					if d.taint[et.ID] == "" {
						d.taint[et.ID] = "commit-" + cause
					}
				}
			}
		}
	}
}

// ReadProbe: ReadAt of client 1 (no cache) inside one tract, executed atomically.
func (d *C14) ReadProbe(blob, tract int, off int64, n int) {
	b := d.Blobs[blob]
	tid := d.TID(blob, tract)
	db := d.durable(blob)
	if !db.OK || tract >= len(db.Tracts) {
		return
	}
	dt := db.Tracts[tract]
	if !dt.HasRS {
		// a replicated read that meets a bumped replica starts FixVersion: only probe tracts at rest
		for _, h := range dt.Hosts {
			if rep, ok := d.replica(int(h), tid); !ok || rep.Version != dt.Version {
				return
			}
		}
	}
	d.HeartbeatAll()
	var tries []int64
	d.Cl.OnExec = func(r *RPC, before bool) {
		if before && r.Kind == KRead && r.Client == 1 && r.Tract == tract && r.Blob == uint64(b.ID) {
			tries = append(tries, int64(r.TS))
		}
	}
	d.Cl.S.SetAuto(true)
	buf := make([]byte, n)
	h := blb.VerifBlob(d.Cl.Cli[1], b.ID)
	k, e := h.ReadAt(buf, int64(tract)*TractLen+off)
	d.Cl.S.Settle()
	d.Cl.S.SetAuto(false)
	d.Cl.OnExec = nil
	d.Cl.Touched()
	err := toBlb(e)
	op := []int64{30, int64(blob), int64(tract), off, int64(n), int64(len(tries))}
	op = append(op, tries...)
	obs := []int64{int64(err), int64(k)}
	if err == core.NoError || err == core.ErrEOF {
		obs = append(obs, vw.RLE(buf[:k])...)
		who := "read-replicated"
		if dt.HasRS {
			who = "read-through-rs-pointer"
		}
		for _, bad := range b.O.CheckRead(who, int64(tract)*TractLen+off, n, buf[:k], d.Acks) {
			if t := d.taint[tid]; t != "" {
				bad.Sig += "/after-" + t
			}
			bad.Detail["blob"], bad.Detail["tract"] = blob, tract
			d.Bads = append(d.Bads, bad)
		}
		d.Stats["read."+who]++
	} else {
		obs = append(obs, 0)
		d.Stats[fmt.Sprintf("read.err%d", int(err))]++
	}
	d.line(op, obs)
}

// ---------------------------------------------------------------- the random scheduler

type C14Weights struct {
	Deliver, Write, Round, Restart, Leader, Heartbeat, Read, Fix, Probe int
	PLose, PFail, PTwice                                                int // per mille
	PPackFail                                                           int
	MaxRounds                                                           int
}

func C14DefaultWeights() C14Weights {
	return C14Weights{Deliver: 30, Write: 8, Round: 6, Restart: 1, Leader: 1, Heartbeat: 12, Read: 3, Fix: 2, Probe: 2, PLose: 40, PFail: 40, PTwice: 20, PPackFail: 150, MaxRounds: 6}
}

func (d *C14) fixBusy(blob uint64, tract int) bool {
	for _, r := range d.Cl.S.Pending() {
		if r.Blob == blob && r.Tract == tract {
			if r.Kind == KFixVersion && r.State == StRunning {
				return true
			}
			if r.Kind == KSetVersion && r.Client < 0 && r.Aux[1] == 0 {
				return true
			}
		}
	}
	return false
}

func (d *C14) pickMode(w C14Weights, r *RPC) int {
	x := d.R.Intn(1000)
	switch {
	case x < w.PLose:
		if r.Kind == KC14Commit {
			return ModeDeliver // a commit that is applied but reported as timed out: see notes (not part of the random schedules)
		}
		return ModeLoseReply
	case x < w.PLose+w.PFail:
		return ModeFail
	case x < w.PLose+w.PFail+w.PTwice:
		if r.Kind == KFixVersion || r.Kind == KC14Alloc || r.Kind == KC14Commit || r.Kind == KPackTracts || r.Kind == KRSEncode {
			return ModeDeliver
		}
		return ModeTwice
	}
	return ModeDeliver
}

// packFail chooses, for a PackTracts step, which CtlRead calls of the destination fail: per tract of the
// piece (first / middle / last / only) none, one, several or all of its sources.  The choice is left in
// d.nextFail for Step.
func (d *C14) packFail(w C14Weights, r *RPC) []int {
	if r.Kind != KPackTracts {
		return nil
	}
	m := d.roundOfGen(r.Gen)
	if m == nil || m.base == 0 {
		return nil
	}
	j := r.Aux[2] - m.base
	idx := int(j/int64(C14N+C14M))*C14N + int(j%int64(C14N+C14M))
	if j < 0 || j%int64(C14N+C14M) >= C14N || idx >= len(m.info.Chunks) {
		return nil
	}
	specs := m.info.Chunks[idx].Tracts
	planned := len(d.PackPlan) > 0
	if planned && (m.plan[0] != idx%C14N || idx >= C14N) {
		return nil // the round's one planned fault is for another piece
	}
	if !planned && d.R.Intn(1000) >= w.PPackFail {
		return nil
	}
	fail := map[[2]uint64]bool{}
	// at least one tract of the piece is hit; which one is drawn uniformly over the positions (or planned)
	hit := d.R.Intn(len(specs))
	if planned {
		switch m.plan[1] {
		case 0:
			hit = 0
		case 2:
			hit = len(specs) - 1
		default:
			hit = len(specs) / 2
			if len(specs) == 2 {
				hit = 0
			}
		}
		m.plan[0] = -1
	}
	for ti, sp := range specs {
		if ti != hit && (planned || !d.R.Chance(1, 4)) {
			continue
		}
		pos := "middle"
		switch {
		case len(specs) == 1:
			pos = "only"
		case ti == 0:
			pos = "first"
		case ti == len(specs)-1:
			pos = "last"
		}
		var from []int
		for _, a := range sp.From {
			from = append(from, int(a.ID))
		}
		if len(from) == 0 {
			continue
		}
		mode := d.R.PickInt(0, 1, 2, 2)
		if planned {
			mode = m.plan[2]
		}
		n := 1
		name := "one"
		switch {
		case mode == 2 || len(from) == 1:
			n, name = len(from), "all"
		case mode == 1 && len(from) > 2:
			n, name = d.R.Range(2, len(from)-1), "several"
		}
		for _, pi := range d.R.Perm(len(from))[:n] {
			fail[[2]uint64{tkey(sp.ID), uint64(from[pi])}] = true
		}
		d.Stats["packfail."+pos+"."+name]++
	}
	if len(fail) > 0 {
		d.nextFail = fail
	}
	return nil
}

func (d *C14) writeShape() (int, int, int64, int) {
	b := d.Blobs[d.R.Intn(len(d.Blobs))]
	t := d.R.Intn(b.NT)
	lo := int64(t) * TractLen
	var ext int64
	for _, w := range b.O.Writes {
		if w.Off >= lo && w.Off < lo+TractLen && w.Off+int64(w.Len)-lo > ext {
			ext = w.Off + int64(w.Len) - lo
		}
	}
	n := d.R.Range(1, 120)
	var off int64
	switch d.R.Intn(4) {
	case 0:
		off = ext - int64(d.R.Intn(20)) // extends the tract
		if off < 0 {
			off = 0
		}
	default: // in place
		if int64(n) > ext {
			n = int(ext)
		}
		if n < 1 {
			n = 1
		}
		off = 0
		if ext > int64(n) {
			off = int64(d.R.Intn(int(ext) - n + 1))
		}
	}
	if off+int64(n) > int64(C14Target) {
		off = int64(C14Target - n)
	}
	return b.Idx, t, off, n
}

func (d *C14) RunRandom(w C14Weights, steps int) {
	for i := 0; i < steps; i++ {
		var acts []Action
		for _, r := range d.Cl.S.Pending() {
			r := r
			if r.State != StParked {
				continue
			}
			if r.Kind == KFixVersion && d.fixBusy(r.Blob, r.Tract) {
				continue
			}
			acts = append(acts, Action{w.Deliver, func() { d.Step(r, d.pickMode(w, r), d.packFail(w, r)) }})
		}
		if d.wr == nil && d.Wid < 240 {
			acts = append(acts, Action{w.Write, func() { d.StartWrite(d.writeShape()) }})
		}
		if d.roundOfGen(d.Cl.Cur.Gen) == nil && d.NRounds < w.MaxRounds {
			acts = append(acts, Action{w.Round, func() { d.StartRound() }})
		}
		nts := len(d.Cl.TS) - 1
		acts = append(acts, Action{w.Restart, func() { d.RestartTS(d.R.Range(1, nts)) }})
		acts = append(acts, Action{w.Leader, func() { d.LeaderChange() }})
		for j := 1; j <= nts; j++ {
			j := j
			if !d.Cl.Cur.KnowsTS(core.TractserverID(j)) {
				acts = append(acts, Action{w.Heartbeat, func() { d.Heartbeat(j) }})
			}
		}
		acts = append(acts, Action{w.Read, func() {
			b := d.Blobs[d.R.Intn(len(d.Blobs))]
			d.ReadProbe(b.Idx, d.R.Intn(b.NT), int64(d.R.Intn(60)), d.R.Range(1, 300))
		}})
		if d.K == 1 {
			acts = append(acts, Action{w.Probe, func() { d.PackProbe() }})
		}
		acts = append(acts, Action{1, func() { d.ClassProbe(d.R.Intn(len(d.Blobs))) }})
		acts = append(acts, Action{w.Fix, func() {
			b := d.Blobs[d.R.Intn(len(d.Blobs))]
			d.StartFix(b.Idx, d.R.Intn(b.NT))
		}})
		tot := 0
		for _, a := range acts {
			tot += a.W
		}
		x := d.R.Intn(tot)
		for _, a := range acts {
			if x < a.W {
				a.Run()
				break
			}
			x -= a.W
		}
	}
}

// Quiesce delivers everything without faults.
func (d *C14) Quiesce() bool {
	for i := 0; i < 3000; i++ {
		d.HeartbeatAll()
		var pick *RPC
		for _, r := range d.Cl.S.Pending() {
			if r.State == StParked && !(r.Kind == KFixVersion && d.fixBusy(r.Blob, r.Tract)) {
				pick = r
				break
			}
		}
		if pick == nil {
			if len(d.Cl.S.Pending()) == 0 {
				return true
			}
			d.report("harness-deadlock", "activities blocked on each other with nothing deliverable", map[string]interface{}{"pending": fmt.Sprint(d.Cl.S.Pending())})
			return false
		}
		if len(d.PackPlan) > 0 {
			d.packFail(C14Weights{}, pick) // the round's planned pack fault is part of the plan, not of the random faults
		}
		d.Step(pick, ModeDeliver, nil)
	}
	return false
}

// DeliverWhere keeps delivering parked calls selected by pred.
func (d *C14) DeliverWhere(pred func(r *RPC) bool) {
	for i := 0; i < 500; i++ {
		var pick *RPC
		for _, r := range d.Cl.S.Pending() {
			if r.State == StParked && pred(r) {
				pick = r
				break
			}
		}
		if pick == nil {
			return
		}
		d.Step(pick, ModeDeliver, nil)
	}
}

func (d *C14) WriteTrace(tr *vw.Trace) {
	tr.Case(d.Case)
	for i := range d.Ops {
		tr.Op(d.Ops[i]...)
		tr.Obs(d.Obs[i]...)
	}
}

// ReadAll probes every tract of every blob.
func (d *C14) ReadAll() {
	for _, b := range d.Blobs {
		for t := 0; t < b.NT; t++ {
			d.ReadProbe(b.Idx, t, 0, 400)
		}
	}
}

// Hosts returns the durable host list of a tract (sorted by id).
func (d *C14) Hosts(blob, tract int) []int {
	db := d.durable(blob)
	var out []int
	if db.OK && tract < len(db.Tracts) {
		for _, h := range db.Tracts[tract].Hosts {
			out = append(out, int(h))
		}
	}
	return out
}

// StepOne delivers (with the given mode) the first parked call selected by pred; false if none.
func (d *C14) StepOne(mode int, pred func(r *RPC) bool) bool {
	for _, r := range d.Cl.S.Pending() {
		if r.State == StParked && pred(r) {
			d.Step(r, mode, nil)
			return true
		}
	}
	return false
}

// BlobOf returns the blob number of a call (-1 for calls that name no blob).
func (d *C14) BlobOf(r *RPC) int { return d.blobIdx(r.Blob) }

// StartFix: a third party's FixVersion request (fixVersion run under the current incarnation with the
// durable version and one of the hosts: the curator takes the requester's word for the mismatch).
func (d *C14) StartFix(blob, tract int) {
	db := d.durable(blob)
	if !db.OK || tract >= len(db.Tracts) || len(db.Tracts[tract].Hosts) == 0 {
		return
	}
	dt := db.Tracts[tract]
	tid := d.TID(blob, tract)
	if d.fixBusy(uint64(tid.Blob), tract) {
		return
	}
	cur := d.Cl.Cur
	bad := int(dt.Hosts[d.R.Intn(len(dt.Hosts))])
	d.Cl.S.Go("fix", nil, func() interface{} { return cur.FixVersion(tid, dt.Version, TSAddr(bad)) })
	fresh, fin := d.settle()
	obs := append(d.outSection(fresh), finSection(fin)...)
	d.line([]int64{6, int64(blob), int64(tract), int64(dt.Version), int64(bad)}, obs)
	d.Stats["thirdparty-fix"]++
}

// OpenProbe: Client.Open(blob, "w") by client 1, executed atomically (GetTracts with ForWrite).
func (d *C14) OpenProbe(blob int) {
	b := d.Blobs[blob]
	d.Cl.S.SetAuto(true)
	_, e := d.Cl.Cli[1].Open(blb.BlobID(b.ID), "w")
	d.Cl.S.Settle()
	d.Cl.S.SetAuto(false)
	d.Cl.Touched()
	err := toBlb(e)
	db := d.durable(blob)
	if db.Class != core.StorageClassREPLICATED && err != core.ErrReadOnlyStorageClass {
		d.report("open-for-write-not-refused-after-class-switch", "Open for writing succeeded (or failed otherwise) on a blob whose class is erasure coded",
			map[string]interface{}{"blob": blob, "err": err.String()})
	}
	if db.Class == core.StorageClassREPLICATED && err != core.NoError {
		d.report("open-for-write-refused-on-replicated-blob", "Open for writing failed on a replicated blob", map[string]interface{}{"blob": blob, "err": err.String()})
	}
	d.line([]int64{31, int64(blob)}, []int64{int64(err)})
	d.Stats["open-probe"]++
}

// C14Less orders two descriptors like the model's sort_rpcs.
func C14Less(a, b []int64) bool { return lessKey(descrKey(a), descrKey(b)) }

// PackProbe: Store.PackTracts at a tractserver, through the real control handler, with a piece of several tracts and,
// per tract, chosen sources unreachable (every position first/middle/last x one/several/all sources).  Executed atomically;
// the scratch piece is removed again.  Compared with the model's pack step (line 83) and judged model-free: a piece that
// PackTracts reports as written holds, at every tract's extent, the bytes of one of that tract's deliverable sources.
func (d *C14) PackProbe() {
	type cand struct {
		blob, tract int
		ver         int
		hosts       []int
	}
	var cs []cand
	for _, b := range d.Blobs {
		db := d.durable(b.Idx)
		for t := range db.Tracts {
			if len(db.Tracts[t].Hosts) > 0 {
				c := cand{blob: b.Idx, tract: t, ver: db.Tracts[t].Version}
				for _, h := range db.Tracts[t].Hosts {
					c.hosts = append(c.hosts, int(h))
				}
				cs = append(cs, c)
			}
		}
	}
	if len(cs) < 2 {
		return
	}
	n := d.R.Range(2, 4)
	if n > len(cs) {
		n = len(cs)
	}
	perm := d.R.Perm(len(cs))[:n]
	ts := d.R.Range(1, len(d.Cl.TS)-1)
	d.probeNo++
	chunk := int64(900000 + d.probeNo)
	var specs []*core.PackTractSpec
	fail := map[[2]uint64]bool{}
	op := []int64{83, int64(ts), chunk, 0, int64(n)}
	off := 0
	hit := d.R.Intn(n)
	mode := d.R.PickInt(0, 1, 2, 2, 3) // 3 = no fault at all
	type want struct {
		tid  core.TractID
		off  int
		ln   int
		ver  int
		srcs []int // sources that can deliver
	}
	var wants []want
	for i, pi := range perm {
		c := cs[pi]
		tid := d.TID(c.blob, c.tract)
		ln := 0
		if rep, ok := d.replica(c.hosts[0], tid); ok {
			ln = rep.Len
		}
		if d.R.Chance(1, 12) {
			ln++ // a length no replica has
		}
		sp := &core.PackTractSpec{ID: tid, Version: c.ver, Offset: off, Length: ln}
		l := []int64{int64(c.blob), int64(c.tract), int64(off), int64(ln), int64(c.ver), int64(len(c.hosts))}
		for _, h := range c.hosts {
			sp.From = append(sp.From, core.TSAddr{ID: core.TractserverID(h), Host: TSAddr(h)})
			l = append(l, int64(h))
		}
		var failing []int
		if i == hit && mode != 3 {
			k := 1
			if mode == 2 || len(c.hosts) == 1 {
				k = len(c.hosts)
			} else if mode == 1 && len(c.hosts) > 2 {
				k = d.R.Range(2, len(c.hosts)-1)
			}
			for _, hi := range d.R.Perm(len(c.hosts))[:k] {
				failing = append(failing, c.hosts[hi])
				fail[[2]uint64{tkey(tid), uint64(c.hosts[hi])}] = true
			}
			sort.Ints(failing)
		}
		l = append(l, int64(len(failing)))
		for _, h := range failing {
			l = append(l, int64(h))
		}
		op = append(op, l...)
		w := want{tid: tid, off: off, ln: ln, ver: c.ver}
		for _, h := range c.hosts {
			if fail[[2]uint64{tkey(tid), uint64(h)}] {
				continue
			}
			if rep, ok := d.replica(h, tid); ok && rep.HasVersion && rep.Version == c.ver && rep.Len == ln {
				w.srcs = append(w.srcs, h)
			}
		}
		wants = append(wants, w)
		specs = append(specs, sp)
		off += (ln + C14Target - 1) / C14Target * C14Target
	}
	target := off
	if target == 0 {
		target = C14Target
	}
	op[3] = int64(target)
	cid := core.RSChunkID{Partition: d.rsPartition(), ID: uint64(chunk)}
	d.Cl.S.SetAuto(true)
	d.failPair, d.failMask, d.lastSrc = fail, nil, nil
	err := d.Cl.TS[ts].PackTracts(core.TractserverID(ts), target, specs, cid)
	d.failPair = nil
	piece, has := d.replica(ts, cid.ToTractID())
	obs := append([]int64{int64(err)}, d.dumpPiece(ts, chunk)...)
	// model-free judgement
	missing := false
	for _, w := range wants {
		if len(w.srcs) == 0 {
			missing = true
		}
	}
	pos := func(i int) string {
		switch {
		case i == 0:
			return "first"
		case i == len(wants)-1:
			return "last"
		}
		return "middle"
	}
	if err == core.NoError {
		if missing {
			for i, w := range wants {
				if len(w.srcs) == 0 {
					d.report("pack-probe/packtracts-ok-although-a-tract-had-no-deliverable-source/"+pos(i), "PackTracts reported success although none of the sources of one tract of the piece delivered it: the piece has a hole where that tract belongs", map[string]interface{}{"tract": w.tid.String(), "position": pos(i), "of": len(wants)})
				}
			}
		}
		all := expandRuns(piece.Runs)
		for i, w := range wants {
			if len(w.srcs) == 0 || !has || w.off+w.ln > len(all) {
				continue
			}
			ok := false
			for _, h := range w.srcs {
				if rep, okr := d.replica(h, w.tid); okr && string(expandRuns(rep.Runs)) == string(all[w.off:w.off+w.ln]) {
					ok = true
				}
			}
			if !ok {
				d.report("pack-probe/piece-does-not-hold-a-copy-of-a-deliverable-source/"+pos(i), "PackTracts reported success but a tract's extent of the piece is not a copy of any source that could deliver it", map[string]interface{}{"tract": w.tid.String()})
			}
		}
	} else if has {
		d.report("pack-probe/failed-packtracts-left-a-piece", "PackTracts reported an error and left a piece behind", map[string]interface{}{"err": err.String()})
	}
	d.Cl.TS[ts].GCTract(core.TractserverID(ts), nil, []core.TractID{cid.ToTractID()})
	d.Cl.S.Settle()
	d.Cl.S.SetAuto(false)
	d.Cl.Touched()
	d.line(op, obs)
	d.Stats["pack-probe"]++
	if missing {
		d.Stats["pack-probe.a-tract-without-source"]++
	}
}

// ClassProbe submits a raw UpdateStorageClass(blob, target class) in the current term while at least one tract of the
// blob has no RS pointer yet: the durable command must refuse (it is the last guard of the class switch: applying it
// clears the replicated locations of every tract).
func (d *C14) ClassProbe(blob int) {
	b := d.Blobs[blob]
	db := d.durable(blob)
	if !b.Warm || !db.OK || db.Class != core.StorageClassREPLICATED {
		return
	}
	plain := -1
	for t := range db.Tracts {
		if !db.Tracts[t].HasRS {
			plain = t
		}
	}
	if plain < 0 {
		return
	}
	err := d.Cl.D.SH.UpdateStorageClass(b.ID, core.StorageClassRS_6_3, d.Cl.D.Term())
	d.Cl.S.Settle()
	after := d.durable(blob)
	if err == core.NoError || after.Class != db.Class || len(after.Tracts[plain].Hosts) != len(db.Tracts[plain].Hosts) {
		d.report("class-switch-applied-although-a-tract-is-not-erasure-coded",
			"UpdateStorageClass was applied to a blob one of whose tracts has no RS pointer: that tract's replicated locations are cleared, it has no storage left",
			map[string]interface{}{"blob": blob, "tract": plain, "err": err.String(), "hosts-after": fmt.Sprint(after.Tracts[plain].Hosts)})
	}
	d.line([]int64{84, int64(blob)}, []int64{int64(err)})
	d.Stats["class-probe"]++
}
