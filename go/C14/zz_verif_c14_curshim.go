package curator

// C14 shim (overlay-only; /verif/go/C14/zz_verif_c14_curshim.go injected as
// internal/curator/zz_verif_c14_shim.go, next to the Cluster shim zz_verif_cluster.go which it
// extends without editing).
//
// C14Round runs ONE round of storageClassLoop under a leader incarnation of the in-process cluster:
// the glue of the loop body (ForEachBlob + the four-way decision) is repeated here because the real
// loop never returns, sleeps, reads the wall clock and packs towards RSPieceLength (64 MiB);
// everything it calls is the real code: targetClass, hasExtraStorage, tractsAreStoredAsClass,
// updateStorageClass, addTractsToPacker, makeTractPacker and the whole tractPacker (doStat, packTracts,
// packChunks, doEncode with its five stages, cleanup).  The packer talks to the tractservers through
// the incarnation's TractserverTalker (= the scheduler) and to the durable state through the real
// curatorTPContext; the two durable calls of a move (AllocateRSChunkIDs, CommitRSChunk) are handed to
// a hook first so that the harness can schedule the metadata commit like any other step of the move.

import (
	"math"
	"sort"
	"sync"

	"github.com/westerndigitalcorporation/blb/internal/core"
	"github.com/westerndigitalcorporation/blb/internal/curator/durable/state"
	"github.com/westerndigitalcorporation/blb/internal/curator/durable/state/fb"
	"github.com/westerndigitalcorporation/blb/internal/curator/storageclass"
	"github.com/westerndigitalcorporation/blb/pkg/tokenbucket"
)

// VerifC14Hook parks a durable call of the packer.  kind 1 = AllocateRSChunkIDs(n), 2 = CommitRSChunk(base).
// exec performs the real call; the hook returns what the packer shall see.
type VerifC14Hook func(kind int, term uint64, base core.RSChunkID, n int, exec func() (core.RSChunkID, core.Error)) (core.RSChunkID, core.Error)

type c14TPContext struct {
	*curatorTPContext
	hook  VerifC14Hook
	round *VerifC14Round
}

func (c *c14TPContext) AllocateRSChunkIDs(n int) (core.RSChunkID, core.Error) {
	return c.hook(1, c.term, core.RSChunkID{}, n, func() (core.RSChunkID, core.Error) {
		return c.curatorTPContext.AllocateRSChunkIDs(n)
	})
}

func (c *c14TPContext) AllocateTS(num int) ([]string, []core.TractserverID) {
	a, ids := c.curatorTPContext.AllocateTS(num)
	if len(ids) == num && len(a) == num {
		// allocateTS decides the SET; the order in which it lists the servers comes from Go map iteration.
		// Canonical order (by id), then the arrangement the case's generator chose.
		idx := make([]int, num)
		for i := range idx {
			idx[i] = i
		}
		sort.Slice(idx, func(x, y int) bool { return ids[idx[x]] < ids[idx[y]] })
		if c.round.Arrange != nil {
			perm := c.round.Arrange(num)
			idx2 := make([]int, num)
			for i := range idx2 {
				idx2[i] = idx[perm[i]]
			}
			idx = idx2
		}
		a2, ids2 := make([]string, num), make([]core.TractserverID, num)
		for i, j := range idx {
			a2[i], ids2[i] = a[j], ids[j]
		}
		a, ids = a2, ids2
	}
	c.round.mu.Lock()
	c.round.Allocs = append(c.round.Allocs, append([]core.TractserverID(nil), ids...))
	c.round.mu.Unlock()
	return a, ids
}

func (c *c14TPContext) CommitRSChunk(id core.RSChunkID, cls core.StorageClass, hosts []core.TractserverID, data [][]state.EncodedTract) core.Error {
	c.round.mu.Lock()
	c.round.Commits = append(c.round.Commits, VerifC14Commit{Base: id, Class: cls, Hosts: append([]core.TractserverID(nil), hosts...), Data: data})
	c.round.mu.Unlock()
	_, err := c.hook(2, c.term, id, 0, func() (core.RSChunkID, core.Error) {
		return id, c.curatorTPContext.CommitRSChunk(id, cls, hosts, data)
	})
	return err
}

// VerifC14Add is one tract handed to a packer by addTractsToPacker.
type VerifC14Add struct {
	ID      core.TractID
	From    []core.TSAddr
	Version int
}

// VerifC14Chunk is one data chunk of the layout packTracts accepted.
type VerifC14Chunk struct {
	Tracts []core.PackTractSpec
}

// VerifC14Commit is the argument list of one CommitRSChunk call.
type VerifC14Commit struct {
	Base  core.RSChunkID
	Class core.StorageClass
	Hosts []core.TractserverID
	Data  [][]state.EncodedTract
}

// VerifC14Round collects what one round did (read by the harness only while the process is quiescent).
type VerifC14Round struct {
	mu        sync.Mutex
	Term      uint64
	Switch    []core.BlobID // blobs for which updateStorageClass(target) was started (all tracts already encoded)
	Cleanup   []core.BlobID // blobs for which updateStorageClass(current) was started (extra storage)
	Adds      []VerifC14Add
	Chunks    []VerifC14Chunk // accepted layout (after packTracts), in the packer's order
	Laid      bool
	Commits   []VerifC14Commit
	Arrange   func(n int) []int      // set by the harness: arrangement of the servers allocateTS picked
	Allocs    [][]core.TractserverID // results of allocateTS, in call order (nil = failed)
	Committed int
	Done      bool
}

// C14Round: see the file comment.  'target' replaces RSPieceLength.
func (v *VerifCurator) C14Round(target int, hook VerifC14Hook) *VerifC14Round {
	r := &VerifC14Round{}
	v.C14RoundInto(r, target, hook)
	return r
}

func (v *VerifCurator) C14RoundInto(r *VerifC14Round, target int, hook VerifC14Hook) {
	c := v.C
	if c.rsEncodeBwLim == nil {
		c.rsEncodeBwLim = tokenbucket.New(1e15, 1e15) // never makes Take sleep
	}
	var wg sync.WaitGroup
	now := int64(math.MaxInt64 / 2) // every blob is "old enough"
	term := c.stateHandler.GetTerm()
	r.Term = term
	ctx := &c14TPContext{curatorTPContext: &curatorTPContext{c: c, term: term}, hook: hook, round: r}
	// makePackers with 'target'
	packers := make([]*tractPacker, len(core.EnumNamesStorageClass))
	for _, cls := range storageclass.AllRS {
		N, M := cls.RSParams()
		packers[cls.ID()] = makeTractPacker(ctx, c.internalOpM, cls.ID(), N, M, target)
	}
	var committed int

	c.stateHandler.ForEachBlob(false, func(id core.BlobID, blob *fb.BlobF) {
		current := blob.Storage()
		tgt := targetClass(blob, now, c.config.WriteDelay)
		if current == tgt {
			if hasExtraStorage(blob, current) {
				wg.Add(1)
				r.Cleanup = append(r.Cleanup, id)
				go c.updateStorageClass(id, current, &wg, term)
			}
		} else if tractsAreStoredAsClass(blob, tgt) {
			wg.Add(1)
			r.Switch = append(r.Switch, id)
			go c.updateStorageClass(id, tgt, &wg, term)
		} else if current == REPLICATED && tgt != REPLICATED {
			p := packers[tgt]
			before := len(p.tracts)
			c.addTractsToPacker(id, blob, p)
			for _, pts := range p.tracts[before:] {
				r.Adds = append(r.Adds, VerifC14Add{ID: pts.ID, From: append([]core.TSAddr(nil), pts.From...), Version: pts.Version})
			}
		}
	}, c.stateHandler.IsLeader)

	for _, p := range packers {
		if p != nil {
			p.doneAdding()
			p.packTracts()
			r.mu.Lock()
			for _, ch := range p.chunks {
				var vc VerifC14Chunk
				for _, t := range ch.tracts {
					vc.Tracts = append(vc.Tracts, *t)
				}
				r.Chunks = append(r.Chunks, vc)
			}
			r.mu.Unlock()
			p.packChunks()
		}
	}
	r.mu.Lock()
	r.Laid = true
	r.mu.Unlock()
	for _, p := range packers {
		if p != nil {
			committed += p.waitForPacking()
		}
	}
	wg.Wait()
	r.mu.Lock()
	r.Committed = committed
	r.Done = true
	r.mu.Unlock()
}

// C14CreateBlob creates a blob with a storage hint through the real RPC handler.
func (v *VerifCurator) C14CreateBlob(repl int, hint core.StorageHint) (core.BlobID, core.Error) {
	var reply core.CreateBlobReply
	if e := v.H.CreateBlob(core.CreateBlobReq{Repl: repl, Hint: hint}, &reply); e != nil {
		return 0, core.ErrRPC
	}
	return reply.ID, reply.Err
}

// VerifC14Tract is the durable record of a tract including its RS pointer.
type VerifC14Tract struct {
	Version int
	Hosts   []core.TractserverID // raw host list of the record (GetTracts hides it when an RS pointer exists)
	HasRS   bool
	Chunk   core.RSChunkID // the data piece that holds the tract
	Base    core.RSChunkID
	PieceTS core.TractserverID
	Offset  int
	Length  int
	Pieces  []core.TractserverID
}

// VerifC14Blob is the durable record of a blob.
type VerifC14Blob struct {
	OK     bool
	Class  core.StorageClass
	Tracts []VerifC14Tract
}

// C14Blob reads the durable record of a blob (local read).
func (d *VerifDurable) C14Blob(id core.BlobID) VerifC14Blob {
	txn := d.SH.LocalReadOnlyTxn()
	defer txn.Commit()
	blob := txn.GetBlob(id)
	if blob == nil {
		return VerifC14Blob{}
	}
	out := VerifC14Blob{OK: true, Class: blob.Storage()}
	n := blob.TractsLength()
	if n == 0 {
		return out
	}
	tis, _, err := txn.GetTracts(id, 0, n)
	if err != core.NoError {
		return out
	}
	var tf fb.TractF
	for i, ti := range tis {
		blob.Tracts(&tf, i)
		t := VerifC14Tract{Version: ti.Version, Hosts: fb.HostsList(&tf)}
		sort.Slice(t.Hosts, func(a, b int) bool { return t.Hosts[a] < t.Hosts[b] })
		if ti.RS.Present() {
			t.HasRS = true
			t.Chunk, t.Base, t.PieceTS = ti.RS.Chunk, ti.RS.BaseChunk, ti.RS.TSID
			t.Offset, t.Length = int(ti.RS.Offset), int(ti.RS.Length)
			t.Pieces = ti.RS.OtherTSIDs
		}
		out.Tracts = append(out.Tracts, t)
	}
	return out
}

// ---------------------------------------------------------------- compositional harness
//
// VerifC14Script drives the REAL tractPacker against a scripted tpContext: every call the packer makes
// is recorded, and its reply is whatever the script (a function of the call) says.  Calls that the
// packer makes concurrently (the stats of different tracts, the PackTracts fan-out, the bumps) are
// recorded in a canonical order by the caller.

type VerifC14Call struct {
	Kind    int // 1 stat 2 setversion 3 packtracts 4 rsencode 5 deltract 6 allocTS 7 allocIDs 8 commit 9 suggestFix 10 mark 11 unmark
	TS      int
	Tract   core.TractID
	Version int
	Stamp   uint64
	N       int
	Chunk   core.RSChunkID
	Specs   []core.PackTractSpec
	Hosts   []core.TractserverID
	Data    [][]state.EncodedTract
}

type VerifC14Scripted struct {
	mu    sync.Mutex
	Calls []VerifC14Call
	// replies
	Stat    func(ts int, id core.TractID, version int) core.StatTractReply
	SetV    func(ts int, id core.TractID, version int, stamp uint64) core.Error
	Pack    func(ts int, chunk core.RSChunkID, specs []core.PackTractSpec) core.Error
	Encode  func(ts int, chunk core.RSChunkID) core.Error
	AllocTS func(n int) ([]string, []core.TractserverID)
	AllocID func(n int) (core.RSChunkID, core.Error)
	Commit  func(id core.RSChunkID, hosts []core.TractserverID, data [][]state.EncodedTract) core.Error
}

func (s *VerifC14Scripted) rec(c VerifC14Call) {
	s.mu.Lock()
	s.Calls = append(s.Calls, c)
	s.mu.Unlock()
}

func (s *VerifC14Scripted) SetVersion(addr string, tsid core.TractserverID, id core.TractID, newVersion int, conditionalStamp uint64) core.Error {
	s.rec(VerifC14Call{Kind: 2, TS: int(tsid), Tract: id, Version: newVersion, Stamp: conditionalStamp})
	return s.SetV(int(tsid), id, newVersion, conditionalStamp)
}
func (s *VerifC14Scripted) DelTract(addr string, tsid core.TractserverID, tid core.TractID) core.Error {
	s.rec(VerifC14Call{Kind: 5, TS: int(tsid), Tract: tid})
	return core.NoError
}
func (s *VerifC14Scripted) CtlStatTract(addr string, tsid core.TractserverID, id core.TractID, version int) core.StatTractReply {
	s.rec(VerifC14Call{Kind: 1, TS: int(tsid), Tract: id, Version: version})
	return s.Stat(int(tsid), id, version)
}
func (s *VerifC14Scripted) PackTracts(addr string, tsid core.TractserverID, length int, tracts []*core.PackTractSpec, id core.RSChunkID) core.Error {
	c := VerifC14Call{Kind: 3, TS: int(tsid), N: length, Chunk: id}
	for _, t := range tracts {
		c.Specs = append(c.Specs, *t)
	}
	s.rec(c)
	return s.Pack(int(tsid), id, c.Specs)
}
func (s *VerifC14Scripted) RSEncode(addr string, tsid core.TractserverID, id core.RSChunkID, length int, srcs, dests []core.TSAddr) core.Error {
	c := VerifC14Call{Kind: 4, TS: int(tsid), N: length, Chunk: id}
	for _, a := range srcs {
		c.Hosts = append(c.Hosts, a.ID)
	}
	for _, a := range dests {
		c.Hosts = append(c.Hosts, a.ID)
	}
	s.rec(c)
	return s.Encode(int(tsid), id)
}
func (s *VerifC14Scripted) AllocateTS(num int) ([]string, []core.TractserverID) {
	s.rec(VerifC14Call{Kind: 6, N: num})
	return s.AllocTS(num)
}
func (s *VerifC14Scripted) MarkPending(id core.RSChunkID, n int) {
	s.rec(VerifC14Call{Kind: 10, Chunk: id, N: n})
}
func (s *VerifC14Scripted) UnmarkPending(id core.RSChunkID, n int) {
	s.rec(VerifC14Call{Kind: 11, Chunk: id, N: n})
}
func (s *VerifC14Scripted) AllocateRSChunkIDs(n int) (core.RSChunkID, core.Error) {
	s.rec(VerifC14Call{Kind: 7, N: n})
	return s.AllocID(n)
}
func (s *VerifC14Scripted) CommitRSChunk(id core.RSChunkID, cls core.StorageClass, hosts []core.TractserverID, data [][]state.EncodedTract) core.Error {
	s.rec(VerifC14Call{Kind: 8, Chunk: id, N: int(cls), Hosts: append([]core.TractserverID(nil), hosts...), Data: data})
	return s.Commit(id, hosts, data)
}
func (s *VerifC14Scripted) SuggestFixVersion(id core.TractID, version int, badHost string) {
	s.rec(VerifC14Call{Kind: 9, Tract: id, Version: version, N: verifC14HostIdx(badHost)})
}

func verifC14HostIdx(h string) int {
	n := 0
	for _, ch := range h {
		if ch >= '0' && ch <= '9' {
			n = n*10 + int(ch-'0')
		}
	}
	return n
}

// VerifC14RunScripted runs the real packer life cycle (addTract*, doneAdding, packTracts, packChunks,
// waitForPacking) for class RS(n,m) against the scripted context and returns the number of committed
// chunks and the accepted layout.
func VerifC14RunScripted(s *VerifC14Scripted, cls core.StorageClass, target int, adds []VerifC14Add) (int, []VerifC14Chunk) {
	_, intm := verifOpms()
	c := storageclass.Get(cls)
	n, m := c.RSParams()
	tp := makeTractPacker(s, intm, cls, n, m, target)
	for _, a := range adds {
		tp.addTract(a.ID, a.From, a.Version)
	}
	tp.doneAdding()
	tp.packTracts()
	var chunks []VerifC14Chunk
	for _, ch := range tp.chunks {
		var vc VerifC14Chunk
		for _, t := range ch.tracts {
			vc.Tracts = append(vc.Tracts, *t)
		}
		chunks = append(chunks, vc)
	}
	tp.packChunks()
	return tp.waitForPacking(), chunks
}
