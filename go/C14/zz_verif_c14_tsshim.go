package tractserver

// C14 shim (overlay-only; injected as internal/tractserver/zz_verif_c14_shim.go next to the Cluster shim).

import "github.com/westerndigitalcorporation/blb/internal/core"

// C14StampBase returns the modification stamp a tract gets when this incarnation of the Store first
// learns about it (Store.initialStamp as tractData stores it: the upper bits are cut by the disk index).
func (t *VerifTS) C14StampBase() uint64 {
	return makeTractData(0, t.Store.initialStamp).stamp()
}

// C14Stamp returns the Store's current stamp of a tract (ok=false if the Store does not know it).
func (t *VerifTS) C14Stamp(id core.TractID) (uint64, bool) {
	t.Store.lock.Lock()
	defer t.Store.lock.Unlock()
	td, ok := t.Store.tracts[id]
	return td.stamp(), ok
}
