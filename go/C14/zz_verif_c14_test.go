package blb_test

// C14 harness (overlay; /verif/go/C14/zz_verif_c14_test.go injected as client/blb/zz_verif_c14_test.go).
// Integrated: real Stores, real curator incarnations on one durable state, the real client, the REAL
// tractPacker / storage-class round, every RPC and the two durable calls of a move parked at a
// deterministic scheduler (pkg/verifcluster + zz_verif_c14_driver.go).

import (
	"flag"
	"fmt"
	"os"
	"path/filepath"
	"runtime"
	"sort"
	"testing"

	vc "github.com/westerndigitalcorporation/blb/pkg/verifcluster"
	vw "github.com/westerndigitalcorporation/blb/pkg/verifwire"
)

func c14Finish(d *vc.C14, tr *vw.Trace, id string) {
	seen := map[string]bool{}
	for _, b := range d.Bads {
		if seen[b.Sig] {
			continue
		}
		seen[b.Sig] = true
		vw.Report(vw.Violation{Property: "C14", Signature: b.Sig, What: b.What, Case: id, Detail: b.Detail})
	}
	vw.Stat("cases", 1)
	vw.Stat("events", int64(len(d.Ops)))
	var ks []string
	for k := range d.Stats {
		ks = append(ks, k)
	}
	sort.Strings(ks)
	for _, k := range ks {
		vw.Stat(k, int64(d.Stats[k]))
	}
	d.WriteTrace(tr)
}

// c14Complete drives the move to its end: rounds until the classes are switched, then reads and a
// write that must be refused.
func c14Complete(d *vc.C14) {
	d.Quiesce()
	for k := 0; k < 4; k++ {
		d.HeartbeatAll()
		d.StartRound()
		d.Quiesce()
	}
	d.ReadAll()
	for _, b := range d.Blobs {
		d.OpenProbe(b.Idx)
		d.StartWrite(b.Idx, 0, 0, 10)
		d.Quiesce()
	}
	d.ReadAll()
}

func c14Case(root *vw.Rng, ci int, tr *vw.Trace) {
	id := fmt.Sprint(ci)
	r := root.Fork(uint64(ci))
	repl := r.PickInt(1, 2, 2, 2, 3, 3)
	nTS := r.PickInt(9, 9, 10)
	d := vc.NewC14(r, nTS, r.Chance(1, 2), id)
	defer d.Cl.Close()
	shapes := [][]int{{6}, {3, 3}, {2, 2, 2}, {7}, {4, 3}, {6, -1}, {1, 1, 1, 1, 1, 1}, {5}, {6, 6}}
	shape := shapes[r.Intn(len(shapes))]
	for _, nt := range shape {
		warm := nt > 0
		if nt < 0 {
			nt = -nt
		}
		lens := make([]int, nt)
		for i := range lens {
			lens[i] = r.Range(1, 300)
		}
		d.NewBlob(repl, nt, warm, lens)
	}
	w := vc.C14DefaultWeights()
	if r.Chance(1, 4) {
		w.PLose, w.PFail, w.PTwice, w.PPackFail = 0, 0, 0, 0
	}
	if r.Chance(1, 3) {
		w.Restart, w.Leader = 0, 0
	}
	steps := vw.Scale(r.Range(60, 160), r.Range(80, 400))
	d.RunRandom(w, steps)
	c14Complete(d)
	fp := fmt.Sprintf("%v/%d/%d/%d/%d", shape, repl, d.Stats["commit.applied"], d.Stats["write.acked"], d.Stats["class-switched"])
	if d.Stats["commit.applied"] > 0 && d.Stats["write.acked"] > 0 {
		vw.Distinct(fp)
	}
	if ci < 4 {
		vw.Sample(fmt.Sprintf("case %d: shape=%v repl=%d servers=%d events=%d commits=%d switched=%d acked=%d", ci, shape, repl, nTS, len(d.Ops), d.Stats["commit.applied"], d.Stats["class-switched"], d.Stats["write.acked"]))
	}
	c14Finish(d, tr, id)
}

// ---- directed witness schedules (DESIGN C14: F6, F13, F14) ----

func c14Directed(root *vw.Rng, tr *vw.Trace, id string, which int) {
	d := vc.NewC14(root.Fork(uint64(9000+which)), 9, false, id)
	defer d.Cl.Close()
	lens := []int{100, 120, 140, 160, 180, 200, 90}
	nt := 6
	if which == 14 {
		nt = 7 // one tract stays replicated: the blob stays in the commit-to-switch window
	}
	d.NewBlob(2, nt, true, lens[:nt])
	isPacker := func(r *vc.RPC) bool { return r.Client < 0 }
	isClient := func(r *vc.RPC) bool { return r.Client == 0 }
	switch which {
	case 6:
		// the move runs up to (not including) the metadata commit
		d.StartRound()
		d.DeliverWhere(func(r *vc.RPC) bool { return isPacker(r) && r.Kind != vc.KC14Commit })
		// a writer meets the bumped replicas, FixVersion commits v+1 on the same hosts
		d.StartWrite(0, 0, 10, 20)
		d.DeliverWhere(func(r *vc.RPC) bool { return isClient(r) || (r.Client < 0 && r.Kind == vc.KSetVersion) })
		// the writer looks the tract up again (v+1), writes, is acknowledged
		d.StartWrite(0, 0, 10, 20)
		d.DeliverWhere(isClient)
		// the commit still succeeds
		d.DeliverWhere(isPacker)
	case 13:
		hs := d.Hosts(0, 0)
		// an in-place write reaches the second replica only
		d.StartWrite(0, 0, 10, 20)
		d.DeliverWhere(func(r *vc.RPC) bool { return isClient(r) && r.Kind != vc.KWrite })
		d.StepOne(vc.ModeDeliver, func(r *vc.RPC) bool { return r.Kind == vc.KWrite && r.TS == hs[1] })
		// the packer cannot reach the first replica for the stat, stats the second one
		d.StartRound()
		d.StepOne(vc.ModeFail, func(r *vc.RPC) bool { return r.Kind == vc.KCtlStatTract && r.TS == hs[0] && d.BlobOf(r) == 0 && r.Tract == 0 })
		d.DeliverWhere(func(r *vc.RPC) bool { return isPacker(r) && (r.Kind == vc.KCtlStatTract || r.Kind == vc.KC14Alloc || r.Kind == vc.KPackTracts) })
		// PackTracts has read the first replica; now the write reaches it and is acknowledged
		d.DeliverWhere(isClient)
		d.DeliverWhere(isPacker)
	case 1:
		// regression for "moves abandoned": an outside bump and a write between pack and conditional bump
		d.StartRound()
		d.DeliverWhere(func(r *vc.RPC) bool { return isPacker(r) && r.Kind != vc.KSetVersion })
		d.StartFix(0, 0)
		d.DeliverWhere(func(r *vc.RPC) bool { return r.Client < 0 && r.Kind == vc.KSetVersion && r.Aux[1] == 0 })
		d.StartWrite(0, 0, 10, 20)
		d.DeliverWhere(isClient)
		d.DeliverWhere(isPacker)
	case 2:
		// regression for "stamps are reset by a restart": every tractserver restarts between stat and bump
		d.StartRound()
		d.DeliverWhere(func(r *vc.RPC) bool { return isPacker(r) && r.Kind != vc.KRSEncode })
		enc := 0
		for _, r := range d.Cl.S.Pending() {
			if r.Kind == vc.KRSEncode {
				enc = r.TS
			}
		}
		for i := 1; i <= 9; i++ {
			if i != enc { // restarting the server the RSEncode request waits at would only fail that request
				d.RestartTS(i)
			}
		}
		d.HeartbeatAll()
		d.DeliverWhere(isPacker)
	case 14:
		d.StartRound()
		d.DeliverWhere(isPacker)
		d.ReadAll()
		d.StartWrite(0, 0, 10, 20)
		d.DeliverWhere(isClient)
		d.ReadAll()
	}
	c14Complete(d)
	vw.Stat("directed", 1)
	c14Finish(d, tr, id)
}

func TestVerifC14(t *testing.T) {
	if !vw.Enabled() {
		t.Skip("verification harness: run through /verif/bin/check")
	}
	flag.Set("stderrthreshold", "FATAL")
	logdir := filepath.Join(vw.OutDir(), "glog")
	os.MkdirAll(logdir, 0o755)
	flag.Set("log_dir", logdir)
	old := runtime.GOMAXPROCS(1)
	defer runtime.GOMAXPROCS(old)

	root := vw.NewRng(vw.Seed())
	tr := vw.OpenTrace("C14.trace")
	defer tr.Close()
	defer vw.Finish("C14")
	for _, w := range []int{6, 13, 14, 1, 2} {
		if id := fmt.Sprintf("f%d", w); vw.CaseSelected(id) {
			c14Directed(root, tr, id, w)
		}
	}
	n := vw.Scale(30, 400)
	for ci := 0; ci < n; ci++ {
		if !vw.CaseSelected(fmt.Sprint(ci)) {
			continue
		}
		c14Case(root, ci, tr)
	}
}
