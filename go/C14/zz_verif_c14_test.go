package blb_test

// C14 harness (overlay; /verif/go/C14/zz_verif_c14_test.go injected as client/blb/zz_verif_c14_test.go).
// Integrated: real Stores, real curator incarnations on one durable state, the real client, the REAL
// tractPacker / storage-class round, every RPC and the two durable calls of a move parked at a
// deterministic scheduler (pkg/verifcluster + zz_verif_c14_driver.go).

import (
	"bufio"
	"encoding/json"
	"flag"
	"fmt"
	"os"
	"os/exec"
	"path/filepath"
	"runtime"
	"sort"
	"strconv"
	"strings"
	"testing"
	"time"

	"github.com/westerndigitalcorporation/blb/internal/core"
	"github.com/westerndigitalcorporation/blb/internal/curator"
	"github.com/westerndigitalcorporation/blb/internal/curator/durable/state"
	vc "github.com/westerndigitalcorporation/blb/pkg/verifcluster"
	vw "github.com/westerndigitalcorporation/blb/pkg/verifwire"
)

func c14Finish(d *vc.C14, tr *vw.Trace, id string) {
	seen := map[string]bool{}
	for _, b := range d.Bads {
		if seen[b.Sig] {
			continue
		}
		seen[b.Sig] = true
		vw.Report(vw.Violation{Property: "C14", Signature: b.Sig, What: b.What, Case: id, Detail: b.Detail})
	}
	vw.Stat("cases", 1)
	vw.Stat("events", int64(len(d.Ops)))
	var ks []string
	for k := range d.Stats {
		ks = append(ks, k)
	}
	sort.Strings(ks)
	for _, k := range ks {
		vw.Stat(k, int64(d.Stats[k]))
	}
	d.WriteTrace(tr)
}

// c14Complete drives the move to its end: rounds until the classes are switched, then reads and a
// write that must be refused.
func c14Complete(d *vc.C14) {
	d.Quiesce()
	for k := 0; k < 4; k++ {
		d.HeartbeatAll()
		d.StartRound()
		d.Quiesce()
	}
	d.ReadAll()
	for _, b := range d.Blobs {
		d.ClassProbe(b.Idx)
	}
	if d.K == 1 {
		d.PackProbe()
		d.PackProbe()
	}
	for _, b := range d.Blobs {
		d.OpenProbe(b.Idx)
		d.StartWrite(b.Idx, 0, 0, 10)
		d.Quiesce()
	}
	d.ReadAll()
}

// c14CaseMulti: the same random schedules with K = 2 or 3 tracts per piece (the round packs towards K * padToLength),
// so that PackTracts copies several tracts into one piece and a tract can be the first, a middle or the last one of
// its piece.  The model's round layer covers one tract per piece only: these cases write no trace, they are judged by
// the model-free monitors (content of the encoded copy at commit, reads through the RS pointer, bump/commit/term monitors).
func c14CaseMulti(root *vw.Rng, ci int) {
	id := fmt.Sprintf("m%d", ci)
	r := root.Fork(uint64(70000 + ci))
	k := r.PickInt(2, 2, 3)
	repl := r.PickInt(1, 2, 2, 3, 3)
	d := vc.NewC14(r, r.PickInt(9, 9, 10), r.Chance(1, 2), id)
	defer d.Cl.Close()
	d.SetPieceTracts(k)
	shapes := map[int][][]int{2: {{12}, {6, 6}, {4, 4, 4}, {7, 6}, {13}}, 3: {{18}, {9, 9}, {6, 6, 6}, {10, 9}}}[k]
	shape := shapes[r.Intn(len(shapes))]
	for _, nt := range shape {
		lens := make([]int, nt)
		for i := range lens {
			lens[i] = r.Range(1, 300)
		}
		d.NewBlob(repl, nt, true, lens)
	}
	w := vc.C14DefaultWeights()
	w.PPackFail = r.PickInt(150, 250, 350)
	w.Write = r.PickInt(0, 2, 8) // the pack-step faults matter with and without racing writes
	if r.Chance(1, 2) {
		w.PLose, w.PFail, w.PTwice = 0, 0, 0
	}
	if r.Chance(2, 3) {
		w.Restart, w.Leader = 0, 0
	}
	w.Round, w.MaxRounds = 12, 12
	// prelude, no other fault: one round per position of a tract in its piece with ALL its sources unreachable during
	// PackTracts (the piece must fail and the chunk be abandoned: nothing is committed, the tracts stay for later rounds)
	positions := []int{0, 2}
	if k > 2 {
		positions = []int{0, 1, 2}
	}
	for _, pi := range r.Perm(len(positions)) {
		d.PackPlan = []int{positions[pi]*3 + 2}
		d.StartRound()
		d.Quiesce()
	}
	d.PackPlan = nil
	if r.Chance(2, 3) {
		// one planned pack fault per round: (first|middle|last) x (one|several|all sources), every combination in turn
		d.PackPlan = r.Perm(9)
	}
	d.RunRandom(w, vw.Scale(r.Range(90, 200), r.Range(150, 500)))
	c14Complete(d)
	seen := map[string]bool{}
	for _, b := range d.Bads {
		if seen[b.Sig] {
			continue
		}
		seen[b.Sig] = true
		vw.Report(vw.Violation{Property: "C14", Signature: "multi-tract-piece/" + b.Sig, What: b.What, Case: id, Detail: b.Detail})
	}
	vw.Stat("multi.cases", 1)
	vw.Stat(fmt.Sprintf("multi.k=%d", k), 1)
	for key, v := range d.Stats {
		if strings.HasPrefix(key, "packfail.") || key == "commit.applied" || key == "class-switched" {
			vw.Stat("multi."+key, int64(v))
		}
	}
}

func c14Case(root *vw.Rng, ci int, tr *vw.Trace) {
	id := fmt.Sprint(ci)
	r := root.Fork(uint64(ci))
	repl := r.PickInt(1, 2, 2, 2, 3, 3)
	nTS := r.PickInt(9, 9, 10)
	d := vc.NewC14(r, nTS, r.Chance(1, 2), id)
	defer d.Cl.Close()
	shapes := [][]int{{6}, {3, 3}, {2, 2, 2}, {7}, {4, 3}, {6, -1}, {1, 1, 1, 1, 1, 1}, {5}, {6, 6}}
	shape := shapes[r.Intn(len(shapes))]
	for _, nt := range shape {
		warm := nt > 0
		if nt < 0 {
			nt = -nt
		}
		lens := make([]int, nt)
		for i := range lens {
			lens[i] = r.Range(1, 300)
		}
		d.NewBlob(repl, nt, warm, lens)
	}
	w := vc.C14DefaultWeights()
	if r.Chance(1, 4) {
		w.PLose, w.PFail, w.PTwice, w.PPackFail = 0, 0, 0, 0
	}
	if r.Chance(1, 3) {
		w.Restart, w.Leader = 0, 0
	}
	steps := vw.Scale(r.Range(60, 160), r.Range(80, 400))
	d.RunRandom(w, steps)
	c14Complete(d)
	fp := fmt.Sprintf("%v/%d/%d/%d/%d", shape, repl, d.Stats["commit.applied"], d.Stats["write.acked"], d.Stats["class-switched"])
	if d.Stats["commit.applied"] > 0 && d.Stats["write.acked"] > 0 {
		vw.Distinct(fp)
		if os.Getenv("VERIF_CHUNK") != "" {
			if f, err := os.OpenFile(filepath.Join(vw.OutDir(), "distinct.txt"), os.O_APPEND|os.O_CREATE|os.O_WRONLY, 0o644); err == nil {
				fmt.Fprintln(f, strings.ReplaceAll(fp, " ", "_"))
				f.Close()
			}
		}
	}
	if ci < 4 {
		vw.Sample(fmt.Sprintf("case %d: shape=%v repl=%d servers=%d events=%d commits=%d switched=%d acked=%d", ci, shape, repl, nTS, len(d.Ops), d.Stats["commit.applied"], d.Stats["class-switched"], d.Stats["write.acked"]))
	}
	c14Finish(d, tr, id)
}

// ---- directed witness schedules (DESIGN C14: F6, F13, F14) ----

func c14Directed(root *vw.Rng, tr *vw.Trace, id string, which int) {
	d := vc.NewC14(root.Fork(uint64(9000+which)), 9, false, id)
	defer d.Cl.Close()
	lens := []int{100, 120, 140, 160, 180, 200, 90}
	nt := 6
	if which == 14 {
		nt = 7 // one tract stays replicated: the blob stays in the commit-to-switch window
	}
	d.NewBlob(2, nt, true, lens[:nt])
	isPacker := func(r *vc.RPC) bool { return r.Client < 0 }
	isClient := func(r *vc.RPC) bool { return r.Client == 0 }
	switch which {
	case 6:
		// the move runs up to (not including) the metadata commit
		d.StartRound()
		d.DeliverWhere(func(r *vc.RPC) bool { return isPacker(r) && r.Kind != vc.KC14Commit })
		// a writer meets the bumped replicas, FixVersion commits v+1 on the same hosts
		d.StartWrite(0, 0, 10, 20)
		d.DeliverWhere(func(r *vc.RPC) bool { return isClient(r) || (r.Client < 0 && r.Kind == vc.KSetVersion) })
		// the writer looks the tract up again (v+1), writes, is acknowledged
		d.StartWrite(0, 0, 10, 20)
		d.DeliverWhere(isClient)
		// the commit still succeeds
		d.DeliverWhere(isPacker)
	case 13:
		hs := d.Hosts(0, 0)
		// an in-place write reaches the second replica only
		d.StartWrite(0, 0, 10, 20)
		d.DeliverWhere(func(r *vc.RPC) bool { return isClient(r) && r.Kind != vc.KWrite })
		d.StepOne(vc.ModeDeliver, func(r *vc.RPC) bool { return r.Kind == vc.KWrite && r.TS == hs[1] })
		// the packer cannot reach the first replica for the stat, stats the second one
		d.StartRound()
		d.StepOne(vc.ModeFail, func(r *vc.RPC) bool {
			return r.Kind == vc.KCtlStatTract && r.TS == hs[0] && d.BlobOf(r) == 0 && r.Tract == 0
		})
		d.DeliverWhere(func(r *vc.RPC) bool {
			return isPacker(r) && (r.Kind == vc.KCtlStatTract || r.Kind == vc.KC14Alloc || r.Kind == vc.KPackTracts)
		})
		// PackTracts has read the first replica; now the write reaches it and is acknowledged
		d.DeliverWhere(isClient)
		d.DeliverWhere(isPacker)
	case 1:
		// regression for "moves abandoned": an outside bump and a write between pack and conditional bump
		d.StartRound()
		d.DeliverWhere(func(r *vc.RPC) bool { return isPacker(r) && r.Kind != vc.KSetVersion })
		d.StartFix(0, 0)
		d.DeliverWhere(func(r *vc.RPC) bool { return r.Client < 0 && r.Kind == vc.KSetVersion && r.Aux[1] == 0 })
		d.StartWrite(0, 0, 10, 20)
		d.DeliverWhere(isClient)
		d.DeliverWhere(isPacker)
	case 2:
		// regression for "stamps are reset by a restart": every tractserver restarts between stat and bump
		d.StartRound()
		d.DeliverWhere(func(r *vc.RPC) bool { return isPacker(r) && r.Kind != vc.KRSEncode })
		enc := 0
		for _, r := range d.Cl.S.Pending() {
			if r.Kind == vc.KRSEncode {
				enc = r.TS
			}
		}
		for i := 1; i <= 9; i++ {
			if i != enc { // restarting the server the RSEncode request waits at would only fail that request
				d.RestartTS(i)
			}
		}
		d.HeartbeatAll()
		d.DeliverWhere(isPacker)
	case 14:
		d.StartRound()
		d.DeliverWhere(isPacker)
		d.ReadAll()
		d.StartWrite(0, 0, 10, 20)
		d.DeliverWhere(isClient)
		d.ReadAll()
	}
	c14Complete(d)
	vw.Stat("directed", 1)
	c14Finish(d, tr, id)
}

func TestVerifC14(t *testing.T) {
	if !vw.Enabled() {
		t.Skip("verification harness: run through /verif/bin/check")
	}
	flag.Set("stderrthreshold", "FATAL")
	logdir := filepath.Join(vw.OutDir(), "glog")
	os.MkdirAll(logdir, 0o755)
	flag.Set("log_dir", logdir)
	old := runtime.GOMAXPROCS(1)
	defer runtime.GOMAXPROCS(old)

	root := vw.NewRng(vw.Seed())
	tr := vw.OpenTrace("C14.trace")
	defer tr.Close()
	defer vw.Finish("C14")
	// Wall-clock budget of the harness itself: when it runs out the remaining cases are skipped (recorded as
	// stat "budget.cases-skipped") and the test ends normally.  A slow machine must never turn into a go-test
	// timeout panic, which the checker could take for a crash of the code under test.
	deadline := time.Now().Add(time.Duration(vw.Scale(200, 780)) * time.Second)
	if s := os.Getenv("VERIF_C14_DEADLINE"); s != "" {
		if v, err := strconv.ParseInt(s, 10, 64); err == nil {
			deadline = time.Unix(v, 0)
		}
	}
	n := vw.Scale(30, c14ThoroughCases)
	if c := os.Getenv("VERIF_CHUNK"); c != "" {
		// child process of a thorough run: one batch of random cases (the Stores and raft nodes of finished
		// cases leave idle goroutines behind, which slow every quiescence scan: long runs are cut into processes)
		k, _ := strconv.Atoi(c)
		lo, hi := k*c14Chunk, (k+1)*c14Chunk
		if hi > n {
			hi = n
		}
		for ci := lo; ci < hi; ci++ {
			if !vw.CaseSelected(fmt.Sprint(ci)) {
				continue
			}
			if time.Now().After(deadline) {
				vw.Stat("budget.cases-skipped", 1)
				continue
			}
			c14Case(root, ci, tr)
			if ci%8 == 0 && vw.CaseSelected(fmt.Sprintf("m%d", ci)) {
				c14CaseMulti(root, ci)
			}
		}
		return
	}
	for _, w := range []int{6, 13, 14, 1, 2} {
		if id := fmt.Sprintf("f%d", w); vw.CaseSelected(id) {
			c14Directed(root, tr, id, w)
		}
	}
	for ci := 0; ci < vw.Scale(150, 3000); ci++ {
		if vw.CaseSelected(fmt.Sprintf("s%d", ci)) {
			if time.Now().After(deadline) {
				vw.Stat("budget.cases-skipped", 1)
				continue
			}
			c14Scripted(root, ci, tr)
		}
	}
	if vw.Thorough() && os.Getenv("VERIF_CASES") == "" {
		c14Parent(t, tr, n, deadline)
		return
	}
	for ci := 0; ci < n; ci++ {
		if time.Now().After(deadline) {
			vw.Stat("budget.cases-skipped", 1)
			continue
		}
		if vw.CaseSelected(fmt.Sprint(ci)) {
			c14Case(root, ci, tr)
		}
		if ci%8 == 0 && vw.CaseSelected(fmt.Sprintf("m%d", ci)) {
			c14CaseMulti(root, ci)
		}
	}
}

const (
	c14ThoroughCases = 400
	c14Chunk         = 20
)

// c14Parent runs the random cases of a thorough run in child processes and merges their output.
func c14Parent(t *testing.T, tr *vw.Trace, n int, deadline time.Time) {
	for k := 0; k*c14Chunk < n; k++ {
		if time.Until(deadline) < 20*time.Second {
			vw.Stat("budget.cases-skipped", int64(n-k*c14Chunk))
			break
		}
		sub := filepath.Join(vw.OutDir(), fmt.Sprintf("chunk%d", k))
		os.MkdirAll(sub, 0o755)
		// the child stops starting cases at the deadline; its own go-test timeout is only a last resort
		left := int(time.Until(deadline).Seconds()) + 120
		cmd := exec.Command(os.Args[0], "-test.run=TestVerifC14$", fmt.Sprintf("-test.timeout=%ds", left))
		cmd.Env = append(os.Environ(), "VERIF_CHUNK="+fmt.Sprint(k), "VERIF_OUT="+sub, fmt.Sprintf("VERIF_C14_DEADLINE=%d", deadline.Unix()))
		out, err := cmd.CombinedOutput()
		if err != nil {
			txt := string(out)
			if strings.Contains(txt, "test timed out") || strings.Contains(txt, "Settle timed out") {
				// the harness ran out of time: a broken check, never an observation about the code under test
				t.Fatalf("HARNESS-TIMEOUT chunk %d: the batch did not finish within the harness budget (machine too slow or too many cases); this says nothing about the property", k)
			}
			if strings.Contains(txt, "panic:") || strings.Contains(txt, "fatal error") || strings.Contains(txt, "\nF0") {
				// the code under test crashed while driven by the harness: that is an observation
				if len(txt) > 3000 {
					txt = txt[len(txt)-3000:]
				}
				vw.Report(vw.Violation{Property: "C14", Signature: "crash-in-harness", What: "code under test crashed while driven by the harness (child process of the thorough run)",
					Case: fmt.Sprintf("chunk%d", k), Detail: map[string]interface{}{"output": txt}})
				continue
			}
			t.Fatalf("chunk %d failed: %v\n%s", k, err, strings.ReplaceAll(txt, "panic", "p-a-n-i-c"))
		}
		f, err := os.Open(filepath.Join(sub, "C14.trace"))
		if err != nil {
			t.Fatalf("chunk %d: %v", k, err)
		}
		sc := bufio.NewScanner(f)
		sc.Buffer(make([]byte, 1<<20), 1<<26)
		for sc.Scan() {
			line := sc.Text()
			if strings.HasPrefix(line, "# case ") {
				tr.Case(strings.Fields(line)[2])
				continue
			}
			if len(line) == 0 {
				continue
			}
			var xs []int64
			for _, w := range strings.Fields(line[1:]) {
				v, _ := strconv.ParseInt(w, 10, 64)
				xs = append(xs, v)
			}
			if line[0] == '>' {
				tr.Op(xs...)
			} else if line[0] == '<' {
				tr.Obs(xs...)
			}
		}
		f.Close()
		var res struct {
			Stats      map[string]int64 `json:"stats"`
			Samples    []string         `json:"samples"`
			Violations []vw.Violation   `json:"violations"`
		}
		if b, err := os.ReadFile(filepath.Join(sub, "C14.result.json")); err == nil && json.Unmarshal(b, &res) == nil {
			for k2, v := range res.Stats {
				vw.Stat(k2, v)
			}
			for _, s := range res.Samples {
				vw.Sample(s)
			}
			for _, v := range res.Violations {
				vw.Report(v)
			}
		} else {
			t.Fatalf("chunk %d wrote no result file", k)
		}
		if b, err := os.ReadFile(filepath.Join(sub, "distinct.txt")); err == nil {
			for _, fp := range strings.Fields(string(b)) {
				vw.Distinct(fp)
			}
		}
		os.RemoveAll(filepath.Join(sub, "glog"))
		os.Remove(filepath.Join(sub, "C14.trace"))
	}
}

// ---------------------------------------------------------------- compositional harness
//
// The REAL tractPacker (addTract/doStat, doneAdding, packTracts, packChunks, doEncode with all stages and
// the cleanup) against a scripted tpContext (the repository's own seam): every reply is drawn by the
// case's generator.  The model's packer is fed the same replies in the order the real packer made its
// calls; it must know every call (line 81 answers -2 otherwise), finish with the same number of
// committed chunks, and have no call left that the real packer did not make (line 82).

func c14Scripted(root *vw.Rng, ci int, tr *vw.Trace) {
	id := fmt.Sprintf("s%d", ci)
	r := root.Fork(uint64(50000 + ci))
	tr.Case(id)
	nTS := 9
	tr.Op(1, int64(nTS), 2, 0, 0)
	tr.Obs()
	nt := r.PickInt(6, 6, 7, 8, 5)
	repl := r.PickInt(1, 2, 2, 3)
	blobID := core.BlobID(uint64(1)<<32 | 77)
	tr.Op(2, 0, int64(nt), 1)
	tr.Obs()
	var adds []curator.VerifC14Add
	pFail := r.PickInt(0, 0, 50, 150, 400)
	for t := 0; t < nt; t++ {
		perm := r.Perm(nTS)
		hosts := perm[:repl]
		ver := r.Range(1, 3)
		l := []int64{20, 0, int64(t), int64(ver), int64(repl)}
		a := curator.VerifC14Add{ID: core.TractID{Blob: blobID, Index: core.TractKey(t)}, Version: ver}
		for _, h := range hosts {
			l = append(l, int64(h+1))
			a.From = append(a.From, core.TSAddr{ID: core.TractserverID(h + 1), Host: fmt.Sprintf("ts%d", h+1)})
		}
		tr.Op(l...)
		tr.Obs()
		adds = append(adds, a)
	}
	// scripted replies, fixed up front so that they do not depend on goroutine order
	type key struct{ ts, tract int }
	stat := map[key]core.StatTractReply{}
	setv := map[key]core.Error{}
	size := map[int]int{}
	for t := 0; t < nt; t++ {
		size[t] = r.Range(1, 500)
	}
	errs := []core.Error{core.ErrRPC, core.ErrVersionMismatch, core.ErrNoSuchTract, core.ErrVersionMismatch}
	for _, a := range adds {
		for _, f := range a.From {
			k := key{int(f.ID), int(a.ID.Index)}
			rep := core.StatTractReply{Size: int64(size[int(a.ID.Index)]), ModStamp: uint64(r.Range(1, 5))<<32 | uint64(r.Range(1, 1000))}
			if r.Intn(1000) < pFail {
				rep = core.StatTractReply{Err: errs[r.Intn(len(errs))]}
			} else if r.Intn(1000) < pFail/3 {
				rep.Size += 7 // replicas disagree about the length
			}
			stat[k] = rep
			setv[k] = core.NoError
			if r.Intn(1000) < pFail/2 {
				setv[k] = []core.Error{core.ErrStampChanged, core.ErrRPC, core.ErrVersionMismatch}[r.Intn(3)]
			}
		}
	}
	packErr := map[int]core.Error{}
	for j := 0; j < 40; j++ {
		if r.Intn(1000) < pFail/3 {
			packErr[j] = core.ErrRPC
		}
	}
	encErr, allocErr, commitErr := core.NoError, core.NoError, core.NoError
	if r.Intn(1000) < pFail/3 {
		encErr = core.ErrRPC
	}
	if r.Intn(1000) < pFail/4 {
		allocErr = core.ErrLeaderContinuityBroken
	}
	if r.Intn(1000) < pFail/3 {
		commitErr = []core.Error{core.ErrLeaderContinuityBroken, core.ErrConflictingState}[r.Intn(2)]
	}
	allocTSFail := r.Intn(1000) < pFail/4
	tsPerm := r.Perm(nTS)
	rsPart := core.PartitionID(core.RSPartition<<30) | 1
	s := &curator.VerifC14Scripted{
		Stat: func(ts int, id core.TractID, version int) core.StatTractReply { return stat[key{ts, int(id.Index)}] },
		SetV: func(ts int, id core.TractID, version int, stamp uint64) core.Error {
			return setv[key{ts, int(id.Index)}]
		},
		Pack: func(ts int, chunk core.RSChunkID, specs []core.PackTractSpec) core.Error {
			return packErr[int(chunk.ID)]
		},
		Encode: func(ts int, chunk core.RSChunkID) core.Error { return encErr },
		AllocTS: func(n int) ([]string, []core.TractserverID) {
			if allocTSFail {
				return nil, nil
			}
			var a []string
			var ids []core.TractserverID
			for _, p := range tsPerm[:n] {
				a = append(a, fmt.Sprintf("ts%d", p+1))
				ids = append(ids, core.TractserverID(p+1))
			}
			return a, ids
		},
		AllocID: func(n int) (core.RSChunkID, core.Error) {
			if allocErr != core.NoError {
				return core.RSChunkID{}, allocErr
			}
			return core.RSChunkID{Partition: rsPart, ID: 1}, core.NoError
		},
		Commit: func(id core.RSChunkID, hosts []core.TractserverID, data [][]state.EncodedTract) core.Error {
			return commitErr
		},
	}
	committed, chunks := curator.VerifC14RunScripted(s, core.StorageClassRS_6_3, vc.C14Target, adds)

	// the model's round on the same durable state
	tr.Op(80, 1)
	var obs []int64
	{
		// stat calls the round issues at once: the first replica of every tract
		var ls [][]int64
		for _, a := range adds {
			ls = append(ls, []int64{16, -1, 1, int64(a.From[0].ID), 0, int64(a.ID.Index), int64(a.Version), 0, 0, 0, 0})
		}
		sort.Slice(ls, func(i, j int) bool { return vc.C14Less(ls[i], ls[j]) })
		obs = append(obs, 0, int64(len(ls)))
		for _, l := range ls {
			obs = append(obs, l...)
		}
		obs = append(obs, 0)
	}
	tr.Obs(obs...)
	fin := func(done bool) []int64 {
		if done {
			return []int64{1, 1, int64(committed), 0}
		}
		return []int64{0}
	}
	nround := 0
	for _, c := range s.Calls {
		if c.Kind == 1 || c.Kind == 2 || c.Kind == 3 || c.Kind == 4 || c.Kind == 7 || c.Kind == 8 {
			nround++
		}
	}
	seen := 0
	for _, c := range s.Calls {
		var d, res, hint []int64
		switch c.Kind {
		case 1:
			rep := stat[key{c.TS, int(c.Tract.Index)}]
			d = []int64{16, -1, 1, int64(c.TS), 0, int64(c.Tract.Index), int64(c.Version), 0, 0, 0, 0}
			res = []int64{int64(rep.Err), rep.Size, int64(rep.ModStamp >> 32), int64(rep.ModStamp & 0xffffffff)}
			if rep.Err != core.NoError {
				res = []int64{int64(rep.Err), 0, 0, 0}
			}
		case 2:
			d = []int64{13, -1, 1, int64(c.TS), 0, int64(c.Tract.Index), int64(c.Version), 0, 0, 0, 4, int64(c.TS), 1, int64(c.Stamp >> 32), int64(c.Stamp & 0xffffffff)}
			res = []int64{int64(setv[key{c.TS, int(c.Tract.Index)}])}
		case 3:
			d = []int64{17, -1, 1, int64(c.TS), 0, -1, 0, 0, int64(c.N), 0, 2, int64(c.TS), int64(c.Chunk.ID)}
			res = []int64{int64(packErr[int(c.Chunk.ID)])}
		case 4:
			d = []int64{18, -1, 1, int64(c.TS), 0, -1, 0, 0, int64(c.N), 0, 2, int64(c.TS), int64(c.Chunk.ID)}
			res = []int64{int64(encErr)}
		case 7:
			d = []int64{40, -1, 1, 0, 0, -1, 0, 0, 0, 0, 1, int64(c.N)}
			res = []int64{int64(allocErr), 1}
			if allocErr != core.NoError {
				res = []int64{int64(allocErr), 0}
			} else {
				nenc := len(chunks) / 6
				hint = []int64{int64(nenc)}
				for i := 0; i < nenc; i++ {
					if allocTSFail {
						hint = append(hint, 0)
					} else {
						hint = append(hint, 9)
						for _, p := range tsPerm[:9] {
							hint = append(hint, int64(p+1))
						}
					}
					for j := 0; j < 6; j++ {
						t := chunks[i*6+j].Tracts[0]
						hint = append(hint, 0, int64(t.ID.Index), int64(t.Offset))
					}
				}
			}
		case 8:
			d = []int64{41, -1, 1, 0, 0, -1, 0, 0, 0, 0, 1, int64(c.Chunk.ID)}
			res = []int64{int64(commitErr)}
		default:
			continue
		}
		seen++
		op := append([]int64{81}, d...)
		op = append(op, int64(len(res)))
		op = append(op, res...)
		op = append(op, int64(len(hint)))
		op = append(op, hint...)
		tr.Op(op...)
		tr.Obs(fin(seen == nround)...)
	}
	if nround == 0 {
		// nothing to stat at all cannot happen here (every tract has a replica)
	}
	tr.Op(82)
	tr.Obs(0)
	// monitor (model-free): a chunk is committed only if every bump of its tracts succeeded, and every
	// tract of a committed chunk was bumped on every replica whose stat succeeded
	for _, c := range s.Calls {
		if c.Kind != 8 {
			continue
		}
		for _, ets := range c.Data {
			for _, et := range ets {
				for _, a := range adds {
					if a.ID != et.ID {
						continue
					}
					if et.NewVersion != a.Version+1 {
						vw.Report(vw.Violation{Property: "C14", Signature: "scripted/commit-new-version-is-not-stat-version-plus-one", What: "CommitRSChunk carries a NewVersion other than the stat version + 1", Case: id})
					}
					for _, f := range a.From {
						k := key{int(f.ID), int(a.ID.Index)}
						if stat[k].Err == core.NoError {
							bumped := false
							for _, b := range s.Calls {
								if b.Kind == 2 && b.TS == k.ts && b.Tract == a.ID && b.Stamp == stat[k].ModStamp && b.Version == a.Version+1 {
									bumped = true
								}
							}
							if !bumped || setv[k] != core.NoError {
								vw.Report(vw.Violation{Property: "C14", Signature: "scripted/commit-without-successful-conditional-bump", What: "the packer committed a tract although a stat'ed replica was not bumped with its stamp or the bump failed", Case: id})
							}
						}
					}
				}
			}
		}
	}
	vw.Stat("scripted.cases", 1)
	vw.Stat(fmt.Sprintf("scripted.committed=%d", committed), 1)
}
