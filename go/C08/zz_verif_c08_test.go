package disk

// C08 harness (injected by `go test -overlay`; lives in /verif, never in /repo).
// Drives the real ChecksumFile on a real file (tmpfs when available) with generated op sequences whose offsets and
// lengths straddle the 64 KiB block boundaries, caller buffers with and without spare capacity, raw tampering
// (bit bursts, truncation), and records for the extracted Coq model:
//   every result, and after every mutation the RAW on-disk bytes (run-length encoded).
// Monitors (model-free): a plain []byte shadow file; corruption-detection clauses after tampering; an exhaustive
// burst sweep over small files.
//
// wire ops:  1 off RLE        WriteAt      -> n err rawRLE
//            2 off len cap    ReadAt       -> n err dataRLE
//            3 whence off     Seek         -> ret err pos
//            4 len cap        Read         -> n err pos dataRLE
//            5 RLE            Write        -> n err pos rawRLE
//            6                Size         -> size err
//            7                Scrub        -> bytes err
//            8 flags          Reopen       -> 0
//            9 rawbit pat     TamperXor    -> rawRLE
//            10 rawlen        TamperTrunc  -> rawRLE
//            11               Check        -> 777 1   (the model computes the refinement verdict)

import (
	"bytes"
	"fmt"
	"io"
	"os"
	"path/filepath"
	"syscall"
	"testing"

	vw "github.com/westerndigitalcorporation/blb/pkg/verifwire"
)

const (
	c08DL = int64(blockDataLength)
	c08BL = int64(blockLength)
	c08CL = int64(blockChecksumLength)
)

func c08err(e error) int64 {
	switch e {
	case nil:
		return 0
	case io.EOF:
		return 1
	case ErrCorruptData:
		return 2
	case ErrInvalidOffset:
		return 3
	case syscall.ENOSPC:
		return 5
	}
	return 4
}

// c08qfile wraps the real file object (mockFile, injected through osFileOpener) with a space quota: bytes that
// overwrite existing bytes or fall into a hole always succeed, bytes that extend the file consume e.free; when it is
// used up the write is short and returns ENOSPC like os.File.WriteAt on a full disk. Truncation gives bytes back.
type c08qfile struct {
	mockFile
	e *c08env
}

func (q *c08qfile) WriteAt(b []byte, off int64) (int, error) {
	if q.e.free < 0 {
		return q.mockFile.WriteAt(b, off)
	}
	st, err := q.mockFile.Stat()
	if err != nil {
		return 0, err
	}
	base := st.Size()
	if off > base {
		base = off
	}
	need := off + int64(len(b)) - base
	if need < 0 {
		need = 0
	}
	if need <= q.e.free {
		q.e.free -= need
		return q.mockFile.WriteAt(b, off)
	}
	n := int64(len(b)) - (need - q.e.free)
	q.e.free = 0
	if n > 0 {
		if m, err := q.mockFile.WriteAt(b[:n], off); err != nil {
			return m, err
		}
	}
	vw.Stat("quota.short-writes", 1)
	return int(n), &os.PathError{Op: "write", Path: q.e.path, Err: syscall.ENOSPC}
}

func (q *c08qfile) Truncate(size int64) error {
	if q.e.free >= 0 {
		if st, err := q.mockFile.Stat(); err == nil && st.Size() > size {
			q.e.free += st.Size() - size
		}
		vw.Stat("quota.truncates", 1)
	}
	return q.mockFile.Truncate(size)
}

type c08env struct {
	t      *testing.T
	tr     *vw.Trace
	r      *vw.Rng
	id     string
	path   string
	f      *ChecksumFile
	shadow []byte // the plain file the property compares with
	spos   int64
	monOn  bool // plain-file monitor active (off after non-restored tampering)
	seq    int
	cost   int64 // estimated bytes the model has to CRC
	ops    []string
	class  int
	free   int64 // space quota of the file-object wrapper; < 0 = unlimited
}

func (e *c08env) report(sig, what string, detail map[string]interface{}) {
	if detail == nil {
		detail = map[string]interface{}{}
	}
	detail["ops"] = e.ops
	vw.Report(vw.Violation{Property: "C08", Signature: sig, What: what, Case: e.id, Detail: detail})
}

func (e *c08env) raw() []byte {
	b, err := os.ReadFile(e.path)
	if err != nil {
		e.t.Fatalf("c08: cannot read raw file: %v", err)
	}
	return b
}

func (e *c08env) note(s string) { e.ops = append(e.ops, s) }

// content reads the whole user-visible content through the implementation (slow path), untraced.
func (e *c08env) content() ([]byte, error) {
	sz, err := e.f.Size()
	if err != nil {
		return nil, err
	}
	b := make([]byte, sz)
	n, err := e.f.ReadAt(b, 0)
	if err != nil {
		return b[:n], err
	}
	return b, nil
}

// resync re-bases the shadow on the implementation after a reported divergence.
func (e *c08env) resync() {
	c, err := e.content()
	if err != nil {
		e.monOn = false
		return
	}
	e.shadow = c
	e.spos = e.f.pos
}

// afterMutation: the file must hold exactly the plain file's bytes (size and content).
func (e *c08env) afterMutation(op, class string) {
	if !e.monOn {
		return
	}
	sz, err := e.f.Size()
	if err != nil || sz != int64(len(e.shadow)) {
		e.report("plain:"+op+":size:"+class, fmt.Sprintf("after %s (%s) the checksummed file's size differs from an ordinary file's", op, class),
			map[string]interface{}{"size": sz, "err": fmt.Sprint(err), "plain_size": len(e.shadow)})
		e.resync()
		return
	}
	c, err := e.content()
	if err != nil || !bytes.Equal(c, e.shadow) {
		e.report("plain:"+op+":content:"+class, fmt.Sprintf("after %s (%s) the checksummed file's content differs from an ordinary file's", op, class),
			map[string]interface{}{"err": fmt.Sprint(err), "first_diff": c08firstDiff(c, e.shadow)})
		e.resync()
	}
}

func c08firstDiff(a, b []byte) int {
	n := len(a)
	if len(b) < n {
		n = len(b)
	}
	for i := 0; i < n; i++ {
		if a[i] != b[i] {
			return i
		}
	}
	if len(a) != len(b) {
		return n
	}
	return -1
}

func (e *c08env) writeClass(off int64, n int) string {
	size := int64(len(e.shadow))
	switch {
	case n == 0 && off > size:
		return "empty-write-beyond-eof"
	case n == 0:
		return "empty-write"
	case off > size:
		return "beyond-eof"
	case off == size:
		return "at-eof"
	case off+int64(n) > size:
		return "straddling-eof"
	}
	return "inside"
}

func (e *c08env) shadowWrite(off int64, d []byte) {
	if len(d) == 0 {
		return
	}
	for int64(len(e.shadow)) < off {
		e.shadow = append(e.shadow, make([]byte, off-int64(len(e.shadow)))...)
	}
	end := off + int64(len(d))
	if end > int64(len(e.shadow)) {
		e.shadow = append(e.shadow, make([]byte, end-int64(len(e.shadow)))...)
	}
	copy(e.shadow[off:end], d)
}

func (e *c08env) shadowRead(off int64, n int) ([]byte, int64) {
	size := int64(len(e.shadow))
	if off >= size {
		if n == 0 {
			return nil, 0
		}
		return nil, 1
	}
	end := off + int64(n)
	ec := int64(0)
	if end > size {
		end = size
		ec = 1
	}
	return e.shadow[off:end], ec
}

// blocks touched estimate for the model's CRC cost
func (e *c08env) addCost(off, n int64, factor int64) {
	if n <= 0 {
		return
	}
	size := int64(len(e.shadow))
	for k := off / c08DL; k <= (off+n-1)/c08DL; k++ {
		bl := size - k*c08DL
		if bl > c08DL {
			bl = c08DL
		}
		if bl < 0 {
			bl = 0
		}
		e.cost += factor * bl
	}
}

func (e *c08env) mkdata(n int) []byte {
	e.seq++
	v := byte(e.seq*7 + 1)
	if v == 0 {
		v = 9
	}
	d := bytes.Repeat([]byte{v}, n)
	if n > 0 {
		d[0] = v + 1
		d[n-1] = v + 2
		d[e.r.Intn(n)] = v + 3
	}
	return d
}

// ---- traced operations ----

func (e *c08env) opWriteAt(off int64, d []byte) {
	cls := e.writeClass(off, len(d))
	e.note(fmt.Sprintf("WriteAt(off=%d,len=%d)", off, len(d)))
	size := int64(len(e.shadow))
	if off > size {
		e.addCost(size, off-size, 1)
	}
	e.addCost(off, int64(len(d)), 2)
	var op vw.L
	op.Add(1, off)
	op.Add(vw.RLE(d)...)
	e.tr.Op(op...)
	n, err := e.f.WriteAt(d, off)
	var ob vw.L
	ob.Add(int64(n), c08err(err))
	ob.Add(vw.RLE(e.raw())...)
	e.tr.Obs(ob...)
	vw.Stat("op.writeat."+cls, 1)
	vw.Stat(fmt.Sprintf("err.writeat=%d", c08err(err)), 1)
	if e.monOn {
		e.shadowWrite(off, d)
		if n != len(d) || err != nil {
			e.report("plain:writeat:result:"+cls, "WriteAt on a sound checksummed file did not report (len, nil) like an ordinary file",
				map[string]interface{}{"n": n, "err": fmt.Sprint(err), "len": len(d)})
		}
		e.afterMutation("writeat", cls)
	}
}

func c08readClass(off int64, n, cp int, size int64) string {
	s := "slow"
	if cp >= blockLength {
		s = "sparecap"
	}
	switch {
	case off >= size:
		return s + "-at-or-past-eof"
	case off+int64(n) > size:
		return s + "-short"
	}
	return s + "-full"
}

func (e *c08env) checkRead(op string, off int64, want int, cp int, n int, err error, got []byte) {
	if !e.monOn {
		return
	}
	cls := c08readClass(off, want, cp, int64(len(e.shadow)))
	exp, ec := e.shadowRead(off, want)
	if n != len(exp) || c08err(err) != ec {
		e.report("plain:"+op+":result:"+cls, op+" returned a different (count, error) than an ordinary file",
			map[string]interface{}{"off": off, "len": want, "cap": cp, "n": n, "err": fmt.Sprint(err), "plain_n": len(exp), "plain_err": ec})
		return
	}
	if !bytes.Equal(got[:n], exp) {
		e.report("plain:"+op+":data:"+cls, op+" returned bytes different from an ordinary file's",
			map[string]interface{}{"off": off, "len": want, "cap": cp, "first_diff": c08firstDiff(got[:n], exp)})
	}
}

func (e *c08env) opReadAt(off int64, n, cp int) (int, error, []byte) {
	if cp < n {
		cp = n
	}
	e.note(fmt.Sprintf("ReadAt(off=%d,len=%d,cap=%d)", off, n, cp))
	e.addCost(off, int64(n), 1)
	e.tr.Op(2, off, int64(n), int64(cp))
	b := make([]byte, n, cp)
	got, err := e.f.ReadAt(b, off)
	var ob vw.L
	ob.Add(int64(got), c08err(err))
	ob.Add(vw.RLE(b[:got])...)
	e.tr.Obs(ob...)
	vw.Stat("op.readat."+c08readClass(off, n, cp, int64(len(e.shadow))), 1)
	vw.Stat(fmt.Sprintf("err.readat=%d", c08err(err)), 1)
	e.checkRead("readat", off, n, cp, got, err, b)
	return got, err, b
}

func (e *c08env) opSeek(whence int, off int64) {
	e.note(fmt.Sprintf("Seek(whence=%d,off=%d)", whence, off))
	e.tr.Op(3, int64(whence), off)
	ret, err := e.f.Seek(off, whence)
	e.tr.Obs(ret, c08err(err), e.f.pos)
	vw.Stat("op.seek", 1)
	if e.monOn {
		np := e.spos
		switch whence {
		case 0:
			np = off
		case 1:
			np = e.spos + off
		case 2:
			np = int64(len(e.shadow)) + off
		}
		if np < 0 {
			if err == nil || e.f.pos != e.spos {
				e.report("plain:seek:negative", "Seek to a negative position must fail and leave the position unchanged",
					map[string]interface{}{"ret": ret, "err": fmt.Sprint(err), "pos": e.f.pos, "plain_pos": e.spos})
				e.spos = e.f.pos
			}
		} else {
			e.spos = np
			if err != nil || ret != np || e.f.pos != np {
				e.report(fmt.Sprintf("plain:seek:pos:whence%d", whence), "Seek returned/set a different position than an ordinary file",
					map[string]interface{}{"ret": ret, "err": fmt.Sprint(err), "pos": e.f.pos, "plain_pos": np})
				e.spos = e.f.pos
			}
		}
	}
}

func (e *c08env) opRead(n, cp int) {
	if cp < n {
		cp = n
	}
	e.note(fmt.Sprintf("Read(len=%d,cap=%d)@%d", n, cp, e.f.pos))
	e.addCost(e.f.pos, int64(n), 1)
	e.tr.Op(4, int64(n), int64(cp))
	b := make([]byte, n, cp)
	p0 := e.f.pos
	got, err := e.f.Read(b)
	var ob vw.L
	ob.Add(int64(got), c08err(err), e.f.pos)
	ob.Add(vw.RLE(b[:got])...)
	e.tr.Obs(ob...)
	vw.Stat("op.read", 1)
	if e.monOn {
		e.checkRead("read", p0, n, cp, got, err, b)
		e.spos += int64(got)
		if e.f.pos != p0+int64(got) {
			e.report("plain:read:pos", "Read did not advance the position by the count it returned", map[string]interface{}{"pos": e.f.pos, "want": p0 + int64(got)})
			e.spos = e.f.pos
		}
	}
}

func (e *c08env) opWrite(d []byte) {
	off := e.f.pos
	cls := e.writeClass(off, len(d))
	e.note(fmt.Sprintf("Write(len=%d)@%d", len(d), off))
	size := int64(len(e.shadow))
	if off > size {
		e.addCost(size, off-size, 1)
	}
	e.addCost(off, int64(len(d)), 2)
	var op vw.L
	op.Add(5)
	op.Add(vw.RLE(d)...)
	e.tr.Op(op...)
	n, err := e.f.Write(d)
	var ob vw.L
	ob.Add(int64(n), c08err(err), e.f.pos)
	ob.Add(vw.RLE(e.raw())...)
	e.tr.Obs(ob...)
	vw.Stat("op.write."+cls, 1)
	if e.monOn {
		e.shadowWrite(off, d)
		e.spos += int64(len(d))
		if n != len(d) || err != nil || e.f.pos != e.spos {
			e.report("plain:write:result:"+cls, "Write on a sound checksummed file did not report (len, nil) and advance like an ordinary file",
				map[string]interface{}{"n": n, "err": fmt.Sprint(err), "len": len(d), "pos": e.f.pos, "plain_pos": e.spos})
			e.spos = e.f.pos
		}
		e.afterMutation("write", cls)
	}
}

func (e *c08env) opSize() (int64, error) {
	e.note("Size")
	e.tr.Op(6)
	sz, err := e.f.Size()
	e.tr.Obs(sz, c08err(err))
	vw.Stat("op.size", 1)
	if e.monOn && (err != nil || sz != int64(len(e.shadow))) {
		e.report("plain:size", "Size differs from an ordinary file's", map[string]interface{}{"size": sz, "err": fmt.Sprint(err), "plain": len(e.shadow)})
	}
	return sz, err
}

func (e *c08env) opScrub() (int64, error) {
	e.note("Scrub")
	e.cost += int64(len(e.shadow))
	e.tr.Op(7)
	n, err := e.f.Scrub()
	e.tr.Obs(n, c08err(err))
	vw.Stat("op.scrub", 1)
	if e.monOn && (err != nil || n != int64(len(e.shadow))) {
		e.report("plain:scrub", "Scrub of an untampered file did not succeed with the file's size", map[string]interface{}{"n": n, "err": fmt.Sprint(err), "plain": len(e.shadow)})
	}
	return n, err
}

func (e *c08env) open(flags int) {
	saved := osFileOpener
	osFileOpener = func(path string, fl int, perm os.FileMode) (mockFile, error) {
		f, err := openOsFile(path, fl, perm)
		if err != nil {
			return nil, err
		}
		return &c08qfile{mockFile: f, e: e}, nil
	}
	f, err := NewChecksumFile(e.path, flags)
	osFileOpener = saved
	if err != nil {
		e.t.Fatalf("c08: open: %v", err)
	}
	e.f = f
}

func (e *c08env) opReopen(drop bool) {
	e.note(fmt.Sprintf("Reopen(dropcache=%v)", drop))
	fl := int64(0)
	flags := os.O_RDWR
	if drop {
		fl = 1
		flags |= O_DROPCACHE
	}
	e.tr.Op(8, fl)
	if err := e.f.Close(); err != nil {
		e.t.Fatalf("c08: close: %v", err)
	}
	e.open(flags)
	e.tr.Obs(0)
	e.spos = 0
	vw.Stat("op.reopen", 1)
}

func (e *c08env) rawXor(bit int64, pat uint64) {
	fd, err := os.OpenFile(e.path, os.O_RDWR, 0)
	if err != nil {
		e.t.Fatal(err)
	}
	defer fd.Close()
	st, _ := fd.Stat()
	v := pat << uint(bit%8)
	bo := bit / 8
	for i := int64(0); i < 5; i++ {
		if bo+i >= st.Size() {
			break
		}
		x := byte(v >> uint(8*i))
		if x == 0 {
			continue
		}
		var one [1]byte
		fd.ReadAt(one[:], bo+i)
		one[0] ^= x
		fd.WriteAt(one[:], bo+i)
	}
}

func (e *c08env) opTamperXor(bit int64, pat uint64) {
	e.note(fmt.Sprintf("TamperXor(bit=%d,pat=%#x)", bit, pat))
	e.tr.Op(9, bit, int64(pat))
	e.rawXor(bit, pat)
	e.tr.Obs(vw.RLE(e.raw())...)
	vw.Stat("op.tamperxor", 1)
}

func (e *c08env) opTamperTrunc(n int64) {
	e.note(fmt.Sprintf("TamperTruncate(rawlen=%d)", n))
	e.tr.Op(10, n)
	if err := os.Truncate(e.path, n); err != nil {
		e.t.Fatal(err)
	}
	e.tr.Obs(vw.RLE(e.raw())...)
	vw.Stat("op.tampertrunc", 1)
}

func (e *c08env) opCheck() {
	e.tr.Op(11)
	e.tr.Obs(777, 1)
}

// ---- out-of-space episode ----

func (e *c08env) opQuota(free int64) {
	if free < 0 {
		e.note("Quota(off)")
		e.tr.Op(13)
	} else {
		e.note(fmt.Sprintf("Quota(free=%d)", free))
		e.tr.Op(12, free)
	}
	e.free = free
	e.tr.Obs(0)
}

// a write while the quota is installed: traced like WriteAt/Write; the monitor applies the out-of-space clauses
func (e *c08env) quotaWrite(useCursor bool, off int64, d []byte) {
	if useCursor {
		off = e.f.pos
	}
	old := append([]byte{}, e.shadow...)
	cls := e.writeClass(off, len(d))
	// what an ordinary file would hold if the write went through
	e.shadowWrite(off, d)
	intended := append([]byte{}, e.shadow...)
	e.shadow = old
	var op vw.L
	var n int
	var err error
	if useCursor {
		e.note(fmt.Sprintf("Write(len=%d)@%d under quota %d", len(d), off, e.free))
		op.Add(5)
		op.Add(vw.RLE(d)...)
		e.tr.Op(op...)
		n, err = e.f.Write(d)
		var ob vw.L
		ob.Add(int64(n), c08err(err), e.f.pos)
		ob.Add(vw.RLE(e.raw())...)
		e.tr.Obs(ob...)
	} else {
		e.note(fmt.Sprintf("WriteAt(off=%d,len=%d) under quota %d", off, len(d), e.free))
		op.Add(1, off)
		op.Add(vw.RLE(d)...)
		e.tr.Op(op...)
		n, err = e.f.WriteAt(d, off)
		var ob vw.L
		ob.Add(int64(n), c08err(err))
		ob.Add(vw.RLE(e.raw())...)
		e.tr.Obs(ob...)
	}
	vw.Stat(fmt.Sprintf("quota.write.%s.err=%d", cls, c08err(err)), 1)
	if !e.monOn {
		return
	}
	det := map[string]interface{}{"off": off, "len": len(d), "n": n, "err": fmt.Sprint(err), "old_size": len(old), "intended_size": len(intended)}
	bad := func(clause, what string) {
		e.report("enospc:"+cls+":"+clause, what, det)
		e.resync()
	}
	if err == nil {
		e.shadow = intended
		if n != len(d) {
			bad("count", "a write that reported success under a space quota returned a short count")
			return
		}
		if useCursor {
			e.spos += int64(n)
		}
		e.afterMutation("writeq", cls)
		return
	}
	if err != syscall.ENOSPC {
		bad("unexpected-error", "a write that ran out of space returned an error other than ENOSPC")
		return
	}
	// out of space: the file must still be a sound file holding the old content plus a prefix of the new data
	sz, serr := e.f.Size()
	c, cerr := e.content()
	_, scerr := e.f.Scrub()
	det["size"] = sz
	switch {
	case serr != nil || cerr != nil || scerr != nil:
		det["size_err"], det["read_err"], det["scrub_err"] = fmt.Sprint(serr), fmt.Sprint(cerr), fmt.Sprint(scerr)
		bad("file-unsound", "after a write that ran out of space the file no longer reads/scrubs cleanly")
	case sz < int64(len(old)):
		bad("lost-data", "a write that ran out of space made the file shorter than before")
	case sz >= int64(len(intended)):
		bad("size", "a write reported ENOSPC although the file holds everything that was to be written")
	case !bytes.Equal(c, intended[:sz]):
		det["first_diff"] = c08firstDiff(c, intended[:sz])
		bad("content", "after a write that ran out of space the file does not hold a prefix of the intended content")
	default:
		want := sz - off
		if want < 0 {
			want = 0
		}
		if int64(n) != want {
			det["want_n"] = want
			bad("count", "a write that ran out of space reported a count different from the bytes of the buffer that are in the file")
			return
		}
		e.shadow = c
		if useCursor {
			e.spos += int64(n)
			if e.f.pos != e.spos {
				bad("pos", "Write did not advance the cursor by the count it returned")
			}
		}
	}
}

func (e *c08env) quotaEpisode(forceSmall bool) {
	if !e.monOn {
		return
	}
	main := e.r
	e.r = main.Fork(424242) // keep the main random stream of the case unchanged
	r := e.r
	defer func() { e.r = main }()
	size := int64(len(e.shadow))
	var free int64
	if e.class == 0 {
		free = r.PickI64(0, 1, 3, 4, 5, 6, 9, 60, int64(r.Range(0, 400)), int64(r.Range(0, 2500)))
	} else {
		toB := c08DL - size%c08DL // data bytes to the end of the last block
		free = r.PickI64(0, 1, 4, 5, 60, toB-1, toB, toB+1, toB+3, toB+4, toB+5, toB+9, toB+300, int64(r.Range(0, 3000)))
		if free < 0 {
			free = 0
		}
	}
	if forceSmall || (size%c08DL == 0 && r.Bool()) {
		// a new block has to be started: with <= 4 free bytes only a bare checksum fragment fits (truncate path)
		free = r.PickI64(0, 1, 2, 3, 4, 5, 6)
	}
	e.opQuota(free)
	nw := r.Range(1, 3)
	for i := 0; i < nw; i++ {
		size = int64(len(e.shadow))
		var off int64
		switch r.Intn(6) {
		case 0, 1:
			off = size // append
		case 2:
			off = size + int64(r.PickInt(1, 2, 7, 100, 900)) // hole
		case 3:
			off = size - int64(r.PickInt(1, 2, 5, 50)) // straddles EOF
		case 4:
			off = int64(r.Intn(int(size) + 1)) // may be entirely inside: must succeed whatever the quota
		default:
			off = size
		}
		if off < 0 {
			off = 0
		}
		n := r.PickInt(0, 1, 2, 3, 4, 5, 6, 11, 100, r.Range(1, 600), r.Range(1, 3000))
		if e.class != 0 && r.Chance(1, 3) {
			n = int(c08DL - size%c08DL + int64(r.PickInt(-1, 0, 1, 5, 200)))
			if n < 0 {
				n = 1
			}
		}
		d := e.mkdata(n)
		if r.Chance(1, 4) {
			e.opSeek(0, off)
			e.quotaWrite(true, 0, d)
		} else {
			e.quotaWrite(false, off, d)
		}
	}
	e.opQuota(-1)
	vw.Stat("quota.episodes", 1)
}

// ---- generators ----

func (e *c08env) pickOff() int64 {
	r := e.r
	size := int64(len(e.shadow))
	var c []int64
	if e.class == 0 {
		c = []int64{0, 0, 1, 2, size - 1, size, size, size + 1, size + 7, size + 300, int64(r.Intn(int(size) + 50))}
	} else {
		k := int64(r.Range(1, 3))
		c = []int64{0, 1, c08DL - 1, c08DL, c08DL + 1, k*c08DL - 1, k * c08DL, k*c08DL + 1, size - 1, size, size, size + 1,
			size - c08DL, size + 5, int64(r.Intn(int(size) + 50)), c08BL, c08DL - 4}
		if e.class == 2 {
			c = append(c, size+c08DL+1, size+c08DL-1)
		}
	}
	o := c[r.Intn(len(c))]
	if o < 0 {
		o = 0
	}
	return o
}

func (e *c08env) pickLen(off int64, forWrite bool) int {
	r := e.r
	size := int64(len(e.shadow))
	rem := size - off
	var c []int64
	if e.class == 0 {
		c = []int64{0, 1, 1, 2, 3, 4, 5, int64(r.Range(1, 200)), int64(r.Range(1, 200)), rem, rem + 1, rem - 1, 1000}
	} else {
		toB := c08DL - off%c08DL // bytes to the end of this block
		c = []int64{0, 1, 2, 4, 5, 17, toB - 1, toB, toB + 1, toB + 5, rem, rem + 1, rem - 1, int64(r.Range(1, 300))}
		if !forWrite || e.class == 2 {
			c = append(c, c08DL, c08DL+1, c08BL, toB+c08DL, toB+c08DL+1)
		}
		if !forWrite {
			c = append(c, size+10, 2*c08DL+3)
		}
	}
	n := c[r.Intn(len(c))]
	if n < 0 {
		n = 0
	}
	max := int64(3000)
	if e.class == 1 {
		max = 3*c08DL + 100
	} else if e.class == 2 {
		max = 7 * c08DL
	}
	if n > max {
		n = max
	}
	return int(n)
}

func (e *c08env) pickCap(n int) int {
	r := e.r
	switch r.Intn(8) {
	case 0, 1, 2:
		return n
	case 3:
		return n + r.Range(1, 100)
	case 4:
		return blockLength - 1
	case 5:
		return blockLength
	case 6:
		return n + blockLength
	}
	return n + blockLength - 1
}

// budget in model-CRC bytes per case class
func (e *c08env) budget() int64 {
	switch e.class {
	case 0:
		return 1 << 40
	case 1:
		return 10 * c08DL
	}
	return 24 * c08DL
}

func (e *c08env) randomOp() {
	r := e.r
	size := int64(len(e.shadow))
	maxSize := int64(4000)
	if e.class == 1 {
		maxSize = 2*c08DL + 3000
	} else if e.class == 2 {
		maxSize = 6 * c08DL
	}
	switch k := r.Intn(100); {
	case k < 30: // WriteAt
		off := e.pickOff()
		n := e.pickLen(off, true)
		if r.Chance(1, 25) {
			n = 0
		}
		if n == 0 && off > size && !r.Chance(1, 3) {
			// zero-length writes beyond EOF (finding F19) are generated, but sparingly
			off = size
		}
		if off+int64(n) > maxSize {
			if off > maxSize {
				off = size
			}
			if off+int64(n) > maxSize {
				n = int(maxSize - off)
				if n < 0 {
					n = 0
					off = size
				}
			}
		}
		e.opWriteAt(off, e.mkdata(n))
	case k < 60: // ReadAt
		off := e.pickOff()
		n := e.pickLen(off, false)
		e.opReadAt(off, n, e.pickCap(n))
	case k < 70: // Seek
		wh := r.Intn(3)
		var off int64
		switch wh {
		case 0:
			off = e.pickOff()
		case 1:
			off = int64(r.PickInt(-5, -1, 0, 1, 3, 100)) + int64(r.PickInt(0, 0, 0, int(c08DL), -int(c08DL)))
		case 2:
			off = int64(r.PickInt(-int(size)-1, -int(size), -5, -1, 0, 0, 1, 9))
		}
		if e.f.pos+off > maxSize+100 && wh == 1 {
			off = 0
		}
		e.opSeek(wh, off)
	case k < 80: // Read
		n := e.pickLen(e.f.pos, false)
		e.opRead(n, e.pickCap(n))
	case k < 90: // Write
		off := e.f.pos
		n := e.pickLen(off, true)
		if r.Chance(1, 25) {
			n = 0
		}
		if off > maxSize || (n == 0 && off > size && !r.Chance(1, 3)) {
			e.opSeek(2, 0)
			off = e.f.pos
		}
		if off+int64(n) > maxSize {
			n = int(maxSize - off)
			if n < 0 {
				n = 0
			}
		}
		e.opWrite(e.mkdata(n))
	case k < 94:
		e.opSize()
	case k < 97:
		e.opScrub()
	default:
		e.opReopen(r.Bool())
	}
}

// nblocks / raw length of block k for a sound file of user size `size`
func c08rawBlock(size int64, k int64) (rawOff, rawLen int64) {
	d := size - k*c08DL
	if d > c08DL {
		d = c08DL
	}
	return k * c08BL, d + c08CL
}

func c08burst(r *vw.Rng, L int) uint64 {
	if L == 1 {
		return 1
	}
	p := uint64(1) | uint64(1)<<uint(L-1)
	switch r.Intn(3) {
	case 0:
		p |= r.U64() & (uint64(1)<<uint(L-1) - 1)
	case 1:
		p |= uint64(1)<<uint(L-1) - 1
	}
	return p
}

// burstEpisode: corrupt one block with one burst of <= 32 bits, check the corruption clauses, restore.
func (e *c08env) burstEpisode() {
	size := int64(len(e.shadow))
	if size == 0 || !e.monOn {
		return
	}
	r := e.r
	nb := (size + c08DL - 1) / c08DL
	k := int64(r.Intn(int(nb)))
	ro, rl := c08rawBlock(size, k)
	L := r.Range(1, 32)
	if int64(L) > rl*8 {
		L = int(rl * 8)
	}
	// position: anywhere, with extra weight on the ends and on the data/checksum seam
	var bit int64
	switch r.Intn(5) {
	case 0:
		bit = 0
	case 1:
		bit = rl*8 - int64(L)
	case 2:
		bit = (rl-c08CL)*8 - int64(r.Intn(L+1))
		if bit < 0 {
			bit = 0
		}
	default:
		bit = int64(r.Intn(int(rl*8 - int64(L) + 1)))
	}
	if bit+int64(L) > rl*8 {
		bit = rl*8 - int64(L)
	}
	pat := c08burst(r, L)
	before := e.raw()
	e.opTamperXor(ro*8+bit, pat)
	saveMon := e.monOn
	e.monOn = false // the plain monitor does not apply while the file is tampered
	cls := fmt.Sprintf("L%d", L)
	_ = cls
	bad := func(clause, what string, d map[string]interface{}) {
		if d == nil {
			d = map[string]interface{}{}
		}
		d["block"] = k
		d["bit_in_block"] = bit
		d["burst_len"] = L
		d["pattern"] = fmt.Sprintf("%#x", pat)
		e.report("tamper:burst:"+clause, what, d)
	}
	// (a) a read covering the whole file
	caps := []int{0, blockLength + int(size)}
	if e.class != 0 {
		caps = []int{r.PickInt(0, blockLength+int(size))}
	}
	for _, cp := range caps {
		n, err, b := e.opReadAt(0, int(size), cp)
		if err != ErrCorruptData {
			bad("read-touching:no-corruption-error", "a read touching a block altered by a burst of <= 32 bits did not report corruption", map[string]interface{}{"n": n, "err": fmt.Sprint(err), "cap": cp})
		} else if int64(n) > k*c08DL || !bytes.Equal(b[:n], e.shadow[:n]) {
			bad("read-touching:altered-data", "a read touching an altered block returned bytes from it (or altered bytes)", map[string]interface{}{"n": n, "cap": cp})
		}
	}
	// (b) a read inside the altered block only
	{
		bs := size - k*c08DL
		if bs > c08DL {
			bs = c08DL
		}
		off := k*c08DL + int64(r.Intn(int(bs)))
		cp := 0
		if off%c08DL == 0 && r.Bool() {
			cp = blockLength + 10
		}
		n, err, _ := e.opReadAt(off, r.Range(1, 10), cp)
		if err != ErrCorruptData || n != 0 {
			bad("read-inside:no-corruption-error", "a read inside a block altered by a burst of <= 32 bits did not fail with corruption and zero bytes", map[string]interface{}{"n": n, "err": fmt.Sprint(err), "off": off})
		}
	}
	// (c) reads of other blocks are unaffected
	if nb > 1 {
		j := int64(r.Intn(int(nb)))
		if j == k {
			j = (k + 1) % nb
		}
		bs := size - j*c08DL
		if bs > c08DL {
			bs = c08DL
		}
		off := j * c08DL
		ln := int(bs)
		cp := r.PickInt(0, blockLength+ln)
		n, err, b := e.opReadAt(off, ln, cp)
		if err != nil || n != ln || !bytes.Equal(b[:n], e.shadow[off:off+int64(ln)]) {
			bad("read-untouched:affected", "a read of an untouched block was affected by tampering with another block", map[string]interface{}{"n": n, "err": fmt.Sprint(err), "other_block": j})
		}
	}
	// (d) scrub
	if _, err := e.opScrub(); err != ErrCorruptData {
		bad("scrub:no-corruption-error", "Scrub of a file with a block altered by a burst of <= 32 bits did not report corruption", map[string]interface{}{"err": fmt.Sprint(err)})
	}
	// restore
	e.opTamperXor(ro*8+bit, pat)
	if !bytes.Equal(before, e.raw()) {
		e.t.Fatalf("c08: harness bug: tamper restore failed")
	}
	e.monOn = saveMon
	vw.Stat(fmt.Sprintf("burst.len=%d", L), 1)
}

// truncEpisode: cut the raw file; when the fragment left is 1..4 bytes the property demands corruption errors.
func (e *c08env) truncEpisode() {
	size := int64(len(e.shadow))
	if size == 0 || !e.monOn {
		return
	}
	r := e.r
	nb := (size + c08DL - 1) / c08DL
	j := int64(r.Intn(int(nb)))
	_, rl := c08rawBlock(size, j)
	var frag int64
	guaranteed := r.Chance(3, 4)
	if guaranteed {
		frag = int64(r.Range(1, 4))
	} else {
		frag = int64(r.PickInt(0, 5, 6, int(rl)-1, int(rl)/2+1))
		if frag >= rl {
			frag = rl - 1
		}
		if frag < 0 {
			frag = 0
		}
		if frag >= 1 && frag <= 4 {
			guaranteed = true
		}
	}
	e.opTamperTrunc(j*c08BL + frag)
	e.monOn = false
	bad := func(clause, what string, d map[string]interface{}) {
		if d == nil {
			d = map[string]interface{}{}
		}
		d["block"] = j
		d["fragment"] = frag
		e.report("tamper:truncate:"+clause, what, d)
	}
	sz, serr := e.opSize()
	n, rerr, b := e.opReadAt(0, int(size), r.PickInt(0, blockLength+int(size)))
	_, scerr := e.opScrub()
	rawBefore := e.raw()
	e.opWriteAt(int64(r.Intn(int(size)+2)), e.mkdata(r.Range(1, 9)))
	if guaranteed {
		if serr != ErrCorruptData {
			bad("size:no-corruption-error", "Size of a file truncated to leave a fragment no longer than a checksum did not report corruption", map[string]interface{}{"size": sz, "err": fmt.Sprint(serr)})
		}
		if rerr != ErrCorruptData {
			bad("read-touching:no-corruption-error", "a read touching a truncated block (fragment <= checksum length) did not report corruption", map[string]interface{}{"n": n, "err": fmt.Sprint(rerr)})
		} else if int64(n) > j*c08DL || !bytes.Equal(b[:n], e.shadow[:n]) {
			bad("read-touching:altered-data", "a read touching a truncated block returned bytes beyond the sound blocks (or altered bytes)", map[string]interface{}{"n": n})
		}
		if scerr != ErrCorruptData {
			bad("scrub:no-corruption-error", "Scrub of a file truncated to leave a fragment no longer than a checksum did not report corruption", map[string]interface{}{"err": fmt.Sprint(scerr)})
		}
		if !bytes.Equal(rawBefore, e.raw()) {
			bad("write:mutated", "a write to a file whose size is invalid (truncated fragment) changed the raw file", nil)
		}
		if j > 0 {
			// untouched blocks still read fine
			k := int64(r.Intn(int(j)))
			n, err, b := e.opReadAt(k*c08DL, int(c08DL), r.PickInt(0, blockLength+int(c08DL)))
			if err != nil || int64(n) != c08DL || !bytes.Equal(b[:n], e.shadow[k*c08DL:(k+1)*c08DL]) {
				bad("read-untouched:affected", "a read of an untouched block was affected by truncation of a later block", map[string]interface{}{"n": n, "err": fmt.Sprint(err), "other_block": k})
			}
		}
		vw.Stat("trunc.guaranteed", 1)
	} else {
		vw.Stat("trunc.other", 1)
	}
}

func c08dir() string {
	base := os.TempDir()
	if st, err := os.Stat("/dev/shm"); err == nil && st.IsDir() {
		base = "/dev/shm"
	}
	d, err := os.MkdirTemp(base, "blbverif-c08-")
	if err != nil {
		panic(err)
	}
	return d
}

func c08runCase(t *testing.T, tr *vw.Trace, root *vw.Rng, dir string, ci int, class int) {
	id := fmt.Sprint(ci)
	if !vw.CaseSelected(id) {
		return
	}
	r := root.Fork(uint64(ci))
	e := &c08env{t: t, tr: tr, r: r, id: id, path: filepath.Join(dir, "f"+id), monOn: true, class: class, free: -1}
	os.Remove(e.path)
	tr.Case(id)
	e.open(os.O_CREATE | os.O_EXCL | os.O_RDWR)
	defer func() {
		if p := recover(); p != nil {
			e.report("panic", "the code under test panicked", map[string]interface{}{"panic": fmt.Sprint(p)})
		}
		e.f.Close()
		os.Remove(e.path)
	}()
	nops := 0
	if class == 0 && ci%8 == 1 {
		e.quotaEpisode(true) // out of space on a still empty file
	}
	switch class {
	case 0:
		nops = r.Range(6, 24)
		if r.Chance(2, 3) {
			e.opWriteAt(int64(r.PickInt(0, 0, 0, 1, 10)), e.mkdata(r.Range(1, 1500)))
		}
	case 1:
		nops = r.Range(5, 12)
		sz := r.PickI64(c08DL-2, c08DL-1, c08DL, c08DL+1, c08DL+2, c08DL+200, 2*c08DL-1, 2*c08DL, 2*c08DL+1)
		// build the file with one or two writes (the second may straddle the block boundary)
		if r.Bool() {
			e.opWriteAt(0, e.mkdata(int(sz)))
		} else {
			first := r.PickI64(1, 100, c08DL-1, c08DL, sz-1)
			if first >= sz {
				first = sz - 1
			}
			e.opWriteAt(0, e.mkdata(int(first)))
			e.opWriteAt(first, e.mkdata(int(sz-first)))
		}
	case 2:
		nops = r.Range(3, 7)
		sz := r.PickI64(3*c08DL, 3*c08DL+1, 4*c08DL-1, 5*c08DL+17, 6*c08DL)
		if r.Bool() {
			e.opWriteAt(0, e.mkdata(int(sz)))
		} else {
			// hole-creating write: pad spans several blocks
			e.opWriteAt(0, e.mkdata(r.Range(1, 70000)))
			e.opWriteAt(sz-10, e.mkdata(10))
		}
	}
	for i := 0; i < nops && e.cost < e.budget(); i++ {
		e.randomOp()
		if e.class == 0 && r.Chance(1, 10) {
			e.burstEpisode()
		}
	}
	if e.monOn {
		e.burstEpisode()
	}
	e.opCheck()
	if e.class == 0 && ci%2 == 0 || e.class == 1 && ci%4 == 0 {
		e.quotaEpisode(false)
		for i := 0; i < 2 && e.cost < e.budget(); i++ {
			e.randomOp() // the file must behave like an ordinary file again once space is back
		}
		e.opCheck()
	}
	if (e.class == 0 && r.Chance(1, 2) || e.class != 0 && r.Chance(1, 4)) && e.monOn {
		e.truncEpisode()
		for i := 0; i < 3 && e.cost < e.budget(); i++ {
			e.randomOp() // correspondence only: the model must follow the code on unsound files too
		}
		e.opCheck()
	}
	vw.Stat(fmt.Sprintf("cases.class%d", class), 1)
	vw.Stat("model.crc_bytes", e.cost)
	vw.Stat(fmt.Sprintf("size.blocks=%d", (int64(len(e.shadow))+c08DL-1)/c08DL), 1)
	vw.Distinct(fmt.Sprint(e.ops))
	if ci < 4 {
		vw.Sample(fmt.Sprintf("case %d: %v", ci, e.ops))
	}
}

// c08sweep: for small files, every burst length 1..32 at every bit position (the property's quantifier), model-free.
func c08sweep(t *testing.T, root *vw.Rng, dir string) {
	type sf struct {
		name string
		size int64
		// bit ranges (raw, absolute) to sweep exhaustively
	}
	// the "-zero" files hold only zero bytes (holes): a zero fragment looks like an empty block with checksum 0
	files := []sf{{"sweep-1", 1}, {"sweep-5", 5}, {"sweep-29", 29}, {"sweep-2blk", c08DL + 3}, {"sweep-3blk", 2*c08DL + 2},
		{"sweep-7-zero", 7}, {"sweep-2blk-zero", c08DL + 6}}
	for fi, s := range files {
		if !vw.CaseSelected(s.name) {
			continue
		}
		r := root.Fork(uint64(1000000 + fi))
		path := filepath.Join(dir, s.name)
		os.Remove(path)
		f, err := NewChecksumFile(path, os.O_CREATE|os.O_EXCL|os.O_RDWR)
		if err != nil {
			t.Fatal(err)
		}
		data := make([]byte, s.size)
		if len(s.name) < 5 || s.name[len(s.name)-5:] != "-zero" {
			vw.Fill(data, uint64(fi)+77, 0)
		}
		if n, err := f.WriteAt(data, 0); n != len(data) || err != nil {
			t.Fatalf("c08 sweep: write failed: %d %v", n, err)
		}
		raw, _ := os.ReadFile(path)
		rawBits := int64(len(raw)) * 8
		fd, err := os.OpenFile(path, os.O_RDWR, 0)
		if err != nil {
			t.Fatal(err)
		}
		nb := (s.size + c08DL - 1) / c08DL
		// positions: all of them for tiny files; for multi-block files everything in the small last block,
		// plus windows at the start of block 0, around each data/checksum seam and each block boundary.
		var starts []int64
		if nb == 1 {
			for b := int64(0); b < rawBits; b++ {
				starts = append(starts, b)
			}
		} else {
			seen := map[int64]bool{}
			add := func(lo, hi int64) {
				for b := lo; b < hi; b++ {
					if b >= 0 && b < rawBits && !seen[b] {
						seen[b] = true
						starts = append(starts, b)
					}
				}
			}
			add(0, 72)
			for k := int64(0); k < nb; k++ {
				ro, rl := c08rawBlock(s.size, k)
				add((ro+rl-c08CL)*8-40, (ro+rl)*8) // seam and checksum of block k, up to the block's end
				add(ro*8-40, ro*8+40)              // the boundary with the previous block
			}
			add((nb-1)*c08BL*8, rawBits)
			for i := 0; i < 200; i++ {
				b := int64(r.Intn(int(rawBits)))
				add(b, b+1)
			}
		}
		reads := int64(0)
		buf := make([]byte, s.size, int(s.size)+blockLength)
		viol := 0
		rep := func(sig, what string, d map[string]interface{}) {
			viol++
			if viol <= 3 {
				vw.Report(vw.Violation{Property: "C08", Signature: sig, What: what, Case: s.name, Detail: d})
			}
		}
		for _, b0 := range starts {
			for L := 1; L <= 32; L++ {
				if b0+int64(L) > rawBits {
					break
				}
				pats := []uint64{uint64(1) | uint64(1)<<uint(L-1)}
				if L > 2 {
					pats = append(pats, uint64(1)<<uint(L)-1, c08burst(r, L)|r.U64()&(uint64(1)<<uint(L-1)-1)|1)
				}
				for _, pat := range pats {
					// which blocks does the burst touch?
					kLo := (b0 / 8) / c08BL
					kHi := ((b0 + int64(L) - 1) / 8) / c08BL
					c08xorFd(fd, b0, pat)
					det := map[string]interface{}{"file_size": s.size, "raw_bit": b0, "burst_len": L, "pattern": fmt.Sprintf("%#x", pat)}
					for k := int64(0); k < nb; k++ {
						bs := s.size - k*c08DL
						if bs > c08DL {
							bs = c08DL
						}
						for _, cp := range []int{int(bs), int(bs) + blockLength} {
							bb := buf[:bs:cp]
							n, err := f.ReadAt(bb, k*c08DL)
							reads++
							if k >= kLo && k <= kHi {
								if err != ErrCorruptData || n != 0 {
									rep("sweep:burst:read-touching:no-corruption-error", "exhaustive sweep: a read of a block altered by a burst of <= 32 bits did not fail with corruption", det)
								}
							} else if err != nil || int64(n) != bs || !bytes.Equal(bb[:n], data[k*c08DL:k*c08DL+bs]) {
								rep("sweep:burst:read-untouched:affected", "exhaustive sweep: a read of an untouched block was affected by a burst in another block", det)
							}
						}
					}
					// whole-file read: stops with corruption at the first altered block and returns only sound bytes before it
					n, err := f.ReadAt(buf[:s.size], 0)
					reads++
					if err != ErrCorruptData || int64(n) > kLo*c08DL || !bytes.Equal(buf[:n], data[:n]) {
						rep("sweep:burst:read-whole:altered-data", "exhaustive sweep: a whole-file read over an altered block did not stop with corruption before it", det)
					}
					if _, err := f.Scrub(); err != ErrCorruptData {
						rep("sweep:burst:scrub:no-corruption-error", "exhaustive sweep: Scrub did not report a burst of <= 32 bits", det)
					}
					reads++
					c08xorFd(fd, b0, pat)
				}
			}
		}
		// every truncation leaving a fragment of 1..4 bytes
		for j := int64(0); j < nb; j++ {
			for frag := int64(1); frag <= 4; frag++ {
				if err := os.Truncate(path, j*c08BL+frag); err != nil {
					t.Fatal(err)
				}
				det := map[string]interface{}{"file_size": s.size, "block": j, "fragment": frag}
				if _, err := f.Size(); err != ErrCorruptData {
					rep("sweep:truncate:size:no-corruption-error", "exhaustive sweep: Size accepted a fragment no longer than a checksum", det)
				}
				if n, err := f.ReadAt(buf[:s.size], 0); err != ErrCorruptData || int64(n) > j*c08DL || !bytes.Equal(buf[:n], data[:n]) {
					rep("sweep:truncate:read:no-corruption-error", "exhaustive sweep: a read touching a truncated block did not report corruption", det)
				}
				if _, err := f.Scrub(); err != ErrCorruptData {
					rep("sweep:truncate:scrub:no-corruption-error", "exhaustive sweep: Scrub accepted a fragment no longer than a checksum", det)
				}
				if n, err := f.WriteAt([]byte{1, 2, 3}, s.size); err != ErrCorruptData || n != 0 {
					rep("sweep:truncate:write:no-corruption-error", "exhaustive sweep: WriteAt accepted a file with a fragment no longer than a checksum", det)
				}
				if n, err := f.append([]byte{1, 2, 3}); err != ErrCorruptData || n != 0 {
					rep("sweep:truncate:append:no-corruption-error", "exhaustive sweep: append accepted a file with a fragment no longer than a checksum", det)
				}
				if err := os.WriteFile(path, raw, 0600); err != nil {
					t.Fatal(err)
				}
			}
		}
		vw.Stat("sweep.reads", reads)
		vw.Stat("sweep.positions."+s.name, int64(len(starts)))
		fd.Close()
		f.Close()
		os.Remove(path)
	}
}

func c08xorFd(fd *os.File, bit int64, pat uint64) {
	v := pat << uint(bit%8)
	bo := bit / 8
	var b [5]byte
	n, _ := fd.ReadAt(b[:], bo)
	for i := 0; i < n; i++ {
		b[i] ^= byte(v >> uint(8*i))
	}
	fd.WriteAt(b[:n], bo)
}

func TestVerifC08(t *testing.T) {
	if !vw.Enabled() {
		t.Skip("verification harness: run through /verif/bin/check")
	}
	root := vw.NewRng(vw.Seed())
	tr := vw.OpenTrace("C08.trace")
	defer tr.Close()
	defer vw.Finish("C08")
	dir := c08dir()
	defer os.RemoveAll(dir)

	nA := vw.Scale(400, 12000)
	nB := vw.Scale(26, 900)
	nC := vw.Scale(6, 160)
	ci := 0
	for i := 0; i < nA; i++ {
		c08runCase(t, tr, root, dir, ci, 0)
		ci++
	}
	for i := 0; i < nB; i++ {
		c08runCase(t, tr, root, dir, ci, 1)
		ci++
	}
	for i := 0; i < nC; i++ {
		c08runCase(t, tr, root, dir, ci, 2)
		ci++
	}
	c08sweep(t, root, dir)
}
