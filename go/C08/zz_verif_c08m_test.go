package tractserver

// C08, tractserver level (injected by `go test -overlay`; lives in /verif).
// The property's anchors include internal/tractserver/manager.go and store_internal.go: corruption of a tract file
// must be reported through the tractserver's OWN entry points, not only by pkg/disk. This harness writes tracts
// through a real Store over a real Manager (temp directory, real files and xattrs), tampers with the raw tract file
// behind their back (one burst of <= 32 bits in one block; truncation leaving 1..4 bytes) and checks
//   Manager.Scrub, Manager.Read (with and without the ExtraRoom spare capacity), Manager.Size,
//   Store.Read, Store.Stat, and one step of the background scrub loop (Disk.Scrub + maybeReportError => GetBadTracts).
// Model side is relational: every check writes the raw bytes found on disk plus the answer; the extracted file model
// recomputes Scrub/ReadAt/Size on those bytes (lines 21..25, verdict codes 4..8). Monitors are model-free.

import (
	"bytes"
	"context"
	"fmt"
	"os"
	"testing"

	"github.com/westerndigitalcorporation/blb/internal/core"
	libdisk "github.com/westerndigitalcorporation/blb/pkg/disk"
	vw "github.com/westerndigitalcorporation/blb/pkg/verifwire"
)

const (
	c08mBL = int64(65536)
	c08mCL = int64(4)
	c08mDL = c08mBL - c08mCL
)

type c08mTalker struct{}

func (c08mTalker) CtlRead(ctx context.Context, addr string, id core.TractID, version int, length int, off int64) ([]byte, core.Error) {
	return nil, core.ErrRPC
}
func (c08mTalker) CtlWrite(ctx context.Context, addr string, id core.TractID, v int, off int64, b []byte) core.Error {
	return core.ErrRPC
}

func c08mErr(e core.Error) int64 {
	switch e {
	case core.NoError:
		return 0
	case core.ErrEOF:
		return 1
	case core.ErrCorruptData:
		return 2
	}
	return 4
}

type c08mEnv struct {
	t      *testing.T
	tr     *vw.Trace
	r      *vw.Rng
	cid    string
	m      *Manager
	s      *Store
	id     core.TractID
	path   string
	shadow []byte
	kind   string // "burst" or "truncation" while tampered, "" when sound
	badK   int64  // altered block
	notes  []string
}

func (e *c08mEnv) raw() []byte {
	b, err := os.ReadFile(e.path)
	if err != nil {
		e.t.Fatalf("c08m: read raw: %v", err)
	}
	return b
}

func (e *c08mEnv) viol(sig, what string, d map[string]interface{}) {
	if d == nil {
		d = map[string]interface{}{}
	}
	d["ops"] = e.notes
	d["tamper"] = e.kind
	d["altered_block"] = e.badK
	d["size"] = len(e.shadow)
	vw.Report(vw.Violation{Property: "C08", Signature: sig, What: what, Case: e.cid, Detail: d})
}

func (e *c08mEnv) note(s string) { e.notes = append(e.notes, s) }

// touches: does [off, off+n) touch the altered block?
func (e *c08mEnv) touches(off int64, n int) bool {
	if e.kind == "" || n <= 0 {
		return false
	}
	return off/c08mDL <= e.badK && e.badK <= (off+int64(n)-1)/c08mDL
}

// ---- checks through the tractserver's entry points ----

func (e *c08mEnv) checkScrub() {
	raw := e.raw()
	n, err := e.m.Scrub(e.id)
	var op vw.L
	op.Add(21)
	op.Add(vw.RLE(raw)...)
	op.Add(n, c08mErr(err))
	e.tr.Op(op...)
	e.tr.Obs(777, 1)
	e.note(fmt.Sprintf("Manager.Scrub=(%d,%v)", n, err))
	vw.Stat("m.scrub."+e.kindOr("sound"), 1)
	if e.kind != "" {
		if err != core.ErrCorruptData {
			e.viol("manager-scrub-missed-corruption:"+e.kind, "Manager.Scrub did not report corruption for a tract altered behind the tractserver's back",
				map[string]interface{}{"n": n, "err": err.String()})
		}
	} else if err != core.NoError || n != int64(len(e.shadow)) {
		e.viol("manager-scrub-false-alarm", "Manager.Scrub of an untampered tract did not succeed with the tract's size",
			map[string]interface{}{"n": n, "err": err.String()})
	}
	// one step of the background scrub loop (data_scrub.go): Disk.Scrub + maybeReportError feeds GetBadTracts
	_, d, _, ok := e.s.lookup(e.id)
	if ok {
		e.s.removeTractsFromFailures([]core.TractID{e.id})
		_, serr := d.Scrub(e.id)
		e.s.maybeReportError(e.id, serr)
		bad := e.s.GetBadTracts([]core.PartitionID{e.id.Blob.Partition().WithoutType()}, 10)
		listed := false
		for _, b := range bad {
			if b == e.id {
				listed = true
			}
		}
		if e.kind != "" && !listed {
			e.viol("scrub-loop-missed-corruption:"+e.kind, "one step of the disk scrub loop (Disk.Scrub + maybeReportError) did not put the altered tract on the bad-tract list",
				map[string]interface{}{"err": serr.String()})
		}
		if e.kind == "" && listed {
			e.viol("scrub-loop-false-alarm", "the disk scrub step listed an untampered tract as bad", map[string]interface{}{"err": serr.String()})
		}
		e.s.removeTractsFromFailures([]core.TractID{e.id})
	}
}

func (e *c08mEnv) kindOr(s string) string {
	if e.kind == "" {
		return s
	}
	return e.kind
}

// expectation for a read of [off, off+n) judged against the shadow; returns (mustCorrupt, wantData, wantEOF)
func (e *c08mEnv) expectRead(off int64, n int) (bool, []byte, bool) {
	if e.touches(off, n) {
		return true, nil, false
	}
	size := int64(len(e.shadow))
	if e.kind == "truncation" && off >= (e.badK+1)*c08mDL {
		// entirely beyond the cut: those blocks no longer exist
		return false, nil, n > 0
	}
	if off >= size {
		return false, nil, n > 0
	}
	end := off + int64(n)
	eof := false
	if end > size {
		end = size
		eof = true
	}
	return false, e.shadow[off:end], eof
}

func (e *c08mEnv) checkManagerRead(off int64, n int, extra bool) {
	raw := e.raw()
	cp := n
	tag := "plain"
	if extra {
		cp = n + libdisk.ExtraRoom
		tag = "extraroom"
	}
	f, oerr := e.m.Open(context.Background(), e.id, os.O_RDONLY)
	if oerr != core.NoError {
		e.t.Fatalf("c08m: Manager.Open: %v", oerr)
	}
	b := make([]byte, n, cp)
	got, err := e.m.Read(context.Background(), f, b, off)
	e.m.Close(f)
	var op vw.L
	op.Add(22, off, int64(n), int64(cp))
	op.Add(vw.RLE(raw)...)
	op.Add(int64(got), c08mErr(err))
	op.Add(vw.RLE(b[:got])...)
	e.tr.Op(op...)
	e.tr.Obs(777, 1)
	e.note(fmt.Sprintf("Manager.Read(off=%d,len=%d,%s)=(%d,%v)", off, n, tag, got, err))
	vw.Stat("m.read."+tag+"."+e.kindOr("sound"), 1)
	must, want, eof := e.expectRead(off, n)
	det := map[string]interface{}{"off": off, "len": n, "cap": cp, "n": got, "err": err.String()}
	if must {
		if err != core.ErrCorruptData {
			e.viol("manager-read-missed-corruption:"+e.kind+":"+tag, "Manager.Read touching an altered block did not report corruption", det)
		} else if got != 0 {
			e.viol("manager-read-returned-data-with-corruption:"+tag, "Manager.Read reported corruption but also a byte count", det)
		}
		return
	}
	okErr := (eof && err == core.ErrEOF) || (!eof && err == core.NoError)
	if !okErr || got != len(want) || !bytes.Equal(b[:got], want) {
		sig := "manager-read-wrong:" + tag
		if e.kind != "" {
			sig = "manager-read-untouched-block-affected:" + e.kind + ":" + tag
		}
		e.viol(sig, "Manager.Read of blocks that were not altered did not return the tract's bytes", det)
	}
}

func (e *c08mEnv) checkManagerSize() {
	raw := e.raw()
	f, oerr := e.m.Open(context.Background(), e.id, os.O_RDONLY)
	if oerr != core.NoError {
		e.t.Fatalf("c08m: Manager.Open: %v", oerr)
	}
	sz, err := e.m.Size(f)
	e.m.Close(f)
	var op vw.L
	op.Add(23)
	op.Add(vw.RLE(raw)...)
	op.Add(sz, c08mErr(err))
	e.tr.Op(op...)
	e.tr.Obs(777, 1)
	e.note(fmt.Sprintf("Manager.Size=(%d,%v)", sz, err))
	if e.kind == "truncation" {
		if err != core.ErrCorruptData {
			e.viol("manager-size-missed-truncation", "Manager.Size accepted a tract file truncated to a fragment no longer than a checksum",
				map[string]interface{}{"size": sz, "err": err.String()})
		}
	} else if err != core.NoError || sz != int64(len(e.shadow)) {
		e.viol("manager-size-wrong", "Manager.Size of a tract whose length was not altered is wrong", map[string]interface{}{"size": sz, "err": err.String()})
	}
}

func (e *c08mEnv) checkStoreRead(off int64, n int) {
	raw := e.raw()
	e.s.removeTractsFromFailures([]core.TractID{e.id})
	b, err := e.s.Read(context.Background(), e.id, 1, n, off)
	var op vw.L
	op.Add(24, off, int64(n))
	op.Add(vw.RLE(raw)...)
	op.Add(c08mErr(err))
	op.Add(vw.RLE(b)...)
	e.tr.Op(op...)
	e.tr.Obs(777, 1)
	e.note(fmt.Sprintf("Store.Read(off=%d,len=%d)=(%d bytes,%v)", off, n, len(b), err))
	vw.Stat("s.read."+e.kindOr("sound"), 1)
	must, want, eof := e.expectRead(off, n)
	det := map[string]interface{}{"off": off, "len": n, "n": len(b), "err": err.String()}
	if must {
		if err != core.ErrCorruptData || len(b) != 0 {
			e.viol("store-read-missed-corruption:"+e.kind, "Store.Read touching an altered block did not fail with corruption (or returned bytes)", det)
		} else {
			// the failure must be remembered for the curator (store_internal.go closeErrTract -> maybeReportError)
			bad := e.s.GetBadTracts([]core.PartitionID{e.id.Blob.Partition().WithoutType()}, 10)
			listed := false
			for _, x := range bad {
				if x == e.id {
					listed = true
				}
			}
			if !listed {
				e.viol("store-read-corruption-not-recorded:"+e.kind, "Store.Read returned ErrCorruptData but the tract is not on the bad-tract list", det)
			}
		}
		e.s.removeTractsFromFailures([]core.TractID{e.id})
		return
	}
	okErr := (eof && err == core.ErrEOF) || (!eof && err == core.NoError)
	if !okErr || !bytes.Equal(b, want) {
		sig := "store-read-wrong"
		if e.kind != "" {
			sig = "store-read-untouched-block-affected:" + e.kind
		}
		e.viol(sig, "Store.Read of blocks that were not altered did not return the tract's bytes", det)
	}
}

func (e *c08mEnv) checkStoreStat() {
	raw := e.raw()
	sz, _, err := e.s.Stat(context.Background(), e.id, 1)
	var op vw.L
	op.Add(25)
	op.Add(vw.RLE(raw)...)
	op.Add(sz, c08mErr(err))
	e.tr.Op(op...)
	e.tr.Obs(777, 1)
	e.note(fmt.Sprintf("Store.Stat=(%d,%v)", sz, err))
	if e.kind == "truncation" {
		if err != core.ErrCorruptData {
			e.viol("store-stat-missed-truncation", "Store.Stat accepted a tract file truncated to a fragment no longer than a checksum",
				map[string]interface{}{"size": sz, "err": err.String()})
		}
	} else if err != core.NoError || sz != int64(len(e.shadow)) {
		e.viol("store-stat-wrong", "Store.Stat of a tract whose length was not altered is wrong", map[string]interface{}{"size": sz, "err": err.String()})
	}
	e.s.removeTractsFromFailures([]core.TractID{e.id})
}

// allChecks runs every entry point once on the current raw file.
func (e *c08mEnv) allChecks() {
	r := e.r
	size := int64(len(e.shadow))
	nb := (size + c08mDL - 1) / c08mDL
	e.checkScrub()
	e.checkManagerSize()
	e.checkStoreStat()
	// whole tract, both buffer shapes at Manager level, Store level (always ExtraRoom)
	e.checkManagerRead(0, int(size), r.Bool())
	e.checkStoreRead(0, int(size))
	// one block only: the altered one when tampered, else a random one; and another block when there is one
	k := e.badK
	if e.kind == "" {
		k = int64(r.Intn(int(nb)))
	}
	blkLen := func(j int64) int {
		l := size - j*c08mDL
		if l > c08mDL {
			l = c08mDL
		}
		return int(l)
	}
	if k < nb {
		e.checkManagerRead(k*c08mDL, blkLen(k), r.Bool())
		in := int64(r.Intn(blkLen(k)))
		e.checkStoreRead(k*c08mDL+in, r.Range(1, 64))
	}
	if nb > 1 {
		j := int64(r.Intn(int(nb)))
		if j == k {
			j = (k + 1) % nb
		}
		if e.kind != "truncation" || j < e.badK {
			e.checkManagerRead(j*c08mDL, blkLen(j), r.Bool())
			e.checkStoreRead(j*c08mDL, blkLen(j))
		}
	}
}

func c08mXor(path string, bit int64, pat uint64) {
	fd, err := os.OpenFile(path, os.O_RDWR, 0)
	if err != nil {
		panic(err)
	}
	defer fd.Close()
	v := pat << uint(bit%8)
	var b [5]byte
	n, _ := fd.ReadAt(b[:], bit/8)
	for i := 0; i < n; i++ {
		b[i] ^= byte(v >> uint(8*i))
	}
	fd.WriteAt(b[:n], bit/8)
}

func c08mBurst(r *vw.Rng, L int) uint64 {
	if L == 1 {
		return 1
	}
	p := uint64(1) | uint64(1)<<uint(L-1)
	switch r.Intn(3) {
	case 0:
		p |= r.U64() & (uint64(1)<<uint(L-1) - 1)
	case 1:
		p |= uint64(1)<<uint(L-1) - 1
	}
	return p
}

func (e *c08mEnv) mkdata(n int, seq int) []byte {
	v := byte(seq*11 + 3)
	if v == 0 {
		v = 5
	}
	d := bytes.Repeat([]byte{v}, n)
	if n > 0 {
		d[0] = v + 1
		d[n-1] = v + 2
		d[e.r.Intn(n)] = v + 3
	}
	return d
}

func c08mCase(t *testing.T, tr *vw.Trace, root *vw.Rng, ci int, class int) {
	id := fmt.Sprintf("m%d", ci)
	if !vw.CaseSelected(id) {
		return
	}
	r := root.Fork(uint64(5000000 + ci))
	cfg := DefaultTestConfig
	cfg.ScrubRate = 0
	cfg.Workers = 1
	cfg.DropCache = r.Bool()
	dir := t.TempDir()
	m, err := NewManager(dir, &cfg)
	if err != nil {
		t.Fatalf("c08m: NewManager: %v", err)
	}
	defer m.Stop()
	s := NewStore(c08mTalker{}, NewMetadataStore(), &cfg)
	if err := s.AddDisk(m); err != nil {
		t.Fatalf("c08m: AddDisk: %v", err)
	}
	tid := core.TractID{Blob: core.BlobIDFromParts(core.PartitionID(1), core.BlobKey(7+ci)), Index: core.TractKey(ci % 3)}
	e := &c08mEnv{t: t, tr: tr, r: r, cid: id, m: m, s: s, id: tid, path: m.toPath(tid)}
	tr.Case(id)
	defer func() {
		if p := recover(); p != nil {
			e.viol("panic", "the tractserver code panicked", map[string]interface{}{"panic": fmt.Sprint(p)})
		}
	}()

	// build the tract through the Store: create + a few writes (append, overwrite, hole)
	var size int64
	switch class {
	case 0:
		size = int64(r.Range(1, 3000))
	case 1:
		size = r.PickI64(c08mDL-1, c08mDL, c08mDL+1, c08mDL+5, c08mDL+700)
	default:
		size = r.PickI64(2*c08mDL+1, 2*c08mDL+300, 3*c08mDL)
	}
	first := size
	if r.Bool() && size > 2 {
		first = int64(r.Range(1, int(size)-1))
	}
	ctx := context.Background()
	d0 := e.mkdata(int(first), 1)
	if cerr := s.Create(ctx, tid, d0, 0); cerr != core.NoError {
		t.Fatalf("c08m: Create: %v", cerr)
	}
	e.shadow = append([]byte{}, d0...)
	e.note(fmt.Sprintf("Create(len=%d)", first))
	if first < size {
		off := first
		if r.Chance(1, 3) && size-first > 10 {
			off = first + int64(r.Range(1, 9)) // leave a hole
		}
		d1 := e.mkdata(int(size-off), 2)
		if werr := s.Write(ctx, tid, 1, d1, off); werr != core.NoError {
			t.Fatalf("c08m: Write: %v", werr)
		}
		e.shadow = append(e.shadow, make([]byte, off-first)...)
		e.shadow = append(e.shadow, d1...)
		e.note(fmt.Sprintf("Write(off=%d,len=%d)", off, len(d1)))
	}
	if r.Chance(1, 2) {
		off := int64(r.Intn(int(size)))
		n := r.Range(1, 50)
		if off+int64(n) > size {
			n = int(size - off)
		}
		d2 := e.mkdata(n, 3)
		if werr := s.Write(ctx, tid, 1, d2, off); werr != core.NoError {
			t.Fatalf("c08m: Write: %v", werr)
		}
		copy(e.shadow[off:], d2)
		e.note(fmt.Sprintf("Write(off=%d,len=%d)", off, n))
	}
	nb := (size + c08mDL - 1) / c08mDL

	// sound file: everything must succeed
	e.allChecks()

	episodes := r.Range(1, 2)
	if class != 0 {
		episodes = 1
	}
	for ep := 0; ep < episodes; ep++ {
		sound := e.raw()
		forceLast := class != 0 && ci%2 == 0 // multi-block tracts: every other case alters a block that is not the first
		if forceLast || r.Chance(3, 5) {
			// one burst of <= 32 bits inside block k (data, checksum or the seam)
			k := int64(r.Intn(int(nb)))
			if forceLast {
				k = nb - 1
			}
			rl := size - k*c08mDL
			if rl > c08mDL {
				rl = c08mDL
			}
			rl += c08mCL
			L := r.Range(1, 32)
			var bit int64
			switch r.Intn(4) {
			case 0:
				bit = 0
			case 1:
				bit = rl*8 - int64(L)
			case 2:
				bit = (rl-c08mCL)*8 - int64(r.Intn(L+1))
			default:
				bit = int64(r.Intn(int(rl*8 - int64(L) + 1)))
			}
			if bit < 0 {
				bit = 0
			}
			if bit+int64(L) > rl*8 {
				bit = rl*8 - int64(L)
			}
			pat := c08mBurst(r, L)
			c08mXor(e.path, k*c08mBL*8+bit, pat)
			e.kind, e.badK = "burst", k
			e.note(fmt.Sprintf("TAMPER burst block=%d bit=%d len=%d pat=%#x", k, bit, L, pat))
			vw.Stat(fmt.Sprintf("m.burst.len=%d", L), 1)
		} else {
			j := int64(r.Intn(int(nb)))
			frag := int64(r.Range(1, 4))
			if terr := os.Truncate(e.path, j*c08mBL+frag); terr != nil {
				t.Fatal(terr)
			}
			e.kind, e.badK = "truncation", j
			e.note(fmt.Sprintf("TAMPER truncate block=%d fragment=%d", j, frag))
			vw.Stat("m.truncations", 1)
		}
		e.allChecks()
		// restore and make sure nothing sticks
		if werr := os.WriteFile(e.path, sound, 0600); werr != nil {
			t.Fatal(werr)
		}
		e.kind = ""
		e.note("RESTORE")
		e.checkScrub()
		e.checkStoreRead(0, int(size))
	}
	vw.Stat(fmt.Sprintf("m.cases.class%d", class), 1)
	vw.Distinct(fmt.Sprint(e.notes))
	if ci < 3 {
		vw.Sample(fmt.Sprintf("case %s: %v", id, e.notes))
	}
}

func TestVerifC08M(t *testing.T) {
	if !vw.Enabled() {
		t.Skip("verification harness: run through /verif/bin/check")
	}
	root := vw.NewRng(vw.Seed())
	tr := vw.OpenTrace("C08M.trace")
	defer tr.Close()
	defer vw.Finish("C08M")
	nA := vw.Scale(40, 1500)
	nB := vw.Scale(5, 150)
	nC := vw.Scale(1, 40)
	ci := 0
	for i := 0; i < nA; i++ {
		c08mCase(t, tr, root, ci, 0)
		ci++
	}
	for i := 0; i < nB; i++ {
		c08mCase(t, tr, root, ci, 1)
		ci++
	}
	for i := 0; i < nC; i++ {
		c08mCase(t, tr, root, ci, 2)
		ci++
	}
}
