package tractserver

// C04 disk scenarios (overlay; /verif/go/C04/zz_verif_c04disk_test.go injected as
// internal/tractserver/zz_verif_c04disk_test.go).  One tractserver with two or three disks; a client
// whose create / write requests are either acknowledged or executed-but-unanswered because the server
// crashed; restarts with any subset of the disks attached in any order; live AddDisk / RemoveDisk;
// SetVersion bumps.  Model: the sequential Store model of coq/theories/Store (AddDisk =
// resolveConflicts) replayed by C04's run_case (cases whose first line is 70).
// Monitor (model-free): while the newest ACKNOWLEDGED copy of a tract exists on an attached disk
// (including the very step that removes it), a read at the client's version either returns the
// acknowledged bytes or fails closed, and a replica that is not served is reported missing by Check
// (so the curator re-replicates it).

import (
	"context"
	"flag"
	"fmt"
	"os"
	"path/filepath"
	"testing"
	"time"

	"github.com/westerndigitalcorporation/blb/internal/core"
	vw "github.com/westerndigitalcorporation/blb/pkg/verifwire"
)

// c04KeepDisk: a MemDisk whose Stop (RemoveDisk) keeps the bytes, as pulling a real disk does, and
// whose allocation status the generator controls (that is how it chooses where a create lands).
type c04KeepDisk struct {
	*MemDisk
	full bool
}

func (d *c04KeepDisk) Stop() {}
func (d *c04KeepDisk) Status() core.DiskStatus {
	st := d.MemDisk.Status()
	st.Full = d.full
	return st
}

type c04Attempt struct {
	wid, off, n int
	acked       bool
}

type c04Tract struct {
	id       core.TractID
	attempts []c04Attempt
	ver      int // the version the client uses (the one its last acknowledged request carried)
	home     int // disk holding the newest acknowledged copy, -1 = none acknowledged yet
	// lost: the acknowledged copy no longer exists on this server (an equal-version conflict with an
	// unacknowledged twin dropped both copies, fail closed).  From then on the server cannot tell a further
	// same-version stale copy from the real thing (observation O1); the replica is the curator's to repair
	// from another server, and the client is outside the premise.
	lost bool
}

type c04DiskWorld struct {
	r      *vw.Rng
	tr     *vw.Trace
	id     string
	disks  []*c04KeepDisk
	slots  []int // slot -> disk index, -1 free
	s      *Store
	tracts []*c04Tract
	wid    int
	bads   map[string]map[string]interface{}
}

func c04TractID(t int) core.TractID {
	return core.TractID{Blob: core.BlobIDFromParts(1, 77), Index: core.TractKey(t)}
}

func (w *c04DiskWorld) line(op []int64, obs []int64) {
	w.tr.Op(op...)
	if obs == nil {
		obs = []int64{}
	}
	w.tr.Obs(obs...)
}

func (w *c04DiskWorld) attached(di int) bool {
	for _, x := range w.slots {
		if x == di {
			return true
		}
	}
	return false
}

func (w *c04DiskWorld) newStore() {
	time.Sleep(50 * time.Microsecond)
	w.s = NewStore(nil, NewMetadataStore(), &DefaultTestConfig)
	w.slots = nil
}

func (w *c04DiskWorld) restart(order []int) {
	w.newStore()
	w.line([]int64{74}, nil)
	for _, di := range order {
		w.addDisk(di)
	}
}

func (w *c04DiskWorld) addDisk(di int) {
	err := w.s.AddDisk(w.disks[di])
	code := int64(0)
	if err == ErrDiskExists {
		code = -2
	} else if err != nil {
		code = -3
	} else {
		placed := false
		for i, x := range w.slots {
			if x < 0 {
				w.slots[i] = di
				placed = true
				break
			}
		}
		if !placed {
			w.slots = append(w.slots, di)
		}
	}
	w.line([]int64{75, int64(di)}, []int64{code})
	w.monitor(fmt.Sprintf("attach-disk%d", di))
}

func (w *c04DiskWorld) removeDisk(di int) {
	if !w.attached(di) {
		return
	}
	err := w.s.RemoveDisk(w.disks[di].MemDisk.Status().Root)
	code := int64(0)
	if err != nil {
		code = -3
	}
	for i, x := range w.slots {
		if x == di {
			w.slots[i] = -1
		}
	}
	w.line([]int64{76, int64(di)}, []int64{code})
	w.monitor(fmt.Sprintf("remove-disk%d", di))
}

// hasFile looks at the platter: does disk di hold a file for the tract?
func (w *c04DiskWorld) hasFile(di int, id core.TractID) bool {
	m := w.disks[di].MemDisk
	m.lock.Lock()
	defer m.lock.Unlock()
	_, ok := m.fds[id]
	return ok
}

func (w *c04DiskWorld) slotOf(di int) int {
	for i, x := range w.slots {
		if x == di {
			return i
		}
	}
	return -1
}

// where does the Store keep the tract now (disk index, -1 unknown)?
func (w *c04DiskWorld) servedOn(t *c04Tract) int {
	for slot, di := range w.slots {
		if di < 0 {
			continue
		}
		for _, id := range w.s.GetTractsByDisk(slot) {
			if id == t.id {
				return di
			}
		}
	}
	return -1
}

func payload(wid, n int) []byte {
	b := make([]byte, n)
	for i := range b {
		b[i] = byte(wid)
	}
	return b
}

// create on disk di (the only one reporting space); ack = the client got the reply
func (w *c04DiskWorld) create(ti, di, off, n int, ack bool) {
	t := w.tracts[ti]
	for i, d := range w.disks {
		d.full = i != di
	}
	w.wid++
	wid := w.wid
	err := w.s.Create(context.Background(), t.id, payload(wid, n), int64(off))
	for _, d := range w.disks {
		d.full = false
	}
	slot := w.slotOf(di)
	w.line([]int64{71, int64(ti), int64(wid), int64(n), int64(off), int64(slot)}, []int64{int64(err)})
	t.attempts = append(t.attempts, c04Attempt{wid, off, n, ack && err == core.NoError})
	if ack && err == core.NoError {
		t.ver = 1
		t.home = w.servedOn(t)
	}
	w.monitor("create")
}

func (w *c04DiskWorld) write(ti, ver, off, n int, ack bool) {
	t := w.tracts[ti]
	w.wid++
	wid := w.wid
	err := w.s.Write(context.Background(), t.id, ver, payload(wid, n), int64(off))
	w.line([]int64{72, int64(ti), int64(ver), int64(wid), int64(n), int64(off)}, []int64{int64(err)})
	t.attempts = append(t.attempts, c04Attempt{wid, off, n, ack && err == core.NoError})
	if ack && err == core.NoError {
		t.ver = ver
		t.home = w.servedOn(t)
	}
	w.monitor("write")
}

func (w *c04DiskWorld) setVersion(ti, v int) {
	t := w.tracts[ti]
	_, err := w.s.SetVersion(t.id, v, 0)
	w.line([]int64{78, int64(ti), int64(v)}, []int64{int64(err)})
	if err == core.NoError && v > t.ver && t.home >= 0 && w.servedOn(t) == t.home {
		t.ver = v // the curator tells the client the new version
	}
	w.monitor("setversion")
}

func (w *c04DiskWorld) extent(t *c04Tract) int {
	e := 0
	for _, a := range t.attempts {
		if a.off+a.n > e {
			e = a.off + a.n
		}
	}
	return e
}

// expected byte: value of the newest attempt covering p if it was acknowledged
func (t *c04Tract) expect(p int) (byte, bool) {
	for i := len(t.attempts) - 1; i >= 0; i-- {
		a := t.attempts[i]
		if p >= a.off && p < a.off+a.n {
			if a.acked {
				return byte(a.wid), true
			}
			return 0, false
		}
	}
	return 0, true // never written
}

func (w *c04DiskWorld) read(ti int) {
	t := w.tracts[ti]
	n := w.extent(t)
	if n == 0 {
		n = 8
	}
	ver := t.ver
	if ver == 0 {
		ver = 1
	}
	b, err := w.s.Read(context.Background(), t.id, ver, n, 0)
	obs := append([]int64{int64(err)}, vw.RLE(b)...)
	w.line([]int64{73, int64(ti), int64(ver), int64(n), 0}, obs)
}

func (w *c04DiskWorld) bad(sig, what string, det map[string]interface{}) {
	if _, ok := w.bads[sig]; !ok {
		w.bads[sig] = det
		vw.Report(vw.Violation{Property: "C04", Signature: sig, What: what, Case: w.id, Detail: det})
	}
}

// monitor: after every step, for every tract with an acknowledged copy whose disk is attached
func (w *c04DiskWorld) monitor(after string) {
	for ti, t := range w.tracts {
		if t.home < 0 || t.lost || !w.attached(t.home) {
			continue
		}
		// The step in which the acknowledged copy disappears is still judged (it must fail closed); afterwards
		// the premise "the acknowledged copy is on an attached disk" is gone.
		if !w.hasFile(t.home, t.id) {
			defer func(t *c04Tract) { t.lost = true }(t)
		}
		n := w.extent(t)
		if n == 0 {
			continue
		}
		b, err := w.s.Read(context.Background(), t.id, t.ver, n, 0)
		if err == core.NoError || err == core.ErrEOF {
			for p := 0; p < n; p++ {
				want, det := t.expect(p)
				if !det {
					continue
				}
				if p >= len(b) && want == 0 {
					continue // a hole at the end of the data: never written or zero
				}
				if p >= len(b) || b[p] != want {
					got := -1
					if p < len(b) {
						got = int(b[p])
					}
					w.bad("disk-read-returns-non-acknowledged-bytes-after-"+after,
						"a read at the client's version succeeded but returned bytes other than the acknowledged ones although the disk holding the acknowledged copy is attached",
						map[string]interface{}{"tract": ti, "pos": p, "want": want, "got": got, "version": t.ver})
					break
				}
			}
			continue
		}
		// not served: must be visible as missing, so that it is re-replicated
		if missing := w.s.Check([]core.TractState{{ID: t.id, Version: t.ver}}); len(missing) != 1 {
			w.bad("disk-replica-not-served-and-not-reported-missing-after-"+after,
				"a replica that cannot be read at the client's version is not reported missing by Check", map[string]interface{}{"tract": ti, "err": err.String()})
		}
	}
}

func (w *c04DiskWorld) check() {
	var ts []core.TractState
	op := []int64{77, int64(len(w.tracts))}
	for ti, t := range w.tracts {
		v := t.ver
		if v == 0 {
			v = 1
		}
		ts = append(ts, core.TractState{ID: t.id, Version: v})
		op = append(op, int64(ti), int64(v))
	}
	missing := w.s.Check(ts)
	obs := []int64{int64(len(missing))}
	for _, m := range missing {
		obs = append(obs, int64(m.ID.Index), int64(m.Version))
	}
	w.line(op, obs)
}

func c04NewWorld(r *vw.Rng, tr *vw.Trace, id string, ndisks, ntracts int) *c04DiskWorld {
	w := &c04DiskWorld{r: r, tr: tr, id: id, bads: map[string]map[string]interface{}{}}
	for i := 0; i < ndisks; i++ {
		w.disks = append(w.disks, &c04KeepDisk{MemDisk: NewMemDisk()})
	}
	for i := 0; i < ntracts; i++ {
		w.tracts = append(w.tracts, &c04Tract{id: c04TractID(i), home: -1})
	}
	tr.Case(id)
	w.line([]int64{70}, nil)
	w.newStore()
	return w
}

func (w *c04DiskWorld) attachedList() []int {
	var out []int
	for _, x := range w.slots {
		if x >= 0 {
			out = append(out, x)
		}
	}
	return out
}

func (w *c04DiskWorld) finish() {
	for ti := range w.tracts {
		w.read(ti)
	}
	w.check()
	vw.Stat("disk.cases", 1)
}

// the scenario of the comment above resolveConflicts: create lands on X, crash before the reply; restart
// without X; the retried create lands on Y and is acknowledged, an overwrite too; restart with both.
func c04DiskDirected(root *vw.Rng, tr *vw.Trace, id string, xFirst bool, bump bool) {
	w := c04NewWorld(root.Fork(555), tr, id, 2, 1)
	w.addDisk(0)
	w.create(0, 0, 0, 40, false) // executed, never acknowledged
	w.restart([]int{1})
	w.create(0, 1, 0, 40, true)
	w.write(0, 1, 0, 40, true)
	if bump {
		w.setVersion(0, 2) // now the copies differ in version: the newer one must win whatever the order
		w.write(0, 2, 10, 20, true)
	}
	if xFirst {
		w.restart([]int{0, 1})
	} else {
		w.restart([]int{1, 0})
	}
	w.finish()
}

func c04DiskRandom(root *vw.Rng, tr *vw.Trace, ci int) {
	id := fmt.Sprintf("k%d", ci)
	r := root.Fork(uint64(100000 + ci))
	nd := r.PickInt(2, 2, 3)
	w := c04NewWorld(r, tr, id, nd, r.PickInt(1, 1, 2))
	all := r.Perm(nd)
	for _, di := range all[:r.Range(1, nd)] {
		w.addDisk(di)
	}
	steps := r.Range(8, 22)
	for k := 0; k < steps; k++ {
		att := w.attachedList()
		ti := r.Intn(len(w.tracts))
		t := w.tracts[ti]
		// the client talks to this replica only while the server serves the copy that holds everything it
		// acknowledged (with that disk absent the server cannot know that it serves a stale copy)
		cli := !t.lost && (t.home < 0 || (w.attached(t.home) && w.servedOn(t) == t.home))
		x := r.Intn(100)
		if x < 55 && !cli {
			x = 55 + r.Intn(45)
		}
		switch {
		case x < 22 && len(att) > 0: // create (first time, or a retry after a crash)
			ack := r.Chance(2, 3)
			w.create(ti, att[r.Intn(len(att))], 0, r.Range(8, 60), ack)
			if !ack {
				w.restartSubset()
			}
		case x < 45:
			v := t.ver
			if v == 0 {
				v = 1
			}
			ack := r.Chance(3, 4)
			w.write(ti, v, r.Intn(30), r.Range(4, 40), ack)
			if !ack {
				w.restartSubset()
			}
		case x < 55:
			if t.home < 0 {
				continue // the curator bumps versions of durable tracts only (the create was acknowledged)
			}
			v := t.ver + 1
			if v < 2 {
				v = 2
			}
			w.setVersion(ti, v)
		case x < 72:
			w.restartSubset()
		case x < 82:
			// live attach of a detached disk
			for _, di := range r.Perm(nd) {
				if !w.attached(di) {
					w.addDisk(di)
					break
				}
			}
		case x < 88 && len(att) > 1:
			w.removeDisk(att[r.Intn(len(att))])
		default:
			w.read(ti)
		}
	}
	// everything comes back
	w.restart(r.Perm(nd))
	w.finish()
}

func (w *c04DiskWorld) restartSubset() {
	nd := len(w.disks)
	p := w.r.Perm(nd)
	k := w.r.Range(1, nd)
	if w.r.Chance(1, 2) {
		k = nd
	}
	w.restart(p[:k])
}

func TestVerifC04Disk(t *testing.T) {
	if !vw.Enabled() {
		t.Skip("verification harness: run through /verif/bin/check")
	}
	flag.Set("stderrthreshold", "FATAL")
	logdir := filepath.Join(vw.OutDir(), "glogdisk")
	os.MkdirAll(logdir, 0o755)
	flag.Set("log_dir", logdir)
	root := vw.NewRng(vw.Seed())
	tr := vw.OpenTrace("C04disk.trace")
	defer tr.Close()
	defer vw.Finish("C04disk")
	k := 0
	for _, xf := range []bool{true, false} {
		for _, bump := range []bool{false, true} {
			id := fmt.Sprintf("dX%d", k)
			k++
			if vw.CaseSelected(id) {
				c04DiskDirected(root, tr, id, xf, bump)
			}
		}
	}
	n := vw.Scale(300, 6000)
	for ci := 0; ci < n; ci++ {
		if vw.CaseSelected(fmt.Sprintf("k%d", ci)) {
			c04DiskRandom(root, tr, ci)
		}
	}
	vw.Sample(fmt.Sprintf("disk scenarios: 4 directed + %d random", n))
	os.RemoveAll(logdir)
}
