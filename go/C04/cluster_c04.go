package verifcluster

// C04 extension of the cluster harness (overlay-only; /verif/go/C04/cluster_c04.go injected as
// pkg/verifcluster/zz_c04.go).  Fault events (on-disk corruption / deletion of a replica, the
// curator's belief that a server is down), the detection path (scrub step, heartbeat with failure
// report, CheckTracts round), the REAL recovery bookkeeping of the current leader incarnation
// (detect round, pop + run of the selected task) and the property's model-free monitors.

import (
	"fmt"
	"sort"

	"github.com/westerndigitalcorporation/blb/internal/core"
	"github.com/westerndigitalcorporation/blb/internal/curator"
	"github.com/westerndigitalcorporation/blb/internal/tractserver"
)

const (
	EvC04Corrupt = 60 // ts blob tract                      obs: file existed
	EvC04Delete  = 61 // ts blob tract                      obs: -
	EvC04Scrub   = 62 // ts blob tract                      obs: reported, failures of ts
	EvC04Beat    = 63 // ts                                 obs: reported tracts
	EvC04Check   = 64 // ts                                 obs: failures of ts afterwards
	EvC04Health  = 65 // ts health(0 healthy, 2 down)
	EvC04Detect  = 66 //                                    obs: corrupt map, entries, unrecoverable
	EvC04Pop     = 67 // op gen blob tract nbad bad...      obs: curator RPCs issued
	EvC04PopSeed = 68 // as 67, the monitor keeps expecting the durable known-tractserver set while the task runs
	EvC04Unseed  = 69 // n ids...                           the expected-only entries of the task's bad servers go again
)

type C04Weights struct {
	Corrupt, Delete, Scrub, Beat, Check, Health, Detect, Pop, Hopeless, Heartbeat, Lose int
}

type c04Task struct {
	op, blob, tract int
	bad             []int
	hostsAtStart    []int
	hopeless        bool
}

type c04Rep struct {
	present bool
	version int
	len     int
	runs    []int64
}

// C04 is the property-specific state on top of a Driver.
type C04 struct {
	D         *Driver
	W         C04Weights
	Malformed bool                 // the generator may violate the premise (kill every replica of a tract)
	Silent    map[int]bool         // lost servers: every replica gone, never heartbeat again (they still answer RPCs: with errors)
	Killed    map[core.TractID]bool // tracts whose premise was violated on purpose
	Repulled  map[core.TractID]bool // a same-version re-pull changed a replica of this tract (F21 family)

	recs     map[int]*curator.VerifRecovery
	// gen -> tract -> servers whose CORRUPTION was reported to that incarnation and not yet cleared by a
	// successful recovery task of that tract (removeCompletedTasks forgets the reports of a tract then)
	// The value is the serial number of the damage that was reported (corruptSeq): a replica that was replaced,
	// re-created by a pull and damaged AGAIN is a new damage nobody has reported yet.
	reported   map[int]map[core.TractID]map[int]int
	corruptSeq map[int]map[core.TractID]int
	lastDur  map[core.TractID]curator.VerifTractState
	prev     map[int]map[core.TractID]c04Rep
	winRec   *curator.VerifRecovery
	winAdded []core.TractserverID
	winIDs   []int64
	tasks    map[int]*c04Task
	seenEv   int
	Faults   int
	Repairs  int
}

func NewC04(d *Driver) *C04 {
	c := &C04{D: d, Silent: map[int]bool{}, Killed: map[core.TractID]bool{}, Repulled: map[core.TractID]bool{},
		recs: map[int]*curator.VerifRecovery{}, reported: map[int]map[core.TractID]map[int]int{}, corruptSeq: map[int]map[core.TractID]int{},
		lastDur: map[core.TractID]curator.VerifTractState{}, prev: map[int]map[core.TractID]c04Rep{}, tasks: map[int]*c04Task{},
		W: C04Weights{Corrupt: 5, Delete: 4, Scrub: 8, Beat: 8, Check: 5, Health: 2, Detect: 8, Pop: 14, Hopeless: 2, Heartbeat: 6, Lose: 3}}
	d.Extra = c.extra
	d.W.Heartbeat = 0 // C04 offers the heartbeats itself: a lost server never sends one again
	// a tractserver that died inside PullTract (StepCrashPull) reads nothing from further sources: without this
	// the "dead" callee would go on to the next source and a damaged source would record a failure for a
	// read that never happened
	d.Cl.NestedFail = func(from, to int, id core.TractID, version int) bool {
		return from > 0 && from < len(d.Cl.TS) && d.Cl.TS[from].Crashed()
	}
	c.ensure()
	return c
}

// ensure re-installs the corruption-detecting disk wrapper (a restart builds a new Store over the raw disk).
func (c *C04) ensure() {
	for i := 1; i < len(c.D.Cl.TS); i++ {
		tractserver.C04Install(c.D.Cl.TS[i])
	}
}

// Close drops per-case registry entries.
func (c *C04) Close() {
	for i := 1; i < len(c.D.Cl.TS); i++ {
		tractserver.C04Forget(c.D.Cl.TS[i])
	}
}

func (c *C04) rec() *curator.VerifRecovery {
	g := c.D.Cl.Cur.Gen
	r, ok := c.recs[g]
	if !ok {
		r = c.D.Cl.Cur.C04Recovery()
		c.recs[g] = r
		c.reported[g] = map[core.TractID]map[int]int{}
	}
	return r
}

func (c *C04) report(sig string, tid core.TractID, what string, det map[string]interface{}) {
	if c.Repulled[tid] || c.D.Tainted[tid] {
		sig += "-after-same-version-repull"
	}
	if det == nil {
		det = map[string]interface{}{}
	}
	det["tract"] = tid.String()
	c.D.Bads = append(c.D.Bads, Bad{Sig: sig, What: what, Detail: det})
}

func (c *C04) bt(tid core.TractID) (int64, int64) { return int64(c.D.blobIdx(uint64(tid.Blob))), int64(tid.Index) }

func (c *C04) encTracts(ids []core.TractID) []int64 {
	out := []int64{int64(len(ids))}
	for _, id := range ids {
		b, t := c.bt(id)
		out = append(out, b, t)
	}
	return out
}

// finish: settle through the Driver (monitors, client lines) and put the event's own line first.
func (c *C04) finish(ev *Event, op, obs []int64) *Event {
	c.ensure()
	ev = c.D.after(ev)
	if obs == nil {
		obs = []int64{}
	}
	ev.OpLines = append([][]int64{op}, ev.OpLines...)
	ev.ObsLines = append([][]int64{obs}, ev.ObsLines...)
	c.Poll()
	return ev
}

// ---- fault events ----

func (c *C04) Corrupt(ts, blob, tract int) *Event {
	c.ensure()
	tid := c.D.tractID(blob, tract)
	ok := tractserver.C04Corrupt(c.D.Cl.TS[ts], tid)
	if ok {
		if c.corruptSeq[ts] == nil {
			c.corruptSeq[ts] = map[core.TractID]int{}
		}
		c.corruptSeq[ts][tid]++
	}
	c.Faults++
	c.D.nFaults++
	return c.finish(&Event{Code: EvC04Corrupt}, []int64{EvC04Corrupt, int64(ts), int64(blob), int64(tract)}, []int64{b2i(ok)})
}

func (c *C04) Delete(ts, blob, tract int) *Event {
	c.ensure()
	tid := c.D.tractID(blob, tract)
	c.D.Cl.TS[ts].DeleteReplica(tid)
	c.D.Snap.Refresh(c.D.Cl, ts)
	c.Faults++
	c.D.nFaults++
	_, still := c.D.Snap.TS[ts][tid]
	return c.finish(&Event{Code: EvC04Delete}, []int64{EvC04Delete, int64(ts), int64(blob), int64(tract)}, []int64{b2i(still)})
}

func (c *C04) SetHealth(ts, h int) *Event {
	c.rec().Health[core.TractserverID(ts)] = h
	return c.finish(&Event{Code: EvC04Health}, []int64{EvC04Health, int64(ts), int64(h)}, nil)
}

// ---- detection path ----

func (c *C04) Scrub(ts, blob, tract int) *Event {
	c.ensure()
	tid := c.D.tractID(blob, tract)
	found := tractserver.C04ScrubOne(c.D.Cl.TS[ts], tid)
	obs := append([]int64{b2i(found)}, c.encTracts(tractserver.C04Failures(c.D.Cl.TS[ts]))...)
	return c.finish(&Event{Code: EvC04Scrub}, []int64{EvC04Scrub, int64(ts), int64(blob), int64(tract)}, obs)
}

func (c *C04) parts() []core.PartitionID {
	seen := map[core.PartitionID]bool{}
	var out []core.PartitionID
	for _, b := range c.D.Blobs {
		p := b.ID.Partition().WithoutType()
		if !seen[p] {
			seen[p] = true
			out = append(out, p)
		}
	}
	return out
}

// Beat = one heartbeat of a tractserver to the current leader incarnation, with its failure report.
func (c *C04) Beat(ts int) *Event {
	if c.Silent[ts] {
		return nil
	}
	c.ensure()
	c.rec()
	t := c.D.Cl.TS[ts]
	bad := tractserver.C04BeatBegin(t, c.parts())
	c.D.Cl.Cur.Heartbeat(core.TractserverID(ts), TSAddr(ts), bad, nil)
	tractserver.C04BeatEnd(t, bad)
	g := c.D.Cl.Cur.Gen
	for _, id := range bad {
		if tractserver.C04IsCorrupt(t, id) {
			if c.reported[g][id] == nil {
				c.reported[g][id] = map[int]int{}
			}
			c.reported[g][id][ts] = c.corruptSeq[ts][id]
		}
	}
	return c.finish(&Event{Code: EvC04Beat}, []int64{EvC04Beat, int64(ts)}, c.encTracts(bad))
}

// Check = the curator's CheckTracts request for one (healthy) server: every tract the durable state
// places there, with its durable version (sync_state.go checkTracts builds exactly these lists).
func (c *C04) Check(ts int) *Event {
	if c.Silent[ts] || !c.D.Cl.Cur.C04HasBeaten(core.TractserverID(ts)) || c.rec().Health[core.TractserverID(ts)] != 0 {
		return nil // the curator sends CheckTracts to healthy servers only
	}
	c.ensure()
	var tracts []core.TractState
	for _, t := range c.D.durableTracts() {
		tid := c.D.tractID(t[0], t[1])
		st := c.D.Cl.D.Tract(tid)
		for _, h := range st.Hosts {
			if int(h) == ts {
				tracts = append(tracts, core.TractState{ID: tid, Version: st.Version})
			}
		}
	}
	if len(tracts) > 0 {
		tractserver.C04CheckTracts(c.D.Cl.TS[ts], tracts)
	}
	ev := &Event{Code: EvC04Check}
	c.D.Cl.S.Settle() // the Store's checkTractsLoop goroutine
	obs := c.encTracts(tractserver.C04Failures(c.D.Cl.TS[ts]))
	return c.finish(ev, []int64{EvC04Check, int64(ts)}, obs)
}

func sortedTS(in []core.TractserverID) []int64 {
	var out []int64
	for _, x := range in {
		out = append(out, int64(x))
	}
	sort.Slice(out, func(i, j int) bool { return out[i] < out[j] })
	return out
}

// Detect = one iteration of the recovery detect loop of the current incarnation.
func (c *C04) Detect() (*Event, curator.VerifDetect) {
	c.D.Cl.Cur.DrainComplaints() // client complaints are not part of this harness: they expire unseen
	r := c.rec()
	det := r.DetectRound()
	var obs []int64
	var cids []core.TractID
	for id := range det.Corrupt {
		cids = append(cids, id)
	}
	sort.Slice(cids, func(i, j int) bool { return tractLess(cids[i], cids[j]) })
	obs = append(obs, int64(len(cids)))
	for _, id := range cids {
		b, t := c.bt(id)
		s := sortedTS(det.Corrupt[id])
		obs = append(obs, b, t, int64(len(s)))
		obs = append(obs, s...)
	}
	obs = append(obs, int64(len(det.Entries)))
	for _, e := range det.Entries {
		b, t := c.bt(e.ID)
		s := sortedTS(e.Bad)
		obs = append(obs, b, t, b2i(e.InHeap), int64(len(s)))
		obs = append(obs, s...)
	}
	obs = append(obs, c.encTracts(det.Unrecoverable)...)
	// monitor: a reported corruption is not forgotten before a repair of that tract succeeded
	g := c.D.Cl.Cur.Gen
	for id, m := range c.reported[g] {
		st := c.D.Cl.D.Tract(id)
		for ts, seq := range m {
			isHost := false
			for _, h := range st.Hosts {
				if int(h) == ts {
					isHost = true
				}
			}
			if !isHost || !tractserver.C04IsCorrupt(c.D.Cl.TS[ts], id) || seq != c.corruptSeq[ts][id] {
				// the report is moot (the curator prunes servers that are no hosts; the copy was replaced) or it
				// was about an earlier damage of a copy that has been re-created since
				delete(m, ts)
				continue
			}
			have := false
			for _, x := range det.Corrupt[id] {
				if int(x) == ts {
					have = true
				}
			}
			if !have {
				c.report("reported-corruption-forgotten-before-repair-succeeded", id,
					"the recovery loop dropped a reported corrupt replica (still a durable host, still corrupt) although no repair of the tract succeeded since the report: the failed repair is never retried",
					map[string]interface{}{"ts": ts, "gen": g})
			}
		}
	}
	// monitor: a tract all of whose hosts are bad gets no task
	for _, e := range det.Entries {
		st := c.D.Cl.D.Tract(e.ID)
		if st.OK && len(e.Bad) >= len(st.Hosts) {
			c.report("task-queued-although-all-hosts-bad", e.ID, "the recovery loop queued a re-replication although every host of the tract is bad", nil)
		}
	}
	ev := c.finish(&Event{Code: EvC04Detect}, []int64{EvC04Detect}, obs)
	return ev, det
}

func tractLess(a, b core.TractID) bool {
	if a.Blob != b.Blob {
		return a.Blob < b.Blob
	}
	return a.Index < b.Index
}

// Pop = runnerLoop: take the best queued task and run it (as an activity of the scheduler).
func (c *C04) Pop() *Event { return c.pop(false) }

// PopSeeded = Pop while the monitor expects the durable known-tractserver set (updateTsmonLoop's effect) for the
// whole run of the task; CloseWindow ends it.  Used where the task runs in isolation (Heal).
func (c *C04) PopSeeded() *Event { return c.pop(true) }

func (c *C04) CloseWindow() {
	if c.winRec == nil {
		return
	}
	c.winRec.Unseed(c.winAdded)
	op := []int64{EvC04Unseed, int64(len(c.winIDs))}
	op = append(op, c.winIDs...)
	c.winRec, c.winAdded, c.winIDs = nil, nil, nil
	c.finish(&Event{Code: EvC04Unseed}, op, nil)
}

func (c *C04) pop(seed bool) *Event {
	r := c.rec()
	vt, ok := r.PopTask()
	if !ok {
		return nil
	}
	code := int64(EvC04Pop)
	if seed {
		code = EvC04PopSeed
		c.winRec = r
		c.winAdded = r.SeedExpected(vt.Bad)
		c.winIDs = nil
		for _, a := range c.winAdded {
			c.winIDs = append(c.winIDs, int64(a))
		}
	}
	d := c.D
	cur := d.Cl.Cur
	blob, tract := int(d.blobIdx(uint64(vt.ID.Blob))), int(vt.ID.Index)
	var bad []int
	for _, x := range vt.Bad {
		bad = append(bad, int(x))
	}
	m := &opMeta{kind: EvStartRepl, blob: blob, tract: tract, gen: cur.Gen, bad: bad, ok: map[int]bool{}}
	g := cur.Gen
	op := d.Cl.S.Go("recovery", m, func() interface{} {
		err := r.RunTask(vt)
		if err == core.NoError {
			delete(c.reported[g], vt.ID)
		}
		return OpResult{Kind: EvStartRepl, Err: err}
	})
	d.tasks = append(d.tasks, op)
	c.Repairs++
	args := []int64{code, int64(op.ID), int64(cur.Gen), int64(blob), int64(tract), int64(len(bad))}
	for _, x := range bad {
		args = append(args, int64(x))
	}
	ev := &Event{Code: EvC04Pop, Args: args[1:]}
	c.ensure()
	ev = d.after(ev)
	ev.OpLines = append([][]int64{args}, ev.OpLines...)
	ev.ObsLines = append([][]int64{d.outSection(ev)}, ev.ObsLines...)
	c.Poll()
	return ev
}

// ---- the premise and the monitors ----

func bytesOf(runs []int64, n int) []byte {
	b := make([]byte, 0, n)
	for i := 0; i+1 < len(runs) && len(b) < n; i += 2 {
		for k := int64(0); k < runs[i] && len(b) < n; k++ {
			b = append(b, byte(runs[i+1]))
		}
	}
	return b
}

// intact: present, checksums valid, version at least the durable one, content = what the oracle demands.
func (c *C04) intact(ts, blob, tract int, dv int) bool {
	d := c.D
	tid := d.tractID(blob, tract)
	rep, ok := d.Snap.TS[ts][tid]
	if !ok || !rep.HasVersion || rep.Version < dv || tractserver.C04IsCorrupt(d.Cl.TS[ts], tid) {
		return false
	}
	return c.contentOK(blob, tract, rep.Len, rep.Runs)
}

func (c *C04) contentOK(blob, tract int, rlen int, runs []int64) bool {
	b := c.D.Blobs[blob]
	ext := b.O.Extent()
	lo := int64(tract) * TractLen
	hi := lo + TractLen
	if hi > ext {
		hi = ext
	}
	if hi <= lo {
		return true
	}
	if hi-lo > 1<<20 {
		return true // big cases: content is judged by the read monitors only
	}
	n := int(hi - lo)
	if rlen < n {
		n = rlen
	}
	data := bytesOf(runs, n)
	return len(b.O.CheckRead("x", lo, int(hi-lo), data, c.D.Acks)) == 0
}

// IntactHosts lists the durable hosts of a tract that hold an intact current replica.
func (c *C04) IntactHosts(blob, tract int) (out []int) {
	st := c.D.Cl.D.Tract(c.D.tractID(blob, tract))
	for _, h := range st.Hosts {
		if c.intact(int(h), blob, tract, st.Version) {
			out = append(out, int(h))
		}
	}
	return
}

// CanHurt: damaging the replica at ts keeps the premise (another intact current replica stays).
func (c *C04) CanHurt(ts, blob, tract int) bool {
	n := 0
	for _, h := range c.IntactHosts(blob, tract) {
		if h != ts {
			n++
		}
	}
	return n >= 1
}

func (c *C04) snapshotReps() {
	for i := 1; i < len(c.D.Cl.TS); i++ {
		m := map[core.TractID]c04Rep{}
		for id, r := range c.D.Snap.TS[i] {
			m[id] = c04Rep{present: true, version: r.Version, len: r.Len, runs: r.Runs}
		}
		c.prev[i] = m
	}
}

func hostSet(hs []core.TractserverID) map[int]bool {
	m := map[int]bool{}
	for _, h := range hs {
		m[int(h)] = true
	}
	return m
}

// Poll runs the transition monitors over what happened since the last call (at most a few events).
func (c *C04) Poll() {
	d := c.D
	for ts := range c.Silent {
		if c.winRec == nil && d.Cl.Cur.C04HasBeaten(core.TractserverID(ts)) {
			last := -1
			if len(d.Events) > 0 {
				last = d.Events[len(d.Events)-1].Code
			}
			d.Bads = append(d.Bads, Bad{Sig: "harness-lost-server-heartbeated", What: "harness bug: a lost server sent the current leader a heartbeat", Detail: map[string]interface{}{"ts": ts, "lastEvent": last, "events": len(d.Events), "rpc": fmt.Sprint(d.Events[len(d.Events)-1].RPC), "gen": d.Cl.Cur.Gen}})
		}
	}
	// 1. new events: task starts, same-version re-pulls, task results
	for ; c.seenEv < len(d.Events); c.seenEv++ {
		ev := d.Events[c.seenEv]
		if (ev.Code == EvStartRepl || ev.Code == EvC04Pop) && len(ev.Args) >= 5 { // (a seeded pop is recorded with code 67 too)
			t := &c04Task{op: int(ev.Args[0]), blob: int(ev.Args[2]), tract: int(ev.Args[3])}
			for _, x := range ev.Args[5:] {
				t.bad = append(t.bad, int(x))
			}
			tid := d.tractID(t.blob, t.tract)
			if st, ok := c.lastDur[tid]; ok && st.OK {
				t.hopeless = true
				badm := map[int]bool{}
				for _, x := range t.bad {
					badm[x] = true
				}
				for _, h := range st.Hosts {
					t.hostsAtStart = append(t.hostsAtStart, int(h))
					if !badm[int(h)] {
						t.hopeless = false
					}
				}
			}
			c.tasks[t.op] = t
		}
		if ev.Code == EvStep && ev.RPC != nil && ev.RPC.Kind == KPullTract && ev.Mode != ModeFail {
			r := ev.RPC
			tid := core.TractID{Blob: core.BlobID(r.Blob), Index: core.TractKey(r.Tract)}
			if p, ok := c.prev[r.TS][tid]; ok && p.present && p.version == r.Version {
				now, have := d.Snap.TS[r.TS][tid]
				if !have || now.Len != p.len || !runsEqual(now.Runs, p.runs) {
					c.Repulled[tid] = true
				}
			}
		}
		for _, f := range ev.Finished {
			if f.Kind != EvStartRepl || f.Op == nil {
				continue
			}
			if t, ok := c.tasks[f.Op.ID]; ok {
				if t.hopeless && f.Err == core.NoError {
					c.report("hopeless-repair-reported-success", d.tractID(t.blob, t.tract),
						"a re-replication whose bad set covers every durable host of the tract returned success", map[string]interface{}{"bad": fmt.Sprint(t.bad)})
				}
				delete(c.tasks, f.Op.ID)
			}
		}
	}
	// 2. durable changes
	for _, bt := range d.durableTracts() {
		tid := d.tractID(bt[0], bt[1])
		st := d.Cl.D.Tract(tid)
		old, had := c.lastDur[tid]
		c.lastDur[tid] = st
		if !had || !old.OK || !st.OK || (old.Version == st.Version && fmt.Sprint(old.Hosts) == fmt.Sprint(st.Hosts)) {
			continue
		}
		oldm, newm := hostSet(old.Hosts), hostSet(st.Hosts)
		var kept, added []int
		for h := range newm {
			if oldm[h] {
				kept = append(kept, h)
			} else {
				added = append(added, h)
			}
		}
		sort.Ints(kept)
		sort.Ints(added)
		det := map[string]interface{}{"old": fmt.Sprint(old.Version, old.Hosts), "new": fmt.Sprint(st.Version, st.Hosts)}
		if len(kept) == 0 {
			c.report("durable-change-kept-no-old-host", tid, "a durable replica-set change kept none of the previous hosts (no bumped good source can have existed)", det)
		}
		if len(newm) != len(st.Hosts) {
			c.report("durable-hosts-not-distinct", tid, "a durable replica set names a server twice", det)
		}
		for _, h := range added {
			rep, ok := d.Snap.TS[h][tid]
			dd := map[string]interface{}{"old": det["old"], "new": det["new"], "ts": h}
			switch {
			case !ok:
				c.report("repair-committed-missing-replica", tid, "a server became a durable host without holding the tract", dd)
			case !rep.HasVersion || rep.Version < st.Version:
				dd["version"] = rep.Version
				c.report("repair-committed-stale-version-replica", tid, "a server became a durable host with a copy older than the committed version", dd)
			case tractserver.C04IsCorrupt(d.Cl.TS[h], tid):
				c.report("repair-committed-corrupt-replica", tid, "a server became a durable host with a corrupt copy", dd)
			default:
				match, any := false, false
				for _, s := range kept {
					if sr, ok := d.Snap.TS[s][tid]; ok {
						any = true
						if sr.Len == rep.Len && runsEqual(sr.Runs, rep.Runs) {
							match = true
						}
					}
				}
				if any && !match {
					dd["copy"] = fmt.Sprintf("v%d len%d %v", rep.Version, rep.Len, rep.Runs)
					c.report("repair-committed-partial-or-wrong-copy", tid, "a server became a durable host with content that equals no surviving host's content", dd)
				} else if !c.contentOK(bt[0], bt[1], rep.Len, rep.Runs) {
					c.report("repair-committed-copy-missing-acked-data", tid, "a server became a durable host with content that lacks acknowledged data", dd)
				}
			}
		}
	}
	// 3. acknowledged data is still stored on a host the durable record names (premise held)
	for _, bt := range d.durableTracts() {
		tid := d.tractID(bt[0], bt[1])
		if c.Killed[tid] {
			continue
		}
		if len(c.IntactHosts(bt[0], bt[1])) == 0 {
			st := d.Cl.D.Tract(tid)
			c.report("acked-data-on-no-named-host", tid, "no durable host of the tract holds an intact current replica any more although the generator never violated the premise",
				map[string]interface{}{"durable": fmt.Sprint(st.Version, st.Hosts)})
			c.Killed[tid] = true // report once
		}
	}
	c.snapshotReps()
}

// CheckRedundancy is the quiescence monitor: every tract has exactly repl intact replicas on distinct servers.
func (c *C04) CheckRedundancy() {
	d := c.D
	for _, bt := range d.durableTracts() {
		tid := d.tractID(bt[0], bt[1])
		if c.Killed[tid] {
			continue
		}
		st := d.Cl.D.Tract(tid)
		repl := d.Blobs[bt[0]].Repl
		ih := c.IntactHosts(bt[0], bt[1])
		hs := hostSet(st.Hosts)
		if len(st.Hosts) != repl || len(hs) != repl || len(ih) != repl {
			det := map[string]interface{}{"durable": fmt.Sprint(st.Version, st.Hosts), "intact": fmt.Sprint(ih), "repl": repl}
			for _, h := range st.Hosts {
				rep, ok := d.Snap.TS[int(h)][tid]
				det[fmt.Sprintf("ts%d", h)] = fmt.Sprintf("present=%v v%d len%d corrupt=%v", ok, rep.Version, rep.Len, tractserver.C04IsCorrupt(d.Cl.TS[int(h)], tid))
			}
			c.report("quiesce-redundancy-not-restored", tid, "faults stopped and the recovery rounds ran to completion, yet the tract does not have repl intact replicas on distinct servers", det)
		}
	}
}

// Quiesce is Driver.Quiesce with the transition monitors after every step.
func (c *C04) Quiesce() bool {
	d := c.D
	for i := 0; i < 3000; i++ {
		c.ensure()
		nts := len(d.Cl.TS) - 1
		for j := 1; j <= nts; j++ {
			if !d.Cl.Cur.KnowsTS(core.TractserverID(j)) && !c.Silent[j] {
				d.Heartbeat(j)
			}
		}
		if o := d.orphan(); o != nil {
			d.resolveOrphan(o, false)
			c.Poll()
			continue
		}
		pend := d.Cl.S.Pending()
		if len(pend) == 0 {
			return true
		}
		progressed := false
		for _, r := range pend {
			if r.State == StParked {
				if r.Kind == KFixVersion && d.lockLoad(d.blobIdx(r.Blob), r.Tract) >= 2 {
					continue
				}
				d.Step(r, ModeDeliver)
				progressed = true
				break
			}
			if r.State == StExecuted {
				d.Reply(r, false)
				progressed = true
				break
			}
		}
		c.Poll()
		if !progressed {
			d.report(Bad{Sig: "harness-deadlock", What: "activities blocked on each other with nothing deliverable", Detail: map[string]interface{}{"pending": fmt.Sprint(pend)}})
			return false
		}
	}
	return false
}

// Heal: faults have stopped.  Every server is seen healthy again, un-reported damage is detected once
// (scrub for corruption, CheckTracts for missing copies), reports are delivered, and the recovery loop
// runs rounds until it has nothing left to do.  Returns the number of rounds.
func (c *C04) Heal(maxRounds int) int {
	d := c.D
	nts := len(d.Cl.TS) - 1
	c.Quiesce()
	for ts := 1; ts <= nts; ts++ {
		if c.rec().Health[core.TractserverID(ts)] != 0 {
			c.SetHealth(ts, 0)
		}
	}
	for round := 1; round <= maxRounds; round++ {
		g := d.Cl.Cur.Gen
		c.rec()
		for ts := 1; ts <= nts; ts++ {
			if c.Silent[ts] {
				continue
			}
			for _, bt := range d.durableTracts() {
				tid := d.tractID(bt[0], bt[1])
				if seq, rep := c.reported[g][tid][ts]; tractserver.C04IsCorrupt(d.Cl.TS[ts], tid) && !(rep && seq == c.corruptSeq[ts][tid]) {
					c.Scrub(ts, bt[0], bt[1])
				}
			}
			c.Check(ts)
			c.Beat(ts)
		}
		_, det := c.Detect()
		if len(det.Entries) == 0 {
			return round
		}
		for c.PopSeeded() != nil {
			c.Quiesce()
			c.CloseWindow()
		}
		c.Quiesce()
	}
	return maxRounds + 1
}

// ---- random actions ----

func (c *C04) extra(d *Driver) []Action {
	c.ensure()
	c.Poll()
	var acts []Action
	w := c.W
	nts := len(d.Cl.TS) - 1
	dts := d.durableTracts()
	if len(dts) > 0 {
		pickHost := func() (int, int, int, bool) {
			t := dts[d.R.Intn(len(dts))]
			st := d.Cl.D.Tract(d.tractID(t[0], t[1]))
			if len(st.Hosts) == 0 {
				return 0, 0, 0, false
			}
			return int(st.Hosts[d.R.Intn(len(st.Hosts))]), t[0], t[1], true
		}
		hurt := func(del bool) {
			ts, b, t, ok := pickHost()
			if !ok {
				return
			}
			tid := d.tractID(b, t)
			if !c.CanHurt(ts, b, t) {
				if !c.Malformed || !d.R.Chance(1, 3) {
					return
				}
				c.Killed[tid] = true
			}
			if del {
				c.Delete(ts, b, t)
			} else {
				c.Corrupt(ts, b, t)
			}
		}
		acts = append(acts, Action{w.Corrupt, func() { hurt(false) }})
		acts = append(acts, Action{w.Delete, func() { hurt(true) }})
		acts = append(acts, Action{w.Scrub, func() {
			// prefer replicas that are corrupt
			var cand [][3]int
			for ts := 1; ts <= nts; ts++ {
				for _, bt := range dts {
					if tractserver.C04IsCorrupt(d.Cl.TS[ts], d.tractID(bt[0], bt[1])) {
						cand = append(cand, [3]int{ts, bt[0], bt[1]})
					}
				}
			}
			if len(cand) > 0 && d.R.Chance(4, 5) {
				x := cand[d.R.Intn(len(cand))]
				c.Scrub(x[0], x[1], x[2])
				return
			}
			if ts, b, t, ok := pickHost(); ok {
				c.Scrub(ts, b, t)
			}
		}})
		acts = append(acts, Action{w.Check, func() { c.Check(d.R.Range(1, nts)) }})
	}
	if len(dts) > 0 && len(d.tasks) < 3 {
		// somebody insists on a repair with EVERY host declared bad, while spare servers have room
		acts = append(acts, Action{w.Hopeless, func() {
			t := dts[d.R.Intn(len(dts))]
			st := d.Cl.D.Tract(d.tractID(t[0], t[1]))
			if len(st.Hosts) == 0 || d.lockLoad(t[0], t[1]) >= 2 {
				return
			}
			var bad []int
			for _, h := range st.Hosts {
				bad = append(bad, int(h))
			}
			sort.Ints(bad)
			d.Cl.SetEligible(d.Cl.Cur, nil)
			d.StartReplicate(t[0], t[1], bad)
			c.Poll()
		}})
	}
	for i := 1; i <= nts; i++ {
		i := i
		if !d.Cl.Cur.KnowsTS(core.TractserverID(i)) && !c.Silent[i] {
			acts = append(acts, Action{w.Heartbeat, func() { d.Heartbeat(i) }})
		}
	}
	// a server is lost for good before it has sent the current leader a heartbeat: every replica on it is gone
	// and it never heartbeats again.  One per case, only with a spare server to spare, premise kept.
	if len(c.Silent) == 0 && len(d.Blobs) > 0 && nts >= 2*d.Blobs[0].Repl {
		var cand []int
		for i := 1; i <= nts; i++ {
			if d.Cl.Cur.KnowsTS(core.TractserverID(i)) {
				continue
			}
			ok, hosts := true, false
			for _, bt := range dts {
				for _, h := range d.Cl.D.Tract(d.tractID(bt[0], bt[1])).Hosts {
					if int(h) == i {
						hosts = true
						if !c.CanHurt(i, bt[0], bt[1]) {
							ok = false
						}
					}
				}
			}
			if ok && hosts {
				cand = append(cand, i)
			}
		}
		if len(cand) > 0 {
			acts = append(acts, Action{w.Lose, func() { c.Lose(cand[d.R.Intn(len(cand))]) }})
		}
	}
	acts = append(acts, Action{w.Beat, func() {
		if ts := d.R.Range(1, nts); !c.Silent[ts] {
			c.Beat(ts)
		}
	}})
	acts = append(acts, Action{w.Health, func() {
		ts := d.R.Range(1, nts)
		h := 2
		if c.rec().Health[core.TractserverID(ts)] != 0 || d.R.Chance(1, 3) {
			h = 0
		}
		c.SetHealth(ts, h)
	}})
	acts = append(acts, Action{w.Detect, func() { c.Detect() }})
	if c.rec().QueueLen() > 0 && len(d.tasks) < 3 && c.popSafe() {
		acts = append(acts, Action{w.Pop, func() { c.Pop() }})
	}
	return acts
}

// popSafe: whichever queued task popTask returns, its tract lock has at most one holder and no waiter
// (the wake-up order of several waiters of a curator tract lock is not deterministic).
func (c *C04) popSafe() bool {
	for _, e := range c.rec().Snapshot().Entries {
		if e.InHeap && c.D.lockLoad(c.D.blobIdx(uint64(e.ID.Blob)), int(e.ID.Index)) >= 2 {
			return false
		}
	}
	return true
}

// CheckAllReplicas = Driver.CheckAllReplicas as a pure observer: the monitor's direct reads of corrupt
// replicas must not show up in the tractservers' failure reports.
func (c *C04) CheckAllReplicas() {
	c.ensure()
	var saved []map[core.TractID]core.Error
	for i := 1; i < len(c.D.Cl.TS); i++ {
		saved = append(saved, tractserver.C04FailSnapshot(c.D.Cl.TS[i]))
	}
	c.D.CheckAllReplicas()
	for i := 1; i < len(c.D.Cl.TS); i++ {
		tractserver.C04FailRestore(c.D.Cl.TS[i], saved[i-1])
	}
}

// Lose: the server is lost for good: every replica it holds of a durable tract is gone (events 61) and it never
// heartbeats again.
func (c *C04) Lose(ts int) {
	c.Silent[ts] = true
	for _, bt := range c.D.durableTracts() {
		tid := c.D.tractID(bt[0], bt[1])
		if _, ok := c.D.Snap.TS[ts][tid]; ok {
			c.Delete(ts, bt[0], bt[1])
		}
	}
}
