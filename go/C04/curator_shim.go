package curator

// C04 shim (overlay-only; /verif/go/C04/curator_shim.go injected as
// internal/curator/zz_verif_c04_shim.go).  Drives the REAL recovery bookkeeping of one leader
// incarnation (recovery_loop.go) without its two endless goroutines:
//   DetectRound = the body of detectLoop for one iteration (same calls, same order),
//   PopTask     = runnerLoop's popTask,
//   RunTask     = runTask (task.Run + the completion message), without metrics and bandwidth limiter.
// Health of tractservers is an environment input: SetHealth makes the incarnation's
// tractserverMonitor see a server's last heartbeat as recent / older than TsUnhealthy / older than
// TsDown (the cluster harness keeps the curator clock frozen and refreshes heartbeats on its own).

import (
	"sort"
	"time"

	"github.com/prometheus/client_golang/prometheus"

	"github.com/westerndigitalcorporation/blb/internal/core"
)

// VerifRecovery is the recovery state of one leader incarnation.
type VerifRecovery struct {
	R      *recovery
	V      *VerifCurator
	Health map[core.TractserverID]int // 0 healthy, 1 unhealthy, 2 down
}

func c04Gauge(name string) prometheus.Gauge {
	return prometheus.NewGauge(prometheus.GaugeOpts{Name: "verif_c04_" + name}) // not registered
}

// C04Recovery builds the recovery object of this incarnation (as newRecovery does, minus the loops).
func (v *VerifCurator) C04Recovery() *VerifRecovery {
	r := &recovery{
		c:             v.C,
		completed:     make(chan idAndErr, 1000),
		entryMap:      make(map[core.TractID]entWithHash, 1000),
		blocked1:      make(map[core.TractID]TSIDSet),
		blocked2:      make(map[core.TractID]TSIDSet),
		corrupt:       make(map[core.TractID]TSIDSet),
		corruptGen:    make(map[core.TractID]bool),
		unrecoverable: make(map[core.TractID]bool),

		metricBlocked:       c04Gauge("blocking_tracts"),
		metricCorrupt:       c04Gauge("corrupt_tracts"),
		metricQueued:        c04Gauge("recovery_queued"),
		metricActive:        c04Gauge("recovery_active"),
		metricUnrecoverable: c04Gauge("unrecoverable"),
	}
	return &VerifRecovery{R: r, V: v, Health: map[core.TractserverID]int{}}
}

// applyHealth rewrites the monitor's view of when each server that HAS heartbeaten to this incarnation last
// beat.  A server the monitor only expects (it is in the durable known-tractserver set but has not sent this
// incarnation a heartbeat: no address yet) is left alone: with the start-up grace period long over the real
// refreshStatus counts it as down.
func (vr *VerifRecovery) applyHealth() {
	t := vr.V.C.tsMon
	t.lock.Lock()
	defer t.lock.Unlock()
	now := t.getTime()
	t.start = now.Add(-24 * time.Hour) // the grace period after start-up is long over
	for id, data := range t.idToHost {
		if data.Addr == "" {
			continue // expected only
		}
		switch vr.Health[id] {
		case 0:
			data.LastBeat = now
		case 1:
			data.LastBeat = now.Add(-t.config.TsUnhealthy - time.Second)
		default:
			data.LastBeat = now.Add(-t.config.TsDown - time.Second)
		}
		t.idToHost[id] = data
	}
	t.refreshStatus()
}

// seedExpected is the body of updateTsmonLoop: the monitor is told to expect every tractserver of the DURABLE
// known-tractserver set (that is how a new leader learns which servers it must watch before they heartbeat).
// Returns the ids that were not in the monitor before.
func (vr *VerifRecovery) seedExpected() (added []core.TractserverID) {
	c := vr.V.C
	t := c.tsMon
	ids := c.stateHandler.GetKnownTSIDs()
	t.lock.Lock()
	for _, id := range ids {
		if _, ok := t.idToHost[id]; !ok {
			added = append(added, id)
		}
	}
	t.lock.Unlock()
	t.updateExpected(ids)
	return
}

// unseed takes the expected-only entries out again after the detect round.  The Cluster harness and model keep an
// incarnation's address table as "servers that have heartbeaten" (an expected entry without address would make
// replicateTract send RPCs to the empty address instead of failing with ErrHostNotExist, which the shared Cluster
// model does not describe); the recovery loop's status snapshot, the only consumer that matters for C04, has
// been taken by then.
func (vr *VerifRecovery) unseed(added []core.TractserverID) {
	t := vr.V.C.tsMon
	t.lock.Lock()
	for _, id := range added {
		if d, ok := t.idToHost[id]; ok && d.Addr == "" {
			delete(t.idToHost, id)
		}
	}
	t.refreshStatus()
	t.lock.Unlock()
}

// HasBeaten reports whether the server has sent this incarnation a heartbeat.
func (v *VerifCurator) C04HasBeaten(id core.TractserverID) bool {
	a, ok := v.C.tsMon.getAddrByID(id)
	return ok && a != ""
}

// VerifTask describes a queued or running recovery task.
type VerifTask struct {
	ID     core.TractID
	Bad    []core.TractserverID
	Factor int
	InHeap bool
	RS     bool // an rsTask (ID is the chunk's base id as a tract id); N, M its class
	N, M   int
	t      task
}

func (vt *VerifTask) fill(t task) {
	vt.t = t
	switch x := t.(type) {
	case *replTask:
		vt.Bad = append([]core.TractserverID(nil), x.badTs.ToSlice()...)
		vt.Factor = int(x.factor)
	case *rsTask:
		vt.RS = true
		vt.Bad = append([]core.TractserverID(nil), x.badTs.ToSlice()...)
		vt.N, vt.M = int(x.n), int(x.m)
	}
}

// VerifDetect is what one detect round left behind.
type VerifDetect struct {
	Corrupt       map[core.TractID][]core.TractserverID
	Entries       []VerifTask
	Unrecoverable []core.TractID
}

func c04Less(a, b core.TractID) bool {
	if a.Blob != b.Blob {
		return a.Blob < b.Blob
	}
	return a.Index < b.Index
}

// DetectRound runs one iteration of detectLoop's body.
func (vr *VerifRecovery) DetectRound() VerifDetect {
	r := vr.R
	added := vr.seedExpected() // updateTsmonLoop's body: expect what the durable state knows
	defer vr.unseed(added)
	vr.applyHealth()

	r.currentGen = !r.currentGen

	r.removeCompletedTasks()
	r.updateCorrupt()
	r.updateBlocked()
	r.status = r.c.tsMon.getStatus()

	r.changed = 0
	r.c.stateHandler.ForEachTract(r.eachTract, r.c.stateHandler.IsLeader)
	r.c.stateHandler.ForEachRSChunk(r.eachChunk, r.c.stateHandler.IsLeader)

	r.pruneDeletedCorrupt()
	r.pruneDeletedUnrecoverable()

	return vr.Snapshot()
}

// Snapshot reads the bookkeeping without changing it.
func (vr *VerifRecovery) Snapshot() VerifDetect {
	r := vr.R
	out := VerifDetect{Corrupt: map[core.TractID][]core.TractserverID{}}
	for id, set := range r.corrupt {
		s := append([]core.TractserverID(nil), set.ToSlice()...)
		sort.Slice(s, func(i, j int) bool { return s[i] < s[j] })
		out.Corrupt[id] = s
	}
	r.pendingLock.Lock()
	for id, eh := range r.entryMap {
		vt := VerifTask{ID: id, InHeap: eh.ent.index >= 0}
		vt.fill(eh.ent.task)
		out.Entries = append(out.Entries, vt)
	}
	r.pendingLock.Unlock()
	sort.Slice(out.Entries, func(i, j int) bool { return c04Less(out.Entries[i].ID, out.Entries[j].ID) })
	for id := range r.unrecoverable {
		out.Unrecoverable = append(out.Unrecoverable, id)
	}
	sort.Slice(out.Unrecoverable, func(i, j int) bool { return c04Less(out.Unrecoverable[i], out.Unrecoverable[j]) })
	return out
}

// PopTask is runnerLoop's popTask: the queued task with the best score.
func (vr *VerifRecovery) PopTask() (VerifTask, bool) {
	t, ok := vr.R.popTask()
	if !ok {
		return VerifTask{}, false
	}
	vt := VerifTask{ID: t.ID()}
	vt.fill(t)
	return vt, true
}

// RunTask is runTask: run the task under this incarnation and hand the result to the detect loop.
func (vr *VerifRecovery) RunTask(vt VerifTask) core.Error {
	err := vt.t.Run(vr.R.c)
	vr.R.completed <- idAndErr{vt.t.ID(), err}
	return err
}

// QueueLen is the number of queued (not yet started) tasks.
func (vr *VerifRecovery) QueueLen() int {
	vr.R.pendingLock.Lock()
	defer vr.R.pendingLock.Unlock()
	return len(vr.R.pending)
}

// HeartbeatBad delivers a heartbeat that carries a failure report.
func (v *VerifCurator) HeartbeatBad(id core.TractserverID, addr string, bad []core.TractID) []core.PartitionID {
	return v.C.tractserverHeartbeat(id, addr, bad, nil, core.TractserverLoad{AvailSpace: 1 << 40, TotalSpace: 1 << 41})
}

// C04GcOnce is one iteration of gcTractserverContents for one heartbeat report: CheckForGarbage, then
// filterPendingPieces, then the GCTract RPC (same calls, same order).
func (v *VerifCurator) C04GcOnce(id core.TractserverID, addr string, has []core.TractID) (old []core.TractState, gone []core.TractID) {
	c := v.C
	old, gone = c.stateHandler.CheckForGarbage(id, has)
	gone = c.filterPendingPieces(gone)
	if len(old) > 0 || len(gone) > 0 {
		c.tt.GCTract(addr, id, old, gone)
	}
	return
}

// C04Reconstruct runs the real reconstructChunk directly (a caller insisting on a repair).
func (v *VerifCurator) C04Reconstruct(id core.RSChunkID, bad []core.TractserverID) core.Error {
	return v.C.reconstructChunk(id, bad)
}

// C04RSHosts reads the durable host list of a chunk (nil if unknown).
func (d *VerifDurable) C04RSHosts(id core.RSChunkID) []core.TractserverID {
	ch := d.SH.GetRSChunk(id)
	if ch == nil {
		return nil
	}
	out := make([]core.TractserverID, ch.HostsLength())
	for i := range out {
		out[i] = core.TractserverID(ch.Hosts(i))
	}
	return out
}

// C04PieceLength is what reconstructChunk asks RSEncode for (the production piece length).
const C04PieceLength = RSPieceLength

// SeedExpected / Unseed: see seedExpected / unseed.  The C04 harness keeps the expected entries for the whole run of
// a recovery task it runs in isolation (Heal): reconstruct / replicateTract need the monitor to know the servers they
// are told are bad (allocateTS looks their addresses up), which in production it does because updateTsmonLoop keeps
// the durable known-tractserver set in the monitor.
func (vr *VerifRecovery) SeedExpected(only []core.TractserverID) (added []core.TractserverID) {
	// only the servers the task names (the harness' placement pinning heartbeats every server the monitor has an
	// entry for, which must not turn an expected-only server into a reachable one)
	c := vr.V.C
	t := c.tsMon
	var ids []core.TractserverID
	for _, id := range c.stateHandler.GetKnownTSIDs() {
		for _, o := range only {
			if o == id {
				ids = append(ids, id)
			}
		}
	}
	t.lock.Lock()
	for _, id := range ids {
		if _, ok := t.idToHost[id]; !ok {
			added = append(added, id)
		}
	}
	t.lock.Unlock()
	t.updateExpected(ids)
	return
}

// Unseed ends the window: the entries SeedExpected added go again, also if the harness' placement pinning (which
// sends a load report on behalf of every server the monitor has an entry for) gave them an address meanwhile - the
// server itself never sent this incarnation a heartbeat.
func (vr *VerifRecovery) Unseed(added []core.TractserverID) {
	t := vr.V.C.tsMon
	t.lock.Lock()
	for _, id := range added {
		if d, ok := t.idToHost[id]; ok {
			if d.Addr != "" {
				delete(t.hostToID, d.Addr)
			}
			delete(t.idToHost, id)
		}
	}
	t.refreshStatus()
	t.lock.Unlock()
}
