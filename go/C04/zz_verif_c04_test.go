package blb_test

// C04 harness (overlay; lives in /verif/go/C04, injected as client/blb/zz_verif_c04_test.go).
// Integrated cluster of pkg/verifcluster (real Stores, real curator incarnations on one real durable
// state, real clients, every RPC scheduled) plus the C04 extension (zz_c04.go): on-disk corruption and
// deletion of replicas, "server is down" beliefs of the curator, the detection path (scrub step,
// heartbeat failure report, CheckTracts), the real recovery bookkeeping (detect round, popTask, runTask).

import (
	"bufio"
	"encoding/json"
	"flag"
	"fmt"
	"os"
	"os/exec"
	"path/filepath"
	"runtime"
	"strconv"
	"strings"
	"testing"

	vc "github.com/westerndigitalcorporation/blb/pkg/verifcluster"
	vw "github.com/westerndigitalcorporation/blb/pkg/verifwire"
)

func c04Report(d *vc.Driver, id string) {
	seen := map[string]bool{}
	for _, b := range d.Bads {
		if seen[b.Sig] {
			continue
		}
		seen[b.Sig] = true
		vw.Report(vw.Violation{Property: "C04", Signature: b.Sig, What: b.What, Case: id, Detail: b.Detail})
	}
}

func c04Stats(d *vc.Driver, c *vc.C04) {
	vw.Stat("cases", 1)
	vw.Stat("events", int64(len(d.Events)))
	vw.Stat("faults", int64(c.Faults))
	vw.Stat("recovery.tasks", int64(c.Repairs))
	for _, e := range d.Events {
		vw.Stat(fmt.Sprintf("ev.%d", e.Code), 1)
		if e.Code == vc.EvStep {
			vw.Stat(fmt.Sprintf("step.%s.mode%d", e.RPC.Kind, e.Mode), 1)
		}
		for _, f := range e.Finished {
			vw.Stat(fmt.Sprintf("done.kind%d.err%d", f.Kind, vc.ErrClass(f.Err)), 1)
		}
	}
}

func c04FinalReads(d *vc.Driver, c *vc.C04) {
	for _, b := range d.Blobs {
		ext := b.O.Extent()
		if ext == 0 {
			continue
		}
		for cl := range d.Clients {
			d.StartRead(cl, b.Idx, 0, int(ext)+10)
			c.Quiesce()
		}
	}
	c.CheckAllReplicas()
}

func c04Case(root *vw.Rng, ci int, tr *vw.Trace) {
	id := fmt.Sprint(ci)
	r := root.Fork(uint64(ci))
	repl := r.PickInt(2, 2, 3, 3, 3)
	nTS := 2*repl - 1 + r.PickInt(0, 1, 1)
	d := vc.NewDriver(r, nTS, []bool{r.Chance(4, 5), r.Chance(1, 2)}, id)
	defer d.Cl.Close()
	c := vc.NewC04(d)
	defer c.Close()
	c.Malformed = r.Chance(1, 5)
	d.MaxTracts = 1
	nb := r.PickInt(1, 1, 2)
	for i := 0; i < nb; i++ {
		d.NewBlob(repl)
	}
	// fewer plain interleaving faults than C01, more repair traffic
	d.W.Write, d.W.Read = 10, 6
	d.W.Probe, d.W.ProbeStore, d.W.ThirdPartyFix = 0, 0, 1
	d.W.Replicate, d.W.ReplicateDuringWrite = 1, 4
	if r.Chance(1, 3) {
		d.W.PLose, d.W.PFail, d.W.PTwice, d.W.PReplyLose = 0, 0, 0, 0
	}
	steps := vw.Scale(r.Range(40, 90), r.Range(60, 260))
	rounds := r.PickInt(1, 2, 2, 3)
	d.Cl.S.SetAuto(false)
	// some acknowledged data first
	for _, b := range d.Blobs {
		d.StartWrite(0, b.Idx, 0, r.Range(20, 120))
		c.Quiesce()
	}
	healed := 0
	for k := 0; k < rounds; k++ {
		d.RunRandom(steps / rounds)
		if k == rounds-1 || r.Chance(1, 2) {
			n := c.Heal(8)
			healed = n
			c.CheckRedundancy()
			c.CheckAllReplicas()
		}
	}
	c04FinalReads(d, c)
	c04Report(d, id)
	c04Stats(d, c)
	vw.Stat(fmt.Sprintf("heal.rounds.%d", healed), 1)
	fp := fmt.Sprintf("%d/%d/%d/%d/%d", repl, nTS, c.Faults, c.Repairs, healed)
	vw.Distinct(fp)
	if os.Getenv("VERIF_CHUNK") != "" {
		if f, err := os.OpenFile(filepath.Join(vw.OutDir(), "distinct.txt"), os.O_APPEND|os.O_CREATE|os.O_WRONLY, 0o644); err == nil {
			fmt.Fprintln(f, fp)
			f.Close()
		}
	}
	d.WriteTrace(tr)
	if ci < 4 {
		vw.Sample(fmt.Sprintf("case %d: repl=%d servers=%d blobs=%d events=%d faults=%d recovery tasks=%d heal rounds=%d malformed=%v",
			ci, repl, nTS, nb, len(d.Events), c.Faults, c.Repairs, healed, c.Malformed))
	}
}

func deliverWhere4(d *vc.Driver, c *vc.C04, mode int, pred func(r *vc.RPC) bool) int {
	n := 0
	for i := 0; i < 200; i++ {
		var pick *vc.RPC
		for _, r := range d.Cl.S.Pending() {
			if r.State == vc.StParked && pred(r) {
				pick = r
				break
			}
		}
		if pick == nil {
			return n
		}
		d.Step(pick, mode)
		c.Poll()
		n++
	}
	return n
}

// setup for the directed cases: one blob, one acknowledged write, everything quiet.
func c04Setup(root *vw.Rng, fork uint64, id string, repl, nTS int) (*vc.Driver, *vc.C04, []int) {
	d := vc.NewDriver(root.Fork(fork), nTS, []bool{true, false}, id)
	c := vc.NewC04(d)
	d.NewBlob(repl)
	d.Cl.S.SetAuto(false)
	d.StartWrite(0, 0, 0, 100)
	c.Quiesce()
	st := d.Cl.D.Tract(d.TractID(0, 0))
	var hosts []int
	for _, h := range st.Hosts {
		hosts = append(hosts, int(h))
	}
	return d, c, hosts
}

// dA: a corrupt replica is found by a client read, reported once, the first repair attempt fails at the
// copy step; the recovery loop must keep the report and retry until the tract is whole again.
func c04DirectedRetry(root *vw.Rng, tr *vw.Trace, id string) {
	d, c, hosts := c04Setup(root, 9001, id, 2, 4)
	defer d.Cl.Close()
	defer c.Close()
	if len(hosts) != 2 {
		return
	}
	c.Corrupt(hosts[0], 0, 0)
	c.Scrub(hosts[0], 0, 0) // the scrubber finds it; the tractserver reports a failure at most once
	c.Beat(hosts[0])
	c.Detect()
	c.Pop()
	deliverWhere4(d, c, vc.ModeDeliver, func(r *vc.RPC) bool { return r.Kind == vc.KSetVersion })
	deliverWhere4(d, c, vc.ModeFail, func(r *vc.RPC) bool { return r.Kind == vc.KPullTract }) // the copy fails
	c.Quiesce()
	c.Detect() // takes note of the failed task
	c.Detect()
	n := c.Heal(6)
	c.CheckRedundancy()
	c.CheckAllReplicas()
	c04FinalReads(d, c)
	c04Report(d, id)
	c04Stats(d, c)
	vw.Stat("directed", 1)
	vw.Stat(fmt.Sprintf("heal.rounds.%d", n), 1)
	d.WriteTrace(tr)
}

// dB: the destination tractserver dies inside PullTract's create (file + version xattr, no data); the
// repair is retried onto the same (only) spare server.
func c04DirectedCrashPull(root *vw.Rng, tr *vw.Trace, id string) {
	d, c, hosts := c04Setup(root, 9002, id, 2, 3)
	defer d.Cl.Close()
	defer c.Close()
	if len(hosts) != 2 {
		return
	}
	c.Delete(hosts[1], 0, 0)
	c.Check(hosts[1])
	c.Beat(hosts[1])
	c.Detect()
	c.Pop()
	deliverWhere4(d, c, vc.ModeDeliver, func(r *vc.RPC) bool { return r.Kind == vc.KSetVersion })
	for _, r := range d.Cl.S.Pending() {
		if r.Kind == vc.KPullTract && r.State == vc.StParked {
			d.StepCrashPull(r)
			c.Poll()
			break
		}
	}
	c.Quiesce()
	n := c.Heal(6)
	c.CheckRedundancy()
	c.CheckAllReplicas()
	d.StartWrite(0, 0, 50, 100)
	c.Quiesce()
	c04FinalReads(d, c)
	c04Report(d, id)
	c04Stats(d, c)
	vw.Stat("directed", 1)
	vw.Stat(fmt.Sprintf("heal.rounds.%d", n), 1)
	d.WriteTrace(tr)
}

// dC (malformed stream): every replica of the tract is damaged.  The recovery loop must refuse (no task,
// no durable change) and reads must fail closed.
func c04DirectedHopeless(root *vw.Rng, tr *vw.Trace, id string) {
	d, c, hosts := c04Setup(root, 9003, id, 2, 4)
	defer d.Cl.Close()
	defer c.Close()
	if len(hosts) != 2 {
		return
	}
	c.Killed[d.TractID(0, 0)] = true
	c.Corrupt(hosts[0], 0, 0)
	c.Delete(hosts[1], 0, 0)
	before := d.Cl.D.Tract(d.TractID(0, 0))
	d.StartRead(1, 0, 0, 100) // the reader finds out (checksum failure / missing tract)
	c.Quiesce()
	c.Check(hosts[1])
	c.Scrub(hosts[0], 0, 0)
	c.Beat(hosts[0])
	c.Beat(hosts[1])
	_, det := c.Detect()
	if len(det.Entries) != 0 || len(det.Unrecoverable) != 1 {
		d.Bads = append(d.Bads, vc.Bad{Sig: "hopeless-tract-not-refused", What: "every host of the tract is bad, yet the recovery loop did not mark it unrecoverable / queued a task",
			Detail: map[string]interface{}{"entries": len(det.Entries), "unrecoverable": len(det.Unrecoverable)}})
	}
	// a caller insisting on a repair with every host bad is refused too
	d.Cl.SetEligible(d.Cl.Cur, nil) // the spare servers have room
	d.StartReplicate(0, 0, hosts)
	c.Quiesce()
	c.Heal(3)
	after := d.Cl.D.Tract(d.TractID(0, 0))
	if fmt.Sprint(before) != fmt.Sprint(after) {
		d.Bads = append(d.Bads, vc.Bad{Sig: "hopeless-tract-durable-changed", What: "every host of the tract is bad, yet its durable record changed",
			Detail: map[string]interface{}{"before": fmt.Sprint(before), "after": fmt.Sprint(after)}})
	}
	c.CheckAllReplicas()
	c04FinalReads(d, c)
	c04Report(d, id)
	c04Stats(d, c)
	vw.Stat("directed", 1)
	d.WriteTrace(tr)
}

// dD: the curator believes a healthy server is down while a client keeps writing through it; a second
// host is corrupt; leadership changes between the copy and the commit; the new leader repairs again.
func c04DirectedAbandon(root *vw.Rng, tr *vw.Trace, id string) {
	d, c, hosts := c04Setup(root, 9004, id, 3, 6)
	defer d.Cl.Close()
	defer c.Close()
	if len(hosts) != 3 {
		return
	}
	c.SetHealth(hosts[2], 2)
	c.Corrupt(hosts[1], 0, 0)
	c.Scrub(hosts[1], 0, 0)
	c.Beat(hosts[1])
	c.Detect()
	c.Pop()
	deliverWhere4(d, c, vc.ModeDeliver, func(r *vc.RPC) bool { return r.Kind == vc.KSetVersion })
	deliverWhere4(d, c, vc.ModeExecOnly, func(r *vc.RPC) bool { return r.Kind == vc.KPullTract }) // copied, replies in flight
	d.LeaderChange()
	c.Poll()
	c.Quiesce() // the old task's commit fails on the term
	d.StartWrite(0, 0, 30, 100)
	c.Quiesce()
	n := c.Heal(8)
	c.CheckRedundancy()
	c.CheckAllReplicas()
	c04FinalReads(d, c)
	c04Report(d, id)
	c04Stats(d, c)
	vw.Stat("directed", 1)
	vw.Stat(fmt.Sprintf("heal.rounds.%d", n), 1)
	d.WriteTrace(tr)
}

// dE: a replica is lost, the repair lands on a FRESH spare server (never used at a create); leadership changes;
// the spare is lost for good before it has sent the new leader a heartbeat.  The new leader learns of that server
// only through the durable known-tractserver set (updateTsmonLoop), must count it as down and repair again.
func c04DirectedLostTarget(root *vw.Rng, tr *vw.Trace, id string) {
	d, c, hosts := c04Setup(root, 9005, id, 2, 4)
	defer d.Cl.Close()
	defer c.Close()
	if len(hosts) != 2 {
		return
	}
	c.Delete(hosts[0], 0, 0)
	c.Check(hosts[0])
	c.Beat(hosts[0])
	c.Detect()
	c.Pop()
	c.Quiesce()
	c.Detect()
	st := d.Cl.D.Tract(d.TractID(0, 0))
	target := 0
	for _, h := range st.Hosts {
		if int(h) != hosts[0] && int(h) != hosts[1] {
			target = int(h)
		}
	}
	if target == 0 {
		return
	}
	d.LeaderChange()
	c.Poll()
	c.Lose(target) // before any heartbeat reaches the new leader
	n := c.Heal(6)
	c.CheckRedundancy()
	c.CheckAllReplicas()
	c04FinalReads(d, c)
	c04Report(d, id)
	c04Stats(d, c)
	vw.Stat("directed", 1)
	vw.Stat(fmt.Sprintf("heal.rounds.%d", n), 1)
	d.WriteTrace(tr)
}

func TestVerifC04(t *testing.T) {
	if !vw.Enabled() {
		t.Skip("verification harness: run through /verif/bin/check")
	}
	flag.Set("stderrthreshold", "FATAL")
	logdir := filepath.Join(vw.OutDir(), "glog")
	os.MkdirAll(logdir, 0o755)
	flag.Set("log_dir", logdir)
	old := runtime.GOMAXPROCS(1)
	defer runtime.GOMAXPROCS(old)

	root := vw.NewRng(vw.Seed())
	tr := vw.OpenTrace("C04.trace")
	defer tr.Close()
	defer vw.Finish("C04")
	chunk := os.Getenv("VERIF_CHUNK") != ""
	if !chunk && vw.CaseSelected("dA") {
		c04DirectedRetry(root, tr, "dA")
	}
	if !chunk && vw.CaseSelected("dB") {
		c04DirectedCrashPull(root, tr, "dB")
	}
	if !chunk && vw.CaseSelected("dC") {
		c04DirectedHopeless(root, tr, "dC")
	}
	if !chunk && vw.CaseSelected("dD") {
		c04DirectedAbandon(root, tr, "dD")
	}
	if !chunk && vw.CaseSelected("dE") {
		c04DirectedLostTarget(root, tr, "dE")
	}
	n := vw.Scale(30, 400)
	lo, hi := 0, n
	if c := os.Getenv("VERIF_CHUNK"); c != "" {
		k, _ := strconv.Atoi(c)
		lo, hi = k*c04Chunk, (k+1)*c04Chunk
		if hi > n {
			hi = n
		}
	} else if vw.Thorough() && os.Getenv("VERIF_CASES") == "" {
		c04Parent(t, tr, n)
		os.RemoveAll(logdir)
		return
	}
	for ci := lo; ci < hi; ci++ {
		if !vw.CaseSelected(fmt.Sprint(ci)) {
			continue
		}
		c04Case(root, ci, tr)
	}
	os.RemoveAll(logdir)
}

const c04Chunk = 40

// c04Parent runs the random cases of a thorough run in child processes (goroutines of finished cases idle
// forever and slow every quiescence scan down) and merges their traces and results.
func c04Parent(t *testing.T, tr *vw.Trace, n int) {
	for k := 0; k*c04Chunk < n; k++ {
		sub := filepath.Join(vw.OutDir(), fmt.Sprintf("chunk%d", k))
		os.MkdirAll(sub, 0o755)
		cmd := exec.Command(os.Args[0], "-test.run=TestVerifC04$", "-test.timeout=1800s")
		cmd.Env = append(os.Environ(), "VERIF_CHUNK="+fmt.Sprint(k), "VERIF_OUT="+sub)
		if out, err := cmd.CombinedOutput(); err != nil {
			t.Fatalf("chunk %d failed: %v\n%s", k, err, out)
		}
		f, err := os.Open(filepath.Join(sub, "C04.trace"))
		if err != nil {
			t.Fatalf("chunk %d: %v", k, err)
		}
		sc := bufio.NewScanner(f)
		sc.Buffer(make([]byte, 1<<20), 1<<26)
		for sc.Scan() {
			line := sc.Text()
			if strings.HasPrefix(line, "# case ") {
				tr.Case(strings.Fields(line)[2])
				continue
			}
			if len(line) == 0 {
				continue
			}
			var xs []int64
			for _, w := range strings.Fields(line[1:]) {
				v, _ := strconv.ParseInt(w, 10, 64)
				xs = append(xs, v)
			}
			if line[0] == '>' {
				tr.Op(xs...)
			} else if line[0] == '<' {
				tr.Obs(xs...)
			}
		}
		f.Close()
		var res struct {
			Stats      map[string]int64 `json:"stats"`
			Samples    []string         `json:"samples"`
			Violations []vw.Violation   `json:"violations"`
		}
		if b, err := os.ReadFile(filepath.Join(sub, "C04.result.json")); err == nil && json.Unmarshal(b, &res) == nil {
			for k2, v := range res.Stats {
				vw.Stat(k2, v)
			}
			for _, s := range res.Samples {
				vw.Sample(s)
			}
			for _, v := range res.Violations {
				vw.Report(v)
			}
		}
		if b, err := os.ReadFile(filepath.Join(sub, "distinct.txt")); err == nil {
			for _, fp := range strings.Fields(string(b)) {
				vw.Distinct(fp)
			}
		}
		os.RemoveAll(filepath.Join(sub, "glog"))
	}
}
