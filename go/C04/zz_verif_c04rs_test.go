package curator

// C04, erasure-coded half (overlay; /verif/go/C04/zz_verif_c04rs_test.go injected as
// internal/curator/zz_verif_c04rs_test.go).  RS chunks of the configured classes with known piece
// contents on real tractserver Stores (cluster shim's VerifTS behind C04's checksum-emulating disk),
// one real durable state on a real single-node raft (VerifDurable), loop-less leader incarnations,
// the REAL recovery bookkeeping stepped one iteration at a time (C04Recovery: detect round = body of
// detectLoop incl. eachChunk/chunkTask/pruneCorruptChunkSet, popTask, runTask = reconstructChunk),
// the REAL Store.RSEncode in small increments between the Stores, and one iteration of the real GC
// loop body.  Everything runs sequentially; what happens INSIDE an RSEncode (a source read or a
// destination write failing at a chosen increment, the reply getting lost, leadership changing
// before the commit, the destination's heartbeat reaching the GC while the copy is in flight) is
// scripted per attempt.

import (
	"context"
	"flag"
	"fmt"
	"os"
	"path/filepath"
	"sort"
	"testing"
	"time"

	"github.com/klauspost/reedsolomon"

	"github.com/westerndigitalcorporation/blb/internal/core"
	"github.com/westerndigitalcorporation/blb/internal/curator/durable/state"
	"github.com/westerndigitalcorporation/blb/internal/tractserver"
	vw "github.com/westerndigitalcorporation/blb/pkg/verifwire"
)

var c04rsPart = core.PartitionID(uint32(core.RSPartition)<<30 | 1)

func c04rsAddr(i int) string { return fmt.Sprintf("ts%d", i) }
func c04rsIndex(addr string) int {
	var i int
	if _, err := fmt.Sscanf(addr, "ts%d", &i); err != nil {
		return 0
	}
	return i
}

type c04rsChunk struct {
	idx    int
	id     core.RSChunkID
	n, m   int
	plen   int
	orig   [][]byte
	killed bool // the generator took it below n intact pieces on purpose
	// line 94: what the previous step left behind (intact named pieces, named host list)
	seen      bool
	prevGood  int
	prevHosts []int
}

// step kinds of line 94 (kind 5 = reconstruction: the only kind that may change the named host list)
var c04rsStepKind = map[string]int64{"newchunk": 0, "corrupt": 1, "delete": 2, "restart": 3, "leaderchange": 4, "reconstruction": 5, "gc": 6}

// line 94: one step as the run-level theorem c04_rs_no_loss_run sees it
func (w *c04rsWorld) stepLine(c *c04rsChunk, after string, hs []int, good int) {
	kind, ok := c04rsStepKind[after]
	if !ok {
		kind = 9
	}
	if c.seen {
		changed := int64(0)
		if len(hs) != len(c.prevHosts) {
			changed = 1
		} else {
			for i := range hs {
				if hs[i] != c.prevHosts[i] {
					changed = 1
				}
			}
		}
		fault := int64(0)
		if after == "corrupt" || after == "delete" {
			fault = 1
		}
		w.line([]int64{94, kind, int64(c.n), int64(c.m), int64(c.prevGood), int64(good), changed, fault}, []int64{777, 1})
	}
	c.seen = true
	c.prevGood = good
	c.prevHosts = append([]int(nil), hs...)
}

func (c *c04rsChunk) piece(i int) core.TractID { return c.id.Add(i).ToTractID() }

// what happens inside the next RSEncode
type c04rsScript struct {
	failKind int // 0 none, 1 a source read fails, 2 a destination write fails
	failTS   int // 0 = chosen when the request is seen
	failOff  int64
	failInc  int // which increment
	lose     bool // executed, reply lost
	leader   bool // leadership changes before the reply
	gcRace   bool // the destinations' heartbeats reach the GC while the reply is under way
	hit      bool
}

type c04rsEnc struct {
	addr   string
	id     core.RSChunkID
	srcs   []core.TSAddr
	dests  []core.TSAddr
	imap   []int
	err    core.Error
	length int
}

type c04rsWorld struct {
	r      *vw.Rng
	tr     *vw.Trace
	id     string
	nTS    int
	ts     []*tractserver.VerifTS
	d      *VerifDurable
	cur    *VerifCurator
	rec    *VerifRecovery
	gen    int
	dir    string
	clock  time.Time
	inc    int
	chunks []*c04rsChunk
	script c04rsScript
	encs   []c04rsEnc
	// pieces whose CORRUPTION was reported to the current incarnation and not yet cleared by a successful
	// reconstruction of the chunk or a change of the piece's host
	reported map[core.TractID]int
	bads     map[string]bool
	faults   int
	tasks    int
	malform  bool
}

// ---- talkers ----

type c04rsTsTT struct{ w *c04rsWorld }

func (t c04rsTsTT) CtlRead(ctx context.Context, addr string, id core.TractID, version int, length int, off int64) ([]byte, core.Error) {
	i := c04rsIndex(addr)
	if i <= 0 || i > t.w.nTS {
		return nil, core.ErrRPC
	}
	s := &t.w.script
	if s.failKind == 1 && s.failTS == i && s.failOff == off {
		s.hit = true
		return nil, core.ErrRPC
	}
	return t.w.ts[i].CtlRead(id, version, length, off)
}

func (t c04rsTsTT) CtlWrite(ctx context.Context, addr string, id core.TractID, v int, off int64, b []byte) core.Error {
	i := c04rsIndex(addr)
	if i <= 0 || i > t.w.nTS {
		return core.ErrRPC
	}
	s := &t.w.script
	if s.failKind == 2 && s.failTS == i && s.failOff == off {
		s.hit = true
		return core.ErrRPC
	}
	return t.w.ts[i].CtlWrite(id, v, off, append([]byte(nil), b...))
}

type c04rsCurTT struct{ w *c04rsWorld }

func (t c04rsCurTT) SetVersion(addr string, tsid core.TractserverID, id core.TractID, newVersion int, stamp uint64) core.Error {
	return core.ErrRPC
}
func (t c04rsCurTT) PullTract(addr string, tsid core.TractserverID, from []string, id core.TractID, version int) core.Error {
	return core.ErrRPC
}
func (t c04rsCurTT) CheckTracts(addr string, tsid core.TractserverID, tracts []core.TractState) core.Error {
	return core.ErrNotYetImplemented
}
func (t c04rsCurTT) GCTract(addr string, tsid core.TractserverID, old []core.TractState, gone []core.TractID) core.Error {
	i := c04rsIndex(addr)
	if i <= 0 || i > t.w.nTS {
		return core.ErrRPC
	}
	return t.w.ts[i].GCTract(tsid, old, gone)
}
func (t c04rsCurTT) CtlStatTract(addr string, tsid core.TractserverID, id core.TractID, version int) core.StatTractReply {
	return core.StatTractReply{Err: core.ErrRPC}
}
func (t c04rsCurTT) PackTracts(addr string, tsid core.TractserverID, length int, tracts []*core.PackTractSpec, id core.RSChunkID) core.Error {
	return core.ErrRPC
}

func (t c04rsCurTT) RSEncode(addr string, tsid core.TractserverID, id core.RSChunkID, length int, srcs, dests []core.TSAddr, im []int) core.Error {
	w := t.w
	i := c04rsIndex(addr)
	e := c04rsEnc{addr: addr, id: id, srcs: srcs, dests: dests, imap: append([]int(nil), im...), length: length}
	if i <= 0 || i > w.nTS {
		e.err = core.ErrRPC
		w.encs = append(w.encs, e)
		return core.ErrRPC
	}
	if length == C04PieceLength {
		// reconstructChunk always asks for the production piece length (a constant); the pieces here are small,
		// the length is a plain argument of Store.RSEncode
		for _, c := range w.chunks {
			if c.id == id {
				length = c.plen
			}
		}
	}
	if w.script.failKind != 0 && w.script.failTS <= 0 {
		nInc := (length + w.inc - 1) / w.inc
		w.script.failOff = int64((w.script.failInc % nInc) * w.inc)
		if w.script.failKind == 1 {
			w.script.failTS = c04rsIndex(srcs[w.script.failInc%len(srcs)].Host)
		} else {
			w.script.failTS = c04rsIndex(dests[0].Host)
		}
	}
	err := w.ts[i].RSEncode(tsid, id, length, srcs, dests, im)
	s := w.script
	if s.gcRace {
		// the regular heartbeats of the destinations list what they hold; the GC goroutine looks at them
		for _, dst := range dests {
			if j := c04rsIndex(dst.Host); j > 0 {
				w.cur.C04GcOnce(core.TractserverID(j), c04rsAddr(j), tractserver.C04HasTracts(w.ts[j]))
			}
		}
	}
	if s.leader {
		w.leaderChange(false)
	}
	if s.lose {
		err = core.ErrRPC
	}
	e.err = err
	w.encs = append(w.encs, e)
	return err
}

// ---- world ----

func c04rsNewWorld(r *vw.Rng, tr *vw.Trace, id string, nTS int) *c04rsWorld {
	w := &c04rsWorld{r: r, tr: tr, id: id, nTS: nTS, clock: time.Unix(1_700_000_000, 0), inc: r.PickInt(16, 24, 32),
		reported: map[core.TractID]int{}, bads: map[string]bool{}}
	base := ""
	if st, err := os.Stat("/dev/shm"); err == nil && st.IsDir() {
		base = "/dev/shm"
	}
	dir, err := os.MkdirTemp(base, "verifc04rs")
	if err != nil {
		panic(err)
	}
	w.dir = dir
	w.ts = make([]*tractserver.VerifTS, nTS+1)
	for i := 1; i <= nTS; i++ {
		w.ts[i] = tractserver.VerifNewTS(core.TractserverID(i), c04rsTsTT{w})
		w.prepTS(i)
	}
	w.d = VerifNewDurable(dir, func() time.Time { return w.clock })
	w.gen = 1
	w.cur = w.d.NewCurator(1, c04rsCurTT{w})
	w.rec = w.cur.C04Recovery()
	for i := 1; i <= nTS; i++ {
		w.cur.Heartbeat(core.TractserverID(i), c04rsAddr(i), nil, nil)
	}
	tr.Case(id)
	w.line([]int64{90, int64(nTS)}, nil)
	return w
}

func (w *c04rsWorld) close() {
	for i := 1; i <= w.nTS; i++ {
		tractserver.C04Forget(w.ts[i])
	}
	os.RemoveAll(w.dir)
}

func (w *c04rsWorld) prepTS(i int) {
	tractserver.C04Install(w.ts[i])
	tractserver.C04SetIncrement(w.ts[i], w.inc)
}

func (w *c04rsWorld) line(op, obs []int64) {
	w.tr.Op(op...)
	if obs == nil {
		obs = []int64{}
	}
	w.tr.Obs(obs...)
}

func (w *c04rsWorld) bad(sig, what string, det map[string]interface{}) {
	if w.bads[sig] {
		return
	}
	w.bads[sig] = true
	vw.Report(vw.Violation{Property: "C04", Signature: sig, What: what, Case: w.id, Detail: det})
}

func (w *c04rsWorld) hosts(c *c04rsChunk) []int {
	var out []int
	for _, h := range w.d.C04RSHosts(c.id) {
		out = append(out, int(h))
	}
	return out
}

// readPiece reads piece i of a chunk at server ts through the real control handler, as an observer
// (the server's failure map is put back).
func (w *c04rsWorld) readPiece(ts int, c *c04rsChunk, i int) ([]byte, core.Error) {
	if ts <= 0 || ts > w.nTS {
		return nil, core.ErrRPC
	}
	saved := tractserver.C04FailSnapshot(w.ts[ts])
	b, err := w.ts[ts].CtlRead(c.piece(i), core.RSChunkVersion, c.plen, 0)
	tractserver.C04FailRestore(w.ts[ts], saved)
	return b, err
}

func bytesEq(a, b []byte) bool {
	if len(a) != len(b) {
		return false
	}
	for i := range a {
		if a[i] != b[i] {
			return false
		}
	}
	return true
}

// intact: the named server answers a read of the piece with exactly the original bytes
func (w *c04rsWorld) intact(c *c04rsChunk, hosts []int, i int) bool {
	b, err := w.readPiece(hosts[i], c, i)
	return err == core.NoError && bytesEq(b, c.orig[i])
}

func (w *c04rsWorld) intactCount(c *c04rsChunk) int {
	hs := w.hosts(c)
	k := 0
	for i := range hs {
		if w.intact(c, hs, i) {
			k++
		}
	}
	return k
}

// monitor after every step
func (w *c04rsWorld) check(after string) {
	for _, c := range w.chunks {
		hs := w.hosts(c)
		if len(hs) != c.n+c.m {
			w.bad("rs-durable-host-list-wrong-length", "the durable record of a chunk does not name n+m hosts", map[string]interface{}{"chunk": c.idx, "hosts": fmt.Sprint(hs)})
			continue
		}
		shards := make([][]byte, c.n+c.m)
		good := 0
		for i := range hs {
			b, err := w.readPiece(hs[i], c, i)
			if err != core.NoError && err != core.ErrEOF {
				continue // fails closed
			}
			if !bytesEq(b, c.orig[i]) {
				w.bad("rs-piece-read-returns-non-original-bytes-after-"+after, "a named server answered a read of a piece with bytes other than the original piece",
					map[string]interface{}{"chunk": c.idx, "piece": i, "ts": hs[i], "len": len(b)})
				continue
			}
			if good < c.n {
				shards[i] = b
			}
			good++
		}
		w.stepLine(c, after, hs, good)
		if good < c.n {
			if !c.killed {
				c.killed = true
				w.bad("rs-fewer-than-n-intact-named-pieces-after-"+after, "the generator kept at least n intact pieces, yet fewer than n pieces the durable record names are intact",
					map[string]interface{}{"chunk": c.idx, "intact": good, "n": c.n, "hosts": fmt.Sprint(hs)})
			}
			continue
		}
		// decode with the real library from n intact named pieces
		enc, _ := reedsolomon.New(c.n, c.m)
		if err := enc.Reconstruct(shards); err != nil {
			w.bad("rs-chunk-not-decodable-after-"+after, "the library cannot decode the chunk from n intact named pieces", map[string]interface{}{"chunk": c.idx, "err": err.Error()})
			continue
		}
		for i := range shards {
			if !bytesEq(shards[i], c.orig[i]) {
				w.bad("rs-chunk-decodes-to-other-data-after-"+after, "decoding n intact named pieces does not give the original data", map[string]interface{}{"chunk": c.idx, "piece": i})
				break
			}
		}
	}
}

func (w *c04rsWorld) canHurt(c *c04rsChunk, i int) bool {
	hs := w.hosts(c)
	k := 0
	for j := range hs {
		if j != i && w.intact(c, hs, j) {
			k++
		}
	}
	return k >= c.n
}

// ---- steps ----

func flatBytes(out []int64, b []byte) []int64 {
	out = append(out, int64(len(b)))
	for _, x := range b {
		out = append(out, int64(x))
	}
	return out
}

func (w *c04rsWorld) newChunk(n, m, plen int, hosts []int) *c04rsChunk {
	c := &c04rsChunk{idx: len(w.chunks), id: core.RSChunkID{Partition: c04rsPart, ID: uint64(100 * (len(w.chunks) + 1))}, n: n, m: m, plen: plen}
	shards := make([][]byte, n+m)
	op := []int64{91, int64(n), int64(m), int64(plen)}
	for i := 0; i < n+m; i++ {
		shards[i] = make([]byte, plen)
		if i < n {
			for k := range shards[i] {
				shards[i][k] = byte(w.r.Intn(256))
			}
			for _, x := range shards[i] {
				op = append(op, int64(x))
			}
		}
	}
	enc, err := reedsolomon.New(n, m)
	if err != nil {
		panic(err)
	}
	if err := enc.Encode(shards); err != nil {
		panic(err)
	}
	c.orig = shards
	var ids []core.TractserverID
	for _, h := range hosts {
		ids = append(ids, core.TractserverID(h))
	}
	var cls core.StorageClass
	switch [2]int{n, m} {
	case [2]int{6, 3}:
		cls = core.StorageClassRS_6_3
	case [2]int{8, 3}:
		cls = core.StorageClassRS_8_3
	case [2]int{10, 3}:
		cls = core.StorageClassRS_10_3
	case [2]int{12, 5}:
		cls = core.StorageClassRS_12_5
	}
	if e := w.d.SH.CommitRSChunk(c.id, cls, ids, make([][]state.EncodedTract, n), 0); e != core.NoError {
		panic("verif: CommitRSChunk: " + e.String())
	}
	for i, h := range hosts {
		if e := w.ts[h].CtlWrite(c.piece(i), core.RSChunkVersion, 0, append([]byte(nil), shards[i]...)); e != core.NoError {
			panic("verif: put piece: " + e.String())
		}
	}
	w.chunks = append(w.chunks, c)
	var obs []int64
	for i := n; i < n+m; i++ {
		for _, x := range shards[i] {
			obs = append(obs, int64(x))
		}
	}
	w.line(op, obs) // the model recomputes the parity the library produced
	w.check("newchunk")
	return c
}

func (w *c04rsWorld) corrupt(c *c04rsChunk, i int) {
	hs := w.hosts(c)
	if hs[i] <= 0 || hs[i] > w.nTS {
		return
	}
	tractserver.C04Corrupt(w.ts[hs[i]], c.piece(i))
	w.faults++
	w.check("corrupt")
}

func (w *c04rsWorld) delete(c *c04rsChunk, i int) {
	hs := w.hosts(c)
	if hs[i] <= 0 || hs[i] > w.nTS {
		return
	}
	w.ts[hs[i]].DeleteReplica(c.piece(i))
	w.faults++
	w.check("delete")
}

func (w *c04rsWorld) restart(ts int) {
	w.ts[ts].Restart()
	w.prepTS(ts)
	w.check("restart")
}

func (w *c04rsWorld) leaderChange(checkAfter bool) {
	w.d.BumpTerm()
	w.gen++
	w.cur = w.d.NewCurator(w.gen, c04rsCurTT{w})
	w.rec = w.cur.C04Recovery()
	w.reported = map[core.TractID]int{}
	if checkAfter {
		w.check("leaderchange")
	}
}

func (w *c04rsWorld) heartbeatAll() {
	for i := 1; i <= w.nTS; i++ {
		if !w.cur.KnowsTS(core.TractserverID(i)) {
			w.cur.Heartbeat(core.TractserverID(i), c04rsAddr(i), nil, nil)
		}
	}
}

func (w *c04rsWorld) scrub(ts int, id core.TractID) { tractserver.C04ScrubOne(w.ts[ts], id) }

// the curator's CheckTracts list for one server (sync_state.go addPieces): every piece the durable state places there
func (w *c04rsWorld) checkTracts(ts int) {
	var l []core.TractState
	for _, c := range w.chunks {
		for i, h := range w.hosts(c) {
			if h == ts {
				l = append(l, core.TractState{ID: c.piece(i), Version: core.RSChunkVersion})
			}
		}
	}
	if len(l) == 0 {
		return
	}
	tractserver.C04CheckTracts(w.ts[ts], l)
	tractserver.C04CheckTractsWait(w.ts[ts]) // the Store's checkTractsLoop goroutine has processed it
}

func (w *c04rsWorld) beat(ts int) {
	t := w.ts[ts]
	bad := tractserver.C04BeatBegin(t, []core.PartitionID{c04rsPart.WithoutType()})
	w.cur.Heartbeat(core.TractserverID(ts), c04rsAddr(ts), bad, nil)
	tractserver.C04BeatEnd(t, bad)
	for _, id := range bad {
		if tractserver.C04IsCorrupt(t, id) {
			w.reported[id] = ts
		}
	}
}

func (w *c04rsWorld) pieceOf(id core.TractID) (*c04rsChunk, int) {
	for _, c := range w.chunks {
		for i := 0; i < c.n+c.m; i++ {
			if c.piece(i) == id {
				return c, i
			}
		}
	}
	return nil, -1
}

// detect = one iteration of the detect loop; emits one chunkTask line per chunk for the model
func (w *c04rsWorld) detect() VerifDetect {
	w.cur.DrainComplaints()
	det := w.rec.DetectRound()
	ent := map[core.TractID]VerifTask{}
	for _, e := range det.Entries {
		ent[e.ID] = e
	}
	unrec := map[core.TractID]bool{}
	for _, u := range det.Unrecoverable {
		unrec[u] = true
	}
	for _, c := range w.chunks {
		hs := w.hosts(c)
		op := []int64{93, int64(c.n), int64(c.m)}
		for _, h := range hs {
			op = append(op, int64(h))
		}
		var down []int64
		for ts, h := range w.rec.Health {
			if h == 2 && w.cur.KnowsTS(ts) {
				down = append(down, int64(ts))
			}
		}
		// a host that has not heartbeaten to this incarnation is only expected (durable known-tractserver set,
		// seeded into the monitor for the detect round as updateTsmonLoop does): down
		for _, h := range hs {
			if !w.cur.KnowsTS(core.TractserverID(h)) {
				dup := false
				for _, x := range down {
					if x == int64(h) {
						dup = true
					}
				}
				if !dup {
					down = append(down, int64(h))
				}
			}
		}
		sort.Slice(down, func(i, j int) bool { return down[i] < down[j] })
		op = append(op, int64(len(down)))
		op = append(op, down...)
		var cor []int64
		for i, h := range hs {
			for _, x := range det.Corrupt[c.piece(i)] {
				if int(x) == h {
					cor = append(cor, int64(i))
				}
			}
		}
		op = append(op, int64(len(cor)))
		op = append(op, cor...)
		base := c.id.ToTractID()
		var obs []int64
		switch e, ok := ent[base]; {
		case unrec[base]:
			obs = []int64{2, 0}
			if ok {
				w.bad("rs-task-queued-for-unrecoverable-chunk", "a chunk with fewer than n good pieces has a queued reconstruction", map[string]interface{}{"chunk": c.idx})
			}
		case ok:
			s := sortedIDs(e.Bad)
			obs = append([]int64{1, int64(len(s))}, s...)
		default:
			obs = []int64{0, 0}
		}
		w.line(op, obs)
	}
	// a reported corrupt piece (still at its host, still damaged) stays booked
	for id, ts := range w.reported {
		c, i := w.pieceOf(id)
		if c == nil {
			continue
		}
		hs := w.hosts(c)
		if hs[i] != ts || !tractserver.C04IsCorrupt(w.ts[ts], id) {
			delete(w.reported, id)
			continue
		}
		have := false
		for _, x := range det.Corrupt[id] {
			if int(x) == ts {
				have = true
			}
		}
		if !have {
			w.bad("rs-reported-bad-piece-forgotten-before-reconstruction-succeeded", "the recovery loop dropped the report of a damaged piece (still at its host, still damaged) although no reconstruction of the chunk succeeded since",
				map[string]interface{}{"chunk": c.idx, "piece": i, "ts": ts})
		}
	}
	return det
}

func sortedIDs(in []core.TractserverID) []int64 {
	var out []int64
	for _, x := range in {
		out = append(out, int64(x))
	}
	sort.Slice(out, func(i, j int) bool { return out[i] < out[j] })
	return out
}

// pin placement: exactly 'need' spare servers report room (allocateTS draws from maps and math/rand)
func (w *c04rsWorld) pin(c *c04rsChunk, bad []core.TractserverID, all bool) {
	hs := w.hosts(c)
	isHost := map[int]bool{}
	for _, h := range hs {
		isHost[h] = true
	}
	need := 0
	for _, h := range hs {
		for _, b := range bad {
			if int(b) == h {
				need++
			}
		}
	}
	var spare []int
	for i := 1; i <= w.nTS; i++ {
		if !isHost[i] && w.cur.KnowsTS(core.TractserverID(i)) && w.rec.Health[core.TractserverID(i)] == 0 {
			spare = append(spare, i)
		}
	}
	pick := map[int]bool{}
	for _, k := range w.r.Perm(len(spare)) {
		if len(pick) < need || all {
			pick[spare[k]] = true
		}
	}
	for i := 1; i <= w.nTS; i++ {
		if !w.cur.KnowsTS(core.TractserverID(i)) {
			continue
		}
		avail := uint64(0)
		if pick[i] {
			avail = 1 << 40
		}
		w.cur.HeartbeatLoad(core.TractserverID(i), c04rsAddr(i), avail)
	}
	w.rec.applyHealth()
}

// attempt runs one reconstruction (through the recovery runner or directly) under a script and writes the
// verdict line: everything the model needs to judge index map, destinations, written pieces and committed hosts.
func (w *c04rsWorld) attempt(c *c04rsChunk, bad []core.TractserverID, run func() core.Error, script c04rsScript, tag string) core.Error {
	before := w.hosts(c)
	// what the Stores would hand out for every named piece right now
	pieces := make([][]byte, c.n+c.m)
	nGood := 0
	for i, h := range before {
		isBad := false
		for _, b := range bad {
			if int(b) == h {
				isBad = true
			}
		}
		if b, err := w.readPiece(h, c, i); err == core.NoError {
			pieces[i] = b
		}
		if !isBad {
			nGood++
		}
	}
	w.script = script
	w.encs = nil
	curBefore := w.cur
	err := run()
	vw.Stat(fmt.Sprintf("rs.attempt.err%d.sent%d", int(err), len(w.encs)), 1)
	if script.failKind != 0 {
		vw.Stat(fmt.Sprintf("rs.script.fail%d.hit%v", script.failKind, w.script.hit), 1)
	}
	if script.lose || script.leader || script.gcRace {
		vw.Stat(fmt.Sprintf("rs.script.lose%v.leader%v.gc%v", script.lose, script.leader, script.gcRace), 1)
	}
	w.script = c04rsScript{}
	w.tasks++
	after := w.hosts(c)

	op := []int64{92, int64(c.n), int64(c.m), int64(c.plen)}
	for _, h := range before {
		op = append(op, int64(h))
	}
	op = append(op, int64(len(bad)))
	for _, b := range bad {
		op = append(op, int64(b))
	}
	sent := len(w.encs)
	op = append(op, int64(sent))
	var dests []core.TSAddr
	var imap []int
	if sent > 0 {
		e := w.encs[0]
		dests, imap = e.dests, e.imap
		op = append(op, int64(len(imap)))
		for _, x := range imap {
			op = append(op, int64(x))
		}
		op = append(op, int64(len(dests)))
		for _, x := range dests {
			op = append(op, int64(x.ID))
		}
	}
	for i := range pieces {
		op = flatBytes(op, pieces[i])
	}
	ok := int64(1)
	if err == core.NoError {
		ok = 0
	}
	op = append(op, ok)
	// what the destinations hold now
	for k := 0; k < c.m; k++ {
		var b []byte
		if sent > 0 && k < len(dests) && c.n+k < len(imap) && imap[c.n+k] >= 0 && dests[k].ID != 0 {
			if j := int(dests[k].ID); j > 0 && j <= w.nTS {
				if x, e := w.readPiece(j, c, imap[c.n+k]); e == core.NoError {
					b = x
				}
			}
		}
		op = flatBytes(op, b)
	}
	for _, h := range after {
		op = append(op, int64(h))
	}
	w.line(op, []int64{777, 1})

	// ---- model-free monitors of the attempt ----
	det := map[string]interface{}{"chunk": c.idx, "bad": fmt.Sprint(bad), "before": fmt.Sprint(before), "after": fmt.Sprint(after), "err": err.String(), "script": fmt.Sprintf("%+v", script)}
	changed := fmt.Sprint(before) != fmt.Sprint(after)
	if nGood < c.n {
		if sent > 0 {
			w.bad("rs-encode-sent-with-fewer-than-n-good-pieces"+tag, "fewer than n pieces are good, yet an RSEncode was sent", det)
		}
		if changed || err == core.NoError {
			w.bad("rs-hopeless-reconstruction-changed-durable-state"+tag, "fewer than n pieces are good, yet the reconstruction succeeded or changed the durable record", det)
		}
	}
	if err != core.NoError && changed {
		w.bad("rs-failed-reconstruction-changed-durable-state"+tag, "a reconstruction that returned an error changed the durable host list", det)
	}
	if changed {
		for i := range after {
			isBad := false
			for _, b := range bad {
				if int(b) == before[i] {
					isBad = true
				}
			}
			if after[i] != before[i] {
				if !isBad {
					w.bad("rs-commit-replaced-a-good-host"+tag, "the committed host list differs from the old one at an index that was not bad", det)
				}
				b, e := w.readPiece(after[i], c, i)
				if e != core.NoError || !bytesEq(b, c.orig[i]) {
					d2 := map[string]interface{}{"piece": i, "ts": after[i], "readerr": e.String()}
					for k, v := range det {
						d2[k] = v
					}
					w.bad("rs-commit-names-host-without-the-original-piece"+tag, "a reconstruction committed a host whose piece is missing, unreadable or differs from the original piece at that index", d2)
				}
			} else if isBad {
				w.bad("rs-commit-kept-a-bad-host"+tag, "the reconstruction succeeded but kept a host it was told is bad", det)
			}
		}
		seen := map[int]bool{}
		for _, h := range after {
			if seen[h] {
				w.bad("rs-commit-hosts-not-distinct"+tag, "the committed host list names a server twice", det)
			}
			seen[h] = true
		}
	}
	if err == core.NoError && curBefore == w.cur {
		// removeCompletedTasks / pruneCorruptChunkSet may now forget the reports of this chunk
		for id := range w.reported {
			if cc, _ := w.pieceOf(id); cc == c {
				delete(w.reported, id)
			}
		}
	}
	w.check("reconstruction")
	return err
}

// popRun = runnerLoop for one task
func (w *c04rsWorld) popRun(script c04rsScript, pinAll bool) bool {
	vt, ok := w.rec.PopTask()
	if !ok {
		return false
	}
	var c *c04rsChunk
	for _, x := range w.chunks {
		if x.id.ToTractID() == vt.ID {
			c = x
		}
	}
	if c == nil || !vt.RS {
		w.bad("rs-runner-popped-unknown-task", "popTask returned a task that is not a reconstruction of a known chunk", nil)
		return true
	}
	w.pin(c, vt.Bad, pinAll)
	rec := w.rec
	w.attemptWith(c, vt.Bad, func() core.Error { return rec.RunTask(vt) }, script)
	return true
}

func (w *c04rsWorld) attemptWith(c *c04rsChunk, bad []core.TractserverID, run func() core.Error, script c04rsScript) core.Error {
	return w.attempt(c, bad, run, script, "")
}

// heal: faults stop; detection once; recovery rounds until nothing is queued
func (w *c04rsWorld) heal(maxRounds int) int {
	for ts := range w.rec.Health {
		w.rec.Health[ts] = 0
	}
	for round := 1; round <= maxRounds; round++ {
		w.heartbeatAll()
		for ts := 1; ts <= w.nTS; ts++ {
			for _, c := range w.chunks {
				for i, h := range w.hosts(c) {
					if h == ts && tractserver.C04IsCorrupt(w.ts[ts], c.piece(i)) {
						if _, rep := w.reported[c.piece(i)]; !rep {
							w.scrub(ts, c.piece(i))
						}
					}
				}
			}
			w.checkTracts(ts)
		}
		for ts := 1; ts <= w.nTS; ts++ {
			w.beat(ts)
		}
		det := w.detect()
		if len(det.Entries) == 0 {
			return round
		}
		for w.popRun(c04rsScript{}, false) {
		}
		w.detect()
	}
	return maxRounds + 1
}

func (w *c04rsWorld) quiescent() {
	for _, c := range w.chunks {
		if c.killed {
			continue
		}
		hs := w.hosts(c)
		k := w.intactCount(c)
		seen := map[int]bool{}
		for _, h := range hs {
			seen[h] = true
		}
		if k != c.n+c.m || len(seen) != c.n+c.m {
			det := map[string]interface{}{"chunk": c.idx, "hosts": fmt.Sprint(hs), "intact": k}
			for i, h := range hs {
				if h <= 0 || h > w.nTS {
					det[fmt.Sprintf("piece%d", i)] = fmt.Sprintf("ts%d (no such server)", h)
					continue
				}
				_, present := tractserver.C04RawFile(w.ts[h], c.piece(i))
				det[fmt.Sprintf("piece%d", i)] = fmt.Sprintf("ts%d present=%v corrupt=%v", h, present, tractserver.C04IsCorrupt(w.ts[h], c.piece(i)))
			}
			w.bad("rs-quiesce-redundancy-not-restored", "faults stopped and the recovery rounds ran to completion, yet the chunk does not have n+m intact pieces on distinct servers", det)
		}
	}
}

// gc = every server's heartbeat contents go through one GC iteration (stale pieces on ex-hosts are collected)
func (w *c04rsWorld) gcAll() {
	for ts := 1; ts <= w.nTS; ts++ {
		if w.cur.KnowsTS(core.TractserverID(ts)) {
			w.cur.C04GcOnce(core.TractserverID(ts), c04rsAddr(ts), tractserver.C04HasTracts(w.ts[ts]))
		}
	}
	w.check("gc")
}

// ---- cases ----

func c04rsClasses() [][2]int {
	if vw.Thorough() {
		return [][2]int{{6, 3}, {6, 3}, {8, 3}, {10, 3}, {12, 5}}
	}
	return [][2]int{{6, 3}, {6, 3}, {6, 3}, {8, 3}}
}

func (w *c04rsWorld) randomHosts(k int) []int {
	p := w.r.Perm(w.nTS)
	var out []int
	for _, x := range p[:k] {
		out = append(out, x+1)
	}
	return out
}

func (w *c04rsWorld) randomScript() c04rsScript {
	switch x := w.r.Intn(12); {
	case x < 2:
		return c04rsScript{failKind: 1, failInc: w.r.Intn(12)}
	case x < 4:
		return c04rsScript{failKind: 2, failInc: w.r.Intn(12)}
	case x < 5:
		return c04rsScript{lose: true}
	case x < 6:
		return c04rsScript{leader: true}
	case x < 8:
		return c04rsScript{gcRace: true}
	}
	return c04rsScript{}
}

func c04rsRandom(root *vw.Rng, tr *vw.Trace, ci int) {
	id := fmt.Sprintf("r%d", ci)
	r := root.Fork(uint64(500000 + ci))
	cls := c04rsClasses()
	cl := cls[r.Intn(len(cls))]
	n, m := cl[0], cl[1]
	w := c04rsNewWorld(r, tr, id, n+2*m+r.PickInt(0, 1))
	defer w.close()
	w.malform = r.Chance(1, 5)
	nch := r.PickInt(1, 1, 2)
	for k := 0; k < nch; k++ {
		w.newChunk(n, m, r.PickInt(24, 40, 64, 70, 96), w.randomHosts(n+m))
	}
	steps := vw.Scale(r.Range(14, 30), r.Range(20, 60))
	for k := 0; k < steps; k++ {
		c := w.chunks[r.Intn(len(w.chunks))]
		hs := w.hosts(c)
		i := r.Intn(len(hs))
		switch x := r.Intn(100); {
		case x < 14, x < 24:
			if !w.canHurt(c, i) {
				if !w.malform || !r.Chance(1, 2) {
					continue
				}
				c.killed = true
			}
			if x < 14 {
				w.corrupt(c, i)
			} else {
				w.delete(c, i)
			}
		case x < 30:
			ts := core.TractserverID(r.Range(1, w.nTS))
			if w.rec.Health[ts] == 0 && r.Chance(2, 3) {
				w.rec.Health[ts] = 2
			} else {
				w.rec.Health[ts] = 0
			}
		case x < 40:
			if hs[i] > 0 && hs[i] <= w.nTS {
				w.scrub(hs[i], c.piece(i))
			}
		case x < 47:
			w.checkTracts(r.Range(1, w.nTS))
		case x < 60:
			w.beat(r.Range(1, w.nTS))
		case x < 72:
			w.detect()
		case x < 86:
			w.popRun(w.randomScript(), r.Chance(1, 6))
		case x < 89:
			w.leaderChange(true)
			if r.Chance(2, 3) {
				w.heartbeatAll()
			}
		case x < 92:
			w.restart(r.Range(1, w.nTS))
		case x < 95:
			w.gcAll()
		default:
			// somebody insists on a reconstruction with an arbitrary bad set (possibly leaving fewer than n)
			k := r.PickInt(1, 2, m, m+1, m+2)
			var bad []core.TractserverID
			for _, q := range r.Perm(len(hs))[:k] {
				bad = append(bad, core.TractserverID(hs[q]))
			}
			w.heartbeatAll()
			w.pin(c, bad, true)
			cur := w.cur
			w.attemptWith(c, bad, func() core.Error { return cur.C04Reconstruct(c.id, bad) }, w.randomScript())
		}
	}
	rounds := w.heal(8)
	w.quiescent()
	w.gcAll()
	w.quiescent()
	vw.Stat("rs.cases", 1)
	vw.Stat("rs.faults", int64(w.faults))
	vw.Stat("rs.attempts", int64(w.tasks))
	vw.Stat(fmt.Sprintf("rs.heal.rounds.%d", rounds), 1)
	vw.Distinct(fmt.Sprintf("rs/%d/%d/%d/%d/%d", n, m, w.faults, w.tasks, rounds))
}

// directed: a parity piece is lost; while its reconstruction is in flight the destination's heartbeat (listing
// the piece it is writing) reaches the GC.  The new piece must survive until the commit names its holder.
func c04rsDirectedGC(root *vw.Rng, tr *vw.Trace, id string, parity bool) {
	w := c04rsNewWorld(root.Fork(4242), tr, id, 12)
	defer w.close()
	c := w.newChunk(6, 3, 70, []int{1, 2, 3, 4, 5, 6, 7, 8, 9})
	i := 2
	if parity {
		i = 7
	}
	w.delete(c, i)
	w.checkTracts(i + 1)
	w.beat(i + 1)
	w.detect()
	w.popRun(c04rsScript{gcRace: true}, false)
	w.detect()
	rounds := w.heal(6)
	w.quiescent()
	w.gcAll()
	w.quiescent()
	vw.Stat("rs.directed", 1)
	vw.Stat(fmt.Sprintf("rs.heal.rounds.%d", rounds), 1)
}

// directed: m pieces damaged, reconstruction fails at a middle increment, then the reply is lost, then
// leadership changes before the commit; afterwards everything heals.  Then m+1 pieces of a second chunk die.
func c04rsDirectedAbandon(root *vw.Rng, tr *vw.Trace, id string) {
	w := c04rsNewWorld(root.Fork(4243), tr, id, 13)
	defer w.close()
	c := w.newChunk(6, 3, 70, []int{1, 2, 3, 4, 5, 6, 7, 8, 9})
	w.corrupt(c, 0)
	w.corrupt(c, 4)
	w.delete(c, 8)
	w.scrub(1, c.piece(0))
	w.scrub(5, c.piece(4))
	w.checkTracts(9)
	for _, ts := range []int{1, 5, 9} {
		w.beat(ts)
	}
	w.detect()
	w.popRun(c04rsScript{failKind: 1, failInc: 1}, false)
	w.detect()
	w.popRun(c04rsScript{failKind: 2, failInc: 2}, false)
	w.detect()
	w.popRun(c04rsScript{lose: true}, false)
	w.detect()
	w.popRun(c04rsScript{leader: true}, false)
	w.heartbeatAll()
	rounds := w.heal(6)
	w.quiescent()
	// a second chunk loses m+1 pieces: refuse
	c2 := w.newChunk(6, 3, 40, []int{2, 3, 4, 5, 6, 7, 8, 9, 10})
	c2.killed = true
	for _, i := range []int{0, 1, 2, 3} {
		w.delete(c2, i)
	}
	for ts := 2; ts <= 5; ts++ {
		w.checkTracts(ts)
	}
	for ts := 2; ts <= 5; ts++ {
		w.beat(ts)
	}
	before := w.hosts(c2)
	det := w.detect()
	for _, e := range det.Entries {
		if e.ID == c2.id.ToTractID() {
			w.bad("rs-task-queued-for-unrecoverable-chunk", "a chunk with fewer than n good pieces has a queued reconstruction", nil)
		}
	}
	bad := []core.TractserverID{2, 3, 4, 5}
	w.pin(c2, bad, true)
	cur := w.cur
	w.attemptWith(c2, bad, func() core.Error { return cur.C04Reconstruct(c2.id, bad) }, c04rsScript{})
	if fmt.Sprint(before) != fmt.Sprint(w.hosts(c2)) {
		w.bad("rs-hopeless-reconstruction-changed-durable-state", "fewer than n pieces are good, yet the durable record changed", nil)
	}
	vw.Stat("rs.directed", 1)
	vw.Stat(fmt.Sprintf("rs.heal.rounds.%d", rounds), 1)
}

func TestVerifC04RS(t *testing.T) {
	if !vw.Enabled() {
		t.Skip("verification harness: run through /verif/bin/check")
	}
	flag.Set("stderrthreshold", "FATAL")
	logdir := filepath.Join(vw.OutDir(), "glogrs")
	os.MkdirAll(logdir, 0o755)
	flag.Set("log_dir", logdir)
	root := vw.NewRng(vw.Seed())
	tr := vw.OpenTrace("C04rs.trace")
	defer tr.Close()
	defer vw.Finish("C04rs")
	if vw.CaseSelected("g0") {
		c04rsDirectedGC(root, tr, "g0", true)
	}
	if vw.CaseSelected("g1") {
		c04rsDirectedGC(root, tr, "g1", false)
	}
	if vw.CaseSelected("g2") {
		c04rsDirectedAbandon(root, tr, "g2")
	}
	n := vw.Scale(16, 600)
	for ci := 0; ci < n; ci++ {
		if vw.CaseSelected(fmt.Sprintf("r%d", ci)) {
			c04rsRandom(root, tr, ci)
		}
	}
	vw.Sample(fmt.Sprintf("rs harness: 3 directed + %d random cases", n))
	os.RemoveAll(logdir)
}
