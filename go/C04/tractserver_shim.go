package tractserver

// C04 shim (overlay-only; /verif/go/C04/tractserver_shim.go injected as
// internal/tractserver/zz_verif_c04_shim.go).  Adds to the cluster harness' VerifTS:
//   - on-disk corruption that is DETECTED the way pkg/disk.ChecksumFile detects it: MemDisk has no
//     checksums, so the disk the Store talks to is wrapped (c04Disk): every data access (Read, Write =
//     read-modify-write of a partial block, Size, Scrub) of a tract whose blocks were corrupted fails
//     with core.ErrCorruptData; the version xattr stays readable (it is not covered by block checksums).
//     A caller that ignored the error would see garbage (the buffer is filled with inverted bytes).
//   - the detection path of the real tractserver: one step of the scrubber (body of scrubDisk's inner
//     loop), the heartbeat's failure report (GetBadTracts + removeTractsFromFailures as beatToCurator
//     does), a CheckTracts request through the REAL TSCtlHandler into the REAL checkTractsLoop.

import (
	"context"
	"sort"
	"sync"
	"time"

	"github.com/westerndigitalcorporation/blb/internal/core"
)

// c04Media is what survives a process restart: which tract files have corrupted blocks.
type c04Media struct {
	corrupt map[core.TractID]bool
}

var (
	c04Lock  sync.Mutex
	c04Medias = map[*MemDisk]*c04Media{}
)

func c04MediaOf(m *MemDisk) *c04Media {
	c04Lock.Lock()
	defer c04Lock.Unlock()
	x, ok := c04Medias[m]
	if !ok {
		x = &c04Media{corrupt: map[core.TractID]bool{}}
		c04Medias[m] = x
	}
	return x
}

// C04Forget drops the registry entry of a tractserver (end of a case).
func C04Forget(t *VerifTS) {
	c04Lock.Lock()
	delete(c04Medias, t.Disk)
	c04Lock.Unlock()
}

type c04Disk struct {
	*verifDisk
	m *c04Media
}

func (d *c04Disk) bad(f interface{}) bool {
	d.MemDisk.lock.Lock()
	id, ok := d.verifDisk.idOf(f)
	d.MemDisk.lock.Unlock()
	return ok && d.m.corrupt[id]
}

func (d *c04Disk) Read(ctx context.Context, f interface{}, b []byte, off int64) (int, core.Error) {
	if d.bad(f) {
		n, _ := d.verifDisk.Read(ctx, f, b, off)
		for i := 0; i < n; i++ {
			b[i] ^= 0xff // what a reader that ignored the checksum failure would get
		}
		return n, core.ErrCorruptData
	}
	return d.verifDisk.Read(ctx, f, b, off)
}

func (d *c04Disk) Write(ctx context.Context, f interface{}, b []byte, off int64) (int, core.Error) {
	if d.bad(f) {
		return 0, core.ErrCorruptData // ChecksumFile reads the old block before changing part of it
	}
	return d.verifDisk.Write(ctx, f, b, off)
}

func (d *c04Disk) Size(f interface{}) (int64, core.Error) {
	if d.bad(f) {
		return 0, core.ErrCorruptData
	}
	return d.verifDisk.Size(f)
}

func (d *c04Disk) Scrub(id core.TractID) (int64, core.Error) {
	if d.m.corrupt[id] {
		return 0, core.ErrCorruptData
	}
	return d.verifDisk.Scrub(id)
}

func (d *c04Disk) Delete(id core.TractID) core.Error {
	e := d.verifDisk.Delete(id)
	if e == core.NoError {
		delete(d.m.corrupt, id) // the file is gone, a new one starts clean
	}
	return e
}

// C04Install puts the corruption-detecting wrapper between the Store and its disk.  Idempotent;
// must be repeated after every Restart (a new Store is built over the raw disk).
func C04Install(t *VerifTS) {
	s := t.Store
	s.lock.Lock()
	defer s.lock.Unlock()
	for i := range s.disks {
		if vd, ok := s.disks[i].d.(*verifDisk); ok && vd == t.disk {
			s.disks[i].d = &c04Disk{verifDisk: vd, m: c04MediaOf(t.Disk)}
		}
	}
}

// C04Corrupt damages the blocks of a replica on disk.  Returns false if there is no such file.
func C04Corrupt(t *VerifTS, id core.TractID) bool {
	m := t.Disk
	m.lock.Lock()
	_, ok := m.fds[id]
	m.lock.Unlock()
	if !ok {
		return false
	}
	c04MediaOf(t.Disk).corrupt[id] = true
	return true
}

// C04IsCorrupt reports the on-disk truth.
func C04IsCorrupt(t *VerifTS, id core.TractID) bool { return c04MediaOf(t.Disk).corrupt[id] }

func c04Sorted(ids []core.TractID) []core.TractID {
	sort.Slice(ids, func(i, j int) bool { return verifLess(ids[i], ids[j]) })
	return ids
}

// C04Failures lists the Store's failure map (what the next heartbeat would report).
func C04Failures(t *VerifTS) []core.TractID {
	s := t.Store
	s.lock.Lock()
	var out []core.TractID
	for id := range s.failures {
		out = append(out, id)
	}
	s.lock.Unlock()
	return c04Sorted(out)
}

// C04ScrubOne is one iteration of scrubDisk's inner loop for one tract (the loop itself sleeps for
// minutes and is rate limited): lock for read, Disk.Scrub, unlock, maybeReportError.
func C04ScrubOne(t *VerifTS, id core.TractID) (found bool) {
	s := t.Store
	_, disk, _, ok := s.lookup(id)
	if !ok {
		return false
	}
	if !s.tryLockTract(id, READ) {
		return false
	}
	_, err := disk.Scrub(id)
	s.unlock(id, READ)
	return s.maybeReportError(id, err)
}

// C04BeatBegin / C04BeatEnd are the two halves of Server.beatToCurator: collect the failure report;
// after the curator accepted the heartbeat forget what was reported.
func C04BeatBegin(t *VerifTS, parts []core.PartitionID) []core.TractID {
	return c04Sorted(t.Store.GetBadTracts(parts, 1<<20))
}

func C04BeatEnd(t *VerifTS, reported []core.TractID) { t.Store.removeTractsFromFailures(reported) }

// C04CheckTracts delivers a CheckTracts request through the real control handler; the real
// checkTractsLoop goroutine of the Store picks it up (the caller waits for quiescence).
func C04CheckTracts(t *VerifTS, tracts []core.TractState) core.Error {
	var reply core.CheckTractsReply
	if e := t.ctl.CheckTracts(core.CheckTractsReq{TSID: t.ID, Tracts: tracts}, &reply); e != nil {
		return core.ErrRPC
	}
	return reply.Err
}

// C04FailSnapshot / C04FailRestore let a MONITOR read replicas directly (through the real handlers)
// without its checksum failures leaking into the failure map the heartbeat reports.
func C04FailSnapshot(t *VerifTS) map[core.TractID]core.Error {
	s := t.Store
	s.lock.Lock()
	defer s.lock.Unlock()
	m := make(map[core.TractID]core.Error, len(s.failures))
	for k, v := range s.failures {
		m[k] = v
	}
	return m
}

func C04FailRestore(t *VerifTS, m map[core.TractID]core.Error) {
	s := t.Store
	s.lock.Lock()
	defer s.lock.Unlock()
	for k := range s.failures {
		delete(s.failures, k)
	}
	for k, v := range m {
		s.failures[k] = v
	}
}

// ---- RS pieces (third harness of C04: internal/curator TestVerifC04RS) ----

// C04RawFile reads a tract file straight from the platter (content only; nil, false if there is no file).
func C04RawFile(t *VerifTS, id core.TractID) ([]byte, bool) {
	m := t.Disk
	m.lock.Lock()
	defer m.lock.Unlock()
	fd, ok := m.fds[id]
	if !ok {
		return nil, false
	}
	return append([]byte(nil), m.files[fd]...), true
}

// C04SetIncrement sets EncodeIncrementSize of the running Store (repeat after a restart).
func C04SetIncrement(t *VerifTS, inc int) {
	cfg := *t.Store.Config()
	cfg.EncodeIncrementSize = inc
	t.Store.SetConfig(cfg)
}

// C04HasTracts is what the heartbeat lists as held (GetSomeTractsByPartition, all shards).
func C04HasTracts(t *VerifTS) []core.TractID { return t.AllTracts() }

// C04CheckTractsWait returns when the Store's checkTractsLoop has finished every request queued before
// the call: an empty request is queued behind them; once the (sequential) loop has taken it, the earlier
// ones are done.
func C04CheckTractsWait(t *VerifTS) {
	t.Store.checkTractsCh <- nil
	for len(t.Store.checkTractsCh) > 0 {
		time.Sleep(20 * time.Microsecond)
	}
	// the loop holds the empty request now; let it finish its (empty) round
	time.Sleep(20 * time.Microsecond)
}
