package rpc

// C16 shim (overlay file, lives in /verif): lets the harness in internal/core drive the real bulk codec
// with the production message types (core imports this package, so the codec harness itself cannot).

import (
	"io"
	"net/rpc"
)

// VerifC16Codec is both ends of the bulk codec.
type VerifC16Codec interface {
	rpc.ClientCodec
	ReadRequestHeader(*rpc.Request) error
	ReadRequestBody(interface{}) error
	WriteResponse(*rpc.Response, interface{}) error
}

// VerifC16NewCodec returns the real bulkGobCodec over conn.
func VerifC16NewCodec(conn io.ReadWriteCloser) VerifC16Codec { return newBulkGobCodec(conn) }
