package rpc

// C16 harness (injected by `go test -overlay`; lives in /verif).
// Drives the real bulkGobCodec (sender and receiver ends over an in-memory connection) and GetBuffer on
//   - message sequences (requests or responses, bulk and plain bodies, payload sizes around every pool size class,
//     receiver buffers none/smaller/equal/larger, chunked reads),
//   - streams damaged by one burst of <= 32 bits (random, window-zeroing, window-filling patterns), cut streams,
//   - for small messages every burst length 1..32 at every bit position (all-ones pattern) plus zeroing/filling windows.
// Trace ops (see coq/theories/C16/Model.v `step`):
//   1 Send   hdr-gob-bytes body-gob-bytes payload-RLE         -> RLE of the captured wire bytes of the frame
//   2 Recv   cap isbulk c1 n1 c2 n2 same                      -> class inbuf cap consumed payload-RLE
//   3 Tamper bitpos pattern                                    -> 0
//   4 Probe  bitpos pattern cap isbulk c1 n1 c2 n2 same       -> like Recv, on a damaged copy of the stream
//   5 GetBuffer n                                             -> len cap
//   6 Cut k                                                    -> 0
//   9 verdict                                                  -> 777 1
// (c1 n1 c2 n2) is what encoding/gob itself does on the stream at that point (an independent gob.Decoder run in
// lockstep): code 0 error / 1 ok / 2 needs more bytes, and the number of bytes it consumed.
// Monitors (model-free): an undamaged stream delivers exactly the messages sent, in order, and is consumed exactly;
// a damaged stream never delivers a header, arguments or payload different from the message sent at that place.

import (
	"bytes"
	"encoding/gob"
	"errors"
	"fmt"
	"net/rpc"
	"runtime/metrics"
	"strings"
	"testing"

	vw "github.com/westerndigitalcorporation/blb/pkg/verifwire"
)

var errC16Stall = errors.New("c16: no more bytes in flight")

// cumulative bytes allocated on the heap (cheap to read)
func c16Allocated() uint64 {
	s := []metrics.Sample{{Name: "/gc/heap/allocs:bytes"}}
	metrics.Read(s)
	if s[0].Value.Kind() == metrics.KindUint64 {
		return s[0].Value.Uint64()
	}
	return 0
}

// ---- message bodies ----

type c16Bulk struct {
	Field int
	S     string
	Data  []byte
	excl  bool
}

func (m *c16Bulk) Get() ([]byte, bool)  { b := m.Data; m.Data = nil; return b, m.excl }
func (m *c16Bulk) Set(b []byte, e bool) { m.Data, m.excl = b, e }

type c16Plain struct {
	A int
	S string
}

// ---- in-memory connection ----

type c16Conn struct {
	wr    bytes.Buffer // everything the sender wrote
	rd    []byte       // bytes in flight towards the receiver
	pos   int
	chunk int // max bytes returned by one Read (0 = unlimited)
}

func (c *c16Conn) Write(p []byte) (int, error) { return c.wr.Write(p) }
func (c *c16Conn) Read(p []byte) (int, error) {
	if c.pos >= len(c.rd) {
		return 0, errC16Stall
	}
	if c.chunk > 0 && len(p) > c.chunk {
		p = p[:c.chunk]
	}
	n := copy(p, c.rd[c.pos:])
	c.pos += n
	return n, nil
}
func (c *c16Conn) Close() error { return nil }

// reader for the independent gob decoder (must look buffered to gob, exactly like the codec does)
type c16Probe struct {
	data []byte
	pos  int
}

func (p *c16Probe) Read(b []byte) (int, error) {
	if p.pos >= len(p.data) {
		return 0, errC16Stall
	}
	n := copy(b, p.data[p.pos:])
	p.pos += n
	return n, nil
}
func (p *c16Probe) ReadByte() (byte, error) { panic("not used by gob") }

// ---- messages ----

type c16Msg struct {
	bulk    bool
	method  string
	seq     uint64
	errstr  string
	field   int
	s       string
	payload []byte
	hgob    []byte // reference gob bytes of the header
	bgob    []byte // reference gob bytes of the body (payload field cleared)
	frame   []byte // wire bytes captured from the sending codec
	start   int    // offset of the frame in the stream
}

type c16Sender struct {
	isReq  bool
	conn   *c16Conn
	codec  *bulkGobCodec
	refbuf bytes.Buffer
	ref    *gob.Encoder
}

func c16NewSender(isReq bool) *c16Sender {
	s := &c16Sender{isReq: isReq, conn: &c16Conn{}}
	s.codec = newBulkGobCodec(s.conn)
	s.ref = gob.NewEncoder(&s.refbuf)
	return s
}

func (s *c16Sender) header(m *c16Msg) interface{} {
	if s.isReq {
		return &rpc.Request{ServiceMethod: m.method, Seq: m.seq}
	}
	return &rpc.Response{ServiceMethod: m.method, Seq: m.seq, Error: m.errstr}
}

// c16SenderBuf is the slice the sender puts in the body: the payload bytes in a buffer of one of the shapes production
// code uses. shape 0: exactly the payload (cap == len, nil-like when empty); 1: not owned, with spare capacity;
// 2: exclusively owned pooled buffer GetBuffer(c)[:n] with spare capacity (what a tractserver read reply holds, and
// `GetBuffer(n)[:0]` for a read at or past the end of a tract); 3: exclusively owned exact copy.
func c16SenderBuf(r *vw.Rng, payload []byte) (data []byte, exclusive bool, shape string) {
	n := len(payload)
	if r == nil {
		return payload, false, "exact"
	}
	switch r.Intn(8) {
	case 0, 1, 2:
		return payload, false, "exact"
	case 3:
		data = GetBuffer(n)
		copy(data, payload)
		return data, true, "exact-owned"
	case 4:
		c := n + r.PickInt(1, 2, 4096, 70000)
		data = make([]byte, n, c)
		copy(data, payload)
		return data, false, "spare"
	default:
		// pooled: capacity from every size class at or above n
		classes := []int{n + 1, 4096, 128*1024 + 65536, 128*1024 + 65536 + 1, buf1MBSize}
		if vw.Thorough() || r.Chance(1, 8) {
			classes = append(classes, buf1MBSize+1, buf4MBSize, buf4MBSize+1, buf8MBSize)
		}
		c := classes[r.Intn(len(classes))]
		if c < n+1 {
			c = n + 1
		}
		data = GetBuffer(c)[:n]
		copy(data, payload)
		return data, true, "pooled"
	}
}

func (s *c16Sender) send(m *c16Msg, r *vw.Rng) error {
	// reference gob encoding, made by an independent encoder fed the same sequence of values
	mark := s.refbuf.Len()
	if err := s.ref.Encode(s.header(m)); err != nil {
		return err
	}
	m.hgob = append([]byte(nil), s.refbuf.Bytes()[mark:]...)
	mark = s.refbuf.Len()
	var refBody, body interface{}
	if m.bulk {
		refBody = &c16Bulk{Field: m.field, S: m.s}
		// (the codec may recycle an exclusively owned buffer, so those are private copies)
		data, exclusive, shape := c16SenderBuf(r, m.payload)
		vw.Stat(fmt.Sprintf("send.buf.%s.empty-%v", shape, len(m.payload) == 0), 1)
		body = &c16Bulk{Field: m.field, S: m.s, Data: data, excl: exclusive}
	} else {
		refBody = &c16Plain{A: m.field, S: m.s}
		body = &c16Plain{A: m.field, S: m.s}
	}
	if err := s.ref.Encode(refBody); err != nil {
		return err
	}
	m.bgob = append([]byte(nil), s.refbuf.Bytes()[mark:]...)
	m.start = s.conn.wr.Len()
	var err error
	if s.isReq {
		err = s.codec.WriteRequest(s.header(m).(*rpc.Request), body)
	} else {
		err = s.codec.WriteResponse(s.header(m).(*rpc.Response), body)
	}
	m.frame = append([]byte(nil), s.conn.wr.Bytes()[m.start:]...)
	return err
}

func c16Ints(b []byte) []int64 {
	out := make([]int64, 0, len(b)+1)
	out = append(out, int64(len(b)))
	for _, x := range b {
		out = append(out, int64(x))
	}
	return out
}

func (m *c16Msg) traceSend(tr *vw.Trace) {
	var op vw.L
	op.Add(1)
	op.Add(c16Ints(m.hgob)...)
	op.Add(c16Ints(m.bgob)...)
	op.Add(vw.RLE(m.payload)...)
	tr.Op(op...)
	tr.Obs(vw.RLE(m.frame)...)
}

// ---- receiver ----

type c16Receiver struct {
	isReq bool
	conn  *c16Conn
	codec *bulkGobCodec
	probe *c16Probe
	pdec  *gob.Decoder
}

func c16NewReceiver(isReq bool, stream []byte, chunk int) *c16Receiver {
	r := &c16Receiver{isReq: isReq, conn: &c16Conn{rd: stream, chunk: chunk}}
	r.codec = newBulkGobCodec(r.conn)
	r.probe = &c16Probe{data: stream}
	r.pdec = gob.NewDecoder(r.probe)
	return r
}

func (r *c16Receiver) offset() int { return r.conn.pos - r.codec.decBuf.Buffered() }

type c16Out struct {
	class    int // 1 OK, 2 gob error on header, 3 gob error on body, 4 checksum mismatch, 6 not bulk, 7 stall, 8 panic
	inbuf    bool
	capOut   int
	consumed int
	hdrSame  bool
	argsSame bool
	paySame  bool
	payload  []byte
	errText  string
	alloc    uint64 // bytes the real codec allocated during this receive
	// what gob itself does on this part of the stream
	c1, n1, c2, n2 int
	gobSame        bool
}

func c16GobCode(err error) int {
	if err == nil {
		return 1
	}
	if errors.Is(err, errC16Stall) {
		return 2
	}
	return 0
}

func c16HdrSame(isReq bool, h interface{}, m *c16Msg) bool {
	if m == nil {
		return false
	}
	if isReq {
		q := h.(*rpc.Request)
		return q.ServiceMethod == m.method && q.Seq == m.seq
	}
	q := h.(*rpc.Response)
	return q.ServiceMethod == m.method && q.Seq == m.seq && q.Error == m.errstr
}

func c16ArgsSame(bulk bool, b interface{}, m *c16Msg) bool {
	if m == nil {
		return false
	}
	if bulk {
		q := b.(*c16Bulk)
		return q.Field == m.field && q.S == m.s
	}
	q := b.(*c16Plain)
	return q.A == m.field && q.S == m.s
}

// recvOne receives the next message the way net/rpc drives a codec. want is the message sent at this place of the
// sequence (nil if none); bulk says which body type the receiver supplies; buf is the slice the caller leaves in it.
func (r *c16Receiver) recvOne(want *c16Msg, bulk bool, buf []byte) (out c16Out) {
	start := r.offset()
	// 1. the independent gob run (oracle for the model)
	r.probe.pos = start
	var ph interface{}
	if r.isReq {
		ph = &rpc.Request{}
	} else {
		ph = &rpc.Response{}
	}
	err := r.pdec.Decode(ph)
	out.c1, out.n1 = c16GobCode(err), r.probe.pos-start
	out.c2, out.n2 = 2, 0
	if err == nil {
		mid := r.probe.pos
		var pb interface{}
		if bulk {
			pb = &c16Bulk{}
		} else {
			pb = &c16Plain{}
		}
		err = r.pdec.Decode(pb)
		out.c2, out.n2 = c16GobCode(err), r.probe.pos-mid
		if err == nil {
			out.gobSame = c16HdrSame(r.isReq, ph, want) && c16ArgsSame(bulk, pb, want)
		}
	}
	// 2. the real codec
	alloc0 := c16Allocated()
	defer func() {
		if p := recover(); p != nil {
			out.class, out.errText = 8, fmt.Sprint(p)
		}
		out.alloc = c16Allocated() - alloc0
	}()
	var hdr interface{}
	if r.isReq {
		h := &rpc.Request{}
		hdr, err = h, r.codec.ReadRequestHeader(h)
	} else {
		h := &rpc.Response{}
		hdr, err = h, r.codec.ReadResponseHeader(h)
	}
	if err != nil {
		out.errText = err.Error()
		if errors.Is(err, errC16Stall) {
			out.class = 7
		} else {
			out.class, out.consumed = 2, r.offset()-start
		}
		return
	}
	var body interface{}
	var bb *c16Bulk
	if bulk {
		bb = &c16Bulk{Data: buf, excl: false}
		body = bb
	} else {
		body = &c16Plain{}
	}
	if r.isReq {
		err = r.codec.ReadRequestBody(body)
	} else {
		err = r.codec.ReadResponseBody(body)
	}
	if err != nil {
		out.errText = err.Error()
		switch {
		case errors.Is(err, errC16Stall):
			out.class = 7
		case err == errChecksumMismatch:
			out.class, out.consumed = 4, r.offset()-start
		case strings.Contains(err.Error(), "doesn't implement BulkData"):
			out.class, out.consumed = 6, r.offset()-start
		default:
			out.class, out.consumed = 3, r.offset()-start
		}
		return
	}
	out.class, out.consumed = 1, r.offset()-start
	out.hdrSame = c16HdrSame(r.isReq, hdr, want)
	out.argsSame = c16ArgsSame(bulk, body, want)
	if bulk {
		out.payload = bb.Data
		out.capOut = cap(bb.Data)
		out.inbuf = cap(buf) > 0 && len(bb.Data) > 0 && &bb.Data[:1][0] == &buf[:1][0]
	}
	out.paySame = want != nil && bytes.Equal(out.payload, want.payload)
	return
}

func c16b(b bool) int64 {
	if b {
		return 1
	}
	return 0
}

func (o *c16Out) oracle(bulk bool, bufcap int) []int64 {
	return []int64{int64(bufcap), c16b(bulk), int64(o.c1), int64(o.n1), int64(o.c2), int64(o.n2), c16b(o.gobSame)}
}

func (o *c16Out) obs() []int64 {
	if o.class == 1 {
		l := []int64{1, c16b(o.inbuf), int64(o.capOut), int64(o.consumed)}
		return append(l, vw.RLE(o.payload)...)
	}
	return []int64{int64(o.class), 0, 0, int64(o.consumed), 0}
}

// ---- damage ----

// xorAt xors bit pattern pat into a copy of s: bit j of pat goes to stream bit pos+j, stream bit i = bit (i%8) of byte i/8.
func c16XorAt(s []byte, pos int, pat uint64) []byte {
	out := append([]byte(nil), s...)
	for j := 0; j < 64 && pat>>uint(j) != 0; j++ {
		if pat>>uint(j)&1 == 1 {
			i := pos + j
			if i/8 < len(out) {
				out[i/8] ^= 1 << uint(i%8)
			}
		}
	}
	return out
}

func c16Window(s []byte, pos, l int) uint64 {
	var v uint64
	for j := 0; j < l; j++ {
		i := pos + j
		if i/8 < len(s) && s[i/8]>>uint(i%8)&1 == 1 {
			v |= 1 << uint(j)
		}
	}
	return v
}

// a burst pattern of length <= l for position pos: kind 0 all ones, 1 random with both ends set,
// 2 zero the window, 3 fill the window with ones
func c16Pattern(r *vw.Rng, s []byte, pos, l, kind int) uint64 {
	mask := uint64(1)<<uint(l) - 1
	switch kind {
	case 0:
		return mask
	case 1:
		return (r.U64() & mask) | 1 | 1<<uint(l-1)
	case 2:
		return c16Window(s, pos, l)
	default:
		return ^c16Window(s, pos, l) & mask
	}
}

// ---- monitors ----

type c16Ctx struct {
	caseID    string
	class     string
	tampered  bool
	cut       bool // the stream was cut short (no byte altered)
	hadErr    bool // an earlier message on this connection was rejected with a body-level error
	overAlloc bool // a receive allocated far more than the stream holds
	dmgLo     int  // damaged bit range in the stream [dmgLo, dmgHi)
	dmgHi     int
}

func c16Report(ctx *c16Ctx, sig, what string, detail map[string]interface{}) {
	vw.Report(vw.Violation{Property: "C16", Signature: sig, What: what, Case: ctx.caseID, Detail: detail})
}

// judge one receive outcome against the message sent at that place. stream is what the receiver read from,
// msgs/idx identify the expected message.
func c16Judge(ctx *c16Ctx, stream []byte, msgs []*c16Msg, idx int, o *c16Out, bufcap int) {
	var want *c16Msg
	if idx < len(msgs) {
		want = msgs[idx]
	}
	det := map[string]interface{}{"index": idx, "class": o.class, "err": o.errText, "consumed": o.consumed,
		"case_class": ctx.class, "damage_bits": []int{ctx.dmgLo, ctx.dmgHi}}
	if want != nil {
		det["sent_payload_len"] = len(want.payload)
		det["frame_start"] = want.start
		det["frame_len"] = len(want.frame)
	}
	if o.class == 8 {
		t := "untampered"
		if ctx.tampered {
			t = "tampered"
		}
		c16Report(ctx, "recv-panic/"+t, "the receiving codec panicked: "+o.errText, det)
		return
	}
	if !ctx.tampered {
		if want == nil {
			return
		}
		if o.class == 7 && ctx.cut {
			return // the connection broke: waiting for the rest is all the receiver can do
		}
		if o.class != 1 {
			c16Report(ctx, fmt.Sprintf("untampered-not-delivered/class-%d", o.class),
				"a message of an undamaged stream was not delivered: "+o.errText, det)
			return
		}
		switch {
		case !o.hdrSame:
			c16Report(ctx, "untampered-delivered-different/header", "undamaged stream: delivered header differs from the one sent", det)
		case !o.argsSame:
			c16Report(ctx, "untampered-delivered-different/args", "undamaged stream: delivered arguments differ from the ones sent", det)
		case !o.paySame:
			c16Report(ctx, "untampered-delivered-different/payload", "undamaged stream: delivered payload differs from the one sent", det)
		case o.consumed != len(want.frame):
			c16Report(ctx, "untampered-bleed/consumed", "undamaged stream: the receiver consumed more or fewer bytes than the frame has", det)
		}
		if o.class == 1 && len(o.payload) > 0 {
			fitsBuf := len(want.payload) <= bufcap
			if o.inbuf != fitsBuf {
				c16Report(ctx, fmt.Sprintf("buffer-rule/inbuf-%v-fits-%v", o.inbuf, fitsBuf),
					"payload must land in the caller's buffer exactly when it fits", det)
			}
			if o.capOut < len(o.payload) {
				c16Report(ctx, "buffer-rule/cap-below-len", "delivered slice has capacity below its length", det)
			}
		}
		return
	}
	// damaged stream
	if len(stream) < 1<<20 && o.alloc > 64<<20 {
		// (encoding/gob itself allocates at most 10 MiB ahead of the data it has actually received)
		det["allocated"] = o.alloc
		ctx.overAlloc = true
		c16Report(ctx, "tampered-unverified-length-allocated",
			"damaged stream: the receiver allocated a buffer for a length it had not verified", det)
	}
	if o.class == 1 {
		after := ""
		if ctx.hadErr {
			after = "-after-rejected-message"
		}
		if want == nil {
			c16Report(ctx, "tampered-delivered-extra-message"+after, "damaged stream: a message was delivered that was never sent", det)
			return
		}
		if o.hdrSame && o.argsSame && o.paySame {
			return
		}
		what := "payload"
		if !o.hdrSame {
			what = "header"
		} else if !o.argsSame {
			what = "args"
		}
		// name the input class: did the burst turn the payload checksum field of this frame into 0?
		end := want.start + len(want.frame)
		if what == "payload" && len(want.payload) > 0 && end <= len(stream) &&
			bytes.Equal(stream[end-4:end], []byte{0, 0, 0, 0}) && !bytes.Equal(want.frame[len(want.frame)-4:], []byte{0, 0, 0, 0}) {
			c16Report(ctx, "tampered-delivered-altered/payload-crc-field-zeroed",
				"damaged stream: altered payload delivered because the burst turned the payload checksum field into 0 (\"don't check\")", det)
			return
		}
		if ctx.hadErr {
			c16Report(ctx, "tampered-delivered-altered-after-rejected-message/"+what,
				"damaged stream: after a message was rejected (checksum/decode error) the connection stays in use and a later message is delivered with "+what+" different from what was sent", det)
			return
		}
		c16Report(ctx, "tampered-delivered-altered/"+what, "damaged stream: delivered "+what+" differs from what was sent", det)
		return
	}
	if o.class == 7 && want != nil {
		// a burst that touches no gob byte leaves the frame's extent decidable from checked fields: must be an error, not a wait
		gobEnd := (want.start + len(want.hgob) + len(want.bgob)) * 8
		frameEnd := (want.start + len(want.frame)) * 8
		if ctx.dmgLo >= gobEnd && ctx.dmgHi <= frameEnd && len(stream) >= want.start+len(want.frame) {
			c16Report(ctx, "tampered-fields-not-rejected/stall",
				"damaged length/checksum/payload bytes made the receiver wait for more input instead of reporting an error", det)
		}
	}
}

// ---- generators ----

func c16Text(r *vw.Rng, max int) string {
	n := r.Intn(max + 1)
	b := make([]byte, n)
	for i := range b {
		b[i] = byte('a' + r.Intn(26))
	}
	return string(b)
}

// payload bytes: small ones random; large ones piecewise constant (so that RLE keeps the trace small) with a random tail
func c16Payload(r *vw.Rng, n int) []byte {
	b := make([]byte, n)
	if n <= 600 {
		for i := range b {
			b[i] = byte(r.U64())
		}
		return b
	}
	i := 0
	for i < n {
		l := r.PickInt(1, 2, 3, 17, 255, 256, 4096, 65536, 300000)
		if r.Chance(1, 3) {
			l = r.Range(1, 2000)
		}
		if n > 1<<20 && r.Chance(1, 2) {
			l = r.Range(100000, 3000000)
		}
		v := byte(r.U64())
		for j := 0; j < l && i < n; j++ {
			b[i] = v
			i++
		}
	}
	// last bytes random (burst tests at the payload/checksum boundary)
	for k := 1; k <= 3 && k <= n; k++ {
		b[n-k] = byte(r.U64())
	}
	return b
}

func c16GenMsg(r *vw.Rng, seq uint64, bulk bool, n int) *c16Msg {
	m := &c16Msg{bulk: bulk, method: "Svc." + c16Text(r, 6), seq: seq, field: r.Intn(1 << 20), s: c16Text(r, 5)}
	if r.Chance(1, 3) {
		m.errstr = c16Text(r, 8)
	}
	if r.Chance(1, 6) {
		m.field = 0 // gob omits zero fields
	}
	if bulk {
		m.payload = c16Payload(r, n)
	}
	return m
}

func c16SmallSize(r *vw.Rng) int {
	switch r.Intn(10) {
	case 0, 1:
		return 0
	case 2:
		return 1
	case 3:
		return r.Range(2, 9)
	case 4:
		return r.PickInt(4095, 4096, 4097) // bufio buffer size
	case 5:
		return r.PickInt(4096-60, 4096-40, 4096-20, 8192, 8193)
	default:
		return r.Range(1, 3000)
	}
}

// receiver buffer for a payload of n bytes: none / smaller / equal / larger
func c16Buf(r *vw.Rng, n int) []byte {
	var c int
	switch r.Intn(6) {
	case 0:
		return nil
	case 1:
		c = n - 1
	case 2:
		c = n
	case 3:
		c = n + 1
	case 4:
		c = r.Range(0, 2*n+8)
	default:
		c = n / 2
	}
	if c < 0 {
		c = 0
	}
	l := 0
	if c > 0 && r.Bool() {
		l = r.Intn(c + 1)
	}
	b := make([]byte, l, c)
	for i := range b {
		b[i] = 0xEE
	}
	return b
}

func c16Stream(msgs []*c16Msg) []byte {
	var s []byte
	for _, m := range msgs {
		s = append(s, m.frame...)
	}
	return s
}

// run one connection: send msgs, optionally damage, receive them all. Returns false if something unexpected happened in the harness.
func c16RunSeq(t *testing.T, tr *vw.Trace, r *vw.Rng, ctx *c16Ctx, isReq bool, msgs []*c16Msg, damage func(stream []byte) []byte, chunk int) {
	snd := c16NewSender(isReq)
	for _, m := range msgs {
		if err := snd.send(m, r); err != nil {
			t.Fatalf("send: %v", err)
		}
		m.traceSend(tr)
	}
	stream := c16Stream(msgs)
	if !bytes.Equal(stream, snd.conn.wr.Bytes()) {
		t.Fatalf("capture mismatch")
	}
	if damage != nil {
		stream = damage(stream)
	}
	rc := c16NewReceiver(isReq, stream, chunk)
	for i := 0; i < len(msgs)+1; i++ {
		var want *c16Msg
		bulk := true
		n := 0
		if i < len(msgs) {
			want = msgs[i]
			bulk = want.bulk
			n = len(want.payload)
		} else if rc.offset() >= len(stream) && !ctx.tampered {
			break
		}
		var buf []byte
		if bulk {
			buf = c16Buf(r, n)
		}
		o := rc.recvOne(want, bulk, buf)
		var op vw.L
		op.Add(2)
		op.Add(o.oracle(bulk, cap(buf))...)
		tr.Op(op...)
		tr.Obs(o.obs()...)
		vw.Stat(fmt.Sprintf("recv.%s.class%d", ctx.class, o.class), 1)
		if o.class == 1 && len(o.payload) > 0 {
			vw.Stat(fmt.Sprintf("recv.inbuf.%v", o.inbuf), 1)
		}
		c16Judge(ctx, stream, msgs, i, &o, cap(buf))
		if o.class == 2 || o.class == 7 || o.class == 8 {
			break // net/rpc drops the connection
		}
		if o.class != 1 {
			ctx.hadErr = true // net/rpc answers/records the error and keeps reading from the same connection
		}
	}
	if !ctx.tampered && !ctx.cut && rc.offset() != len(stream) {
		c16Report(ctx, "untampered-bleed/stream-not-consumed", "undamaged stream: bytes left over after the last message", map[string]interface{}{"left": len(stream) - rc.offset()})
	}
	tr.Op(9)
	tr.Obs(777, 1)
}

func TestVerifC16(t *testing.T) {
	if !vw.Enabled() {
		t.Skip("verification harness: run through /verif/bin/check")
	}
	root := vw.NewRng(vw.Seed())
	tr := vw.OpenTrace("C16.trace")
	defer tr.Close()
	defer vw.Finish("C16")
	vw.Sample(fmt.Sprintf("C16 codec harness, seed %d, thorough=%v", vw.Seed(), vw.Thorough()))
	// gob numbers types process-wide in order of first use: fix that order, so that a case replayed alone
	// (VERIF_CASES) puts exactly the same bytes on the wire as in the full run
	for _, v := range []interface{}{&rpc.Request{}, &rpc.Response{}, &c16Bulk{}, &c16Plain{}} {
		if err := gob.NewEncoder(&bytes.Buffer{}).Encode(v); err != nil {
			t.Fatal(err)
		}
	}
	ci := 0
	next := func(class string) (string, *vw.Rng, bool) {
		id := fmt.Sprintf("%d", ci)
		r := root.Fork(uint64(ci))
		ci++
		return id, r, vw.CaseSelected(id)
	}

	// ---- class F: GetBuffer size classes ----
	if id, _, ok := next("getbuffer"); ok {
		tr.Case(id)
		bounds := []int{0, 1, 4096, 128*1024 + 65536, buf1MBSize, buf4MBSize}
		if vw.Thorough() {
			bounds = append(bounds, buf8MBSize)
		}
		for _, b := range bounds {
			for d := -1; d <= 1; d++ {
				n := b + d
				if n < 0 {
					continue
				}
				var buf []byte
				func() {
					defer func() {
						if p := recover(); p != nil {
							buf = nil
							vw.Report(vw.Violation{Property: "C16", Signature: "pool/panic", What: fmt.Sprintf("GetBuffer(%d) panicked: %v", n, p), Case: id})
						}
					}()
					buf = GetBuffer(n)
				}()
				tr.Op(5, int64(n))
				tr.Obs(int64(len(buf)), int64(cap(buf)))
				if cap(buf) < n || len(buf) != n {
					vw.Report(vw.Violation{Property: "C16", Signature: "pool/too-small", What: "GetBuffer(n) returned a slice shorter than n", Case: id})
				}
				PutBuffer(buf, true)
				vw.Stat("getbuffer", 1)
			}
		}
	}

	// ---- class A: undamaged sequences ----
	big := []int{128*1024 + 65536 - 1, 128*1024 + 65536, 128*1024 + 65536 + 1, buf1MBSize - 1, buf1MBSize, buf1MBSize + 1}
	if vw.Thorough() {
		big = append(big, 4<<20, buf4MBSize-1, buf4MBSize, buf4MBSize+1, 8<<20, buf8MBSize-1, buf8MBSize, buf8MBSize+1)
	}
	for _, n := range big {
		id, r, ok := next("seq-big")
		if !ok {
			continue
		}
		tr.Case(id)
		ctx := &c16Ctx{caseID: id, class: "seq-big"}
		isReq := r.Bool()
		msgs := []*c16Msg{c16GenMsg(r, 1, true, c16SmallSize(r)), c16GenMsg(r, 2, true, n), c16GenMsg(r, 3, r.Bool(), c16SmallSize(r))}
		c16RunSeq(t, tr, r, ctx, isReq, msgs, nil, r.PickInt(0, 0, 1000, 4096, 70000))
		vw.Distinct(fmt.Sprintf("big-%d-%v", n, isReq))
	}
	nseq := vw.Scale(150, 3000)
	for k := 0; k < nseq; k++ {
		id, r, ok := next("seq")
		if !ok {
			continue
		}
		tr.Case(id)
		ctx := &c16Ctx{caseID: id, class: "seq"}
		isReq := r.Bool()
		nm := r.Range(1, 6)
		var msgs []*c16Msg
		fp := fmt.Sprintf("seq-%v", isReq)
		for i := 0; i < nm; i++ {
			bulk := r.Chance(3, 4)
			m := c16GenMsg(r, uint64(i+1), bulk, c16SmallSize(r))
			msgs = append(msgs, m)
			fp += fmt.Sprintf("-%v%d", bulk, len(m.payload))
		}
		c16RunSeq(t, tr, r, ctx, isReq, msgs, nil, r.PickInt(0, 0, 1, 2, 3, 7, 100, 4096))
		vw.Distinct(fp)
		if k < 2 {
			vw.Sample(fmt.Sprintf("case %s: %s", id, fp))
		}
	}

	// ---- class B: sequences with one burst somewhere in the stream, or a cut ----
	ntam := vw.Scale(1500, 60000)
	for k := 0; k < ntam; k++ {
		id, r, ok := next("tamper-seq")
		if !ok {
			continue
		}
		tr.Case(id)
		ctx := &c16Ctx{caseID: id, class: "tamper-seq", tampered: true}
		isReq := r.Bool()
		nm := r.Range(1, 4)
		var msgs []*c16Msg
		for i := 0; i < nm; i++ {
			n := r.PickInt(0, 1, 2, 3, 5, 8, 16, 40, 100)
			msgs = append(msgs, c16GenMsg(r, uint64(i+1), r.Chance(4, 5), n))
		}
		cut := r.Chance(1, 10)
		damage := func(s []byte) []byte {
			if cut {
				k := r.Intn(len(s))
				ctx.dmgLo, ctx.dmgHi = k*8, len(s)*8
				ctx.tampered, ctx.cut = false, true // a cut is not an alteration: everything delivered must still be right
				tr.Op(6, int64(k))
				tr.Obs(0)
				return s[:k]
			}
			l := r.Range(1, 32)
			pos := r.Intn(len(s)*8 - l + 1)
			// half of the bursts near the field boundaries of a frame
			if r.Bool() {
				m := msgs[r.Intn(len(msgs))]
				g := m.start + len(m.hgob) + len(m.bgob)
				anchor := r.PickInt(g, g+4, g+8, m.start+len(m.frame)-4, m.start+len(m.frame)) * 8
				pos = anchor - r.Intn(40)
				if pos < 0 {
					pos = 0
				}
				if pos > len(s)*8-l {
					pos = len(s)*8 - l
				}
			}
			pat := c16Pattern(r, s, pos, l, r.PickInt(0, 1, 1, 2, 2, 3))
			if pat == 0 {
				pat = 1
			}
			ctx.dmgLo, ctx.dmgHi = pos, pos+l
			tr.Op(3, int64(pos), int64(pat))
			tr.Obs(0)
			return c16XorAt(s, pos, pat)
		}
		if cut {
			ctx.class = "cut-seq"
		}
		c16RunSeq(t, tr, r, ctx, isReq, msgs, damage, r.PickInt(0, 0, 1, 5))
		vw.Distinct(fmt.Sprintf("tam-%v-%d-%d-%d", isReq, nm, ctx.dmgLo, ctx.dmgHi-ctx.dmgLo))
	}

	// ---- classes C/D: every burst position on a small second message ----
	nsweep := vw.Scale(60, 600)
	nfull := vw.Scale(3, 40)
	for k := 0; k < nsweep; k++ {
		id, r, ok := next("sweep")
		if !ok {
			continue
		}
		tr.Case(id)
		full := k < nfull
		ctx := &c16Ctx{caseID: id, class: "sweep", tampered: true}
		if full {
			ctx.class = "sweep-full"
		}
		isReq := k%2 == 0
		bulk := k%5 != 4
		m1 := c16GenMsg(r, 1, bulk, r.PickInt(0, 3))
		m2 := c16GenMsg(r, 2, bulk, r.Range(1, 8))
		msgs := []*c16Msg{m1, m2}
		snd := c16NewSender(isReq)
		for _, m := range msgs {
			if err := snd.send(m, nil); err != nil {
				t.Fatalf("send: %v", err)
			}
			m.traceSend(tr)
		}
		stream := c16Stream(msgs)
		// receive m1 undamaged (also in the model: the stream in flight is then m2's frame)
		{
			rc := c16NewReceiver(isReq, stream, 0)
			o := rc.recvOne(m1, bulk, nil)
			var op vw.L
			op.Add(2)
			op.Add(o.oracle(bulk, 0)...)
			tr.Op(op...)
			tr.Obs(o.obs()...)
			un := *ctx
			un.tampered = false
			c16Judge(&un, stream, msgs, 0, &o, 0)
		}
		nbits := len(m2.frame) * 8
		probe := func(pos, l int, pat uint64) {
			if pat == 0 || ctx.overAlloc {
				return // (after one over-allocation the point is made; do not spend gigabytes on the rest of the sweep)
			}
			dmg := c16XorAt(stream, m2.start*8+pos, pat)
			rc := c16NewReceiver(isReq, dmg, 0)
			o1 := rc.recvOne(m1, bulk, nil)
			if o1.class != 1 {
				t.Fatalf("sweep: first message not received: %v", o1.errText)
			}
			buf := make([]byte, 0, r.PickInt(0, len(m2.payload), 64))
			o := rc.recvOne(m2, bulk, buf)
			var op vw.L
			op.Add(4, int64(pos), int64(pat))
			op.Add(o.oracle(bulk, cap(buf))...)
			tr.Op(op...)
			tr.Obs(o.obs()...)
			ctx.dmgLo, ctx.dmgHi = m2.start*8+pos, m2.start*8+pos+l
			c16Judge(ctx, dmg, msgs, 1, &o, cap(buf))
			vw.Stat(fmt.Sprintf("probe.class%d", o.class), 1)
		}
		for pos := 0; pos < nbits; pos++ {
			if full {
				for l := 1; l <= 32 && pos+l <= nbits; l++ {
					probe(pos, l, c16Pattern(r, stream[m2.start:], pos, l, 0))
				}
				if pos+32 <= nbits {
					probe(pos, 32, c16Pattern(r, stream[m2.start:], pos, 32, 1))
				}
			}
			l := 32
			if pos+l > nbits {
				l = nbits - pos
			}
			probe(pos, l, c16Pattern(r, stream[m2.start:], pos, l, 2))
			probe(pos, l, c16Pattern(r, stream[m2.start:], pos, l, 3))
		}
		tr.Op(9)
		tr.Obs(777, 1)
		vw.Distinct(fmt.Sprintf("sweep-%v-%v-%d-%v", isReq, bulk, len(m2.frame), full))
	}
	vw.Stat("cases", int64(ci))
}
