package core

// C16 harness, part 2 (overlay file; lives in /verif): the production message types that carry bulk payloads
// (CreateTractReq, WriteReq, ReadReply) through the real bulk codec. Monitor only: every field and the payload
// arrive exactly as sent, consecutive messages do not bleed, the payload lands in the caller's buffer iff it fits.

import (
	"bytes"
	"encoding/gob"
	"fmt"
	"io"
	gorpc "net/rpc"
	"testing"

	"github.com/westerndigitalcorporation/blb/pkg/rpc"
	vw "github.com/westerndigitalcorporation/blb/pkg/verifwire"
)

type c16Pipe struct{ bytes.Buffer }

func (p *c16Pipe) Close() error { return nil }

var _ io.ReadWriteCloser = (*c16Pipe)(nil)

func TestVerifC16Core(t *testing.T) {
	if !vw.Enabled() {
		t.Skip("verification harness: run through /verif/bin/check")
	}
	defer vw.Finish("C16core")
	root := vw.NewRng(vw.Seed() ^ 0xC16C0)
	// fix gob's process-wide type numbering so that a case replayed alone sends the same bytes
	for _, v := range []interface{}{&gorpc.Request{}, &gorpc.Response{}, &CreateTractReq{}, &WriteReq{}, &ReadReply{}} {
		if err := gob.NewEncoder(&bytes.Buffer{}).Encode(v); err != nil {
			t.Fatal(err)
		}
	}
	sizes := []int{0, 1, 2, 4095, 4096, 4097, 128*1024 + 65536, 128*1024 + 65536 + 1, 1<<20 + 65536, 1<<20 + 65536 + 1}
	if vw.Thorough() {
		sizes = append(sizes, 4<<20, 4<<20+65536+1, 8<<20, 8<<20+65536+1)
	}
	ncases := vw.Scale(40, 400)
	for ci := 0; ci < ncases; ci++ {
		id := fmt.Sprintf("core-%d", ci)
		if !vw.CaseSelected(id) {
			continue
		}
		r := root.Fork(uint64(ci))
		report := func(sig, what string, det map[string]interface{}) {
			vw.Report(vw.Violation{Property: "C16", Signature: sig, What: what, Case: id, Detail: det})
		}
		pipe := &c16Pipe{}
		snd := rpc.VerifC16NewCodec(pipe)
		rcv := rpc.VerifC16NewCodec(pipe)
		nm := r.Range(1, 5)
		type sent struct {
			kind    int
			seq     uint64
			payload []byte
			tsid    TractserverID
			tid     TractID
			off     int64
			pri     Priority
			ver     int
			reqID   string
			errc    Error
		}
		var msgs []sent
		isReq := r.Bool()
		for i := 0; i < nm; i++ {
			n := sizes[r.Intn(len(sizes))]
			if ci >= len(sizes) && r.Chance(2, 3) {
				n = r.Intn(5000)
			}
			if ci >= len(sizes) && r.Chance(1, 4) {
				n = 0
			}
			if i == 0 && ci < len(sizes) {
				n = sizes[ci]
			}
			p := make([]byte, n)
			vw.Fill(p, uint64(ci*16+i), 0)
			m := sent{seq: uint64(i + 1), payload: p, tsid: TractserverID(r.Intn(1 << 20)),
				tid: TractID{Blob: BlobID(r.U64()), Index: TractKey(r.Intn(1 << 16))}, off: int64(r.Intn(1 << 23)),
				pri: Priority(r.Intn(4)), ver: r.Intn(100), reqID: fmt.Sprintf("r%d", r.Intn(1000)), errc: Error(r.Intn(40))}
			var err error
			// the slice the sender holds: exact, with spare capacity, or a pooled buffer cut to the payload
			// (an empty B in a pooled buffer is what the tractserver replies for a read at or past the end of a tract)
			sendBuf := func() []byte {
				switch r.Intn(4) {
				case 0:
					return append([]byte(nil), p...)
				case 1:
					b := make([]byte, n, n+r.PickInt(1, 4096))
					copy(b, p)
					return b
				default:
					c := r.PickInt(n+1, 4096, 128*1024+65536+1, 1<<20+65536)
					if c < n+1 {
						c = n + 1
					}
					b := rpc.GetBuffer(c)[:n]
					copy(b, p)
					return b
				}
			}
			if isReq {
				m.kind = r.Intn(2)
				req := &gorpc.Request{ServiceMethod: "TSSrvHandler.X", Seq: m.seq}
				if m.kind == 0 {
					body := &CreateTractReq{TSID: m.tsid, ID: m.tid, B: sendBuf(), Off: m.off, Pri: m.pri}
					err = snd.WriteRequest(req, body)
					if body.B != nil {
						report("core/get-does-not-clear", "CreateTractReq.Get must clear B so gob does not encode it again", nil)
					}
				} else {
					body := &WriteReq{ID: m.tid, Version: m.ver, B: sendBuf(), Off: m.off, Pri: m.pri, ReqID: m.reqID}
					err = snd.WriteRequest(req, body)
				}
			} else {
				m.kind = 2
				resp := &gorpc.Response{ServiceMethod: "TSSrvHandler.Read", Seq: m.seq}
				err = snd.WriteResponse(resp, &ReadReply{Err: m.errc, B: sendBuf()})
			}
			if err != nil {
				t.Fatalf("send: %v", err)
			}
			msgs = append(msgs, m)
		}
		wireLen := pipe.Len()
		for i, m := range msgs {
			n := len(m.payload)
			var buf []byte
			switch r.Intn(4) {
			case 1:
				buf = make([]byte, 0, n)
			case 2:
				if n > 0 {
					buf = make([]byte, r.Intn(n), n-1)
				}
			case 3:
				buf = make([]byte, n/2, n+r.Intn(100))
			}
			if n == 0 && r.Bool() {
				buf = []byte{0xEE, 0xEE, 0xEE, 0xEE}[:r.Range(1, 4)] // a used buffer left in the body of a message without payload
			}
			det := map[string]interface{}{"index": i, "kind": m.kind, "payload_len": n, "bufcap": cap(buf)}
			var got []byte
			var same bool
			var err error
			panicked := false
			func() {
				defer func() {
					if p := recover(); p != nil {
						panicked = true
						det["panic"] = fmt.Sprint(p)
						report("core/recv-panic", "production message type: the receiving codec panicked", det)
					}
				}()
				if isReq {
					var h gorpc.Request
					if err = rcv.ReadRequestHeader(&h); err == nil {
						if m.kind == 0 {
							b := &CreateTractReq{B: buf}
							err = rcv.ReadRequestBody(b)
							got, same = b.B, b.TSID == m.tsid && b.ID == m.tid && b.Off == m.off && b.Pri == m.pri
						} else {
							b := &WriteReq{B: buf}
							err = rcv.ReadRequestBody(b)
							got, same = b.B, b.ID == m.tid && b.Version == m.ver && b.Off == m.off && b.Pri == m.pri && b.ReqID == m.reqID
						}
						same = same && h.Seq == m.seq && h.ServiceMethod == "TSSrvHandler.X"
					}
				} else {
					var h gorpc.Response
					if err = rcv.ReadResponseHeader(&h); err == nil {
						b := &ReadReply{B: buf}
						err = rcv.ReadResponseBody(b)
						got, same = b.B, b.Err == m.errc && h.Seq == m.seq
					}
				}
			}()
			if panicked {
				break
			}
			vw.Stat(fmt.Sprintf("core.kind%d", m.kind), 1)
			if err != nil {
				det["err"] = err.Error()
				report("core/untampered-not-delivered", "production message type: undamaged message not delivered", det)
				break
			}
			if !same {
				report("core/untampered-delivered-different/args", "production message type: header or arguments differ from what was sent", det)
			}
			if !bytes.Equal(got, m.payload) {
				report("core/untampered-delivered-different/payload", "production message type: payload differs from what was sent", det)
			}
			if n > 0 {
				inbuf := cap(buf) > 0 && len(got) > 0 && &got[:1][0] == &buf[:1][0]
				if inbuf != (n <= cap(buf)) {
					report("core/buffer-rule", "payload must land in the caller's buffer exactly when it fits", det)
				}
			}
		}
		if pipe.Len() != 0 {
			report("core/untampered-bleed", "bytes left in the stream after the last message", map[string]interface{}{"left": pipe.Len(), "wire": wireLen})
		}
		vw.Distinct(fmt.Sprintf("core-%v-%d-%d", isReq, nm, len(msgs[0].payload)))
		if ci < 2 { // (bin/check needs a non-null samples list)
			vw.Sample(fmt.Sprintf("case %s: production types, request=%v, %d messages, first payload %d bytes", id, isReq, nm, len(msgs[0].payload)))
		}
	}
}
