package rpc

// C16 harness, connection level (overlay file; lives in /verif).
// Drives the real ConnectionCache.Send / SendWithCancel and the plain rpc.Client path (dialHTTPContext + Call) against
// the real in-process bulk RPC server (RegisterName + http.Serve) over loopback TCP. Between client and server sits
// a byte-counting proxy that plays "the network / the server side going away" from a per-call fault script:
//   fault 0 none
//         1 the cached connection is dropped while idle (server restart between calls)
//         2 the connection is closed before the request is completely forwarded (after k bytes, k >= 0)
//         3 closed after the whole request reached the server, before the first reply byte
//         4 closed in the middle of the reply
//         9 concurrent calls sharing the cached connection while it is cut at a random byte
// Monitor (model-free), the property's sentence: every request a handler RECEIVES equals (args and payload) the one the
// client sent under that id; a reply obtained with err == nil equals what the handler returned for that id and the
// handler ran exactly once; nothing is delivered twice. Retry semantics read from the code: SendWithCancel retries once
// more (re-dialling) exactly when call.Error == rpc.ErrShutdown, which net/rpc's Client.send returns before anything is
// written; after WriteRequest ran (payload taken out of the request by BulkData.Get) there is no retry.
// Trace: op `20 mode fault cached errnil ndials ndeliv allsame replyok` -> `777 1`; the Coq model (RetryModel.conn_verdict)
// decides whether the observed outcome is one the retry rule allows for that fault script.

import (
	"context"
	"fmt"
	"hash/crc32"
	"net"
	"net/http"
	gorpc "net/rpc"
	"sync"
	"testing"
	"time"

	vw "github.com/westerndigitalcorporation/blb/pkg/verifwire"
)

// ---- messages (exported: net/rpc only serves exported argument types) ----

type VerifC16Req struct {
	ID   int
	Tag  string
	Want int // size of the reply payload
	Data []byte
	excl bool
}

func (m *VerifC16Req) Get() ([]byte, bool)  { b := m.Data; m.Data = nil; return b, m.excl }
func (m *VerifC16Req) Set(b []byte, e bool) { m.Data, m.excl = b, e }

type VerifC16Reply struct {
	ID   int
	N    int // payload length the handler saw
	Data []byte
	excl bool
}

func (m *VerifC16Reply) Get() ([]byte, bool)  { b := m.Data; m.Data = nil; return b, m.excl }
func (m *VerifC16Reply) Set(b []byte, e bool) { m.Data, m.excl = b, e }

type c16Digest struct {
	n   int
	crc uint32
}

func c16Dig(b []byte) c16Digest { return c16Digest{len(b), crc32.ChecksumIEEE(b)} }

type c16Delivery struct {
	tag     string
	want    int
	payload c16Digest
	retN    int
	ret     c16Digest
}

type VerifC16Handler struct {
	mu   sync.Mutex
	recv map[int][]c16Delivery
}

func (h *VerifC16Handler) Call(req *VerifC16Req, reply *VerifC16Reply) error {
	d := c16Delivery{tag: req.Tag, want: req.Want, payload: c16Dig(req.Data)}
	reply.ID = req.ID
	reply.N = len(req.Data)
	// like the tractserver: the reply payload lives in a pooled, exclusively owned buffer cut to size
	out := GetBuffer(req.Want + req.ID%3)[:req.Want]
	vw.Fill(out, uint64(req.ID)+7777, 0)
	d.retN, d.ret = reply.N, c16Dig(out)
	reply.Set(out, true)
	h.mu.Lock()
	h.recv[req.ID] = append(h.recv[req.ID], d)
	h.mu.Unlock()
	return nil
}

func (h *VerifC16Handler) deliveries(id int) []c16Delivery {
	h.mu.Lock()
	defer h.mu.Unlock()
	return append([]c16Delivery(nil), h.recv[id]...)
}

// ---- the network in the middle ----

type c16PConn struct {
	p              *c16Proxy
	client, server net.Conn
	c2s, s2c       int64 // raw bytes forwarded so far
	limC2S, limS2C int64 // close when this many bytes have been forwarded (-1: no limit)
	closed         bool
	tripped        bool
}

type c16Proxy struct {
	ln      net.Listener
	mu      sync.Mutex
	backend string
	conns   []*c16PConn
	accepts int
	// limits for the next accepted connection, in bytes after the CONNECT handshake (-1: none)
	nextC2S, nextS2C int64
}

var (
	c16HandshakeC2S = int64(len("CONNECT " + bulkRPCPath + " HTTP/1.0\n\n"))
	c16HandshakeS2C = int64(len("HTTP/1.0 " + connectedStatus + "\n\n"))
)

func c16NewProxy(backend string) (*c16Proxy, error) {
	ln, err := net.Listen("tcp", "127.0.0.1:0")
	if err != nil {
		return nil, err
	}
	p := &c16Proxy{ln: ln, backend: backend, nextC2S: -1, nextS2C: -1}
	go func() {
		for {
			c, err := ln.Accept()
			if err != nil {
				return
			}
			p.mu.Lock()
			backend := p.backend
			p.mu.Unlock()
			s, err := net.Dial("tcp", backend)
			if err != nil {
				c.Close()
				continue
			}
			pc := &c16PConn{p: p, client: c, server: s, limC2S: -1, limS2C: -1}
			p.mu.Lock()
			p.accepts++
			if p.nextC2S >= 0 {
				pc.limC2S = c16HandshakeC2S + p.nextC2S
			}
			if p.nextS2C >= 0 {
				pc.limS2C = c16HandshakeS2C + p.nextS2C
			}
			p.nextC2S, p.nextS2C = -1, -1
			p.conns = append(p.conns, pc)
			p.mu.Unlock()
			go pc.pump(c, s, true)
			go pc.pump(s, c, false)
		}
	}()
	return p, nil
}

func (pc *c16PConn) closeLocked() {
	if !pc.closed {
		pc.closed = true
		pc.client.Close()
		pc.server.Close()
	}
}

func (pc *c16PConn) pump(src, dst net.Conn, c2s bool) {
	buf := make([]byte, 32*1024)
	for {
		n, err := src.Read(buf)
		if n > 0 {
			pc.p.mu.Lock()
			cnt, lim := &pc.s2c, pc.limS2C
			if c2s {
				cnt, lim = &pc.c2s, pc.limC2S
			}
			cut := false
			if lim >= 0 && *cnt+int64(n) > lim {
				n = int(lim - *cnt)
				cut = true
			}
			*cnt += int64(n)
			closed := pc.closed
			pc.p.mu.Unlock()
			if !closed && n > 0 {
				if _, werr := dst.Write(buf[:n]); werr != nil {
					err = werr
				}
			}
			if cut {
				pc.p.mu.Lock()
				pc.tripped = true
				pc.closeLocked()
				pc.p.mu.Unlock()
				return
			}
		}
		if err != nil {
			pc.p.mu.Lock()
			pc.closeLocked()
			pc.p.mu.Unlock()
			return
		}
	}
}

func (p *c16Proxy) live() *c16PConn {
	p.mu.Lock()
	defer p.mu.Unlock()
	for i := len(p.conns) - 1; i >= 0; i-- {
		if !p.conns[i].closed {
			return p.conns[i]
		}
	}
	return nil
}

func (p *c16Proxy) dropAll() {
	p.mu.Lock()
	for _, c := range p.conns {
		c.closeLocked()
	}
	p.conns = nil
	p.mu.Unlock()
}

// arm a cut on the live connection (relative to what it has carried so far) or, if there is none, on the next one
func (p *c16Proxy) arm(c2s, s2c int64) {
	p.mu.Lock()
	defer p.mu.Unlock()
	for i := len(p.conns) - 1; i >= 0; i-- {
		if pc := p.conns[i]; !pc.closed {
			if c2s >= 0 {
				pc.limC2S = pc.c2s + c2s
			}
			if s2c >= 0 {
				pc.limS2C = pc.s2c + s2c
			}
			return
		}
	}
	p.nextC2S, p.nextS2C = c2s, s2c
}

// disarm; reports whether a cut happened since arm
func (p *c16Proxy) disarm() bool {
	p.mu.Lock()
	defer p.mu.Unlock()
	tripped := false
	for _, pc := range p.conns {
		if pc.tripped {
			tripped = true
			pc.tripped = false
		}
		pc.limC2S, pc.limS2C = -1, -1
	}
	p.nextC2S, p.nextS2C = -1, -1
	return tripped
}

func (p *c16Proxy) acceptCount() int {
	p.mu.Lock()
	defer p.mu.Unlock()
	return p.accepts
}

// ---- backend (the real server) with restart ----

type c16Backend struct {
	mu    sync.Mutex
	ln    net.Listener
	conns []net.Conn
}

func (b *c16Backend) Accept() (net.Conn, error) {
	b.mu.Lock()
	ln := b.ln
	b.mu.Unlock()
	c, err := ln.Accept()
	if err == nil {
		b.mu.Lock()
		b.conns = append(b.conns, c)
		b.mu.Unlock()
	}
	return c, err
}
func (b *c16Backend) Close() error   { return b.ln.Close() }
func (b *c16Backend) Addr() net.Addr { return b.ln.Addr() }

func c16StartBackend() (*c16Backend, error) {
	ln, err := net.Listen("tcp", "127.0.0.1:0")
	if err != nil {
		return nil, err
	}
	b := &c16Backend{ln: ln}
	go http.Serve(b, nil)
	return b, nil
}

func (b *c16Backend) stop() {
	b.ln.Close()
	b.mu.Lock()
	for _, c := range b.conns {
		c.Close()
	}
	b.conns = nil
	b.mu.Unlock()
}

// ---- one call ----

type c16Sent struct {
	id      int
	tag     string
	want    int
	payload c16Digest
}

type c16CallResult struct {
	err      error
	replyOK  bool
	replyWhy string
}

var c16ConnSizes = []int{0, 1, 7, 100, 4095, 4096, 4097, 70000, 128*1024 + 65536 + 1}

func c16ConnPayload(r *vw.Rng, id int) []byte {
	n := c16ConnSizes[r.Intn(len(c16ConnSizes))]
	if r.Chance(1, 25) {
		n = buf1MBSize + 1
	}
	b := make([]byte, n)
	vw.Fill(b, uint64(id)+99, 0)
	return b
}

// build the request the way production callers do: shared (non-exclusive) caller memory, or an exclusively owned
// pooled buffer; reply into nothing or into a caller-supplied buffer
func c16BuildCall(r *vw.Rng, id int) (*VerifC16Req, *VerifC16Reply, c16Sent) {
	payload := c16ConnPayload(r, id)
	want := c16ConnSizes[r.Intn(len(c16ConnSizes))]
	s := c16Sent{id: id, tag: c16Text(r, 6), want: want, payload: c16Dig(payload)}
	req := &VerifC16Req{ID: id, Tag: s.tag, Want: want}
	if r.Bool() {
		req.Set(payload, false)
	} else {
		b := GetBuffer(len(payload) + r.PickInt(0, 1, 4096))[:len(payload)]
		copy(b, payload)
		req.Set(b, true)
	}
	reply := &VerifC16Reply{}
	switch r.Intn(4) {
	case 1:
		reply.Data = make([]byte, 0, want)
	case 2:
		reply.Data = make([]byte, want/2, want+17)
	case 3:
		if want > 1 {
			reply.Data = make([]byte, 1, want-1)
		}
	}
	return req, reply, s
}

// check one finished call against what the handler saw; returns (ndeliv, allsame, replyok)
func c16ConnJudge(h *VerifC16Handler, caseID, fault string, s c16Sent, reply *VerifC16Reply, err error) (int, bool, bool) {
	ds := h.deliveries(s.id)
	rep := func(sig, what string, det map[string]interface{}) {
		det["id"], det["fault"], det["err"], det["deliveries"] = s.id, fault, fmt.Sprint(err), len(ds)
		det["sent_payload_len"] = s.payload.n
		vw.Report(vw.Violation{Property: "C16", Signature: sig, What: what, Case: caseID, Detail: det})
	}
	allsame := true
	for i, d := range ds {
		if d.tag != s.tag || d.want != s.want {
			allsame = false
			rep("conn/handler-received-altered/args/"+fault, "a handler received arguments different from the ones the client sent with that call", map[string]interface{}{"delivery": i})
		} else if d.payload != s.payload {
			allsame = false
			rep("conn/handler-received-altered/payload/"+fault, "a handler received a payload different from the one the client sent with that call (no corruption involved)",
				map[string]interface{}{"delivery": i, "received_len": d.payload.n})
		}
	}
	if len(ds) > 1 {
		rep("conn/delivered-more-than-once/"+fault, "one call was delivered to the handler more than once", map[string]interface{}{})
	}
	replyok := true
	if err == nil {
		if len(ds) == 0 {
			replyok = false
			rep("conn/success-without-delivery/"+fault, "Send returned nil but no handler ran for that call", map[string]interface{}{})
		} else {
			replyok = false
			got := c16Dig(reply.Data)
			for _, d := range ds {
				if reply.ID == s.id && reply.N == d.retN && got == d.ret {
					replyok = true
				}
			}
			if !replyok {
				rep("conn/reply-differs/"+fault, "a reply obtained without error differs from what the handler returned for that call",
					map[string]interface{}{"reply_len": len(reply.Data), "reply_id": reply.ID})
			}
		}
	}
	return len(ds), allsame, replyok
}

func TestVerifC16Conn(t *testing.T) {
	if !vw.Enabled() {
		t.Skip("verification harness: run through /verif/bin/check")
	}
	tr := vw.OpenTrace("C16conn.trace")
	defer tr.Close()
	defer vw.Finish("C16conn")
	vw.Sample(fmt.Sprintf("C16 connection-level harness, seed %d", vw.Seed()))
	root := vw.NewRng(vw.Seed() ^ 0xC16C011)

	h := &VerifC16Handler{recv: map[int][]c16Delivery{}}
	if err := RegisterName("VerifC16Handler", h); err != nil {
		t.Fatal(err)
	}
	be, err := c16StartBackend()
	if err != nil {
		t.Fatal(err)
	}
	px, err := c16NewProxy(be.Addr().String())
	if err != nil {
		t.Fatal(err)
	}
	defer px.ln.Close()
	addr := px.ln.Addr().String()
	faultName := map[int]string{0: "none", 1: "idle-drop", 2: "cut-in-request", 3: "cut-before-reply", 4: "cut-in-reply", 9: "concurrent"}

	ncases := vw.Scale(24, 240)
	for ci := 0; ci < ncases; ci++ {
		id := fmt.Sprintf("conn-%d", ci)
		if !vw.CaseSelected(id) {
			continue
		}
		r := root.Fork(uint64(ci))
		callID := ci*1000 + 1
		tr.Case(id)
		px.dropAll()
		mode := 0
		if ci%4 == 3 {
			mode = 1 // plain rpc.Client path
		}
		cc := NewConnectionCache(2*time.Second, 5*time.Second, 0)
		var plain *gorpc.Client
		ncalls := r.Range(4, 9)
		for k := 0; k < ncalls; k++ {
			req, reply, s := c16BuildCall(r, callID)
			callID++
			fault := r.PickInt(0, 0, 1, 2, 2, 3, 3, 3, 4, 4)
			if k == 0 && fault == 1 {
				fault = 3
			}
			cached := px.live() != nil
			if cached && fault != 1 && r.Chance(1, 3) {
				fault = 1
			}
			if mode == 1 {
				if plain == nil || !cached {
					if plain != nil {
						plain.Close()
					}
					ctx, cancel := context.WithTimeout(context.Background(), 2*time.Second)
					plain, err = dialHTTPContext(ctx, "tcp", addr)
					cancel()
					if err != nil {
						t.Fatalf("dial: %v", err)
					}
					time.Sleep(2 * time.Millisecond)
				}
				cached = true
			}
			if fault == 1 && !cached {
				fault = 0
			}
			switch fault {
			case 1:
				if r.Bool() { // a real server restart, or just the connection going away
					be.stop()
					if be, err = c16StartBackend(); err != nil {
						t.Fatal(err)
					}
					px.mu.Lock()
					px.backend = be.Addr().String()
					px.mu.Unlock()
				}
				px.dropAll()
				time.Sleep(30 * time.Millisecond) // let the client's reader see the EOF
			case 2:
				px.arm(int64(r.PickInt(0, 0, 1, 9, 30, s.payload.n/2+20, s.payload.n+10)), -1)
			case 3:
				px.arm(-1, 0)
			case 4:
				px.arm(-1, int64(r.PickInt(1, 5, 20, 40, s.want/2+30)))
			}
			dials0 := px.acceptCount()
			var cerr error
			if mode == 0 {
				if r.Bool() {
					cerr = cc.Send(context.Background(), addr, "VerifC16Handler.Call", req, reply)
				} else {
					cerr = cc.SendWithCancel(context.Background(), addr, "VerifC16Handler.Call", req, reply, nil)
				}
			} else {
				cerr = plain.Call("VerifC16Handler.Call", req, reply)
			}
			ndials := px.acceptCount() - dials0
			tripped := px.disarm()
			if fault >= 2 && !tripped {
				fault = 0 // the cut lay beyond the end of this call's bytes: nothing happened
			}
			time.Sleep(time.Millisecond) // the handler of a cut call may still be recording
			ndeliv, allsame, replyok := c16ConnJudge(h, id, faultName[fault], s, reply, cerr)
			tr.Op(20, int64(mode), int64(fault), c16b(cached), c16b(cerr == nil), int64(ndials), int64(ndeliv), c16b(allsame), c16b(replyok))
			tr.Obs(777, 1)
			vw.Stat(fmt.Sprintf("conn.mode%d.%s.errnil-%v", mode, faultName[fault], cerr == nil), 1)
			vw.Distinct(fmt.Sprintf("conn-%d-%d-%d-%d", mode, fault, s.payload.n, s.want))
			if cerr != nil && mode == 1 {
				plain.Close()
				plain = nil
				px.dropAll()
			}
		}
		if plain != nil {
			plain.Close()
		}
		cc.CloseAll()
	}

	// ---- concurrent calls sharing the cached connection, cut at a random byte ----
	nconc := vw.Scale(4, 40)
	for ci := 0; ci < nconc; ci++ {
		id := fmt.Sprintf("conc-%d", ci)
		if !vw.CaseSelected(id) {
			continue
		}
		r := root.Fork(uint64(100000 + ci))
		tr.Case(id)
		px.dropAll()
		cc := NewConnectionCache(2*time.Second, 5*time.Second, 0)
		base := 5000000 + ci*1000
		// warm the connection, then arm a cut somewhere in the traffic to come
		{
			req, reply, s := c16BuildCall(r, base)
			cerr := cc.Send(context.Background(), addr, "VerifC16Handler.Call", req, reply)
			c16ConnJudge(h, id, "none", s, reply, cerr)
		}
		if r.Bool() {
			px.arm(int64(r.Range(0, 300000)), -1)
		} else {
			px.arm(-1, int64(r.Range(0, 300000)))
		}
		nw := r.Range(3, 6)
		type res struct {
			s     c16Sent
			reply *VerifC16Reply
			err   error
		}
		results := make([][]res, nw)
		var wg sync.WaitGroup
		for w := 0; w < nw; w++ {
			wr := r.Fork(uint64(w))
			wg.Add(1)
			go func(w int) {
				defer wg.Done()
				for k := 0; k < 6; k++ {
					req, reply, s := c16BuildCall(wr, base+1+w*100+k)
					cerr := cc.Send(context.Background(), addr, "VerifC16Handler.Call", req, reply)
					results[w] = append(results[w], res{s, reply, cerr})
				}
			}(w)
		}
		wg.Wait()
		px.disarm()
		time.Sleep(2 * time.Millisecond)
		for w := range results {
			for _, x := range results[w] {
				ndeliv, allsame, replyok := c16ConnJudge(h, id, "concurrent", x.s, x.reply, x.err)
				tr.Op(20, 0, 9, 1, c16b(x.err == nil), 0, int64(ndeliv), c16b(allsame), c16b(replyok))
				tr.Obs(777, 1)
				vw.Stat("conn.concurrent.calls", 1)
			}
		}
		cc.CloseAll()
	}
	be.stop()
}
