package raftfs

// C07 part B harness (file level), injected by `go test -overlay -tags verif`; lives in /verif.
//
// Drives the real fsState and fsSnapshotMgr in scratch directories. The verifhook sites in pkg/disk and
// pkg/raft/raftfs (open, rename, remove, directory fsync) and a wrapper around the file object used by ChecksumFile
// (WriteAt, Sync: see shim_disk_verif.go) feed a shadow of the directory (name -> inode, per inode: current bytes, bytes at the last
// fsync, dirty flag; durable directory + directory operations pending since the last directory fsync).
// After every file-system mutation of every operation the shadow is remembered ("crash point"). For every
// crash point the harness materialises
//   - the exact state                                  (the property's own quantifier),
//   - torn variants of the write in flight             (new[:c] ++ old[c:] for several cuts c),
//   - power-loss variants                              (any subset of the pending directory operations applied to
//                                                       the durable directory; dirty files keep everything / fall
//                                                       back to their last fsync / are empty or truncated),
// runs the real NewFSState / NewFSSnapshotMgr on a copy and (1) evaluates the property's sentence directly
// (monitors, no model), (2) records op + observation lines that the extracted Coq model must reproduce.

import (
	"bytes"
	"crypto/sha256"
	"encoding/json"
	"fmt"
	"io"
	"io/ioutil"
	"os"
	"path/filepath"
	"sort"
	"strings"
	"testing"

	"github.com/westerndigitalcorporation/blb/pkg/disk"
	"github.com/westerndigitalcorporation/blb/pkg/raft/raft"
	"github.com/westerndigitalcorporation/blb/pkg/verifhook"
	vw "github.com/westerndigitalcorporation/blb/pkg/verifwire"
)

const c7Prop = "C07"

// ---------------------------------------------------------------- shadow file system

type c7File struct {
	cur, synced []byte
	dirty       bool
}

type c7Dop struct {
	kind int // 1 link, 2 rename, 3 unlink
	a, b string
	fid  int
}

type c7Point struct {
	names, sdir map[string]int
	pend        []c7Dop
	files       map[int]*c7File
	lastW       int // inode written by the event that led to this point (-1 if it was not a write)
}

type c7Event struct {
	kind int // 1 openCT 2 write 3 fsync 4 dirsync 5 rename 6 unlink
	a, b string
}

type c7Tracker struct {
	dir    string
	active bool
	cur    c7Point
	next   int
	points []c7Point
	events []c7Event
	drift  int
	nhooks int
}

func c7CopyMap(m map[string]int) map[string]int {
	r := make(map[string]int, len(m))
	for k, v := range m {
		r[k] = v
	}
	return r
}

func (p c7Point) clone() c7Point {
	q := c7Point{names: c7CopyMap(p.names), sdir: c7CopyMap(p.sdir), lastW: p.lastW}
	q.pend = append([]c7Dop(nil), p.pend...)
	q.files = make(map[int]*c7File, len(p.files))
	for k, v := range p.files {
		q.files[k] = v
	}
	return q
}

// resync rebuilds the shadow from the real directory: everything found is taken as durable.
func (t *c7Tracker) resync() {
	t.cur = c7Point{names: map[string]int{}, sdir: map[string]int{}, files: map[int]*c7File{}, lastW: -1}
	ents, _ := ioutil.ReadDir(t.dir)
	for _, e := range ents {
		b, _ := ioutil.ReadFile(filepath.Join(t.dir, e.Name()))
		t.next++
		t.cur.names[e.Name()] = t.next
		t.cur.sdir[e.Name()] = t.next
		t.cur.files[t.next] = &c7File{cur: b, synced: b}
	}
}

func (t *c7Tracker) beginOp() {
	t.points = []c7Point{t.cur.clone()}
	t.events = nil
	t.active = true
}

func (t *c7Tracker) endOp(hooked bool) {
	t.active = false
	if !hooked {
		t.resync()
		t.points = append(t.points, t.cur.clone())
		return
	}
	// the shadow must describe the real directory, otherwise something mutated it behind the hooks
	ents, _ := ioutil.ReadDir(t.dir)
	ok := len(ents) == len(t.cur.names)
	for _, e := range ents {
		fid, in := t.cur.names[e.Name()]
		if !in {
			ok = false
			break
		}
		b, _ := ioutil.ReadFile(filepath.Join(t.dir, e.Name()))
		if !bytes.Equal(b, t.cur.files[fid].cur) {
			ok = false
		}
	}
	if !ok {
		t.drift++
		vw.Stat("shadow_drift_unhooked_mutation", 1)
		t.resync()
		t.points = append(t.points, t.cur.clone())
	}
}

func (t *c7Tracker) record(ev c7Event, lastW int) {
	t.cur.lastW = lastW
	t.events = append(t.events, ev)
	t.points = append(t.points, t.cur.clone())
}

func (t *c7Tracker) at(site string, args ...interface{}) {
	if !t.active || len(args) == 0 {
		return
	}
	path, _ := args[0].(string)
	if site == "disk.syncdir.after" {
		if filepath.Clean(path) != t.dir {
			return
		}
		t.nhooks++
		t.cur.sdir = c7CopyMap(t.cur.names)
		t.cur.pend = nil
		t.record(c7Event{kind: 4}, -1)
		return
	}
	if filepath.Dir(path) != t.dir {
		return
	}
	name := filepath.Base(path)
	switch site {
	case "disk.open.after":
		t.nhooks++
		flags, _ := args[1].(int)
		if flags&os.O_CREATE == 0 {
			return
		}
		if fid, in := t.cur.names[name]; !in {
			t.next++
			t.cur.names[name] = t.next
			t.cur.files[t.next] = &c7File{}
			t.cur.pend = append(t.cur.pend, c7Dop{kind: 1, a: name, fid: t.next})
		} else if flags&os.O_TRUNC != 0 && len(t.cur.files[fid].cur) > 0 {
			old := t.cur.files[fid]
			t.cur.files[fid] = &c7File{cur: nil, synced: old.synced, dirty: true}
		}
		t.record(c7Event{kind: 1, a: name}, -1)
	case "disk.file.write":
		fid, in := t.cur.names[name]
		if !in {
			t.record(c7Event{kind: 2, a: name}, -1)
			return
		}
		b, _ := ioutil.ReadFile(path)
		old := t.cur.files[fid]
		t.cur.files[fid] = &c7File{cur: b, synced: old.synced, dirty: true}
		t.record(c7Event{kind: 2, a: name}, fid)
	case "disk.file.sync":
		if fid, in := t.cur.names[name]; in {
			old := t.cur.files[fid]
			t.cur.files[fid] = &c7File{cur: old.cur, synced: old.cur}
		}
		t.record(c7Event{kind: 3, a: name}, -1)
	case "disk.rename.after":
		t.nhooks++
		np, _ := args[1].(string)
		nn := filepath.Base(np)
		if fid, in := t.cur.names[name]; in {
			delete(t.cur.names, name)
			t.cur.names[nn] = fid
			t.cur.pend = append(t.cur.pend, c7Dop{kind: 2, a: name, b: nn, fid: fid})
		}
		t.record(c7Event{kind: 5, a: name, b: nn}, -1)
	case "raftfs.snap.remove.after":
		t.nhooks++
		if _, err := os.Lstat(path); err != nil {
			if _, in := t.cur.names[name]; in {
				delete(t.cur.names, name)
				t.cur.pend = append(t.cur.pend, c7Dop{kind: 3, a: name})
			}
		}
		t.record(c7Event{kind: 6, a: name}, -1)
	}
}

// materialise writes the crash state (point p, subset mask of the pending directory operations, fate fv of the
// dirty files; junk gives the bytes of the dirty file `jf` when fv == 2) into a new directory.
func c7Materialise(base string, p c7Point, mask uint64, fv int, jf int, junk []byte) (string, string) {
	dm := c7CopyMap(p.sdir)
	for j, o := range p.pend {
		if mask&(1<<uint(j)) == 0 {
			continue
		}
		switch o.kind {
		case 1:
			dm[o.a] = o.fid
		case 2:
			delete(dm, o.a)
			dm[o.b] = o.fid
		case 3:
			delete(dm, o.a)
		}
	}
	d, err := ioutil.TempDir(base, "crash")
	if err != nil {
		panic(err)
	}
	names := make([]string, 0, len(dm))
	for n := range dm {
		names = append(names, n)
	}
	sort.Strings(names)
	h := sha256.New()
	for _, n := range names {
		f := p.files[dm[n]]
		b := f.cur
		if f.dirty {
			switch fv {
			case 1:
				b = f.synced
			case 2:
				if dm[n] == jf {
					b = junk
				} else if len(f.cur) > 0 {
					b = f.cur[:len(f.cur)-1]
				} else {
					b = []byte{0x5a}
				}
			}
		}
		if fv == 3 {
			b = append([]byte(nil), b...)
			if len(b) > 0 {
				b[len(b)/3] ^= 0x10
			} else {
				b = []byte{0x5a}
			}
		}
		if err := ioutil.WriteFile(filepath.Join(d, n), b, 0600); err != nil {
			panic(err)
		}
		fmt.Fprintf(h, "%s:%d:", n, len(b))
		h.Write(b)
	}
	return d, fmt.Sprintf("%x", h.Sum(nil)[:12])
}

// ---------------------------------------------------------------- names on the wire

func c7EncName(n string) []int64 {
	switch {
	case n == "raft_state":
		return []int64{1, 0, 0}
	case n == "raft_state.tmp":
		return []int64{2, 0, 0}
	case isValidSnapshotName(n) || isValidSnapshotTempName(n):
		var t, i uint64
		if k, err := fmt.Sscanf(n, snapshotPrefix+"-%d-%d", &t, &i); k == 2 && err == nil {
			if isValidSnapshotTempName(n) {
				return []int64{4, int64(t), int64(i)}
			}
			return []int64{3, int64(t), int64(i)}
		}
	}
	return []int64{9, 0, 0}
}

func c7EncTrace(hooked bool, evs []c7Event) []int64 {
	if !hooked {
		return []int64{0}
	}
	out := []int64{int64(len(evs))}
	for _, e := range evs {
		out = append(out, int64(e.kind))
		if e.kind == 4 {
			out = append(out, 0, 0, 0, 0, 0, 0)
			continue
		}
		out = append(out, c7EncName(e.a)...)
		if e.kind == 5 {
			out = append(out, c7EncName(e.b)...)
		} else {
			out = append(out, 0, 0, 0)
		}
	}
	return out
}

// ---------------------------------------------------------------- probes (crash variants of one operation)

type c7Probe struct {
	k     int // -1 = end (unhooked mode)
	mask  uint64
	fv    int
	jf    int
	junk  []byte
	kind  string // prefix | torn | powerloss
	atEnd bool
	point c7Point
}

func c7Subsets(n int, r *vw.Rng) []uint64 {
	all := uint64(1)<<uint(n) - 1
	if n <= 4 {
		out := []uint64{all}
		for m := uint64(0); m < all; m++ {
			out = append(out, m)
		}
		return out
	}
	out := []uint64{all, 0}
	for j := 0; j < n; j++ {
		out = append(out, uint64(1)<<uint(j), all&^(uint64(1)<<uint(j)))
	}
	for j := 0; j < 6; j++ {
		out = append(out, r.U64()&all)
	}
	return out
}

func c7TornCuts(old, new []byte) []int {
	fd := 0
	for fd < len(old) && fd < len(new) && old[fd] == new[fd] {
		fd++
	}
	n := len(new)
	cand := []int{fd, fd + 1, fd + 3, fd + 4, fd + 5, (fd + n) / 2, n - 5, n - 4, n - 3, n - 1, 65536, 65537, 65540, 65541}
	seen := map[int]bool{}
	var out []int
	for _, c := range cand {
		if c >= fd && c < n && !seen[c] {
			seen[c] = true
			out = append(out, c)
		}
	}
	sort.Ints(out)
	return out
}

func c7Probes(t *c7Tracker, hooked bool, r *vw.Rng) []c7Probe {
	var out []c7Probe
	if !hooked {
		const allMask = uint64(1)<<40 - 1
		out = append(out, c7Probe{k: 0, mask: allMask, kind: "prefix", jf: -1, point: t.points[0]})
		out = append(out, c7Probe{k: -1, mask: allMask, kind: "prefix", jf: -1, atEnd: true, point: t.points[len(t.points)-1]})
		return out
	}
	last := len(t.points) - 1
	{
		p := t.points[last]
		out = append(out, c7Probe{k: last, mask: uint64(1)<<uint(len(p.pend)) - 1, fv: 3, jf: -1, kind: "media", atEnd: true, point: p})
	}
	for k, p := range t.points {
		np := len(p.pend)
		all := uint64(1)<<uint(np) - 1
		anyDirty := false
		for _, fid := range p.names {
			if p.files[fid].dirty {
				anyDirty = true
			}
		}
		for _, fid := range p.sdir {
			if p.files[fid].dirty {
				anyDirty = true
			}
		}
		masks := c7Subsets(np, r)
		for mi, m := range masks {
			kind := "prefix"
			if m != all {
				kind = "powerloss"
			}
			out = append(out, c7Probe{k: k, mask: m, fv: 0, jf: -1, kind: kind, atEnd: k == last, point: p})
			if !anyDirty {
				continue
			}
			out = append(out, c7Probe{k: k, mask: m, fv: 1, jf: -1, kind: "powerloss", atEnd: k == last, point: p})
			out = append(out, c7Probe{k: k, mask: m, fv: 2, jf: -1, kind: "powerloss", atEnd: k == last, point: p})
			if p.lastW >= 0 && k > 0 && (mi == 0 || len(masks) <= 2) {
				old := t.points[k-1].files[p.lastW]
				var ob []byte
				if old != nil {
					ob = old.cur
				}
				nb := p.files[p.lastW].cur
				for _, c := range c7TornCuts(ob, nb) {
					j := append([]byte(nil), nb[:c]...)
					if c < len(ob) {
						j = append(j, ob[c:]...)
					}
					kd := "torn"
					if m != all {
						kd = "powerloss"
					}
					out = append(out, c7Probe{k: k, mask: m, fv: 2, jf: p.lastW, junk: j, kind: kd, atEnd: k == last, point: p})
				}
				out = append(out, c7Probe{k: k, mask: m, fv: 2, jf: p.lastW, junk: nil, kind: "powerloss", atEnd: k == last, point: p})
			}
		}
	}
	return out
}

// c7CrashChoices: the crash states a case may continue on (the media-corruption probe is not a crash state).
func c7CrashChoices(ps []c7Probe) []c7Probe {
	var out []c7Probe
	for _, p := range ps {
		if p.fv != 3 {
			out = append(out, p)
		}
	}
	return out
}

// ---------------------------------------------------------------- fsState cases

var c7Votes = []string{"", "a", "node-1:8080", "x\"y\\z\né", "b"}

type c7Env struct {
	tr      *vw.Trace
	r       *vw.Rng
	base    string
	hooked  bool
	caseID  string
	t       *c7Tracker
	opDesc  string
	nProbes int
}

func (e *c7Env) report(sig, what string, detail map[string]interface{}) {
	detail["op"] = e.opDesc
	vw.Report(vw.Violation{Property: c7Prop, Signature: sig, What: what, Case: e.caseID, Detail: detail})
}

func c7StateEq(a, b *raftState) bool {
	if a.VoteFor != b.VoteFor || a.Term != b.Term || a.MyGUID != b.MyGUID || len(a.SeenGUIDs) != len(b.SeenGUIDs) {
		return false
	}
	for k, v := range a.SeenGUIDs {
		if w, ok := b.SeenGUIDs[k]; !ok || w != v {
			return false
		}
	}
	return true
}

func c7CloneState(s raftState) *raftState {
	c := s
	c.SeenGUIDs = map[string]uint64{}
	for k, v := range s.SeenGUIDs {
		c.SeenGUIDs[k] = v
	}
	return &c
}

type c7Ids struct {
	names []string
	code  map[string]int64
}

func (x *c7Ids) codeOf(s string) int64 {
	if c, ok := x.code[s]; ok {
		return c
	}
	x.names = append(x.names, s)
	x.code[s] = int64(len(x.names))
	return x.code[s]
}

func c7VoteCode(v string) int64 {
	for i, s := range c7Votes {
		if s == v {
			return int64(i)
		}
	}
	return -7
}

func c7EncState(s *raftState, ids *c7Ids, guidOverride int64, useOverride bool) []int64 {
	g := int64(s.MyGUID)
	if useOverride {
		g = guidOverride
	}
	out := []int64{c7VoteCode(s.VoteFor), int64(s.Term), g, int64(len(s.SeenGUIDs))}
	type kv struct{ k, v int64 }
	var kvs []kv
	for k, v := range s.SeenGUIDs {
		kvs = append(kvs, kv{ids.codeOf(k), int64(v)})
	}
	sort.Slice(kvs, func(i, j int) bool { return kvs[i].k < kvs[j].k })
	for _, p := range kvs {
		out = append(out, p.k, p.v)
	}
	return out
}

func c7JSONLen(s *raftState) int64 {
	b, err := json.Marshal(*s)
	if err != nil {
		panic(err)
	}
	return int64(len(b) + 1)
}

// stateProbes explores every crash state of the operation just executed.
// old == nil means "no state file has ever been acknowledged" (a fresh start is the old state).
func (e *c7Env) stateProbes(old, new *raftState, known map[uint64]bool, ids *c7Ids) []c7Probe {
	probes := c7Probes(e.t, e.hooked, e.r)
	seen := map[string]bool{}
	var kept []c7Probe
	for _, p := range probes {
		dir, fp := c7Materialise(e.base, p.point, p.mask, p.fv, p.jf, p.junk)
		key := fmt.Sprintf("%s/%d/%d/%d", fp, p.k, p.mask, p.fv)
		if seen[fp] {
			os.RemoveAll(dir)
			continue
		}
		seen[fp] = true
		_ = key
		kept = append(kept, p)
		e.nProbes++
		vw.Stat("state_probe_"+p.kind, 1)
		st, err := NewFSState(dir)
		e.tr.Op(50, int64(p.k), int64(p.mask), int64(p.fv))
		det := map[string]interface{}{"k": p.k, "mask": p.mask, "fv": p.fv, "kind": p.kind, "files": c7Listing(dir)}
		if p.k > 0 && p.k-1 < len(e.t.events) {
			det["after_event"] = fmt.Sprintf("%+v", e.t.events[p.k-1])
		}
		if p.fv == 3 {
			// outside the crash relations: one flipped byte in every file. The checksum must turn this into an
			// error (or a fresh start when there is no state file), never into a silently different state.
			if err != nil {
				e.tr.Obs(0)
			} else {
				got := c7CloneState(st.(*fsState).cache)
				if !known[got.MyGUID] {
					e.tr.Obs(1, 0, 0, 0, 0)
				} else {
					e.tr.Obs(append([]int64{1}, c7EncState(got, ids, 0, false)...)...)
				}
				if _, serr := os.Stat(filepath.Join(dir, "raft_state")); serr == nil {
					det["got"] = fmt.Sprintf("%+v", *got)
					e.report("state-corruption-accepted", "NewFSState accepts a state file with a flipped byte (checksum not verified)", det)
				}
			}
			os.RemoveAll(dir)
			continue
		}
		if err != nil {
			e.tr.Obs(0)
			det["err"] = err.Error()
			e.report("state-open-fails:"+p.kind, "NewFSState fails on a crash state of the state writer", det)
			os.RemoveAll(dir)
			continue
		}
		got := c7CloneState(st.(*fsState).cache)
		fresh := !known[got.MyGUID]
		if fresh {
			e.tr.Obs(1, 0, 0, 0, 0)
		} else {
			e.tr.Obs(append([]int64{1}, c7EncState(got, ids, 0, false)...)...)
		}
		det["got"] = fmt.Sprintf("%+v", *got)
		isOld := (old == nil && fresh && got.VoteFor == "" && got.Term == 0 && len(got.SeenGUIDs) == 0) || (old != nil && c7StateEq(got, old))
		isNew := new != nil && c7StateEq(got, new)
		if !isOld && !isNew {
			e.report("state-neither-old-nor-new:"+p.kind, "after a crash NewFSState returns a state that is neither the previous nor the new one", det)
		} else if p.atEnd && new != nil && !isNew {
			e.report("state-acked-forgotten:"+p.kind, "a term/vote whose write was acknowledged is forgotten after a crash", det)
		}
		os.RemoveAll(dir)
	}
	return kept
}

func c7Listing(dir string) []string {
	ents, _ := ioutil.ReadDir(dir)
	var out []string
	for _, e := range ents {
		out = append(out, fmt.Sprintf("%s(%d)", e.Name(), e.Size()))
	}
	return out
}

func (e *c7Env) runStateCase(ci int) {
	r := e.r
	dir, _ := ioutil.TempDir(e.base, "state")
	defer os.RemoveAll(dir)
	e.t = &c7Tracker{dir: dir}
	e.t.resync()
	verifhook.Callback = e.t.at
	defer func() { verifhook.Callback = nil }()
	e.tr.Case(e.caseID)
	h := int64(0)
	if e.hooked {
		h = 1
	}
	e.tr.Op(100, h)
	e.tr.Obs(0)

	ids := &c7Ids{code: map[string]int64{}}
	known := map[uint64]bool{}
	var exp *raftState // acknowledged logical state (nil before the first successful NewFSState)
	var st *fsState
	big := r.Chance(1, 5)
	idPool := []string{"n1", "n2", "n3", "n\"4"}
	if big {
		idPool = append(idPool, strings.Repeat("L", 66000), strings.Repeat("M", 70000))
	}
	desc := []string{}

	open := func() bool {
		// NewFSState on the live directory
		e.opDesc = "NewFSState"
		var pre *raftState
		if exp != nil {
			pre = c7CloneState(*exp)
		}
		e.t.beginOp()
		s, err := NewFSState(dir)
		e.t.endOp(e.hooked)
		if err != nil {
			e.tr.Op(1, 0, 1)
			e.tr.Obs(0)
			e.report("state-open-fails:live", "NewFSState fails on a directory left by completed operations or by a recovered crash", map[string]interface{}{"err": err.Error(), "files": c7Listing(dir)})
			return false
		}
		st = s.(*fsState)
		got := c7CloneState(st.cache)
		fresh := !known[got.MyGUID]
		known[got.MyGUID] = true
		fr := int64(0)
		if fresh {
			fr = 1
		}
		e.tr.Op(1, int64(got.MyGUID), c7JSONLen(got))
		o := append([]int64{1}, c7EncState(got, ids, 0, false)...)
		o = append(o, fr)
		o = append(o, c7EncTrace(e.hooked, e.t.events)...)
		e.tr.Obs(o...)
		if len(e.t.points) > 1 {
			e.stateProbes(pre, got, known, ids)
		}
		exp = got
		return true
	}
	if !open() {
		return
	}
	desc = append(desc, "new")
	nops := r.Range(3, 9)
	for oi := 0; oi < nops; oi++ {
		nw := c7CloneState(*exp)
		var line []int64
		var do func()
		switch c := r.Intn(12); {
		case c < 4:
			v := c7Votes[r.Intn(len(c7Votes))]
			tm := exp.Term + uint64(r.Intn(3))
			if r.Chance(1, 6) {
				tm = uint64(r.U64() >> 2)
			}
			nw.VoteFor, nw.Term = v, tm
			line = []int64{2, 0, c7VoteCode(v), int64(tm)}
			do = func() { st.SaveState(v, tm) }
			e.opDesc = fmt.Sprintf("SaveState(%q,%d)", v, tm)
		case c < 5:
			tm := exp.Term + 1
			nw.Term = tm
			line = []int64{3, 0, int64(tm)}
			do = func() { st.SetCurrentTerm(tm) }
			e.opDesc = fmt.Sprintf("SetCurrentTerm(%d)", tm)
		case c < 6:
			v := c7Votes[r.Intn(len(c7Votes))]
			nw.VoteFor = v
			line = []int64{4, 0, c7VoteCode(v)}
			do = func() { st.SetVoteFor(v) }
			e.opDesc = fmt.Sprintf("SetVoteFor(%q)", v)
		case c < 8:
			id := idPool[r.Intn(len(idPool))]
			if big && r.Bool() {
				id = idPool[len(idPool)-1-r.Intn(2)]
			}
			g := r.U64() >> 2
			nw.SeenGUIDs[id] = g
			line = []int64{5, 0, ids.codeOf(id), int64(g)}
			do = func() { st.SetGUIDFor(id, g) }
			e.opDesc = fmt.Sprintf("SetGUIDFor(len %d)", len(id))
		case c < 9:
			var keep []string
			for _, id := range idPool {
				if r.Bool() {
					keep = append(keep, id)
				}
			}
			for k := range nw.SeenGUIDs {
				in := false
				for _, id := range keep {
					if id == k {
						in = true
					}
				}
				if !in {
					delete(nw.SeenGUIDs, k)
				}
			}
			line = []int64{6, 0, int64(len(keep))}
			for _, id := range keep {
				line = append(line, ids.codeOf(id))
			}
			do = func() { st.FilterGUIDs(keep) }
			e.opDesc = "FilterGUIDs"
		case c < 10:
			desc = append(desc, "reopen")
			if !open() {
				return
			}
			continue
		default:
			// crash somewhere inside the previous operation, keep what survived, restart on it
			if len(e.t.points) < 2 {
				continue
			}
			ps := c7CrashChoices(c7Probes(e.t, e.hooked, r))
			p := ps[r.Intn(len(ps))]
			nd, _ := c7Materialise(e.base, p.point, p.mask, p.fv, p.jf, p.junk)
			os.RemoveAll(dir)
			if err := os.Rename(nd, dir); err != nil {
				panic(err)
			}
			e.tr.Op(60, int64(p.k), int64(p.mask), int64(p.fv))
			e.tr.Obs(0)
			e.t.resync()
			e.t.points = e.t.points[:1]
			vw.Stat("state_crash_continue", 1)
			desc = append(desc, fmt.Sprintf("crash(k=%d,mask=%d,fv=%d)", p.k, p.mask, p.fv))
			// which of old/new survived is decided by reopening; both are legal unless the op had completed
			e.opDesc = "NewFSState after crash"
			e.t.beginOp()
			s, err := NewFSState(dir)
			e.t.endOp(e.hooked)
			if err != nil {
				e.tr.Op(1, 0, 1)
				e.tr.Obs(0)
				e.report("state-open-fails:recovered", "NewFSState fails after a crash", map[string]interface{}{"err": err.Error()})
				return
			}
			st = s.(*fsState)
			got := c7CloneState(st.cache)
			fresh := !known[got.MyGUID]
			known[got.MyGUID] = true
			fr := int64(0)
			if fresh {
				fr = 1
			}
			e.tr.Op(1, int64(got.MyGUID), c7JSONLen(got))
			o := append([]int64{1}, c7EncState(got, ids, 0, false)...)
			o = append(o, fr)
			o = append(o, c7EncTrace(e.hooked, e.t.events)...)
			e.tr.Obs(o...)
			if len(e.t.points) > 1 {
				e.stateProbes(nil, got, known, ids)
			}
			exp = got
			continue
		}
		line[1] = c7JSONLen(nw)
		desc = append(desc, e.opDesc)
		e.t.beginOp()
		do()
		e.t.endOp(e.hooked)
		e.tr.Op(line...)
		got := c7CloneState(st.cache)
		o := append([]int64{0}, c7EncState(got, ids, 0, false)...)
		o = append(o, c7EncTrace(e.hooked, e.t.events)...)
		e.tr.Obs(o...)
		vw.Stat("state_op", 1)
		vw.Stat(fmt.Sprintf("state_trace_len_%02d", len(e.t.events)), 1)
		if !c7StateEq(got, nw) {
			e.report("state-cache-wrong", "the cached state after a setter is not the requested one", map[string]interface{}{"got": fmt.Sprintf("%+v", *got)})
		}
		e.stateProbes(exp, nw, known, ids)
		exp = nw
	}
	vw.Distinct("S:" + strings.Join(desc, ";"))
	if ci < 3 {
		vw.Sample("state case " + e.caseID + ": " + strings.Join(desc, "; "))
	}
}

// ---------------------------------------------------------------- fsSnapshotMgr cases

type c7Snap struct {
	t, i   uint64
	sid    int64
	nch    int64
	chunks [][]byte
}

// eff is the serial number as it can be observed: a snapshot without payload bytes is anonymous.
func (s *c7Snap) eff() int64 {
	if s.nch == 0 {
		return 0
	}
	return s.sid
}

func (s *c7Snap) payload() []byte {
	var b []byte
	for _, c := range s.chunks {
		b = append(b, c...)
	}
	return b
}

type c7SnapObs struct {
	ok, has  bool
	t, i     uint64
	sid, nch int64
	temps    int
	finals   []string
}

func c7SnapName(t, i uint64) string {
	return metadataToSnapshotName(raft.SnapshotMetadata{LastTerm: t, LastIndex: i})
}

// identify the payload: which begun snapshot (sid) and how many of its non-empty chunks
func c7Identify(all []*c7Snap, t, i uint64, payload []byte) (int64, int64) {
	if len(payload) == 0 {
		return 0, 0
	}
	for _, s := range all {
		if s.t != t || s.i != i {
			continue
		}
		var acc []byte
		n := int64(0)
		for _, c := range s.chunks {
			if len(c) == 0 {
				continue
			}
			acc = append(acc, c...)
			n++
			if len(acc) == len(payload) && bytes.Equal(acc, payload) {
				return s.sid, n
			}
			if len(acc) > len(payload) {
				break
			}
		}
	}
	return -1, -1
}

func c7ReadSnapFile(path string) (raft.SnapshotMetadata, []byte, error) {
	var meta raft.SnapshotMetadata
	f, err := disk.NewChecksumFile(path, os.O_RDONLY)
	if err != nil {
		return meta, nil, err
	}
	defer f.Close()
	if err := decodeSnapshotMetadata(f, &meta); err != nil {
		return meta, nil, err
	}
	b, err := ioutil.ReadAll(f)
	return meta, b, err
}

// c7OpenMgr runs NewFSSnapshotMgr on dir unless it would log.Fatalf (newest valid name unreadable), which is
// detected beforehand with the package's own helpers.
func c7OpenMgr(dir string, all []*c7Snap, t *c7Tracker) (c7SnapObs, raft.SnapshotManager, string) {
	var o c7SnapObs
	wasActive := t != nil && t.active
	if t != nil {
		t.active = false // the harness's own reads are not part of the operation
	}
	pre := (&fsSnapshotMgr{homeDir: dir}).getSnapshots()
	if len(pre) > 0 {
		if _, _, err := c7ReadSnapFile(filepath.Join(dir, pre[len(pre)-1])); err != nil {
			return o, nil, fmt.Sprintf("newest snapshot %s unreadable: %v (NewFSSnapshotMgr would Fatalf)", pre[len(pre)-1], err)
		}
	}
	if t != nil {
		t.active = wasActive
	}
	m, err := NewFSSnapshotMgr(dir)
	if t != nil {
		t.active = false
	}
	if err != nil {
		return o, nil, err.Error()
	}
	o.ok = true
	meta, _ := m.GetSnapshotMetadata()
	if meta != raft.NilSnapshotMetadata {
		o.has = true
		o.t, o.i = meta.LastTerm, meta.LastIndex
		// GetSnapshot would log.Fatalf if the selected file is missing or unreadable: look first
		if _, _, perr := c7ReadSnapFile(filepath.Join(dir, metadataToSnapshotName(meta))); perr != nil {
			o.sid, o.nch = -3, -3
		} else {
			rd := m.GetSnapshot()
			b, rerr := ioutil.ReadAll(rd)
			rd.Close()
			if rerr != nil {
				o.sid, o.nch = -2, -2
			} else {
				o.sid, o.nch = c7Identify(all, o.t, o.i, b)
			}
		}
	}
	ents, _ := ioutil.ReadDir(dir)
	for _, e := range ents {
		if isValidSnapshotTempName(e.Name()) {
			o.temps++
		} else if isValidSnapshotName(e.Name()) {
			o.finals = append(o.finals, e.Name())
		}
	}
	sort.Strings(o.finals)
	return o, m, ""
}

func c7EncSnapObs(o c7SnapObs) []int64 {
	if !o.ok {
		return []int64{0, 0, 0, 0, 0, 0}
	}
	if !o.has {
		return []int64{1, 0, 0, 0, 0, 0}
	}
	return []int64{1, 1, int64(o.t), int64(o.i), o.sid, o.nch}
}

func c7Less(t1, i1, t2, i2 uint64) bool { return t1 < t2 || (t1 == t2 && i1 < i2) }

// snapProbes explores every crash state of the operation just executed.
// acked: snapshots whose Commit returned (latest commit last); inflight: the snapshot whose Commit is running.
func (e *c7Env) snapProbes(all []*c7Snap, acked []*c7Snap, inflight *c7Snap) {
	probes := c7Probes(e.t, e.hooked, e.r)
	seen := map[string]bool{}
	var newest *c7Snap
	for _, a := range acked {
		if newest == nil || !c7Less(a.t, a.i, newest.t, newest.i) {
			newest = a
		}
	}
	for _, p := range probes {
		dir, fp := c7Materialise(e.base, p.point, p.mask, p.fv, p.jf, p.junk)
		if seen[fp] {
			os.RemoveAll(dir)
			continue
		}
		seen[fp] = true
		e.nProbes++
		vw.Stat("snap_probe_"+p.kind, 1)
		det := map[string]interface{}{"k": p.k, "mask": p.mask, "fv": p.fv, "kind": p.kind, "files": c7Listing(dir)}
		if p.k > 0 && p.k-1 < len(e.t.events) {
			det["after_event"] = fmt.Sprintf("%+v", e.t.events[p.k-1])
		}
		if p.fv == 3 {
			before := (&fsSnapshotMgr{homeDir: dir}).getSnapshots()
			o, _, _ := c7OpenMgr(dir, all, nil)
			e.tr.Op(50, int64(p.k), int64(p.mask), int64(p.fv))
			if !o.ok {
				e.tr.Obs(c7EncSnapObs(o)...)
			} else {
				line := c7EncSnapObs(o)
				line = append(line, int64(o.temps), int64(len(o.finals)))
				for _, fn := range o.finals {
					n := c7EncName(fn)
					line = append(line, n[1], n[2])
				}
				e.tr.Obs(line...)
				if len(before) > 0 {
					det["got"] = fmt.Sprintf("%+v", o)
					e.report("snap-corruption-accepted", "NewFSSnapshotMgr accepts a newest snapshot with a flipped byte in its first block (checksum not verified)", det)
				}
			}
			os.RemoveAll(dir)
			continue
		}
		// clause: an incomplete snapshot is never visible under a valid snapshot name
		before := (&fsSnapshotMgr{homeDir: dir}).getSnapshots()
		for _, fn := range before {
			meta, pl, err := c7ReadSnapFile(filepath.Join(dir, fn))
			bad := err != nil
			if !bad {
				sid, nch := c7Identify(all, meta.LastTerm, meta.LastIndex, pl)
				bad = true
				for _, s := range all {
					if s.sid == sid && s.nch == nch && (s == inflight || c7In(acked, s)) {
						bad = false
					}
				}
				if len(pl) == 0 {
					// empty payload: legal iff some committed / committing snapshot of that name has no data
					bad = true
					for _, s := range all {
						if s.t == meta.LastTerm && s.i == meta.LastIndex && s.nch == 0 && (s == inflight || c7In(acked, s)) {
							bad = false
						}
					}
				}
			}
			if bad {
				det["file"] = fn
				e.report("snap-incomplete-visible:"+p.kind, "a file with a valid snapshot name holds a torn / incomplete snapshot after a crash", det)
				break
			}
		}
		o, _, why := c7OpenMgr(dir, all, nil)
		e.tr.Op(50, int64(p.k), int64(p.mask), int64(p.fv))
		if !o.ok {
			e.tr.Obs(c7EncSnapObs(o)...)
			det["why"] = why
			e.report("snap-open-fails:"+p.kind, "NewFSSnapshotMgr cannot start on a crash state of the snapshot writer", det)
			os.RemoveAll(dir)
			continue
		}
		line := c7EncSnapObs(o)
		line = append(line, int64(o.temps), int64(len(o.finals)))
		for _, fn := range o.finals {
			n := c7EncName(fn)
			line = append(line, n[1], n[2])
		}
		e.tr.Obs(line...)
		det["got"] = fmt.Sprintf("%+v", o)
		// clause: the newest complete snapshot is selected; an acknowledged one is never lost
		okSel := false
		if newest == nil && !o.has {
			okSel = !p.atEnd || inflight == nil
		}
		if newest != nil && o.has && o.t == newest.t && o.i == newest.i && o.sid == newest.eff() && o.nch == newest.nch {
			okSel = !p.atEnd || inflight == nil
		}
		if inflight != nil && o.has && o.t == inflight.t && o.i == inflight.i && o.sid == inflight.eff() && o.nch == inflight.nch {
			okSel = true
		}
		if !okSel {
			sig := "snap-wrong-selection:"
			if newest != nil && (!o.has || c7Less(o.t, o.i, newest.t, newest.i)) {
				sig = "snap-acked-lost:"
			} else if p.atEnd && inflight != nil {
				sig = "snap-acked-lost:"
			}
			e.report(sig+p.kind, "after a crash NewFSSnapshotMgr does not select the newest complete snapshot", det)
		}
		// clause: retention keeps the newest snapRetention snapshots, temporary files are removed
		want := before
		if len(want) > snapRetention {
			want = want[len(want)-snapRetention:]
		}
		if o.temps != 0 || strings.Join(want, ",") != strings.Join(o.finals, ",") {
			det["want"] = want
			e.report("snap-retention:"+p.kind, "after restart the directory does not hold exactly the newest retained snapshots and no temporary file", det)
		}
		os.RemoveAll(dir)
	}
}

func c7In(l []*c7Snap, s *c7Snap) bool {
	for _, x := range l {
		if x == s {
			return true
		}
	}
	return false
}

func c7TempOrder(evs []c7Event) []int64 {
	var out []int64
	n := int64(0)
	for _, ev := range evs {
		if ev.kind == 6 && isValidSnapshotTempName(ev.a) {
			c := c7EncName(ev.a)
			out = append(out, c[1], c[2])
			n++
		}
	}
	return append([]int64{n}, out...)
}

func (e *c7Env) runSnapCase(ci int) {
	r := e.r
	dir, _ := ioutil.TempDir(e.base, "snap")
	defer os.RemoveAll(dir)
	e.t = &c7Tracker{dir: dir}
	e.t.resync()
	verifhook.Callback = e.t.at
	defer func() { verifhook.Callback = nil }()
	e.tr.Case(e.caseID)
	h := int64(0)
	if e.hooked {
		h = 1
	}
	e.tr.Op(200, h)
	e.tr.Obs(0)

	var all, acked []*c7Snap
	var mgr raft.SnapshotManager
	desc := []string{}
	sid := int64(0)
	curT, curI := uint64(r.Range(0, 3)), uint64(r.Range(1, 5))

	open := func(afterCrash bool, inflight *c7Snap) bool {
		e.opDesc = "NewFSSnapshotMgr"
		e.t.beginOp()
		o, m, why := c7OpenMgr(dir, all, e.t)
		e.t.endOp(e.hooked)
		e.tr.Op(append([]int64{10}, c7TempOrder(e.t.events)...)...)
		if !o.ok {
			e.tr.Obs(c7EncSnapObs(o)...)
			e.report("snap-open-fails:live", "NewFSSnapshotMgr cannot start on a directory left by completed operations or a recovered crash", map[string]interface{}{"why": why, "files": c7Listing(dir)})
			return false
		}
		mgr = m
		e.tr.Obs(append(c7EncSnapObs(o), c7EncTrace(e.hooked, e.t.events)...)...)
		if afterCrash && inflight != nil && o.has && o.t == inflight.t && o.i == inflight.i && o.sid == inflight.eff() && o.nch == inflight.nch {
			acked = append(acked, inflight) // it survived, so it is durable from now on
		}
		if len(e.t.points) > 1 {
			e.snapProbes(all, acked, nil)
		}
		return true
	}
	if !open(false, nil) {
		return
	}
	desc = append(desc, "new")
	nrounds := r.Range(2, 7)
	for ri := 0; ri < nrounds; ri++ {
		// choose metadata: non-decreasing (term, index); sometimes the same as the current snapshot
		switch r.Intn(6) {
		case 0:
		case 1:
			curT += uint64(r.Range(1, 2))
			curI += uint64(r.Range(0, 3))
		default:
			curI += uint64(r.Range(1, 4))
		}
		if r.Chance(1, 12) {
			curI += uint64(r.U64() >> 12)
		}
		sid++
		s := &c7Snap{t: curT, i: curI, sid: sid}
		all = append(all, s)
		meta := raft.SnapshotMetadata{LastTerm: s.t, LastIndex: s.i}
		if r.Bool() {
			meta.Membership = &raft.Membership{Members: []string{"a", "b", "c"}, Epoch: 7, Index: s.i, Term: s.t}
		}
		var gb bytes.Buffer
		if err := encodeSnapshotMetadata(&gb, meta); err != nil {
			panic(err)
		}
		G := int64(gb.Len() - 4)
		e.opDesc = fmt.Sprintf("BeginSnapshot(%d,%d)", s.t, s.i)
		desc = append(desc, e.opDesc)
		e.t.beginOp()
		w, err := mgr.BeginSnapshot(meta)
		e.t.endOp(e.hooked)
		if err != nil {
			panic(err)
		}
		e.tr.Op(11, int64(s.t), int64(s.i), G, s.sid)
		e.tr.Obs(append([]int64{0}, c7EncTrace(e.hooked, e.t.events)...)...)
		vw.Stat("snap_op_begin", 1)
		e.snapProbes(all, acked, nil)
		nw := r.PickInt(0, 1, 1, 2, 2, 3)
		pos := int64(4) + G
		for wi := 0; wi < nw; wi++ {
			ln := r.PickInt(0, 1, 7, 100, 3000, 65532-int(pos), 65533-int(pos), 65531-int(pos), 70000, 131064-int(pos), 140000)
			if ln < 0 {
				ln = 5
			}
			b := make([]byte, ln)
			vw.Fill(b, uint64(s.sid)*131+uint64(wi), 0)
			s.chunks = append(s.chunks, b)
			if ln > 0 {
				s.nch++
			}
			e.opDesc = fmt.Sprintf("Write(%d bytes at %d)", ln, pos)
			desc = append(desc, fmt.Sprintf("write(%d)", ln))
			e.t.beginOp()
			n, werr := w.Write(b)
			e.t.endOp(e.hooked)
			if werr != nil || n != ln {
				panic(fmt.Sprint("snapshot write failed: ", werr))
			}
			pos += int64(ln)
			e.tr.Op(12, int64(ln))
			e.tr.Obs(append([]int64{0}, c7EncTrace(e.hooked, e.t.events)...)...)
			vw.Stat("snap_op_write", 1)
			vw.Stat(fmt.Sprintf("snap_write_blocks_%d", len(e.t.events)), 1)
			e.snapProbes(all, acked, nil)
		}
		crashed := false
		if r.Chance(1, 5) {
			e.opDesc = "Abort"
			desc = append(desc, "abort")
			e.t.beginOp()
			w.Abort()
			e.t.endOp(e.hooked)
			e.tr.Op(14)
			e.tr.Obs(append([]int64{0}, c7EncTrace(e.hooked, e.t.events)...)...)
			vw.Stat("snap_op_abort", 1)
			e.snapProbes(all, acked, nil)
			s = nil
		} else {
			e.opDesc = fmt.Sprintf("Commit(%d,%d)", s.t, s.i)
			desc = append(desc, "commit")
			e.t.beginOp()
			cerr := w.Commit()
			e.t.endOp(e.hooked)
			e.tr.Op(append([]int64{13}, c7TempOrder(e.t.events)...)...)
			ec := int64(0)
			if cerr != nil {
				ec = 1
			}
			e.tr.Obs(append([]int64{ec}, c7EncTrace(e.hooked, e.t.events)...)...)
			vw.Stat("snap_op_commit", 1)
			vw.Stat(fmt.Sprintf("snap_commit_trace_len_%02d", len(e.t.events)), 1)
			if cerr != nil {
				e.report("snap-commit-fails", "Commit of a snapshot fails without any injected fault", map[string]interface{}{"err": cerr.Error()})
				return
			}
			if m, _ := mgr.GetSnapshotMetadata(); m.LastTerm != s.t || m.LastIndex != s.i {
				e.report("snap-meta-wrong", "after Commit the manager does not report the committed snapshot", map[string]interface{}{"got": m.String()})
			}
			e.snapProbes(all, acked, s)
		}
		// sometimes: crash inside the operation just executed and restart on what survived; or a plain restart
		switch c := r.Intn(6); {
		case c == 0 && len(e.t.points) > 1:
			ps := c7CrashChoices(c7Probes(e.t, e.hooked, r))
			p := ps[r.Intn(len(ps))]
			nd, _ := c7Materialise(e.base, p.point, p.mask, p.fv, p.jf, p.junk)
			os.RemoveAll(dir)
			if err := os.Rename(nd, dir); err != nil {
				panic(err)
			}
			e.tr.Op(60, int64(p.k), int64(p.mask), int64(p.fv))
			e.tr.Obs(0)
			e.t.resync()
			e.t.points = e.t.points[:1]
			vw.Stat("snap_crash_continue", 1)
			desc = append(desc, fmt.Sprintf("crash(k=%d,mask=%d,fv=%d)", p.k, p.mask, p.fv))
			crashed = true
			if !open(true, s) {
				return
			}
		case c == 1:
			if s != nil {
				acked = append(acked, s)
				s = nil
			}
			desc = append(desc, "reopen")
			if !open(false, nil) {
				return
			}
		}
		if s != nil && !crashed {
			acked = append(acked, s)
		}
	}
	vw.Distinct("P:" + strings.Join(desc, ";"))
	if ci < 3 {
		vw.Sample("snapshot case " + e.caseID + ": " + strings.Join(desc, "; "))
	}
}

// ---------------------------------------------------------------- entry point

func c7DetectHooks(base string) bool {
	dir, _ := ioutil.TempDir(base, "detect")
	defer os.RemoveAll(dir)
	t := &c7Tracker{dir: dir}
	t.resync()
	verifhook.Callback = t.at
	t.beginOp()
	_, err := NewFSState(dir)
	t.active = false
	verifhook.Callback = nil
	return err == nil && t.nhooks > 0
}

func TestVerifC07B(t *testing.T) {
	if !vw.Enabled() {
		t.Skip("verification harness: run through /verif/bin/check")
	}
	base := ""
	if fi, err := os.Stat("/dev/shm"); err == nil && fi.IsDir() {
		base = "/dev/shm"
	}
	base, err := ioutil.TempDir(base, "blbverif-c07b-")
	if err != nil {
		t.Fatal(err)
	}
	defer os.RemoveAll(base)
	hooked := c7DetectHooks(base)
	if hooked {
		vw.Stat("hooks_present", 1)
	} else {
		vw.Stat("hooks_absent_only_operation_boundaries_explored", 1)
		vw.Sample("verifhook call sites are absent from this tree: only crash points at operation boundaries were explored")
	}
	tr := vw.OpenTrace("C07B.trace")
	root := vw.NewRng(vw.Seed())
	nState := vw.Scale(48, 800)
	nSnap := vw.Scale(30, 500)
	total := 0
	for ci := 0; ci < nState+nSnap; ci++ {
		id := fmt.Sprintf("s%d", ci)
		if ci >= nState {
			id = fmt.Sprintf("p%d", ci-nState)
		}
		if !vw.CaseSelected(id) {
			continue
		}
		e := &c7Env{tr: tr, r: root.Fork(uint64(ci)), base: base, hooked: hooked, caseID: id}
		if ci < nState {
			e.runStateCase(ci)
		} else {
			e.runSnapCase(ci - nState)
		}
		total += e.nProbes
	}
	vw.Stat("crash_states_reopened", int64(total))
	tr.Close()
	vw.Finish("C07B")
	_ = io.EOF
}
