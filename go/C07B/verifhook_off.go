// Copyright (c) 2015 Western Digital Corporation or its affiliates.  All rights reserved.
// SPDX-License-Identifier: MIT

//go:build !verif

// Package verifhook provides named stop points for the verification harness
// (see /verif). In normal builds At is an empty function that the compiler
// inlines away; only a build with `-tags verif` calls an installed callback.
package verifhook

// At marks a point of interest (e.g. just before or after a file-system
// mutation). It does nothing unless built with the "verif" tag.
func At(site string, args ...interface{}) {}
