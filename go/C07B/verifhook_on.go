// Copyright (c) 2015 Western Digital Corporation or its affiliates.  All rights reserved.
// SPDX-License-Identifier: MIT

//go:build verif

// Package verifhook provides named stop points for the verification harness
// (see /verif). This is the instrumented variant (build tag "verif").
package verifhook

// Callback, when non-nil, is invoked by every At call. It is installed by a
// verification harness; it must not be set concurrently with running code
// that calls At.
var Callback func(site string, args ...interface{})

// At marks a point of interest (e.g. just before or after a file-system
// mutation) and hands it to the installed callback.
func At(site string, args ...interface{}) {
	if cb := Callback; cb != nil {
		cb(site, args...)
	}
}
