//go:build verif

package disk

// C07 part B shim (injected by `go test -overlay -tags verif`; lives in /verif, never in /repo).
// Wraps the file object ChecksumFile works on, so that the harness witnesses the WriteAt / Sync / Truncate calls
// that really reach the file (a hook next to a call site cannot tell whether the call is still there).

import (
	"os"

	"github.com/westerndigitalcorporation/blb/pkg/verifhook"
)

type verifFile struct {
	mockFile
	path string
}

func (f *verifFile) WriteAt(b []byte, off int64) (int, error) {
	n, err := f.mockFile.WriteAt(b, off)
	verifhook.At("disk.file.write", f.path, off, n)
	return n, err
}

func (f *verifFile) Sync() error {
	err := f.mockFile.Sync()
	verifhook.At("disk.file.sync", f.path, err == nil)
	return err
}

func (f *verifFile) Truncate(size int64) error {
	err := f.mockFile.Truncate(size)
	verifhook.At("disk.file.truncate", f.path, size)
	return err
}

func init() {
	inner := osFileOpener
	osFileOpener = func(path string, flags int, perm os.FileMode) (mockFile, error) {
		f, err := inner(path, flags, perm)
		if err != nil {
			return nil, err
		}
		return &verifFile{mockFile: f, path: path}, nil
	}
}
