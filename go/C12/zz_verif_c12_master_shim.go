package master

// C12 shim (injected by `go test -overlay`; lives in /verif): exported entry points to the unexported Master
// API so that the harness in package curator can drive a real Master on a single-node raft.

import (
	"bytes"
	"fmt"
	"sync/atomic"
	"time"

	"github.com/westerndigitalcorporation/blb/internal/core"
	"github.com/westerndigitalcorporation/blb/internal/master/durable"
	"github.com/westerndigitalcorporation/blb/pkg/raft/raft"
)

var verifSeq uint64

// VerifNewMaster builds a Master on a fresh single-node raft and waits until it leads.
func VerifNewMaster() *Master {
	n := atomic.AddUint64(&verifSeq, 1)
	name := fmt.Sprintf("verif_master_%d", n)
	m := NewMaster(DefaultConfig, durable.DefaultStateConfig,
		raft.NewTestRaftNode(name, fmt.Sprintf("%d-%d", time.Now().UnixNano(), n)))
	m.stateHandler.ProposeInitialMembership([]string{name})
	<-m.leaderCh
	return m
}

func (m *Master) VerifRegisterCurator(addr string) (core.CuratorID, core.Error) {
	return m.registerCurator(addr)
}
func (m *Master) VerifRegisterTractserver(addr string) (core.TractserverID, core.Error) {
	return m.registerTractserver(addr)
}
func (m *Master) VerifCuratorHeartbeat(id core.CuratorID, addr string) ([]core.PartitionID, core.Error) {
	return m.curatorHeartbeat(id, addr)
}
func (m *Master) VerifNewPartition(id core.CuratorID) (core.PartitionID, core.Error) {
	return m.newPartition(id)
}
func (m *Master) VerifGetPartitions(id core.CuratorID) ([]core.PartitionID, core.Error) {
	return m.getPartitions(id)
}

// VerifLookup returns the durable owner and the address answer of Master.lookup.
func (m *Master) VerifLookup(p core.PartitionID) (core.CuratorID, core.Error, []string, core.Error) {
	c, e1 := m.stateHandler.Lookup(p)
	a, e2 := m.lookup(p)
	return c, e1, a, e2
}

// VerifSnapshot serialises the FSM state exactly as raft would.
func (m *Master) VerifSnapshot() []byte {
	s, err := m.stateHandler.Snapshot()
	if err != nil {
		panic(err)
	}
	var buf bytes.Buffer
	if err := s.Save(&buf); err != nil {
		panic(err)
	}
	s.Release()
	return buf.Bytes()
}

// VerifRestore installs a snapshot into this master's FSM.
func (m *Master) VerifRestore(b []byte) {
	m.stateHandler.SnapshotRestore(bytes.NewReader(b), 0, 0)
}

// VerifTable returns the volatile curator table (ids and remaining quotas, in table order).
func (m *Master) VerifTable() (ids []core.CuratorID, quotas []uint32) {
	m.lock.Lock()
	defer m.lock.Unlock()
	for _, c := range m.curators {
		ids = append(ids, c.ID)
		quotas = append(quotas, c.NewPartitionQuota)
	}
	return
}

func (m *Master) VerifState() ([]core.CuratorID, core.CuratorID, core.TractserverID, bool) {
	return m.stateHandler.VerifState()
}
