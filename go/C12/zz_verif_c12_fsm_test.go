package durable

// C12 harness, part A (injected by `go test -overlay`; lives in /verif).
//
// A replicated master group simulated on the REAL durable.StateHandler FSM: three replicas (nil raft), one
// committed command log, commands applied through StateHandler.Apply in log order.  Followers lag, catch up by
// replay or by installing the leader's Snapshot() with SnapshotRestore onto their LIVE state, restart empty,
// and take over leadership.  Everything returned (curator ids, tractserver ids, partitions), every lookup and
// every replica state is written to the trace for comparison with the Coq model, and three model-free monitors
// evaluate the property's own sentence:
//   - every id / partition ever returned is distinct from all others,
//   - a partition's owner never changes and lookup answers it, on whichever replica leads,
//   - getPartitions(c) is exactly the set of partitions returned for c.

import (
	"bytes"
	"fmt"
	"testing"

	"github.com/westerndigitalcorporation/blb/internal/core"
	"github.com/westerndigitalcorporation/blb/pkg/raft/raft"
	vw "github.com/westerndigitalcorporation/blb/pkg/verifwire"
)

type c12rep struct {
	h       *StateHandler
	applied int
}

type c12fsm struct {
	ci      int
	r       *vw.Rng
	tr      *vw.Trace
	log     [][]byte
	reps    []*c12rep
	leader  int
	cids    map[core.CuratorID]int
	tsids   map[core.TractserverID]int
	owner   map[core.PartitionID]core.CuratorID
	cidList []core.CuratorID
	snapObj raft.Snapshoter // what FSM.Snapshot() returned at log index snapIdx; Save() is called later
	snapIdx int
	snapRO  bool
	f7      bool // a snapshot was installed onto a read-only live replica while the snapshot was not read-only
	nviol   int
}

func c12fresh() *StateHandler {
	cfg := DefaultStateConfig
	return NewStateHandler(&cfg, nil)
}

func (f *c12fsm) report(sig, what string, detail map[string]interface{}) {
	if f.f7 {
		sig += "/after-snapshot-onto-readonly-replica"
	}
	f.nviol++
	if f.nviol > 3 {
		return
	}
	vw.Report(vw.Violation{Property: "C12", Signature: sig, What: what, Case: fmt.Sprint(f.ci), Detail: detail})
}

func c12dumpState(s *State) []int64 {
	var l vw.L
	l.Add(int64(s.NextCuratorID), int64(s.NextTractserverID))
	l.AddBool(s.ReadOnly)
	l.AddInt(len(s.Partitions))
	for _, c := range s.Partitions {
		l.Add(int64(c))
	}
	return l
}

func (f *c12fsm) dumpRep(j int) []int64 {
	var l vw.L
	l.AddInt(f.reps[j].applied)
	l.Add(c12dumpState(f.reps[j].h.state)...)
	return l
}

// applyOn applies log entry i (0-based) on replica j and returns the raw result.
func (f *c12fsm) applyOn(j, i int) interface{} {
	res := f.reps[j].h.Apply(raft.Entry{Type: raft.EntryNormal, Term: 1, Index: uint64(i + 1), Cmd: f.log[i]})
	f.reps[j].applied = i + 1
	return res
}

// encRes turns an Apply result into (err, value).
func c12encRes(res interface{}) (int64, int64) {
	switch v := res.(type) {
	case core.Error:
		return int64(v), 0
	case core.CuratorID:
		return 0, int64(v)
	case core.TractserverID:
		return 0, int64(v)
	case NewPartitionRes:
		if v.Err != core.NoError {
			return int64(v.Err), 0
		}
		return 0, int64(v.PartitionID)
	}
	return -99, -99
}

// checkLeader evaluates the monitors on the current leader.
func (f *c12fsm) checkLeader(when string) {
	s := f.reps[f.leader].h.state
	for p, c := range f.owner {
		got, err := s.lookup(p)
		if err != core.NoError || got != c {
			f.report("owner-changed", "a partition handed out to one curator is later looked up as owned by another (or unknown)",
				map[string]interface{}{"partition": p, "assigned_to": c, "lookup": got, "err": err.String(), "when": when})
			return
		}
	}
	for _, c := range f.cidList {
		want := map[core.PartitionID]bool{}
		for p, o := range f.owner {
			if o == c {
				want[p] = true
			}
		}
		got := s.getPartitions(c)
		bad := len(got) != len(want)
		for _, p := range got {
			if !want[p] {
				bad = true
			}
		}
		if bad {
			f.report("heartbeat-partitions-differ-from-assignment", "getPartitions(c) is not the set of partitions handed out to c",
				map[string]interface{}{"curator": c, "got": fmt.Sprint(got), "want": len(want), "when": when})
			return
		}
	}
}

func (f *c12fsm) command(kind int, arg int64) {
	var cmd interface{}
	switch kind {
	case 1:
		cmd = RegisterCuratorCmd{}
	case 2:
		cmd = RegisterTractserverCmd{}
	case 3:
		cmd = NewPartitionCmd{CuratorID: core.CuratorID(arg)}
	case 4:
		cmd = SetReadOnlyModeCmd{ReadOnly: arg != 0}
	}
	f.log = append(f.log, cmdToBytes(cmd))
	res := f.applyOn(f.leader, len(f.log)-1)
	e, v := c12encRes(res)
	f.tr.Op(1, int64(kind), arg)
	f.tr.Obs(e, v)
	vw.Stat(fmt.Sprintf("fsm.cmd%d.err=%d", kind, e), 1)
	if e != 0 {
		return
	}
	switch kind {
	case 1:
		id := core.CuratorID(v)
		if _, dup := f.cids[id]; dup || id == 0 {
			f.report("dup-curator-id", "the master handed out a curator id it had handed out before", map[string]interface{}{"id": id})
		}
		f.cids[id]++
		f.cidList = append(f.cidList, id)
	case 2:
		id := core.TractserverID(v)
		if _, dup := f.tsids[id]; dup || id == 0 {
			f.report("dup-tractserver-id", "the master handed out a tractserver id it had handed out before", map[string]interface{}{"id": id})
		}
		f.tsids[id]++
	case 3:
		p := core.PartitionID(v)
		if o, dup := f.owner[p]; dup || p == 0 {
			f.report("dup-partition", "the master handed out a partition it had handed out before",
				map[string]interface{}{"partition": p, "first_owner": o, "now": arg})
		} else {
			f.owner[p] = core.CuratorID(arg)
		}
	}
}

func (f *c12fsm) pickFollower() int {
	j := f.r.Intn(len(f.reps) - 1)
	if j >= f.leader {
		j++
	}
	return j
}

func (f *c12fsm) catchup(j, k int) {
	for n := 0; n < k && f.reps[j].applied < len(f.log); n++ {
		f.applyOn(j, f.reps[j].applied)
	}
	f.tr.Op(2, int64(j), int64(k))
	f.tr.Obs(f.dumpRep(j)...)
}

func (f *c12fsm) install(j int) {
	snap, _ := f.reps[f.leader].h.Snapshot()
	var buf bytes.Buffer
	snap.Save(&buf)
	snap.Release()
	if f.reps[j].h.state.ReadOnly && !f.reps[f.leader].h.state.ReadOnly {
		f.f7 = true
		vw.Stat("fsm.install.onto-readonly", 1)
	}
	f.reps[j].h.SnapshotRestore(bytes.NewReader(buf.Bytes()), uint64(len(f.log)), 1)
	f.reps[j].applied = len(f.log)
	f.tr.Op(3, int64(j))
	f.tr.Obs(f.dumpRep(j)...)
}

// snapTake is raft calling FSM.Snapshot() on the leader (on the FSM goroutine, between two Apply calls).
func (f *c12fsm) snapTake() {
	if f.snapObj != nil {
		f.snapObj.Release()
	}
	f.snapObj, _ = f.reps[f.leader].h.Snapshot()
	f.snapIdx = len(f.log)
	f.snapRO = f.reps[f.leader].h.state.ReadOnly
	f.tr.Op(13)
	f.tr.Obs(int64(f.snapIdx))
	vw.Stat("fsm.snap.take", 1)
}

// snapInstall is raft's snapshot goroutine calling Snapshoter.Save() only NOW (commands may have been applied
// since Snapshot()), and replica j - not ahead of the snapshot - restoring the file onto its live state; the log is
// replayed from the snapshot's index afterwards.
func (f *c12fsm) snapInstall(j int) {
	if f.snapObj != nil && j != f.leader && f.reps[j].applied <= f.snapIdx {
		var buf bytes.Buffer
		f.snapObj.Save(&buf)
		if f.reps[j].h.state.ReadOnly && !f.snapRO {
			f.f7 = true
			vw.Stat("fsm.install.onto-readonly", 1)
		}
		vw.Stat(fmt.Sprintf("fsm.snap.install.gap=%d", len(f.log)-f.snapIdx), 1)
		f.reps[j].h.SnapshotRestore(bytes.NewReader(buf.Bytes()), uint64(f.snapIdx), 1)
		f.reps[j].applied = f.snapIdx
	}
	f.tr.Op(14, int64(j))
	f.tr.Obs(f.dumpRep(j)...)
}

func (f *c12fsm) restart(j int) {
	f.reps[j] = &c12rep{h: c12fresh()}
	f.tr.Op(4, int64(j))
	f.tr.Obs(f.dumpRep(j)...)
}

func (f *c12fsm) newLeader(j int) {
	for f.reps[j].applied < len(f.log) {
		f.applyOn(j, f.reps[j].applied)
	}
	f.leader = j
	f.tr.Op(5, int64(j))
	var l vw.L
	l.AddInt(j)
	l.Add(f.dumpRep(j)...)
	f.tr.Obs(l...)
	f.checkLeader("after-leader-change")
}

func (f *c12fsm) failover() {
	snap, _ := f.reps[f.leader].h.Snapshot()
	var buf bytes.Buffer
	snap.Save(&buf)
	h := c12fresh()
	h.SnapshotRestore(bytes.NewReader(buf.Bytes()), uint64(len(f.log)), 1)
	f.reps[f.leader] = &c12rep{h: h, applied: len(f.log)}
	f.tr.Op(6)
	f.tr.Obs(c12dumpState(f.reps[f.leader].h.state)...)
	f.checkLeader("after-failover")
}

func (f *c12fsm) lookup(p int64) {
	s := f.reps[f.leader].h.state
	c, err := s.lookup(core.PartitionID(p))
	f.tr.Op(11, p)
	// no Master object here: the address half of the answer is compared in part B; the model's second pair
	// is computed with an empty volatile table, so it reports ErrCantFindCuratorAddr for every owned partition.
	e2 := int64(err)
	if err == core.NoError {
		e2 = int64(core.ErrCantFindCuratorAddr)
	}
	f.tr.Obs(int64(err), int64(c), e2, 0)
}

func (f *c12fsm) dump() {
	f.tr.Op(12)
	var l vw.L
	l.Add(c12dumpState(f.reps[f.leader].h.state)...)
	l.Add(0)
	f.tr.Obs(l...)
}

func (f *c12fsm) someCurator() int64 {
	switch k := f.r.Intn(10); {
	case k < 7 && len(f.cidList) > 0:
		return int64(f.cidList[f.r.Intn(len(f.cidList))])
	case k < 8:
		return 0
	case k < 9:
		return int64(len(f.cidList) + 1) // the next id, not handed out yet
	default:
		return int64(f.r.Range(1, len(f.cidList)+3))
	}
}

func TestVerifC12FSM(t *testing.T) {
	if !vw.Enabled() {
		t.Skip("verification harness: run through /verif/bin/check")
	}
	root := vw.NewRng(vw.Seed())
	tr := vw.OpenTrace("C12fsm.trace")
	defer tr.Close()
	defer vw.Finish("C12fsm")
	ncases := vw.Scale(1500, 60000)
	vw.Sample(fmt.Sprintf("part A: %d cases of a 3-replica master group on the real durable.StateHandler, seed %d", ncases, vw.Seed()))
	for ci := 0; ci < ncases; ci++ {
		if !vw.CaseSelected(fmt.Sprint(ci)) {
			continue
		}
		r := root.Fork(uint64(ci))
		tr.Case(fmt.Sprint(ci))
		f := &c12fsm{ci: ci, r: r, tr: tr, cids: map[core.CuratorID]int{}, tsids: map[core.TractserverID]int{},
			owner: map[core.PartitionID]core.CuratorID{}}
		for i := 0; i < 3; i++ {
			f.reps = append(f.reps, &c12rep{h: c12fresh()})
		}
		nops := r.Range(5, 60)
		withRO := r.Chance(1, 3)
		directed := withRO && r.Chance(1, 3)
		if directed {
			// a follower applies SetReadOnly(true) and then lags behind SetReadOnly(false)
			for i := r.Range(0, 3); i > 0; i-- {
				f.command(r.PickInt(1, 1, 2, 3), f.someCurator())
			}
			f.command(4, 1)
			j := f.pickFollower()
			f.catchup(j, len(f.log))
			f.command(4, 0)
			for i := r.Range(0, 3); i > 0; i-- {
				f.command(r.PickInt(1, 2, 3, 3), f.someCurator())
			}
			if r.Chance(2, 3) {
				f.install(j)
				for i := r.Range(1, 3); i > 0; i-- {
					f.command(r.PickInt(1, 2, 3), f.someCurator())
				}
				f.newLeader(j)
				if r.Chance(1, 2) {
					f.command(4, 0)
				}
			}
		}
		if !directed && r.Chance(1, 4) {
			// Snapshot() at index j, more commands, THEN Save(); a (restarted or lagging) replica restores it,
			// replays the tail and takes over
			for i := r.Range(0, 4); i > 0; i-- {
				f.command(r.PickInt(1, 1, 2, 3), f.someCurator())
			}
			j := f.pickFollower()
			if r.Chance(1, 2) {
				f.catchup(j, r.Range(0, len(f.log)))
			}
			f.snapTake()
			for i := r.Range(0, 4); i > 0; i-- {
				f.command(r.PickInt(1, 2, 3, 3), f.someCurator())
			}
			if r.Chance(1, 2) {
				f.restart(j)
			}
			f.snapInstall(j)
			if r.Chance(2, 3) {
				f.catchup(j, r.Range(0, 3))
				f.newLeader(j)
				for i := r.Range(1, 3); i > 0; i-- {
					f.command(r.PickInt(1, 2, 3, 3), f.someCurator())
				}
			}
		}
		for o := 0; o < nops; o++ {
			switch k := r.Intn(100); {
			case k < 18:
				f.command(1, 0)
			case k < 28:
				f.command(2, 0)
			case k < 55:
				f.command(3, f.someCurator())
			case k < 60:
				if withRO {
					f.command(4, int64(r.Intn(2)))
				} else {
					f.command(1, 0)
				}
			case k < 70:
				f.catchup(f.pickFollower(), r.Range(0, 4))
			case k < 77:
				f.install(f.pickFollower())
			case k < 81:
				f.restart(f.pickFollower())
			case k < 88:
				f.newLeader(r.Intn(3))
			case k < 91:
				f.failover()
			case k < 94:
				f.snapTake()
			case k < 96:
				f.snapInstall(f.pickFollower())
			case k < 98:
				f.lookup(int64(r.Range(0, len(f.owner)+2)))
			default:
				f.dump()
			}
			f.checkLeader("after-step")
		}
		f.dump()
		vw.Stat("fsm.cases", 1)
		if f.f7 {
			vw.Stat("fsm.cases.f7-trigger", 1)
		}
		if len(f.owner) > 0 && len(f.cids) > 1 {
			vw.Distinct(fmt.Sprintf("%d/%d/%d/%d/%v", len(f.log), len(f.cids), len(f.tsids), len(f.owner), f.owner))
		}
		if ci < 2 {
			vw.Sample(fmt.Sprintf("fsm case %d: %d log entries, %d curator ids, %d tractserver ids, partitions %v", ci, len(f.log), len(f.cids), len(f.tsids), f.owner))
		}
	}
}
