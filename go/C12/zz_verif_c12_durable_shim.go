package durable

// C12 shim (injected by `go test -overlay`; lives in /verif): read-only access to the master's durable state
// for the verification harness in other packages.

import "github.com/westerndigitalcorporation/blb/internal/core"

// VerifState returns a copy of the durable state.
func (h *StateHandler) VerifState() (parts []core.CuratorID, nextC core.CuratorID, nextT core.TractserverID, ro bool) {
	h.lock.Lock()
	defer h.lock.Unlock()
	parts = append(parts, h.state.Partitions...)
	return parts, h.state.NextCuratorID, h.state.NextTractserverID, h.state.ReadOnly
}
