package curator

// C12 harness, part B (injected by `go test -overlay`; lives in /verif).
//
// The REAL master.Master (registerCurator / curatorHeartbeat / newPartition / lookup / registerTractserver on a
// single-node raft; fail-over = Snapshot() -> fresh Master + SnapshotRestore) against the REAL curator glue of
// leader.go: heartbeatLoop -> initialize, the heartbeat round with its sanity check and SyncPartitions, and
// partitionMonitorLoop, running in their own goroutines on Curator structs ("nodes") that share one real durable
// StateHandler on a single-node raft (= the curator group's replicated state).  Every node talks to the master
// through a scripted MasterConnection: each call blocks until the harness processes it, so the interleaving is
// decided by the seeded generator; a "lost" reply is processed by the master and answered with an RPC error.
// Node leadership is switched by the harness (iAmLeader + cond, what Curator.LeadershipChange does).
//
// Model-free monitors after every step:
//   - every curator id / tractserver id / partition ever returned by the master is distinct from all others,
//   - a partition's owner never changes; lookup answers it with that curator's latest address,
//   - the curator group's durable partition set is a subset of the master's assignment to its durable id,
//   - the heartbeat reply never lacks a partition the curator caches (the log.Fatalf of heartbeatLoop),
//   - after a completed heartbeat round every partition the master assigned to the curator is in its durable set.

import (
	"fmt"
	"io/ioutil"
	"math"
	"runtime"
	"sort"
	"sync"
	"testing"
	"time"

	"github.com/westerndigitalcorporation/blb/internal/core"
	"github.com/westerndigitalcorporation/blb/internal/curator/durable"
	"github.com/westerndigitalcorporation/blb/internal/master"
	"github.com/westerndigitalcorporation/blb/pkg/raft/raft"
	vw "github.com/westerndigitalcorporation/blb/pkg/verifwire"
)

const (
	c12kReg  = 1
	c12kHB   = 2
	c12kPart = 3
)

type c12resp struct {
	id    core.CuratorID
	part  core.PartitionID
	parts []core.PartitionID
	err   core.Error
}

type c12call struct {
	kind int
	id   core.CuratorID
	resp chan c12resp
}

// c12mc is the scripted MasterConnection of one node.
type c12mc struct {
	calls chan *c12call
	dead  chan struct{}
}

func (m *c12mc) do(kind int, id core.CuratorID) c12resp {
	c := &c12call{kind: kind, id: id, resp: make(chan c12resp, 1)}
	select {
	case m.calls <- c:
	case <-m.dead:
		runtime.Goexit()
	}
	select {
	case r := <-c.resp:
		return r
	case <-m.dead:
		runtime.Goexit()
	}
	return c12resp{}
}
func (m *c12mc) RegisterCurator() (core.RegisterCuratorReply, core.Error) {
	r := m.do(c12kReg, 0)
	return core.RegisterCuratorReply{CuratorID: r.id, Err: r.err}, r.err
}
func (m *c12mc) CuratorHeartbeat(id core.CuratorID) (core.CuratorHeartbeatReply, core.Error) {
	r := m.do(c12kHB, id)
	return core.CuratorHeartbeatReply{Partitions: r.parts, Err: r.err}, r.err
}
func (m *c12mc) NewPartition(id core.CuratorID) (core.NewPartitionReply, core.Error) {
	r := m.do(c12kPart, id)
	return core.NewPartitionReply{PartitionID: r.part, Err: r.err}, r.err
}

// pc codes as in the model
const (
	c12pcStart = iota
	c12pcReg
	c12pcCommitReg
	c12pcNewPart
	c12pcCommitPart
	c12pcRun
)

type c12node struct {
	c       *Curator
	mc      *c12mc
	pc      int
	id      int64 // curator id the node works with (from its calls)
	p       int64 // partition held in CommitPart
	initC   *c12call
	hbC     *c12call
	monC    *c12call
	stuck   bool
	pendReg *c12resp // reply held while deposed
}

type c12line struct {
	op  bool
	xs  []int64
}

type c12glue struct {
	ci      int
	r       *vw.Rng
	lines   []c12line
	m       *master.Master
	sh      *durable.StateHandler
	cfg     *Config
	nodes   []*c12node
	leader  int
	// history for the monitors
	cids    map[int64]bool
	tsids   map[int64]bool
	owner   map[int64]int64
	addr    map[int64]string
	seq     int
	// steering mirror of the master's volatile table (never used for checking)
	quota   map[int64]int
	allCids []int64
	fail    string
	nviol   int
	lossBudget int
	syncFailBudget int // transient SyncPartitions failures to inject (each costs retryInterval = 5 s)
	failovers  int
	stats   map[string]int64
}

func (g *c12glue) op(xs ...int64)  { g.lines = append(g.lines, c12line{true, append([]int64(nil), xs...)}) }
func (g *c12glue) obs(xs ...int64) { g.lines = append(g.lines, c12line{false, append([]int64(nil), xs...)}) }
func (g *c12glue) stat(k string)   { g.stats[k]++ }

func (g *c12glue) report(sig, what string, detail map[string]interface{}) {
	g.nviol++
	if g.nviol > 3 {
		return
	}
	vw.Report(vw.Violation{Property: "C12", Signature: sig, What: what, Case: fmt.Sprintf("g%d", g.ci), Detail: detail})
}

func (g *c12glue) newNode() *c12node {
	mc := &c12mc{calls: make(chan *c12call, 8), dead: make(chan struct{})}
	c := &Curator{config: g.cfg, stateHandler: g.sh, mc: mc}
	c.iAmLeaderCond.L = &c.lock
	n := &c12node{c: c, mc: mc, pc: c12pcStart}
	go c.heartbeatLoop()
	return n
}

func (g *c12glue) setLeader(n *c12node, v bool) {
	n.c.lock.Lock()
	n.c.iAmLeader = v
	n.c.iAmLeaderCond.Broadcast()
	n.c.lock.Unlock()
}

// await receives calls of node n until pred holds; each call is filed by kind/phase.
func (g *c12glue) await(n *c12node, what string, pred func() bool) bool {
	deadline := time.After(20 * time.Second)
	for !pred() {
		select {
		case c := <-n.mc.calls:
			switch c.kind {
			case c12kReg:
				n.initC = c
			case c12kHB:
				n.hbC = c
			case c12kPart:
				if n.pc == c12pcRun {
					n.monC = c
				} else {
					n.initC = c
				}
			}
		case <-deadline:
			g.fail = fmt.Sprintf("case g%d: timed out waiting for %s (node pc %d)", g.ci, what, n.pc)
			return false
		}
	}
	return true
}

func c12parts(ps []core.PartitionID) []int64 {
	out := make([]int64, len(ps))
	for i, p := range ps {
		out[i] = int64(p)
	}
	return out
}

func (g *c12glue) durableInfo() (int64, []int64) {
	id, ps := g.sh.GetCuratorInfoLocal()
	return int64(id), c12parts(ps)
}

func (g *c12glue) cache(n *c12node) []int64 {
	n.c.lock.Lock()
	defer n.c.lock.Unlock()
	return c12parts(n.c.partitions)
}

func (g *c12glue) encNode(n *c12node) []int64 {
	var l vw.L
	switch n.pc {
	case c12pcStart, c12pcReg:
		l.Add(int64(n.pc), 0, 0)
	case c12pcCommitPart:
		l.Add(int64(n.pc), n.id, n.p)
	default:
		l.Add(int64(n.pc), n.id, 0)
	}
	l.AddList(g.cache(n))
	return l
}

// ---------- monitors ----------
func (g *c12glue) recordCid(id int64) {
	if g.cids[id] || id == 0 {
		g.report("dup-curator-id", "the master handed out a curator id it had handed out before", map[string]interface{}{"id": id})
	}
	g.cids[id] = true
	g.allCids = append(g.allCids, id)
}
func (g *c12glue) recordTsid(id int64) {
	if g.tsids[id] || id == 0 {
		g.report("dup-tractserver-id", "the master handed out a tractserver id it had handed out before", map[string]interface{}{"id": id})
	}
	g.tsids[id] = true
}
func (g *c12glue) recordPart(p, c int64) {
	if o, dup := g.owner[p]; dup || p == 0 {
		g.report("dup-partition", "the master handed out a partition it had handed out before",
			map[string]interface{}{"partition": p, "first_owner": o, "now": c})
		return
	}
	g.owner[p] = c
}

func (g *c12glue) monitors(when string) {
	// ownership stable, lookup answers from the assignment
	ps := make([]int64, 0, len(g.owner))
	for p := range g.owner {
		ps = append(ps, p)
	}
	sort.Slice(ps, func(i, j int) bool { return ps[i] < ps[j] })
	for _, p := range ps {
		c, e1, addrs, e2 := g.m.VerifLookup(core.PartitionID(p))
		if e1 != core.NoError || int64(c) != g.owner[p] {
			g.report("owner-changed", "a partition handed out to one curator is later looked up as owned by another (or unknown)",
				map[string]interface{}{"partition": p, "assigned_to": g.owner[p], "lookup": c, "err": e1.String(), "when": when})
			break
		}
		if e2 == core.NoError && (len(addrs) != 1 || addrs[0] != g.addr[g.owner[p]]) {
			g.report("lookup-wrong-address", "lookup answered with an address that is not the owning curator's latest address",
				map[string]interface{}{"partition": p, "owner": g.owner[p], "addrs": addrs, "want": g.addr[g.owner[p]], "when": when})
			break
		}
	}
	// curator serves only what the master assigned to its durable id
	id, dps := g.durableInfo()
	if len(dps) > 0 {
		assigned := map[int64]bool{}
		if id != 0 {
			got, _ := g.m.VerifGetPartitions(core.CuratorID(id))
			for _, p := range got {
				assigned[int64(p)] = true
			}
		}
		for _, p := range dps {
			if !assigned[p] || g.owner[p] != id {
				g.report("curator-serves-unassigned-partition", "the curator group's durable partition set contains a partition the master did not assign to its id",
					map[string]interface{}{"curator": id, "partition": p, "master_says_owner": g.owner[p], "when": when})
				break
			}
		}
	}
}

// ---------- master-side events ----------
func (g *c12glue) nextAddr(tag string) string {
	g.seq++
	return fmt.Sprintf("%s-%d", tag, g.seq)
}

func (g *c12glue) masterRegister() (int64, core.Error) {
	a := g.nextAddr("reg")
	id, err := g.m.VerifRegisterCurator(a)
	if err == core.NoError {
		g.recordCid(int64(id))
		g.addr[int64(id)] = a
		g.quota[int64(id)] = 2
	}
	return int64(id), err
}

func (g *c12glue) masterHeartbeat(id int64) ([]core.PartitionID, core.Error) {
	a := g.nextAddr("hb")
	ps, err := g.m.VerifCuratorHeartbeat(core.CuratorID(id), a)
	if err == core.NoError {
		g.addr[id] = a
		if _, ok := g.quota[id]; !ok {
			g.quota[id] = 2
		}
		// the reply must be exactly what was handed out for id
		want := 0
		for _, o := range g.owner {
			if o == id {
				want++
			}
		}
		bad := len(ps) != want
		for _, p := range ps {
			if g.owner[int64(p)] != id {
				bad = true
			}
		}
		if bad {
			g.report("heartbeat-partitions-differ-from-assignment", "curatorHeartbeat(c) does not return exactly the partitions handed out to c",
				map[string]interface{}{"curator": id, "got": fmt.Sprint(ps), "want": want})
		}
	}
	return ps, err
}

func (g *c12glue) masterNewPartition(id int64) (int64, core.Error) {
	p, err := g.m.VerifNewPartition(core.CuratorID(id))
	if q, ok := g.quota[id]; ok && q > 0 {
		g.quota[id] = q - 1
	}
	if err == core.NoError {
		g.recordPart(int64(p), id)
	}
	return int64(p), err
}

func c12res(v int64, err core.Error) []int64 {
	if err != core.NoError {
		return []int64{int64(err), 0}
	}
	return []int64{0, v}
}

func (g *c12glue) evMRegCur() {
	id, err := g.masterRegister()
	g.op(7)
	g.obs(c12res(id, err)...)
}

// evBurst issues several registrations (and new-partition requests for one curator) CONCURRENTLY.  The counters
// are advanced inside the replicated apply, so the multiset of results equals that of the same calls issued one
// after the other; they are written to the trace in ascending order of the returned value (errors last).
func (g *c12glue) evBurst() {
	nc, nt := g.r.Range(1, 4), g.r.Range(0, 3)
	np := 0
	var pc int64
	if len(g.allCids) > 0 && g.r.Chance(1, 2) {
		pc = g.allCids[g.r.Intn(len(g.allCids))]
		if q, ok := g.quota[pc]; ok && q > 0 {
			np = 3
		}
	}
	type res struct {
		v    int64
		err  core.Error
		addr string
	}
	cres, tres, pres := make([]res, nc), make([]res, nt), make([]res, np)
	var wg sync.WaitGroup
	start := make(chan struct{})
	for i := 0; i < nc; i++ {
		a := g.nextAddr("reg")
		wg.Add(1)
		go func(i int) {
			defer wg.Done()
			<-start
			id, err := g.m.VerifRegisterCurator(a)
			cres[i] = res{int64(id), err, a}
		}(i)
	}
	for i := 0; i < nt; i++ {
		a := g.nextAddr("ts")
		wg.Add(1)
		go func(i int) {
			defer wg.Done()
			<-start
			id, err := g.m.VerifRegisterTractserver(a)
			tres[i] = res{int64(id), err, a}
		}(i)
	}
	for i := 0; i < np; i++ {
		wg.Add(1)
		go func(i int) {
			defer wg.Done()
			<-start
			p, err := g.m.VerifNewPartition(core.CuratorID(pc))
			pres[i] = res{int64(p), err, ""}
		}(i)
	}
	close(start)
	wg.Wait()
	order := func(rs []res) {
		sort.SliceStable(rs, func(i, j int) bool {
			if (rs[i].err == core.NoError) != (rs[j].err == core.NoError) {
				return rs[i].err == core.NoError
			}
			return rs[i].v < rs[j].v
		})
	}
	order(cres)
	order(tres)
	order(pres)
	for _, r := range cres {
		if r.err == core.NoError {
			g.recordCid(r.v)
			g.addr[r.v] = r.addr
			g.quota[r.v] = 2
		}
		g.op(7)
		g.obs(c12res(r.v, r.err)...)
	}
	for _, r := range tres {
		if r.err == core.NoError {
			g.recordTsid(r.v)
		}
		g.op(8)
		g.obs(c12res(r.v, r.err)...)
	}
	for _, r := range pres {
		if q := g.quota[pc]; q > 0 {
			g.quota[pc] = q - 1
		}
		if r.err == core.NoError {
			g.recordPart(r.v, pc)
		}
		g.op(10, pc)
		g.obs(c12res(r.v, r.err)...)
	}
	g.stat("glue.ev.concurrent-burst")
}

func (g *c12glue) evMRegTs() {
	id, err := g.m.VerifRegisterTractserver(g.nextAddr("ts"))
	if err == core.NoError {
		g.recordTsid(int64(id))
	}
	g.op(8)
	g.obs(c12res(int64(id), err)...)
}
func (g *c12glue) evMHeartbeat(c int64) {
	ps, err := g.masterHeartbeat(c)
	g.op(9, c)
	if err != core.NoError {
		g.obs(int64(err), 0)
		return
	}
	var l vw.L
	l.Add(0)
	l.AddList(c12parts(ps))
	g.obs(l...)
}
func (g *c12glue) evMNewPart(c int64) {
	p, err := g.masterNewPartition(c)
	g.op(10, c)
	g.obs(c12res(p, err)...)
}
func (g *c12glue) evMLookup(p int64) {
	c, e1, addrs, e2 := g.m.VerifLookup(core.PartitionID(p))
	g.op(11, p)
	var l vw.L
	l.Add(c12res(int64(c), e1)...)
	if e2 != core.NoError {
		l.Add(int64(e2), 0)
	} else {
		// the address identifies the curator: it must be the latest address of the durable owner
		who := int64(0)
		for id, a := range g.addr {
			if len(addrs) == 1 && a == addrs[0] {
				who = id
			}
		}
		l.Add(0, who)
	}
	g.obs(l...)
}
func (g *c12glue) evDump() {
	parts, nc, nt, ro := g.m.VerifState()
	var l vw.L
	l.Add(int64(nc), int64(nt))
	l.AddBool(ro)
	l.AddInt(len(parts))
	for _, c := range parts {
		l.Add(int64(c))
	}
	ids, qs := g.m.VerifTable()
	l.AddInt(len(ids))
	for i := range ids {
		l.Add(int64(ids[i]), int64(qs[i]))
	}
	g.op(12)
	g.obs(l...)
}
func (g *c12glue) evFailover() {
	snap := g.m.VerifSnapshot()
	m2 := master.VerifNewMaster()
	m2.VerifRestore(snap)
	g.m = m2
	g.quota = map[int64]int{}
	g.failovers++
	parts, nc, nt, ro := g.m.VerifState()
	var l vw.L
	l.Add(int64(nc), int64(nt))
	l.AddBool(ro)
	l.AddInt(len(parts))
	for _, c := range parts {
		l.Add(int64(c))
	}
	g.op(6)
	g.obs(l...)
}
func (g *c12glue) evCDump() {
	id, ps := g.durableInfo()
	var l vw.L
	l.Add(id)
	l.AddList(ps)
	l.AddInt(g.leader)
	for _, n := range g.nodes {
		l.Add(g.encNode(n)...)
	}
	g.op(29)
	g.obs(l...)
}

// ---------- curator-side events ----------

// afterInit is called when node n (leader) is expected to have left initialize: wait for its heartbeat call and
// its partition-monitor call.
func (g *c12glue) awaitRun(n *c12node) bool {
	n.pc = c12pcRun
	n.initC = nil
	return g.await(n, "heartbeat+monitor calls", func() bool { return n.hbC != nil && n.monC != nil })
}

// elect makes node k the leader (deposing the current one) and lets it run to its next master call.
func (g *c12glue) elect(k int) bool {
	old := g.nodes[g.leader]
	g.setLeader(old, false)
	g.leader = k
	n := g.nodes[k]
	g.op(27, int64(k))
	g.obs(int64(k))
	g.stat("glue.ev.cleader")
	g.setLeader(n, true)
	return g.resume(k)
}

// resume: node k has just become leader (or was restarted as leader); follow what the real code does by itself.
func (g *c12glue) resume(k int) bool {
	n := g.nodes[k]
	switch n.pc {
	case c12pcStart:
		// GetCuratorInfo decision: the next call tells which branch was taken
		ok := g.await(n, "first call after becoming leader", func() bool { return n.initC != nil || n.hbC != nil })
		if !ok {
			return false
		}
		if n.hbC == nil && n.initC.kind == c12kPart {
			// initialize's NewPartition, or the partition monitor's first call overtaking the first heartbeat?
			tm := time.After(40 * time.Millisecond)
		wait:
			for n.hbC == nil {
				select {
				case c := <-n.mc.calls:
					if c.kind == c12kHB {
						n.hbC = c
					}
				case <-tm:
					break wait
				}
			}
			if n.hbC != nil {
				n.monC, n.initC = n.initC, nil
			}
		}
		if n.hbC != nil {
			n.id = int64(n.hbC.id)
			if !g.awaitRun(n) {
				return false
			}
		} else if n.initC.kind == c12kReg {
			n.pc = c12pcReg
		} else {
			n.pc = c12pcNewPart
			n.id = int64(n.initC.id)
		}
		g.op(20, int64(k))
		g.obs(g.encNode(n)...)
		g.stat(fmt.Sprintf("glue.ev.cstart.pc=%d", n.pc))
	case c12pcCommitReg:
		// the held reply is committed with Register(id); then NewPartition is called
		n.initC = nil
		if !g.await(n, "NewPartition after Register", func() bool { return n.initC != nil }) {
			return false
		}
		n.pc = c12pcNewPart
		n.id = int64(n.initC.id)
		did, _ := g.durableInfo()
		g.op(22, int64(k))
		g.obs(did)
		g.stat("glue.ev.ccommitreg.after-leader-change")
	case c12pcCommitPart:
		if !g.awaitRun(n) {
			return false
		}
		g.op(24, int64(k))
		g.obs(0)
		g.stat("glue.ev.ccommitpart.after-leader-change")
	}
	return true
}

// wouldStick: electing node k would make initialize retry AddPartition forever (ErrAlreadyExists every 5 s).
func (g *c12glue) wouldStick(k int) bool {
	n := g.nodes[k]
	if n.pc != c12pcCommitPart {
		return false
	}
	_, ps := g.durableInfo()
	for _, p := range ps {
		if p == n.p {
			return true
		}
	}
	return false
}

func (g *c12glue) evCRegister(lost, deposeBefore bool, next int) bool {
	k := g.leader
	n := g.nodes[k]
	id, err := g.masterRegister()
	lostF := int64(0)
	if lost {
		lostF = 1
	}
	g.op(21, int64(k), lostF)
	g.obs(c12res(id, err)...)
	g.stat(fmt.Sprintf("glue.ev.cregister.lost=%d", lostF))
	call := n.initC
	n.initC = nil
	if lost || err != core.NoError {
		e := err
		if e == core.NoError {
			e = core.ErrRPC
		}
		call.resp <- c12resp{err: e}
		// initialize sleeps retryInterval (5 s) and calls again
		return g.await(n, "RegisterCurator retry", func() bool { return n.initC != nil })
	}
	n.id = id
	if deposeBefore {
		// the node loses leadership between receiving the id and committing it
		g.setLeader(n, false)
		n.pc = c12pcCommitReg
		call.resp <- c12resp{id: core.CuratorID(id)}
		g.leader = next
		m := g.nodes[next]
		g.op(27, int64(next))
		g.obs(int64(next))
		g.stat("glue.ev.cleader.between-receive-and-commit")
		g.setLeader(m, true)
		return g.resume(next)
	}
	call.resp <- c12resp{id: core.CuratorID(id)}
	n.pc = c12pcCommitReg
	return g.resume(k)
}

func (g *c12glue) evCNewPart(lost, deposeBefore bool, next int) bool {
	k := g.leader
	n := g.nodes[k]
	p, err := g.masterNewPartition(n.id)
	lostF := int64(0)
	if lost {
		lostF = 1
	}
	g.op(23, int64(k), lostF)
	g.obs(c12res(p, err)...)
	g.stat(fmt.Sprintf("glue.ev.cnewpart.lost=%d.err=%d", lostF, err))
	call := n.initC
	n.initC = nil
	if lost || err != core.NoError {
		e := err
		if e == core.NoError {
			e = core.ErrRPC
		}
		call.resp <- c12resp{err: e}
		return g.await(n, "NewPartition retry", func() bool { return n.initC != nil })
	}
	n.p = p
	n.pc = c12pcCommitPart
	if deposeBefore {
		g.setLeader(n, false)
		call.resp <- c12resp{part: core.PartitionID(p)}
		g.leader = next
		m := g.nodes[next]
		g.op(27, int64(next))
		g.obs(int64(next))
		g.stat("glue.ev.cleader.between-receive-and-commit")
		g.setLeader(m, true)
		return g.resume(next)
	}
	call.resp <- c12resp{part: core.PartitionID(p)}
	if !g.awaitRun(n) {
		return false
	}
	g.op(24, int64(k))
	g.obs(0)
	return true
}

func (g *c12glue) evCHeartbeat(lost bool) bool { return g.evCHeartbeatF(lost, false) }

// evCHeartbeatF: one heartbeat round; with trySyncFail (and if this round would sync) the curator group's durable
// state is put in read-only mode while the reply is delivered, so the FIRST SyncPartitions fails transiently
// (ErrReadOnlyMode); heartbeatLoop must then leave its cache alone, sleep and retry, and a later completed round must
// still recover the assignment.
func (g *c12glue) evCHeartbeatF(lost, trySyncFail bool) bool {
	k := g.leader
	n := g.nodes[k]
	ps, err := g.masterHeartbeat(n.id)
	lostF := int64(0)
	if lost {
		lostF = 1
	}
	syncFail := false
	if err == core.NoError && !lost && trySyncFail && g.syncFailBudget > 0 && len(ps) != len(g.cache(n)) {
		syncFail = true
		g.syncFailBudget--
	}
	if syncFail {
		g.op(30, int64(k))
		g.stat("glue.ev.cheartbeat.syncfail")
	} else {
		g.op(25, int64(k), lostF)
	}
	call := n.hbC
	n.hbC = nil
	g.stat(fmt.Sprintf("glue.ev.cheartbeat.lost=%d", lostF))
	if err != core.NoError {
		call.resp <- c12resp{err: err}
		g.obs(0)
		return g.await(n, "next heartbeat", func() bool { return n.hbC != nil })
	}
	if lost {
		call.resp <- c12resp{err: core.ErrRPC}
		if !g.await(n, "next heartbeat", func() bool { return n.hbC != nil }) {
			return false
		}
	} else {
		// the sanity check of heartbeatLoop, evaluated here so that a violation is reported instead of log.Fatalf
		inReply := map[int64]bool{}
		for _, p := range ps {
			inReply[int64(p)] = true
		}
		for _, p := range g.cache(n) {
			if !inReply[p] {
				g.report("curator-partition-missing-on-master", "the heartbeat reply lacks a partition the curator owns (heartbeatLoop would log.Fatalf)",
					map[string]interface{}{"partition": p, "reply": fmt.Sprint(ps), "curator": n.id})
				g.fail = "stop"
				var l vw.L
				l.Add(2)
				l.AddList(c12parts(ps))
				_, dps := g.durableInfo()
				l.AddList(dps)
				g.obs(l...)
				return false
			}
		}
		before := len(g.cache(n))
		var undo func() bool
		if syncFail {
			reason := g.r.Intn(2)
			g.stat(fmt.Sprintf("glue.ev.cheartbeat.syncfail.reason=%d", reason))
			var ok bool
			if undo, ok = g.breakCommit(reason); !ok {
				return false
			}
		}
		call.resp <- c12resp{parts: ps}
		if !g.await(n, "next heartbeat", func() bool { return n.hbC != nil }) {
			return false
		}
		if syncFail {
			if !undo() {
				return false
			}
			var l vw.L
			l.Add(1)
			l.AddList(c12parts(ps))
			_, dps := g.durableInfo()
			l.AddList(dps)
			g.obs(l...)
			return true
		}
		if len(ps) != before {
			g.stat("glue.heartbeat.synced")
		}
		// a completed round: everything the master assigned to this curator must now be durable
		_, dps := g.durableInfo()
		have := map[int64]bool{}
		for _, p := range dps {
			have[p] = true
		}
		for p, o := range g.owner {
			if o == n.id && !have[p] {
				g.report("lost-assignment-not-recovered", "after a completed heartbeat round a partition the master assigned to the curator is not in its durable set",
					map[string]interface{}{"partition": p, "curator": n.id, "durable": fmt.Sprint(dps), "reply": fmt.Sprint(ps)})
				break
			}
		}
	}
	var l vw.L
	l.Add(1)
	l.AddList(c12parts(ps))
	_, dps := g.durableInfo()
	l.AddList(dps)
	g.obs(l...)
	return true
}

// breakCommit makes the next proposal of the curator group's durable handler fail transiently, for one of the
// reasons the code can meet: 0 = read-only window (ErrReadOnlyMode from Apply), 1 = the term the glue reads with
// GetTerm() is not raft's term any more (leadership changed between receiving and committing: ErrTermMismatch).
// The returned function undoes it.
func (g *c12glue) breakCommit(reason int) (func() bool, bool) {
	switch reason {
	case 0:
		if e := g.sh.SetReadOnlyMode(true); e != core.NoError {
			g.fail = "could not set curator read-only mode: " + e.String()
			return nil, false
		}
		return func() bool {
			if e := g.sh.SetReadOnlyMode(false); e != core.NoError {
				g.fail = "could not clear curator read-only mode: " + e.String()
				return false
			}
			return true
		}, true
	default:
		t, ld := g.sh.GetTerm(), g.sh.LeaderID()
		g.sh.OnLeadershipChange(true, t+7, ld)
		return func() bool {
			g.sh.OnLeadershipChange(true, t, ld)
			return true
		}, true
	}
}

// evCMonitorCommitFail: one partition-monitor round in which the master assigns a partition, the reply arrives, and
// the AddPartition commit fails transiently; the loop must `continue` without touching c.partitions.
func (g *c12glue) evCMonitorCommitFail(reason int) bool {
	k := g.leader
	n := g.nodes[k]
	p, err := g.masterNewPartition(n.id)
	if err != core.NoError {
		// nothing to commit: an ordinary round that the master refused
		g.op(26, int64(k), 0)
		g.stat(fmt.Sprintf("glue.ev.cmonitor.lost=0.err=%d", err))
		call := n.monC
		n.monC = nil
		call.resp <- c12resp{err: err}
		if !g.await(n, "next monitor round", func() bool { return n.monC != nil }) {
			return false
		}
		_, after := g.durableInfo()
		var l vw.L
		l.Add(c12res(p, err)...)
		l.Add(0)
		l.AddList(after)
		g.obs(l...)
		return true
	}
	g.op(31, int64(k))
	g.stat(fmt.Sprintf("glue.ev.cmonitor.commitfail.reason=%d", reason))
	call := n.monC
	n.monC = nil
	_, before := g.durableInfo()
	undo, ok := g.breakCommit(reason)
	if !ok {
		return false
	}
	call.resp <- c12resp{part: core.PartitionID(p)}
	if !g.await(n, "next monitor round", func() bool { return n.monC != nil }) {
		return false
	}
	if !undo() {
		return false
	}
	_, after := g.durableInfo()
	var l vw.L
	l.Add(c12res(p, err)...)
	l.AddBool(len(after) > len(before))
	l.AddList(after)
	g.obs(l...)
	return true
}

func (g *c12glue) evCMonitor(lost bool) bool {
	k := g.leader
	n := g.nodes[k]
	p, err := g.masterNewPartition(n.id)
	lostF := int64(0)
	if lost {
		lostF = 1
	}
	g.op(26, int64(k), lostF)
	g.stat(fmt.Sprintf("glue.ev.cmonitor.lost=%d.err=%d", lostF, err))
	call := n.monC
	n.monC = nil
	_, before := g.durableInfo()
	if lost || err != core.NoError {
		e := err
		if e == core.NoError {
			e = core.ErrRPC
		}
		call.resp <- c12resp{err: e}
	} else {
		call.resp <- c12resp{part: core.PartitionID(p)}
	}
	if !g.await(n, "next monitor round", func() bool { return n.monC != nil }) {
		return false
	}
	_, after := g.durableInfo()
	var l vw.L
	l.Add(c12res(p, err)...)
	l.AddBool(len(after) > len(before))
	l.AddList(after)
	g.obs(l...)
	return true
}

func (g *c12glue) evCRestart(k int) bool {
	old := g.nodes[k]
	g.setLeader(old, false)
	close(old.mc.dead)
	g.nodes[k] = g.newNode()
	g.op(28, int64(k))
	g.obs(int64(g.leader))
	g.stat("glue.ev.crestart")
	if k == g.leader {
		g.setLeader(g.nodes[k], true)
		return g.resume(k)
	}
	return true
}

func (g *c12glue) someCid() int64 {
	if len(g.allCids) == 0 || g.r.Chance(1, 8) {
		return int64(g.r.Range(0, len(g.allCids)+2))
	}
	return g.allCids[g.r.Intn(len(g.allCids))]
}

func (g *c12glue) otherNode() int {
	k := g.r.Intn(len(g.nodes) - 1)
	if k >= g.leader {
		k++
	}
	return k
}

func (g *c12glue) run() {
	defer func() {
		for _, n := range g.nodes {
			g.setLeader(n, false)
			close(n.mc.dead)
		}
	}()
	g.m = master.VerifNewMaster()
	// the curator group's replicated state on a single-node raft
	dir, err := ioutil.TempDir(vw.OutDir(), "verif_c12_")
	if err != nil {
		g.fail = err.Error()
		return
	}
	scfg := durable.DefaultStateConfig
	scfg.DBDir = dir
	name := fmt.Sprintf("verif_curator_%d_%d", g.ci, time.Now().UnixNano())
	g.sh = durable.NewStateHandler(&scfg, raft.NewTestRaftNode(name, name))
	led := make(chan struct{}, 4)
	g.sh.SetLeadershipChange(func(b bool) {
		if b {
			select {
			case led <- struct{}{}:
			default:
			}
		}
	})
	g.sh.Start()
	g.sh.ProposeInitialMembership([]string{name})
	select {
	case <-led:
	case <-time.After(20 * time.Second):
		g.fail = "curator raft did not elect itself"
		return
	}
	cfg := DefaultTestConfig
	cfg.MasterHeartbeatInterval = time.Millisecond
	cfg.PartitionMonInterval = time.Millisecond
	cfg.MinFreeBlobSlot = math.MaxUint64
	cfg.FreeMemLimit = 0
	g.cfg = &cfg
	for i := 0; i < 3; i++ {
		g.nodes = append(g.nodes, g.newNode())
	}
	g.leader = 0
	// some foreign activity first, so that ids differ between cases
	for i := g.r.Intn(3); i > 0; i-- {
		g.evMRegCur()
	}
	g.setLeader(g.nodes[0], true)
	if !g.resume(0) {
		return
	}
	nsteps := g.r.Range(8, 30)
	for s := 0; s < nsteps && g.fail == ""; s++ {
		n := g.nodes[g.leader]
		ok := true
		switch k := g.r.Intn(100); {
		case k < 4:
			g.evMRegCur()
		case k < 8:
			g.evBurst()
		case k < 14:
			g.evMRegTs()
		case k < 22:
			g.evMHeartbeat(g.someCid())
		case k < 30:
			g.evMNewPart(g.someCid())
		case k < 36:
			g.evMLookup(int64(g.r.Range(0, len(g.owner)+1)))
		case k < 40:
			if g.failovers < 3 {
				g.evFailover()
			}
		case k < 44:
			g.evDump()
		case k < 48:
			g.evCDump()
		case k < 54:
			// curator leader change (to a node that would not spin in initialize)
			m := g.otherNode()
			if !g.wouldStick(m) && !g.nodes[m].stuck {
				ok = g.elect(m)
			} else {
				g.stat("glue.avoided.initialize-addpartition-livelock")
			}
		case k < 57:
			m := g.r.Intn(len(g.nodes))
			ok = g.evCRestart(m)
		default:
			// progress of the leading node
			switch n.pc {
			case c12pcReg:
				lost := g.lossBudget > 0 && g.r.Chance(1, 3)
				if lost {
					g.lossBudget--
				}
				dep := !lost && g.r.Chance(1, 4)
				nx := g.otherNode()
				if dep && (g.wouldStick(nx) || g.nodes[nx].stuck) {
					dep = false
				}
				ok = g.evCRegister(lost, dep, nx)
			case c12pcNewPart:
				if q, in := g.quota[n.id]; !in {
					// after a master fail-over the new leader does not know the curator until it heartbeats;
					// initialize itself never heartbeats, so somebody else has to (see notes: liveness observation)
					g.evMHeartbeat(n.id)
					g.stat("glue.avoided.newpartition-before-first-heartbeat")
				} else if q == 0 {
					if g.failovers < 3 {
						g.evFailover()
					}
				} else {
					lost := g.lossBudget > 0 && g.r.Chance(1, 3)
					if lost {
						g.lossBudget--
					}
					dep := !lost && g.r.Chance(1, 4)
					nx := g.otherNode()
					if dep && (g.wouldStick(nx) || g.nodes[nx].stuck) {
						dep = false
					}
					ok = g.evCNewPart(lost, dep, nx)
				}
			case c12pcRun:
				if g.r.Chance(1, 2) {
					ok = g.evCHeartbeatF(g.r.Chance(1, 4), true)
				} else {
					if g.r.Chance(1, 4) {
						ok = g.evCMonitorCommitFail(g.r.Intn(2))
					} else {
						ok = g.evCMonitor(g.r.Chance(1, 3))
					}
				}
			}
		}
		if !ok {
			break
		}
		g.monitors("after-step")
	}
	if g.fail == "" {
		// a final completed heartbeat round when the leader runs, then dumps
		if n := g.nodes[g.leader]; n.pc == c12pcRun {
			g.evCHeartbeat(false)
			g.monitors("after-final-heartbeat")
		}
	}
	if g.fail == "" {
		g.evDump()
		g.evCDump()
	}
}

func TestVerifC12Glue(t *testing.T) {
	if !vw.Enabled() {
		t.Skip("verification harness: run through /verif/bin/check")
	}
	root := vw.NewRng(vw.Seed())
	tr := vw.OpenTrace("C12glue.trace")
	defer tr.Close()
	defer vw.Finish("C12glue")
	ncases := vw.Scale(120, 3000)
	vw.Sample(fmt.Sprintf("part B: %d cases of the real Master against the real curator glue (3 nodes), seed %d", ncases, vw.Seed()))
	cases := make([]*c12glue, ncases)
	sem := make(chan struct{}, vw.Scale(48, 64))
	var wg sync.WaitGroup
	for ci := 0; ci < ncases; ci++ {
		if !vw.CaseSelected(fmt.Sprintf("g%d", ci)) {
			continue
		}
		g := &c12glue{ci: ci, r: root.Fork(uint64(1000000 + ci)), cids: map[int64]bool{}, tsids: map[int64]bool{},
			owner: map[int64]int64{}, addr: map[int64]string{}, quota: map[int64]int{}, stats: map[string]int64{}}
		// replies lost inside initialize cost 5 s of wall time each (retryInterval): keep them rare
		if g.r.Chance(1, 6) {
			g.lossBudget = 1
			if vw.Thorough() {
				g.lossBudget = 2
			}
		} else if g.r.Chance(1, 3) {
			// one transient SyncPartitions failure (5 s as well)
			g.syncFailBudget = 1
		}
		cases[ci] = g
		wg.Add(1)
		sem <- struct{}{}
		go func() {
			defer wg.Done()
			defer func() { <-sem }()
			g.run()
		}()
	}
	wg.Wait()
	for ci, g := range cases {
		if g == nil {
			continue
		}
		tr.Case(fmt.Sprintf("g%d", ci))
		for _, l := range g.lines {
			if l.op {
				tr.Op(l.xs...)
			} else {
				tr.Obs(l.xs...)
			}
		}
		for k, v := range g.stats {
			vw.Stat(k, v)
		}
		vw.Stat("glue.cases", 1)
		if len(g.owner) > 1 {
			vw.Distinct(fmt.Sprintf("g/%d/%d/%v", len(g.cids), len(g.tsids), g.owner))
		}
		if ci < 2 {
			id, ps := int64(0), []int64(nil)
			if g.sh != nil {
				id, ps = g.durableInfo()
			}
			vw.Sample(fmt.Sprintf("glue case g%d: %d events, curator ids %v, owner table %v, curator durable id %d partitions %v",
				ci, len(g.lines)/2, g.allCids, g.owner, id, ps))
		}
		if g.fail != "" && g.fail != "stop" {
			t.Errorf("harness: %s", g.fail)
		}
	}
}
