package tractserver

// C09 harness (injected by `go test -overlay`; lives in /verif).
// Drives the real Store over (a) MemDisk and (b) Manager on temp directories (real files + xattrs)
// with generated operation sequences: create, write, read, stat, conditional/unconditional SetVersion,
// PullTract with scripted remote replies, GCTracts, Check, restart (NewStore + AddDisk), AddDisk /
// RemoveDisk (conflict resolution), allocation flags.  After every call the whole world is scanned
// (tract table via GetTractsByDisk, every physical disk's files with version and content) and written
// to the trace, where the extracted Coq model (Store/Model.v via C09/Model.v) must predict it exactly.
// Independent of the model, the monitors below evaluate the property's own sentences on the scans.

import (
	"context"
	"encoding/binary"
	"fmt"
	"os"
	"path/filepath"
	"sort"
	"strings"
	"sync/atomic"
	"testing"
	"time"

	"github.com/westerndigitalcorporation/blb/internal/core"
	libdisk "github.com/westerndigitalcorporation/blb/pkg/disk"
	vw "github.com/westerndigitalcorporation/blb/pkg/verifwire"
)

// ---------- a Disk whose Stop() leaves the bytes alone (MemDisk.Stop discards everything) ----------

type c09disk struct {
	Disk
	stopped int32
	fwdStop bool                         // forward Stop to the wrapped disk (Manager); MemDisk.Stop would discard the bytes
	w       *c09world                    // shared fault + per-disk page-cache bookkeeping
	pd      int                          // physical disk index
	ids     map[interface{}]core.TractID // open handle -> tract
}

// One injected disk fault per Store call: the n-th FAULTABLE disk call of the operation (Open, Setxattr,
// Write, Close of a tract file, counted over all disks from the start of the call) fails:
//
//	Open -> ErrIO, nothing happens; Setxattr -> ErrIO, nothing set; Write -> the first half of the bytes
//	is written, then ErrNoSpace; Close -> ErrIO: the handle is released but NOTHING WAS SYNCED.
type c09fault struct {
	armed bool
	n     int
	fired bool
	kind  string
}

// Page-cache semantics of the double (MemDisk cases): updates made through a handle (new file, bytes,
// version xattr) are volatile until SOME handle of that file is closed successfully - that is the fsync
// ChecksumFile.Close performs; a failed Close leaves them volatile. Delete is durable at once (Manager
// renames and syncs the directory). A power loss restores every dirty file to its durable image.
type c09image struct {
	exists bool
	hasver bool
	ver    []byte
	data   []byte
}

func (d *c09disk) hit(kind string, id core.TractID) bool {
	if d.w == nil || id.Blob == core.ZeroBlobID {
		return false
	}
	ft := &d.w.fault
	if !ft.armed {
		return false
	}
	if ft.n > 0 {
		ft.n--
		return false
	}
	ft.armed, ft.fired, ft.kind = false, true, kind
	return true
}

// markDirty remembers the durable image of a tract file before its first unsynced update.
func (d *c09disk) markDirty(id core.TractID) {
	if d.w == nil || d.w.kind != 0 || id.Blob == core.ZeroBlobID {
		return
	}
	m := d.w.dirty[d.pd]
	if _, ok := m[id]; ok {
		return
	}
	md := d.w.mem[d.pd]
	md.lock.Lock()
	defer md.lock.Unlock()
	img := &c09image{}
	if fd, ok := md.fds[id]; ok {
		img.exists = true
		img.data = append([]byte(nil), md.files[fd]...)
		if xa, ok := md.xattrs[fd]; ok {
			if v, ok := xa[versionXattr]; ok {
				img.hasver = true
				img.ver = append([]byte(nil), v...)
			}
		}
	}
	m[id] = img
}

func (d *c09disk) synced(id core.TractID) {
	if d.w != nil && d.w.kind == 0 && !d.w.quiet {
		delete(d.w.dirty[d.pd], id)
	}
}

func (d *c09disk) off() bool { return atomic.LoadInt32(&d.stopped) != 0 }
func (d *c09disk) Open(ctx context.Context, id core.TractID, flags int) (interface{}, core.Error) {
	if d.off() {
		return nil, core.ErrDiskRemoved
	}
	if d.hit("open", id) {
		return nil, core.ErrIO
	}
	if flags&os.O_CREATE != 0 {
		d.markDirty(id) // if the file does not exist yet its durable image is "absent"
	}
	f, e := d.Disk.Open(ctx, id, flags)
	if e == core.NoError {
		if d.ids == nil {
			d.ids = map[interface{}]core.TractID{}
		}
		d.ids[f] = id
	} else if flags&os.O_CREATE != 0 && d.w != nil && d.w.kind == 0 {
		// nothing was created: forget the image unless older updates are pending (then it was there before)
		if img := d.w.dirty[d.pd][id]; img != nil && !img.exists && e != core.ErrAlreadyExists {
			delete(d.w.dirty[d.pd], id)
		}
	}
	return f, e
}
func (d *c09disk) Close(f interface{}) core.Error {
	id := d.ids[f]
	delete(d.ids, f)
	if d.hit("close", id) {
		d.Disk.Close(f) // the descriptor is gone, the fsync failed
		return core.ErrIO
	}
	e := d.Disk.Close(f)
	if e == core.NoError {
		d.synced(id)
	}
	return e
}
func (d *c09disk) Write(ctx context.Context, f interface{}, b []byte, off int64) (int, core.Error) {
	if d.off() {
		return 0, core.ErrDiskRemoved
	}
	id := d.ids[f]
	if d.hit("write", id) {
		n := 0
		if len(b)/2 > 0 {
			d.markDirty(id)
			n, _ = d.Disk.Write(ctx, f, b[:len(b)/2], off) // a short write really reaches the file
		}
		return n, core.ErrNoSpace
	}
	d.markDirty(id)
	return d.Disk.Write(ctx, f, b, off)
}
func (d *c09disk) Read(ctx context.Context, f interface{}, b []byte, off int64) (int, core.Error) {
	if d.off() {
		return 0, core.ErrDiskRemoved
	}
	return d.Disk.Read(ctx, f, b, off)
}
func (d *c09disk) Scrub(id core.TractID) (int64, core.Error) {
	if d.off() {
		return 0, core.ErrDiskRemoved
	}
	return d.Disk.Scrub(id)
}
func (d *c09disk) Size(f interface{}) (int64, core.Error) {
	if d.off() {
		return 0, core.ErrDiskRemoved
	}
	return d.Disk.Size(f)
}
func (d *c09disk) Delete(id core.TractID) core.Error {
	if d.off() {
		return core.ErrDiskRemoved
	}
	e := d.Disk.Delete(id)
	if e == core.NoError && d.w != nil && d.w.kind == 0 {
		delete(d.w.dirty[d.pd], id) // durable at once
	}
	return e
}
func (d *c09disk) OpenDir() (interface{}, core.Error) {
	if d.off() {
		return nil, core.ErrDiskRemoved
	}
	return d.Disk.OpenDir()
}
func (d *c09disk) ReadDir(x interface{}) ([]core.TractID, core.Error) {
	if d.off() {
		return nil, core.ErrDiskRemoved
	}
	return d.Disk.ReadDir(x)
}
func (d *c09disk) Getxattr(f interface{}, name string) ([]byte, core.Error) {
	if d.off() {
		return nil, core.ErrDiskRemoved
	}
	return d.Disk.Getxattr(f, name)
}
func (d *c09disk) Setxattr(f interface{}, name string, value []byte) core.Error {
	if d.off() {
		return core.ErrDiskRemoved
	}
	id := d.ids[f]
	if d.hit("setxattr", id) {
		return core.ErrIO
	}
	d.markDirty(id)
	return d.Disk.Setxattr(f, name, value)
}
func (d *c09disk) SetControlFlags(fl core.DiskControlFlags) core.Error {
	if d.off() {
		return core.ErrDiskRemoved
	}
	return d.Disk.SetControlFlags(fl)
}
func (d *c09disk) Stop() {
	atomic.StoreInt32(&d.stopped, 1)
	if d.fwdStop {
		d.Disk.Stop()
	}
}

// ---------- scripted TractserverTalker: the harness chooses what the remote side answers ----------

type c09reply struct {
	b   []byte
	err core.Error
}
type c09talker struct {
	replies map[string]c09reply
	calls   []string
}

func (t *c09talker) CtlRead(ctx context.Context, addr string, id core.TractID, version int, length int, off int64) ([]byte, core.Error) {
	t.calls = append(t.calls, fmt.Sprintf("%s/%d/%d/%d", addr, version, length, off))
	r, ok := t.replies[addr]
	if !ok {
		return nil, core.ErrRPC
	}
	if r.b == nil {
		return nil, r.err
	}
	b := make([]byte, len(r.b)) // ownership passes to the store (rpc.PutBuffer)
	copy(b, r.b)
	return b, r.err
}
func (t *c09talker) CtlWrite(ctx context.Context, addr string, id core.TractID, v int, off int64, b []byte) core.Error {
	return core.ErrRPC
}

// ---------- world ----------

type c09file struct {
	hasver bool
	ver    int64
	rle    string // canonical run-length text of the content
	size   int64
}
type c09snap struct {
	table map[int64]int       // tract -> slot
	slotd map[int]int         // slot -> physical disk (harness bookkeeping of its own AddDisk/RemoveDisk calls)
	disks []map[int64]c09file // physical disk -> tract -> file
}

// the copy the server serves
func (s *c09snap) cur(t int64) (c09file, int, bool) {
	slot, ok := s.table[t]
	if !ok {
		return c09file{}, -1, false
	}
	pd, ok := s.slotd[slot]
	if !ok {
		return c09file{}, -1, false
	}
	f, ok := s.disks[pd][t]
	return f, pd, ok
}

type c09world struct {
	t      *testing.T
	kind   int // 0 MemDisk, 1 Manager
	nd     int
	mem    []*MemDisk
	roots  []string
	att    []Disk // current Disk object per physical disk, nil when detached
	slotd  map[int]int
	store  *Store
	talker *c09talker
	cfg    *Config
	last   map[int64]uint64
	tr     *vw.Trace
	cid    string
	snap   *c09snap
	nops   int
	fault  c09fault
	// fault bookkeeping for the operation being issued: index of the faultable call to fail (-1 none)
	nextFault, curFault int
	lastFired           bool
	lastKind            string
	quiet               bool                         // harness-internal probe: its Close does not count as a sync
	dirty               []map[core.TractID]*c09image // per physical disk: durable images of files with unsynced updates
	// model-free expectations about durability (see emitWith)
	syncedFile map[[2]int64]c09file // (disk, tract) -> file as of the last operation on it that returned success
	ackedVer   map[[2]int64]int64   // (disk, tract) -> highest acknowledged SetVersion since the copy was installed
	// copies that appeared on a disk without a successful Create/PullTract of that tract (leftovers)
	phantom map[[2]int64]bool
	// copies installed by a successful PullTract and not modified since: (disk, tract) -> file
	pulled map[[2]int64]c09file
}

var c09cfg = func() Config {
	c := DefaultTestConfig
	c.ScrubRate = 0
	c.Workers = 1
	c.DropCache = false
	return c
}()

const c09maxSlots = 8

var c09tracts = map[int64]core.TractID{
	0:   {Blob: core.BlobIDFromParts(1, 7), Index: 0},
	1:   {Blob: core.BlobIDFromParts(1, 7), Index: 1},
	2:   {Blob: core.BlobIDFromParts(3, 9), Index: 0},
	100: core.RSChunkID{Partition: core.PartitionID(2<<30 | 5), ID: 0x30001}.ToTractID(),
}
var c09wire = func() map[core.TractID]int64 {
	m := map[core.TractID]int64{}
	for k, v := range c09tracts {
		m[v] = k
	}
	return m
}()

func c09rleText(b []byte) string { return vw.Ints(vw.RLE(b)) }

func (w *c09world) newStore() {
	// NewStore seeds mod stamps from the clock; keep the seeds of successive stores far apart
	// compared with the handful of bumps a case performs, so "same stamp" means the same thing
	// in the model's (store, bumps) coordinates.
	time.Sleep(50 * time.Microsecond)
	w.store = NewStore(w.talker, NewMetadataStore(), w.cfg)
	w.slotd = map[int]int{}
	for i := range w.att {
		if w.att[i] != nil {
			w.att[i].Stop() // the old process is gone
		}
		w.att[i] = nil
	}
}

func (w *c09world) newDiskObject(pd int) Disk {
	if w.kind == 0 {
		return &c09disk{Disk: w.mem[pd], w: w, pd: pd}
	}
	m, err := NewManager(w.roots[pd], w.cfg)
	if err != nil {
		w.t.Fatalf("NewManager: %v", err)
	}
	return &c09disk{Disk: m, w: w, pd: pd, fwdStop: true}
}

func (w *c09world) scanDisk(pd int) map[int64]c09file {
	out := map[int64]c09file{}
	if w.kind == 0 {
		md := w.mem[pd]
		md.lock.Lock()
		defer md.lock.Unlock()
		for id, fd := range md.fds {
			if id.Blob == core.ZeroBlobID {
				continue
			}
			k, ok := c09wire[id]
			if !ok {
				k = 9999
			}
			f := c09file{rle: c09rleText(md.files[fd]), size: int64(len(md.files[fd]))}
			if xa, ok := md.xattrs[fd]; ok {
				if v, ok := xa[versionXattr]; ok && len(v) == 8 {
					f.hasver = true
					f.ver = int64(binary.LittleEndian.Uint64(v))
				}
			}
			out[k] = f
		}
		return out
	}
	dir := filepath.Join(w.roots[pd], tractDir)
	names, err := os.ReadDir(dir)
	if os.IsNotExist(err) {
		return out // never attached yet: NewManager creates the directory
	}
	if err != nil {
		w.t.Fatalf("scan %s: %v", dir, err)
	}
	for _, de := range names {
		n := de.Name()
		if strings.HasPrefix(n, "DELETED-AT-") {
			continue
		}
		id, e := core.ParseTractID(n)
		if e != nil || id.Blob == core.ZeroBlobID {
			continue
		}
		k, ok := c09wire[id]
		if !ok {
			k = 9999
		}
		cf, e2 := libdisk.NewChecksumFile(filepath.Join(dir, n), os.O_RDONLY)
		if e2 != nil {
			w.t.Fatalf("scan open %s: %v", n, e2)
		}
		var f c09file
		if v, e3 := cf.Getxattr(versionXattr); e3 == nil && len(v) == 8 {
			f.hasver = true
			f.ver = int64(binary.LittleEndian.Uint64(v))
		}
		sz, e4 := cf.Size()
		if e4 != nil {
			w.t.Fatalf("scan size %s: %v", n, e4)
		}
		buf := make([]byte, sz, sz+libdisk.ExtraRoom)
		if sz > 0 {
			if _, e5 := cf.ReadAt(buf, 0); e5 != nil {
				w.t.Fatalf("scan read %s: %v", n, e5)
			}
		}
		cf.Close()
		f.rle = c09rleText(buf)
		f.size = sz
		out[k] = f
	}
	return out
}

func (w *c09world) scan() *c09snap {
	s := &c09snap{table: map[int64]int{}, slotd: map[int]int{}}
	for i := 0; i < c09maxSlots; i++ {
		for _, id := range w.store.GetTractsByDisk(i) {
			k, ok := c09wire[id]
			if !ok {
				k = 9999
			}
			s.table[k] = i
		}
	}
	for k, v := range w.slotd {
		s.slotd[k] = v
	}
	for pd := 0; pd < w.nd; pd++ {
		s.disks = append(s.disks, w.scanDisk(pd))
	}
	return s
}

func c09sortedKeys(m map[int64]c09file) []int64 {
	ks := make([]int64, 0, len(m))
	for k := range m {
		ks = append(ks, k)
	}
	sort.Slice(ks, func(i, j int) bool { return ks[i] < ks[j] })
	return ks
}

func (s *c09snap) encode() []int64 {
	var l vw.L
	ts := make([]int64, 0, len(s.table))
	for k := range s.table {
		ts = append(ts, k)
	}
	sort.Slice(ts, func(i, j int) bool { return ts[i] < ts[j] })
	l.AddInt(len(ts))
	for _, k := range ts {
		l.Add(k, int64(s.table[k]))
	}
	for _, d := range s.disks {
		l.AddInt(len(d))
		for _, k := range c09sortedKeys(d) {
			f := d[k]
			l.Add(k)
			if f.hasver {
				l.Add(1, f.ver)
			} else {
				l.Add(0, 0)
			}
			for _, x := range strings.Fields(f.rle) {
				var v int64
				fmt.Sscan(x, &v)
				l.Add(v)
			}
		}
	}
	return l
}

func (w *c09world) viol(sig, what string, detail map[string]interface{}) {
	if detail == nil {
		detail = map[string]interface{}{}
	}
	detail["op_index"] = w.nops
	detail["kind"] = w.kind
	vw.Report(vw.Violation{Property: "C09", Signature: sig, What: what, Case: w.cid, Detail: detail})
}

// emit writes the op, the observation (result ++ scan) and advances the snapshot; returns (pre, post).
// arm the fault chosen by the generator (if any) for the Store call that follows
func (w *c09world) arm() {
	w.curFault = w.nextFault
	w.nextFault = -1
	if w.curFault >= 0 {
		w.fault = c09fault{armed: true, n: w.curFault}
	}
}

func (w *c09world) disarm() bool {
	fired := w.fault.fired
	if w.curFault >= 0 {
		vw.Stat(fmt.Sprintf("fault.fired=%v.kind=%s", fired, w.fault.kind), 1)
	}
	w.lastKind = w.fault.kind
	w.fault = c09fault{}
	w.lastFired = fired
	return fired
}

// opPowerLoss: every unsynced update of every disk is lost, the process restarts (no disk attached).
func (w *c09world) opPowerLoss() {
	if w.kind != 0 {
		return // real files: a power loss cannot be staged
	}
	for pd, m := range w.dirty {
		md := w.mem[pd]
		md.lock.Lock()
		for id, img := range m {
			fd, ok := md.fds[id]
			if !img.exists {
				if ok {
					delete(md.fds, id)
					delete(md.files, fd)
					delete(md.open, fd)
					delete(md.xattrs, fd)
				}
				continue
			}
			if !ok {
				continue // deleted durably in the meantime (Delete clears the entry, so this is unreachable)
			}
			md.files[fd] = append([]byte(nil), img.data...)
			if img.hasver {
				md.xattrs[fd] = map[string][]byte{versionXattr: append([]byte(nil), img.ver...)}
			} else {
				delete(md.xattrs, fd)
			}
		}
		md.lock.Unlock()
		w.dirty[pd] = map[core.TractID]*c09image{}
	}
	w.newStore()
	w.emit([]int64{16}, nil)
	vw.Stat("powerloss", 1)
}

func (w *c09world) emit(op []int64, res []int64) (*c09snap, *c09snap) {
	return w.emitWith(op, res, w.scan())
}

func (w *c09world) emitWith(op []int64, res []int64, post *c09snap) (*c09snap, *c09snap) {
	pre := w.snap
	fired := w.lastFired
	w.lastFired = false
	if w.curFault >= 0 {
		w.tr.Op(append([]int64{15, int64(w.curFault)}, op...)...)
	} else {
		w.tr.Op(op...)
	}
	w.curFault = -1
	w.durability(op, res, pre, post, fired)
	w.emitRest(op, res, pre, post, fired)
	return pre, post
}

// durability: the model-free rules about acknowledged operations and power loss.
//   - an operation of one tract (Create, Write, Read, Stat, SetVersion) in which a disk call failed must
//     not report success;
//   - after an operation on a tract returned success, the served copy of that tract is durable as it is:
//     a later power loss leaves exactly that file (until a later operation changes it);
//   - the version of a copy after a power loss is >= every SetVersion acknowledged for it since it was installed.
func (w *c09world) durability(op []int64, res []int64, pre, post *c09snap, fired bool) {
	k := op[0]
	ok := len(res) > 0 && (res[0] == 0 || (k == 3 && res[0] == int64(core.ErrEOF)))
	if fired && ok && k >= 1 && k <= 5 {
		w.viol(fmt.Sprintf("fault-swallowed-op%d", k),
			"a disk call of the operation failed (I/O error, failed fsync on close) but the operation reported success",
			map[string]interface{}{"tract": op[1], "fault_kind": w.lastKind})
	}
	if k == 16 {
		for key, want := range w.syncedFile {
			got, has := post.disks[key[0]][key[1]]
			if !has || got != want {
				w.viol("acked-op-lost-by-power-loss",
					"the last operation on this tract returned success, yet after a power loss its copy is not what that operation left",
					map[string]interface{}{"disk": key[0], "tract": key[1], "v_acked": want.ver, "v_now": got.ver, "exists": has})
			}
		}
		for key, v := range w.ackedVer {
			got, has := post.disks[key[0]][key[1]]
			if !has || !got.hasver || got.ver < v {
				w.viol("acked-bump-lost-by-power-loss",
					"a SetVersion was acknowledged, yet after a power loss the copy is missing or at a lower version (stale writers are accepted again)",
					map[string]interface{}{"disk": key[0], "tract": key[1], "v_acked": v, "v_now": got.ver, "exists": has})
			}
		}
		// what survived is durable
		for pd := range post.disks {
			for t, f := range post.disks[pd] {
				w.syncedFile[[2]int64{int64(pd), t}] = f
			}
		}
		return
	}
	// copies that stopped existing (GC, pull, conflict loss, failed install cleanup) carry no expectation
	for pd := range pre.disks {
		for t := range pre.disks[pd] {
			if _, is := post.disks[pd][t]; !is {
				delete(w.syncedFile, [2]int64{int64(pd), t})
				delete(w.ackedVer, [2]int64{int64(pd), t})
			}
		}
	}
	if k < 1 || k > 6 {
		return
	}
	if k == 6 && len(op) > 4 && op[4] == 0 {
		// PullTract with an empty source list returns NoError without making a single disk call: it neither
		// syncs nor changes anything, so it says nothing about durability
		return
	}
	t := op[1]
	if ok {
		if f, pd, served := post.cur(t); served {
			key := [2]int64{int64(pd), t}
			w.syncedFile[key] = f
			switch k {
			case 5:
				if op[2] > w.ackedVer[key] || w.ackedVer[key] == 0 {
					w.ackedVer[key] = op[2]
				}
			case 1, 6:
				if _, _, was := pre.cur(t); !was || k == 6 {
					delete(w.ackedVer, key) // a (re)installed copy starts a new history
				}
			}
		}
		return
	}
	// the operation failed: it may or may not have taken effect; keep the expectation only if nothing visible changed
	for pd := range post.disks {
		key := [2]int64{int64(pd), t}
		if want, had := w.syncedFile[key]; had {
			if got, has := post.disks[pd][t]; !has || got != want {
				delete(w.syncedFile, key)
			}
		}
	}
}

func (w *c09world) emitRest(op []int64, res []int64, pre, post *c09snap, fired bool) {
	var l vw.L
	l.Add(res...)
	l.Add(post.encode()...)
	w.tr.Obs(l...)
	w.snap = post
	w.nops++
	if w.nops%7 == 3 {
		vw.Sample(fmt.Sprintf("case %s op %d: > %s  < %s", w.cid, w.nops, vw.Ints(op), vw.Ints(l)))
	}
	// a copy comes into existence only through a successful Create / PullTract of that tract
	installOp := len(op) > 1 && (op[0] == 1 || op[0] == 6 || op[0] == 13 || op[0] == 14) && len(res) > 0 && res[0] == 0
	for pd := range post.disks {
		for k := range post.disks[pd] {
			if _, was := pre.disks[pd][k]; was {
				continue
			}
			if installOp && op[1] == k {
				delete(w.phantom, [2]int64{int64(pd), k})
				continue
			}
			w.phantom[[2]int64{int64(pd), k}] = true
			w.viol(fmt.Sprintf("copy-appeared-without-successful-install-op%d", op[0]),
				"a file for a tract exists on a disk although no successful Create/PullTract of that tract put it there (leftover of a failed install)",
				map[string]interface{}{"disk": pd, "tract": k, "version": post.disks[pd][k].ver, "result": res})
		}
		for k := range pre.disks[pd] {
			if _, is := post.disks[pd][k]; !is {
				delete(w.phantom, [2]int64{int64(pd), k})
				delete(w.pulled, [2]int64{int64(pd), k})
			}
		}
	}
	for k := range post.table {
		if f, pd, ok := post.cur(k); ok && w.phantom[[2]int64{int64(pd), k}] {
			w.viol("served-never-installed-copy",
				"the server serves a copy that no successful Create/PullTract installed (left behind by a failed one and picked up by a restart / re-attach)",
				map[string]interface{}{"disk": pd, "tract": k, "version": f.ver, "size": f.size})
		}
	}
	// a copy installed by PullTract keeps exactly the pulled bytes and version across restart / re-attach
	for key, f0 := range w.pulled {
		f1, ok := post.disks[key[0]][key[1]]
		if !ok || f1 == f0 {
			continue
		}
		if op[0] == 9 || op[0] == 10 || op[0] == 11 || op[0] == 16 {
			w.viol("pulled-copy-changed-across-restart", "a copy installed by PullTract no longer has the complete source bytes at the pulled version after a restart / re-attach",
				map[string]interface{}{"disk": key[0], "tract": key[1], "v_pulled": f0.ver, "v_now": f1.ver})
		}
		delete(w.pulled, key) // legitimately modified by a later write / bump / pull
	}
	// every copy's version is monotone along the history, whatever the operation was. Two exceptions, both
	// judged by other rules: a power loss may take back a bump that was never acknowledged (durability rules
	// above), and a PullTract whose look at the local copy hit an I/O error treats that copy as unreadable and
	// replaces it (store.go pullTractOnce: "if there was an error, just delete the file and overwrite it").
	for pd := range post.disks {
		if op[0] == 16 || (op[0] == 6 && fired) {
			break
		}
		for k, f0 := range pre.disks[pd] {
			f1, ok := post.disks[pd][k]
			if ok && f0.hasver && (!f1.hasver || f1.ver < f0.ver) {
				w.viol(fmt.Sprintf("mono-copy-version-decreased-op%d", op[0]),
					"the version of a stored copy decreased (or was lost) while the copy stayed in place",
					map[string]interface{}{"disk": pd, "tract": k, "before": f0.ver, "after": f1.ver, "hasver_after": f1.hasver})
			}
		}
	}
}

func c09same(a, b *c09snap, exceptStamp bool) bool {
	if len(a.table) != len(b.table) {
		return false
	}
	for k, v := range a.table {
		if v2, ok := b.table[k]; !ok || v2 != v {
			return false
		}
	}
	for pd := range a.disks {
		if len(a.disks[pd]) != len(b.disks[pd]) {
			return false
		}
		for k, f := range a.disks[pd] {
			if f2, ok := b.disks[pd][k]; !ok || f2 != f {
				return false
			}
		}
	}
	return true
}

// ---------- data ----------

func c09data(r *vw.Rng, big bool) []byte {
	var n int
	switch k := r.Intn(10); {
	case k < 1:
		n = 0
	case k < 7:
		n = r.Range(1, 40)
	default:
		n = r.Range(41, 3000)
	}
	if big {
		n = r.PickInt(core.TractLength, core.TractLength-1, core.TractLength/2, 65532, 65533, 1<<20)
	}
	b := make([]byte, n)
	// one to three runs, so the run-length form stays small
	runs := r.Range(1, 3)
	pos := 0
	for i := 0; i < runs && pos < n; i++ {
		end := n
		if i < runs-1 {
			end = pos + r.Intn(n-pos+1)
		}
		v := byte(r.Range(0, 5))
		if r.Chance(1, 3) {
			v = byte(r.Intn(256))
		}
		for j := pos; j < end; j++ {
			b[j] = v
		}
		pos = end
	}
	return b
}

func c09pickVersion(r *vw.Rng, cur int64, have bool) int64 {
	if !have {
		cur = 1
	}
	switch k := r.Intn(20); {
	case k < 9:
		return cur
	case k < 11:
		return cur + 1
	case k < 13:
		return cur - 1
	case k < 14:
		return cur + 2
	case k < 15:
		return cur - 2
	case k < 16:
		return 0
	case k < 17:
		return 1
	case k < 18:
		return -1
	case k < 19:
		return 1 << 31
	default:
		return 2
	}
}

func c09errcode(e error) int64 {
	switch e {
	case nil:
		return 0
	case ErrDiskExists:
		return -2
	case ErrDiskNotFound:
		return -3
	case ErrTooManyDisks:
		return -4
	}
	return -5
}

// ---------- operations ----------

func (w *c09world) opInit() {
	w.tr.Op(0, int64(w.kind), int64(w.nd))
	w.snap = w.scan()
	w.tr.Obs(w.snap.encode()...)
	w.nops++
}

func (w *c09world) attached() []int {
	var out []int
	for pd, d := range w.att {
		if d != nil {
			out = append(out, pd)
		}
	}
	return out
}

func (w *c09world) opAddDisk(pd int) int64 {
	d := w.newDiskObject(pd)
	already := w.att[pd] != nil
	err := w.store.AddDisk(d)
	code := c09errcode(err)
	if err == nil {
		w.att[pd] = d
		// which slot did it get: the lowest free one (that is what the harness itself did, not an observation)
		for i := 0; i < maxDisks; i++ {
			if _, used := w.slotd[i]; !used {
				w.slotd[i] = pd
				break
			}
		}
	} else {
		d.Stop()
	}
	pre, post := w.emit([]int64{10, int64(pd)}, []int64{code})
	vw.Stat(fmt.Sprintf("adddisk.rc=%d", code), 1)
	if already {
		if err != ErrDiskExists || !c09same(pre, post, false) {
			w.viol("adddisk-twice", "adding an attached disk again must fail with ErrDiskExists and change nothing", nil)
		}
		return code
	}
	if err != nil {
		return code
	}
	slot := -1
	for i, p := range w.slotd {
		if p == pd {
			slot = i
		}
	}
	// durability + conflict resolution, judged on the scans
	for k, fnew := range pre.disks[pd] {
		fold, opd, served := pre.cur(k)
		vn := int64(0)
		if fnew.hasver {
			vn = fnew.ver
		}
		if !served {
			// no other copy: the re-attached copy must be served as it is
			fc, cpd, ok := post.cur(k)
			if !ok || cpd != pd || fc != fnew || post.table[k] != slot {
				w.viol("durable-attach-copy-lost-or-changed",
					"a copy on a disk being attached (no other copy on the server) is not served with its version and content",
					map[string]interface{}{"tract": k, "disk": pd})
			}
			continue
		}
		vo := int64(0)
		if fold.hasver {
			vo = fold.ver
		}
		vw.Stat("conflicts", 1)
		_, stillOld := post.disks[opd][k]
		_, stillNew := post.disks[pd][k]
		fc, cpd, ok := post.cur(k)
		switch {
		case vo > vn:
			vw.Stat("conflict.old-wins", 1)
			if stillNew {
				w.viol("conflict-kept-older-copy", "after conflict resolution the strictly older copy still exists",
					map[string]interface{}{"tract": k, "older_disk": pd, "v_old_disk": vo, "v_new_disk": vn})
			}
			if !ok || cpd != opd || fc != fold {
				w.viol("conflict-newer-copy-not-served", "after conflict resolution the strictly newer copy is not the one served, unchanged",
					map[string]interface{}{"tract": k, "newer_disk": opd, "v_old_disk": vo, "v_new_disk": vn})
			}
		case vn > vo:
			vw.Stat("conflict.new-wins", 1)
			if stillOld {
				w.viol("conflict-kept-older-copy", "after conflict resolution the strictly older copy still exists",
					map[string]interface{}{"tract": k, "older_disk": opd, "v_old_disk": vo, "v_new_disk": vn})
			}
			if !ok || cpd != pd || fc != fnew {
				w.viol("conflict-newer-copy-not-served", "after conflict resolution the strictly newer copy is not the one served, unchanged",
					map[string]interface{}{"tract": k, "newer_disk": pd, "v_old_disk": vo, "v_new_disk": vn})
			}
		default:
			vw.Stat("conflict.tie", 1)
			if stillOld || stillNew || ok {
				w.viol("conflict-tie-not-dropped", "two copies with equal versions: both must be dropped and the tract not served",
					map[string]interface{}{"tract": k, "v": vo, "still_old": stillOld, "still_new": stillNew, "served": ok})
			}
		}
	}
	// nothing else may change: other disks' other files, other table entries
	for opd := range pre.disks {
		for k, f := range pre.disks[opd] {
			if _, onNew := pre.disks[pd][k]; onNew {
				continue
			}
			if f2, ok := post.disks[opd][k]; !ok || f2 != f {
				w.viol("adddisk-touched-unrelated-copy", "AddDisk changed a copy of a tract that is not on the attached disk",
					map[string]interface{}{"tract": k, "disk": opd})
			}
		}
	}
	return code
}

func (w *c09world) opRemoveDisk(pd int) {
	if w.att[pd] == nil {
		return // unknown root: the Go code indexes past the disk table (recorded observation, not generated)
	}
	root := w.att[pd].Status().Root
	err := w.store.RemoveDisk(root)
	if err == nil {
		w.att[pd] = nil
		for i, p := range w.slotd {
			if p == pd {
				delete(w.slotd, i)
			}
		}
	}
	pre, post := w.emit([]int64{11, int64(pd)}, []int64{c09errcode(err)})
	for d := range pre.disks {
		if len(pre.disks[d]) != len(post.disks[d]) {
			w.viol("durable-removedisk-changed-files", "RemoveDisk changed stored files", map[string]interface{}{"disk": d})
			continue
		}
		for k, f := range pre.disks[d] {
			if f2, ok := post.disks[d][k]; !ok || f2 != f {
				w.viol("durable-removedisk-changed-files", "RemoveDisk changed stored files", map[string]interface{}{"disk": d, "tract": k})
			}
		}
	}
}

func (w *c09world) opRestart() {
	w.newStore()
	pre, post := w.emit([]int64{9}, nil)
	for d := range pre.disks {
		for k, f := range pre.disks[d] {
			if f2, ok := post.disks[d][k]; !ok || f2 != f {
				w.viol("durable-restart-changed-files", "a restart changed stored files", map[string]interface{}{"disk": d, "tract": k})
			}
		}
	}
}

func (w *c09world) opSetAlloc(pd int, stop bool) {
	root := ""
	if w.att[pd] != nil {
		root = w.att[pd].Status().Root
	} else if w.kind == 0 {
		root = w.mem[pd].Status().Root
	} else {
		root = w.roots[pd]
	}
	e := w.store.SetControlFlags(root, core.DiskControlFlags{StopAllocating: stop})
	b := int64(0)
	if stop {
		b = 1
	}
	w.emit([]int64{12, int64(pd), b}, []int64{int64(e)})
}

func (w *c09world) tid(t int64) core.TractID { return c09tracts[t] }

// oracle: the slot pickDiskForNewTract chose, read off the table after the call
func c09oracle(pre, post *c09snap, t int64, ok bool) int64 {
	if !ok {
		return 0
	}
	if _, was := pre.table[t]; was {
		if _, is := post.table[t]; !is {
			return 0
		}
	}
	return int64(post.table[t])
}

func (w *c09world) opCreate(t int64, data []byte, off int64) {
	w.arm()
	e := w.store.Create(context.Background(), w.tid(t), data, off)
	fired := w.disarm()
	post := w.scan()
	orc := int64(0)
	if _, was := w.snap.table[t]; !was && e == core.NoError {
		orc = int64(post.table[t])
	}
	var op vw.L
	op.Add(1, t, off, orc)
	op.Add(vw.RLE(data)...)
	pre, _ := w.emitWith(op, []int64{int64(e)}, post)
	vw.Stat("create.rc="+e.String(), 1)
	if _, _, was := pre.cur(t); fired && !was && (e == core.NoError || !c09same(pre, post, true)) {
		w.viol("failed-create-left-state", "a Create of a new tract whose disk call failed reported success or changed stored state",
			map[string]interface{}{"tract": t, "fault": w.lastKind, "err": e.String()})
	}
	// Create on an existing tract is a write fenced at the initial version
	if f, _, ok := pre.cur(t); ok {
		iv := int64(1)
		if t >= 100 {
			iv = core.RSChunkVersion
		}
		w.fence("create-as-write", t, iv, e == core.NoError, f, pre, post, true, fired)
	}
}

// fence evaluates the fencing sentence for one read/write/stat-like call.
// With an injected fault (fired) the call may fail although the version is current; everything else stands.
func (w *c09world) fence(name string, t int64, v int64, succeeded bool, f c09file, pre, post *c09snap, mayWrite bool, fired bool) {
	current := f.hasver && f.ver == v
	if succeeded && !current {
		w.viol("fence-"+name+"-wrong-version-accepted", name+" succeeded although the named version is not the tract's current version",
			map[string]interface{}{"tract": t, "named": v, "current": f.ver, "hasver": f.hasver})
	}
	if !succeeded && current && !fired {
		w.viol("fence-"+name+"-current-version-rejected", name+" failed although the named version is the tract's current version",
			map[string]interface{}{"tract": t, "named": v})
	}
	if (!current || !mayWrite) && !c09same(pre, post, true) {
		w.viol("fence-"+name+"-changed-state", name+" with a wrong version (or a read-only call) changed stored state",
			map[string]interface{}{"tract": t, "named": v, "current": f.ver})
	}
}

func (w *c09world) opWrite(t int64, v int64, data []byte, off int64) {
	w.arm()
	e := w.store.Write(context.Background(), w.tid(t), int(v), data, off)
	fired := w.disarm()
	var op vw.L
	op.Add(2, t, v, off)
	op.Add(vw.RLE(data)...)
	pre, post := w.emit(op, []int64{int64(e)})
	vw.Stat("write.rc="+e.String(), 1)
	if f, _, ok := pre.cur(t); ok {
		w.fence("write", t, v, e == core.NoError, f, pre, post, true, fired)
		if e == core.NoError {
			if f2, _, ok2 := post.cur(t); !ok2 || !f2.hasver || f2.ver != f.ver {
				w.viol("write-changed-version", "a successful write changed the tract's version", map[string]interface{}{"tract": t})
			}
		}
	} else if e == core.NoError || !c09same(pre, post, true) {
		w.viol("fence-write-no-copy", "write to a tract that is not stored succeeded or changed state", map[string]interface{}{"tract": t})
	}
}

func (w *c09world) opRead(t int64, v int64, length int, off int64) {
	w.arm()
	b, e := w.store.Read(context.Background(), w.tid(t), int(v), length, off)
	fired := w.disarm()
	var res vw.L
	res.Add(int64(e))
	res.Add(vw.RLE(b)...)
	pre, post := w.emit([]int64{3, t, v, int64(length), off}, res)
	vw.Stat("read.rc="+e.String(), 1)
	ok := e == core.NoError || e == core.ErrEOF
	if f, _, have := pre.cur(t); have {
		w.fence("read", t, v, ok, f, pre, post, false, fired)
		if !ok && len(b) != 0 {
			w.viol("fence-read-data-with-error", "a rejected read returned bytes", map[string]interface{}{"tract": t})
		}
	} else if ok || !c09same(pre, post, true) {
		w.viol("fence-read-no-copy", "read of a tract that is not stored succeeded or changed state", map[string]interface{}{"tract": t})
	}
}

func (w *c09world) opStat(t int64, v int64) {
	w.arm()
	sz, st, e := w.store.Stat(context.Background(), w.tid(t), int(v))
	fired := w.disarm()
	chg := int64(0)
	if e == core.NoError {
		if old, ok := w.last[t]; !ok {
			chg = 2
		} else if old != st {
			chg = 1
		}
		w.last[t] = st
	}
	pre, post := w.emit([]int64{4, t, v}, []int64{int64(e), sz, chg})
	vw.Stat("stat.rc="+e.String(), 1)
	if f, _, have := pre.cur(t); have {
		w.fence("stat", t, v, e == core.NoError, f, pre, post, false, fired)
		if e == core.NoError && sz != f.size {
			w.viol("stat-wrong-size", "stat returned a size different from the stored content's", map[string]interface{}{"tract": t})
		}
	} else if e == core.NoError || !c09same(pre, post, true) {
		w.viol("fence-stat-no-copy", "stat of a tract that is not stored succeeded or changed state", map[string]interface{}{"tract": t})
	}
}

func (w *c09world) opSetVersion(t int64, v int64, ck int) {
	var cond uint64
	if ck == 1 {
		if st, ok := w.last[t]; ok {
			cond = st
		} else {
			ck = 2
		}
	}
	if ck == 2 {
		cond = 12345
	}
	stale := false
	if cond != 0 {
		// read-only probe of the current stamp (Stat has no side effects); not part of the trace
		if cv, ok := w.curVersion(t); ok {
			w.quiet = true // the probe's Close must not count as an fsync of the model's history
			if _, now, pe := w.store.Stat(context.Background(), w.tid(t), int(cv)); pe == core.NoError {
				stale = now != cond
			}
			w.quiet = false
		}
	}
	w.arm()
	fv, e := w.store.SetVersion(w.tid(t), int(v), cond)
	fired := w.disarm()
	pre, post := w.emit([]int64{5, t, v, int64(ck)}, []int64{int64(e), int64(fv)})
	vw.Stat("setversion.rc="+e.String(), 1)
	if stale {
		vw.Stat("setversion.stale-condition", 1)
		if e == core.NoError || !c09same(pre, post, true) {
			w.viol("setversion-stale-condition-accepted", "a conditional SetVersion whose stamp no longer matches succeeded or changed state",
				map[string]interface{}{"tract": t, "requested": v})
		}
	}
	f0, _, had := pre.cur(t)
	f1, _, has := post.cur(t)
	if had != has {
		w.viol("setversion-created-or-removed", "SetVersion created or removed a copy", map[string]interface{}{"tract": t})
		return
	}
	if !had {
		if e == core.NoError {
			w.viol("setversion-no-copy-ok", "SetVersion succeeded on a tract that is not stored", map[string]interface{}{"tract": t})
		}
		return
	}
	if f0.hasver && f1.hasver {
		if f1.ver != f0.ver && !(f1.ver == f0.ver+1 && f1.ver == v && (e == core.NoError || fired)) {
			w.viol("setversion-not-one-step", "SetVersion changed the version other than from v-1 to the requested v",
				map[string]interface{}{"tract": t, "before": f0.ver, "after": f1.ver, "requested": v})
		}
		if e == core.NoError && f1.ver < v {
			w.viol("setversion-ack-not-persisted", "SetVersion acknowledged v but the stored version is lower",
				map[string]interface{}{"tract": t, "stored": f1.ver, "requested": v})
		}
		if e == core.NoError && v > f0.ver+1 {
			w.viol("setversion-skipped-step", "SetVersion accepted a version more than one above the current one",
				map[string]interface{}{"tract": t, "before": f0.ver, "requested": v})
		}
		if e != core.NoError && f1.ver != f0.ver && !fired {
			w.viol("setversion-failed-but-changed", "SetVersion failed but changed the version", map[string]interface{}{"tract": t})
		}
		if v > 1 && v <= f0.ver+1 && ck == 0 && e != core.NoError && !fired {
			w.viol("setversion-valid-rejected", "an unconditional SetVersion to at most current+1 was rejected",
				map[string]interface{}{"tract": t, "before": f0.ver, "requested": v, "err": e.String()})
		}
	}
	if f1.rle != f0.rle {
		w.viol("setversion-changed-content", "SetVersion changed the content", map[string]interface{}{"tract": t})
	}
}

type c09src struct {
	data []byte
	err  core.Error
}

func (w *c09world) opPull(t int64, v int64, srcs []c09src) {
	w.talker.replies = map[string]c09reply{}
	w.talker.calls = nil
	var addrs []string
	for i, s := range srcs {
		a := fmt.Sprintf("src%d", i)
		addrs = append(addrs, a)
		w.talker.replies[a] = c09reply{b: s.data, err: s.err}
	}
	w.arm()
	e := w.store.PullTract(context.Background(), addrs, w.tid(t), int(v))
	fired := w.disarm()
	post := w.scan()
	orc := int64(0)
	if e == core.NoError && len(srcs) > 0 {
		orc = int64(post.table[t])
	}
	var op vw.L
	op.Add(6, t, v, orc)
	op.AddInt(len(srcs))
	for _, s := range srcs {
		op.Add(int64(s.err))
		op.Add(vw.RLE(s.data)...)
	}
	pre, _ := w.emitWith(op, []int64{int64(e)}, post)
	vw.Stat("pull.rc="+e.String(), 1)
	f0, _, had := pre.cur(t)
	f1, pd1, has := post.cur(t)
	if e == core.NoError && len(srcs) > 0 && has {
		w.pulled[[2]int64{int64(pd1), t}] = f1
	}
	if e != core.NoError {
		// a failed PullTract leaves no copy of the tract at the attempted version anywhere it was not before
		for pd := range post.disks {
			if f, ok := post.disks[pd][t]; ok && f.hasver && f.ver == v {
				if g, was := pre.disks[pd][t]; !was || g != f {
					w.viol("failed-pull-left-copy-at-attempted-version", "a failed PullTract left a copy stamped with the attempted version on disk",
						map[string]interface{}{"tract": t, "disk": pd, "version": v, "size": f.size, "err": e.String()})
				}
			}
		}
	}
	if had && f0.hasver && f0.ver > v && !fired {
		vw.Stat("pull.onto-newer", 1)
		if (e == core.NoError && len(srcs) > 0) || !c09same(pre, post, false) {
			w.viol("pull-overwrote-newer-copy", "PullTract at a version below the stored one succeeded or changed state",
				map[string]interface{}{"tract": t, "stored": f0.ver, "pulled": v})
		}
		return
	}
	if e == core.NoError && len(srcs) > 0 {
		okContent := false
		for _, s := range srcs {
			if (s.err == core.NoError || s.err == core.ErrEOF) && c09rleText(s.data) == f1.rle {
				okContent = true
			}
		}
		if !has || !f1.hasver || f1.ver != v || !okContent {
			w.viol("pull-incomplete-or-wrong-copy", "a successful PullTract did not install the complete remote content at the requested version",
				map[string]interface{}{"tract": t, "requested": v, "has": has, "stored": f1.ver})
		}
	}
	if has && had && f1.hasver && f0.hasver && f1.ver > f0.ver && !(e == core.NoError && f1.ver == v) {
		w.viol("pull-raised-version-without-install", "PullTract raised the version without installing a copy at the requested version",
			map[string]interface{}{"tract": t, "before": f0.ver, "after": f1.ver, "requested": v})
	}
}

func (w *c09world) opGC(old [][2]int64, gone []int64) {
	var o []core.TractState
	var op vw.L
	op.Add(7)
	op.AddInt(len(old))
	for _, x := range old {
		o = append(o, core.TractState{ID: w.tid(x[0]), Version: int(x[1])})
		op.Add(x[0], x[1])
	}
	var g []core.TractID
	op.AddInt(len(gone))
	for _, x := range gone {
		g = append(g, w.tid(x))
		op.Add(x)
	}
	w.arm()
	w.store.GCTracts(o, g)
	fired := w.disarm()
	pre, post := w.emit(op, nil)
	isGone := map[int64]bool{}
	for _, x := range gone {
		isGone[x] = true
	}
	oldv := map[int64]int64{}
	for _, x := range old {
		oldv[x[0]] = x[1]
	}
	for k := range c09tracts {
		f0, pd, had := pre.cur(k)
		if !had {
			continue
		}
		_, has := post.disks[pd][k]
		_, inTable := post.table[k]
		v, inOld := oldv[k]
		switch {
		case isGone[k]:
			if has || inTable {
				w.viol("gc-gone-kept", "a tract named as gone is still stored", map[string]interface{}{"tract": k})
			}
		case inOld && f0.hasver && f0.ver <= v:
			vw.Stat("gc.deleted", 1)
			if (has || inTable) && !fired {
				w.viol("gc-old-kept", "GC instruction at or above the stored version did not delete the copy",
					map[string]interface{}{"tract": k, "stored": f0.ver, "instruction": v})
			}
		default:
			if inOld {
				vw.Stat("gc.kept-newer", 1)
			}
			if !has || !inTable || post.disks[pd][k] != f0 {
				w.viol("gc-deleted-newer-or-unnamed", "GC removed or changed a copy that is newer than the instruction (or not named at all)",
					map[string]interface{}{"tract": k, "stored": f0.ver, "instruction": v, "named": inOld})
			}
		}
	}
}

func (w *c09world) opCheck(ts [][2]int64) {
	var in []core.TractState
	var op vw.L
	op.Add(8)
	op.AddInt(len(ts))
	for _, x := range ts {
		in = append(in, core.TractState{ID: w.tid(x[0]), Version: int(x[1])})
		op.Add(x[0], x[1])
	}
	w.arm()
	missing := w.store.Check(in)
	w.disarm()
	var res vw.L
	res.AddInt(len(missing))
	for _, m := range missing {
		res.Add(c09wire[m.ID], int64(m.Version))
	}
	pre, post := w.emit(op, res)
	if !c09same(pre, post, true) {
		w.viol("check-changed-state", "Check changed stored state", nil)
	}
}

// ---------- generator ----------

func (w *c09world) randomTract(r *vw.Rng) int64 {
	var served []int64
	for _, k := range []int64{0, 1, 2, 100} {
		if _, _, ok := w.snap.cur(k); ok {
			served = append(served, k)
		}
	}
	if len(served) > 0 && r.Chance(4, 5) {
		return served[r.Intn(len(served))]
	}
	return r.PickI64(0, 0, 0, 1, 1, 2, 100)
}

func c09goodSrc(r *vw.Rng) []c09src {
	return []c09src{{data: c09data(r, false), err: core.NoError}}
}

// conflictMacro builds two copies of one tract on two disks with a chosen version relation and
// lets AddDisk find them.
func (w *c09world) conflictMacro(r *vw.Rng) {
	if len(w.attached()) < 2 {
		return
	}
	t := r.PickI64(0, 0, 1, 2, 100)
	if _, _, ok := w.snap.cur(t); !ok {
		if r.Chance(1, 2) || t >= 100 {
			w.opCreate(t, c09data(r, false), 0)
		} else {
			w.opPull(t, int64(r.Range(1, 4)), c09goodSrc(r))
		}
	}
	f, pdA, ok := w.snap.cur(t)
	if !ok || !f.hasver {
		return
	}
	if r.Chance(1, 2) {
		w.opSetVersion(t, f.ver+1, 0)
		f, pdA, _ = w.snap.cur(t)
	}
	w.opRemoveDisk(pdA)
	if len(w.attached()) == 0 {
		return
	}
	target := f.ver + int64(r.PickInt(-1, 0, 0, 1, 1))
	switch r.Intn(3) {
	case 0:
		w.opPull(t, target, c09goodSrc(r))
	case 1:
		w.opCreate(t, c09data(r, false), 0)
		for i := 0; i < 3; i++ {
			if c, h := w.curVersion(t); h && c < target && c >= 1 {
				w.opSetVersion(t, c+1, 0)
			}
		}
	default:
		w.opCreate(t, c09data(r, false), 0)
	}
	if r.Chance(1, 3) {
		if c, h := w.curVersion(t); h {
			w.opWrite(t, c, c09data(r, false), 0)
		}
	}
	if r.Chance(1, 4) {
		w.fullRestart(r)
	}
	w.opAddDisk(pdA)
	vw.Stat("macro.conflict", 1)
}

func (w *c09world) curVersion(t int64) (int64, bool) {
	f, _, ok := w.snap.cur(t)
	if !ok || !f.hasver {
		return 0, false
	}
	return f.ver, true
}

func (w *c09world) fullRestart(r *vw.Rng) {
	before := w.snap
	att := w.attached()
	w.opRestart()
	for _, i := range r.Perm(len(att)) {
		w.opAddDisk(att[i])
	}
	// the server's view after re-attaching the same disks equals the view before
	for k := range c09tracts {
		f0, pd0, had := before.cur(k)
		f1, pd1, has := w.snap.cur(k)
		if had != has || (had && (f0 != f1 || pd0 != pd1)) {
			w.viol("durable-restart-view-changed", "after a restart with the same disks a tract's served version/content changed",
				map[string]interface{}{"tract": k, "had": had, "has": has, "v_before": f0.ver, "v_after": f1.ver})
		}
	}
	vw.Stat("macro.restart", 1)
}

func (w *c09world) reattach(r *vw.Rng, pd int) {
	before := w.snap
	w.opRemoveDisk(pd)
	mid := w.snap
	for k := range c09tracts {
		_, pd0, had := before.cur(k)
		_, _, has := mid.cur(k)
		if had && pd0 != pd && !has {
			w.viol("removedisk-dropped-other-disk-tract", "RemoveDisk stopped serving a tract stored on another disk", map[string]interface{}{"tract": k})
		}
		if had && pd0 == pd && has {
			w.viol("removedisk-still-serving", "a tract on the removed disk is still served", map[string]interface{}{"tract": k})
		}
	}
	w.opAddDisk(pd)
	for k := range c09tracts {
		f0, pd0, had := before.cur(k)
		f1, pd1, has := w.snap.cur(k)
		if had != has || (had && (f0 != f1 || pd0 != pd1)) {
			w.viol("durable-reattach-view-changed", "after removing and re-attaching a disk a tract's served version/content changed",
				map[string]interface{}{"tract": k, "had": had, "has": has, "v_before": f0.ver, "v_after": f1.ver})
		}
	}
	vw.Stat("macro.reattach", 1)
}

// powerLossMacro: power loss, then the same disks come back (any order). For real files (Manager) a power
// loss cannot be staged: a plain restart instead.
func (w *c09world) powerLossMacro(r *vw.Rng) {
	if w.kind != 0 {
		w.fullRestart(r)
		return
	}
	att := w.attached()
	w.opPowerLoss()
	for _, i := range r.Perm(len(att)) {
		w.opAddDisk(att[i])
	}
	vw.Stat("macro.powerloss", 1)
}

func c09faultIndex(r *vw.Rng) int { return r.PickInt(0, 0, 1, 1, 2, 2, 2, 3, 3, 4, 5, 7) }

// faultMacro: one operation with a failing disk call (any Open / Setxattr / Write / Close it makes), then
// a power loss or restart or re-attach, sometimes after a successful retry.
func (w *c09world) faultMacro(r *vw.Rng) {
	if len(w.attached()) == 0 {
		return
	}
	t := w.randomTract(r)
	cur, have := w.curVersion(t)
	v := int64(r.Range(1, 5))
	if have {
		v = cur + int64(r.PickInt(0, 1, 1, 2))
	}
	if t >= 100 && r.Chance(1, 2) {
		v = core.RSChunkVersion
	}
	mkSrcs := func() []c09src {
		n := r.PickInt(1, 1, 2, 3)
		var srcs []c09src
		for i := 0; i < n; i++ {
			s := c09src{data: c09data(r, false), err: core.NoError}
			if len(s.data) < 4 {
				s.data = append(s.data, 9, 9, 9, 9)
			}
			if i == 0 && n > 1 && r.Chance(1, 4) {
				s = c09src{err: core.ErrRPC}
			}
			srcs = append(srcs, s)
		}
		return srcs
	}
	kind := r.Intn(10)
	w.nextFault = c09faultIndex(r)
	switch {
	case kind < 4 && have: // the fence: SetVersion to cur+1, plain or conditional
		ck := r.PickInt(0, 0, 1)
		w.opSetVersion(t, cur+1, ck)
	case kind < 6 && have:
		wd := c09data(r, false)
		woff := int64(r.Intn(8))
		if len(wd) == 0 {
			woff = 0 // a zero-length write beyond EOF is C08's F19 (MemDisk pads, ChecksumFile no longer does): not in this alphabet
		}
		w.opWrite(t, cur, wd, woff)
	case kind < 7:
		if _, _, ok := w.snap.cur(t); ok && r.Chance(2, 3) {
			w.nextFault = -1
			w.opGC(nil, []int64{t})
			w.nextFault = c09faultIndex(r)
		}
		w.opCreate(t, c09data(r, false), 0)
	default:
		w.opPull(t, v, mkSrcs())
	}
	w.nextFault = -1
	switch r.Intn(6) {
	case 0, 1:
		w.powerLossMacro(r)
	case 2:
		w.fullRestart(r)
	case 3:
		if att := w.attached(); len(att) > 0 {
			w.reattach(r, att[r.Intn(len(att))])
		}
	case 4: // successful retry, then the power fails
		if c, h := w.curVersion(t); h && kind < 4 {
			w.opSetVersion(t, c+1, 0)
		} else {
			w.opPull(t, v, c09goodSrc(r))
		}
		w.powerLossMacro(r)
	}
	vw.Stat("macro.fault", 1)
}

func (w *c09world) randomOp(r *vw.Rng, big bool) {
	t := w.randomTract(r)
	cur, have := w.curVersion(t)
	f, _, served := w.snap.cur(t)
	size := int64(0)
	if served {
		size = f.size
	}
	att := w.attached()
	if r.Chance(1, 12) {
		w.conflictMacro(r)
		return
	}
	if r.Chance(1, 10) {
		w.faultMacro(r)
		return
	}
	if r.Chance(1, 16) {
		w.powerLossMacro(r)
		return
	}
	w.nextFault = -1
	if r.Chance(1, 7) {
		w.nextFault = c09faultIndex(r) // any disk call of the next Store operation may fail
	}
	defer func() { w.nextFault = -1 }()
	switch k := r.Intn(100); {
	case k < 12:
		off := int64(0)
		if r.Chance(1, 4) {
			off = int64(r.Range(1, 30))
		}
		d := c09data(r, big && r.Chance(1, 2))
		if len(d) == 0 {
			off = 0
		}
		if off+int64(len(d)) > core.TractLength {
			off = 0
		}
		w.opCreate(t, d, off)
	case k < 30:
		d := c09data(r, big && r.Chance(1, 3))
		off := int64(0)
		switch j := r.Intn(6); {
		case j < 2:
			off = 0
		case j < 4 && size > 0:
			off = int64(r.Intn(int(size) + 1))
		case j < 5:
			off = size
		default:
			off = size + int64(r.Range(1, 20))
		}
		if len(d) == 0 && off > size {
			off = size // a zero-length write beyond EOF is C08's F19; keep it out of this alphabet
		}
		if off+int64(len(d)) > core.TractLength {
			off = 0
		}
		w.opWrite(t, c09pickVersion(r, cur, have), d, off)
	case k < 42:
		length := r.PickInt(0, 1, 5, 40, 100, 5000)
		if big && r.Chance(1, 3) {
			length = core.TractLength
		}
		off := int64(0)
		if size > 0 && r.Chance(1, 2) {
			off = int64(r.Intn(int(size) + 1))
		}
		if w.kind == 1 && r.Chance(1, 8) {
			off = size + int64(r.Range(1, 10)) // MemDisk panics on an offset beyond EOF (test double); Manager does not
		}
		w.opRead(t, c09pickVersion(r, cur, have), length, off)
	case k < 52:
		w.opStat(t, c09pickVersion(r, cur, have))
	case k < 66:
		ck := r.PickInt(0, 0, 0, 1, 1, 2)
		v := c09pickVersion(r, cur, have)
		if r.Chance(1, 2) {
			v = cur + 1
		}
		w.opSetVersion(t, v, ck)
	case k < 76:
		n := r.PickInt(0, 1, 1, 1, 2, 2, 3)
		var srcs []c09src
		for i := 0; i < n; i++ {
			s := c09src{data: c09data(r, big && r.Chance(1, 4)), err: core.NoError}
			switch j := r.Intn(10); {
			case j < 2:
				s.err = core.ErrEOF
			case j < 4:
				s.err = core.ErrRPC
				s.data = nil
			case j < 5:
				s.err = core.ErrVersionMismatch
				s.data = nil
			}
			srcs = append(srcs, s)
		}
		w.opPull(t, c09pickVersion(r, cur, have), srcs)
	case k < 82:
		var old [][2]int64
		var gone []int64
		for _, x := range []int64{0, 1, 2, 100} {
			c, h := w.curVersion(x)
			if r.Chance(1, 3) {
				old = append(old, [2]int64{x, c09pickVersion(r, c, h)})
			}
			if r.Chance(1, 8) {
				gone = append(gone, x)
			}
		}
		w.opGC(old, gone)
	case k < 86:
		var ts [][2]int64
		for _, x := range []int64{0, 1, 2, 100} {
			c, h := w.curVersion(x)
			if r.Chance(1, 2) {
				ts = append(ts, [2]int64{x, c09pickVersion(r, c, h)})
			}
		}
		w.opCheck(ts)
	case k < 89:
		w.fullRestart(r)
	case k < 92:
		if len(att) > 0 {
			w.reattach(r, att[r.Intn(len(att))])
		}
	case k < 95:
		if len(att) > 0 {
			w.opRemoveDisk(att[r.Intn(len(att))])
		}
	case k < 98:
		pd := r.Intn(w.nd)
		for i := 0; i < w.nd; i++ { // prefer a detached disk
			if w.att[(pd+i)%w.nd] == nil && r.Chance(4, 5) {
				pd = (pd + i) % w.nd
				break
			}
		}
		w.opAddDisk(pd)
	case k < 99:
		w.opRestart()
	default:
		w.opSetAlloc(r.Intn(w.nd), r.Bool())
	}
}

func c09runCase(t *testing.T, tr *vw.Trace, root *vw.Rng, ci int, kind int, big bool) {
	r := root.Fork(uint64(ci))
	w := &c09world{t: t, kind: kind, tr: tr, cid: fmt.Sprint(ci), last: map[int64]uint64{}, talker: &c09talker{},
		phantom: map[[2]int64]bool{}, pulled: map[[2]int64]c09file{},
		syncedFile: map[[2]int64]c09file{}, ackedVer: map[[2]int64]int64{}, nextFault: -1, curFault: -1}
	cfg := c09cfg
	w.cfg = &cfg
	w.nd = r.PickInt(1, 2, 2, 2, 3, 3)
	w.att = make([]Disk, w.nd)
	w.dirty = make([]map[core.TractID]*c09image, w.nd)
	for i := 0; i < w.nd; i++ {
		w.dirty[i] = map[core.TractID]*c09image{}
		if kind == 0 {
			w.mem = append(w.mem, NewMemDisk())
		} else {
			w.roots = append(w.roots, t.TempDir())
		}
	}
	tr.Case(w.cid)
	w.newStore()
	w.opInit()
	for _, pd := range r.Perm(w.nd) {
		if r.Chance(9, 10) {
			w.opAddDisk(pd)
		}
	}
	nops := r.Range(10, 28)
	if big {
		nops = r.Range(6, 12)
	}
	for i := 0; i < nops; i++ {
		w.randomOp(r, big)
	}
	// always end with a power loss (MemDisk) and a restart over the same disks: what was acknowledged must still be there
	w.powerLossMacro(r)
	w.fullRestart(r)
	vw.Distinct(fmt.Sprintf("%d/%d/%v", kind, w.nd, w.snap.encode()))
	// release memory / workers
	for pd, d := range w.att {
		if d != nil {
			d.Stop()
		}
		if kind == 0 {
			w.mem[pd].Stop()
		}
	}
}

func TestVerifC09(t *testing.T) {
	if !vw.Enabled() {
		t.Skip("verification harness: run through /verif/bin/check")
	}
	root := vw.NewRng(vw.Seed())
	tr := vw.OpenTrace("C09.trace")
	defer tr.Close()
	defer vw.Finish("C09")
	nmem := vw.Scale(500, 12000)
	nmgr := vw.Scale(60, 2500)
	nbig := vw.Scale(4, 60)
	ci := 0
	run := func(n, kind int, big bool) {
		for i := 0; i < n; i++ {
			if vw.CaseSelected(fmt.Sprint(ci)) {
				c09runCase(t, tr, root, ci, kind, big)
			}
			ci++
		}
	}
	run(nmem, 0, false)
	run(nmgr, 1, false)
	run(nbig/2, 0, true)
	run(nbig-nbig/2, 1, true)
	vw.Stat("cases", int64(ci))
}
