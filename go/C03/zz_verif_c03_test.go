package raft

// C03 harness (injected by `go test -overlay`; lives in /verif).
//
// Trace validation of real histories: every case is one real 3-5 node Raft group in its own child process
// (NewRaft on the repo's mem transport wrapped by the repo's msgDropper, msgDuplicator and msgReorder; partitions
// are made with msgDropper.Set like the package's own tests), 4-8 client goroutines issue Propose,
// ProposeIfTerm and VerifyRead+local read against a "revealing" FSM while a nemesis goroutine isolates
// leaders, partitions, heals and degrades links. Recorded per operation: a stamp of a global atomic counter
// taken BEFORE the call and one taken AFTER the result was observed, the result or the error class; per
// replica: the FSM state at the end of every segment of its life (before every snapshot restore and at the end).
// The history is written to the trace and judged by the extracted Coq checker (check_code); the same clauses
// are evaluated here in Go as monitors, independently of the model.

import (
	"bytes"
	"encoding/binary"
	"encoding/json"
	"flag"
	"fmt"
	"io"
	"io/ioutil"
	"os"
	"os/exec"
	"path/filepath"
	"sort"
	"strconv"
	"strings"
	"sync"
	"sync/atomic"
	"testing"
	"time"

	vw "github.com/westerndigitalcorporation/blb/pkg/verifwire"
)

// ---------------------------------------------------------------- the revealing FSM

type c03Res struct {
	n, prev int64
	term    uint64
	index   uint64
}

type c03Apply struct {
	index, term uint64
	id          int64
} // id < 0: restore marker (index = snapshot last index)

type c03FSM struct {
	mu       sync.Mutex
	ids      []int64
	terms    []uint64
	segs     [][]int64 // (id, term)* of the state at the end of every finished segment
	applies  []c03Apply
	isLeader bool
	term     uint64
	leads    int
	restores int
	slow     int // microseconds of artificial apply delay on non-leaders (lagging followers => snapshots)
}

func (f *c03FSM) Apply(ent Entry) interface{} {
	id := int64(binary.LittleEndian.Uint64(ent.Cmd))
	f.mu.Lock()
	var prev int64
	if n := len(f.ids); n > 0 {
		prev = f.ids[n-1]
	}
	f.ids = append(f.ids, id)
	f.terms = append(f.terms, ent.Term)
	f.applies = append(f.applies, c03Apply{ent.Index, ent.Term, id})
	res := c03Res{n: int64(len(f.ids)), prev: prev, term: ent.Term, index: ent.Index}
	lead, slow := f.isLeader, f.slow
	f.mu.Unlock()
	if !lead && slow > 0 {
		time.Sleep(time.Duration(slow) * time.Microsecond)
	}
	return res
}

func (f *c03FSM) OnLeadershipChange(b bool, term uint64, leader string) {
	f.mu.Lock()
	if b && !f.isLeader {
		f.leads++
	}
	f.isLeader = b
	f.term = term
	f.mu.Unlock()
}

func (f *c03FSM) OnMembershipChange(membership Membership) {}

type c03Snap struct{ data []byte }

func (s *c03Snap) Save(w io.Writer) error { _, err := w.Write(s.data); return err }
func (s *c03Snap) Release()               {}

func (f *c03FSM) Snapshot() (Snapshoter, error) {
	f.mu.Lock()
	defer f.mu.Unlock()
	buf := make([]byte, 16*len(f.ids))
	for i := range f.ids {
		binary.LittleEndian.PutUint64(buf[16*i:], uint64(f.ids[i]))
		binary.LittleEndian.PutUint64(buf[16*i+8:], f.terms[i])
	}
	return &c03Snap{data: buf}, nil
}

func (f *c03FSM) flat() []int64 {
	out := make([]int64, 0, 2*len(f.ids))
	for i := range f.ids {
		out = append(out, f.ids[i], int64(f.terms[i]))
	}
	return out
}

func (f *c03FSM) SnapshotRestore(reader io.Reader, lastIndex, lastTerm uint64) {
	data, _ := ioutil.ReadAll(reader)
	f.mu.Lock()
	defer f.mu.Unlock()
	f.segs = append(f.segs, f.flat())
	f.ids = f.ids[:0:0]
	f.terms = f.terms[:0:0]
	for i := 0; i+16 <= len(data); i += 16 {
		f.ids = append(f.ids, int64(binary.LittleEndian.Uint64(data[i:])))
		f.terms = append(f.terms, binary.LittleEndian.Uint64(data[i+8:]))
	}
	f.applies = append(f.applies, c03Apply{lastIndex, lastTerm, -1})
	f.restores++
}

func (f *c03FSM) read() (n, last int64) {
	f.mu.Lock()
	defer f.mu.Unlock()
	n = int64(len(f.ids))
	if n > 0 {
		last = f.ids[n-1]
	}
	return
}

func (f *c03FSM) leaderTerm() (bool, uint64) {
	f.mu.Lock()
	defer f.mu.Unlock()
	return f.isLeader, f.term
}

// ---------------------------------------------------------------- recorded operations

const (
	c03Propose = 1
	c03IfTerm  = 2
	c03Read    = 3

	c03Ok    = 1
	c03Def   = 2
	c03Indef = 3
)

type c03Op struct {
	ID      int64  `json:"id"`
	Kind    int    `json:"k"`
	Node    int    `json:"n"`
	Inv     int64  `json:"i"`
	Ret     int64  `json:"r"`
	Out     int    `json:"o"`
	R1      int64  `json:"r1"`
	R2      int64  `json:"r2"`
	R3      int64  `json:"r3"`
	ReqTerm int64  `json:"t"`
	Err     string `json:"e,omitempty"`
	done    int32
}

type c03Violation struct {
	Sig    string                 `json:"sig"`
	What   string                 `json:"what"`
	Detail map[string]interface{} `json:"detail"`
}

type c03Result struct {
	Case   string           `json:"case"`
	Lines  [][]int64        `json:"lines"`
	Obs    [][]int64        `json:"obs"` // nil for a history case: every line is answered 0 and a 777 line is added
	Viol   []c03Violation   `json:"viol"`
	Stats  map[string]int64 `json:"stats"`
	Finger string           `json:"finger"`
	Sample string           `json:"sample"`
}

// ---------------------------------------------------------------- one cluster

type c03Cfg struct {
	n, clients                 int
	tick                       time.Duration
	follower, candidate, hb    uint32
	elecRange, stepdown        uint32
	maxEnts, batch, maxPending uint32
	snapThreshold, logAfter    uint64
	dropP, dupP, reorderP      float32
	reorderMax                 time.Duration
	dur                        time.Duration
	slowApply                  int
	readPct, ifTermPct         int
	flood                      bool
}

func c03GenCfg(r *vw.Rng) c03Cfg {
	var c c03Cfg
	c.n = r.PickInt(3, 3, 3, 4, 5, 5)
	c.clients = r.Range(4, 8)
	c.tick = time.Duration(r.PickInt(1, 2, 2, 3)) * time.Millisecond
	c.follower = uint32(r.Range(8, 14))
	c.candidate = uint32(r.Range(8, 14))
	c.hb = uint32(r.Range(2, 3))
	c.elecRange = uint32(r.Range(4, 10))
	if r.Chance(1, 2) {
		c.stepdown = c.follower + uint32(r.PickInt(0, 3, 10, 25, 60))
	}
	c.maxEnts = uint32(r.PickInt(3, 10, 20))
	c.batch = uint32(r.PickInt(1, 1, 4, 16))
	c.maxPending = uint32(r.PickInt(0, 0, 8))
	if r.Chance(1, 2) {
		c.snapThreshold = uint64(r.PickInt(15, 30, 60))
		c.logAfter = uint64(r.PickInt(0, 2, 10))
		if r.Chance(1, 2) {
			c.slowApply = r.PickInt(200, 1000, 3000)
		}
	}
	c.dropP = float32(r.PickInt(0, 0, 2, 5, 15)) / 100
	c.dupP = float32(r.PickInt(0, 0, 10, 30)) / 100
	c.reorderP = float32(r.PickInt(0, 0, 10, 30)) / 100
	c.reorderMax = time.Duration(r.Range(1, 12)) * time.Millisecond
	c.dur = time.Duration(r.Range(1800, 2600)) * time.Millisecond
	c.readPct = r.PickInt(20, 30, 45)
	c.ifTermPct = r.PickInt(15, 25, 40)
	c.flood = r.Chance(1, 3)
	return c
}

type c03Cluster struct {
	cfg      c03Cfg
	nodes    []*Raft
	fsms     []*c03FSM
	drops    []*msgDropper
	dups     []*msgDuplicator
	reorders []*msgReorder
	holds    []*VerifHold
	clock    int64
	nextID   int64
	mu       sync.Mutex
	ops      []*c03Op
	stop     int32
	floods   int
	reaping  int32
	flooded  int64 // flood calls concluded with a definite error (kept as a count only unless applied somewhere)
	floodDef []*c03Op
}

func (c *c03Cluster) stamp() int64 { return atomic.AddInt64(&c.clock, 1) }

func c03Name(i int) string { return "n" + strconv.Itoa(i) }

func c03NewCluster(cfg c03Cfg, r *vw.Rng, tag string) *c03Cluster {
	c := &c03Cluster{cfg: cfg}
	var mems []*memTransport
	seeds := make(map[string]int64)
	for i := 0; i < cfg.n; i++ {
		seeds[c03Name(i)] = int64(r.U64() >> 1)
	}
	for i := 0; i < cfg.n; i++ {
		rc := Config{
			ID:                      c03Name(i),
			ClusterID:               "c03-" + tag,
			FollowerTimeout:         cfg.follower,
			CandidateTimeout:        cfg.candidate,
			HeartbeatTimeout:        cfg.hb,
			RandomElectionRange:     cfg.elecRange,
			LeaderStepdownTimeout:   cfg.stepdown,
			SnapshotTimeout:         50,
			DurationPerTick:         cfg.tick,
			MaxNumEntsPerAppEnts:    cfg.maxEnts,
			MaximumProposalBatch:    cfg.batch,
			MaximumPendingProposals: cfg.maxPending,
			SnapshotThreshold:       cfg.snapThreshold,
			LogEntriesAfterSnapshot: cfg.logAfter,
			GenSeed:                 func(id string) int64 { return seeds[id] },
		}
		mem := NewMemTransport(TransportConfig{Addr: rc.ID, MsgChanCap: 1024}).(*memTransport)
		mems = append(mems, mem)
		dr := NewMsgDropper(mem, int64(r.U64()>>1), cfg.dropP).(*msgDropper)
		du := NewMsgDuplicator(NewVerifSnapOnce(dr), 20, cfg.dupP, int64(r.U64()>>1)).(*msgDuplicator)
		re := NewMsgReorder(du, cfg.reorderP, cfg.reorderMax, int64(r.U64()>>1)).(*msgReorder)
		ho := NewVerifHold(re)
		c.holds = append(c.holds, ho)
		node := NewRaft(rc, newStorage(), ho)
		c.nodes = append(c.nodes, node)
		c.fsms = append(c.fsms, &c03FSM{slow: cfg.slowApply})
		c.drops = append(c.drops, dr)
		c.dups = append(c.dups, du)
		c.reorders = append(c.reorders, re)
	}
	connectAll(mems)
	for i, n := range c.nodes {
		n.Start(c.fsms[i])
	}
	members := make([]string, cfg.n)
	for i := range members {
		members[i] = c03Name(i)
	}
	c.nodes[r.Intn(cfg.n)].ProposeInitialMembership(members)
	return c
}

// link sets the drop probability of the directed link i -> j.
func (c *c03Cluster) link(i, j int, p float32) { c.drops[i].Set(c03Name(j), p) }

func (c *c03Cluster) healAll(p float32) {
	for i := range c.nodes {
		for j := range c.nodes {
			if i != j {
				c.link(i, j, p)
			}
		}
	}
}

func (c *c03Cluster) releaseAll(discard bool) {
	for i := range c.nodes {
		for j := range c.nodes {
			if i != j {
				c.holds[i].Release(c03Name(j), discard)
			}
		}
	}
}

// issue starts one operation without waiting for it; it is recorded like any client operation.
func (c *c03Cluster) issue(kind, node int, watchers *sync.WaitGroup, abort chan struct{}) *c03Op {
	op := c.newOp(kind, node)
	var cmd [8]byte
	binary.LittleEndian.PutUint64(cmd[:], uint64(op.ID))
	op.Inv = c.stamp()
	var p *Pending
	if kind == c03Read {
		p = c.nodes[node].VerifyRead()
	} else {
		p = c.nodes[node].Propose(cmd[:])
	}
	watchers.Add(1)
	go func() {
		defer watchers.Done()
		select {
		case <-p.Done:
			c.finish(op, p)
		case <-abort:
			select {
			case <-p.Done:
				c.finish(op, p)
			default:
			}
		}
	}()
	return op
}

func (c *c03Cluster) waitOps(d time.Duration, ops ...*c03Op) bool {
	end := time.Now().Add(d)
	for {
		all := true
		for _, op := range ops {
			if atomic.LoadInt32(&op.done) == 0 {
				all = false
			}
		}
		if all || !time.Now().Before(end) {
			return all
		}
		time.Sleep(time.Millisecond)
	}
}

func (c *c03Cluster) otherLeader(not int, d time.Duration) int {
	end := time.Now().Add(d)
	for time.Now().Before(end) {
		for _, l := range c.believedLeaders() {
			if l != not {
				return l
			}
		}
		time.Sleep(time.Millisecond)
	}
	return -1
}

// Directed scenario "held acknowledgements": verified reads and a write are in flight at leader L while every message
// TO L is held back; L is then cut off, the others elect a new leader where a newer command is acknowledged; more
// verified reads are requested at L; the held messages are released in order (the old acknowledgements first).
// A read requested at L after the newer command was acknowledged must not succeed without reflecting it.
func (c *c03Cluster) scenarioHeldAcks(watchers *sync.WaitGroup, abort chan struct{}, stats map[string]int64) {
	ls := c.believedLeaders()
	if len(ls) == 0 {
		return
	}
	l, n := ls[0], c.cfg.n
	for j := 0; j < n; j++ {
		if j != l {
			c.holds[j].Set(c03Name(l), VerifHoldQ, VerifAll)
		}
	}
	// the write first, so that the verification NOP is the LAST thing in flight at L
	ops := []*c03Op{c.issue(c03Propose, l, watchers, abort)}
	time.Sleep(time.Millisecond)
	ops = append(ops, c.issue(c03Read, l, watchers, abort))
	time.Sleep(12 * c.cfg.tick)
	for j := 0; j < n; j++ {
		if j != l {
			c.link(l, j, 1)
		}
	}
	if nl := c.otherLeader(l, 3*time.Second); nl >= 0 {
		for try := 0; try < 20; try++ {
			nl = c.otherLeader(l, time.Second)
			if nl < 0 {
				break
			}
			y := c.issue(c03Propose, nl, watchers, abort)
			ops = append(ops, y)
			if c.waitOps(time.Second, y) && y.Out == c03Ok {
				stats["scenario_held_acks_armed"]++
				break
			}
		}
	}
	for k := 0; k < 3; k++ {
		ops = append(ops, c.issue(c03Read, l, watchers, abort))
	}
	time.Sleep(20 * time.Millisecond)
	for j := 0; j < n; j++ {
		if j != l {
			c.holds[j].Release(c03Name(l), false)
		}
	}
	c.healAll(0)
	c.waitOps(10*time.Second, ops...)
	stats["scenario_held_acks"]++
}

// Directed scenario "new leader before its NOP": a command X is acknowledged by leader A while the followers get
// the entry but not its commit (commit-carrying AppEnts from A are held back); A is cut off; among the followers the
// acknowledgements are held back, so whoever wins the election holds X unapplied and cannot commit its term's NOP;
// verified reads are requested there; then everything is released. The reads must reflect X.
func (c *c03Cluster) scenarioStuckNewLeader(watchers *sync.WaitGroup, abort chan struct{}, stats map[string]int64) {
	ls := c.believedLeaders()
	if len(ls) == 0 {
		return
	}
	a, n := ls[0], c.cfg.n
	for j := 0; j < n; j++ {
		if j != a {
			c.holds[a].Set(c03Name(j), VerifHoldQ, VerifCommitHB)
		}
	}
	x := c.issue(c03Propose, a, watchers, abort)
	ok := c.waitOps(2*time.Second, x) && x.Out == c03Ok
	for j := 0; j < n; j++ {
		if j != a {
			c.link(a, j, 1)
			c.link(j, a, 1)
			c.holds[a].Release(c03Name(j), true)
			for k := 0; k < n; k++ {
				if ok && k != a && k != j {
					c.holds[j].Set(c03Name(k), VerifHoldQ, VerifAcks)
				}
			}
		}
	}
	ops := []*c03Op{x}
	if ok {
		if w := c.otherLeader(a, 3*time.Second); w >= 0 {
			stats["scenario_stuck_new_leader_armed"]++
			for k := 0; k < 3; k++ {
				ops = append(ops, c.issue(c03Read, w, watchers, abort))
			}
			ops = append(ops, c.issue(c03Propose, w, watchers, abort))
			time.Sleep(30 * time.Millisecond)
		}
	}
	c.releaseAll(false)
	c.healAll(0)
	c.waitOps(10*time.Second, ops...)
	stats["scenario_stuck_new_leader"]++
}

func (c *c03Cluster) believedLeaders() []int {
	var out []int
	for i, f := range c.fsms {
		if l, _ := f.leaderTerm(); l {
			out = append(out, i)
		}
	}
	return out
}

func (c *c03Cluster) newOp(kind, node int) *c03Op {
	op := &c03Op{ID: atomic.AddInt64(&c.nextID, 1), Kind: kind, Node: node, Out: c03Indef}
	c.mu.Lock()
	c.ops = append(c.ops, op)
	c.mu.Unlock()
	return op
}

// finish records the conclusion of op. Called exactly once per op, after <-p.Done.
func (c *c03Cluster) finish(op *c03Op, p *Pending) {
	switch {
	case p.Err == nil && op.Kind == c03Read:
		n, last := c.fsms[op.Node].read() // the local read served after the successful verification
		op.R1, op.R2 = n, last
		op.Out = c03Ok
	case p.Err == nil:
		res, ok := p.Res.(c03Res)
		if !ok {
			op.Err = fmt.Sprintf("result of foreign type %T", p.Res)
			op.Out = c03Ok
			op.R1 = -1
		} else {
			op.R1, op.R2, op.R3 = res.n, res.prev, int64(res.term)
			op.Out = c03Ok
		}
	case p.Err == ErrNodeNotLeader || p.Err == ErrTermMismatch:
		op.Out = c03Def
		op.Err = p.Err.Error()
	default: // ErrNotLeaderAnymore (or anything unknown): may or may not have been applied
		op.Out = c03Indef
		op.Err = p.Err.Error()
	}
	op.Ret = c.stamp() // AFTER the result (and the local read) was observed
	atomic.StoreInt32(&op.done, 1)
}

func (c *c03Cluster) client(r *vw.Rng, wg *sync.WaitGroup, watchers *sync.WaitGroup, abort chan struct{}) {
	defer wg.Done()
	for atomic.LoadInt32(&c.stop) == 0 {
		// choose a node: mostly one that believes it is the leader (a deposed leader still does)
		node := r.Intn(c.cfg.n)
		if ls := c.believedLeaders(); len(ls) > 0 && r.Chance(4, 5) {
			node = ls[r.Intn(len(ls))]
		}
		k := r.Intn(100)
		kind := c03Propose
		if k < c.cfg.readPct {
			kind = c03Read
		} else if k < c.cfg.readPct+c.cfg.ifTermPct {
			kind = c03IfTerm
		}
		var term uint64
		if kind == c03IfTerm {
			_, term = c.fsms[node].leaderTerm()
			switch r.Intn(10) {
			case 0:
				if term > 1 {
					term--
				}
			case 1:
				term++
			case 2, 3:
				time.Sleep(time.Duration(r.Range(1, 25)) * time.Millisecond) // use a possibly stale term
			}
			if term == 0 {
				term = 1
			}
		}
		op := c.newOp(kind, node)
		op.ReqTerm = int64(term)
		var cmd [8]byte
		binary.LittleEndian.PutUint64(cmd[:], uint64(op.ID))
		op.Inv = c.stamp() // BEFORE the call
		var p *Pending
		switch kind {
		case c03Propose:
			p = c.nodes[node].Propose(cmd[:])
		case c03IfTerm:
			p = c.nodes[node].ProposeIfTerm(cmd[:], term)
		default:
			p = c.nodes[node].VerifyRead()
		}
		patience := time.Duration(r.Range(20, 250)) * time.Millisecond
		select {
		case <-p.Done:
			c.finish(op, p)
		case <-time.After(patience):
			// the client moves on; the operation stays open until its Pending concludes
			watchers.Add(1)
			go func() {
				defer watchers.Done()
				select {
				case <-p.Done:
					c.finish(op, p)
				case <-abort:
					select {
					case <-p.Done:
						c.finish(op, p)
					default:
					}
				}
			}()
		}
		// pace the clients (a few thousand operations per history is plenty); back off after "not leader"
		pause := r.Range(300, 4000)
		if atomic.LoadInt32(&op.done) == 1 && op.Out == c03Def && op.Err == ErrNodeNotLeader.Error() {
			pause += r.Range(2000, 8000)
		}
		time.Sleep(time.Duration(pause) * time.Microsecond)
	}
}

// floodElection: isolate a leader, make one follower deaf (it can send but hears nothing) so that its first
// elections fail, and meanwhile keep its proposal channel full of term-conditional proposals that name the terms
// it is about to go through; then let it hear again. If it wins a later election it finds in its channel
// proposals that name an earlier term: they must be rejected with ErrTermMismatch when they are taken out.
func (c *c03Cluster) floodElection(r *vw.Rng, watchers *sync.WaitGroup, abort chan struct{}) bool {
	ls := c.believedLeaders()
	if len(ls) == 0 {
		return false
	}
	n := c.cfg.n
	l := ls[r.Intn(len(ls))]
	f := (l + 1 + r.Intn(n-1)) % n
	for j := 0; j < n; j++ {
		if j != l {
			c.link(l, j, 1)
			c.link(j, l, 1)
		}
		if j != f {
			c.link(j, f, 1)
		}
	}
	tick := c.cfg.tick
	deaf := time.Duration(c.cfg.follower+c.cfg.elecRange+c.cfg.candidate+c.cfg.elecRange/2) * tick
	window := deaf + time.Duration(2*(c.cfg.candidate+c.cfg.elecRange))*tick
	until := time.Now().Add(window)
	var fw sync.WaitGroup
	for g := 0; g < 6; g++ {
		fw.Add(1)
		go func(g int) {
			defer fw.Done()
			type rec struct {
				op *c03Op
				p  *Pending
			}
			var recs []rec
			var term uint64
			for i := 0; i < 40000; i++ {
				if i%32 == 0 {
					if !time.Now().Before(until) || atomic.LoadInt32(&c.stop) != 0 {
						break
					}
					var lead bool
					lead, term = c.fsms[f].leaderTerm()
					if lead {
						break
					}
				}
				op := &c03Op{ID: atomic.AddInt64(&c.nextID, 1), Kind: c03IfTerm, Node: f, Out: c03Indef}
				op.ReqTerm = int64(term + 1 + uint64((i+g)%3))
				var cmd [8]byte
				binary.LittleEndian.PutUint64(cmd[:], uint64(op.ID))
				op.Inv = c.stamp()
				p := c.nodes[f].ProposeIfTerm(cmd[:], uint64(op.ReqTerm))
				recs = append(recs, rec{op, p})
			}
			// reap: the return stamp is taken after the conclusion was observed (late, which is allowed)
			watchers.Add(1)
			atomic.AddInt32(&c.reaping, 1)
			go func() {
				defer watchers.Done()
				defer atomic.AddInt32(&c.reaping, -1)
				var keep, def []*c03Op
				for _, rc := range recs {
					select {
					case <-rc.p.Done:
						c.finish(rc.op, rc.p)
					case <-abort:
						select {
						case <-rc.p.Done:
							c.finish(rc.op, rc.p)
						default:
						}
					}
					if atomic.LoadInt32(&rc.op.done) == 1 && rc.op.Out == c03Def {
						def = append(def, rc.op)
					} else {
						keep = append(keep, rc.op)
					}
				}
				c.mu.Lock()
				c.ops = append(c.ops, keep...)
				c.floodDef = append(c.floodDef, def...)
				c.mu.Unlock()
			}()
		}(g)
	}
	time.Sleep(deaf)
	for j := 0; j < n; j++ {
		if j != f && j != l {
			c.link(j, f, 0)
		}
	}
	fw.Wait()
	c.floods++
	return true
}

func (c *c03Cluster) nemesis(r *vw.Rng, wg *sync.WaitGroup, stats map[string]int64, watchers *sync.WaitGroup, abort chan struct{}) {
	defer wg.Done()
	for round := 0; atomic.LoadInt32(&c.stop) == 0; round++ {
		time.Sleep(time.Duration(r.Range(60, 350)) * time.Millisecond)
		if atomic.LoadInt32(&c.stop) != 0 {
			return
		}
		n := c.cfg.n
		if c.cfg.flood && c.floods < 2 && round%3 == 1 {
			if c.floodElection(r, watchers, abort) {
				stats["nemesis_flood_election"]++
			}
			continue
		}
		switch r.Intn(9) {
		case 8: // hold back what a leader should hear (everything, or only acknowledgements), maybe depose it, release in order
			ls := c.believedLeaders()
			if len(ls) == 0 {
				continue
			}
			l := ls[r.Intn(len(ls))]
			class := r.PickInt(VerifAll, VerifAcks, VerifAcks)
			for j := 0; j < n; j++ {
				if j != l {
					c.holds[j].Set(c03Name(l), VerifHoldQ, class)
				}
			}
			time.Sleep(time.Duration(r.Range(20, 150)) * time.Millisecond)
			if r.Bool() {
				for j := 0; j < n; j++ {
					if j != l {
						c.link(l, j, 1)
					}
				}
				time.Sleep(time.Duration(r.Range(100, 300)) * time.Millisecond)
			}
			for j := 0; j < n; j++ {
				if j != l {
					c.holds[j].Release(c03Name(l), false)
				}
			}
			stats["nemesis_hold_release"]++
		case 0, 1: // isolate a node that believes it is the leader (symmetric)
			ls := c.believedLeaders()
			if len(ls) == 0 {
				continue
			}
			l := ls[r.Intn(len(ls))]
			for j := 0; j < n; j++ {
				if j != l {
					c.link(l, j, 1)
					c.link(j, l, 1)
				}
			}
			stats["nemesis_isolate_leader"]++
		case 2: // one-way isolation of a leader: it cannot hear the others / cannot be heard
			ls := c.believedLeaders()
			if len(ls) == 0 {
				continue
			}
			l := ls[r.Intn(len(ls))]
			in := r.Bool()
			for j := 0; j < n; j++ {
				if j != l {
					if in {
						c.link(j, l, 1)
					} else {
						c.link(l, j, 1)
					}
				}
			}
			stats["nemesis_oneway"]++
		case 3: // random bipartition
			side := make([]bool, n)
			for i := range side {
				side[i] = r.Bool()
			}
			for i := 0; i < n; i++ {
				for j := 0; j < n; j++ {
					if i != j {
						if side[i] != side[j] {
							c.link(i, j, 1)
						} else {
							c.link(i, j, c.cfg.dropP)
						}
					}
				}
			}
			stats["nemesis_bipartition"]++
		case 4: // flaky links
			for k := 0; k < n; k++ {
				i, j := r.Intn(n), r.Intn(n)
				if i != j {
					c.link(i, j, float32(r.Range(30, 80))/100)
				}
			}
			stats["nemesis_flaky"]++
		default: // heal
			c.healAll(c.cfg.dropP)
			stats["nemesis_heal"]++
		}
	}
}

func c03RunCluster(caseIdx int) *c03Result {
	rng := vw.NewRng(vw.Seed()).Fork(uint64(caseIdx))
	cfg := c03GenCfg(rng)
	id := "c" + strconv.Itoa(caseIdx)
	res := &c03Result{Case: id, Stats: map[string]int64{}}
	c := c03NewCluster(cfg, rng, id)
	report := func(sig, what string, detail map[string]interface{}) {
		for _, v := range res.Viol {
			if v.Sig == sig {
				return
			}
		}
		res.Viol = append(res.Viol, c03Violation{sig, what, detail})
	}

	// wait for a first leader (bounded), then start load and faults
	t0 := time.Now()
	for len(c.believedLeaders()) == 0 && time.Since(t0) < 10*time.Second {
		time.Sleep(time.Millisecond)
	}
	var cw, nw, watchers sync.WaitGroup
	abort := make(chan struct{})
	nstats := map[string]int64{}
	for i := 0; i < cfg.clients; i++ {
		cw.Add(1)
		go c.client(rng.Fork(uint64(1000+i)), &cw, &watchers, abort)
	}
	nw.Add(1)
	go c.nemesis(rng.Fork(999), &nw, nstats, &watchers, abort)
	time.Sleep(cfg.dur)
	atomic.StoreInt32(&c.stop, 1)
	nw.Wait()
	// settle: reliable network, no duplication, no delays
	c.releaseAll(false)
	c.healAll(0)
	for i := range c.nodes {
		c.dups[i].lock.Lock()
		c.dups[i].msgDupProb = 0
		c.dups[i].lock.Unlock()
		c.reorders[i].lock.Lock()
		c.reorders[i].msgDelayProb = 0
		c.reorders[i].lock.Unlock()
	}
	cw.Wait()
	for k, v := range nstats {
		res.Stats[k] += v
	}

	// every Pending must conclude once the group is whole again (generous grace: the machine may be loaded)
	allDone := func() bool {
		if atomic.LoadInt32(&c.reaping) != 0 {
			return false
		}
		c.mu.Lock()
		defer c.mu.Unlock()
		for _, op := range c.ops {
			if atomic.LoadInt32(&op.done) == 0 {
				return false
			}
		}
		return true
	}
	grace := time.Now().Add(20 * time.Second)
	for !allDone() && time.Now().Before(grace) {
		time.Sleep(2 * time.Millisecond)
	}
	// directed message-level scenarios on the quiet network (one per case)
	if caseIdx%2 == 0 {
		c.scenarioHeldAcks(&watchers, abort, res.Stats)
	} else {
		c.scenarioStuckNewLeader(&watchers, abort, res.Stats)
	}
	// a final barrier command so that the replicas have something to converge on
	var barrier *c03Op
	barrierDeadline := time.Now().Add(30 * time.Second)
	for try := 0; try < 400 && barrier == nil && time.Now().Before(barrierDeadline); try++ {
		ls := c.believedLeaders()
		if len(ls) == 0 {
			time.Sleep(5 * time.Millisecond)
			continue
		}
		node := ls[try%len(ls)]
		op := c.newOp(c03Propose, node)
		var cmd [8]byte
		binary.LittleEndian.PutUint64(cmd[:], uint64(op.ID))
		op.Inv = c.stamp()
		p := c.nodes[node].Propose(cmd[:])
		select {
		case <-p.Done:
			c.finish(op, p)
			if op.Out == c03Ok {
				barrier = op
			}
		case <-time.After(2 * time.Second):
			watchers.Add(1)
			go func() {
				defer watchers.Done()
				select {
				case <-p.Done:
					c.finish(op, p)
				case <-abort:
					select {
					case <-p.Done:
						c.finish(op, p)
					default:
					}
				}
			}()
		}
	}
	if barrier != nil {
		deadline := time.Now().Add(10 * time.Second)
		for time.Now().Before(deadline) {
			ok := true
			for _, f := range c.fsms {
				if n, _ := f.read(); n < barrier.R1 {
					ok = false
				}
			}
			if ok {
				break
			}
			time.Sleep(2 * time.Millisecond)
		}
	} else {
		res.Stats["no_final_barrier"]++
	}
	grace = time.Now().Add(5 * time.Second)
	for !allDone() && time.Now().Before(grace) {
		time.Sleep(2 * time.Millisecond)
	}
	close(abort)
	watchers.Wait()

	// ---- collect
	c.mu.Lock()
	ops := make([]*c03Op, len(c.ops))
	copy(ops, c.ops)
	c.mu.Unlock()
	sort.Slice(ops, func(i, j int) bool { return ops[i].Inv < ops[j].Inv })
	var states []c03NodeState
	var applies [][]c03Apply
	converged := true
	for i, f := range c.fsms {
		f.mu.Lock()
		for _, s := range f.segs {
			states = append(states, c03NodeState{i, s})
		}
		states = append(states, c03NodeState{i, f.flat()})
		applies = append(applies, append([]c03Apply(nil), f.applies...))
		res.Stats["restores"] += int64(f.restores)
		res.Stats["leaderships"] += int64(f.leads)
		if int64(f.term) > res.Stats["max_term_seen"] {
			res.Stats["max_term_seen"] = int64(f.term)
		}
		if barrier != nil && int64(len(f.ids)) < barrier.R1 {
			converged = false
		}
		f.mu.Unlock()
	}
	if !converged {
		res.Stats["replica_not_caught_up_at_end"]++
	}

	// flood calls that were rejected with a definite error and are in no replica state cannot influence any
	// clause; they are kept as a count. Those that ARE in a replica state stay in the history (a violation).
	inState := map[int64]bool{}
	for _, st := range states {
		for k := 0; k < len(st.flat); k += 2 {
			inState[st.flat[k]] = true
		}
	}
	for _, op := range c.floodDef {
		if inState[op.ID] {
			ops = append(ops, op)
		} else {
			res.Stats["flood_calls_rejected_definitely"]++
			if op.Err == ErrTermMismatch.Error() {
				res.Stats["flood_calls_rejected_term_mismatch_in_leader_loop"]++
			}
		}
	}
	sort.Slice(ops, func(i, j int) bool { return ops[i].Inv < ops[j].Inv })
	res.Stats["flood_elections"] += int64(c.floods)

	// ---- lines for the Coq checker
	for _, op := range ops {
		if atomic.LoadInt32(&op.done) == 0 {
			op.Out = c03Indef
			op.Ret = 0
		}
		res.Lines = append(res.Lines, []int64{1, op.ID, int64(op.Kind), int64(op.Node), op.Inv, op.Ret, int64(op.Out),
			op.R1, op.R2, op.R3, op.ReqTerm})
	}
	for _, s := range states {
		l := []int64{2, int64(s.node), int64(len(s.flat) / 2)}
		res.Lines = append(res.Lines, append(l, s.flat...))
	}

	// ---- monitors (the property's clauses, evaluated in Go on the observations)
	c03Monitors(ops, states2(states), applies, report, res.Stats)
	for _, op := range ops {
		if atomic.LoadInt32(&op.done) == 0 {
			report(fmt.Sprintf("pending-never-concluded/kind%d", op.Kind),
				"a Pending was not concluded although the group was whole again for more than 20 s",
				map[string]interface{}{"op": op})
			res.Stats["never_concluded"]++
		}
	}

	// ---- stats
	kinds := map[int]string{1: "propose", 2: "ifterm", 3: "read"}
	outs := map[int]string{1: "ok", 2: "definite_err", 3: "indefinite"}
	okW, okR := 0, 0
	for _, op := range ops {
		res.Stats["op_"+kinds[op.Kind]+"_"+outs[op.Out]]++
		if op.Err != "" {
			res.Stats["err_"+strings.ReplaceAll(strings.TrimSuffix(op.Err, "."), " ", "_")]++
		}
		if op.Out == c03Ok && op.Kind != c03Read {
			okW++
		}
		if op.Out == c03Ok && op.Kind == c03Read {
			okR++
		}
	}
	res.Stats["clusters"]++
	res.Stats[fmt.Sprintf("nodes_%d", cfg.n)]++
	res.Finger = fmt.Sprintf("n%d c%d ops%d okw%d okr%d lead%d rest%d", cfg.n, cfg.clients, len(ops), okW, okR,
		res.Stats["leaderships"], res.Stats["restores"])
	res.Sample = fmt.Sprintf("case %s: %d nodes, %d clients, tick %v, stepdown %d, batch %d, snap %d/%d, drop %.2f dup %.2f reorder %.2f; %d ops (%d acked writes, %d verified reads), %d leaderships, %d restores",
		id, cfg.n, cfg.clients, cfg.tick, cfg.stepdown, cfg.batch, cfg.snapThreshold, cfg.logAfter, cfg.dropP, cfg.dupP,
		cfg.reorderP, len(ops), okW, okR, res.Stats["leaderships"], res.Stats["restores"])
	return res
}

type c03NodeState struct {
	node int
	flat []int64
}

func states2(in []c03NodeState) [][]int64 {
	out := make([][]int64, len(in))
	for i := range in {
		out[i] = in[i].flat
	}
	return out
}

// c03Monitors evaluates the clauses of C03 on one history. states: (id, term)* per replica segment.
func c03Monitors(ops []*c03Op, states [][]int64, applies [][]c03Apply,
	report func(sig, what string, detail map[string]interface{}), stats map[string]int64) {
	kindName := func(k int) string { return map[int]string{1: "propose", 2: "proposeifterm", 3: "verifyread"}[k] }
	// agreed log = longest state; all others must be prefixes
	var L []int64
	for _, s := range states {
		if len(s) > len(L) {
			L = s
		}
	}
	for i, s := range states {
		for k := range s {
			if s[k] != L[k] {
				report("replicas-diverge", "two replica states are not prefixes of one sequence",
					map[string]interface{}{"state": i, "position": k / 2, "have": s[k], "agreed": L[k]})
				break
			}
		}
	}
	pos := map[int64]int64{}
	term := map[int64]int64{}
	for k := 0; k < len(L); k += 2 {
		id := L[k]
		if _, dup := pos[id]; dup {
			report("applied-twice", "a command appears twice in the agreed apply order",
				map[string]interface{}{"id": id, "first": pos[id], "second": k/2 + 1})
			continue
		}
		pos[id] = int64(k/2 + 1)
		term[id] = L[k+1]
		if k >= 2 && L[k+1] < L[k-1] {
			report("log-terms-decrease", "terms of applied entries decrease along the log", map[string]interface{}{"position": k / 2})
		}
	}
	byID := map[int64]*c03Op{}
	for _, op := range ops {
		byID[op.ID] = op
	}
	for id, p := range pos {
		op := byID[id]
		if op == nil || op.Kind == c03Read {
			report("phantom-command", "a replica applied a command nobody proposed", map[string]interface{}{"id": id, "position": p})
		}
	}
	idAt := func(p int64) int64 {
		if p <= 0 {
			return 0
		}
		return L[2*(p-1)]
	}
	nL := int64(len(L) / 2)
	// per-op clauses
	for _, op := range ops {
		if op.Kind == c03Read {
			if op.Out == c03Ok {
				if op.R1 < 0 || op.R1 > nL || op.R2 != idAt(op.R1) {
					report("verified-read-not-a-prefix", "a verified read observed a state that is not a prefix of the agreed order",
						map[string]interface{}{"op": op})
				}
			}
			continue
		}
		p, applied := pos[op.ID]
		switch op.Out {
		case c03Ok:
			if !applied {
				report("acked-not-applied/"+kindName(op.Kind), "an acknowledged command is in no replica's apply sequence",
					map[string]interface{}{"op": op})
			} else if op.R1 != p || op.R2 != idAt(p-1) || op.R3 != term[op.ID] {
				report("wrong-result/"+kindName(op.Kind), "an acknowledged command returned a result that is not the result of applying it at its place in the log (pairing of commits with waiting callers)",
					map[string]interface{}{"op": op, "position": p, "prev": idAt(p - 1), "term": term[op.ID]})
			}
		case c03Def:
			if applied {
				report("definite-error-applied/"+kindName(op.Kind)+"/"+strings.ReplaceAll(op.Err, " ", "_"),
					"a command rejected with a definite error was applied", map[string]interface{}{"op": op, "position": p})
			}
		}
		if applied && op.ReqTerm != 0 && term[op.ID] != op.ReqTerm {
			report("term-conditional-applied-in-other-term", "a ProposeIfTerm command was applied in a term different from the one it named",
				map[string]interface{}{"op": op, "applied_term": term[op.ID]})
		}
		if applied {
			stats["applied_"+map[int]string{1: "ok", 2: "def", 3: "indef"}[op.Out]]++
		}
	}
	// real-time order: sweep in log order keeping the max invocation stamp seen so far "to the right"
	// a before b in the log, but b returned (ack) before a was invoked  => violation
	type we struct {
		op *c03Op
		p  int64
	}
	var ws []we
	for k := 0; k < len(L); k += 2 {
		if op := byID[L[k]]; op != nil && op.Kind != c03Read && pos[L[k]] == int64(k/2+1) {
			ws = append(ws, we{op, int64(k/2 + 1)})
		}
	}
	// minAckRetFrom[i] = the acked op with the smallest Ret among ws[i:]
	var minRet *we
	for i := len(ws) - 1; i >= 0; i-- {
		a := ws[i]
		if minRet != nil && minRet.op.Ret < a.op.Inv {
			report("realtime-order/"+kindName(minRet.op.Kind), "a command acknowledged before another was invoked is ordered after it in the log",
				map[string]interface{}{"earlier_acked": minRet.op, "its_position": minRet.p, "later_invoked": a.op, "position": a.p})
		}
		if a.op.Out == c03Ok && (minRet == nil || a.op.Ret < minRet.op.Ret) {
			x := a
			minRet = &x
		}
	}
	// verified reads
	var reads []*c03Op
	for _, op := range ops {
		if op.Kind == c03Read && op.Out == c03Ok {
			reads = append(reads, op)
		}
	}
	for _, r := range reads {
		for _, w := range ws {
			if w.op.Out == c03Ok && w.op.Ret < r.Inv && w.p > r.R1 {
				report("stale-verified-read", "a read served after a successful VerifyRead misses a command acknowledged before the verification was requested",
					map[string]interface{}{"read": r, "missed": w.op, "its_position": w.p})
				break
			}
			if r.Ret < w.op.Inv && w.p <= r.R1 {
				report("read-from-the-future", "a verified read reflects a command invoked after the read returned",
					map[string]interface{}{"read": r, "command": w.op, "its_position": w.p})
				break
			}
		}
	}
	sorted := append([]*c03Op(nil), reads...)
	sort.Slice(sorted, func(i, j int) bool { return sorted[i].Ret < sorted[j].Ret })
	// monotonic verified reads: r1 returned before r2 was requested => r2 sees at least as much
	byInv := append([]*c03Op(nil), reads...)
	sort.Slice(byInv, func(i, j int) bool { return byInv[i].Inv < byInv[j].Inv })
	var maxSeen *c03Op
	k := 0
	for _, r2 := range byInv {
		for k < len(sorted) && sorted[k].Ret < r2.Inv {
			if maxSeen == nil || sorted[k].R1 > maxSeen.R1 {
				maxSeen = sorted[k]
			}
			k++
		}
		if maxSeen != nil && maxSeen.R1 > r2.R1 {
			report("verified-reads-go-backwards", "a verified read requested after another one returned observed an older state",
				map[string]interface{}{"first": maxSeen, "second": r2})
			break
		}
	}
	// raft indices: strictly increasing per replica, same index => same command everywhere
	at := map[uint64]int64{}
	for n, as := range applies {
		var last uint64
		for _, a := range as {
			if a.id < 0 {
				if a.index < last {
					stats["restore_to_older_index"]++
				}
				last = a.index
				continue
			}
			if a.index <= last {
				report("apply-index-not-increasing", "a replica's FSM was handed an entry at or below an index it had already applied or restored",
					map[string]interface{}{"node": n, "index": a.index, "last": last, "id": a.id})
			}
			last = a.index
			if prev, ok := at[a.index]; ok && prev != a.id {
				report("index-disagreement", "two replicas applied different commands at the same log index",
					map[string]interface{}{"index": a.index, "a": prev, "b": a.id})
			}
			at[a.index] = a.id
		}
	}
}

// ---------------------------------------------------------------- layer-model correspondence (single real node)

// c03RunLayer drives one real one-member group with a sequential script of Propose / ProposeIfTerm / VerifyRead,
// first while the node is not leading (no membership yet), then as leader; every conclusion is compared with the
// prediction of the Coq layer model (Layer.v: term filter inside the loop, FIFO pairing, FSM result).
func c03RunLayer(idx int) *c03Result {
	rng := vw.NewRng(vw.Seed()).Fork(uint64(100000 + idx))
	id := "layer" + strconv.Itoa(idx)
	res := &c03Result{Case: id, Stats: map[string]int64{}, Obs: [][]int64{}}
	cfg := Config{ID: "solo", ClusterID: "c03-" + id, FollowerTimeout: 6, CandidateTimeout: 6, HeartbeatTimeout: 2,
		RandomElectionRange: 3, DurationPerTick: time.Millisecond, MaxNumEntsPerAppEnts: 10,
		MaximumProposalBatch: uint32(rng.PickInt(1, 4))}
	node := NewRaft(cfg, newStorage(), NewMemTransport(TransportConfig{Addr: "solo", MsgChanCap: 64}))
	fsm := &c03FSM{}
	node.Start(fsm)
	pid := int64(0)
	issue := func(leading bool, cur uint64) bool {
		pid++
		kind := rng.PickInt(c03Propose, c03IfTerm, c03IfTerm, c03Read)
		var req uint64
		if kind == c03IfTerm {
			switch rng.Intn(6) {
			case 0:
				req = 0
			case 1:
				req = cur + 1
			case 2:
				req = cur + uint64(rng.Range(2, 9))
			case 3:
				if cur > 1 {
					req = cur - 1
				} else {
					req = cur + 3
				}
			default:
				req = cur
			}
		}
		var cmd [8]byte
		binary.LittleEndian.PutUint64(cmd[:], uint64(pid))
		var p *Pending
		switch kind {
		case c03Propose:
			p = node.Propose(cmd[:])
		case c03IfTerm:
			p = node.ProposeIfTerm(cmd[:], req)
		default:
			p = node.VerifyRead()
		}
		lead := int64(0)
		if leading {
			lead = 1
		}
		line := []int64{3, int64(kind), pid, pid, int64(req), int64(cur), lead}
		var obs []int64
		select {
		case <-p.Done:
			switch {
			case p.Err == nil && kind == c03Read:
				obs = []int64{1, 0}
			case p.Err == nil:
				r, _ := p.Res.(c03Res)
				obs = []int64{1, r.n}
			case p.Err == ErrNodeNotLeader:
				obs = []int64{2, 0}
			case p.Err == ErrTermMismatch:
				obs = []int64{3, 0}
			case p.Err == ErrNotLeaderAnymore:
				obs = []int64{4, 0}
			default:
				obs = []int64{9, 0}
			}
		case <-time.After(10 * time.Second):
			obs = []int64{8, 0}
			res.Viol = append(res.Viol, c03Violation{"layer/pending-never-concluded", "a Pending of a one-member group was not concluded within 10 s",
				map[string]interface{}{"line": line}})
		}
		res.Lines = append(res.Lines, line)
		res.Obs = append(res.Obs, obs)
		res.Stats[fmt.Sprintf("layer_obs_%d", obs[0])]++
		return obs[0] != 8
	}
	for j := 0; j < rng.Range(2, 6); j++ {
		if !issue(false, 0) {
			return res
		}
	}
	node.ProposeInitialMembership([]string{"solo"})
	t0 := time.Now()
	for time.Since(t0) < 10*time.Second {
		if l, _ := fsm.leaderTerm(); l {
			break
		}
		time.Sleep(time.Millisecond)
	}
	_, cur := fsm.leaderTerm()
	for j := 0; j < rng.Range(30, 60); j++ {
		if !issue(true, cur) {
			return res
		}
	}
	res.Stats["layer_cases"]++
	res.Finger = fmt.Sprintf("layer %d lines batch %d", len(res.Lines), cfg.MaximumProposalBatch)
	res.Sample = fmt.Sprintf("case %s: one-member group, %d scripted requests compared with the layer model", id, len(res.Lines))
	return res
}

// ---------------------------------------------------------------- parent / child plumbing

func c03Child(t *testing.T) {
	flag.Set("logtostderr", "true")
	flag.Set("stderrthreshold", "FATAL")
	idx, _ := strconv.Atoi(os.Getenv("VERIF_C03_CHILD"))
	var res *c03Result
	if os.Getenv("VERIF_C03_LAYER") != "" {
		res = c03RunLayer(idx)
	} else {
		res = c03RunCluster(idx)
	}
	b, _ := json.Marshal(res)
	if err := ioutil.WriteFile(os.Getenv("VERIF_C03_RESULT"), b, 0o644); err != nil {
		t.Fatal(err)
	}
}

func TestVerifC03(t *testing.T) {
	if !vw.Enabled() {
		t.Skip("run through bin/check")
	}
	if os.Getenv("VERIF_C03_CHILD") != "" {
		c03Child(t)
		return
	}
	nhist := vw.Scale(40, 1200)
	nlayer := vw.Scale(8, 100)
	ncases := nhist + nlayer
	caseID := func(i int) string {
		if i >= nhist {
			return "layer" + strconv.Itoa(i-nhist)
		}
		return "c" + strconv.Itoa(i)
	}
	par := 8
	if s := os.Getenv("VERIF_C03_PAR"); s != "" {
		par, _ = strconv.Atoi(s)
	}
	tmp, err := ioutil.TempDir("", "c03")
	if err != nil {
		t.Fatal(err)
	}
	defer os.RemoveAll(tmp)

	results := make([]*c03Result, ncases)
	crashes := make([]string, ncases)
	sem := make(chan struct{}, par)
	var wg sync.WaitGroup
	for i := 0; i < ncases; i++ {
		id := caseID(i)
		if !vw.CaseSelected(id) {
			continue
		}
		wg.Add(1)
		sem <- struct{}{}
		go func(i int) {
			defer wg.Done()
			defer func() { <-sem }()
			out := filepath.Join(tmp, fmt.Sprintf("r%d.json", i))
			cmd := exec.Command(os.Args[0], "-test.run", "^TestVerifC03$", "-test.timeout", "180s")
			cmd.Env = append(os.Environ(), "VERIF_C03_CHILD="+strconv.Itoa(i), "VERIF_C03_RESULT="+out)
			if i >= nhist {
				cmd.Env = append(cmd.Env, "VERIF_C03_CHILD="+strconv.Itoa(i-nhist), "VERIF_C03_LAYER=1")
			}
			var stderr bytes.Buffer
			cmd.Stderr = &stderr
			cmd.Stdout = &stderr
			runErr := cmd.Run()
			b, rerr := ioutil.ReadFile(out)
			if rerr == nil {
				var r c03Result
				if json.Unmarshal(b, &r) == nil {
					results[i] = &r
					return
				}
			}
			s := stderr.String()
			if len(s) > 6000 {
				s = s[len(s)-6000:]
			}
			crashes[i] = fmt.Sprintf("%v\n%s", runErr, s)
		}(i)
	}
	wg.Wait()

	tr := vw.OpenTrace("C03.trace")
	for i := 0; i < ncases; i++ {
		id := caseID(i)
		if crashes[i] != "" {
			sig := "crash/other"
			switch {
			case strings.Contains(crashes[i], "index out of range"):
				sig = "crash/pending-queue-index-out-of-range"
			case strings.Contains(crashes[i], "interface conversion"):
				sig = "crash/pending-queue-wrong-kind-of-waiter"
			case strings.Contains(crashes[i], "test timed out"):
				sig = "crash/cluster-hung"
			case strings.Contains(crashes[i], "\nF") || strings.HasPrefix(crashes[i], "F"):
				sig = "crash/fatal-log"
			}
			vw.Report(vw.Violation{Property: "C03", Signature: sig, Case: id,
				What:   "the Raft group crashed or hung while serving the recorded operations",
				Detail: map[string]interface{}{"output": crashes[i]}})
			vw.Stat("crashed_clusters", 1)
			vw.Sample("case " + id + ": the group crashed or hung (" + sig + ")")
			continue
		}
		r := results[i]
		if r == nil {
			continue
		}
		tr.Case(id)
		if r.Obs != nil {
			for k, l := range r.Lines {
				tr.Op(l...)
				tr.Obs(r.Obs[k]...)
			}
		} else {
			for _, l := range r.Lines {
				tr.Op(l...)
				tr.Obs(0)
			}
			tr.Op(777)
			tr.Obs(777, 1)
		}
		for _, v := range r.Viol {
			vw.Report(vw.Violation{Property: "C03", Signature: v.Sig, What: v.What, Case: id, Detail: v.Detail})
		}
		for k, v := range r.Stats {
			if k == "max_term_seen" {
				continue
			}
			vw.Stat(k, v)
		}
		vw.Distinct(r.Finger)
		vw.Sample(r.Sample)
	}
	// replay of a recorded (rejected) history: goroutine/timer schedules cannot be reproduced, so the replay
	// file's history itself is handed to the checker again next to the fresh run of the same case.
	if rf := vw.ReplayFile(); rf != "" {
		if b, err := ioutil.ReadFile(rf); err == nil {
			var doc struct {
				Case      string   `json:"case"`
				CaseTrace []string `json:"case_trace"`
			}
			if json.Unmarshal(b, &doc) == nil && len(doc.CaseTrace) > 0 {
				tr.Case(doc.Case + "-recorded")
				for _, l := range doc.CaseTrace {
					if strings.HasPrefix(l, ">") {
						var xs []int64
						for _, f := range strings.Fields(l[1:]) {
							v, _ := strconv.ParseInt(f, 10, 64)
							xs = append(xs, v)
						}
						tr.Op(xs...)
						if len(xs) == 1 && xs[0] == 777 {
							tr.Obs(777, 1)
						} else {
							tr.Obs(0)
						}
					}
				}
			}
		}
	}
	tr.Close()
	vw.Sample("(end of samples)") // keeps the samples array non-null for bin/check
	vw.Finish("C03")
}
