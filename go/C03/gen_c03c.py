#!/usr/bin/env python3
"""Generates zz_verif_c03c_test.go (curator state-handler harness) from zz_verif_c03m_test.go (master variant):
same harness, other API.  Run in /verif/go/C03 after editing the master variant."""
s = open('zz_verif_c03m_test.go').read()

def rep(a, b):
    global s
    assert a in s, a
    s = s.replace(a, b)

rep('''// The master's durable StateHandler is the application-side user of Propose / ProposeIfTerm / VerifyRead
// (handler.go). Real 3-5 member groups of StateHandlers on the in-process Raft (raft.VerifNewCluster: mem transport
// + the repo's dropper / duplicator / reorder), clients call the handler API only:
//   NewPartition(curator, term)   - term-conditional write; its result (the new partition id) reveals its place;
//   GetPartitions(curator)        - verified read (VerifyRead, then local state): reveals how many were applied;
//   Lookup(partition)             - verified read of one element.''',
'''// GENERATED from zz_verif_c03m_test.go (the master variant) by gen_c03c.py; same harness, other API.
// The curator's durable StateHandler (handler.go: readOK -> VerifyRead before every linearizable read). Real 3-5
// member groups of StateHandlers (each on its own boltdb file) on the in-process Raft, clients call the handler API only:
//   CreateBlob(repl, now, expires, hint, term) - term-conditional write; the blob key in the returned id reveals its place;
//   GetFreeSpace()                              - verified read (readOK, then local state): reveals how many were created;
//   LinearizableReadOnlyTxn + GetBlob           - verified read of one element;
//   AddPartition(id, term) / GetCuratorInfo()   - a second write / verified read pair (freshness monitor only).''')
s = s.replace('"m" + strconv.Itoa', '"cu" + strconv.Itoa')
s = s.replace('Fork(uint64(500000 + idx))', 'Fork(uint64(700000 + idx))')
s = s.replace('"c03m-"', '"c03c-"')
rep('''		hs[i] = NewStateHandler(&StateConfig{Config: cfgs[i]}, cl.Nodes[i])
''', '''		dir := filepath.Join(os.Getenv("VERIF_C03C_DIR"), id+"-"+strconv.Itoa(i))
		os.MkdirAll(dir, 0o755)
		hs[i] = NewStateHandler(&StateConfig{Config: cfgs[i], DBDir: dir, OnLeadershipChange: func(bool) {}}, cl.Nodes[i])
''')
rep('''	// one curator to hang the partitions on
	var curator core.CuratorID
	for try := 0; try < 200 && curator == 0; try++ {
		ls := leaders()
		if len(ls) == 0 {
			time.Sleep(5 * time.Millisecond)
			continue
		}
		if c, err := hs[ls[0]].RegisterCurator(0); err == core.NoError {
			curator = c
		}
	}
	if curator == 0 {
		res.Stats["m_no_bootstrap"]++
		return res
	}
''', '''	// registration and one partition to create the blobs in (the lowest id, so that it stays the one blobs go to)
	var curator core.CuratorID
	const part = core.PartitionID(7)
	for try := 0; try < 200 && curator == 0; try++ {
		ls := leaders()
		if len(ls) == 0 {
			time.Sleep(5 * time.Millisecond)
			continue
		}
		if _, err := hs[ls[0]].Register(core.CuratorID(1)); err != core.NoError {
			continue
		}
		if err := hs[ls[0]].AddPartition(part, 0); err == core.NoError {
			curator = 1
		}
	}
	if curator == 0 {
		res.Stats["m_no_bootstrap"]++
		return res
	}
	countOf := func(h *StateHandler) int64 {
		txn := h.LocalReadOnlyTxn()
		defer txn.Commit()
		for _, p := range txn.GET_PARTS() {
			if p.ID == part {
				return int64(p.P.NextBlobKey()) - 1
			}
		}
		return 0
	}
	var auxSeq int64
''')
rep('''		p, err := hs[node].NewPartition(curator, term)
''', '''		bid, err := hs[node].CreateBlob(3, 1, 0, core.StorageHintDEFAULT, term)
		p := int64(bid.ID())
''')
rep('''		parts, err := hs[node].GetPartitions(curator)
		var unknown string
		op.Out, unknown = mClassify(err)
		op.Err = unknown
		if op.Out == mOk {
			op.R1 = int64(len(parts))
			op.ListOK = true
			for i, p := range parts {
				if int64(p) != int64(i+1) {
					op.ListOK = false
				}
			}
		}''', '''		free, err := hs[node].GetFreeSpace()
		var unknown string
		op.Out, unknown = mClassify(err)
		op.Err = unknown
		if op.Out == mOk {
			// free = sum over the P partitions of (MaxBlobKey - NextBlobKey); all but partition 7 are empty (next = 1)
			np := free/uint64(core.MaxBlobKey) + 1
			op.R1 = int64(np*uint64(core.MaxBlobKey) - free - np)
			op.ListOK = true
		}''')
import re
m = re.search(r"\t\t//ELEMREADS-BEGIN\n.*?\t\t//ELEMREADS-END\n", s, re.S)
assert m
s = s[:m.start()] + '''		//ELEMREADS-BEGIN (curator: every entry point that goes through LinearizableReadOnlyTxn / readOK and answers about one blob)
		{"lineartxn_getblob", func(h *StateHandler, p int64) (bool, bool, core.Error) {
			txn, err := h.LinearizableReadOnlyTxn()
			if err != core.NoError {
				return false, false, err
			}
			defer txn.Commit()
			return true, txn.GetBlob(core.BlobIDFromParts(part, core.BlobKey(p))) != nil, core.NoError
		}},
		{"stat", func(h *StateHandler, p int64) (bool, bool, core.Error) {
			switch _, err := h.Stat(core.BlobIDFromParts(part, core.BlobKey(p))); err {
			case core.NoError:
				return true, true, core.NoError
			case core.ErrNoSuchBlob:
				return true, false, core.NoError
			default:
				return false, false, err
			}
		}},
		{"gettracts", func(h *StateHandler, p int64) (bool, bool, core.Error) {
			switch _, _, err := h.GetTracts(core.BlobIDFromParts(part, core.BlobKey(p)), 0, 0); err {
			case core.NoError:
				return true, true, core.NoError
			case core.ErrNoSuchBlob:
				return true, false, core.NoError
			default:
				return false, false, err
			}
		}},
		{"listblobs", func(h *StateHandler, p int64) (bool, bool, core.Error) {
			keys, err := h.ListBlobs(part, core.BlobKey(p))
			if err != core.NoError {
				return false, false, err
			}
			return true, len(keys) > 0 && int64(keys[0]) == p, core.NoError
		}},
		{"checkforgarbage", func(h *StateHandler, p int64) (bool, bool, core.Error) {
			// CheckForGarbage has no error result: (nil, nil) means "failed" as well as "nothing to collect". Only a
			// positive "gone" verdict is an answer - and it must never name a tract of a blob whose creation was acknowledged.
			tid := core.TractID{Blob: core.BlobIDFromParts(part, core.BlobKey(p)), Index: 0}
			_, gone := h.CheckForGarbage(core.TractserverID(1), []core.TractID{tid})
			for _, g := range gone {
				if g == tid {
					return true, false, core.NoError
				}
			}
			return false, false, core.NoError
		}},
		//ELEMREADS-END
''' + s[m.end():]
rep('''			h.lock.Lock()
			counts[i] = int64(len(h.state.Partitions) - 1)
			h.lock.Unlock()''', '''			counts[i] = countOf(h)''')
rep('''		c, err := h.RegisterCurator(term)
		return int64(c), err''', '''		pid := core.PartitionID(1000 + atomic.AddInt64(&auxSeq, 1))
		return int64(pid), h.AddPartition(pid, term)''')
rep('''		switch err := h.ValidateCuratorID(core.CuratorID(token)); err {
		case core.NoError:
			return true, core.NoError
		case core.ErrBadCuratorID:
			return false, core.NoError
		default:
			return false, err
		}''', '''		_, parts, err := h.GetCuratorInfo()
		if err != core.NoError {
			return false, err
		}
		for _, p := range parts {
			if int64(p) == token {
				return true, core.NoError
			}
		}
		return false, core.NoError''')
s = s.replace('NewPartition', 'CreateBlob').replace('GetPartitions', 'GetFreeSpace')
s = s.replace('RegisterCurator', 'AddPartition').replace('ValidateCuratorID', 'GetCuratorInfo')
s = s.replace('GET_PARTS', 'GetPartitions')
s = s.replace('"newpartition"', '"createblob"').replace('"getpartitions"', '"getfreespace"')
s = s.replace('"registercurator"', '"addpartition"').replace('"validatecuratorid"', '"getcuratorinfo"')
s = s.replace('/newpartition/', '/createblob/').replace('/getpartitions', '/getfreespace').replace('/validatecuratorid', '/getcuratorinfo')
s = s.replace('TestVerifC03M', 'TestVerifC03C').replace('VERIF_C03M_CHILD', 'VERIF_C03C_CHILD').replace('VERIF_C03M_RESULT', 'VERIF_C03C_RESULT')
s = s.replace('"C03M.trace"', '"C03C.trace"').replace('vw.Finish("C03M")', 'vw.Finish("C03C")').replace('"c03m"', '"c03c"')
s = s.replace('"m_', '"cu_').replace('"handler/', '"curator-handler/')
s = s.replace('master StateHandlers', 'curator StateHandlers').replace('the master state-handler group', 'the curator state-handler group')
s = s.replace('partition id', 'blob key')
rep('''			cmd.Env = append(os.Environ(), "VERIF_C03C_CHILD="+strconv.Itoa(i), "VERIF_C03C_RESULT="+out)''',
    '''			cmd.Env = append(os.Environ(), "VERIF_C03C_CHILD="+strconv.Itoa(i), "VERIF_C03C_RESULT="+out, "VERIF_C03C_DIR="+tmp)''')
open('zz_verif_c03c_test.go', 'w').write(s)
