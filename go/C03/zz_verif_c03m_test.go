package durable

// C03 harness, state-handler level (injected by `go test -overlay`; lives in /verif).
//
// The master's durable StateHandler is the application-side user of Propose / ProposeIfTerm / VerifyRead
// (handler.go). Real 3-5 member groups of StateHandlers on the in-process Raft (raft.VerifNewCluster: mem transport
// + the repo's dropper / duplicator / reorder), clients call the handler API only:
//   NewPartition(curator, term)   - term-conditional write; its result (the new partition id) reveals its place;
//   GetPartitions(curator)        - verified read (VerifyRead, then local state): reveals how many were applied;
//   Lookup(partition)             - verified read of one element.
// Leaders are isolated long enough (> core.ProposalTimeout) for the handlers' timeout paths to run, reads are also
// sent to followers and deposed leaders. The history is judged by the same extracted Coq checker as the raft-level
// histories (the agreed log is synthesised from the returned partition ids: position p = the acknowledged call that
// got id p, or a placeholder indefinite write), plus Go monitors.

import (
	"bytes"
	"encoding/json"
	"flag"
	"fmt"
	"io/ioutil"
	"os"
	"os/exec"
	"path/filepath"
	"sort"
	"strconv"
	"strings"
	"sync"
	"sync/atomic"
	"testing"
	"time"

	"github.com/westerndigitalcorporation/blb/internal/core"
	"github.com/westerndigitalcorporation/blb/pkg/raft/raft"
	vw "github.com/westerndigitalcorporation/blb/pkg/verifwire"
)

const (
	mWrite  = 2 // reported as kind 2 (ProposeIfTerm)
	mRead   = 3
	mLookup = 4 // Go monitor only
	mAuxW   = 5 // a second kind of write (RegisterCurator), Go monitor only
	mAuxR   = 6 // a verified read that must see it (ValidateCuratorID), Go monitor only
	mROSet  = 7 // SetReadOnlyMode (deposed-leader probe only), Go monitor only
	mROGet  = 8 // ReadOnlyMode, a verified read of that flag, Go monitor only

	mOk    = 1
	mDef   = 2
	mIndef = 3
)

type mOp struct {
	ID       int64  `json:"id"`
	Kind     int    `json:"k"`
	Node     int    `json:"n"`
	Inv      int64  `json:"i"`
	Ret      int64  `json:"r"`
	Out      int    `json:"o"`
	R1       int64  `json:"r1"` // write: partition id; read: number of partitions; lookup: the partition asked for
	Term     int64  `json:"t"`
	Sub      string `json:"sub,omitempty"`      // which read entry point (element reads)
	BadTerm  bool   `json:"bad_term,omitempty"` // the call named a term that no leader can have
	Err      string `json:"e,omitempty"`
	ListOK   bool   `json:"list_ok,omitempty"`
	Found    bool   `json:"found,omitempty"`
	ErrValue int    `json:"ev,omitempty"`
}

type mViolation struct {
	Sig    string                 `json:"sig"`
	What   string                 `json:"what"`
	Detail map[string]interface{} `json:"detail"`
}

type mResult struct {
	Case   string           `json:"case"`
	Lines  [][]int64        `json:"lines"`
	Viol   []mViolation     `json:"viol"`
	Stats  map[string]int64 `json:"stats"`
	Finger string           `json:"finger"`
	Sample string           `json:"sample"`
}

func min(a, b int) int {
	if a < b {
		return a
	}
	return b
}

func mClassify(err core.Error) (int, string) {
	switch err {
	case core.NoError:
		return mOk, ""
	case core.ErrRaftNodeNotLeader, core.ErrLeaderContinuityBroken:
		return mDef, err.String()
	case core.ErrRaftNotLeaderAnymore, core.ErrRaftTimeout:
		return mIndef, err.String()
	default:
		return -1, err.String()
	}
}

func mRunCluster(idx int) *mResult {
	rng := vw.NewRng(vw.Seed()).Fork(uint64(500000 + idx))
	id := "m" + strconv.Itoa(idx)
	res := &mResult{Case: id, Stats: map[string]int64{}}
	report := func(sig, what string, detail map[string]interface{}) {
		for _, v := range res.Viol {
			if v.Sig == sig {
				return
			}
		}
		res.Viol = append(res.Viol, mViolation{sig, what, detail})
	}

	n := rng.PickInt(3, 3, 5)
	long := idx%2 == 0 // one isolation longer than 2 x core.ProposalTimeout
	tick := time.Duration(rng.PickInt(1, 2, 3)) * time.Millisecond
	follower := uint32(rng.Range(8, 14))
	var stepdown uint32
	if !long && rng.Chance(1, 2) {
		stepdown = follower + uint32(rng.PickInt(10, 100))
	}
	dropP := float32(rng.PickInt(0, 0, 2, 10)) / 100
	cfgs := make([]raft.Config, n)
	seeds := map[string]int64{}
	for i := range cfgs {
		name := "m" + strconv.Itoa(i)
		seeds[name] = int64(rng.U64() >> 1)
		cfgs[i] = raft.Config{
			ID: name, ClusterID: "c03m-" + id, FollowerTimeout: follower, CandidateTimeout: uint32(rng.Range(8, 14)),
			HeartbeatTimeout: 2, RandomElectionRange: uint32(rng.Range(4, 10)), LeaderStepdownTimeout: stepdown,
			SnapshotTimeout: 50, DurationPerTick: tick, MaxNumEntsPerAppEnts: 10,
			MaximumProposalBatch: uint32(rng.PickInt(1, 4, 16)),
			SnapshotThreshold:    uint64(rng.PickInt(0, 0, 20)), LogEntriesAfterSnapshot: 2,
			GenSeed: func(id string) int64 { return seeds[id] },
		}
	}
	cl := raft.VerifNewCluster(cfgs, dropP, float32(rng.PickInt(0, 10))/100, float32(rng.PickInt(0, 20))/100,
		time.Duration(rng.Range(1, 8))*time.Millisecond, int64(rng.U64()>>1))
	hs := make([]*StateHandler, n)
	members := make([]string, n)
	for i := range hs {
		hs[i] = NewStateHandler(&StateConfig{Config: cfgs[i]}, cl.Nodes[i])
		members[i] = cfgs[i].ID
	}
	for _, h := range hs {
		h.Start()
	}
	go hs[rng.Intn(n)].ProposeInitialMembership(members)
	leaders := func() []int {
		var out []int
		for i, h := range hs {
			if h.IsLeader() {
				out = append(out, i)
			}
		}
		return out
	}
	t0 := time.Now()
	for len(leaders()) == 0 && time.Since(t0) < 10*time.Second {
		time.Sleep(time.Millisecond)
	}
	// one curator to hang the partitions on
	var curator core.CuratorID
	for try := 0; try < 200 && curator == 0; try++ {
		ls := leaders()
		if len(ls) == 0 {
			time.Sleep(5 * time.Millisecond)
			continue
		}
		if c, err := hs[ls[0]].RegisterCurator(0); err == core.NoError {
			curator = c
		}
	}
	if curator == 0 {
		res.Stats["m_no_bootstrap"]++
		return res
	}

	var clock, nextID int64
	var mu sync.Mutex
	var ops []*mOp
	var stop int32
	stamp := func() int64 { return atomic.AddInt64(&clock, 1) }
	newOp := func(kind, node int) *mOp {
		op := &mOp{ID: atomic.AddInt64(&nextID, 1), Kind: kind, Node: node, Out: mIndef}
		mu.Lock()
		ops = append(ops, op)
		mu.Unlock()
		return op
	}
	var maxAcked int64
	doWrite := func(node int, r *vw.Rng) *mOp {
		op := newOp(mWrite, node)
		term := hs[node].GetTerm()
		k := 9
		if r != nil {
			k = r.Intn(10)
		}
		switch k {
		case 0:
			term += 1000 // no leader can have this term during the run
			op.BadTerm = true
		case 1:
			term = 0 // unconditional
		case 2:
			time.Sleep(time.Duration(r.Range(1, 30)) * time.Millisecond) // possibly stale
		}
		op.Term = int64(term)
		op.Inv = stamp()
		p, err := hs[node].NewPartition(curator, term)
		var unknown string
		op.Out, unknown = mClassify(err)
		op.Err = unknown
		if op.Out == mOk {
			op.R1 = int64(p)
			for {
				m := atomic.LoadInt64(&maxAcked)
				if op.R1 <= m || atomic.CompareAndSwapInt64(&maxAcked, m, op.R1) {
					break
				}
			}
		}
		if op.Out == -1 {
			report("handler/unexpected-error/newpartition/"+unknown, "NewPartition returned an error outside the documented classes",
				map[string]interface{}{"op": op})
			op.Out = mIndef
		}
		op.Ret = stamp()
		return op
	}
	doRead := func(node int) {
		op := newOp(mRead, node)
		op.Inv = stamp()
		parts, err := hs[node].GetPartitions(curator)
		var unknown string
		op.Out, unknown = mClassify(err)
		op.Err = unknown
		if op.Out == mOk {
			op.R1 = int64(len(parts))
			op.ListOK = true
			for i, p := range parts {
				if int64(p) != int64(i+1) {
					op.ListOK = false
				}
			}
		}
		if op.Out == -1 {
			report("handler/unexpected-error/getpartitions/"+unknown, "GetPartitions returned an error outside the documented classes",
				map[string]interface{}{"op": op})
			op.Out = mIndef
		}
		op.Ret = stamp()
	}
	// every verified read entry point that answers about ONE element (position p of the revealing write):
	// answered=false: the call failed or its result says nothing either way; found: positive / negative answer
	type elemRead struct {
		name string
		f    func(h *StateHandler, p int64) (answered, found bool, err core.Error)
	}
	elemReads := []elemRead{
		//ELEMREADS-BEGIN
		{"lookup", func(h *StateHandler, p int64) (bool, bool, core.Error) {
			c, err := h.Lookup(core.PartitionID(p))
			switch err {
			case core.NoError:
				return true, c == curator, core.NoError
			case core.ErrNoSuchBlob:
				return true, false, core.NoError // a NEGATIVE answer is an answer too
			}
			return false, false, err
		}},
		//ELEMREADS-END
	}
	lookupAt := func(node int, er elemRead, p int64) {
		op := newOp(mLookup, node)
		op.R1, op.Sub = p, er.name
		op.Inv = stamp()
		answered, found, err := er.f(hs[node], p)
		switch {
		case answered:
			op.Out, op.Found = mOk, found
		case err == core.NoError:
			op.Out, op.Err = mIndef, "no answer either way"
		default:
			op.Out, op.Err = mClassify(err)
			if op.Out == -1 {
				op.Out = mIndef
			}
		}
		op.Ret = stamp()
	}
	doLookup := func(node int, r *vw.Rng) {
		m := atomic.LoadInt64(&maxAcked)
		if m == 0 {
			return
		}
		p := m - int64(r.Intn(3))
		if p < 1 {
			p = 1
		}
		lookupAt(node, elemReads[r.Intn(len(elemReads))], p)
	}

	// at most 2 calls of this harness are outstanding at a node, so that an isolated leader (whose calls block for
	// core.ProposalTimeout) does not absorb all clients and keeps receiving NEW calls while the others make progress
	inflight := make([]int32, n)
	var auxMu sync.Mutex
	var auxTokens []int64
	var lastAuxTok int64
	auxWrite := func(h *StateHandler, term uint64) (int64, core.Error) {
		c, err := h.RegisterCurator(term)
		return int64(c), err
	}
	auxRead := func(h *StateHandler, token int64) (bool, core.Error) {
		switch err := h.ValidateCuratorID(core.CuratorID(token)); err {
		case core.NoError:
			return true, core.NoError
		case core.ErrBadCuratorID:
			return false, core.NoError
		default:
			return false, err
		}
	}
	doAuxW := func(node int) {
		op := newOp(mAuxW, node)
		op.Inv = stamp()
		tok, err := auxWrite(hs[node], hs[node].GetTerm())
		op.Out, op.Err = mClassify(err)
		if op.Out == -1 {
			op.Out = mIndef
		}
		if op.Out == mOk {
			op.R1 = tok
		}
		op.Ret = stamp()
		if op.Out == mOk {
			auxMu.Lock()
			auxTokens = append(auxTokens, tok)
			auxMu.Unlock()
			atomic.StoreInt64(&lastAuxTok, tok)
		}
	}
	auxReadAt := func(node int, tok int64) {
		op := newOp(mAuxR, node)
		op.R1 = tok
		op.Inv = stamp()
		found, err := auxRead(hs[node], tok)
		op.Out, op.Err = mClassify(err)
		if op.Out == -1 {
			op.Out = mIndef
		}
		op.Found = found
		op.Ret = stamp()
	}
	doAuxR := func(node int, r *vw.Rng) {
		auxMu.Lock()
		if len(auxTokens) == 0 {
			auxMu.Unlock()
			return
		}
		tok := auxTokens[len(auxTokens)-1-r.Intn(min(3, len(auxTokens)))]
		auxMu.Unlock()
		op := newOp(mAuxR, node)
		op.R1 = tok
		op.Inv = stamp()
		found, err := auxRead(hs[node], tok)
		op.Out, op.Err = mClassify(err)
		if op.Out == -1 {
			op.Out = mIndef
		}
		op.Found = found
		op.Ret = stamp()
	}
	var cw, nw sync.WaitGroup
	nclients := rng.Range(5, 8)
	for i := 0; i < nclients; i++ {
		cw.Add(1)
		go func(r *vw.Rng) {
			defer cw.Done()
			for atomic.LoadInt32(&stop) == 0 {
				node := r.Intn(n)
				if ls := leaders(); len(ls) > 0 && r.Chance(2, 3) {
					node = ls[r.Intn(len(ls))]
				}
				if atomic.AddInt32(&inflight[node], 1) > 2 {
					atomic.AddInt32(&inflight[node], -1)
					time.Sleep(time.Millisecond)
					continue
				}
				switch k := r.Intn(14); {
				case k < 5:
					doWrite(node, r)
				case k < 8:
					doRead(node)
				case k < 10:
					doLookup(node, r)
				case k < 12:
					doAuxW(node)
				default:
					doAuxR(node, r)
				}
				atomic.AddInt32(&inflight[node], -1)
				pause := r.Range(1000, 8000)
				if long {
					pause *= 4 // the long cases run ~11 s; keep the history at a few thousand calls
				}
				time.Sleep(time.Duration(pause) * time.Microsecond)
			}
		}(rng.Fork(uint64(1000 + i)))
	}
	isolate := func(l int) {
		for j := 0; j < n; j++ {
			if j != l {
				cl.Link(l, j, 1)
				cl.Link(j, l, 1)
			}
		}
	}
	nw.Add(1)
	go func(r *vw.Rng) {
		defer nw.Done()
		time.Sleep(time.Duration(r.Range(100, 400)) * time.Millisecond)
		if long {
			// keep one leader cut off for longer than the handlers' proposal timeout
			if ls := leaders(); len(ls) > 0 {
				isolate(ls[0])
				res.Stats["m_long_isolation"]++
				time.Sleep(2*core.ProposalTimeout + time.Duration(r.Range(500, 1000))*time.Millisecond)
				cl.HealAll(dropP)
			}
		}
		for atomic.LoadInt32(&stop) == 0 {
			switch r.Intn(5) {
			case 0, 1:
				if ls := leaders(); len(ls) > 0 {
					isolate(ls[r.Intn(len(ls))])
					res.Stats["m_isolate_leader"]++
				}
			case 2:
				isolate(r.Intn(n)) // an isolated follower keeps answering (it must refuse verified reads)
				res.Stats["m_isolate_node"]++
			default:
				cl.HealAll(dropP)
			}
			time.Sleep(time.Duration(r.Range(80, 400)) * time.Millisecond)
		}
	}(rng.Fork(999))
	dur := time.Duration(rng.Range(1800, 2600)) * time.Millisecond
	if long {
		dur += 2*core.ProposalTimeout + time.Second
	}
	time.Sleep(dur)
	atomic.StoreInt32(&stop, 1)
	nw.Wait()
	cl.HealAll(0)
	cl.Quiet()
	cw.Wait() // handler calls return after at most core.ProposalTimeout

	// ---- deposed-leader probe (short cases): cut the leader (and, with 5 members, one follower) off, let the rest
	// elect a new leader, have one command of every kind acknowledged there, then ask EVERY verified read entry
	// point on every member: an answer returned with a nil error must reflect those commands.
	roStuck := false
	if !long {
		func() {
			wait := func(cond func() bool, d time.Duration) bool {
				end := time.Now().Add(d)
				for !cond() && time.Now().Before(end) {
					time.Sleep(time.Millisecond)
				}
				return cond()
			}
			if !wait(func() bool { return len(leaders()) > 0 }, 3*time.Second) {
				res.Stats["m_probe_skipped_no_leader"]++
				return
			}
			a := leaders()[0]
			cut := map[int]bool{a: true}
			if n >= 5 {
				cut[(a+1)%n] = true
			}
			for i := range cut {
				isolate(i)
			}
			newLeader := func() int {
				for _, l := range leaders() {
					if !cut[l] {
						return l
					}
				}
				return -1
			}
			if !wait(func() bool { return newLeader() >= 0 }, 5*time.Second) {
				res.Stats["m_probe_skipped_no_new_leader"]++
				cl.HealAll(0)
				return
			}
			var w *mOp
			end := time.Now().Add(5 * time.Second)
			for w == nil && time.Now().Before(end) {
				if b := newLeader(); b >= 0 {
					if op := doWrite(b, vw.NewRng(11)); op.Out == mOk && !op.BadTerm {
						w = op
					}
				}
			}
			tokBefore := atomic.LoadInt64(&lastAuxTok)
			for try := 0; try < 50 && atomic.LoadInt64(&lastAuxTok) == tokBefore; try++ {
				if b := newLeader(); b >= 0 {
					doAuxW(b)
				}
			}
			roSet := func(v bool) *mOp {
				for try := 0; try < 200; try++ {
					b := newLeader()
					if b < 0 {
						time.Sleep(5 * time.Millisecond)
						continue
					}
					op := newOp(mROSet, b)
					if v {
						op.R1 = 1
					}
					op.Inv = stamp()
					op.Out, op.Err = mClassify(hs[b].SetReadOnlyMode(v))
					if op.Out == -1 {
						op.Out = mIndef
					}
					op.Ret = stamp()
					if op.Out == mOk {
						return op
					}
				}
				return nil
			}
			ro := roSet(true)
			var pw sync.WaitGroup
			for node := 0; node < n; node++ {
				if w != nil {
					for _, er := range elemReads {
						pw.Add(1)
						go func(node int, er elemRead) { defer pw.Done(); lookupAt(node, er, w.R1) }(node, er)
					}
					pw.Add(1)
					go func(node int) { defer pw.Done(); doRead(node) }(node)
				}
				if tok := atomic.LoadInt64(&lastAuxTok); tok != tokBefore {
					pw.Add(1)
					go func(node int) { defer pw.Done(); auxReadAt(node, tok) }(node)
				}
				if ro != nil {
					pw.Add(1)
					go func(node int) {
						defer pw.Done()
						op := newOp(mROGet, node)
						op.Inv = stamp()
						v, err := hs[node].ReadOnlyMode()
						op.Out, op.Err = mClassify(err)
						if op.Out == -1 {
							op.Out = mIndef
						}
						op.Found = v
						op.Ret = stamp()
					}(node)
				}
			}
			pw.Wait()
			if ro != nil {
				if roSet(false) == nil {
					res.Stats["m_probe_readonly_not_cleared"]++
					roStuck = true
				}
			}
			res.Stats["m_probes"]++
			cl.HealAll(0)
		}()
	}

	// ---- directed message-level scenarios (short cases, quiet network), using the hold-and-release layer
	if !long && !roStuck {
		waitFor := func(cond func() bool, d time.Duration) bool {
			end := time.Now().Add(d)
			for !cond() && time.Now().Before(end) {
				time.Sleep(time.Millisecond)
			}
			return cond()
		}
		otherLeader := func(not int, d time.Duration) int {
			w := -1
			waitFor(func() bool {
				for _, l := range leaders() {
					if l != not {
						w = l
						return true
					}
				}
				return false
			}, d)
			return w
		}
		// a leader that is alone in believing so and gets a command acknowledged right now
		stableLeader := func() int {
			end := time.Now().Add(4 * time.Second)
			for time.Now().Before(end) {
				if ls := leaders(); len(ls) == 1 {
					if doWrite(ls[0], nil).Out == mOk {
						return ls[0]
					}
				}
				time.Sleep(2 * time.Millisecond)
			}
			return -1
		}
		allReads := func(pw *sync.WaitGroup, node int, p int64) {
			for _, er := range elemReads {
				pw.Add(1)
				go func(er elemRead) { defer pw.Done(); lookupAt(node, er, p) }(er)
			}
			pw.Add(1)
			go func() { defer pw.Done(); doRead(node) }()
		}
		// (1) "new leader before its NOP": X is acknowledged by leader A while the followers get the entry but not its
		// commit; A is cut off; acknowledgements among the followers are held, so the winner of the election holds X
		// unapplied and cannot commit its NOP; every verified read is requested there; then everything is released.
		for rep := 0; rep < 2; rep++ {
			a := stableLeader()
			if a < 0 {
				break
			}
			for j := 0; j < n; j++ {
				if j != a {
					cl.Hold(a, j, raft.VerifHoldQ, raft.VerifCommitHB)
				}
			}
			x := doWrite(a, nil)
			ok := x.Out == mOk
			isolate(a)
			for j := 0; j < n; j++ {
				if j != a {
					cl.Release(a, j, true)
					for k := 0; k < n; k++ {
						if ok && k != a && k != j {
							cl.Hold(j, k, raft.VerifHoldQ, raft.VerifAcks)
						}
					}
				}
			}
			var pw sync.WaitGroup
			if ok {
				if w := otherLeader(a, 3*time.Second); w >= 0 {
					res.Stats["m_scenario_stuck_new_leader_armed"]++
					allReads(&pw, w, x.R1)
					time.Sleep(10 * time.Millisecond)
				}
			}
			cl.ReleaseAll(false)
			cl.HealAll(0)
			pw.Wait()
			res.Stats["m_scenario_stuck_new_leader"]++
		}
		// (2) "held acknowledgements": a write and verified reads are in flight at leader L while everything sent TO L
		// is held; L is cut off, a new leader acknowledges a newer command; more verified reads are requested at L;
		// the held messages are released in order.
		func() {
			l := stableLeader()
			if l < 0 {
				return
			}
			for j := 0; j < n; j++ {
				if j != l {
					cl.Hold(j, l, raft.VerifHoldQ, raft.VerifAll)
				}
			}
			var pw sync.WaitGroup
			pw.Add(1)
			go func() { defer pw.Done(); doWrite(l, nil) }()
			time.Sleep(time.Millisecond)
			pw.Add(1)
			go func() { defer pw.Done(); doRead(l) }()
			time.Sleep(12 * tick)
			for j := 0; j < n; j++ {
				if j != l {
					cl.Link(l, j, 1)
				}
			}
			var y *mOp
			if nl := otherLeader(l, 3*time.Second); nl >= 0 {
				for try := 0; try < 10 && y == nil; try++ {
					if nl = otherLeader(l, time.Second); nl >= 0 {
						if op := doWrite(nl, nil); op.Out == mOk {
							y = op
						}
					}
				}
			}
			if y != nil {
				res.Stats["m_scenario_held_acks_armed"]++
				allReads(&pw, l, y.R1)
				time.Sleep(30 * time.Millisecond)
			}
			for j := 0; j < n; j++ {
				if j != l {
					cl.Release(j, l, false)
				}
			}
			cl.HealAll(0)
			pw.Wait()
			res.Stats["m_scenario_held_acks"]++
		}()
	}

	// barrier + convergence
	var barrier *mOp
	deadline := time.Now().Add(30 * time.Second)
	for barrier == nil && !roStuck && time.Now().Before(deadline) {
		ls := leaders()
		if len(ls) == 0 {
			time.Sleep(5 * time.Millisecond)
			continue
		}
		if op := doWrite(ls[0], vw.NewRng(7)); op.Out == mOk && !op.BadTerm {
			barrier = op
		}
	}
	counts := make([]int64, n)
	readCounts := func() {
		for i, h := range hs {
			h.lock.Lock()
			counts[i] = int64(len(h.state.Partitions) - 1)
			h.lock.Unlock()
		}
	}
	deadline = time.Now().Add(10 * time.Second)
	for time.Now().Before(deadline) {
		readCounts()
		ok := barrier != nil
		for _, c := range counts {
			if barrier != nil && c < barrier.R1 {
				ok = false
			}
		}
		if ok {
			break
		}
		time.Sleep(2 * time.Millisecond)
	}
	readCounts()

	// ---- synthesise the agreed log from the returned ids
	sort.Slice(ops, func(i, j int) bool { return ops[i].Inv < ops[j].Inv })
	var nL int64
	for _, c := range counts {
		if c > nL {
			nL = c
		}
	}
	claimed := map[int64]*mOp{}
	indefWrites := int64(0)
	for _, op := range ops {
		if op.Kind != mWrite {
			continue
		}
		if op.Out == mIndef {
			indefWrites++
		}
		if op.Out != mOk {
			continue
		}
		if prev, dup := claimed[op.R1]; dup {
			report("handler/same-id-returned-twice", "two acknowledged NewPartition calls returned the same partition id",
				map[string]interface{}{"a": prev, "b": op})
			continue
		}
		claimed[op.R1] = op
		if op.BadTerm {
			report("handler/impossible-term-acknowledged", "a term-conditional call naming a term no leader had was acknowledged",
				map[string]interface{}{"op": op})
		}
		if op.R1 > nL {
			report("handler/acked-not-applied", "an acknowledged NewPartition is in no replica's state", map[string]interface{}{"op": op, "replica_counts": counts})
		}
	}
	idAt := func(p int64) int64 {
		if p <= 0 {
			return 0
		}
		if op := claimed[p]; op != nil {
			return op.ID
		}
		return 1000000 + p
	}
	unclaimed := int64(0)
	for p := int64(1); p <= nL; p++ {
		if claimed[p] == nil {
			unclaimed++
			res.Lines = append(res.Lines, []int64{1, 1000000 + p, 1, 0, 0, 0, mIndef, 0, 0, 0, 0}) // placeholder, invoked "at time 0"
		}
	}
	if unclaimed > indefWrites {
		report("handler/unexplained-partitions", "replicas hold more partitions than acknowledged plus indefinite calls can explain (a definitely rejected or phantom command was applied)",
			map[string]interface{}{"unclaimed": unclaimed, "indefinite_calls": indefWrites})
	}
	for _, op := range ops {
		switch op.Kind {
		case mWrite:
			out := op.Out
			if op.BadTerm && out == mOk {
				out = mDef // by the specification this call had to be rejected definitely; the checker then reports 6
			}
			res.Lines = append(res.Lines, []int64{1, op.ID, 2, int64(op.Node), op.Inv, op.Ret, int64(out), op.R1, idAt(op.R1 - 1), 0, 0})
		case mRead:
			out := op.Out
			if out == mDef {
				out = mDef
			}
			res.Lines = append(res.Lines, []int64{1, op.ID, 3, int64(op.Node), op.Inv, op.Ret, int64(out), op.R1, idAt(op.R1), 0, 0})
			if op.Out == mOk && !op.ListOK {
				report("handler/partition-list-not-a-prefix", "GetPartitions returned a list that is not 1..k", map[string]interface{}{"op": op})
			}
		}
	}
	for i, c := range counts {
		l := []int64{2, int64(i), c}
		for p := int64(1); p <= c; p++ {
			l = append(l, idAt(p), 0)
		}
		res.Lines = append(res.Lines, l)
	}

	// ---- Go monitors: freshness of the verified reads
	for _, r := range ops {
		if r.Out != mOk || (r.Kind != mRead && r.Kind != mLookup) {
			continue
		}
		for _, w := range ops {
			if w.Kind != mWrite || w.Out != mOk || w.BadTerm || w.Ret >= r.Inv {
				continue
			}
			if r.Kind == mRead && w.R1 > r.R1 {
				report("handler/stale-verified-read/getpartitions", "GetPartitions misses a partition acknowledged before it was called",
					map[string]interface{}{"read": r, "missed": w})
			}
			if r.Kind == mLookup && w.R1 == r.R1 && !r.Found {
				report("handler/stale-verified-read/"+r.Sub, "a verified element read answered (nil error) that an element does not exist although its creation was acknowledged before the read was requested",
					map[string]interface{}{"read": r, "missed": w})
			}
		}
	}
	for _, r := range ops {
		if r.Kind != mAuxR || r.Out != mOk || r.Found {
			continue
		}
		for _, w := range ops {
			if w.Kind == mAuxW && w.Out == mOk && w.R1 == r.R1 && w.Ret < r.Inv {
				report("handler/stale-verified-read/validatecuratorid", "ValidateCuratorID does not know a curator whose registration was acknowledged before it was called",
					map[string]interface{}{"read": r, "missed": w})
			}
		}
	}
	// the read-only flag: set once (probe), cleared only after all probe reads returned
	for _, r := range ops {
		if r.Kind != mROGet || r.Out != mOk || r.Found {
			continue
		}
		for _, w := range ops {
			if w.Kind == mROSet && w.Out == mOk && w.R1 == 1 && w.Ret < r.Inv {
				report("handler/stale-verified-read/readonlymode", "ReadOnlyMode answered false (nil error) although SetReadOnlyMode(true) was acknowledged before it was called",
					map[string]interface{}{"read": r, "missed": w})
			}
		}
	}
	kinds := map[int]string{mROSet: "setreadonlymode", mROGet: "readonlymode", mWrite: "newpartition", mRead: "getpartitions", mLookup: "elem_", mAuxW: "registercurator", mAuxR: "validatecuratorid"}
	outs := map[int]string{1: "ok", 2: "definite_err", 3: "indefinite"}
	for _, op := range ops {
		res.Stats["m_"+kinds[op.Kind]+op.Sub+"_"+outs[op.Out]]++
		if op.Err != "" {
			res.Stats["m_err_"+strings.ReplaceAll(op.Err, " ", "_")]++
		}
	}
	res.Stats["m_clusters"]++
	res.Finger = fmt.Sprintf("m n%d long%v ops%d parts%d", n, long, len(ops), nL)
	res.Sample = fmt.Sprintf("case %s: master StateHandlers, %d members, long isolation %v, stepdown %d; %d handler calls, %d partitions, %d unclaimed positions",
		id, n, long, stepdown, len(ops), nL, unclaimed)
	return res
}

func TestVerifC03M(t *testing.T) {
	if !vw.Enabled() {
		t.Skip("run through bin/check")
	}
	if c := os.Getenv("VERIF_C03M_CHILD"); c != "" {
		flag.Set("logtostderr", "true")
		idx, _ := strconv.Atoi(c)
		b, _ := json.Marshal(mRunCluster(idx))
		if err := ioutil.WriteFile(os.Getenv("VERIF_C03M_RESULT"), b, 0o644); err != nil {
			t.Fatal(err)
		}
		return
	}
	ncases := vw.Scale(8, 150)
	tmp, err := ioutil.TempDir("", "c03m")
	if err != nil {
		t.Fatal(err)
	}
	defer os.RemoveAll(tmp)
	results := make([]*mResult, ncases)
	crashes := make([]string, ncases)
	sem := make(chan struct{}, 10)
	var wg sync.WaitGroup
	for i := 0; i < ncases; i++ {
		if !vw.CaseSelected("m" + strconv.Itoa(i)) {
			continue
		}
		wg.Add(1)
		sem <- struct{}{}
		go func(i int) {
			defer wg.Done()
			defer func() { <-sem }()
			out := filepath.Join(tmp, fmt.Sprintf("r%d.json", i))
			cmd := exec.Command(os.Args[0], "-test.run", "^TestVerifC03M$", "-test.timeout", "180s")
			cmd.Env = append(os.Environ(), "VERIF_C03M_CHILD="+strconv.Itoa(i), "VERIF_C03M_RESULT="+out)
			var buf bytes.Buffer
			cmd.Stderr, cmd.Stdout = &buf, &buf
			runErr := cmd.Run()
			if b, rerr := ioutil.ReadFile(out); rerr == nil {
				var r mResult
				if json.Unmarshal(b, &r) == nil {
					results[i] = &r
					return
				}
			}
			s := buf.String()
			if len(s) > 6000 {
				s = s[len(s)-6000:]
			}
			crashes[i] = fmt.Sprintf("%v\n%s", runErr, s)
		}(i)
	}
	wg.Wait()
	tr := vw.OpenTrace("C03M.trace")
	for i := 0; i < ncases; i++ {
		id := "m" + strconv.Itoa(i)
		if crashes[i] != "" {
			vw.Report(vw.Violation{Property: "C03", Signature: "handler/crash", Case: id,
				What:   "the master state-handler group crashed or hung",
				Detail: map[string]interface{}{"output": crashes[i]}})
			continue
		}
		r := results[i]
		if r == nil || len(r.Lines) == 0 {
			continue
		}
		tr.Case(id)
		for _, l := range r.Lines {
			tr.Op(l...)
			tr.Obs(0)
		}
		tr.Op(777)
		tr.Obs(777, 1)
		for _, v := range r.Viol {
			vw.Report(vw.Violation{Property: "C03", Signature: v.Sig, What: v.What, Case: id, Detail: v.Detail})
		}
		for k, v := range r.Stats {
			vw.Stat(k, v)
		}
		vw.Distinct(r.Finger)
		vw.Sample(r.Sample)
	}
	tr.Close()
	vw.Sample("(end of samples)")
	vw.Finish("C03M")
}
