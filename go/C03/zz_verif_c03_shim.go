package raft

// C03 shim (injected by `go test -overlay`; lives in /verif): lets harnesses in OTHER packages (the durable state
// handlers of master and curator) assemble a real in-process Raft group on the mem transport wrapped by the
// repository's own fault injectors. Nothing here changes the behaviour of the package.

import (
	"sync"
	"time"
)

// VerifSnapOnce sits between the repo's msgDuplicator and msgDropper and lets every InstallSnapshot message object
// through only once. The mem transport hands message POINTERS to the receiver, and core.HandleMsg closes
// InstallSnapshot.Body after processing it, so a pointer-duplicate of that message would be read after Close
// (nil dereference in memSnapshotReader.Read) - an artifact of duplicating pointers that no serialising transport
// has. All other messages are duplicated as the repo's duplicator decides.
type VerifSnapOnce struct {
	lower Transport
	mu    sync.Mutex
	seen  map[*InstallSnapshot]bool
}

func NewVerifSnapOnce(lower Transport) *VerifSnapOnce {
	return &VerifSnapOnce{lower: lower, seen: map[*InstallSnapshot]bool{}}
}
func (t *VerifSnapOnce) Addr() string        { return t.lower.Addr() }
func (t *VerifSnapOnce) Receive() <-chan Msg { return t.lower.Receive() }
func (t *VerifSnapOnce) Close() error        { return t.lower.Close() }
func (t *VerifSnapOnce) Send(m Msg) {
	if s, ok := m.(*InstallSnapshot); ok {
		t.mu.Lock()
		dup := t.seen[s]
		t.seen[s] = true
		t.mu.Unlock()
		if dup {
			return
		}
	}
	t.lower.Send(m)
}

type VerifCluster struct {
	Nodes    []*Raft
	names    []string
	drops    []*msgDropper
	dups     []*msgDuplicator
	reorders []*msgReorder
}

// VerifNewCluster creates (does not start) one Raft node per config.
func VerifNewCluster(cfgs []Config, dropP, dupP, reorderP float32, reorderMax time.Duration, seed int64) *VerifCluster {
	c := &VerifCluster{}
	var mems []*memTransport
	for i, rc := range cfgs {
		mem := NewMemTransport(TransportConfig{Addr: rc.ID, MsgChanCap: 1024}).(*memTransport)
		mems = append(mems, mem)
		dr := NewMsgDropper(mem, seed+int64(3*i), dropP).(*msgDropper)
		du := NewMsgDuplicator(NewVerifSnapOnce(dr), 20, dupP, seed+int64(3*i+1)).(*msgDuplicator)
		if reorderMax <= 0 {
			reorderMax = time.Millisecond
		}
		re := NewMsgReorder(du, reorderP, reorderMax, seed+int64(3*i+2)).(*msgReorder)
		c.Nodes = append(c.Nodes, NewRaft(rc, newStorage(), re))
		c.names = append(c.names, rc.ID)
		c.drops = append(c.drops, dr)
		c.dups = append(c.dups, du)
		c.reorders = append(c.reorders, re)
	}
	connectAll(mems)
	return c
}

// Link sets the drop probability of the directed link i -> j (msgDropper.Set, as the package's tests do).
func (c *VerifCluster) Link(i, j int, p float32) { c.drops[i].Set(c.names[j], p) }

// HealAll sets every link to drop probability p.
func (c *VerifCluster) HealAll(p float32) {
	for i := range c.Nodes {
		for j := range c.Nodes {
			if i != j {
				c.Link(i, j, p)
			}
		}
	}
}

// Quiet switches duplication and delays off.
func (c *VerifCluster) Quiet() {
	for i := range c.Nodes {
		c.dups[i].lock.Lock()
		c.dups[i].msgDupProb = 0
		c.dups[i].lock.Unlock()
		c.reorders[i].lock.Lock()
		c.reorders[i].msgDelayProb = 0
		c.reorders[i].lock.Unlock()
	}
}
