package raft

// C03 shim (injected by `go test -overlay`; lives in /verif): lets harnesses in OTHER packages (the durable state
// handlers of master and curator) assemble a real in-process Raft group on the mem transport wrapped by the
// repository's own fault injectors. Nothing here changes the behaviour of the package.

import (
	"sync"
	"time"
)

// VerifSnapOnce sits between the repo's msgDuplicator and msgDropper and lets every InstallSnapshot message object
// through only once. The mem transport hands message POINTERS to the receiver, and core.HandleMsg closes
// InstallSnapshot.Body after processing it, so a pointer-duplicate of that message would be read after Close
// (nil dereference in memSnapshotReader.Read) - an artifact of duplicating pointers that no serialising transport
// has. All other messages are duplicated as the repo's duplicator decides.
type VerifSnapOnce struct {
	lower Transport
	mu    sync.Mutex
	seen  map[*InstallSnapshot]bool
}

func NewVerifSnapOnce(lower Transport) *VerifSnapOnce {
	return &VerifSnapOnce{lower: lower, seen: map[*InstallSnapshot]bool{}}
}
func (t *VerifSnapOnce) Addr() string        { return t.lower.Addr() }
func (t *VerifSnapOnce) Receive() <-chan Msg { return t.lower.Receive() }
func (t *VerifSnapOnce) Close() error        { return t.lower.Close() }
func (t *VerifSnapOnce) Send(m Msg) {
	if s, ok := m.(*InstallSnapshot); ok {
		t.mu.Lock()
		dup := t.seen[s]
		t.seen[s] = true
		t.mu.Unlock()
		if dup {
			return
		}
	}
	t.lower.Send(m)
}

// VerifHold is a hold-and-release layer on the sender side of a node's transport (outermost wrapper): per
// destination, messages of a chosen class pass, are queued (and later released IN ORDER, or discarded), or are dropped.
// It gives the harness the message-level control that random loss rarely produces: acknowledgements held back while a
// leader is deposed, commit-carrying heartbeats held back so that a follower has an entry but not its commit, ...
type VerifHold struct {
	lower Transport
	mu    sync.Mutex
	rule  map[string][2]int // destination -> (mode, class)
	q     map[string][]Msg
}

const (
	VerifPass  = 0
	VerifHoldQ = 1
	VerifDrop  = 2

	VerifAll      = 0 // every message
	VerifAcks     = 1 // AppEntsResp only
	VerifCommitHB = 2 // AppEnts that let the follower commit everything they carry (LeaderCommit >= PrevLogIndex+len(Entries))
)

func NewVerifHold(lower Transport) *VerifHold {
	return &VerifHold{lower: lower, rule: map[string][2]int{}, q: map[string][]Msg{}}
}
func (t *VerifHold) Addr() string        { return t.lower.Addr() }
func (t *VerifHold) Receive() <-chan Msg { return t.lower.Receive() }
func (t *VerifHold) Close() error        { return t.lower.Close() }
func verifClass(m Msg, class int) bool {
	switch class {
	case VerifAcks:
		_, ok := m.(*AppEntsResp)
		return ok
	case VerifCommitHB:
		a, ok := m.(*AppEnts)
		return ok && a.LeaderCommit >= a.PrevLogIndex+uint64(len(a.Entries))
	}
	return true
}
func (t *VerifHold) Send(m Msg) {
	t.mu.Lock()
	r := t.rule[m.GetTo()]
	if r[0] != VerifPass && verifClass(m, r[1]) {
		if r[0] == VerifHoldQ {
			t.q[m.GetTo()] = append(t.q[m.GetTo()], m)
		}
		t.mu.Unlock()
		return
	}
	t.mu.Unlock()
	t.lower.Send(m)
}

// Set installs a rule for one destination (queued messages stay queued).
func (t *VerifHold) Set(to string, mode, class int) {
	t.mu.Lock()
	t.rule[to] = [2]int{mode, class}
	t.mu.Unlock()
}

// Release lets the link pass again and delivers what was queued, in order. Discard forgets the queue instead.
func (t *VerifHold) Release(to string, discard bool) int {
	t.mu.Lock()
	q := t.q[to]
	delete(t.q, to)
	delete(t.rule, to)
	t.mu.Unlock()
	if !discard {
		for _, m := range q {
			t.lower.Send(m)
		}
	}
	return len(q)
}

type VerifCluster struct {
	holds    []*VerifHold
	Nodes    []*Raft
	names    []string
	drops    []*msgDropper
	dups     []*msgDuplicator
	reorders []*msgReorder
}

// VerifNewCluster creates (does not start) one Raft node per config.
func VerifNewCluster(cfgs []Config, dropP, dupP, reorderP float32, reorderMax time.Duration, seed int64) *VerifCluster {
	c := &VerifCluster{}
	var mems []*memTransport
	for i, rc := range cfgs {
		mem := NewMemTransport(TransportConfig{Addr: rc.ID, MsgChanCap: 1024}).(*memTransport)
		mems = append(mems, mem)
		dr := NewMsgDropper(mem, seed+int64(3*i), dropP).(*msgDropper)
		du := NewMsgDuplicator(NewVerifSnapOnce(dr), 20, dupP, seed+int64(3*i+1)).(*msgDuplicator)
		if reorderMax <= 0 {
			reorderMax = time.Millisecond
		}
		re := NewMsgReorder(du, reorderP, reorderMax, seed+int64(3*i+2)).(*msgReorder)
		ho := NewVerifHold(re)
		c.holds = append(c.holds, ho)
		c.Nodes = append(c.Nodes, NewRaft(rc, newStorage(), ho))
		c.names = append(c.names, rc.ID)
		c.drops = append(c.drops, dr)
		c.dups = append(c.dups, du)
		c.reorders = append(c.reorders, re)
	}
	connectAll(mems)
	return c
}

// Link sets the drop probability of the directed link i -> j (msgDropper.Set, as the package's tests do).
func (c *VerifCluster) Link(i, j int, p float32) { c.drops[i].Set(c.names[j], p) }

// HealAll sets every link to drop probability p.
func (c *VerifCluster) HealAll(p float32) {
	for i := range c.Nodes {
		for j := range c.Nodes {
			if i != j {
				c.Link(i, j, p)
			}
		}
	}
}

// Hold installs a hold rule on the directed link i -> j; Release lifts it (delivering or discarding the queue).
func (c *VerifCluster) Hold(i, j, mode, class int) { c.holds[i].Set(c.names[j], mode, class) }
func (c *VerifCluster) Release(i, j int, discard bool) int {
	return c.holds[i].Release(c.names[j], discard)
}
func (c *VerifCluster) ReleaseAll(discard bool) {
	for i := range c.Nodes {
		for j := range c.Nodes {
			if i != j {
				c.Release(i, j, discard)
			}
		}
	}
}

// Quiet switches duplication and delays off.
func (c *VerifCluster) Quiet() {
	for i := range c.Nodes {
		c.dups[i].lock.Lock()
		c.dups[i].msgDupProb = 0
		c.dups[i].lock.Unlock()
		c.reorders[i].lock.Lock()
		c.reorders[i].msgDelayProb = 0
		c.reorders[i].lock.Unlock()
	}
}
