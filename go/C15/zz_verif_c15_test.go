package blb

// C15 harness (injected by `go test -overlay`; lives in /verif).
// Drives the real Client / Blob / ReadaheadBlob over the repository's in-memory master, curator and
// tractserver talkers at the real tract size, on generated operation sequences, and records for every
// operation what the implementation returned (count, error class, data as RLE, Blob.offset, bufio
// Buffered(), number of curator GetTracts RPCs so far). The trace is replayed through the extracted Coq model.
// Independently of the model, a plain byte-slice sparse-file oracle (MONITOR) checks every result
// against the property's wording.

import (
	"bytes"
	"context"
	"encoding/binary"
	"fmt"
	"io"
	"strings"
	"sync"
	"sync/atomic"
	"testing"

	"github.com/westerndigitalcorporation/blb/internal/core"
	vw "github.com/westerndigitalcorporation/blb/pkg/verifwire"
)

const (
	c15TL      = int64(TractLength)
	c15MaxSize = 6 * c15TL // largest blob a generated case builds
	c15Dirty   = 0xEE      // read buffers are pre-filled with this value (never written by a generated write)
	c15SeekSet = int64(0)
	c15SeekCur = int64(1)
	c15SeekEnd = int64(2)
)

// counting wrapper around the in-memory curator talker: makes tract-cache hits observable
type c15curators struct {
	CuratorTalker
	n    *int64
	mu   sync.Mutex
	ptrs map[core.TractKey]core.TractPointer // non-nil = RS mode
	// curator-side fault oracle, armed for one client operation
	cf     []c15cfault
	ccalls map[int]int
}

// c15cfault: call 1 StatBlob, 2 GetTracts, 3 ExtendBlob, 4 AckExtendBlob, 5 master LookupPartition;
// which 0/1 = the first/second such call of the operation fails, 9 = every one; ek 0 = ErrRPC (retriable), 1 = ErrInvalidState
type c15cfault struct{ call, which, ek int }

func (c *c15curators) fail(call int) core.Error {
	c.mu.Lock()
	defer c.mu.Unlock()
	if c.cf == nil {
		return core.NoError
	}
	k := c.ccalls[call]
	c.ccalls[call] = k + 1
	for _, f := range c.cf {
		if f.call == call && (f.which == 9 || f.which == k) {
			if f.ek == 0 {
				return core.ErrRPC
			}
			return core.ErrInvalidState
		}
	}
	return core.NoError
}

func (c *c15curators) armC(fs []c15cfault) {
	c.mu.Lock()
	c.cf, c.ccalls = fs, map[int]int{}
	c.mu.Unlock()
}

func (c *c15curators) StatBlob(ctx context.Context, addr string, blob core.BlobID) (core.BlobInfo, core.Error) {
	if e := c.fail(1); e != core.NoError {
		return core.BlobInfo{}, e
	}
	return c.CuratorTalker.StatBlob(ctx, addr, blob)
}

func (c *c15curators) ExtendBlob(ctx context.Context, addr string, blob core.BlobID, numTracts int) ([]core.TractInfo, core.Error) {
	if e := c.fail(3); e != core.NoError {
		return nil, e
	}
	return c.CuratorTalker.ExtendBlob(ctx, addr, blob, numTracts)
}

func (c *c15curators) AckExtendBlob(ctx context.Context, addr string, blob core.BlobID, tracts []core.TractInfo) core.Error {
	if e := c.fail(4); e != core.NoError {
		return e
	}
	return c.CuratorTalker.AckExtendBlob(ctx, addr, blob, tracts)
}

type c15master struct {
	MasterConnection
	cur *c15curators
}

func (m *c15master) LookupPartition(ctx context.Context, partition core.PartitionID) (string, core.Error) {
	if e := m.cur.fail(5); e != core.NoError {
		return "", e
	}
	return m.MasterConnection.LookupPartition(ctx, partition)
}

func c15cfaultsWire(fs []c15cfault) []int64 {
	out := []int64{int64(len(fs))}
	for _, f := range fs {
		out = append(out, int64(f.call), int64(f.which+10*f.ek))
	}
	return out
}

func (c *c15curators) GetTracts(ctx context.Context, addr string, blob core.BlobID, start, end int, forRead, forWrite bool) ([]core.TractInfo, core.Error) {
	if e := c.fail(2); e != core.NoError {
		return nil, e // a failed call is not counted
	}
	atomic.AddInt64(c.n, 1)
	tracts, err := c.CuratorTalker.GetTracts(ctx, addr, blob, start, end, forRead, forWrite)
	c.mu.Lock()
	ptrs := c.ptrs
	c.mu.Unlock()
	if err != core.NoError || ptrs == nil {
		return tracts, err
	}
	// the blob's tracts have been moved into an RS chunk: the curator answers with RS pointers and no hosts
	out := make([]core.TractInfo, len(tracts))
	for i, ti := range tracts {
		out[i] = core.TractInfo{Tract: ti.Tract, Version: ti.Version, RS: ptrs[ti.Tract.Index]}
	}
	return out, core.NoError
}

const c15RSHost = "rs-piece-host"

// tractserver talker wrapper: serves one RS piece on c15RSHost the way a tractserver serves any tract
// (a read crossing the end of the piece returns the bytes with EOF); everything else goes to the in-memory doubles.
type c15tss struct {
	TractserverTalker
	mu    sync.Mutex
	piece []byte
}

func (ts *c15tss) ReadInto(ctx context.Context, addr string, id core.TractID, version int, b []byte, off int64) (int, core.Error) {
	if addr != c15RSHost {
		return ts.TractserverTalker.ReadInto(ctx, addr, id, version, b, off)
	}
	if version != core.RSChunkVersion {
		return 0, core.ErrVersionMismatch
	}
	ts.mu.Lock()
	piece := ts.piece
	ts.mu.Unlock()
	if off > int64(len(piece)) {
		return 0, core.ErrEOF
	}
	n := copy(b, piece[off:])
	if n < len(b) {
		return n, core.ErrEOF
	}
	return n, core.NoError
}

type c15line struct{ op, obs []int64 }

type c15env struct {
	id    string
	cli   *Client
	blob  *Blob
	ra    *ReadaheadBlob
	rpcs  int64
	lines []c15line

	// MONITOR state: a plain sparse file
	oracle    []byte // content; len = furthest byte ever written
	opos      int64  // what Blob.offset must be, if known
	oposKnown bool
	raPos     int64 // logical position of the read-ahead wrapper, if known
	raKnown   bool
	nwrites   int

	// read-fault oracle: armed only for the duration of one faulted read
	repl   int
	fmu    sync.Mutex
	faults map[int]int // tract index -> kind (1 all replicas fail, 2 all but replica 0 fail, 3 all fail during the first attempt, 10+r only replica r answers)
	calls  map[int]int // read RPCs seen per tract since arming
	// write-fault oracle: (tract, replica slot) -> kind (1 for the whole call, 3 first write RPC to that slot only)
	wfaults map[[2]int]int
	wcalls  map[[2]int]int

	cur   *c15curators
	tss   *c15tss
	memTS *memTractserverTalker
	memCu *memCuratorTalker
	inRS  bool
}

type c15wfault struct{ tract, replica, kind int }

func c15replicaOf(addr string) int {
	i := strings.LastIndexByte(addr, '-')
	if i < 0 {
		return -1
	}
	v := 0
	for _, c := range addr[i+1:] {
		if c < '0' || c > '9' {
			return -1
		}
		v = v*10 + int(c-'0')
	}
	return v
}

type c15fault struct{ tract, kind int }

// tsTrace is the in-memory tractserver talker's trace hook: it can fail a read RPC.
func (e *c15env) tsTrace(t tsTraceEntry) core.Error {
	e.fmu.Lock()
	defer e.fmu.Unlock()
	idx := int(t.id.Index)
	if t.write {
		key := [2]int{idx, c15replicaOf(t.addr)}
		kind, ok := e.wfaults[key]
		if !ok {
			return core.NoError
		}
		c := e.wcalls[key]
		e.wcalls[key] = c + 1
		if kind == 1 || (kind == 3 && c == 0) {
			return core.ErrRPC
		}
		return core.NoError
	}
	kind, ok := e.faults[idx]
	if !ok {
		return core.NoError
	}
	switch kind {
	case 1:
		return core.ErrRPC
	case 2:
		if !strings.HasSuffix(t.addr, "-0") {
			return core.ErrRPC
		}
	case 3:
		c := e.calls[idx]
		e.calls[idx] = c + 1
		if c < e.repl {
			return core.ErrRPC
		}
	default:
		if kind >= 10 && c15replicaOf(t.addr) != kind-10 {
			return core.ErrRPC
		}
	}
	return core.NoError
}

func (e *c15env) armW(fs []c15wfault) {
	e.fmu.Lock()
	e.wfaults = map[[2]int]int{}
	e.wcalls = map[[2]int]int{}
	for _, f := range fs {
		e.wfaults[[2]int{f.tract, f.replica}] = f.kind
	}
	e.fmu.Unlock()
}

func (e *c15env) disarmW() {
	e.fmu.Lock()
	e.wfaults = nil
	e.fmu.Unlock()
}

func c15wfaultsWire(fs []c15wfault) []int64 {
	out := []int64{int64(len(fs))}
	for _, f := range fs {
		out = append(out, int64(f.tract), int64(f.kind*100+f.replica))
	}
	return out
}

// ---- direct access to the in-memory doubles (monitor only; never through the client) ----

func (e *c15env) curatorTracts() []core.TractInfo {
	e.memCu.lock.Lock()
	defer e.memCu.lock.Unlock()
	id := e.blob.id
	for _, tc := range e.memCu.curators {
		if tc.partition == id.Partition() {
			if bi, ok := tc.blobs[id.ID()]; ok {
				return append([]core.TractInfo(nil), bi.tracts...)
			}
		}
	}
	return nil
}

func (e *c15env) replicaData(ti core.TractInfo, r int) []byte {
	e.memTS.lock.Lock()
	defer e.memTS.lock.Unlock()
	ts, ok := e.memTS.tractservers[ti.Hosts[r]]
	if !ok {
		return nil
	}
	return append([]byte(nil), ts.data[ti.Tract]...)
}

// gcUnacked emulates the tractservers' garbage collection of tracts the curator never acknowledged
// (left behind by a failed create): without it the in-memory doubles refuse every later Create of those tracts.
func (e *c15env) gcUnacked() int {
	nt := len(e.curatorTracts())
	e.memTS.lock.Lock()
	defer e.memTS.lock.Unlock()
	removed := 0
	for _, ts := range e.memTS.tractservers {
		for id := range ts.versions {
			if id.Blob == e.blob.id && int(id.Index) >= nt {
				delete(ts.versions, id)
				delete(ts.data, id)
				removed++
			}
		}
	}
	return removed
}

func (e *c15env) arm(fs []c15fault) {
	e.fmu.Lock()
	e.faults = map[int]int{}
	e.calls = map[int]int{}
	for _, f := range fs {
		e.faults[f.tract] = f.kind
	}
	e.fmu.Unlock()
}

func (e *c15env) disarm() {
	e.fmu.Lock()
	e.faults = nil
	e.fmu.Unlock()
}

func c15faultsWire(fs []c15fault) []int64 {
	out := []int64{int64(len(fs))}
	for _, f := range fs {
		out = append(out, int64(f.tract), int64(f.kind))
	}
	return out
}

func c15newEnv(id string, cacheOn bool, repl int) *c15env {
	e := &c15env{id: id, oposKnown: true, raKnown: true, repl: repl}
	options := Options{DisableRetry: true, DisableCache: !cacheOn}
	cli := newBaseClient(&options)
	e.memCu = newMemCuratorTalker().(*memCuratorTalker)
	e.memTS = newMemTractserverTalker(e.tsTrace).(*memTractserverTalker)
	e.cur = &c15curators{CuratorTalker: e.memCu, n: &e.rpcs}
	e.tss = &c15tss{TractserverTalker: e.memTS}
	cli.master = &c15master{MasterConnection: newMemMasterConnection([]string{"1", "2", "3"}), cur: e.cur}
	cli.curators = e.cur
	cli.tractservers = e.tss
	e.cli = cli
	b, err := cli.Create(ReplFactor(repl))
	if err != nil {
		panic(fmt.Sprint("C15 harness: create failed: ", err))
	}
	e.blob = b
	e.ra = NewReadaheadBlob(b)
	return e
}

func (e *c15env) report(sig, what string, detail map[string]interface{}) {
	vw.Report(vw.Violation{Property: "C15", Signature: sig, What: what, Case: e.id, Detail: detail})
}

func c15errClass(err error) int64 {
	switch {
	case err == nil:
		return 0
	case err == io.EOF:
		return 1
	case core.ErrInvalidArgument.Is(err):
		return 2
	case core.ErrRPC.Is(err):
		return 4
	}
	return 3
}

// fast run-length encoding (same output as vw.RLE)
func c15rle(b []byte) []int64 {
	out := []int64{0}
	n := len(b)
	i := 0
	for i < n {
		v := b[i]
		j := i + 1
		// skip 8 bytes at a time while they all equal v
		pat := uint64(v) * 0x0101010101010101
		for j+8 <= n && binary.LittleEndian.Uint64(b[j:]) == pat {
			j += 8
		}
		for j < n && b[j] == v {
			j++
		}
		out = append(out, int64(j-i), int64(v))
		out[0]++
		i = j
	}
	return out
}

func c15fill(p []byte, v byte) {
	if len(p) == 0 {
		return
	}
	p[0] = v
	for i := 1; i < len(p); i *= 2 {
		copy(p[i:], p[:i])
	}
}

type c15run struct {
	n int64
	v byte
}

func c15build(rs []c15run) []byte {
	var n int64
	for _, r := range rs {
		n += r.n
	}
	b := make([]byte, n)
	p := int64(0)
	for _, r := range rs {
		if r.v != 0 {
			c15fill(b[p:p+r.n], r.v)
		}
		p += r.n
	}
	return b
}

func c15runsWire(rs []c15run) []int64 {
	out := []int64{int64(len(rs))}
	for _, r := range rs {
		out = append(out, r.n, int64(r.v))
	}
	return out
}

func (e *c15env) emit(op []int64, obs []int64) {
	e.lines = append(e.lines, c15line{op, obs})
}

func (e *c15env) tailClass() string {
	L := int64(len(e.oracle))
	if L > 0 && L%c15TL == 0 {
		return "full-last-tract"
	}
	return "short-last-tract"
}

// ---- MONITOR helpers: the property's sentences on a plain byte slice ----

func (e *c15env) oracleWrite(off int64, data []byte) {
	if len(data) == 0 {
		return
	}
	end := off + int64(len(data))
	if end > int64(len(e.oracle)) {
		if end > int64(cap(e.oracle)) {
			nb := make([]byte, end, end+c15TL)
			copy(nb, e.oracle)
			e.oracle = nb
		} else {
			old := len(e.oracle)
			e.oracle = e.oracle[:end]
			// bytes between old and end that are not written below must be zero
			for i := int64(old); i < off; i++ {
				e.oracle[i] = 0
			}
		}
	}
	copy(e.oracle[off:], data)
}

// checkRead judges (n, err, p[:n]) of a positional read of len(p) bytes at off. kind = "readat" or "read".
func (e *c15env) checkRead(kind string, off int64, p []byte, n int, err error) {
	e.checkReadF(kind, off, p, n, err, nil)
}

// checkReadF: the same judgement when tractserver read faults were armed during the call. A read may then fail,
// but: end-of-file only at the true end of the blob; no success (nil or EOF) for a range containing a tract that
// could not be read; an error makes no claim about bytes beyond n, the n bytes it does claim must be right and must
// not reach past the first unreadable tract; no error when every needed tract had a healthy replica.
func (e *c15env) checkReadF(kind string, off int64, p []byte, n int, err error, fs []c15fault) {
	L := int64(len(e.oracle))
	k := int64(len(p))
	want := int64(0)
	if off < L {
		want = L - off
		if want > k {
			want = k
		}
	}
	det := map[string]interface{}{"off": off, "len": k, "n": n, "err": fmt.Sprint(err), "blob_len": L, "tract": c15TL}
	// which needed tracts were unreadable (persistently / during the first attempt)
	// persistent: a tract holding wanted bytes was unreadable on every replica for the whole call;
	// consulted: some tract the client has to ask (even only to find the end) was unreadable at least once
	persistent, consulted := false, false
	firstBad, firstHard := int64(-1), int64(-1)
	if len(fs) > 0 && k > 0 {
		det["faults"] = fmt.Sprint(fs)
		ntracts := (L + c15TL - 1) / c15TL
		lo, hi := off/c15TL, (off+k-1)/c15TL
		if hi > ntracts-1 {
			hi = ntracts - 1
		}
		for _, f := range fs {
			t := int64(f.tract)
			if t < lo || t > hi || f.kind == 2 {
				continue
			}
			consulted = true
			if f.kind == 1 && want > 0 && t <= (off+want-1)/c15TL {
				persistent = true
			}
			// a tract is unreadable only while no replica can answer: kind 1 for the whole call, kind 3 only during
			// the first execution of readAt (after a cache-invalidation retry it reads fine), kind 2 never.
			// The monitor cannot see whether readAt retried, so the bound is the first persistently unreadable
			// tract if there is one, else the first tract unreadable in the first execution.
			if f.kind == 1 {
				if firstHard < 0 || t < firstHard {
					firstHard = t
				}
			} else if firstBad < 0 || t < firstBad {
				firstBad = t
			}
		}
	}
	isFault := err != nil && core.ErrRPC.Is(err)
	if int64(n) > want || n < 0 {
		e.report(kind+"-count-too-large", "a read returned more bytes than the blob holds in the range", det)
		return
	}
	if persistent && !isFault {
		e.report(kind+"-no-error-despite-unreadable-tract", "a read whose range contains a tract that no replica could deliver did not fail", det)
		return
	}
	if err == io.EOF && int64(n) < want {
		e.report(kind+"-eof-before-end", "a read reported end-of-file before the end of the blob", det)
		return
	}
	if n > 0 && !bytes.Equal(p[:n], e.oracle[off:off+int64(n)]) {
		i := 0
		for i < n && p[i] == e.oracle[off+int64(i)] {
			i++
		}
		cls := "expected-written-byte"
		if e.oracle[off+int64(i)] == 0 {
			cls = "expected-zero"
		}
		det["first_bad_offset"] = off + int64(i)
		det["got"] = p[i]
		det["want"] = e.oracle[off+int64(i)]
		e.report(kind+"-data/"+cls, "a read returned bytes different from the most recently written ones (zeros in holes)", det)
		return
	}
	if isFault {
		if !consulted {
			e.report(kind+"-spurious-read-error", "a read failed although every needed tract had a healthy replica", det)
		} else if limit := c15firstUnreadable(firstBad, firstHard, e.cli.useCache())*c15TL - off; int64(n) > limit && int64(n) > 0 {
			e.report(kind+"-count-past-unreadable-tract", "a failed read claims bytes at or beyond the first tract it could not read", det)
		}
		return // an error makes no claim about bytes beyond n
	}
	if int64(n) < want {
		if err == nil {
			e.report(kind+"-short-nil-error/within-blob", "a read returned fewer bytes than available and requested, without an error", det)
		} else if err == io.EOF {
			e.report(kind+"-eof-before-end", "a read reported end-of-file before the end of the blob", det)
		} else {
			e.report(kind+"-short-with-error/within-blob", "a read returned fewer bytes than available and requested", det)
		}
		return
	}
	// n == want
	if want < k {
		// the range runs past the end: the bytes up to the end TOGETHER with end-of-file
		if err == nil {
			e.report(kind+"-short-nil-error/"+e.tailClass(), "a read reaching past the end returned a short count with a nil error instead of end-of-file", det)
		} else if err != io.EOF {
			e.report(kind+"-short-wrong-error", "a read reaching past the end returned an error other than end-of-file", det)
		}
	} else if err != nil && !(err == io.EOF && off+k == L && k > 0) {
		// full count: nil (EOF tolerated only when the read ends exactly at the end)
		e.report(kind+"-full-count-with-error", "a read that was fully satisfied returned an error", det)
	}
}

// c15firstUnreadable: with the location cache off readAt never re-executes, so the first tract without a healthy
// replica in the first execution bounds the count; with it on, a retry may have read the transiently failing tracts.
func c15firstUnreadable(firstTransient, firstHard int64, mayRetry bool) int64 {
	if firstHard >= 0 && (mayRetry || firstTransient < 0 || firstHard < firstTransient) {
		return firstHard
	}
	return firstTransient
}

// ---- operations: each performs the call on the real code, records it, and runs the monitor ----

func (e *c15env) hdr(n int64, err error) []int64 {
	return []int64{n, c15errClass(err), e.blob.offset, atomic.LoadInt64(&e.rpcs)}
}

func (e *c15env) writeAt(off int64, rs []c15run) {
	data := c15build(rs)
	n, err := e.blob.WriteAt(data, off)
	e.emit(append([]int64{1, off}, c15runsWire(rs)...), e.hdr(int64(n), err))
	e.nwrites++
	if off < 0 {
		if err == nil || n != 0 {
			e.report("writeat-negative-offset-accepted", "WriteAt at a negative offset did not fail", map[string]interface{}{"off": off, "n": n})
		}
		return
	}
	if err != nil || n != len(data) {
		e.report("writeat-result", "a fault-free WriteAt failed or was short", map[string]interface{}{"off": off, "len": len(data), "n": n, "err": fmt.Sprint(err)})
		return
	}
	e.oracleWrite(off, data)
	e.raKnown = false // the wrapper may hold stale bytes now
}

func (e *c15env) write(rs []c15run) {
	data := c15build(rs)
	before := e.blob.offset
	n, err := e.blob.Write(data)
	e.emit(append([]int64{3}, c15runsWire(rs)...), e.hdr(int64(n), err))
	e.nwrites++
	if e.oposKnown && before != e.opos {
		e.report("write-start-position", "Blob cursor is not where the previous operations left it", map[string]interface{}{"have": before, "want": e.opos})
	}
	if err != nil || n != len(data) {
		e.report("write-result", "a fault-free Write failed or was short", map[string]interface{}{"off": before, "len": len(data), "n": n, "err": fmt.Sprint(err)})
		return
	}
	e.oracleWrite(before, data)
	if e.blob.offset != before+int64(n) {
		e.report("write-position", "Write did not advance the cursor by the count written", map[string]interface{}{"before": before, "n": n, "after": e.blob.offset})
	}
	e.opos = before + int64(n)
	e.raKnown = false
}

func (e *c15env) readAt(off, k int64) {
	p := make([]byte, k)
	c15fill(p, c15Dirty)
	n, err := e.blob.ReadAt(p, off)
	if n < 0 || int64(n) > k {
		n = 0
	}
	e.emit([]int64{2, off, k}, append(e.hdr(int64(n), err), c15rle(p[:n])...))
	if off < 0 {
		if err == nil || n != 0 {
			e.report("readat-negative-offset-accepted", "ReadAt at a negative offset did not fail", map[string]interface{}{"off": off, "n": n})
		}
		return
	}
	e.checkRead("readat", off, p, n, err)
}

// tractAt returns byte i of the zero-extended slice
func c15at(b []byte, i int64) byte {
	if i < int64(len(b)) {
		return b[i]
	}
	return 0
}

// writeAtF: WriteAt while per-replica tractserver write faults are armed. Rule (model-free):
// a write that returns success is readable from EVERY replica; a failed write leaves every replica's bytes, inside the
// written range, old or new (the claimed prefix new), outside it untouched, and the length between the old one and
// max(old, off+len). Afterwards the same write is re-issued without faults so that all replicas agree again.
func (e *c15env) writeAtF(off int64, rs []c15run, fs []c15wfault, cfs []c15cfault) {
	data := c15build(rs)
	k := int64(len(data))
	oldL := int64(len(e.oracle))
	lo, hi := off/c15TL, (off+k-1)/c15TL
	var oldImg []byte // old content of tracts lo..hi
	if lo*c15TL < oldL {
		end := (hi + 1) * c15TL
		if end > oldL {
			end = oldL
		}
		oldImg = append([]byte(nil), e.oracle[lo*c15TL:end]...)
	}
	if len(cfs) > 0 {
		// no "maybe the wrong curator" retries: the partition lookup is not cached when the faulted operation starts
		e.cli.lookupCache.invalidate(e.blob.id.Partition())
		e.cur.armC(cfs)
	}
	e.armW(fs)
	n, err := e.blob.WriteAt(data, off)
	e.disarmW()
	e.cur.armC(nil)
	op := append([]int64{15, int64(e.repl), off}, c15runsWire(rs)...)
	op = append(op, c15wfaultsWire(fs)...)
	op = append(op, c15cfaultsWire(cfs)...)
	e.emit(op, e.hdr(int64(n), err))
	e.nwrites++
	vw.Stat(fmt.Sprintf("faulted.write.err=%d", c15errClass(err)), 1)
	det := map[string]interface{}{"off": off, "len": k, "n": n, "err": fmt.Sprint(err), "faults": fmt.Sprint(fs), "curator_faults": fmt.Sprint(cfs), "repl": e.repl, "blob_len_before": oldL}
	hit := false
	for _, f := range fs {
		if int64(f.tract) >= lo && int64(f.tract) <= hi && f.replica < e.repl {
			hit = true
		}
	}
	if err == nil {
		if int64(n) != k {
			e.report("writeat-result", "a WriteAt returned success with a short count", det)
			return
		}
		e.oracleWrite(off, data)
		e.raKnown = false
		// the acknowledged bytes must be readable from EVERY replica: read back through each one in turn
		for r := 0; r < e.repl; r++ {
			var rf []c15fault
			for t := lo; t <= hi; t++ {
				rf = append(rf, c15fault{int(t), 10 + r})
			}
			e.readAtKind("readback", off, k, rf)
		}
		// ... and the blob's length and seeking from the end agree with it
		e.byteLength(false)
		e.seek(0, c15SeekEnd)
		return
	}
	injected := core.ErrRPC.Is(err)
	for _, f := range cfs {
		if f.ek == 1 && core.ErrInvalidState.Is(err) {
			injected = true
		}
	}
	if !injected {
		e.report("writeat-unexpected-error", "a WriteAt under injected faults failed with an error that was not injected", det)
	}
	if !hit && len(cfs) == 0 {
		e.report("writeat-spurious-error", "a WriteAt failed although no replica of any tract it writes was failing", det)
	}
	if n < 0 || int64(n) > k {
		e.report("writeat-result", "a failed WriteAt claims an impossible count", det)
		n = 0
	}
	// what every replica holds now
	newImg := make([]byte, (hi+1-lo)*c15TL)
	copy(newImg, oldImg)
	copy(newImg[off-lo*c15TL:], data)
	tracts := e.curatorTracts()
	for t := lo; t <= hi && t < int64(len(tracts)); t++ {
		base := (t - lo) * c15TL
		for r := 0; r < e.repl; r++ {
			d := e.replicaData(tracts[t], r)
			if int64(len(d)) > c15TL {
				e.report("writeat-failed-tract-too-long", "a tract grew beyond the tract length", det)
				continue
			}
			// fast paths: the replica holds exactly the old or exactly the new image of the tract
			oldT, newT := []byte(nil), newImg[base:base+c15TL]
			if base < int64(len(oldImg)) {
				oe := base + c15TL
				if oe > int64(len(oldImg)) {
					oe = int64(len(oldImg))
				}
				oldT = oldImg[base:oe]
			}
			bad := int64(-1)
			for i := int64(0); i < c15TL; i++ {
				g := t*c15TL + i
				v := c15at(d, i)
				inRange := g >= off && g < off+k
				claimed := g >= off && g < off+int64(n)
				switch {
				case claimed && v != newT[i]:
					bad = g
				case inRange && v != newT[i] && v != c15at(oldT, i):
					bad = g
				case !inRange && v != c15at(oldT, i):
					bad = g
				}
				if bad >= 0 {
					break
				}
			}
			if bad >= 0 {
				det["tract"], det["replica"], det["offset"] = t, r, bad
				e.report("writeat-failed-left-foreign-bytes", "after a failed write a replica holds bytes that are neither the old nor the new ones (or the claimed prefix is not there, or bytes outside the range changed)", det)
			}
		}
	}
	// length as any replica would report it
	if nt := int64(len(tracts)); nt > 0 {
		maxL := oldL
		if off+k > maxL {
			maxL = off + k
		}
		for r := 0; r < e.repl; r++ {
			lr := (nt-1)*c15TL + int64(len(e.replicaData(tracts[nt-1], r)))
			if lr < oldL || lr > maxL {
				det["length_now"], det["replica"] = lr, r
				e.report("writeat-failed-length-out-of-range", "after a failed write the blob's length is not between the old length and the end of the write", det)
			}
		}
	}
	e.gcUnacked()
	// bring all replicas back into agreement: the same write, without faults
	e.writeAt(off, rs)
}

// readAtKind: like readAtF with a monitor-signature prefix of its own
func (e *c15env) readAtKind(kind string, off, k int64, fs []c15fault) {
	p := make([]byte, k)
	c15fill(p, c15Dirty)
	e.arm(fs)
	n, err := e.blob.ReadAt(p, off)
	e.disarm()
	if n < 0 || int64(n) > k {
		n = 0
	}
	op := append([]int64{13, off, k}, c15faultsWire(fs)...)
	e.emit(op, append(e.hdr(int64(n), err), c15rle(p[:n])...))
	e.checkReadF(kind, off, p, n, err, fs)
}

func c15injected(err error, cfs []c15cfault) bool {
	if err == nil {
		return false
	}
	for _, f := range cfs {
		if (f.ek == 0 && core.ErrRPC.Is(err)) || (f.ek == 1 && core.ErrInvalidState.Is(err)) {
			return true
		}
	}
	return false
}

func c15genCFault(r *vw.Rng, forRead bool) c15cfault {
	call := r.PickInt(1, 2, 3, 3, 4, 4, 4, 5)
	if forRead {
		call = r.PickInt(1, 2, 2, 5)
	}
	return c15cfault{call, r.PickInt(0, 0, 1, 9), r.PickInt(0, 1)}
}

// readAtC / byteLengthC: the same calls while a curator-side fault is armed: they may fail with the injected error
// (claiming nothing), otherwise they must be right
func (e *c15env) readAtC(off, k int64, cfs []c15cfault) {
	p := make([]byte, k)
	c15fill(p, c15Dirty)
	e.cli.lookupCache.invalidate(e.blob.id.Partition())
	e.cur.armC(cfs)
	n, err := e.blob.ReadAt(p, off)
	e.cur.armC(nil)
	if n < 0 || int64(n) > k {
		n = 0
	}
	e.emit(append([]int64{17, off, k}, c15cfaultsWire(cfs)...), append(e.hdr(int64(n), err), c15rle(p[:n])...))
	if c15injected(err, cfs) {
		if n != 0 {
			e.report("readat-count-with-curator-error", "a read that could not get the tract locations claims bytes", map[string]interface{}{"off": off, "len": k, "n": n, "err": fmt.Sprint(err)})
		}
		return
	}
	e.checkRead("readat", off, p, n, err)
}

func (e *c15env) byteLengthC(cfs []c15cfault) {
	e.cli.lookupCache.invalidate(e.blob.id.Partition())
	e.cur.armC(cfs)
	n, err := e.blob.ByteLength()
	e.cur.armC(nil)
	e.emit(append([]int64{18}, c15cfaultsWire(cfs)...), e.hdr(n, err))
	if c15injected(err, cfs) {
		return
	}
	if err != nil || n != int64(len(e.oracle)) {
		e.report("bytelength", "ByteLength differs from the furthest byte ever written", map[string]interface{}{"got": n, "want": len(e.oracle), "err": fmt.Sprint(err), "curator_faults": fmt.Sprint(cfs)})
	}
}

func (e *c15env) genWFaults(r *vw.Rng, off, k int64) []c15wfault {
	lo, hi := off/c15TL, (off+k-1)/c15TL
	nf := r.PickInt(1, 1, 1, 2)
	var fs []c15wfault
	for i := 0; i < nf; i++ {
		t := lo + int64(r.Intn(int(hi-lo+1)))
		if r.Chance(1, 10) {
			t = hi + 1 // not written: no effect
		}
		rep := r.Intn(e.repl)
		if r.Chance(1, 12) {
			rep = e.repl // no such replica: no effect
		}
		dup := false
		for _, f := range fs {
			if f.tract == int(t) && f.replica == rep {
				dup = true
			}
		}
		kind := r.PickInt(1, 1, 1, 3)
		if !dup {
			fs = append(fs, c15wfault{int(t), rep, kind})
		}
	}
	return fs
}

// a write of one of the shapes: overwrite inside existing tracts, extension of the last tract, new tracts,
// existing + new tracts, a hole of whole tracts before the data
func (e *c15env) genWriteShape(r *vw.Rng) (int64, int64) {
	L := int64(len(e.oracle))
	TL := c15TL
	var off, k int64
	switch r.Intn(7) {
	case 0: // inside one existing tract
		off = int64(r.Intn(int(L/2 + 1)))
		k = r.PickI64(1, 10, 5000, TL/2)
	case 1: // across a boundary of existing tracts
		off = TL - r.PickI64(1, 10, 3000)
		k = r.PickI64(20, 6000, TL+5)
	case 2: // extends the last tract / appends
		off = L - r.PickI64(0, 0, 5, 100)
		k = r.PickI64(10, 5000, TL, TL+7)
	case 3: // existing + new tracts
		off = L - L%TL - r.PickI64(0, 10)
		k = r.PickI64(TL+10, 2*TL+1)
	case 4: // hole of one or two whole tracts, then data
		off = (L/TL+1)*TL + r.PickI64(TL, 2*TL) + r.PickI64(0, 5)
		k = r.PickI64(10, TL+1)
	case 5: // whole tracts
		off = int64(r.Intn(3)) * TL
		k = r.PickI64(TL, 2*TL)
	default:
		off = e.genOffset(r, true)
		k = e.genLen(r, off, true)
	}
	if off < 0 {
		off = 0
	}
	if off > c15MaxSize-TL {
		off = c15MaxSize - TL - 7
	}
	if off+k > c15MaxSize {
		k = c15MaxSize - off
	}
	if k < 1 {
		k = 1
	}
	return off, k
}

func (e *c15env) stepWriteFaults(r *vw.Rng) {
	switch x := r.Intn(100); {
	case x < 55:
		off, k := e.genWriteShape(r)
		if r.Chance(1, 3) {
			lo := off / c15TL
			e.readAt(lo*c15TL, 10) // fills the tract cache (when on) for the first written tract
		}
		if r.Chance(1, 2) {
			e.writeAtF(off, e.genData(r, off, k), e.genWFaults(r, off, k), nil)
		} else {
			e.writeAtF(off, e.genData(r, off, k), nil, []c15cfault{c15genCFault(r, false)})
		}
	case x < 65:
		off, k := e.genWriteShape(r)
		e.writeAt(off, e.genData(r, off, k))
	case x < 74:
		off := e.genOffset(r, false)
		e.readAt(off, e.genLen(r, off, false))
	case x < 82:
		off := e.genOffset(r, false)
		e.readAtC(off, e.genLen(r, off, false), []c15cfault{c15genCFault(r, true)})
	case x < 86:
		e.byteLengthC([]c15cfault{c15genCFault(r, true)})
	case x < 90:
		e.byteLength(false)
	case x < 95:
		e.setCache(r.Bool())
	default:
		e.stepDirect(r)
	}
}

// ---- RS-backed mode: the same reads must give the same (n, err, bytes) after the tracts moved to RS storage ----

type c15probeRead struct {
	at   bool // ReadAt (else Seek SET + Read)
	off  int64
	k    int64
	n    int
	err  int64
	data []int64
}

func (e *c15env) rsBattery(r *vw.Rng) []c15probeRead {
	L := int64(len(e.oracle))
	var ps []c15probeRead
	add := func(at bool, off, k int64) {
		if off < 0 {
			off = 0
		}
		if k < 0 {
			k = 0
		}
		if k > 4*c15TL {
			k = 4 * c15TL
		}
		ps = append(ps, c15probeRead{at: at, off: off, k: k})
	}
	add(true, 0, L+777)       // the whole blob and beyond
	add(true, 0, L)           // exactly
	add(true, c15TL-10, c15TL+50)
	// ranges that end inside / just past every tract's stored data (short non-final tracts, holes)
	for _, ti := range e.curatorTracts() {
		t := int64(ti.Tract.Index)
		d := int64(len(e.replicaData(ti, 0)))
		if r.Chance(1, 2) {
			add(true, t*c15TL+d-r.PickI64(0, 1, 10), r.PickI64(5, 20, c15TL))
		}
		if r.Chance(1, 3) {
			add(false, t*c15TL+r.PickI64(0, d/2), d+r.PickI64(0, 1, 100))
		}
	}
	for i := 0; i < 4; i++ {
		off := e.genOffset(r, false)
		add(r.Chance(2, 3), off, e.genLen(r, off, false))
	}
	return ps
}

func (e *c15env) runBattery(ps []c15probeRead, first bool) {
	for i := range ps {
		p := &ps[i]
		if p.at {
			e.readAt(p.off, p.k)
		} else {
			e.seek(p.off, c15SeekSet)
			e.read(p.k)
		}
		obs := e.lines[len(e.lines)-1].obs
		n, ec, data := int(obs[0]), obs[1], obs[4:]
		if first {
			p.n, p.err, p.data = n, ec, data
			continue
		}
		same := n == p.n && ec == p.err && len(data) == len(p.data)
		for j := 0; same && j < len(data); j++ {
			same = data[j] == p.data[j]
		}
		if !same {
			e.report("rs-read-differs-from-replicated", "a read of the same blob gives a different (count, error, bytes) after its tracts moved to RS storage",
				map[string]interface{}{"readat": p.at, "off": p.off, "len": p.k, "replicated": fmt.Sprint(p.n, p.err, p.data), "rs": fmt.Sprint(n, ec, data), "blob_len": len(e.oracle)})
		}
	}
	e.byteLength(false)
}

// rsPhase: run a battery of reads, move the tracts into one packed RS piece (as the curator and tractservers do
// after encoding: GetTracts answers RS pointers without hosts, the bytes live back to back in one piece), drop the
// client's cached locations, and run the same battery again.
func (e *c15env) rsPhase(r *vw.Rng) {
	tracts := e.curatorTracts()
	if len(tracts) == 0 {
		return
	}
	ps := e.rsBattery(r)
	e.runBattery(ps, true)
	ptrs := make(map[core.TractKey]core.TractPointer)
	chunk := core.RSChunkID{Partition: core.PartitionID(0x80000001), ID: 1 << 16}
	var piece []byte
	if r.Chance(1, 2) {
		piece = append(piece, bytes.Repeat([]byte{0x77}, r.PickInt(1, 512, 4096))...) // another blob's tract packed first
	}
	for _, ti := range tracts {
		d := e.replicaData(ti, 0)
		ptrs[ti.Tract.Index] = core.TractPointer{Chunk: chunk, Host: c15RSHost, TSID: 777, Offset: uint32(len(piece)), Length: uint32(len(d))}
		piece = append(piece, d...)
	}
	piece = append(piece, bytes.Repeat([]byte{0x55}, 4096)...) // padding / next tract in the piece
	e.tss.mu.Lock()
	e.tss.piece = piece
	e.tss.mu.Unlock()
	e.cur.mu.Lock()
	e.cur.ptrs = ptrs
	e.cur.mu.Unlock()
	e.inRS = true
	e.cli.tractCache.invalidate(e.blob.id)
	e.emit([]int64{16}, []int64{0})
	vw.Stat("rs.phase", 1)
	e.runBattery(ps, false)
}

func (e *c15env) readAtF(off, k int64, fs []c15fault) {
	p := make([]byte, k)
	c15fill(p, c15Dirty)
	e.arm(fs)
	n, err := e.blob.ReadAt(p, off)
	e.disarm()
	if n < 0 || int64(n) > k {
		n = 0
	}
	op := append([]int64{13, off, k}, c15faultsWire(fs)...)
	e.emit(op, append(e.hdr(int64(n), err), c15rle(p[:n])...))
	vw.Stat(fmt.Sprintf("faulted.read.err=%d", c15errClass(err)), 1)
	e.checkReadF("readat", off, p, n, err, fs)
}

func (e *c15env) readF(k int64, fs []c15fault) {
	p := make([]byte, k)
	c15fill(p, c15Dirty)
	before := e.blob.offset
	e.arm(fs)
	n, err := e.blob.Read(p)
	e.disarm()
	if n < 0 || int64(n) > k {
		n = 0
	}
	op := append([]int64{14, k}, c15faultsWire(fs)...)
	e.emit(op, append(e.hdr(int64(n), err), c15rle(p[:n])...))
	vw.Stat(fmt.Sprintf("faulted.read.err=%d", c15errClass(err)), 1)
	if e.oposKnown && before != e.opos {
		e.report("read-start-position", "Blob cursor is not where the previous operations left it", map[string]interface{}{"have": before, "want": e.opos})
	}
	e.checkReadF("read", before, p, n, err, fs)
	wantPos := before
	if err == nil || err == io.EOF {
		wantPos = before + int64(n)
	}
	if e.blob.offset != wantPos {
		e.report("read-position", "Read moved the cursor although it failed, or did not advance it by the count read", map[string]interface{}{"before": before, "n": n, "after": e.blob.offset, "err": fmt.Sprint(err)})
	}
	e.opos = e.blob.offset
	e.raKnown = false
}

// genFaults picks 1-2 faulted tracts in or next to the tract range of a read
func (e *c15env) genFaults(r *vw.Rng, off, k int64) []c15fault {
	lo, hi := off/c15TL, (off+k)/c15TL
	nf := r.PickInt(1, 1, 1, 2)
	var fs []c15fault
	for i := 0; i < nf; i++ {
		t := lo + int64(r.Intn(int(hi-lo+1)))
		if r.Chance(1, 8) {
			t = hi + 1
		}
		if r.Chance(1, 10) && lo > 0 {
			t = lo - 1
		}
		dup := false
		for _, f := range fs {
			if int64(f.tract) == t {
				dup = true
			}
		}
		if !dup {
			fs = append(fs, c15fault{int(t), r.PickInt(1, 1, 1, 3, 3, 2)})
		}
	}
	return fs
}

// a multi-tract range: starts in some tract, covers two to four tracts
func (e *c15env) genSpan(r *vw.Rng) (int64, int64) {
	L := int64(len(e.oracle))
	nt := L/c15TL + 1
	start := int64(r.Intn(int(nt)))
	off := start*c15TL + r.PickI64(0, 0, 1, 100, c15TL-10, c15TL-1, c15TL/2)
	k := r.PickI64(c15TL, c15TL+1, 2*c15TL, 2*c15TL+5, 3*c15TL, c15TL+20, 20, 3*c15TL+1)
	if r.Chance(1, 4) {
		k = L - off + r.PickI64(-1, 0, 1, c15TL)
	}
	if k < 1 {
		k = 1
	}
	if k > 4*c15TL {
		k = 4 * c15TL
	}
	return off, k
}

func (e *c15env) stepFaulted(r *vw.Rng) {
	off, k := e.genSpan(r)
	switch x := r.Intn(100); {
	case x < 55:
		if r.Chance(1, 2) {
			e.readAt(off, k) // fills the tract cache for this range when caching is on
		}
		e.readAtF(off, k, e.genFaults(r, off, k))
	case x < 70:
		e.seek(off, 0)
		e.readF(k, e.genFaults(r, off, k))
	case x < 80:
		e.setCache(r.Bool())
	case x < 88:
		e.readAt(off, k)
	default:
		e.stepDirect(r)
	}
}

func (e *c15env) read(k int64) {
	p := make([]byte, k)
	c15fill(p, c15Dirty)
	before := e.blob.offset
	n, err := e.blob.Read(p)
	if n < 0 || int64(n) > k {
		n = 0
	}
	e.emit([]int64{4, k}, append(e.hdr(int64(n), err), c15rle(p[:n])...))
	if e.oposKnown && before != e.opos {
		e.report("read-start-position", "Blob cursor is not where the previous operations left it", map[string]interface{}{"have": before, "want": e.opos})
	}
	e.checkRead("read", before, p, n, err)
	if e.blob.offset != before+int64(n) {
		e.report("read-position", "Read did not advance the cursor by the count read", map[string]interface{}{"before": before, "n": n, "after": e.blob.offset})
	}
	e.opos = before + int64(n)
	e.raKnown = false
}

func c15whenceName(w int64) string {
	switch w {
	case c15SeekSet:
		return "set"
	case c15SeekCur:
		return "cur"
	case c15SeekEnd:
		return "end"
	}
	return "invalid"
}

func (e *c15env) seek(off, whence int64) {
	before := e.blob.offset
	ret, err := e.blob.Seek(off, int(whence))
	e.emit([]int64{5, off, whence}, e.hdr(ret, err))
	var want int64
	switch whence {
	case c15SeekSet:
		want = off
	case c15SeekCur:
		want = before + off
	case c15SeekEnd:
		want = int64(len(e.oracle)) + off
	default:
		if err == nil {
			e.report("seek-invalid-whence-accepted", "Seek with an invalid whence did not fail", nil)
		}
		return
	}
	det := map[string]interface{}{"off": off, "whence": whence, "ret": ret, "err": fmt.Sprint(err), "before": before, "blob_len": len(e.oracle), "after": e.blob.offset}
	if want < 0 {
		if err == nil {
			e.report("seek-"+c15whenceName(whence)+"-negative-accepted", "Seek to a negative offset did not fail", det)
		} else if e.blob.offset != before {
			e.report("seek-"+c15whenceName(whence)+"-failed-but-moved", "a failed Seek moved the cursor", det)
		}
		return
	}
	if err != nil || ret != want || e.blob.offset != want {
		e.report("seek-"+c15whenceName(whence)+"-position", "Seek does not agree with the sparse file (seeking from the end = furthest byte ever written)", det)
	}
	e.opos, e.oposKnown = want, true
	e.raKnown = false
}

func (e *c15env) byteLength(viaRA bool) {
	var n int64
	var err error
	code := int64(6)
	if viaRA {
		n, err = e.ra.ByteLength()
		code = 9
	} else {
		n, err = e.blob.ByteLength()
	}
	e.emit([]int64{code}, e.hdr(n, err))
	if err != nil || n != int64(len(e.oracle)) {
		e.report("bytelength", "ByteLength differs from the furthest byte ever written", map[string]interface{}{"got": n, "want": len(e.oracle), "err": fmt.Sprint(err)})
	}
}

func (e *c15env) raRead(k int64) {
	p := make([]byte, k)
	c15fill(p, c15Dirty)
	n, err := e.ra.Read(p)
	if n < 0 || int64(n) > k {
		n = 0
	}
	obs := []int64{int64(n), c15errClass(err), e.blob.offset, int64(e.ra.bufBlob.Buffered()), atomic.LoadInt64(&e.rpcs)}
	e.emit([]int64{7, k}, append(obs, c15rle(p[:n])...))
	e.oposKnown = false
	if !e.raKnown {
		return
	}
	L := int64(len(e.oracle))
	det := map[string]interface{}{"logical_pos": e.raPos, "len": k, "n": n, "err": fmt.Sprint(err), "blob_len": L}
	avail := int64(0)
	if e.raPos < L {
		avail = L - e.raPos
	}
	if int64(n) > avail {
		e.report("ra-read-count-too-large", "the read-ahead wrapper returned more bytes than a direct read could", det)
		e.raKnown = false
		return
	}
	if n > 0 && !bytes.Equal(p[:n], e.oracle[e.raPos:e.raPos+int64(n)]) {
		e.report("ra-read-data", "the read-ahead wrapper returned bytes different from a direct read at its position", det)
		e.raKnown = false
		return
	}
	if n == 0 && k > 0 {
		if avail > 0 {
			e.report("ra-read-no-progress", "the read-ahead wrapper returned nothing although bytes remain", det)
		} else if err != io.EOF {
			e.report("ra-read-missing-eof", "the read-ahead wrapper at the end returned no end-of-file", det)
		}
	} else if err != nil && !(err == io.EOF && int64(n) == avail) {
		// (an empty read at the very end may say EOF: bufio hands out its sticky error)
		e.report("ra-read-spurious-error", "the read-ahead wrapper returned an error with bytes remaining", det)
	}
	e.raPos += int64(n)
}

func (e *c15env) raSeek(off, whence int64) {
	buffered := int64(e.ra.bufBlob.Buffered())
	logicalBefore := e.blob.offset - buffered
	ret, err := e.ra.Seek(off, int(whence))
	e.emit([]int64{8, off, whence}, []int64{ret, c15errClass(err), e.blob.offset, int64(e.ra.bufBlob.Buffered()), atomic.LoadInt64(&e.rpcs)})
	e.oposKnown = false
	if err != nil {
		// a plain Blob.Seek that fails leaves the cursor where it was: so must the wrapper's stream position
		logicalAfter := e.blob.offset - int64(e.ra.bufBlob.Buffered())
		if logicalAfter != logicalBefore {
			cls := "buffered-zero"
			if buffered > 0 {
				cls = "buffered-nonzero"
			}
			e.report("ra-seek-failed-moved-position/"+cls, "a failed Seek on the read-ahead wrapper moved its stream position (the buffered bytes are skipped)",
				map[string]interface{}{"off": off, "whence": whence, "err": fmt.Sprint(err), "logical_before": logicalBefore, "logical_after": logicalAfter, "buffered_before": buffered})
			if e.raKnown {
				e.raPos += logicalAfter - logicalBefore // follow the code so that later reads are still judged
			}
		}
		failedAsExpected := true
		switch whence {
		case c15SeekSet:
			failedAsExpected = off < 0
		case c15SeekCur:
			failedAsExpected = !e.raKnown || e.raPos-(logicalAfter-logicalBefore)+off < 0
		case c15SeekEnd:
			failedAsExpected = int64(len(e.oracle))+off < 0
		}
		if failedAsExpected {
			return // position (as adjusted above) stays known
		}
	}
	var want int64
	switch whence {
	case c15SeekSet:
		want = off
	case c15SeekCur:
		if !e.raKnown {
			return
		}
		want = e.raPos + off
	case c15SeekEnd:
		want = int64(len(e.oracle)) + off
	default:
		if err == nil {
			e.report("ra-seek-invalid-whence-accepted", "the wrapper's Seek with an invalid whence did not fail", nil)
			e.raKnown = false
		}
		return
	}
	det := map[string]interface{}{"off": off, "whence": whence, "ret": ret, "err": fmt.Sprint(err), "logical_pos_before": e.raPos, "buffered_before": buffered, "blob_len": len(e.oracle)}
	if want < 0 {
		if err == nil {
			cls := "buffered-zero"
			if buffered > 0 {
				cls = "buffered-nonzero"
			}
			e.report("ra-seek-"+c15whenceName(whence)+"-negative-accepted/"+cls, "the wrapper's Seek to a negative logical offset did not fail", det)
		}
		e.raKnown = false
		return
	}
	if err != nil || ret != want {
		cls := "buffered-zero"
		if buffered > 0 {
			cls = "buffered-nonzero"
		}
		e.report("ra-seek-"+c15whenceName(whence)+"-position/"+cls, "the wrapper's Seek is not relative to the position its reader has reached", det)
		e.raKnown = false
		return
	}
	e.raPos, e.raKnown = want, true
}

func (e *c15env) setCache(on bool) {
	e.cli.EnableCache(on)
	v := int64(0)
	if on {
		v = 1
	}
	e.emit([]int64{10, v}, []int64{0})
}

func (e *c15env) reopen() {
	nb, err := e.cli.Open(e.blob.ID(), "rw")
	if err != nil {
		e.report("reopen-failed", "Open of an existing blob failed", map[string]interface{}{"err": fmt.Sprint(err)})
		e.emit([]int64{11}, []int64{1, atomic.LoadInt64(&e.rpcs)})
		return
	}
	e.blob = nb
	e.ra = NewReadaheadBlob(nb)
	e.emit([]int64{11}, []int64{0, atomic.LoadInt64(&e.rpcs)})
	e.opos, e.oposKnown = 0, true
	e.raPos, e.raKnown = 0, true
}

func (e *c15env) raNew() {
	e.ra = NewReadaheadBlob(e.blob)
	e.emit([]int64{12}, []int64{0})
	if e.oposKnown {
		e.raPos, e.raKnown = e.opos, true
	} else {
		e.raKnown = false
	}
}

// ---- generators ----

func c15clamp(x, lo, hi int64) int64 {
	if x < lo {
		return lo
	}
	if x > hi {
		return hi
	}
	return x
}

func (e *c15env) genOffset(r *vw.Rng, forWrite bool) int64 {
	L := int64(len(e.oracle))
	TL := c15TL
	var o int64
	switch r.Intn(22) {
	case 0, 1:
		o = 0
	case 2:
		o = 1
	case 3:
		o = TL - 1
	case 4:
		o = TL
	case 5:
		o = TL + 1
	case 6:
		o = 2*TL - 1
	case 7:
		o = 2*TL + 1
	case 8:
		o = L - 1
	case 9, 10:
		o = L
	case 11:
		o = L + 1
	case 12:
		o = L + TL + 1
	case 13:
		o = TL - 10
	case 14:
		o = L - 10
	case 15:
		o = L - L%TL // start of the last (or next) tract
	case 16:
		o = L + 2*TL + int64(r.Intn(3)) - 1 // a hole of several tracts
	case 17:
		o = (L/TL + 1) * TL // exactly one tract boundary further
	case 18:
		o = int64(r.Intn(int(L + TL + 1)))
	case 19:
		o = int64(r.Intn(4)) * TL
	case 20:
		o = 2 * TL
	default:
		o = L - TL - int64(r.Intn(3)) + 1
	}
	if o < 0 {
		o = 0
	}
	if forWrite && o > c15MaxSize-TL {
		o = c15MaxSize - TL - int64(r.Intn(100))
	}
	return o
}

func (e *c15env) genLen(r *vw.Rng, off int64, forWrite bool) int64 {
	L := int64(len(e.oracle))
	TL := c15TL
	toB := TL - off%TL // bytes to the next tract boundary
	var k int64
	switch r.Intn(24) {
	case 0:
		k = 0
	case 1:
		k = 1
	case 2, 3:
		k = 10
	case 4, 5:
		k = 20
	case 6:
		k = int64(r.Range(1, 70000))
	case 7:
		k = TL - 1
	case 8:
		k = TL
	case 9:
		k = TL + 1
	case 10:
		k = 2*TL - 1
	case 11:
		k = 2*TL + 1
	case 12, 13:
		k = L - off // exactly to the end
	case 14:
		k = L - off - 1
	case 15, 16:
		k = L - off + 1
	case 17:
		k = L - off + TL + 1
	case 18:
		k = toB
	case 19:
		k = toB - 1
	case 20:
		k = toB + 1
	case 21:
		k = toB + TL
	case 22:
		k = 3*TL + int64(r.Intn(7))
	default:
		k = int64(r.Range(1, 3000))
	}
	if k < 0 {
		k = int64(r.Range(0, 50))
	}
	if forWrite {
		if off+k > c15MaxSize {
			k = c15MaxSize - off
		}
		if k < 0 {
			k = 0
		}
	} else if k > 4*TL {
		k = 4 * TL
	}
	return k
}

func (e *c15env) genData(r *vw.Rng, off, k int64) []c15run {
	if k == 0 {
		return nil
	}
	nr := r.PickInt(1, 1, 1, 2, 2, 3)
	if int64(nr) > k {
		nr = int(k)
	}
	cuts := []int64{0, k}
	for len(cuts) < nr+1 {
		var c int64
		if r.Chance(1, 2) {
			c = c15TL - off%c15TL + int64(r.Intn(3)) - 1 // near the first tract boundary inside the data
		} else {
			c = int64(r.Intn(int(k)))
		}
		c = c15clamp(c, 1, k-1)
		dup := false
		for _, x := range cuts {
			if x == c {
				dup = true
			}
		}
		if dup {
			if k <= int64(len(cuts)) {
				break
			}
			continue
		}
		cuts = append(cuts, c)
	}
	// sort the few cuts
	for i := range cuts {
		for j := i + 1; j < len(cuts); j++ {
			if cuts[j] < cuts[i] {
				cuts[i], cuts[j] = cuts[j], cuts[i]
			}
		}
	}
	var rs []c15run
	for i := 0; i+1 < len(cuts); i++ {
		v := byte(1 + (e.nwrites*17+i*29+int(r.Intn(3)))%254)
		if v == c15Dirty {
			v++
		}
		if r.Chance(1, 10) {
			v = 0 // explicitly written zeros
		}
		rs = append(rs, c15run{cuts[i+1] - cuts[i], v})
	}
	return rs
}

func (e *c15env) genWhenceOff(r *vw.Rng, cur int64) (int64, int64) {
	L := int64(len(e.oracle))
	w := int64(r.PickInt(0, 0, 1, 1, 2, 2, 2, 3))
	var off int64
	switch w {
	case 0:
		off = e.genOffset(r, false)
		if r.Chance(1, 12) {
			off = -1
		}
	case 1:
		off = r.PickI64(0, 1, 5, 10, -1, -5, -10, c15TL, -c15TL, c15TL-1, 100, -cur, -cur-1)
	case 2:
		off = r.PickI64(0, 0, -1, -10, -20, 1, 10, -L, -L-1, -c15TL, -c15TL-1, -c15TL+1, -1000)
	default:
		off = 0
	}
	return off, w
}

func (e *c15env) stepDirect(r *vw.Rng) {
	switch k := r.Intn(100); {
	case k < 22:
		off := e.genOffset(r, true)
		if r.Chance(1, 40) {
			off = -1
		}
		ln := e.genLen(r, c15clamp(off, 0, c15MaxSize), true)
		e.writeAt(off, e.genData(r, c15clamp(off, 0, c15MaxSize), ln))
	case k < 52:
		off := e.genOffset(r, false)
		if r.Chance(1, 40) {
			off = -1
		}
		e.readAt(off, e.genLen(r, c15clamp(off, 0, 1<<40), false))
	case k < 60:
		cur := e.blob.offset
		if cur > c15MaxSize-c15TL {
			e.seek(0, 0)
			return
		}
		ln := e.genLen(r, cur, true)
		e.write(e.genData(r, cur, ln))
	case k < 74:
		e.read(e.genLen(r, e.blob.offset, false))
	case k < 86:
		off, w := e.genWhenceOff(r, e.blob.offset)
		e.seek(off, w)
	case k < 93:
		e.byteLength(false)
	case k < 96:
		e.setCache(r.Bool())
	case k < 98:
		off, ln := e.genSpan(r)
		e.readAtF(off, ln, e.genFaults(r, off, ln))
	default:
		e.reopen()
	}
}

func (e *c15env) stepRA(r *vw.Rng) {
	switch k := r.Intn(100); {
	case k < 55:
		ln := r.PickI64(0, 1, 5, 10, 10, 20, 100, 1000, 65536, c15TL-1, c15TL, c15TL+1, 2*c15TL, 990, 4096)
		if r.Chance(1, 5) {
			ln = e.genLen(r, c15clamp(e.raPos, 0, 1<<40), false)
		}
		e.raRead(ln)
	case k < 88:
		off, w := e.genWhenceOff(r, e.raPos)
		e.raSeek(off, w)
	case k < 92:
		e.byteLength(true)
	case k < 95:
		e.raNew()
	case k < 98:
		e.setCache(r.Bool())
	default:
		e.reopen()
	}
}

// layouts: write a blob with a given shape of holes
func (e *c15env) buildLayout(r *vw.Rng) {
	TL := c15TL
	switch r.Intn(10) {
	case 0: // exactly one full tract
		e.writeAt(0, []c15run{{TL, 7}})
	case 1: // two full tracts written in one call
		e.writeAt(0, []c15run{{TL - 3, 9}, {TL + 3, 11}})
	case 2: // small blob
		e.writeAt(0, []c15run{{1000, 5}})
	case 3: // a hole covering part of a tract, blob ends at a tract boundary
		e.writeAt(TL+100, []c15run{{TL - 100, 13}})
	case 4: // a hole covering a whole tract and more
		e.writeAt(10, []c15run{{10, 3}})
		e.writeAt(2*TL+5, []c15run{{20, 4}})
	case 5: // several-tract hole, last tract full
		e.writeAt(0, []c15run{{1, 1}})
		e.writeAt(3*TL, []c15run{{TL, 2}})
	case 6: // short first tract then data crossing a boundary
		e.writeAt(TL-10, []c15run{{20, 6}})
	case 7: // written back to front
		e.writeAt(2*TL-5, []c15run{{10, 8}})
		e.writeAt(TL-5, []c15run{{10, 9}})
		e.writeAt(0, []c15run{{5, 10}})
	case 8: // tail exactly full after two writes
		e.writeAt(0, []c15run{{TL - 7, 12}})
		e.writeAt(TL-7, []c15run{{7, 14}})
	default:
		n := r.Range(1, 3)
		for i := 0; i < n; i++ {
			off := e.genOffset(r, true)
			e.writeAt(off, e.genData(r, off, e.genLen(r, off, true)))
		}
	}
}

func c15runCase(id string, r *vw.Rng, fix16, fix17, fix17b bool, nops int) *c15env {
	cacheOn := r.Bool()
	kind := r.Intn(112)
	repl := r.PickInt(1, 1, 1, 2, 3)
	if kind >= 100 {
		repl = r.PickInt(1, 2, 3, 3, 3)
	}
	e := c15newEnv(id, cacheOn, repl)
	b2i := func(b bool) int64 {
		if b {
			return 1
		}
		return 0
	}
	e.emit([]int64{0, b2i(fix16), b2i(fix17), b2i(cacheOn), b2i(fix17b)}, []int64{0})
	switch {
	case kind >= 100: // per-replica tractserver write faults
		vw.Stat("case.kind=write-faults", 1)
		e.writeAt(0, []c15run{{c15TL - 3, 31}, {r.PickI64(5000, c15TL+3, c15TL+5003), 32}})
		for i := 0; i < nops; i++ {
			e.stepWriteFaults(r)
		}
	case kind < 14: // multi-tract blob, reads with tractserver read faults armed
		vw.Stat("case.kind=layout+faulted-reads", 1)
		e.writeAt(0, []c15run{{c15TL - 3, 21}, {c15TL + 3, 22}, {r.PickI64(c15TL, c15TL-5, 100, 2*c15TL), 23}})
		if r.Chance(1, 2) {
			e.buildLayout(r)
		}
		for i := 0; i < nops; i++ {
			e.stepFaulted(r)
		}
	case kind < 35: // direct operations only
		vw.Stat("case.kind=direct", 1)
		for i := 0; i < nops; i++ {
			e.stepDirect(r)
		}
	case kind < 60: // a layout, then reads around its end and boundaries
		vw.Stat("case.kind=layout+reads", 1)
		e.buildLayout(r)
		for i := 0; i < nops; i++ {
			if r.Chance(1, 6) {
				e.stepDirect(r)
			} else if r.Chance(1, 2) {
				off := e.genOffset(r, false)
				e.readAt(off, e.genLen(r, off, false))
			} else {
				off, w := e.genWhenceOff(r, e.blob.offset)
				e.seek(off, w)
				e.read(e.genLen(r, e.blob.offset, false))
			}
		}
	case kind < 90: // a layout, then the read-ahead wrapper only
		vw.Stat("case.kind=layout+readahead", 1)
		e.buildLayout(r)
		if r.Chance(1, 3) {
			e.buildLayout(r)
		}
		e.raNew()
		for i := 0; i < nops+5; i++ {
			e.stepRA(r)
		}
	default: // free mix (the model follows; the model-free monitor only judges what it can know)
		vw.Stat("case.kind=mixed", 1)
		for i := 0; i < nops; i++ {
			if r.Chance(1, 2) {
				e.stepDirect(r)
			} else {
				e.stepRA(r)
			}
		}
	}
	e.byteLength(false)
	if r.Chance(3, 5) {
		e.rsPhase(r)
	}
	return e
}

// the two canonical witnesses; they also tell the model which variant of the code it faces
func c15probe16() (*c15env, bool) {
	e := c15newEnv("p16", false, 3)
	e.emit([]int64{0, 0, 0, 0}, []int64{0})
	e.writeAt(0, []c15run{{c15TL, 7}})
	e.readAt(c15TL-10, 20)
	last := e.lines[len(e.lines)-1].obs
	fixed := last[0] == 10 && last[1] == 1
	return e, fixed
}

func c15probe17() (*c15env, bool) {
	e := c15newEnv("p17", false, 3)
	e.emit([]int64{0, 0, 0, 0}, []int64{0})
	e.writeAt(0, []c15run{{1000, 7}})
	e.raNew()
	e.raRead(10)
	e.raSeek(5, c15SeekCur)
	last := e.lines[len(e.lines)-1].obs
	fixed := last[0] == 15
	return e, fixed
}

// a failed Seek on the wrapper must leave its stream position alone (F17b)
func c15probe17b() (*c15env, bool) {
	e := c15newEnv("p17b", false, 3)
	e.emit([]int64{0, 0, 0, 0}, []int64{0})
	e.writeAt(0, []c15run{{10, 1}, {990, 2}})
	e.raNew()
	e.raRead(5)
	e.raSeek(-1, c15SeekSet)
	fixed := e.blob.offset-int64(e.ra.bufBlob.Buffered()) == 5
	e.raRead(5)
	return e, fixed
}

func TestVerifC15(t *testing.T) {
	if !vw.Enabled() {
		t.Skip("verification harness: run through /verif/bin/check")
	}
	root := vw.NewRng(vw.Seed())
	tr := vw.OpenTrace("C15.trace")
	defer tr.Close()
	defer vw.Finish("C15")

	b2i := func(b bool) int64 {
		if b {
			return 1
		}
		return 0
	}
	p16, fix16 := c15probe16()
	p17, fix17 := c15probe17()
	p17b, fix17b := c15probe17b()
	// the probes' config lines carry the variant they found
	for _, p := range []*c15env{p16, p17, p17b} {
		p.lines[0].op = []int64{0, b2i(fix16), b2i(fix17), 0, b2i(fix17b)}
	}
	vw.Stat(fmt.Sprintf("variant.fix16=%v", fix16), 1)
	vw.Stat(fmt.Sprintf("variant.fix17=%v", fix17), 1)
	vw.Stat(fmt.Sprintf("variant.fix17b=%v", fix17b), 1)

	ncases := vw.Scale(400, 12000)
	nops := 12
	envs := make([]*c15env, ncases)
	var wg sync.WaitGroup
	sem := make(chan struct{}, 8)
	for ci := 0; ci < ncases; ci++ {
		if !vw.CaseSelected(fmt.Sprint(ci)) {
			continue
		}
		wg.Add(1)
		sem <- struct{}{}
		go func(ci int) {
			defer wg.Done()
			defer func() { <-sem }()
			r := root.Fork(uint64(ci))
			e := c15runCase(fmt.Sprint(ci), r, fix16, fix17, fix17b, nops)
			e.oracle = nil
			e.cli = nil
			e.memTS, e.memCu, e.cur, e.tss = nil, nil, nil, nil
			e.blob = nil
			e.ra = nil
			envs[ci] = e
		}(ci)
	}
	wg.Wait()

	all := append([]*c15env{p16, p17, p17b}, envs...)
	for _, e := range all {
		if e == nil {
			continue
		}
		tr.Case(e.id)
		fp := ""
		for i, l := range e.lines {
			tr.Op(l.op...)
			tr.Obs(l.obs...)
			vw.Stat(fmt.Sprintf("op=%d", l.op[0]), 1)
			if len(l.obs) > 1 && (l.op[0] == 2 || l.op[0] == 4 || l.op[0] == 7) {
				vw.Stat(fmt.Sprintf("read.err=%d", l.obs[1]), 1)
			}
			if i < 12 {
				fp += vw.Ints(l.op) + "|" + vw.Ints(l.obs) + ";"
			}
		}
		if len(e.lines) > 4 {
			vw.Distinct(fp)
		}
		if e.id == "0" || e.id == "1" || e.id == "p16" || e.id == "p17" || e.id == "p17b" {
			s := "case " + e.id + ":"
			for _, l := range e.lines {
				s += " >" + vw.Ints(l.op) + " <" + vw.Ints(l.obs)
			}
			vw.Sample(s)
		}
	}
	vw.Stat("cases", int64(ncases))
}
