package curator

// C05 shim (overlay-only; /verif/go/C05/curator_shim.go injected as internal/curator/zz_verif_c05_shim.go).
// Adds to the Cluster harness's VerifCurator / VerifDurable (go/cluster/curator_shim.go, same package):
//   - a talker wrapper that turns GCTract calls into first-class in-flight instructions handed to the
//     harness (the curator ignores the RPC's result, leader.go gcTractserverContents) and routes RSEncode
//     to the harness;
//   - the REAL background loop gcTractserverContents of an incarnation, fed by the REAL
//     tractserverHeartbeat (tract report);
//   - the REAL gcMetadataLoop on a twin Curator object that shares the StateHandler and the config
//     fields the loop reads, so that it can be released for exactly one round;
//   - the REAL reconstructChunk, markPendingPieces (packer window), and read access to the durable
//     records the monitors need (blob incl. deleted, tract hosts incl. deleted blobs, RS piece holder).

import (
	"bytes"
	"runtime"
	"time"

	"github.com/westerndigitalcorporation/blb/internal/core"
	"github.com/westerndigitalcorporation/blb/internal/curator/durable/state/fb"
)

// VerifC05Hooks is what the harness supplies.
type VerifC05Hooks struct {
	GC       func(gen int, addr string, tsid core.TractserverID, old []core.TractState, gone []core.TractID)
	RSEncode func(gen int, addr string, tsid core.TractserverID, id core.RSChunkID, length int, srcs, dests []core.TSAddr, im []int) core.Error
}

type verifC05Talker struct {
	TractserverTalker
	gen int
	h   *VerifC05Hooks
}

func (t *verifC05Talker) GCTract(addr string, tsid core.TractserverID, old []core.TractState, gone []core.TractID) core.Error {
	o := append([]core.TractState(nil), old...)
	g := append([]core.TractID(nil), gone...)
	t.h.GC(t.gen, addr, tsid, o, g)
	return core.NoError
}

func (t *verifC05Talker) RSEncode(addr string, tsid core.TractserverID, id core.RSChunkID, length int, srcs, dests []core.TSAddr, im []int) core.Error {
	return t.h.RSEncode(t.gen, addr, tsid, id, length, srcs, dests, im)
}

// C05Install wraps the incarnation's tractserver talker and starts its real tractserver-GC loop.
func (v *VerifCurator) C05Install(h *VerifC05Hooks) {
	if _, ok := v.C.tt.(*verifC05Talker); ok {
		return
	}
	v.C.tt = &verifC05Talker{TractserverTalker: v.C.tt, gen: v.Gen, h: h}
	go v.C.gcTractserverContents()
}

// C05Report delivers a tract report of a tractserver (the 'has' part of a heartbeat).
func (v *VerifCurator) C05Report(id core.TractserverID, addr string, has []core.TractID) {
	v.C.tractserverHeartbeat(id, addr, nil, has, core.TractserverLoad{AvailSpace: 1 << 40, TotalSpace: 1 << 41})
}

// C05MarkPending / C05UnmarkPending: what packTractsContext does around a pack/encode.
func (v *VerifCurator) C05MarkPending(base core.RSChunkID, n int)   { v.C.markPendingPieces(base, n) }
func (v *VerifCurator) C05UnmarkPending(base core.RSChunkID, n int) { v.C.unmarkPendingPieces(base, n) }

// C05Reconstruct runs the real reconstruction task.
func (v *VerifCurator) C05Reconstruct(id core.RSChunkID, bad []core.TractserverID) core.Error {
	return v.C.reconstructChunk(id, bad)
}

// C05Undelete goes through the real RPC handler.
func (v *VerifCurator) C05Undelete(blob core.BlobID) core.Error {
	var reply core.Error
	if e := v.H.UndeleteBlob(blob, &reply); e != nil {
		return core.ErrRPC
	}
	return reply
}

// ---- metadata GC: the real gcMetadataLoop, one round at a time ----

// VerifC05MetaGC is a twin Curator on which only gcMetadataLoop runs.
type VerifC05MetaGC struct {
	c   *Curator
	gid []byte // "goroutine N " header prefix of the loop's goroutine
}

func scanGoroutines(f func(hdr, blk []byte) bool) bool {
	buf := make([]byte, 1<<20)
	for {
		n := runtime.Stack(buf, true)
		if n < len(buf) {
			buf = buf[:n]
			break
		}
		buf = make([]byte, 2*len(buf))
	}
	for len(buf) > 0 {
		end := bytes.Index(buf, []byte("\n\n"))
		var blk []byte
		if end < 0 {
			blk, buf = buf, nil
		} else {
			blk, buf = buf[:end], buf[end+2:]
		}
		nl := bytes.IndexByte(blk, '\n')
		hdr := blk
		if nl >= 0 {
			hdr = blk[:nl]
		}
		if f(hdr, blk) {
			return true
		}
	}
	return false
}

// C05StartMetaGC starts one round of the real metadata-GC loop and returns when its scan is over
// (the loop is then inside the one-second pause that precedes its FinishDelete proposal).
func (d *VerifDurable) C05StartMetaGC() *VerifC05MetaGC {
	cfg := d.cfg
	cfg.MetadataGCInterval = 5 * time.Millisecond
	cfg.MetadataUndeleteTime = -2 * time.Second // cutoff = now + 2s: deletion times are stored with one-second resolution
	c := &Curator{config: &cfg, stateHandler: d.SH, iAmLeader: true}
	c.iAmLeaderCond.L = &c.lock
	m := &VerifC05MetaGC{c: c}
	tag := []byte("gcMetadataLoop")
	go c.gcMetadataLoop()
	deadline := time.Now().Add(20 * time.Second)
	for {
		time.Sleep(2 * time.Millisecond)
		if scanGoroutines(func(hdr, blk []byte) bool {
			if bytes.Contains(blk, tag) && bytes.Contains(hdr, []byte("[sleep")) {
				if i := bytes.IndexByte(hdr, '['); i > 0 {
					m.gid = append([]byte(nil), hdr[:i]...)
				}
				return true
			}
			return false
		}) {
			break
		}
		if time.Now().After(deadline) {
			panic("verif: metadata GC scan did not reach its pause")
		}
	}
	// after this round the loop must block
	c.lock.Lock()
	c.iAmLeader = false
	c.lock.Unlock()
	return m
}

// Finish waits until the round is over: the loop is back at blockIfNotLeader and no FinishDelete
// proposal is under way.
func (m *VerifC05MetaGC) Finish() {
	tag := []byte("gcMetadataLoop")
	fin := []byte("FinishDelete")
	deadline := time.Now().Add(20 * time.Second)
	for {
		time.Sleep(5 * time.Millisecond)
		blocked := scanGoroutines(func(hdr, blk []byte) bool {
			return bytes.HasPrefix(hdr, m.gid) && bytes.Contains(blk, tag) && bytes.Contains(blk, []byte("blockIfNotLeader"))
		})
		// busy: a FinishDelete proposal under way, or any goroutine of the loop (the loop itself, or the
		// not-yet-started wrapper of its `go FinishDeleteBefore(...)`) that is not parked at blockIfNotLeader
		busy := scanGoroutines(func(hdr, blk []byte) bool {
			if bytes.Contains(blk, fin) {
				return true
			}
			return bytes.Contains(blk, tag) && !bytes.Contains(blk, []byte("blockIfNotLeader"))
		})
		if blocked && !busy {
			return
		}
		if time.Now().After(deadline) {
			panic("verif: metadata GC round did not finish")
		}
	}
}

// ---- durable records for the monitors (local reads) ----

// VerifC05Blob is the durable record of a blob, deleted-but-undeletable ones included.
type VerifC05Blob struct {
	Exists  bool
	Deleted bool
	Tracts  []VerifTractState
}

func (d *VerifDurable) C05Blob(id core.BlobID) VerifC05Blob {
	txn := d.SH.LocalReadOnlyTxn()
	defer txn.Commit()
	b := txn.GetBlobAll(id)
	if b == nil {
		return VerifC05Blob{}
	}
	out := VerifC05Blob{Exists: true, Deleted: b.Deleted() != 0}
	var t fb.TractF
	for i := 0; i < b.TractsLength(); i++ {
		b.Tracts(&t, i)
		ts := VerifTractState{OK: true, Version: int(t.Version())}
		for j := 0; j < t.HostsLength(); j++ {
			ts.Hosts = append(ts.Hosts, core.TractserverID(t.Hosts(j)))
		}
		out.Tracts = append(out.Tracts, ts)
	}
	return out
}

// C05RSPiece returns the holder the metadata names for an RS piece.
func (d *VerifDurable) C05RSPiece(id core.TractID) (core.TractserverID, bool) {
	txn := d.SH.LocalReadOnlyTxn()
	defer txn.Commit()
	return txn.LookupRSPiece(id)
}

// C05RSHosts returns the hosts of a chunk (nil if unknown).
func (d *VerifDurable) C05RSHosts(id core.RSChunkID) []core.TractserverID {
	c := d.SH.GetRSChunk(id)
	if c == nil {
		return nil
	}
	return fb.HostsList(c)
}
