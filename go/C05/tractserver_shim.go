package tractserver

// C05 shim (overlay-only; /verif/go/C05/tractserver_shim.go injected as
// internal/tractserver/zz_verif_c05_shim.go).  Adds to the Cluster harness's VerifTS:
//   - a transient disk fault: the next Open of a given tract fails with ErrIO (everything else,
//     Delete included, keeps working) — "a transient disk error coincides with a GC instruction";
//   - PutPiece: an RS piece written through the REAL control-plane write path (TSCtlHandler.CtlWrite
//     -> Store.Create at core.RSChunkVersion), which is what RSEncode/PackTracts destinations do;
//   - Has: presence of a tract file on the disk.

import (
	"context"

	"github.com/westerndigitalcorporation/blb/internal/core"
)

type verifC05Disk struct {
	Disk
	failOpen map[core.TractID]int
}

func (d *verifC05Disk) Open(ctx context.Context, id core.TractID, flags int) (interface{}, core.Error) {
	if d.failOpen[id] > 0 {
		d.failOpen[id]--
		return nil, core.ErrIO
	}
	return d.Disk.Open(ctx, id, flags)
}

func (t *VerifTS) c05Disk() *verifC05Disk {
	t.Store.lock.Lock()
	defer t.Store.lock.Unlock()
	for i := range t.Store.disks {
		if t.Store.disks[i].d == nil {
			continue
		}
		if w, ok := t.Store.disks[i].d.(*verifC05Disk); ok {
			return w
		}
		w := &verifC05Disk{Disk: t.Store.disks[i].d, failOpen: map[core.TractID]int{}}
		t.Store.disks[i].d = w
		return w
	}
	panic("verif: tractserver without a disk")
}

// C05FailNextOpen makes the next n Opens of the tract fail with ErrIO.
func (t *VerifTS) C05FailNextOpen(id core.TractID, n int) { t.c05Disk().failOpen[id] = n }

// C05ClearFaults removes pending open faults.
func (t *VerifTS) C05ClearFaults() {
	d := t.c05Disk()
	for k := range d.failOpen {
		delete(d.failOpen, k)
	}
}

// C05PutPiece writes an RS piece (small payload) through the real CtlWrite path.
func (t *VerifTS) C05PutPiece(id core.TractID, b []byte) core.Error {
	return t.CtlWrite(id, core.RSChunkVersion, 0, b)
}

// C05Has reports whether a tract file exists on the disk, and its version xattr.
func (t *VerifTS) C05Has(id core.TractID) (bool, int) {
	for _, r := range t.Dump(map[core.TractID]bool{id: true}) {
		return true, r.Version
	}
	return false, 0
}
