package blb_test

// C05 harness (overlay; lives in /verif/go/C05, injected as client/blb/zz_verif_c05_test.go).
//
// (i) compositional: the real durable.StateHandler.CheckForGarbage on generated (durable state, tsid,
//     reported tract list) triples, and the real Store.GCTracts (through TSCtlHandler.GCTract) on
//     generated (replica set, instruction, transient disk fault) triples, against the model;
// (ii) integrated, on the Cluster harness (pkg/verifcluster): tract reports go through the real
//     tractserverHeartbeat into the real gcTractserverContents loop of the current leader
//     incarnation; the GCTract calls it makes become first-class in-flight instructions (the curator
//     ignores the RPC's result) that the schedule delivers late, several times and out of order at
//     the real tractservers, interleaved with client writes (ExtendBlob before AckExtend),
//     re-replication, restarts, leader changes, blob delete / undelete / the real gcMetadataLoop, RS
//     reconstruction (real reconstructChunk; the RSEncode RPC's tractserver side is emulated by
//     writing small pieces through the real CtlWrite path).
// Monitors are model-free: every copy a delivery removes is judged against the REAL durable state at
// execution time.

import (
	"bufio"
	"encoding/json"
	"flag"
	"fmt"
	"os"
	"os/exec"
	"path/filepath"
	"strconv"
	"strings"
	"runtime"
	"sort"
	"sync"
	"testing"
	"time"

	"github.com/westerndigitalcorporation/blb/internal/core"
	"github.com/westerndigitalcorporation/blb/internal/curator"
	"github.com/westerndigitalcorporation/blb/internal/curator/durable/state"
	"github.com/westerndigitalcorporation/blb/internal/tractserver"
	vc "github.com/westerndigitalcorporation/blb/pkg/verifcluster"
	vw "github.com/westerndigitalcorporation/blb/pkg/verifwire"
)

// event codes of the C05 layer (>= 40)
const (
	c05Report     = 40 // gen ts n (b i)*                 -> nold (b i v)* ngone (b i)*
	c05Deliver    = 41 // instr fault                      -> n present*
	c05Delete     = 42 // blob                             -> class
	c05Undelete   = 43 // blob                             -> class
	c05MetaScan   = 44 //                                  ->
	c05MetaFinish = 45 // nblobs                           -> exists*
	c05RSSetup    = 46 // base nhosts hosts*               -> class
	c05RSStart    = 47 // op gen base nbad bad* ndst dst*  -> issued (ndst (idx ts)*) | 0 class
	c05RSExec     = 48 // op                               -> n class*
	c05RSReply    = 49 // op lose                          -> class nh hosts*
	c05Stray      = 50 // ts b i                           -> class
	c05StrayPiece = 51 // ts piece                         -> class
	c05Mark       = 52 // base n mark(1)/unmark(0)         ->

	// compositional
	c05cCreate   = 100 // repl                    -> blob number
	c05cExtend   = 101 // b nt nh hosts*          -> class
	c05cChange   = 102 // b i ver nh hosts*       -> class
	c05cDelete   = 103 // b                       -> class
	c05cUndelete = 104 // b                       -> class
	c05cFinish   = 105 // n b*                    -> class
	c05cRSCommit = 106 // base nh hosts*          -> class
	c05cRSUpdate = 107 // base nh hosts*          -> class
	c05cCheck    = 108 // tsid n (b i)*           -> nold (b i v)* ngone (b i)*
	c05sPut      = 110 // b i ver                 -> class
	c05sGC       = 112 // nold (b i v fault)* ngone (b i)* -> per named tract: present version
)

var c05RSPart = core.PartitionID(uint32(core.RSPartition)<<30 | 1)

func c05Piece(n int) core.TractID {
	return core.RSChunkID{Partition: c05RSPart, ID: uint64(n)}.ToTractID()
}
func c05Chunk(n int) core.RSChunkID { return core.RSChunkID{Partition: c05RSPart, ID: uint64(n)} }

func c05Sentinel(k int) core.TractID {
	return core.TractID{Blob: core.BlobIDFromParts(1, core.BlobKey(0xF000+k)), Index: 0}
}

// c05Enc turns a tract id into the wire pair (blob number, index): blobs of the case are numbered in
// creation order, a blob that never existed is 1000+k, an RS piece is (-2, piece id).
func c05Enc(blobs []core.BlobID, id core.TractID) (int64, int64) {
	if id.IsRS() {
		return -2, int64(id.Index)
	}
	for i, b := range blobs {
		if b == id.Blob {
			return int64(i), int64(id.Index)
		}
	}
	k := uint64(id.Blob) & 0xffffffff
	if k >= 0xF000 {
		return int64(1000 + k - 0xF000), int64(id.Index)
	}
	return 999, int64(id.Index)
}

func c05EncInstr(blobs []core.BlobID, old []core.TractState, gone []core.TractID) []int64 {
	out := []int64{int64(len(old))}
	for _, o := range old {
		b, i := c05Enc(blobs, o.ID)
		out = append(out, b, i, int64(o.Version))
	}
	out = append(out, int64(len(gone)))
	for _, g := range gone {
		b, i := c05Enc(blobs, g)
		out = append(out, b, i)
	}
	return out
}

func c05Violation(caseID, sig, what string, det map[string]interface{}) {
	vw.Report(vw.Violation{Property: "C05", Signature: sig, What: what, Case: caseID, Detail: det})
}

// ============================================================ integrated

type c05Instr struct {
	N         int
	Gen, TS   int // TS: the server the curator addressed (index of its address)
	TSID      core.TractserverID // the id the curator stamped on the request
	Old       []core.TractState
	Gone      []core.TractID
	Delivered int
	AtEvent   int
}

type c05RSCall struct {
	task     *c05RSTask
	dests    []core.TSAddr
	im       []int
	nsrc     int
	resume   chan core.Error
	executed bool
}

type c05RSTask struct {
	ID      int
	Gen     int
	Base    int
	StartAt int // index of the event that started it
	call *c05RSCall
	done bool
	res  core.Error
}

type c05Removal struct {
	how string
	in  *c05Instr
}

type c05Key struct {
	ts int
	id core.TractID
}

type c05DelSnap struct {
	rec  curator.VerifC05Blob
	reps map[c05Key]tractserver.VerifReplica
}

type c05H struct {
	d        *vc.Driver
	id       string
	mu       sync.Mutex
	hooks    *curator.VerifC05Hooks
	soup     []*c05Instr
	captured []*c05Instr
	garbage  map[c05Key]c05Removal // removed by a GC delivery and not re-created since -> what removed it
	commits  map[c05Key]*c05RSTask // (server, piece) a reconstruction committed as holder
	delSnap  map[int]*c05DelSnap
	live     map[int]bool // blobs that must exist: created, and not deleted (or undelete acknowledged)
	chunks   []int        // bases of RS chunks (9 pieces each)
	rsTasks  []*c05RSTask
	meta     *curator.VerifC05MetaGC
	nMeta    int
	maxMeta  int
	nStray   int
	nextOp   int
	seen     map[string]bool
	stats    map[string]int
	rsHasTS  int
}

func newC05H(d *vc.Driver, id string) *c05H {
	h := &c05H{d: d, id: id, garbage: map[c05Key]c05Removal{}, commits: map[c05Key]*c05RSTask{}, delSnap: map[int]*c05DelSnap{}, live: map[int]bool{},
		nextOp: 5000, seen: map[string]bool{}, stats: map[string]int{}}
	h.hooks = &curator.VerifC05Hooks{GC: h.onGC, RSEncode: h.onRSEncode}
	d.Extra = func(*vc.Driver) []vc.Action { return h.actions() }
	return h
}

func (h *c05H) blobIDs() []core.BlobID {
	var out []core.BlobID
	for _, b := range h.d.Blobs {
		out = append(out, b.ID)
	}
	return out
}

func (h *c05H) bad(sig, what string, det map[string]interface{}) {
	if h.seen[sig] {
		return
	}
	h.seen[sig] = true
	c05Violation(h.id, sig, what, det)
}

func (h *c05H) emit(code int, args []int64, obs []int64) {
	ev := &vc.Event{Code: code}
	ev.OpLines = [][]int64{append([]int64{int64(code)}, args...)}
	if obs == nil {
		obs = []int64{}
	}
	ev.ObsLines = [][]int64{obs}
	h.d.Events = append(h.d.Events, ev)
	h.stats[fmt.Sprintf("ev.%d", code)]++
}

func (h *c05H) install() { h.d.Cl.Cur.C05Install(h.hooks) }

// hook: the curator's GC loop sent an instruction
func (h *c05H) onGC(gen int, addr string, tsid core.TractserverID, old []core.TractState, gone []core.TractID) {
	h.mu.Lock()
	in := &c05Instr{N: len(h.soup), Gen: gen, TS: vc.TSIndex(addr), TSID: tsid, Old: old, Gone: gone, AtEvent: len(h.d.Events)}
	h.soup = append(h.soup, in)
	h.captured = append(h.captured, in)
	h.mu.Unlock()
}

// hook: a reconstruction sent its RSEncode; park it
func (h *c05H) onRSEncode(gen int, addr string, tsid core.TractserverID, id core.RSChunkID, length int, srcs, dests []core.TSAddr, im []int) core.Error {
	h.mu.Lock()
	var task *c05RSTask
	for _, t := range h.rsTasks {
		if !t.done && t.call == nil && t.Gen == gen && t.Base == int(id.ID) {
			task = t
			break
		}
	}
	if task == nil {
		h.mu.Unlock()
		return core.ErrRPC
	}
	c := &c05RSCall{task: task, dests: dests, im: im, nsrc: len(srcs), resume: make(chan core.Error, 1)}
	task.call = c
	h.mu.Unlock()
	return <-c.resume
}

// ---- the model-free monitors ----

type c05Pre struct {
	key     c05Key
	present bool
	version int
}

// judgeRemoval evaluates the property's condition for a copy that a delivery removed, against the
// real durable state at execution time (read right before the delivery ran).
func (h *c05H) judgeRemoval(in *c05Instr, p c05Pre, how string, rec curator.VerifC05Blob, rsHost core.TractserverID, rsOK bool) (named bool) {
	id := p.key.id
	det := map[string]interface{}{"ts": p.key.ts, "tract": id.String(), "copy-version": p.version, "instruction": in.N,
		"instruction-gen": in.Gen, "computed-at-event": in.AtEvent, "deliveries": in.Delivered, "via": how}
	if id.IsRS() {
		if rsOK && int(rsHost) == p.key.ts {
			h.bad("gc-removed-rs-piece-of-named-holder:"+how+"-instruction",
				"a tractserver deleted an RS piece while the metadata names that server as its holder", det)
			return true
		}
		return false
	}
	if !rec.Exists {
		return false // finally deleted (or never existed): collectable
	}
	state := "blob-live"
	if rec.Deleted {
		state = "blob-marked-deleted"
	}
	idx := int(id.Index)
	if idx >= len(rec.Tracts) {
		h.bad("gc-removed-tract-being-created:"+how+"-instruction:"+state,
			"a tractserver deleted a tract beyond the acknowledged end of an existing blob (a tract in creation)", det)
		return true
	}
	t := rec.Tracts[idx]
	for _, hst := range t.Hosts {
		if int(hst) == p.key.ts {
			det["durable-version"] = t.Version
			rel := "copy-older-than-durable"
			if p.version >= t.Version {
				rel = "copy-current"
			}
			h.bad("gc-removed-host-copy:"+how+"-instruction:"+state+":"+rel,
				"a tractserver deleted its copy of a tract although the metadata names it as a holder of that tract", det)
			return true
		}
	}
	return false
}

// afterStep: (1) a copy that GC removed and that was not re-created must never be named by the
// metadata later (an instruction raced with creation / repair / encoding in progress);
// (2) a live blob (created, not deleted, or undelete acknowledged) stays in the metadata.
func (h *c05H) afterStep() {
	d := h.d
	for k, how := range h.garbage {
		if ok, _ := d.Cl.TS[k.ts].C05Has(k.id); ok {
			delete(h.garbage, k)
			continue
		}
		named := false
		if k.id.IsRS() {
			hst, ok := d.Cl.D.C05RSPiece(k.id)
			named = ok && int(hst) == k.ts
		} else {
			rec := d.Cl.D.C05Blob(k.id.Blob)
			if rec.Exists && int(k.id.Index) < len(rec.Tracts) {
				for _, hst := range rec.Tracts[k.id.Index].Hosts {
					if int(hst) == k.ts {
						named = true
					}
				}
			}
		}
		if named {
			kind := "regular"
			det := map[string]interface{}{"ts": k.ts, "tract": k.id.String(), "removed-by": how.how}
			if k.id.IsRS() {
				// WHEN was the instruction computed relative to the repair that committed this holder?
				//  - before the repair started: the pendingPieces set could not know (a version-less, unfenced gone
				//    instruction delayed in the network: the F5 family);
				//  - by the repairing incarnation while the pieces were pending: filterPendingPieces failed.
				kind = "rs-piece:committing-repair-unknown"
				if t := h.commits[k]; t != nil {
					det["repair-op"], det["repair-started-at-event"], det["repair-incarnation"] = t.ID, t.StartAt, t.Gen
					det["instruction-computed-at-event"], det["instruction-incarnation"] = how.in.AtEvent, how.in.Gen
					switch {
					case how.in.AtEvent < t.StartAt:
						kind = "rs-piece:instruction-computed-before-repair-started"
					case how.in.Gen == t.Gen:
						kind = "rs-piece:instruction-computed-while-pending"
					default:
						kind = "rs-piece:instruction-computed-by-another-incarnation-during-repair"
					}
				}
			}
			h.bad("gc-removed-copy-later-named-by-metadata:"+kind,
				"a GC instruction removed a copy that a creation / repair / encoding in progress then committed into the metadata", det)
			delete(h.garbage, k)
		}
	}
	for bi, must := range h.live {
		if !must {
			continue
		}
		if rec := d.Cl.D.C05Blob(d.Blobs[bi].ID); !rec.Exists {
			h.bad("live-blob-removed-from-metadata", "a blob that was never deleted, or whose undelete was acknowledged, disappeared from the metadata (final deletion of a live blob)",
				map[string]interface{}{"blob": bi})
			h.live[bi] = false
		}
	}
}

// ---- events ----

func (h *c05H) newBlob(repl int) *vc.BlobState {
	b := h.d.NewBlob(repl)
	h.live[b.Idx] = true
	return b
}

// report: tractserver ts reports the given tracts to the current leader incarnation
func (h *c05H) report(ts int, has []core.TractID) {
	d := h.d
	h.install()
	h.mu.Lock()
	h.captured = nil
	h.mu.Unlock()
	cur := d.Cl.Cur
	blobs := h.blobIDs()
	args := []int64{int64(cur.Gen), int64(ts), int64(len(has))}
	for _, id := range has {
		b, i := c05Enc(blobs, id)
		args = append(args, b, i)
	}
	cur.C05Report(core.TractserverID(ts), vc.TSAddr(ts), has)
	d.Cl.S.Settle()
	h.mu.Lock()
	got := h.captured
	h.captured = nil
	h.mu.Unlock()
	var obs []int64
	if len(got) == 0 {
		obs = []int64{0, 0}
	} else {
		obs = c05EncInstr(blobs, got[0].Old, got[0].Gone)
		if len(got) > 1 {
			h.bad("harness-two-instructions-for-one-report", "one tract report produced two GC instructions", nil)
		}
	}
	h.emit(c05Report, args, obs)
	h.afterStep()
}

func (h *c05H) reportAll(ts int, shuffle bool) {
	has := h.d.Cl.TS[ts].AllTracts()
	if shuffle && len(has) > 1 {
		p := h.d.R.Perm(len(has))
		out := make([]core.TractID, len(has))
		for i, j := range p {
			out[i] = has[j]
		}
		has = out
		if h.d.R.Chance(1, 3) {
			has = has[:h.d.R.Range(1, len(has))]
		}
	}
	if len(has) > 0 {
		h.report(ts, has)
	}
}

// deliver: instruction in reaches its tractserver now (again)
func (h *c05H) deliver(in *c05Instr, fault bool) { h.deliverTo(in, fault, in.TS) }

// deliverTo: the request (stamped with the id it was computed for) reaches tractserver recv: the addressed one, or
// another process (server replaced under a new id at the same address, stale address cache, duplicate delivered to
// the wrong process).  Goes through the real TSCtlHandler.GCTract; the monitors judge what THAT server lost.
func (h *c05H) deliverTo(in *c05Instr, fault bool, recv int) {
	d := h.d
	ts := d.Cl.TS[recv]
	var pres []c05Pre
	recs := map[core.BlobID]curator.VerifC05Blob{}
	type rsr struct {
		h  core.TractserverID
		ok bool
	}
	rss := map[core.TractID]rsr{}
	look := func(id core.TractID) {
		ok, v := ts.C05Has(id)
		pres = append(pres, c05Pre{key: c05Key{recv, id}, present: ok, version: v})
		if id.IsRS() {
			hh, o := d.Cl.D.C05RSPiece(id)
			rss[id] = rsr{hh, o}
		} else if _, have := recs[id.Blob]; !have {
			recs[id.Blob] = d.Cl.D.C05Blob(id.Blob)
		}
	}
	for _, o := range in.Old {
		look(o.ID)
		if fault {
			ts.C05FailNextOpen(o.ID, 1)
		}
	}
	for _, g := range in.Gone {
		look(g)
	}
	reply := ts.GCTract(in.TSID, in.Old, in.Gone)
	ts.C05ClearFaults()
	in.Delivered++
	if recv != in.TS {
		h.stats["deliveries.misaddressed"]++
	}
	obs := []int64{int64(reply), int64(len(pres))}
	for i, p := range pres {
		ok, _ := ts.C05Has(p.key.id)
		obs = append(obs, b2i64(ok))
		if p.present && !ok {
			how := "old"
			if i >= len(in.Old) {
				how = "gone"
			}
			if reply != core.NoError {
				h.bad("gc-refused-request-removed-copy", "a GCTract request that the tractserver answered with an error removed a copy",
					map[string]interface{}{"ts": recv, "stamped-for": int(in.TSID), "reply": reply.String(), "tract": p.key.id.String()})
			}
			r := rss[p.key.id]
			if h.judgeRemoval(in, p, how, recs[p.key.id.Blob], r.h, r.ok) {
				h.stats["removed."+how]++
				continue // already judged a violation at execution time
			}
			h.garbage[p.key] = c05Removal{how: fmt.Sprintf("%s-instruction %d (leader incarnation %d, computed at event %d)", how, in.N, in.Gen, in.AtEvent), in: in}
			h.stats["removed."+how]++
		}
	}
	d.Snap.Refresh(d.Cl, recv)
	h.emit(c05Deliver, []int64{int64(in.N), b2i64(fault), int64(recv)}, obs)
	h.afterStep()
}

func b2i64(b bool) int64 {
	if b {
		return 1
	}
	return 0
}

func (h *c05H) hostReplicas(rec curator.VerifC05Blob, blob core.BlobID) map[c05Key]tractserver.VerifReplica {
	out := map[c05Key]tractserver.VerifReplica{}
	for i, t := range rec.Tracts {
		id := core.TractID{Blob: blob, Index: core.TractKey(i)}
		for _, hst := range t.Hosts {
			for _, r := range h.d.Cl.TS[int(hst)].Dump(map[core.TractID]bool{id: true}) {
				out[c05Key{int(hst), id}] = r
			}
		}
	}
	return out
}

func (h *c05H) deleteBlob(bi int) {
	d := h.d
	id := d.Blobs[bi].ID
	rec := d.Cl.D.C05Blob(id)
	snap := &c05DelSnap{rec: rec, reps: h.hostReplicas(rec, id)}
	err := d.Cl.Cur.DeleteBlob(id)
	if err == core.NoError {
		h.delSnap[bi] = snap
		h.live[bi] = false
	}
	h.emit(c05Delete, []int64{int64(bi)}, []int64{int64(err)})
	h.afterStep()
}

func recEqual(a, b curator.VerifC05Blob) bool {
	if a.Exists != b.Exists || len(a.Tracts) != len(b.Tracts) {
		return false
	}
	for i := range a.Tracts {
		if a.Tracts[i].Version != b.Tracts[i].Version || fmt.Sprint(a.Tracts[i].Hosts) != fmt.Sprint(b.Tracts[i].Hosts) {
			return false
		}
	}
	return true
}

func (h *c05H) undeleteBlob(bi int) {
	d := h.d
	id := d.Blobs[bi].ID
	err := d.Cl.Cur.C05Undelete(id)
	h.emit(c05Undelete, []int64{int64(bi)}, []int64{int64(err)})
	if err == core.NoError {
		// "blobs that are merely marked deleted keep their data so that undelete restores them intact"
		if snap := h.delSnap[bi]; snap != nil {
			rec := d.Cl.D.C05Blob(id)
			if !rec.Exists || rec.Deleted || !recEqual(rec, snap.rec) {
				h.bad("undelete-metadata-not-intact", "after delete + undelete the blob's metadata is not what it was", map[string]interface{}{"blob": bi})
			}
			now := h.hostReplicas(rec, id)
			for k, r := range snap.reps {
				n, ok := now[k]
				if !ok || n.Version != r.Version || n.Len != r.Len || fmt.Sprint(n.Runs) != fmt.Sprint(r.Runs) {
					h.bad("undelete-replica-not-intact", "after delete + undelete a replica the metadata names is missing or changed",
						map[string]interface{}{"blob": bi, "ts": k.ts, "tract": k.id.String(), "present": ok})
				}
			}
			delete(h.delSnap, bi)
		}
		h.live[bi] = true
	}
	h.afterStep()
}

func (h *c05H) metaScan() {
	h.meta = h.d.Cl.D.C05StartMetaGC()
	h.nMeta++
	h.emit(c05MetaScan, nil, nil)
}

func (h *c05H) metaFinish() {
	d := h.d
	h.meta.Finish()
	h.meta = nil
	obs := []int64{}
	for _, b := range d.Blobs {
		obs = append(obs, b2i64(d.Cl.D.C05Blob(b.ID).Exists))
	}
	h.emit(c05MetaFinish, []int64{int64(len(d.Blobs))}, obs)
	h.afterStep()
}

func (h *c05H) stray(ts int) {
	id := c05Sentinel(h.nStray % 3)
	h.nStray++
	err := h.d.Cl.TS[ts].Create(core.TractserverID(ts), id, []byte{7}, 0)
	h.d.Snap.Refresh(h.d.Cl, ts)
	b, i := c05Enc(h.blobIDs(), id)
	h.emit(c05Stray, []int64{int64(ts), b, i}, []int64{int64(err)})
}

func (h *c05H) strayPiece(ts, piece int) {
	err := h.d.Cl.TS[ts].C05PutPiece(c05Piece(piece), []byte{9, 9, 9, 9})
	h.d.Snap.Refresh(h.d.Cl, ts)
	h.emit(c05StrayPiece, []int64{int64(ts), int64(piece)}, []int64{int64(err)})
	h.afterStep()
}

// rsSetup commits an RS(6,3) chunk with the given hosts straight into the durable state (what a
// finished pack/encode pipeline leaves) and stores the nine pieces.
func (h *c05H) rsSetup(base int, hosts []int) {
	d := h.d
	var ids []core.TractserverID
	for _, x := range hosts {
		ids = append(ids, core.TractserverID(x))
	}
	err := d.Cl.D.SH.CommitRSChunk(c05Chunk(base), core.StorageClassRS_6_3, ids, make([][]state.EncodedTract, 6), 0)
	args := []int64{int64(base), int64(len(hosts))}
	for _, x := range hosts {
		args = append(args, int64(x))
	}
	if err == core.NoError {
		for i, x := range hosts {
			d.Cl.TS[x].C05PutPiece(c05Piece(base+i), []byte{byte(i), 1, 2, 3})
			d.Snap.Refresh(d.Cl, x)
		}
		h.chunks = append(h.chunks, base)
	}
	h.emit(c05RSSetup, args, []int64{int64(err)})
}

func (h *c05H) knowsAll() bool {
	for i := 1; i < len(h.d.Cl.TS); i++ {
		if !h.d.Cl.Cur.KnowsTS(core.TractserverID(i)) {
			return false
		}
	}
	return true
}

// rsStart starts the real reconstructChunk for (chunk, bad) with the replacement servers pinned.
func (h *c05H) rsStart(base int, bad []int, spares []int) *c05RSTask {
	d := h.d
	h.install()
	cur := d.Cl.Cur
	el := map[int]bool{}
	for _, s := range spares {
		el[s] = true
	}
	d.Cl.SetEligible(cur, el)
	h.nextOp++
	t := &c05RSTask{ID: h.nextOp, Gen: cur.Gen, Base: base, StartAt: len(d.Events)}
	h.mu.Lock()
	h.rsTasks = append(h.rsTasks, t)
	h.mu.Unlock()
	var bids []core.TractserverID
	for _, x := range bad {
		bids = append(bids, core.TractserverID(x))
	}
	go func() {
		defer func() {
			if p := recover(); p != nil {
				h.mu.Lock()
				t.res, t.done = core.Error(-99), true
				h.mu.Unlock()
				h.bad("reconstruct-panicked", "reconstructChunk panicked (a chunk record read after its database transaction ended, finding F24?)",
					map[string]interface{}{"panic": fmt.Sprint(p), "chunk": base})
				if t.call != nil {
					t.call = nil
				}
			}
		}()
		e := cur.C05Reconstruct(c05Chunk(base), bids)
		h.mu.Lock()
		t.res, t.done = e, true
		h.mu.Unlock()
	}()
	d.Cl.S.Settle()
	args := []int64{int64(t.ID), int64(t.Gen), int64(base), int64(len(bad))}
	for _, x := range bad {
		args = append(args, int64(x))
	}
	var obs []int64
	h.mu.Lock()
	c, done, res := t.call, t.done, t.res
	h.mu.Unlock()
	var dst []int64
	if c != nil {
		for i, dd := range c.dests {
			if dd.Host != "" {
				dst = append(dst, int64(c.im[c.nsrc+i]), int64(dd.ID))
			}
		}
		obs = append([]int64{1, int64(len(dst) / 2)}, dst...)
	} else if done {
		obs = []int64{0, int64(res)}
	} else {
		obs = []int64{-9}
	}
	args = append(args, int64(len(dst)/2))
	args = append(args, dst...) // placement is an oracle input, validated by the model
	h.emit(c05RSStart, args, obs)
	h.afterStep()
	return t
}

// rsExec: the RSEncode request executes at the tractservers: every destination stores its piece.
func (h *c05H) rsExec(t *c05RSTask) {
	d := h.d
	c := t.call
	obs := []int64{}
	n := 0
	for i, dd := range c.dests {
		idx := c.im[c.nsrc+i]
		if dd.Host == "" || idx < 0 {
			continue
		}
		e := d.Cl.TS[int(dd.ID)].C05PutPiece(c05Piece(t.Base+idx), []byte{byte(idx), 4, 5, 6})
		d.Snap.Refresh(d.Cl, int(dd.ID))
		obs = append(obs, int64(e))
		n++
	}
	c.executed = true
	h.emit(c05RSExec, []int64{int64(t.ID)}, append([]int64{int64(n)}, obs...))
	h.afterStep()
}

// rsReply: the reply (or an RPC error) reaches the reconstruction, which then commits or gives up.
func (h *c05H) rsReply(t *c05RSTask, lose bool) {
	d := h.d
	c := t.call
	if lose || !c.executed {
		c.resume <- core.ErrRPC
	} else {
		c.resume <- core.NoError
	}
	d.Cl.S.Settle()
	h.mu.Lock()
	done, res := t.done, t.res
	h.mu.Unlock()
	obs := []int64{-9}
	if done {
		obs = []int64{int64(res)}
		hs := d.Cl.D.C05RSHosts(c05Chunk(t.Base))
		obs = append(obs, int64(len(hs)))
		for _, x := range hs {
			obs = append(obs, int64(x))
		}
	}
	if done && res == core.NoError {
		for i, dd := range c.dests {
			if idx := c.im[c.nsrc+i]; dd.Host != "" && idx >= 0 {
				h.commits[c05Key{int(dd.ID), c05Piece(t.Base + idx)}] = t
			}
		}
	}
	t.call = nil
	h.emit(c05RSReply, []int64{int64(t.ID), b2i64(lose || !c.executed)}, obs)
	h.afterStep()
}

func (h *c05H) openRS() []*c05RSTask {
	var out []*c05RSTask
	h.mu.Lock()
	for _, t := range h.rsTasks {
		if !t.done && t.call != nil {
			out = append(out, t)
		}
	}
	h.mu.Unlock()
	return out
}

func (h *c05H) idle() bool {
	for _, op := range h.d.Cl.S.Ops {
		if !op.Done {
			return false
		}
	}
	return len(h.d.Cl.S.Pending()) == 0
}

// actions offered to the random scheduler
func (h *c05H) actions() []vc.Action {
	d := h.d
	r := d.R
	nts := len(d.Cl.TS) - 1
	var acts []vc.Action
	acts = append(acts, vc.Action{W: 14, Run: func() { h.reportAll(r.Range(1, nts), true) }})
	if len(h.soup) > 0 {
		acts = append(acts, vc.Action{W: 16, Run: func() {
			var in *c05Instr
			if r.Chance(1, 2) {
				in = h.soup[len(h.soup)-1-r.Intn(min(3, len(h.soup)))]
			} else {
				in = h.soup[r.Intn(len(h.soup))]
			}
			recv := in.TS
			if r.Chance(1, 5) {
				recv = r.Range(1, nts) // any process, usually not the addressed one
			}
			h.deliverTo(in, r.Chance(1, 6) && len(in.Old) > 0, recv)
		}})
	}
	if h.nStray < 4 {
		acts = append(acts, vc.Action{W: 2, Run: func() { h.stray(r.Range(1, nts)) }})
	}
	if h.idle() {
		for _, b := range d.Blobs {
			b := b
			rec := d.Cl.D.C05Blob(b.ID)
			if rec.Exists && !rec.Deleted && len(d.Blobs) > 1 {
				acts = append(acts, vc.Action{W: 2, Run: func() { h.deleteBlob(b.Idx) }})
			}
			if rec.Exists && rec.Deleted {
				acts = append(acts, vc.Action{W: 3, Run: func() { h.undeleteBlob(b.Idx) }})
			}
		}
	}
	if h.meta == nil && h.nMeta < h.maxMeta && h.idle() {
		any := false
		for _, b := range d.Blobs {
			if rec := d.Cl.D.C05Blob(b.ID); rec.Exists && rec.Deleted {
				any = true
			}
		}
		if any {
			acts = append(acts, vc.Action{W: 4, Run: func() { h.metaScan() }})
		}
	}
	// RS: reconstruction
	if len(h.chunks) > 0 && h.knowsAll() && len(h.openRS()) == 0 && h.idle() && h.meta == nil {
		acts = append(acts, vc.Action{W: 6, Run: func() {
			base := h.chunks[r.Intn(len(h.chunks))]
			hosts := d.Cl.D.C05RSHosts(c05Chunk(base))
			inHosts := map[int]bool{}
			for _, x := range hosts {
				inHosts[int(x)] = true
			}
			nbad := r.PickInt(1, 1, 1, 2)
			var bad, spare []int
			for _, i := range r.Perm(len(hosts))[:nbad] {
				bad = append(bad, int(hosts[i]))
			}
			sort.Ints(bad)
			for i := 1; i <= nts; i++ {
				if !inHosts[i] {
					spare = append(spare, i)
				}
			}
			if len(spare) < nbad {
				return
			}
			var pick []int
			for _, i := range r.Perm(len(spare))[:nbad] {
				pick = append(pick, spare[i])
			}
			h.rsStart(base, bad, pick)
		}})
	}
	return acts
}

// rsWindow: the RS-specific actions while a reconstruction's RSEncode is outstanding (execute, reply,
// a report from a destination).  They are offered IN ADDITION to everything else (client writes,
// re-replication, AckExtend/ChangeTract commits, delete/undelete, leader changes ...): since /repo
// c7b338d reconstructChunk copies the chunk's host list before the RPC (finding F24), so metadata
// writes in the window are harmless; a regression shows as a panic of the task (reported as
// reconstruct-panicked) or as a host list that differs from the model's.
func (h *c05H) rsWindow() []vc.Action {
	d := h.d
	r := d.R
	var acts []vc.Action
	for _, t := range h.openRS() {
		t := t
		if !t.call.executed {
			acts = append(acts, vc.Action{W: 8, Run: func() { h.rsExec(t) }})
			acts = append(acts, vc.Action{W: 1, Run: func() { h.rsReply(t, true) }})
		} else {
			acts = append(acts, vc.Action{W: 5, Run: func() { h.rsReply(t, r.Chance(1, 5)) }})
			// the window the pending-pieces set exists for: a report from a destination
			for i, dd := range t.call.dests {
				dd := dd
				if dd.Host != "" && t.call.im[t.call.nsrc+i] >= 0 {
					acts = append(acts, vc.Action{W: 7, Run: func() { h.reportAll(int(dd.ID), r.Chance(1, 2)) }})
				}
			}
		}
	}
	return acts
}

// run performs n scheduling decisions (the Driver's and the C05 layer's), with the monitors after each.
func (h *c05H) run(n int) {
	d := h.d
	d.Cl.S.SetAuto(false)
	for i := 0; i < n; i++ {
		h.install()
		if h.meta != nil {
			// a metadata-GC round is open: the loop sleeps for one second of real time between its scan
			// and its FinishDelete proposal; only a few quick events fit into that window
			k := d.R.Intn(3)
			for j := 0; j < k; j++ {
				h.windowEvent()
			}
			h.metaFinish()
			continue
		}
		acts := d.Actions()
		if len(h.openRS()) > 0 && d.Cl.S != nil {
			if len(acts) == 1 && acts[0].W == 1 {
				// an orphan of a finished curator task must be resolved first (Cluster fault model)
			} else {
				acts = append(acts, h.rsWindow()...)
			}
		}
		tot := 0
		for _, a := range acts {
			tot += a.W
		}
		if tot == 0 {
			return
		}
		x := d.R.Intn(tot)
		for _, a := range acts {
			if x < a.W {
				a.Run()
				break
			}
			x -= a.W
		}
		h.afterStep()
	}
}

func (h *c05H) windowEvent() {
	d := h.d
	var del, und []int
	for _, b := range d.Blobs {
		rec := d.Cl.D.C05Blob(b.ID)
		if rec.Exists && rec.Deleted {
			und = append(und, b.Idx)
		} else if rec.Exists {
			del = append(del, b.Idx)
		}
	}
	switch x := d.R.Intn(4); {
	case x <= 1 && len(und) > 0:
		h.undeleteBlob(und[d.R.Intn(len(und))])
	default:
		// (no DeleteBlob inside the window: deletion times reach the database truncated to whole seconds,
		// so with MetadataUndeleteTime = 0 a blob deleted after the scan but within the same wall-clock
		// second would count as deleted before the cutoff; with the real three-day grace period this is moot)
		_ = del
		h.reportAll(d.R.Range(1, len(d.Cl.TS)-1), false)
	}
}

func (h *c05H) quiesce() {
	if h.meta != nil {
		h.metaFinish()
	}
	for _, t := range h.openRS() {
		if !t.call.executed {
			h.rsExec(t)
		}
		h.rsReply(t, false)
	}
	h.d.Quiesce()
	h.afterStep()
}

// final sweep: every server reports everything, every instruction is delivered once more, in
// creation order and then in reverse
func (h *c05H) sweep() {
	nts := len(h.d.Cl.TS) - 1
	for i := 1; i <= nts; i++ {
		if !h.d.Cl.Cur.KnowsTS(core.TractserverID(i)) {
			h.d.Heartbeat(i)
		}
		h.reportAll(i, false)
	}
	n := len(h.soup)
	for i := n - 1; i >= 0; i-- {
		h.deliver(h.soup[i], false)
	}
	for i := 0; i < n && i < 6; i++ {
		h.deliver(h.soup[i], false)
	}
	for i := 0; i < n && i < 8; i++ { // ... and each of the first few once at every OTHER server
		for s := 1; s <= nts; s++ {
			if s != h.soup[i].TS && (nts <= 5 || (s+i)%4 == 0) {
				h.deliverTo(h.soup[i], false, s)
			}
		}
	}
}

func (h *c05H) finish(tr *vw.Trace) {
	d := h.d
	for _, b := range d.Bads {
		h.bad("cluster:"+b.Sig, b.What, b.Detail)
	}
	d.WriteTrace(tr)
	vw.Stat("cases.integrated", 1)
	vw.Stat("events", int64(len(d.Events)))
	vw.Stat("instructions", int64(len(h.soup)))
	nd, ndup := 0, 0
	for _, in := range h.soup {
		nd += in.Delivered
		if in.Delivered > 1 {
			ndup++
		}
	}
	vw.Stat("deliveries", int64(nd))
	vw.Stat("instructions.delivered-more-than-once", int64(ndup))
	for k, v := range h.stats {
		vw.Stat(k, int64(v))
	}
	if h.stats["removed.old"] > 0 && h.stats["removed.gone"]+h.stats["ev.49"] > 0 {
		fp := fmt.Sprintf("%d/%d/%d/%d/%d", len(d.Cl.TS)-1, len(h.soup), nd, h.stats["removed.old"], h.stats["removed.gone"])
		vw.Distinct(fp)
		if os.Getenv("VERIF_CHUNK") != "" {
			if f, err := os.OpenFile(filepath.Join(vw.OutDir(), "distinct.txt"), os.O_APPEND|os.O_CREATE|os.O_WRONLY, 0o644); err == nil {
				fmt.Fprintln(f, fp)
				f.Close()
			}
		}
	}
}

func deliverWhere5(d *vc.Driver, pred func(r *vc.RPC) bool) {
	for i := 0; i < 300; i++ {
		var pick *vc.RPC
		for _, r := range d.Cl.S.Pending() {
			if r.State == vc.StParked && pred(r) {
				pick = r
				break
			}
		}
		if pick == nil {
			return
		}
		d.Step(pick, vc.ModeDeliver)
	}
}

func c05Weights(d *vc.Driver) {
	d.W.Read = 2
	d.W.Probe = 0
	d.W.ProbeStore = 0
	d.W.ThirdPartyFix = 0
	d.W.Replicate = 8
	d.W.ReplicateDuringWrite = 10
	d.W.CrashPull = 1
}

// ---- random integrated case
func c05Case(root *vw.Rng, ci int, tr *vw.Trace) {
	id := fmt.Sprint(ci)
	r := root.Fork(uint64(ci))
	rs := r.Chance(1, 3)
	repl := r.PickInt(2, 3, 3)
	nTS := repl + r.PickInt(1, 1, 2)
	if rs {
		nTS = 11
	}
	d := vc.NewDriver(r, nTS, []bool{r.Chance(1, 2), false}, id)
	defer d.Cl.Close()
	c05Weights(d)
	d.MaxTracts = r.PickInt(1, 2, 2)
	h := newC05H(d, id)
	if ci%5 == 3 {
		h.maxMeta = 1
	}
	if vw.Thorough() {
		h.maxMeta = r.PickInt(0, 1, 2)
	}
	nb := r.PickInt(1, 2, 2)
	for i := 0; i < nb; i++ {
		h.newBlob(repl)
	}
	if rs {
		hosts := r.Perm(11)[:9]
		for i := range hosts {
			hosts[i]++
		}
		h.rsSetup(100, hosts)
		if r.Chance(1, 3) {
			// a leftover piece on a server that is not its holder
			h.strayPiece(r.Range(1, 11), 100+r.Intn(9))
		}
	}
	if r.Chance(1, 4) {
		d.W.PLose, d.W.PFail, d.W.PTwice, d.W.PReplyLose = 0, 0, 0, 0
	}
	steps := vw.Scale(r.Range(40, 90), r.Range(60, 260))
	rounds := r.PickInt(1, 2, 3)
	for k := 0; k < rounds; k++ {
		h.run(steps / rounds)
		if r.Chance(1, 2) {
			h.quiesce()
			h.sweep()
		}
	}
	h.quiesce()
	h.sweep()
	h.finish(tr)
}

// ---- directed scenarios

// re-add: C is replaced by D; C's report makes an "old" instruction that is delayed; D is replaced by
// C again (new copy at the new version); the stale instruction arrives, possibly together with a
// transient disk error, possibly twice.
func c05DirectedReadd(root *vw.Rng, tr *vw.Trace, id string, fault bool) {
	d := vc.NewDriver(root.Fork(9001), 4, []bool{true, false}, id)
	defer d.Cl.Close()
	h := newC05H(d, id)
	h.newBlob(3)
	d.Cl.S.SetAuto(false)
	d.StartWrite(0, 0, 0, 100)
	h.quiesce()
	tid := d.TractID(0, 0)
	st := d.Cl.D.Tract(tid)
	if !st.OK || len(st.Hosts) != 3 {
		return
	}
	c := int(st.Hosts[2])
	d.StartReplicate(0, 0, []int{c})
	h.quiesce()
	st2 := d.Cl.D.Tract(tid)
	dnew := 0
	for _, x := range st2.Hosts {
		if int(x) != int(st.Hosts[0]) && int(x) != int(st.Hosts[1]) {
			dnew = int(x)
		}
	}
	h.reportAll(c, false) // C is not a host any more: old(tract, 2)
	if len(h.soup) == 0 || dnew == 0 {
		h.finish(tr)
		return
	}
	stale := h.soup[len(h.soup)-1]
	// the same request reaches the wrong processes first (a current host whose copy is at the instruction's version, ...)
	for s := 1; s <= 4; s++ {
		if s != c {
			h.deliverTo(stale, false, s)
		}
	}
	d.StartReplicate(0, 0, []int{dnew}) // the only candidate is C
	h.quiesce()
	h.deliver(stale, fault)
	h.deliver(stale, false)
	d.StartRead(1, 0, 0, 100)
	h.quiesce()
	h.sweep()
	d.CheckAllReplicas()
	h.finish(tr)
	vw.Stat("directed", 1)
}

// extend-before-ack: the hosts ExtendBlob allocated hold the new tract, the AckExtend has not
// happened; their reports must not produce an instruction for it; nor must a delayed instruction.
func c05DirectedExtend(root *vw.Rng, tr *vw.Trace, id string) {
	d := vc.NewDriver(root.Fork(9002), 4, []bool{true, false}, id)
	defer d.Cl.Close()
	h := newC05H(d, id)
	h.newBlob(3)
	d.Cl.S.SetAuto(false)
	d.StartWrite(0, 0, 0, 50)
	deliverWhere5(d, func(r *vc.RPC) bool { return r.Kind != vc.KAckExtend })
	for i := 1; i <= 4; i++ {
		h.reportAll(i, false)
	}
	for _, in := range h.soup {
		h.deliver(in, false)
	}
	h.quiesce()
	d.StartRead(1, 0, 0, 50)
	h.quiesce()
	h.sweep()
	d.CheckAllReplicas()
	h.finish(tr)
	vw.Stat("directed", 1)
}

// delete / metadata-GC scan / undelete / FinishDelete (finding F18 end to end), and the plain
// delete / final delete / collection path.
func c05DirectedDelete(root *vw.Rng, tr *vw.Trace, id string, undeleteInWindow bool) {
	d := vc.NewDriver(root.Fork(9003), 4, []bool{true, false}, id)
	defer d.Cl.Close()
	h := newC05H(d, id)
	h.newBlob(3)
	h.newBlob(3)
	d.Cl.S.SetAuto(false)
	d.StartWrite(0, 0, 0, 80)
	h.quiesce()
	d.StartWrite(0, 1, 0, 60)
	h.quiesce()
	h.deleteBlob(0)
	for i := 1; i <= 4; i++ {
		h.reportAll(i, false) // merely marked deleted: nothing is collectable
	}
	h.metaScan()
	if undeleteInWindow {
		h.undeleteBlob(0)
	}
	h.metaFinish()
	for i := 1; i <= 4; i++ {
		h.reportAll(i, false)
	}
	for _, in := range h.soup {
		h.deliver(in, false)
	}
	if undeleteInWindow {
		d.StartRead(1, 0, 0, 80)
		h.quiesce()
	}
	h.sweep()
	d.CheckAllReplicas()
	h.finish(tr)
	vw.Stat("directed", 1)
}

// a blob is marked deleted while the cluster keeps working on ANOTHER blob (client writes, a re-replication with its
// ChangeTract, reports, deliveries); then undelete and a read of the undeleted blob.
func c05DirectedDeleteBusy(root *vw.Rng, tr *vw.Trace, id string) {
	d := vc.NewDriver(root.Fork(9007), 4, []bool{true, false}, id)
	defer d.Cl.Close()
	h := newC05H(d, id)
	h.newBlob(3)
	h.newBlob(3)
	d.Cl.S.SetAuto(false)
	d.StartWrite(0, 0, 0, 80)
	h.quiesce()
	d.StartWrite(0, 1, 0, 60)
	h.quiesce()
	h.deleteBlob(0)
	d.StartWrite(0, 1, 30, 70) // the other blob is written while blob 0 is marked deleted
	h.quiesce()
	if st := d.Cl.D.Tract(d.TractID(1, 0)); st.OK && len(st.Hosts) == 3 {
		d.StartReplicate(1, 0, []int{int(st.Hosts[1])}) // ... and repaired
		h.quiesce()
	}
	for i := 1; i <= 4; i++ {
		h.reportAll(i, false)
	}
	for _, in := range h.soup {
		h.deliver(in, false)
	}
	d.StartWrite(0, 1, 10, 20)
	h.quiesce()
	h.undeleteBlob(0)
	d.StartRead(1, 0, 0, 80)
	h.quiesce()
	d.StartRead(1, 1, 0, 100)
	h.quiesce()
	h.sweep()
	d.CheckAllReplicas()
	h.finish(tr)
	vw.Stat("directed", 1)
}

// reconstruction window: the destination reports its new piece while the RSEncode is outstanding
// (pending pieces), with ordinary garbage before it in the report; then the commit.
func c05DirectedPending(root *vw.Rng, tr *vw.Trace, id string, leaderChange bool) {
	d := vc.NewDriver(root.Fork(9004), 11, []bool{true, false}, id)
	defer d.Cl.Close()
	h := newC05H(d, id)
	h.newBlob(3)
	d.Cl.S.SetAuto(false)
	h.rsSetup(100, []int{1, 2, 3, 4, 5, 6, 7, 8, 9})
	h.stray(10)
	t := h.rsStart(100, []int{3}, []int{10})
	if t.call == nil {
		h.finish(tr)
		return
	}
	h.rsExec(t)
	if leaderChange {
		d.LeaderChange()
		for i := 1; i <= 11; i++ {
			d.Heartbeat(i)
		}
	}
	h.report(10, []core.TractID{c05Sentinel(0), c05Piece(102)})
	h.report(10, []core.TractID{c05Piece(102), c05Sentinel(0)})
	for _, in := range h.soup {
		h.deliver(in, false)
	}
	h.rsReply(t, false)
	h.sweep()
	h.finish(tr)
	vw.Stat("directed", 1)
}

// metadata writes while a reconstruction's RSEncode is outstanding (finding F24: the task must not read
// the chunk record it fetched at its start after the RPC; the database pages may have been recycled).
func c05DirectedRSWrites(root *vw.Rng, tr *vw.Trace, id string) {
	d := vc.NewDriver(root.Fork(9006), 11, []bool{true, false}, id)
	defer d.Cl.Close()
	h := newC05H(d, id)
	h.newBlob(3)
	h.newBlob(3)
	d.MaxTracts = 3
	d.Big = true
	d.Cl.S.SetAuto(false)
	h.rsSetup(100, []int{1, 2, 3, 4, 5, 6, 7, 8, 9})
	h.rsSetup(120, []int{2, 3, 4, 5, 6, 7, 8, 9, 10})
	t := h.rsStart(100, []int{3}, []int{10})
	if t.call == nil {
		h.finish(tr)
		return
	}
	h.rsExec(t)
	for k := 0; k < 3; k++ {
		d.StartWrite(0, 0, int64(k)*vc.TractLen+10, 40) // ExtendBlob + AckExtend: a metadata commit
		d.Quiesce()
		d.StartWrite(0, 1, int64(k)*vc.TractLen+10, 40)
		d.Quiesce()
		h.deleteBlob(1)
		h.undeleteBlob(1)
		if st := d.Cl.D.Tract(d.TractID(0, k)); st.OK && len(st.Hosts) == 3 {
			d.StartReplicate(0, k, []int{int(st.Hosts[0])}) // ChangeTract
			d.Quiesce()
		}
	}
	h.rsReply(t, false)
	h.sweep()
	h.finish(tr)
	vw.Stat("directed", 1)
}

// F5: a "gone" instruction for an RS piece, computed while the server holds a stale copy of the
// piece, delayed across a reconstruction that legitimately re-assigns the piece to that server.
func c05DirectedF5(root *vw.Rng, tr *vw.Trace, id string) {
	d := vc.NewDriver(root.Fork(9005), 11, []bool{true, false}, id)
	defer d.Cl.Close()
	h := newC05H(d, id)
	h.newBlob(3)
	d.Cl.S.SetAuto(false)
	h.rsSetup(100, []int{1, 2, 3, 4, 5, 6, 7, 8, 9})
	t := h.rsStart(100, []int{3}, []int{10})
	if t.call == nil {
		h.finish(tr)
		return
	}
	h.rsExec(t)
	h.rsReply(t, false) // piece 102 now lives on ts10; ts3 still has its old copy
	h.report(3, []core.TractID{c05Piece(102)})
	if len(h.soup) == 0 {
		h.finish(tr)
		return
	}
	stale := h.soup[len(h.soup)-1]
	t2 := h.rsStart(100, []int{10}, []int{3}) // ts10 dies; ts3 is healthy again and is chosen
	if t2.call == nil {
		h.finish(tr)
		return
	}
	h.rsExec(t2)
	h.rsReply(t2, false) // metadata: piece 102 on ts3
	h.deliver(stale, false)
	h.finish(tr)
	vw.Stat("directed", 1)
}

// ============================================================ compositional

// (a) CheckForGarbage on the real StateHandler
func c05CaseCheck(root *vw.Rng, ci int, tr *vw.Trace) {
	id := fmt.Sprintf("g%d", ci)
	r := root.Fork(uint64(100000 + ci))
	dir, err := os.MkdirTemp("/dev/shm", "verifc05")
	if err != nil {
		dir, _ = os.MkdirTemp("", "verifc05")
	}
	defer os.RemoveAll(dir)
	D := curator.VerifNewDurable(dir, nil)
	sh := D.SH
	tr.Case(id)
	emit := func(op []int64, obs []int64) {
		tr.Op(op...)
		if obs == nil {
			obs = []int64{}
		}
		tr.Obs(obs...)
	}
	var blobs []core.BlobID
	repls := []int{}
	nts := r.Range(3, 6)
	hostsOf := func(n int) []core.TractserverID {
		var out []core.TractserverID
		for _, i := range r.Perm(nts)[:n] {
			out = append(out, core.TractserverID(i+1))
		}
		return out
	}
	encHosts := func(hs []core.TractserverID) []int64 {
		out := []int64{int64(len(hs))}
		for _, x := range hs {
			out = append(out, int64(x))
		}
		return out
	}
	var chunks []int
	nextChunk := 10
	nops := vw.Scale(r.Range(25, 60), r.Range(40, 150))
	for k := 0; k < nops; k++ {
		x := r.Intn(100)
		switch {
		case x < 10 || len(blobs) == 0:
			repl := r.PickInt(1, 2, 3, 3)
			b, e := sh.CreateBlob(repl, 1, 0, core.StorageHintDEFAULT, 0)
			if e != core.NoError {
				panic("verif C05: CreateBlob " + e.String())
			}
			blobs = append(blobs, b)
			repls = append(repls, repl)
			emit([]int64{c05cCreate, int64(repl)}, []int64{int64(len(blobs) - 1)})
		case x < 25:
			bi := r.Intn(len(blobs))
			rec := D.C05Blob(blobs[bi])
			first := len(rec.Tracts) + r.PickInt(0, 0, 0, 0, 0, 1)
			n := r.PickInt(1, 1, 2)
			var hs [][]core.TractserverID
			op := []int64{c05cExtend, int64(bi), int64(first), int64(n)}
			for j := 0; j < n; j++ {
				nh := repls[bi]
				if r.Chance(1, 12) {
					nh = r.Range(1, 3)
				}
				x := hostsOf(nh)
				hs = append(hs, x)
				op = append(op, encHosts(x)...)
			}
			_, e := sh.ExtendBlob(blobs[bi], core.TractKey(first), hs)
			emit(op, []int64{int64(e)})
		case x < 40:
			bi := r.Intn(len(blobs))
			rec := D.C05Blob(blobs[bi])
			if len(rec.Tracts) == 0 {
				continue // (ChangeTract with index == number of tracts panics in state.go: not this property's business)
			}
			ti := r.Intn(len(rec.Tracts))
			nh := repls[bi]
			ver := rec.Tracts[ti].Version + r.PickInt(1, 1, 1, 1, 1, 0, 2)
			if r.Chance(1, 12) {
				nh = r.Range(1, 3)
			}
			hs := hostsOf(nh)
			e := sh.ChangeTract(core.TractID{Blob: blobs[bi], Index: core.TractKey(ti)}, ver, hs, 0)
			emit(append([]int64{c05cChange, int64(bi), int64(ti), int64(ver)}, encHosts(hs)...), []int64{int64(e)})
		case x < 47:
			bi := r.Intn(len(blobs))
			e := sh.DeleteBlob(blobs[bi], time.Now(), 0)
			emit([]int64{c05cDelete, int64(bi)}, []int64{int64(e)})
		case x < 53:
			bi := r.Intn(len(blobs))
			e := sh.UndeleteBlob(blobs[bi], 0)
			emit([]int64{c05cUndelete, int64(bi)}, []int64{int64(e)})
		case x < 57:
			bi := r.Intn(len(blobs))
			e := sh.FinishDelete([]core.BlobID{blobs[bi]})
			emit([]int64{c05cFinish, 1, int64(bi)}, []int64{int64(e)})
		case x < 63:
			base := nextChunk
			if len(chunks) > 0 && r.Chance(1, 6) {
				base = chunks[r.Intn(len(chunks))]
			}
			nh := 9
			hs := make([]core.TractserverID, nh)
			for j := range hs {
				hs[j] = core.TractserverID(r.Range(1, nts))
			}
			e := sh.CommitRSChunk(c05Chunk(base), core.StorageClassRS_6_3, hs, make([][]state.EncodedTract, 6), 0)
			if e == core.NoError {
				chunks = append(chunks, base)
				nextChunk = base + r.PickInt(9, 9, 10, 12)
			}
			emit(append([]int64{c05cRSCommit, int64(base)}, encHosts(hs)...), []int64{int64(e)})
		case x < 68 && len(chunks) > 0:
			base := chunks[r.Intn(len(chunks))]
			if r.Chance(1, 8) {
				base += 3
			}
			nh := r.PickInt(9, 9, 9, 9, 8)
			hs := make([]core.TractserverID, nh)
			for j := range hs {
				hs[j] = core.TractserverID(r.Range(1, nts))
			}
			e := sh.UpdateRSHosts(c05Chunk(base), hs, 0)
			emit(append([]int64{c05cRSUpdate, int64(base)}, encHosts(hs)...), []int64{int64(e)})
		default:
			tsid := r.Range(1, nts)
			n := r.Range(1, 8)
			var ids []core.TractID
			for j := 0; j < n; j++ {
				switch y := r.Intn(10); {
				case y < 6:
					bi := r.Intn(len(blobs))
					rec := D.C05Blob(blobs[bi])
					ti := r.Intn(len(rec.Tracts) + 2)
					ids = append(ids, core.TractID{Blob: blobs[bi], Index: core.TractKey(ti)})
				case y < 7:
					ids = append(ids, c05Sentinel(r.Intn(3)))
				default:
					p := r.Range(8, nextChunk+3)
					if len(chunks) > 0 && r.Chance(2, 3) {
						p = chunks[r.Intn(len(chunks))] + r.Intn(10)
					}
					ids = append(ids, c05Piece(p))
				}
			}
			op := []int64{c05cCheck, int64(tsid), int64(len(ids))}
			for _, t := range ids {
				b, i := c05Enc(blobs, t)
				op = append(op, b, i)
			}
			old, gone := sh.CheckForGarbage(core.TractserverID(tsid), ids)
			emit(op, c05EncInstr(blobs, old, gone))
			// model-free: the decision against the records read back from the real state
			for _, o := range old {
				rec := D.C05Blob(o.ID.Blob)
				bad := !rec.Exists || int(o.ID.Index) >= len(rec.Tracts)
				if !bad {
					t := rec.Tracts[o.ID.Index]
					for _, hst := range t.Hosts {
						if int(hst) == tsid {
							bad = true
						}
					}
					if o.Version > t.Version {
						bad = true
					}
				}
				if bad {
					c05Violation(id, "checkforgarbage-old-instruction-for-live-copy", "CheckForGarbage told a server to collect a tract it is a holder of, a tract beyond the end of the blob, or at a version above the durable one",
						map[string]interface{}{"tsid": tsid, "tract": o.ID.String(), "version": o.Version})
				}
			}
			for _, g := range gone {
				if g.IsRS() {
					if hst, ok := D.C05RSPiece(g); ok && int(hst) == tsid {
						c05Violation(id, "checkforgarbage-gone-instruction-for-held-piece", "CheckForGarbage declared an RS piece gone at the server the metadata names as its holder",
							map[string]interface{}{"tsid": tsid, "tract": g.String()})
					}
				} else if rec := D.C05Blob(g.Blob); rec.Exists {
					c05Violation(id, "checkforgarbage-gone-instruction-for-existing-blob", "CheckForGarbage declared a tract of a blob that still exists in the metadata (possibly marked deleted) gone",
						map[string]interface{}{"tsid": tsid, "tract": g.String(), "deleted": rec.Deleted})
				}
			}
			vw.Stat("check.queries", 1)
			vw.Stat("check.old", int64(len(old)))
			vw.Stat("check.gone", int64(len(gone)))
		}
	}
	vw.Stat("cases.checkforgarbage", 1)
}

// (b) Store.GCTracts through the real TSCtlHandler
func c05CaseStore(root *vw.Rng, ci int, tr *vw.Trace) {
	id := fmt.Sprintf("s%d", ci)
	r := root.Fork(uint64(200000 + ci))
	ts := tractserver.VerifNewTS(1, nil)
	tr.Case(id)
	blobs := []core.BlobID{core.BlobIDFromParts(1, 1), core.BlobIDFromParts(1, 2)}
	type key = core.TractID
	have := map[key]int{}
	emit := func(op []int64, obs []int64) { tr.Op(op...); tr.Obs(obs...) }
	pick := func() core.TractID {
		if r.Chance(1, 4) {
			return c05Piece(r.Range(10, 14))
		}
		return core.TractID{Blob: blobs[r.Intn(2)], Index: core.TractKey(r.Intn(3))}
	}
	nops := vw.Scale(r.Range(20, 50), r.Range(40, 120))
	for k := 0; k < nops; k++ {
		if r.Chance(1, 2) {
			t := pick()
			b, i := c05Enc(blobs, t)
			if t.IsRS() {
				ts.C05PutPiece(t, []byte{1, 2})
				_, cur := ts.C05Has(t)
				have[t] = cur
				emit([]int64{c05sPut, b, i, 0}, []int64{int64(cur)})
				continue
			}
			ver := r.Range(1, 4)
			ts.Create(1, t, []byte{byte(k)}, 0)
			cur := 1
			if v, ok := have[t]; ok {
				cur = v
			}
			for cur < ver {
				cur++
				ts.SetVersion(1, t, cur, 0)
			}
			_, cur = ts.C05Has(t)
			have[t] = cur
			emit([]int64{c05sPut, b, i, int64(ver)}, []int64{int64(cur)})
			continue
		}
		var old []core.TractState
		var gone []core.TractID
		var faults []bool
		op := []int64{c05sGC}
		no := r.Intn(4)
		for j := 0; j < no; j++ {
			t := pick()
			v := r.Range(0, 5)
			if hv, ok := have[t]; ok && !t.IsRS() {
				v = hv + r.PickInt(-1, 0, 0, 1)
			}
			old = append(old, core.TractState{ID: t, Version: v})
			f := r.Chance(1, 4)
			for _, o := range old[:len(old)-1] {
				if o.ID == t {
					f = false // a transient fault hits the first Open of a tract only: only its first entry can be the faulted one
				}
			}
			faults = append(faults, f)
		}
		ng := r.Intn(3)
		for j := 0; j < ng; j++ {
			gone = append(gone, pick())
		}
		stamp := 1
		if r.Chance(1, 5) {
			stamp = r.Range(2, 3) // a request stamped for another tractserver
		}
		op = append(op, int64(stamp), int64(len(old)))
		pre := map[core.TractID]int{}
		for j, o := range old {
			b, i := c05Enc(blobs, o.ID)
			op = append(op, b, i, int64(o.Version), b2i64(faults[j]))
		}
		op = append(op, int64(len(gone)))
		for _, g := range gone {
			b, i := c05Enc(blobs, g)
			op = append(op, b, i)
		}
		for t, v := range have {
			pre[t] = v
		}
		// a transient fault hits the first Open of the tract only; with duplicates in one instruction the later ones see a healthy disk
		for j, o := range old {
			if faults[j] {
				ts.C05FailNextOpen(o.ID, 1)
			}
		}
		reply := ts.GCTract(core.TractserverID(stamp), old, gone)
		ts.C05ClearFaults()
		obs := []int64{int64(reply)}
		goneSet := map[core.TractID]bool{}
		for _, g := range gone {
			goneSet[g] = true
		}
		named := append([]core.TractState{}, old...)
		for _, g := range gone {
			named = append(named, core.TractState{ID: g})
		}
		for _, o := range named {
			ok, v := ts.C05Has(o.ID)
			obs = append(obs, b2i64(ok))
			if ok {
				obs = append(obs, int64(v))
			} else {
				delete(have, o.ID)
			}
		}
		emit(op, obs)
		if stamp != 1 {
			for t := range pre {
				if ok, _ := ts.C05Has(t); !ok {
					c05Violation(id, "store-misaddressed-instruction-removed-copy", "a GCTract request stamped with another tractserver id removed a copy",
						map[string]interface{}{"tract": t.String(), "stamped-for": stamp, "reply": reply.String()})
				}
			}
		}
		// model-free: an "old" instruction never removes a copy newer than the version it names
		maxv := map[core.TractID]int{}
		for _, o := range old {
			if v, ok := maxv[o.ID]; !ok || o.Version > v {
				maxv[o.ID] = o.Version
			}
		}
		for _, o := range old {
			if pv, had := pre[o.ID]; had && !goneSet[o.ID] && pv > maxv[o.ID] {
				if ok, _ := ts.C05Has(o.ID); !ok {
					c05Violation(id, "store-old-instruction-removed-newer-copy", "an instruction to collect versions <= v removed a copy with a version above v",
						map[string]interface{}{"tract": o.ID.String(), "copy-version": pv, "instruction-version": o.Version})
				}
			}
		}
		vw.Stat("store.gc", 1)
	}
	vw.Stat("cases.store", 1)
}

func TestVerifC05(t *testing.T) {
	if !vw.Enabled() {
		t.Skip("verification harness: run through /verif/bin/check")
	}
	flag.Set("stderrthreshold", "FATAL")
	logdir := filepath.Join(vw.OutDir(), "glog")
	os.MkdirAll(logdir, 0o755)
	flag.Set("log_dir", logdir)
	old := runtime.GOMAXPROCS(1)
	defer runtime.GOMAXPROCS(old)

	root := vw.NewRng(vw.Seed())
	tr := vw.OpenTrace("C05.trace")
	defer tr.Close()
	defer vw.Finish("C05")

	if os.Getenv("VERIF_CHUNK") != "" {
		// child process of a thorough run: one chunk of random integrated cases (goroutines of finished
		// cases idle forever and make every quiescence scan slower, so long runs are cut into processes)
		k, _ := strconv.Atoi(os.Getenv("VERIF_CHUNK"))
		n := vw.Scale(36, 200)
		for ci := k * c05ChunkSize; ci < (k+1)*c05ChunkSize && ci < n; ci++ {
			if vw.CaseSelected(fmt.Sprint(ci)) {
				c05Case(root, ci, tr)
			}
		}
		return
	}
	for ci := 0; ci < vw.Scale(10, 60); ci++ {
		if vw.CaseSelected(fmt.Sprintf("g%d", ci)) {
			c05CaseCheck(root, ci, tr)
		}
	}
	for ci := 0; ci < vw.Scale(16, 120); ci++ {
		if vw.CaseSelected(fmt.Sprintf("s%d", ci)) {
			c05CaseStore(root, ci, tr)
		}
	}
	dir := []struct {
		id string
		f  func()
	}{
		{"d-readd", func() { c05DirectedReadd(root, tr, "d-readd", false) }},
		{"d-readd-fault", func() { c05DirectedReadd(root, tr, "d-readd-fault", true) }},
		{"d-extend", func() { c05DirectedExtend(root, tr, "d-extend") }},
		{"d-delete", func() { c05DirectedDelete(root, tr, "d-delete", false) }},
		{"d-undelete", func() { c05DirectedDelete(root, tr, "d-undelete", true) }},
		{"d-pending", func() { c05DirectedPending(root, tr, "d-pending", false) }},
		{"d-pending-leader", func() { c05DirectedPending(root, tr, "d-pending-leader", true) }},
		{"d-f5", func() { c05DirectedF5(root, tr, "d-f5") }},
		{"d-delete-busy", func() { c05DirectedDeleteBusy(root, tr, "d-delete-busy") }},
		{"d-rs-writes", func() { c05DirectedRSWrites(root, tr, "d-rs-writes") }},
	}
	for _, x := range dir {
		if vw.CaseSelected(x.id) {
			x.f()
		}
	}
	n := vw.Scale(36, 200)
	if vw.Thorough() && os.Getenv("VERIF_CASES") == "" {
		c05Parent(t, tr, n)
		return
	}
	for ci := 0; ci < n; ci++ {
		if vw.CaseSelected(fmt.Sprint(ci)) {
			c05Case(root, ci, tr)
		}
	}
}

const c05ChunkSize = 25

// c05Parent runs the random cases of a thorough run in child processes and merges their output.
func c05Parent(t *testing.T, tr *vw.Trace, n int) {
	for k := 0; k*c05ChunkSize < n; k++ {
		sub := filepath.Join(vw.OutDir(), fmt.Sprintf("chunk%d", k))
		os.MkdirAll(sub, 0o755)
		cmd := exec.Command(os.Args[0], "-test.run=TestVerifC05$", "-test.timeout=1800s")
		cmd.Env = append(os.Environ(), "VERIF_CHUNK="+fmt.Sprint(k), "VERIF_OUT="+sub)
		if out, err := cmd.CombinedOutput(); err != nil {
			t.Fatalf("chunk %d failed: %v\n%s", k, err, out)
		}
		f, err := os.Open(filepath.Join(sub, "C05.trace"))
		if err != nil {
			t.Fatalf("chunk %d: %v", k, err)
		}
		sc := bufio.NewScanner(f)
		sc.Buffer(make([]byte, 1<<20), 1<<26)
		for sc.Scan() {
			line := sc.Text()
			if strings.HasPrefix(line, "# case ") {
				tr.Case(strings.Fields(line)[2])
				continue
			}
			if len(line) == 0 {
				continue
			}
			var xs []int64
			for _, w := range strings.Fields(line[1:]) {
				v, _ := strconv.ParseInt(w, 10, 64)
				xs = append(xs, v)
			}
			if line[0] == '>' {
				tr.Op(xs...)
			} else if line[0] == '<' {
				tr.Obs(xs...)
			}
		}
		f.Close()
		var res struct {
			Stats      map[string]int64 `json:"stats"`
			Samples    []string         `json:"samples"`
			Violations []vw.Violation   `json:"violations"`
			Distinct   []string         `json:"distinct"`
		}
		if b, err := os.ReadFile(filepath.Join(sub, "C05.result.json")); err == nil && json.Unmarshal(b, &res) == nil {
			for k2, v := range res.Stats {
				vw.Stat(k2, v)
			}
			for _, s := range res.Samples {
				vw.Sample(s)
			}
			for _, v := range res.Violations {
				vw.Report(v)
			}
		}
		if b, err := os.ReadFile(filepath.Join(sub, "distinct.txt")); err == nil {
			for _, fp := range strings.Fields(string(b)) {
				vw.Distinct(fp)
			}
		}
		os.RemoveAll(filepath.Join(sub, "glog"))
	}
}
