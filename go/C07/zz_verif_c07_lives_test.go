package raft

// C07 multi-life harness (injected by `go test -overlay -tags verif`; lives in /verif).
//
// One real node ("1" of the group [1 2 3]) lives several lives on durable state that survives its crashes:
//   log      = the real file WAL (wal.OpenFSLog under raft's entryLog, exactly what raft.NewFSLog builds),
//   state    = memState, snapshot = memSnapshotMgr (copied at the crash point; their file forms are part B),
//   recovery = wal.OpenFSLog + real newCore + real fsmLoop.restoreFromSnapshot,
//   running  = real core.HandleMsg / Tick, real fsmLoop.handleCommits, real snapshotLoop.processSnapReq and
//              (*Raft).fsmSnapshotDone (snapshot commit + TrimLog).
// The harness plays the rest of the group (leader "2", candidate "3") and is the oracle of what was acknowledged.
// A life = recovery + a few acknowledged operations (appends, commits => state-machine applies => snapshot + trim,
// votes, InstallSnapshot, a campaign) + a crash at an enumerated point of its last operation: after every WAL hook
// (create / write / sync / truncate / unlink / dirsync / repair) and, for a record write, with the record torn at
// several lengths. EVERY enumerated crash state is judged: recovery (monitors), one more acknowledged append,
// a second recovery (monitors), a campaign. The main line continues on one of the crash states (2..3 lives).

import (
	"bytes"
	"encoding/binary"
	"encoding/json"
	"fmt"
	"io"
	"io/ioutil"
	"os"
	"os/exec"
	"path/filepath"
	"sort"
	"strconv"
	"strings"
	"testing"

	"github.com/prometheus/client_golang/prometheus"
	"github.com/westerndigitalcorporation/blb/pkg/verifhook"
	vw "github.com/westerndigitalcorporation/blb/pkg/verifwire"
	"github.com/westerndigitalcorporation/blb/pkg/wal"
)

const c7lProp = "C07"

// ---------------------------------------------------------------- state machine
type c7lFSM struct {
	applied, sum uint64
	confs        int
}

func (f *c7lFSM) Apply(e Entry) interface{} {
	f.applied = e.Index
	f.sum = f.sum*31 + e.Index + uint64(len(e.Cmd))
	return nil
}
func (f *c7lFSM) OnLeadershipChange(bool, uint64, string) {}
func (f *c7lFSM) OnMembershipChange(Membership)            { f.confs++ }
func (f *c7lFSM) Snapshot() (Snapshoter, error)            { return &c7lSnapshoter{f.applied, f.sum}, nil }
func (f *c7lFSM) SnapshotRestore(r io.Reader, li, lt uint64) {
	var b [16]byte
	io.ReadFull(r, b[:])
	f.applied, f.sum = binary.BigEndian.Uint64(b[:8]), binary.BigEndian.Uint64(b[8:])
}

type c7lSnapshoter struct{ a, s uint64 }

func (s *c7lSnapshoter) Save(w io.Writer) error {
	var b [16]byte
	binary.BigEndian.PutUint64(b[:8], s.a)
	binary.BigEndian.PutUint64(b[8:], s.s)
	_, err := w.Write(b[:])
	return err
}
func (s *c7lSnapshoter) Release() {}

// ---------------------------------------------------------------- what survives a crash
type c7lPersist struct {
	dir      string // WAL directory
	st       memState
	snapData []byte
	snapMeta SnapshotMetadata
}

func c7lCopyDir(base, src string) string {
	d, err := ioutil.TempDir(base, "wal")
	if err != nil {
		panic(err)
	}
	ents, _ := ioutil.ReadDir(src)
	for _, e := range ents {
		b, _ := ioutil.ReadFile(filepath.Join(src, e.Name()))
		ioutil.WriteFile(filepath.Join(d, e.Name()), b, 0600)
	}
	return d
}

func c7lCopyMembership(m *Membership) *Membership {
	if m == nil {
		return nil
	}
	c := *m
	c.Members = append([]string(nil), m.Members...)
	return &c
}

// ---------------------------------------------------------------- the rest of the group (oracle)
type c7lGroup struct {
	log     []Entry // the leader's log: entry i at log[i-1]
	term    uint64  // term of the current leader
	leader  string
	acked   uint64 // highest index node 1 acknowledged (AppEntsResp success / snapshot installed)
	lsnap   uint64 // the leader has compacted its log up to here
	conf    Membership
	maxTerm uint64            // highest term node 1 has acknowledged acting in
	votes   map[uint64]string // term -> candidate node 1 granted (acknowledged)
	hadConf bool              // node 1 has acknowledged something that tells it its group
}

func (g *c7lGroup) clone() *c7lGroup {
	c := *g
	c.log = append([]Entry(nil), g.log...)
	c.votes = map[uint64]string{}
	for k, v := range g.votes {
		c.votes[k] = v
	}
	return &c
}

func (g *c7lGroup) extend(n int) {
	for i := 0; i < n; i++ {
		idx := uint64(len(g.log) + 1)
		g.log = append(g.log, Entry{Term: g.term, Index: idx, Type: EntryNormal, Cmd: bytes.Repeat([]byte{byte(idx)}, int(idx%7)+1)})
	}
}

func (g *c7lGroup) termAt(i uint64) uint64 {
	if i == 0 {
		return 0
	}
	return g.log[i-1].Term
}

// ---------------------------------------------------------------- one life
type c7lLife struct {
	p    *c7lPersist
	wl   wal.Log
	st   *memState
	sm   *memSnapshotMgr
	stor *Storage
	core *core
	fsm  *c7lFSM
	fl   *fsmLoop
	sl   *snapshotLoop
}

var c7lCfg = Config{ID: "1", ClusterID: "verif", CandidateTimeout: 4, FollowerTimeout: 6, LeaderStepdownTimeout: 6,
	RandomElectionRange: 0, HeartbeatTimeout: 2, SnapshotTimeout: 8, MaxNumEntsPerAppEnts: 8,
	LogEntriesAfterSnapshot: 1, SnapshotThreshold: 4, GenSeed: func(string) int64 { return 1 }}

func c7lGauge() prometheus.Gauge     { return prometheus.NewGauge(prometheus.GaugeOpts{Name: "x"}) }
func c7lCounter() prometheus.Counter { return prometheus.NewCounter(prometheus.CounterOpts{Name: "x"}) }

// recover builds a running node from durable state; a non-empty string says why it could not.
func c7lRecover(p *c7lPersist) (l *c7lLife, why string) {
	defer func() {
		if r := recover(); r != nil {
			l, why = nil, fmt.Sprintf("panic during recovery: %v", r)
		}
	}()
	wl, err := wal.OpenFSLog(p.dir)
	if err != nil {
		return nil, "wal.OpenFSLog: " + err.Error() + " (raft.NewFSLog would log.Fatalf)"
	}
	l = &c7lLife{p: p, wl: wl}
	st := p.st
	st.seenGUIDs = map[string]uint64{}
	for k, v := range p.st.seenGUIDs {
		st.seenGUIDs[k] = v
	}
	l.st = &st
	l.sm = &memSnapshotMgr{snapData: append([]byte(nil), p.snapData...), snapMeta: p.snapMeta}
	l.sm.snapMeta.Membership = c7lCopyMembership(p.snapMeta.Membership)
	l.stor = &Storage{State: l.st, SnapshotManager: l.sm, log: newLog(wl)}
	l.core = newCore(c7lCfg, l.stor)
	l.fsm = &c7lFSM{}
	reqCh := make(chan *snapshotReq, 1)
	l.fl = &fsmLoop{fsm: l.fsm, fsmCh: make(chan interface{}, 1), snapshotThreshold: c7lCfg.SnapshotThreshold, snapReqCh: reqCh,
		metricAppliedIndex: c7lGauge(), metricSnapRestore: c7lCounter(), metricSnapRestoreDuration: c7lGauge()}
	l.sl = &snapshotLoop{snapReqCh: reqCh, snapshotDoneCh: make(chan SnapshotFileWriter, 1), snapMgr: l.sm,
		metricSnapSave: c7lCounter(), metricSnapSaveDuration: c7lGauge(), metricSnapshotSize: c7lGauge()}
	l.afterCore()
	return l, ""
}

// what raft.go's core loop does after every call into the core (maybeRestoreFromSnapshot, commits to the fsm loop,
// snapshot request -> snapshot loop -> fsmSnapshotDone); returns the messages the core wants to send
func (l *c7lLife) afterCore() []Msg {
	if l.core.needRestoreSnap {
		rd := l.stor.GetSnapshot()
		l.fl.restoreFromSnapshot(rd)
		rd.Close()
		l.core.needRestoreSnap = false
	}
	if commits := l.core.TakeNewlyCommitted(); len(commits) > 0 {
		var u commitsUpdate
		for _, e := range commits {
			u.commits = append(u.commits, commitTuple{entry: e})
		}
		l.fl.handleCommits(u)
		select {
		case req := <-l.fl.snapReqCh:
			l.sl.processSnapReq(req)
			select {
			case w := <-l.sl.snapshotDoneCh:
				(&Raft{storage: l.stor, core: l.core}).fsmSnapshotDone(w)
				c7lStat("lives_snapshot_taken")
			default:
			}
		default:
		}
	}
	return l.core.TakeAllMsgs()
}

func (l *c7lLife) persist(base string) *c7lPersist {
	p := &c7lPersist{dir: c7lCopyDir(base, l.p.dir), st: *l.st, snapData: append([]byte(nil), l.sm.snapData...), snapMeta: l.sm.snapMeta}
	p.st.seenGUIDs = map[string]uint64{}
	for k, v := range l.st.seenGUIDs {
		p.st.seenGUIDs[k] = v
	}
	p.snapMeta.Membership = c7lCopyMembership(l.sm.snapMeta.Membership)
	return p
}

func (l *c7lLife) deliver(m Msg) (out []Msg, why string) {
	defer func() {
		if r := recover(); r != nil {
			out, why = nil, fmt.Sprintf("panic while handling %T: %v", m, r)
		}
	}()
	l.core.HandleMsg(m)
	return l.afterCore(), ""
}

// ---------------------------------------------------------------- operations (each returns "" or why it failed)
func c7lBase(g *c7lGroup) BaseMsg { return BaseMsg{Term: g.term, To: "1", From: g.leader, Epoch: g.conf.Epoch} }

// the leader brings node 1 up to `upto` (AppEnts with consistency-check retries, InstallSnapshot if compacted away)
func (l *c7lLife) opReplicate(g *c7lGroup, upto uint64) string {
	next := g.acked + 1
	for tries := 0; tries < 12; tries++ {
		var m Msg
		if next <= g.lsnap {
			m = &InstallSnapshot{BaseMsg: c7lBase(g), LastIndex: g.lsnap, LastTerm: g.termAt(g.lsnap), Membership: g.conf,
				Body: ioutil.NopCloser(bytes.NewReader(make([]byte, 16)))}
		} else {
			hi := upto
			if hi > next+6 {
				hi = next + 6
			}
			var ents []Entry
			if hi >= next {
				ents = append(ents, g.log[next-1:hi]...)
			}
			m = &AppEnts{BaseMsg: c7lBase(g), PrevLogIndex: next - 1, PrevLogTerm: g.termAt(next - 1), Entries: ents, LeaderCommit: g.acked}
		}
		out, why := l.deliver(m)
		if why != "" {
			return why
		}
		var resp *AppEntsResp
		for _, o := range out {
			if r, ok := o.(*AppEntsResp); ok {
				resp = r
			}
		}
		if resp == nil {
			return fmt.Sprintf("no response to %T (term %d, node term %d)", m, g.term, l.st.term)
		}
		if l.st.term > g.maxTerm {
			g.maxTerm = l.st.term
		}
		if resp.Success {
			if resp.Index > g.acked {
				g.acked = resp.Index
			}
			g.hadConf = true
			next = resp.Index + 1
			if g.acked >= upto {
				return ""
			}
			continue
		}
		// rejected: back off as the leader would
		if resp.Hint > 0 && resp.Hint < next {
			next = resp.Hint
		} else if next > 1 {
			next--
		}
	}
	return fmt.Sprintf("replication to index %d does not converge (acked %d)", upto, g.acked)
}

// a heartbeat carrying the commit index: node 1 commits, applies, maybe snapshots and trims
func (l *c7lLife) opCommit(g *c7lGroup) string {
	m := &AppEnts{BaseMsg: c7lBase(g), PrevLogIndex: g.acked, PrevLogTerm: g.termAt(g.acked), LeaderCommit: g.acked}
	_, why := l.deliver(m)
	return why
}

// node 3 campaigns with an up-to-date log and wins; node 1's grant is an acknowledged vote
func (l *c7lLife) opVote(g *c7lGroup) string {
	t := g.maxTerm
	if g.term > t {
		t = g.term
	}
	t++
	last := uint64(len(g.log))
	out, why := l.deliver(&VoteReq{BaseMsg: BaseMsg{Term: t, To: "1", From: "3", Epoch: g.conf.Epoch}, LastLogIndex: last, LastLogTerm: g.termAt(last)})
	if why != "" {
		return why
	}
	g.maxTerm = t
	for _, o := range out {
		if r, ok := o.(*VoteResp); ok && r.Granted {
			g.votes[t] = "3"
		}
	}
	g.term, g.leader = t, "3"
	g.log = append(g.log, Entry{Term: t, Index: last + 1, Type: EntryNOP})
	return ""
}

// the leader commits entries with node 3 only, compacts them away, and must ship its snapshot to node 1
func (l *c7lLife) opInstall(g *c7lGroup) string {
	g.extend(3)
	g.lsnap = uint64(len(g.log))
	return l.opReplicate(g, g.lsnap)
}

// node 1 hears nothing and campaigns: possible iff it knows its group and is a member
func (l *c7lLife) opCampaign(g *c7lGroup) (string, bool) {
	campaigned := false
	for i := 0; i < int(c7lCfg.FollowerTimeout)+2 && !campaigned; i++ {
		func() {
			defer func() { recover() }()
			l.core.Tick()
		}()
		for _, o := range l.afterCore() {
			if _, ok := o.(*VoteReq); ok {
				campaigned = true
			}
		}
	}
	if l.st.term > g.maxTerm {
		g.maxTerm = l.st.term
	}
	if g.term <= l.st.term { // the old leader is deposed by the higher term; "2" wins the next election
		g.term, g.leader = l.st.term+1, "2"
		g.log = append(g.log, Entry{Term: g.term, Index: uint64(len(g.log) + 1), Type: EntryNOP})
	}
	return "", campaigned
}

// ---------------------------------------------------------------- monitors after a recovery
type c7lJudge struct {
	caseID string
	ctx    string
	seen   map[string]bool
}

func (j *c7lJudge) report(sig, what string, detail map[string]interface{}) {
	if j.seen[sig] {
		return
	}
	j.seen[sig] = true
	detail["context"] = j.ctx
	c7lJournal("viol", vw.Violation{Property: c7lProp, Signature: sig, What: what, Case: j.caseID, Detail: detail})
}

func c7lExpectedConf(g *c7lGroup, upto uint64) *Membership {
	var m *Membership
	for i := uint64(0); i < upto && i < uint64(len(g.log)); i++ {
		if g.log[i].Type == EntryConf {
			m = decodeConfEntry(g.log[i])
		}
	}
	return m
}

// check judges the durable state a recovered node stands on against what it had acknowledged
func (j *c7lJudge) check(l *c7lLife, g *c7lGroup, phase string) {
	det := func() map[string]interface{} {
		fi, li, empty := l.stor.log.GetBound()
		return map[string]interface{}{"phase": phase, "acked": g.acked, "log": fmt.Sprintf("[%d,%d] empty=%v", fi, li, empty),
			"snapshot": l.sm.snapMeta.String(), "term": l.st.term, "vote": l.st.voteFor}
	}
	if l.st.term < g.maxTerm {
		j.report("lives-term-forgotten:"+phase, "after a recovery the durable term is below a term the node had acted in", det())
	}
	if v, ok := g.votes[l.st.term]; ok && l.st.voteFor != v {
		j.report("lives-vote-forgotten:"+phase, "after a recovery the vote granted in the current term is gone", det())
	}
	meta := l.sm.snapMeta
	for i := uint64(1); i <= g.acked; i++ {
		if meta != NilSnapshotMetadata && i <= meta.LastIndex {
			continue
		}
		if !l.stor.hasEntry(i, g.termAt(i)) {
			d := det()
			d["index"] = i
			j.report("lives-acked-entry-lost:"+phase, "an entry the node acknowledged is neither in its log nor under its snapshot after a recovery", d)
			break
		}
	}
	if meta != NilSnapshotMetadata {
		want := c7lExpectedConf(g, meta.LastIndex)
		if want == nil {
			want = &g.conf
		}
		if meta.Membership == nil || strings.Join(meta.Membership.Members, ",") != strings.Join(want.Members, ",") {
			d := det()
			d["want"] = fmt.Sprintf("%+v", *want)
			j.report("lives-snapshot-without-membership:"+phase, "the persisted snapshot metadata does not carry the membership as of its index", d)
		}
	}
	if g.hadConf && (l.core.latestConf == nil || !containMember(l.core.latestConf.Members, "1")) {
		d := det()
		d["latestConf"] = fmt.Sprintf("%+v", l.core.latestConf)
		j.report("lives-group-unknown-after-restart:"+phase, "after a recovery the node no longer knows its group from its durable state (it can never campaign)", d)
	}
}

// judgeCrashState: recovery, monitors, one more acknowledged append, second recovery, monitors, campaign
func (j *c7lJudge) judgeCrashState(base string, p *c7lPersist, g0 *c7lGroup, what string) {
	j.ctx = what
	c7lProgress(j.caseID, "first", what)
	g := g0.clone()
	l, why := c7lRecover(p)
	if why != "" {
		j.report("lives-cannot-restart:first", "the node cannot start from the durable state a crash left", map[string]interface{}{"why": why, "acked": g.acked})
		return
	}
	c7lStat("lives_recoveries")
	j.check(l, g, "first")
	g.extend(1)
	if why := l.opReplicate(g, uint64(len(g.log))); why != "" {
		j.report("lives-cannot-rejoin:first", "a recovered node cannot take the leader's next AppEnts", map[string]interface{}{"why": why, "acked": g.acked})
		return
	}
	if why := l.opCommit(g); why != "" {
		j.report("lives-cannot-rejoin:first", "a recovered node cannot take the leader's heartbeat", map[string]interface{}{"why": why})
		return
	}
	p2 := l.persist(base)
	c7lProgress(j.caseID, "second", what)
	l2, why := c7lRecover(p2)
	if why != "" {
		j.report("lives-cannot-restart:second", "after crash, recovery and acknowledged appends the node cannot start again", map[string]interface{}{"why": why, "acked": g.acked})
		os.RemoveAll(p2.dir)
		return
	}
	c7lStat("lives_recoveries")
	j.check(l2, g, "second")
	if _, ok := l2.opCampaign(g); !ok && g.hadConf {
		j.report("lives-cannot-campaign:second", "a recovered member never campaigns when it hears nothing", map[string]interface{}{"acked": g.acked, "latestConf": fmt.Sprintf("%+v", l2.core.latestConf)})
	}
	if why := l2.opVote(g); why != "" {
		j.report("lives-cannot-rejoin:second", "a recovered node cannot take a VoteReq", map[string]interface{}{"why": why})
	}
	os.RemoveAll(p2.dir)
}

// ---------------------------------------------------------------- crash enumeration inside one operation
type c7lCrash struct {
	p    *c7lPersist
	what string
}

// runWithCrashPoints executes op and captures the durable state after every WAL hook; a record write is also
// captured torn (the file cut back between its length before and after the write)
func c7lRunWithCrashPoints(base string, l *c7lLife, op func() string) (crashes []c7lCrash, why string) {
	sizeBefore := map[string]int64{}
	n := 0
	verifhook.Callback = func(site string, args ...interface{}) {
		path, _ := args[0].(string)
		if !strings.HasPrefix(site, "wal.") || (filepath.Dir(path) != l.p.dir && filepath.Clean(path) != l.p.dir) {
			return
		}
		if site == "wal.write.before" {
			if fi, err := os.Stat(path); err == nil {
				sizeBefore[path] = fi.Size()
			}
			return
		}
		if !strings.HasSuffix(site, ".after") {
			return
		}
		n++
		p := l.persist(base)
		crashes = append(crashes, c7lCrash{p, fmt.Sprintf("%s#%d", site, n)})
		if site == "wal.write.after" {
			fi, err := os.Stat(path)
			if err != nil {
				return
			}
			b0, b1 := sizeBefore[path], fi.Size()
			cuts := map[int64]bool{}
			for _, c := range []int64{b0 + 1, b0 + 8, b0 + 12, b0 + 13, (b0 + b1) / 2, b1 - 4, b1 - 1} {
				if c > b0 && c < b1 {
					cuts[c] = true
				}
			}
			var cs []int64
			for c := range cuts {
				cs = append(cs, c)
			}
			sort.Slice(cs, func(a, b int) bool { return cs[a] < cs[b] })
			for _, c := range cs {
				q := l.persist(base)
				os.Truncate(filepath.Join(q.dir, filepath.Base(path)), c)
				crashes = append(crashes, c7lCrash{q, fmt.Sprintf("%s#%d torn at +%d of %d", site, n, c-b0, b1-b0)})
			}
		}
	}
	why = op()
	verifhook.Callback = nil
	return
}

// ---------------------------------------------------------------- cases
func c7lCase(base, id string, r *vw.Rng, sample bool) {
	j := &c7lJudge{caseID: id, seen: map[string]bool{}}
	dir, _ := ioutil.TempDir(base, "wal")
	conf := Membership{Members: []string{"1", "2", "3"}, Epoch: 5}
	g := &c7lGroup{term: 1, leader: "2", conf: conf, votes: map[uint64]string{}}
	g.log = []Entry{{Term: 1, Index: 1, Type: EntryConf, Cmd: encodeMembership(conf)}}
	g.term = 2
	g.log = append(g.log, Entry{Term: 2, Index: 2, Type: EntryNOP})
	p := &c7lPersist{dir: dir, st: memState{myGUID: 7001, seenGUIDs: map[string]uint64{}}}
	var desc []string
	lives := r.Range(2, 3)
	for life := 1; life <= lives; life++ {
		c7lProgress(id, "mainline", strings.Join(desc, "; "))
		l, why := c7lRecover(p)
		if why != "" {
			j.ctx = fmt.Sprintf("life %d", life)
			j.report("lives-cannot-restart:mainline", "the node cannot start from the durable state a crash left", map[string]interface{}{"why": why, "history": strings.Join(desc, "; ")})
			return
		}
		j.ctx = fmt.Sprintf("life %d start", life)
		j.check(l, g, "mainline")
		desc = append(desc, fmt.Sprintf("life%d", life))
		nops := r.Range(2, 5)
		for oi := 0; oi < nops; oi++ {
			last := oi == nops-1
			var op func() string
			var name string
			switch c := r.Intn(10); {
			case c < 5:
				k := r.Range(1, 6)
				g.extend(k)
				upto := uint64(len(g.log))
				name = fmt.Sprintf("append(%d)", k)
				op = func() string {
					if w := l.opReplicate(g, upto); w != "" {
						return w
					}
					return l.opCommit(g)
				}
			case c < 6:
				name = "vote"
				op = func() string { return l.opVote(g) }
			case c < 8:
				name = "install-snapshot"
				op = func() string {
					if w := l.opInstall(g); w != "" {
						return w
					}
					return l.opCommit(g)
				}
			case c < 9:
				name = "campaign"
				op = func() string {
					_, ok := l.opCampaign(g)
					if !ok && g.hadConf {
						return "a member that hears nothing never campaigns"
					}
					return ""
				}
			default:
				name = "commit"
				op = func() string { return l.opCommit(g) }
			}
			desc = append(desc, name)
			c7lStat("lives_op_" + strings.SplitN(name, "(", 2)[0])
			if !last {
				if why := op(); why != "" {
					j.ctx = strings.Join(desc, "; ")
					j.report("lives-cannot-rejoin:mainline", "a running (recovered) node fails an operation of its group", map[string]interface{}{"why": why, "op": name})
					return
				}
				continue
			}
			// the last operation of this life: every crash point inside it is judged
			c7lProgress(id, "mainline", strings.Join(desc, "; "))
			gBefore := g.clone()
			crashes, why := c7lRunWithCrashPoints(base, l, op)
			if why != "" {
				j.ctx = strings.Join(desc, "; ")
				j.report("lives-cannot-rejoin:mainline", "a running (recovered) node fails an operation of its group", map[string]interface{}{"why": why, "op": name})
				return
			}
			crashes = append(crashes, c7lCrash{l.persist(base), "after " + name})
			for ci, c := range crashes {
				// what was acknowledged at that point: everything before the operation; the operation itself only at its end
				gc := gBefore
				if ci == len(crashes)-1 {
					gc = g
				} else {
					gc = gBefore.clone()
					gc.log = append([]Entry(nil), g.log...) // entries exist at the leader, unacknowledged
					gc.term, gc.leader, gc.lsnap = g.term, g.leader, g.lsnap
				}
				j.judgeCrashState(base, c.p, gc, strings.Join(desc, "; ")+" | crash "+c.what)
				c7lStat("lives_crash_states")
			}
			// continue on one of them
			pick := r.Intn(len(crashes))
			if pick != len(crashes)-1 {
				gm := gBefore.clone()
				gm.log = append([]Entry(nil), g.log...)
				gm.term, gm.leader, gm.lsnap = g.term, g.leader, g.lsnap
				// what the node really persisted may exceed what was acknowledged; terms it acted in are bounded by its durable term
				g = gm
			}
			desc = append(desc, "crash "+crashes[pick].what)
			for ci, c := range crashes {
				if ci != pick {
					os.RemoveAll(c.p.dir)
				}
			}
			os.RemoveAll(p.dir)
			p = crashes[pick].p
		}
	}
	os.RemoveAll(p.dir)
	c7lJournal("distinct", "L:"+strings.Join(desc, ";"))
	if sample {
		c7lJournal("sample", "lives case "+id+": "+strings.Join(desc, "; "))
	}
}

// ---------------------------------------------------------------- parent / child (a log.Fatalf of the code under test kills
// the child; the parent turns the death into a violation with the context the child had announced, and resumes)
var c7lJournalFile *os.File
var c7lStats = map[string]int64{}

func c7lStat(k string) { c7lStats[k]++ }

func c7lJournal(kind string, v interface{}) {
	if c7lJournalFile == nil {
		return
	}
	b, _ := json.Marshal(map[string]interface{}{"kind": kind, "v": v})
	c7lJournalFile.Write(append(b, '\n'))
}

func c7lProgress(caseID, phase, ctx string) {
	c7lJournal("progress", map[string]string{"case": caseID, "phase": phase, "ctx": ctx})
}

func c7lChild(from, n int, journal string) {
	f, err := os.OpenFile(journal, os.O_CREATE|os.O_WRONLY|os.O_APPEND, 0644)
	if err != nil {
		panic(err)
	}
	c7lJournalFile = f
	base := ""
	if fi, err := os.Stat("/dev/shm"); err == nil && fi.IsDir() {
		base = "/dev/shm"
	}
	base, _ = ioutil.TempDir(base, "blbverif-c07l-")
	defer os.RemoveAll(base)
	root := vw.NewRng(vw.Seed())
	for ci := from; ci < n; ci++ {
		id := fmt.Sprintf("l%d", ci)
		if vw.CaseSelected(id) {
			c7lCase(base, id, root.Fork(uint64(ci)), ci < 3)
		}
		c7lJournal("stats", c7lStats)
		c7lStats = map[string]int64{}
		c7lJournal("done", ci)
	}
}

func TestVerifC07Lives(t *testing.T) {
	if !vw.Enabled() {
		t.Skip("verification harness: run through /verif/bin/check")
	}
	n := vw.Scale(40, 800)
	if from := os.Getenv("C07L_CHILD"); from != "" {
		k, _ := strconv.Atoi(from)
		c7lChild(k, n, os.Getenv("C07L_JOURNAL"))
		return
	}
	journal := filepath.Join(vw.OutDir(), "C07L.journal")
	os.Remove(journal)
	next, deaths := 0, 0
	for next < n && deaths < 20 {
		cmd := exec.Command(os.Args[0], "-test.run", "TestVerifC07Lives$")
		cmd.Env = append(os.Environ(), fmt.Sprintf("C07L_CHILD=%d", next), "C07L_JOURNAL="+journal)
		var errb bytes.Buffer
		cmd.Stderr = &errb
		cmd.Stdout = &errb
		runErr := cmd.Run()
		// digest the journal written so far
		done := next - 1
		var lastProg map[string]interface{}
		b, _ := ioutil.ReadFile(journal)
		os.Remove(journal)
		for _, line := range bytes.Split(b, []byte("\n")) {
			var rec struct {
				Kind string
				V    json.RawMessage
			}
			if len(line) == 0 || json.Unmarshal(line, &rec) != nil {
				continue
			}
			switch rec.Kind {
			case "viol":
				var v vw.Violation
				json.Unmarshal(rec.V, &v)
				vw.Report(v)
			case "stats":
				var m map[string]int64
				json.Unmarshal(rec.V, &m)
				for k, x := range m {
					vw.Stat(k, x)
				}
			case "distinct":
				var x string
				json.Unmarshal(rec.V, &x)
				vw.Distinct(x)
			case "sample":
				var x string
				json.Unmarshal(rec.V, &x)
				vw.Sample(x)
			case "progress":
				json.Unmarshal(rec.V, &lastProg)
			case "done":
				json.Unmarshal(rec.V, &done)
			}
		}
		if runErr == nil {
			break
		}
		// the child died: a log.Fatalf / runtime panic of the code under test
		deaths++
		fatal := ""
		for _, ln := range strings.Split(errb.String(), "\n") {
			if strings.HasPrefix(ln, "F0") || strings.HasPrefix(ln, "F1") || strings.HasPrefix(ln, "panic:") || strings.HasPrefix(ln, "fatal error") {
				fatal = ln
				break
			}
		}
		phase, ctx, cid := "?", "", fmt.Sprintf("l%d", done+1)
		if lastProg != nil {
			phase, _ = lastProg["phase"].(string)
			ctx, _ = lastProg["ctx"].(string)
			if c, ok := lastProg["case"].(string); ok {
				cid = c
			}
		}
		vw.Report(vw.Violation{Property: c7lProp, Signature: "lives-fatal:" + phase, Case: cid,
			What:   "the code under test died (log.Fatalf / panic) while a recovered node was running or restarting",
			Detail: map[string]interface{}{"fatal": fatal, "context": ctx}})
		vw.Stat("lives_child_deaths", 1)
		next = done + 2
	}
	vw.Finish("C07L")
}
