package raft

// C07 part A harness: a Raft node survives a crash at any instant and can always rejoin (core level).
// The C02 simulation runs a short schedule (main line). Before EVERY event of the main line, for EVERY k = 1, 2, ...
// the whole simulation is cloned, the event runs on the clone with storage wrappers that abort the handler right
// after its k-th durable mutation (panic/recover inside the harness), the node is rebuilt with newCore on the
// surviving storage, and the monitors look at the restarted node:
//   - newCore itself must not Fatalf;
//   - the recovered storage must satisfy the relation the recovery code relies on (log end never behind snapshot);
//   - the durable term/vote is never behind anything the node acted on (messages it sent, votes it granted);
//   - no committed entry the node held is lost; other handlers than AppEnts/InstallSnapshot never shorten the log;
//   - a candidate whose log ends before the node's own snapshot must not get its vote (vote probe);
//   - on a healthy schedule the node catches up with the group without a Fatalf caused by its own persisted state.
// The what-if result (projection right after restart) is written as op 9 and compared with the Coq model's prefix
// semantics; sometimes the crash is made real (op 10) and the main line continues from the crashed state.

import (
	"fmt"
	"os"
	"testing"

	vw "github.com/westerndigitalcorporation/blb/pkg/verifwire"
)

// ---------------------------------------------------------------- checks on a crashed-and-restarted node

type c07Pre struct {
	lastIndex, lastTerm uint64
	held                []uint64 // committed indices the node held before the event
}

func c07PreState(s *vsSim, n *vsNode) c07Pre {
	p := c07Pre{lastIndex: n.stor.lastIndex()}
	p.lastTerm, _ = vsLastTerm(n)
	for idx, c := range s.committed {
		if n.holds(idx, c.e.Term) {
			p.held = append(p.held, idx)
		}
	}
	return p
}

func vsLastTerm(n *vsNode) (uint64, bool) {
	fi, li, empty := n.wl.GetBound()
	_ = fi
	if !empty {
		return n.wl.Term(li), true
	}
	if meta := n.sm.snapMeta; meta != NilSnapshotMetadata {
		return meta.LastTerm, true
	}
	return 0, true
}

// storage relation the recovery code relies on ("snapshot is always a prefix of the log")
func vsStorageConsistent(n *vsNode) (bool, string) {
	meta := n.sm.snapMeta
	fi, li, empty := n.wl.GetBound()
	if meta == NilSnapshotMetadata || empty {
		return true, ""
	}
	if li < meta.LastIndex {
		return false, fmt.Sprintf("log ends at %d, before the snapshot's last index %d", li, meta.LastIndex)
	}
	if fi > meta.LastIndex+1 {
		return false, fmt.Sprintf("log starts at %d, after the snapshot's last index %d + 1", fi, meta.LastIndex)
	}
	if fi <= meta.LastIndex && n.wl.Term(meta.LastIndex) != meta.LastTerm {
		return false, fmt.Sprintf("log entry %d has term %d, snapshot says %d", meta.LastIndex, n.wl.Term(meta.LastIndex), meta.LastTerm)
	}
	return true, ""
}

func c07AfterCrash(cl *vsSim, x int, pre c07Pre, ev vsEvent) {
	n := cl.nodes[x]
	if ok, why := vsStorageConsistent(n); !ok {
		cl.report("recovered-log-inconsistent-with-snapshot", "after a crash between two durable mutations the node restarts with a log that is not consistent with its snapshot: "+why,
			map[string]interface{}{"node": x, "state": cl.describe()})
	}
	for _, idx := range pre.held {
		if !n.holds(idx, cl.committed[idx].e.Term) {
			cl.report("lost-committed-entry", "a committed entry the node held before the crash is gone after restart", map[string]interface{}{"node": x, "index": idx})
		}
	}
	if ev.what != "AppEnts" && ev.what != "InstallSnapshot" {
		lt, _ := vsLastTerm(n)
		li := n.stor.lastIndex()
		if lt < pre.lastTerm || (lt == pre.lastTerm && li < pre.lastIndex) {
			cl.report("lost-acknowledged-entries", "a handler that never truncates left the node with a shorter log after crash and restart", map[string]interface{}{"node": x, "before": pre.lastIndex, "after": li})
		}
	}
}

func vsInConf(n *vsNode, who int) bool {
	return n.core.latestConf != nil && containMember(n.core.latestConf.Members, vsName(who))
}

// votePr: a candidate whose log ends before x's snapshot asks x for its vote
func c07VoteProbe(cl *vsSim, x int) {
	n := cl.nodes[x]
	meta := n.sm.snapMeta
	if meta == NilSnapshotMetadata {
		return
	}
	for _, y := range cl.nodes[1:] {
		if y.i == x || !vsInConf(y, y.i) || !vsInConf(y, x) || y.role() == 2 {
			continue
		}
		lt, _ := vsLastTerm(y)
		li := y.stor.lastIndex()
		if !(lt < meta.LastTerm || (lt == meta.LastTerm && li < meta.LastIndex)) {
			continue
		}
		t0 := y.st.term
		for i := 0; i < 12 && !(y.role() == 1 && y.st.term > t0 && y.st.term > n.st.term); i++ {
			cl.step(cl.evTick(y.i))
		}
		for _, sm := range cl.pending(func(m *vsSoupMsg) bool { return m.from == y.i && m.to == x && vsKind(m.m) == "VoteReq" }) {
			cl.step(cl.evDeliver(sm))
		}
		vsChildStat("probe.vote", 1)
		return
	}
}

// topLeader: the leader of the highest term any node is in (a leader of a lower term is stale: nobody answers it)
func (s *vsSim) topLeader() *vsNode {
	maxTerm := uint64(0)
	for _, n := range s.nodes[1:] {
		if n.st.term > maxTerm {
			maxTerm = n.st.term
		}
	}
	for _, n := range s.nodes[1:] {
		if n.role() == 2 && n.st.term == maxTerm {
			return n
		}
	}
	return nil
}

// c07CatchUp runs a healthy schedule (no loss, FIFO, leader heartbeats, one election if there is no leader) and
// expects node x to reach the leader's commit point.
func c07CatchUp(cl *vsSim, x int) {
	rounds := 10
	for r := 0; r < rounds; r++ {
		cl.deliverAll(nil, 400)
		l := cl.topLeader()
		if l != nil {
			// a stale leader of a lower term may linger: the newest message makes it step down, nothing to do here
			cl.step(cl.evTick(l.i))
			cl.maybeNop(l.i)
			if r == 2 && l.role() == 2 && l.nopDoneTerm == l.st.term {
				cl.step(cl.evPropose(l.i, []int64{cl.freshCmd()}))
			}
			continue
		}
		// no leader: the member with the best log campaigns
		var c *vsNode
		for _, n := range cl.nodes[1:] {
			if !vsInConf(n, n.i) {
				continue
			}
			if c == nil {
				c = n
				continue
			}
			a, _ := vsLastTerm(n)
			b, _ := vsLastTerm(c)
			if a > b || (a == b && n.stor.lastIndex() > c.stor.lastIndex()) {
				c = n
			}
		}
		if c == nil {
			break
		}
		t0 := c.st.term
		for i := 0; i < 12 && !(c.role() == 1 && c.st.term > t0) && c.role() != 2; i++ {
			cl.step(cl.evTick(c.i))
			cl.maybeNop(c.i)
		}
	}
	cl.deliverAll(nil, 400)
	l := cl.topLeader()
	n := cl.nodes[x]
	if l == nil || l.nopDoneTerm != l.st.term || !vsInConf(l, x) || l.i == x {
		vsChildStat("catchup.not-judged", 1)
		return
	}
	vsChildStat("catchup.judged", 1)
	if n.core.committedIndex != l.core.committedIndex || n.stor.lastIndex() != l.stor.lastIndex() {
		// a leader-side cause that has nothing to do with the crash: a late negative AppEntsResp whose hint is not beyond
		// matchIndex set nextIndex <= matchIndex; from then on the leader only probes below matchIndex and throws every
		// answer away as stale
		if p := l.core.leader.(*coreLeader).peers[vsName(x)]; p != nil && p.nextIndex <= p.matchIndex {
			cl.ctxSig = ""
			cl.report("replication-wedged-by-stale-hint", "a delayed negative AppEntsResp moved the leader's nextIndex to or below matchIndex; the leader now probes below matchIndex forever and discards every answer as stale: the follower never catches up while this leader stays",
				map[string]interface{}{"node": x, "leader": l.i, "nextIndex": p.nextIndex, "matchIndex": p.matchIndex, "state": cl.describe()})
			return
		}
		cl.report("cannot-catch-up", "on a healthy schedule the restarted node does not reach the leader's commit point",
			map[string]interface{}{"node": x, "state": cl.describe()})
	}
}

// ---------------------------------------------------------------- the crash enumeration hook

type c07Ctl struct {
	base             *vw.Rng
	resumeJ, resumeK int
	tr               *vsTrace
	deaths           int
	realCrashes      int
	hookFrom         int
}

func (c *c07Ctl) hook(s *vsSim, ev vsEvent) bool {
	j := s.evno // index of the event about to run
	rr := c.base.Fork(uint64(j))
	real, kreal := rr.Chance(1, 12), rr.PickInt(1, 1, 2, 2, 3)
	if ev.what == "Restart" {
		real = false
	}
	if real {
		// never continue the main line from a recovered state that is already reported as inconsistent (everything
		// after it would be attributed to the wrong event)
		cl := s.clone()
		cl.muteReports = true
		if crashed, _ := cl.stepCrash(ev, kreal, true); crashed {
			if ok, _ := vsStorageConsistent(cl.nodes[ev.node]); !ok {
				real = false
			}
		}
	}
	if c.resumeJ >= 0 && j < c.resumeJ {
		// replaying the prefix of a resumed case: muted, no what-ifs
		if real {
			s.stepCrash(ev, kreal, false)
		}
		return real
	}
	k0 := 1
	if c.resumeJ >= 0 && j == c.resumeJ {
		k0 = c.resumeK + 1
		c.tr.muted = false
		vsStatMuted = false
		c.resumeJ = -1
	}
	n := s.nodes[ev.node]
	maxk := 0
	for k := k0; k <= 12; k++ {
		cl := s.clone()
		if k == k0 && !vsSameProj(cl.nodes[ev.node], n) {
			panic("harness bug: clone differs from original")
		}
		pre := c07PreState(cl, cl.nodes[ev.node])
		vsJournalLine("ctx", fmt.Sprintf("phase=crash j=%d k=%d ev=%s", j, k, ev.what))
		cl.ctxSig = "ev=" + ev.what
		crashed, _ := cl.stepCrash(ev, k, true)
		if !crashed {
			break
		}
		maxk = k
		mut := cl.nodes[ev.node].ctl.names[k-1]
		cl.ctxSig = fmt.Sprintf("ev=%s,mut=%s", ev.what, mut)
		// the what-if line of the main trace (the model computes it from its own main-line state)
		s.tr.op(s, cl.lastOp)
		s.tr.obs(s, cl.lastObs)
		vsChildStat("crashpoint."+ev.what+"."+mut, 1)
		vsChildStat("crashpoints", 1)
		vsJournalLine("ctx", fmt.Sprintf("phase=recovered j=%d k=%d ev=%s mut=%s", j, k, ev.what, mut))
		c07AfterCrash(cl, ev.node, pre, ev)
		bad := len(cl.viol) > len(s.viol)
		if bad && c.deaths > 60 {
			continue // enough evidence of fatal follow-ups in this run; keep exploring without dying again
		}
		vsJournalLine("ctx", fmt.Sprintf("phase=probe j=%d k=%d ev=%s mut=%s", j, k, ev.what, mut))
		c07VoteProbe(cl, ev.node)
		vsJournalLine("ctx", fmt.Sprintf("phase=catchup j=%d k=%d ev=%s mut=%s", j, k, ev.what, mut))
		c07CatchUp(cl, ev.node)
	}
	vsJournalLine("ctx", "")
	_ = maxk
	if real {
		// make the crash real (op 10): the main line continues from the crashed state (if the handler has fewer than
		// kreal durable mutations it simply completes)
		if crashed, _ := s.stepCrash(ev, kreal, false); crashed {
			vsChildStat("real.crashes", 1)
		}
		return true
	}
	return false
}

func c07RunCase(ci int, r *vw.Rng, tr *vsTrace, resumeJ, resumeK int) {
	id := fmt.Sprintf("c%d", ci)
	deaths := 0
	fmt.Sscanf(os.Getenv("VERIF_RAFT_DEATHS"), "%d", &deaths)
	ctl := &c07Ctl{base: r.Fork(777), resumeJ: resumeJ, resumeK: resumeK, tr: tr, deaths: deaths}
	if resumeJ >= 0 {
		tr.muted = true
		vsStatMuted = true
	} else {
		tr.caseHdr(id)
	}
	var s *vsSim
	if os.Getenv("VERIF_C07_WITNESS") == "2" {
		s = c07StaleHint(id, tr)
	} else if os.Getenv("VERIF_C07_WITNESS") != "" {
		s = c07Witness(id, tr)
	} else if ci < len(c07Corpus) {
		s = c07Corpus[ci](id, tr, ctl)
	} else {
		cfg := vsRandCfg(r)
		if cfg.N == 1 && r.Chance(2, 3) {
			cfg.N = 3
		}
		snapHeavy := r.Chance(1, 2)
		if snapHeavy {
			cfg.keep = uint64(r.PickInt(0, 0, 1))
			cfg.maxEnts = uint32(r.PickInt(1, 2, 1000))
		}
		s = vsNewSim("C07", id, cfg, tr)
		g := &c02Gen{s: s, r: r, loose: false, churn: r.PickInt(3, 10, 30), isolated: map[int]bool{}, snapHeavy: snapHeavy}
		warm := r.Chance(3, 4)
		if !warm {
			s.hook = ctl.hook
		}
		g.members = c02Bootstrap(s, r)
		if warm {
			// the warm-up runs without crash enumeration (when resuming it is replayed muted like everything before j)
			c02WarmUp(s, r, g.members)
			s.hook = ctl.hook
			ctl.hookFrom = s.evno
		}
		if snapHeavy {
			g.lagPhase()
		}
		nev := s.evno + r.Range(20, vw.Scale(40, 90))
		for s.evno < nev {
			g.stepRandom()
		}
	}
	tr.muted = false
	vsStatMuted = false
	vsChildStat(fmt.Sprintf("nodes=%d", s.cfg.N), 1)
	c02Finish(s, id, ci < len(c07Corpus))
}

// corpus: the C02 adversarial schedules with snapshots, under crash enumeration
var c07Corpus = []func(id string, tr *vsTrace, ctl *c07Ctl) *vsSim{
	func(id string, tr *vsTrace, ctl *c07Ctl) *vsSim { return c07Wrap(4, id, tr, ctl) },
	func(id string, tr *vsTrace, ctl *c07Ctl) *vsSim { return c07Wrap(5, id, tr, ctl) },
	func(id string, tr *vsTrace, ctl *c07Ctl) *vsSim { return c07Wrap(1, id, tr, ctl) },
	func(id string, tr *vsTrace, ctl *c07Ctl) *vsSim { return c07Wrap(6, id, tr, ctl) },
	// a restarted (empty) follower and a delayed negative AppEntsResp: the leader's nextIndex falls to matchIndex
	func(id string, tr *vsTrace, ctl *c07Ctl) *vsSim {
		s := c07StaleHint(id, tr)
		cl := s.clone()
		c07CatchUp(cl, 3)
		return s
	},
}

// c07StaleHint: n3 is empty while n1 leads; n1's first probe (prev=1) is answered "no, hint 1" twice; the first answer is
// delayed; the second makes n1 probe at 0 and ship entry 1; then the delayed answer arrives: Index 1 is not below
// matchIndex 1, so nextIndex := hint = 1 <= matchIndex.
func c07StaleHint(id string, tr *vsTrace) *vsSim {
	s := vsNewSim("C07", id, vsCorpusCfg(3, 1, 0), tr)
	s.step(s.evBootstrap(1, vsAll(3), 5))
	s.elect(1, 2) // n3 hears nothing
	s.sync(1, 2)
	s.heartbeat(1, 1, 2)
	from13 := func(m *vsSoupMsg) bool { return m.from == 1 && m.to == 3 }
	from31 := func(m *vsSoupMsg) bool { return m.from == 3 && m.to == 1 }
	// two probes reach n3, two negative answers are in flight
	s.step(s.evTick(1))
	for _, sm := range s.pending(from13) {
		s.step(s.evDeliver(sm))
	}
	s.step(s.evTick(1))
	for _, sm := range s.pending(from13) {
		s.step(s.evDeliver(sm))
	}
	neg := s.pending(from31)
	if len(neg) < 2 {
		return s
	}
	delayed := neg[0]
	s.step(s.evDeliver(neg[1])) // nextIndex := 1, probe at 0
	for i := 0; i < 8; i++ {
		p := s.pending(func(m *vsSoupMsg) bool { return (from13(m) || from31(m)) && m != delayed })
		if len(p) == 0 {
			break
		}
		s.step(s.evDeliver(p[0]))
		if pr := s.nodes[1].core.leader.(*coreLeader).peers["n3"]; pr != nil && pr.matchIndex >= 1 {
			break
		}
	}
	// the follow-up AppEnts that is in flight is lost; then the delayed answer arrives
	s.dropPending(from13)
	s.step(s.evDeliver(delayed))
	return s
}

func c07Wrap(k int, id string, tr *vsTrace, ctl *c07Ctl) *vsSim {
	vsNewSimHook = func(s *vsSim) { s.prop = "C07"; s.hook = ctl.hook }
	defer func() { vsNewSimHook = nil }()
	return c02Corpus[k](id, tr)
}

// c07Witness: the shortest scripted schedule that shows F10 on the main line (used once to produce the ops of the Coq
// witness in C07/A_Witness.v; run with VERIF_C07_WITNESS=1 and VERIF_CASES=c0).
func c07Witness(id string, tr *vsTrace) *vsSim {
	s := vsNewSim("C07", id, vsCorpusCfg(3, 1000, 0), tr)
	s.step(s.evBootstrap(1, vsAll(3), 5))
	s.elect(1, 2, 3)
	s.sync(1, 2, 3) // n3 has index 1..2
	s.step(s.evPropose(1, []int64{s.freshCmd(), s.freshCmd()}))
	s.sync(1, 2)
	s.heartbeat(1, 1, 2)
	s.snapBegin(1)
	s.snapDone(1) // leader: snapshot at 4, log trimmed completely
	s.step(s.evTick(1))
	for i := 0; i < 10; i++ {
		p := s.pending(vsBetween(1, 3))
		if len(p) == 0 {
			s.step(s.evTick(1))
			continue
		}
		if vsKind(p[0].m) == "InstallSnapshot" {
			s.stepCrash(s.evDeliver(p[0]), 1, false) // crash right after the snapshot writer's Commit
			break
		}
		s.step(s.evDeliver(p[0]))
	}
	s.step(s.evPropose(1, []int64{s.freshCmd()}))
	for i := 0; i < 6; i++ {
		s.step(s.evTick(1))
		s.deliverAll(vsBetween(1, 3), 50)
	}
	return s
}

func TestVerifC07(t *testing.T) {
	if !vw.Enabled() {
		t.Skip("verification harness: run through /verif/bin/check")
	}
	if os.Getenv("VERIF_RAFT_CHILD") != "" {
		vsChildMain("C07", c07RunCase)
		return
	}
	vsParentMain(t, "C07", "TestVerifC07", vw.Scale(120, 4000))
}
