// Package verifwire is injected into the repository's module with `go test -overlay`
// (it lives in /verif, never in /repo). It gives every verification harness the same
// deterministic PRNG, trace writer, monitor-violation log and run statistics.
package verifwire

import (
	"bufio"
	"encoding/json"
	"fmt"
	"os"
	"path/filepath"
	"sort"
	"strconv"
	"strings"
	"sync"
)

// ---------- environment ----------

// Seed returns VERIF_SEED (default 1).
func Seed() uint64 {
	if s := os.Getenv("VERIF_SEED"); s != "" {
		if v, err := strconv.ParseUint(s, 10, 64); err == nil {
			return v
		}
		if v, err := strconv.ParseInt(s, 10, 64); err == nil {
			return uint64(v)
		}
	}
	return 1
}

// Thorough reports whether VERIF_TIER=thorough.
func Thorough() bool { return os.Getenv("VERIF_TIER") == "thorough" }

// Scale picks a case count by tier.
func Scale(quick, thorough int) int {
	if Thorough() {
		return thorough
	}
	return quick
}

// OutDir is where traces/violations/stats go (VERIF_OUT, required).
func OutDir() string {
	d := os.Getenv("VERIF_OUT")
	if d == "" {
		d = os.TempDir()
	}
	return d
}

// Enabled is true when the harness was started by bin/check (VERIF_OUT set).
func Enabled() bool { return os.Getenv("VERIF_OUT") != "" }

// CaseSelected reports whether case id should run (VERIF_CASES = comma list restricts a replay to those cases).
func CaseSelected(id string) bool {
	sel := os.Getenv("VERIF_CASES")
	if sel == "" {
		return true
	}
	for _, x := range strings.Split(sel, ",") {
		if x == id {
			return true
		}
	}
	return false
}

// ReplayFile returns the path of a replay file to re-run, or "".
func ReplayFile() string { return os.Getenv("VERIF_REPLAY") }

// ---------- PRNG: splitmix64 ----------

type Rng struct{ s uint64 }

func NewRng(seed uint64) *Rng { return &Rng{s: seed*0x9E3779B97F4A7C15 + 0x1234567} }

// Fork derives an independent generator (for a case), so cases replay in isolation.
func (r *Rng) Fork(i uint64) *Rng { return NewRng(r.s ^ (i+1)*0xD1B54A32D192ED03) }

func (r *Rng) U64() uint64 {
	r.s += 0x9E3779B97F4A7C15
	z := r.s
	z = (z ^ (z >> 30)) * 0xBF58476D1CE4E5B9
	z = (z ^ (z >> 27)) * 0x94D049BB133111EB
	return z ^ (z >> 31)
}
func (r *Rng) Intn(n int) int {
	if n <= 0 {
		return 0
	}
	return int(r.U64() % uint64(n))
}
func (r *Rng) Range(lo, hi int) int { return lo + r.Intn(hi-lo+1) } // inclusive
func (r *Rng) Bool() bool           { return r.U64()&1 == 1 }
func (r *Rng) Chance(num, den int) bool {
	return r.Intn(den) < num
}
func (r *Rng) PickInt(xs ...int) int       { return xs[r.Intn(len(xs))] }
func (r *Rng) PickI64(xs ...int64) int64   { return xs[r.Intn(len(xs))] }
func (r *Rng) Perm(n int) []int {
	p := make([]int, n)
	for i := range p {
		p[i] = i
	}
	for i := n - 1; i > 0; i-- {
		j := r.Intn(i + 1)
		p[i], p[j] = p[j], p[i]
	}
	return p
}

// Pattern is the deterministic byte fill used for seeded data: byte i of pattern(seed).
func Pattern(seed uint64, i int64) byte {
	z := seed*0x9E3779B97F4A7C15 + uint64(i)*0xBF58476D1CE4E5B9
	z ^= z >> 29
	z *= 0x94D049BB133111EB
	z ^= z >> 32
	return byte(z)
}

// Fill fills b with Pattern(seed, base+i).
func Fill(b []byte, seed uint64, base int64) {
	for i := range b {
		b[i] = Pattern(seed, base+int64(i))
	}
}

// ---------- trace writer ----------

type Trace struct {
	mu    sync.Mutex
	f     *os.File
	w     *bufio.Writer
	Cases int
	Ops   int
}

// OpenTrace creates <OutDir>/<name>.
func OpenTrace(name string) *Trace {
	f, err := os.Create(filepath.Join(OutDir(), name))
	if err != nil {
		panic(err)
	}
	return &Trace{f: f, w: bufio.NewWriterSize(f, 1<<20)}
}

func (t *Trace) Case(id string) {
	t.mu.Lock()
	defer t.mu.Unlock()
	t.Cases++
	fmt.Fprintf(t.w, "# case %s\n", id)
}

func writeInts(w *bufio.Writer, pfx byte, xs []int64) {
	w.WriteByte(pfx)
	for _, x := range xs {
		w.WriteByte(' ')
		w.WriteString(strconv.FormatInt(x, 10))
	}
	w.WriteByte('\n')
}

// Op writes an operation line.
func (t *Trace) Op(xs ...int64) {
	t.mu.Lock()
	defer t.mu.Unlock()
	t.Ops++
	writeInts(t.w, '>', xs)
}

// Obs writes the implementation's observation for the preceding Op.
func (t *Trace) Obs(xs ...int64) {
	t.mu.Lock()
	defer t.mu.Unlock()
	writeInts(t.w, '<', xs)
}

func (t *Trace) Close() {
	t.mu.Lock()
	defer t.mu.Unlock()
	t.w.Flush()
	t.f.Close()
}

// L is a small builder for integer lines.
type L []int64

func (l *L) Add(xs ...int64)  { *l = append(*l, xs...) }
func (l *L) AddInt(xs ...int) { for _, x := range xs { *l = append(*l, int64(x)) } }
func (l *L) AddBool(b bool) {
	if b {
		*l = append(*l, 1)
	} else {
		*l = append(*l, 0)
	}
}

// AddList appends a length-prefixed list.
func (l *L) AddList(xs []int64) {
	*l = append(*l, int64(len(xs)))
	*l = append(*l, xs...)
}

// RLE encodes bytes as run-length pairs: n, (len, val)*.
func RLE(b []byte) []int64 {
	var out []int64
	runs := int64(0)
	out = append(out, 0)
	i := 0
	for i < len(b) {
		j := i
		for j < len(b) && b[j] == b[i] {
			j++
		}
		out = append(out, int64(j-i), int64(b[i]))
		runs++
		i = j
	}
	out[0] = runs
	return out
}

// ---------- monitor violations, stats, samples ----------

type Violation struct {
	Property  string                 `json:"property"`
	Signature string                 `json:"signature"`
	What      string                 `json:"what"`
	Case      string                 `json:"case"`
	Detail    map[string]interface{} `json:"detail,omitempty"`
}

var (
	mu       sync.Mutex
	stats    = map[string]int64{}
	samples  []string
	distinct = map[string]struct{}{}
	viol     []Violation
)

// Report records a monitor violation: the real code broke the property on a concrete case.
func Report(v Violation) {
	mu.Lock()
	defer mu.Unlock()
	viol = append(viol, v)
}

// Stat adds to a named counter (histograms of ops, sizes, error kinds ...).
func Stat(key string, n int64) {
	mu.Lock()
	stats[key] += n
	mu.Unlock()
}

// Distinct records a fingerprint of a non-trivial case.
func Distinct(fp string) {
	mu.Lock()
	distinct[fp] = struct{}{}
	mu.Unlock()
}

// Sample keeps up to 8 written-out cases for the evidence file.
func Sample(s string) {
	mu.Lock()
	if len(samples) < 8 {
		if len(s) > 600 {
			s = s[:600] + "..."
		}
		samples = append(samples, s)
	}
	mu.Unlock()
}

// Finish writes stats.json and violations.json into OutDir. Call once at the end of the harness.
func Finish(name string) {
	mu.Lock()
	defer mu.Unlock()
	keys := make([]string, 0, len(stats))
	for k := range stats {
		keys = append(keys, k)
	}
	sort.Strings(keys)
	out := map[string]interface{}{
		"stats":      stats,
		"samples":    samples,
		"distinct":   len(distinct),
		"violations": viol,
	}
	b, _ := json.MarshalIndent(out, "", " ")
	os.WriteFile(filepath.Join(OutDir(), name+".result.json"), b, 0o644)
}

// Ints formats a list for samples.
func Ints(xs []int64) string {
	s := make([]string, len(xs))
	for i, x := range xs {
		s[i] = strconv.FormatInt(x, 10)
	}
	return strings.Join(s, " ")
}
