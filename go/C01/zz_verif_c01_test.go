package blb_test

// C01 harness (overlay; lives in /verif/go/C01, injected as client/blb/zz_verif_c01_test.go).
// Integrated: real Stores + real curator incarnations on one real durable state + real clients,
// every RPC routed through the deterministic scheduler of pkg/verifcluster (sources: /verif/go/cluster).

import (
	"bufio"
	"encoding/json"
	"flag"
	"fmt"
	"os"
	"os/exec"
	"path/filepath"
	"runtime"
	"strconv"
	"strings"
	"testing"

	vc "github.com/westerndigitalcorporation/blb/pkg/verifcluster"
	vw "github.com/westerndigitalcorporation/blb/pkg/verifwire"
)

func c01Case(t *testing.T, root *vw.Rng, ci int, tr *vw.Trace) {
	id := fmt.Sprint(ci)
	r := root.Fork(uint64(ci))
	repl := r.PickInt(1, 2, 2, 2, 3, 3, 3, 3, 3, 3, 3, 3)
	nTS := repl + r.PickInt(1, 1, 2)
	// wide cases: blobs of 5-6 tracts, operations inside tracts far apart and across tract boundaries, the
	// writer's tract cache on (its cache gets gaps: a lookup learns the tracts it asked for plus the next one)
	wide := r.Chance(3, 10)
	d := vc.NewDriver(r, nTS, []bool{wide || r.Chance(4, 5), r.Chance(1, 2)}, id)
	defer d.Cl.Close()
	d.AckCheck, d.AllTracts = true, true
	d.Big = r.Chance(1, 5)
	d.MaxTracts = r.PickInt(1, 2, 3, 3)
	if d.Big && d.MaxTracts < 2 {
		d.MaxTracts = 2
	}
	if wide {
		d.Wide, d.Big, d.MaxTracts = true, true, r.PickInt(5, 5, 6)
	}
	nb := r.PickInt(1, 1, 2)
	for i := 0; i < nb; i++ {
		d.NewBlob(repl)
	}
	if r.Chance(1, 4) {
		d.W.PLose, d.W.PFail, d.W.PTwice = 0, 0, 0 // fault-free schedules (pure interleavings)
		d.W.PReplyLose = 0
	}
	steps := vw.Scale(r.Range(25, 70), r.Range(40, 220))
	if wide {
		// many client operations are needed before the cache has a gap and a write spans it: longer
		// schedules, milder faults (every failed operation empties the cache)
		steps = vw.Scale(r.Range(40, 90), r.Range(100, 300))
		d.W.PLose, d.W.PFail, d.W.PReplyLose = d.W.PLose/2, d.W.PFail/2, d.W.PReplyLose/2
		d.W.Read = 14
	}
	rounds := r.PickInt(1, 2, 3)
	if wide {
		rounds = r.PickInt(3, 4)
	}
	for k := 0; k < rounds; k++ {
		if wide {
			// a burst of client operations delivered without faults: the blob gets its tracts and the
			// clients' caches get entries for tracts far apart before the next random round
			d.Burst(r.Range(15, 35))
		}
		d.RunRandom(steps / rounds)
		if r.Chance(1, 2) {
			d.Quiesce()
			d.CheckAllReplicas()
		}
	}
	d.Quiesce()
	d.CheckAllReplicas()
	// final reads through the real clients: the writer (possibly stale cache) and a brand-new client
	fresh := len(d.Clients)
	_ = fresh
	for _, b := range d.Blobs {
		ext := b.O.Extent()
		if ext == 0 {
			continue
		}
		lo := int64(0)
		if ext > 1<<20 {
			lo = ext - 4096 // keep buffers small in big cases; CheckAllReplicas covered everything
		}
		for c := range d.Clients {
			d.StartRead(c, b.Idx, lo, int(ext-lo)+10)
			d.Quiesce()
		}
	}
	d.CheckAllReplicas()

	seen := map[string]bool{}
	for _, b := range d.Bads {
		if seen[b.Sig] {
			continue
		}
		seen[b.Sig] = true
		vw.Report(vw.Violation{Property: "C01", Signature: b.Sig, What: b.What, Case: id, Detail: b.Detail})
	}
	// statistics
	vw.Stat("cases", 1)
	vw.Stat("events", int64(len(d.Events)))
	acked, failed := 0, 0
	for _, b := range d.Blobs {
		for _, w := range b.O.Writes {
			if w.Status == vc.WAcked {
				acked++
			} else {
				failed++
			}
		}
	}
	vw.Stat("writes.acked", int64(acked))
	vw.Stat("writes.failed", int64(failed))
	for _, e := range d.Events {
		vw.Stat(fmt.Sprintf("ev.%d", e.Code), 1)
		if e.Code == vc.EvStep {
			vw.Stat(fmt.Sprintf("step.%s.mode%d", e.RPC.Kind, e.Mode), 1)
		}
		for _, f := range e.Finished {
			vw.Stat(fmt.Sprintf("done.kind%d.err%d", f.Kind, vc.ErrClass(f.Err)), 1)
		}
	}
	if acked > 0 && failed > 0 {
		fp := fmt.Sprintf("%d/%d/%d/%d", repl, nTS, acked, failed)
		vw.Distinct(fp)
		if os.Getenv("VERIF_CHUNK") != "" {
			if f, err := os.OpenFile(filepath.Join(vw.OutDir(), "distinct.txt"), os.O_APPEND|os.O_CREATE|os.O_WRONLY, 0o644); err == nil {
				fmt.Fprintln(f, fp)
				f.Close()
			}
		}
	}
	d.WriteTrace(tr)
	if ci < 4 {
		txt := fmt.Sprintf("case %d: repl=%d servers=%d blobs=%d events=%d acked=%d failed=%d;", ci, repl, nTS, nb, len(d.Events), acked, failed)
		k := 0
		for _, e := range d.Events {
			if e.Code == vc.EvStep && e.Mode != vc.ModeDeliver && k < 6 {
				txt += fmt.Sprintf(" [mode%d %s]", e.Mode, e.RPC)
				k++
			}
		}
		vw.Sample(txt)
	}
}

// deliverWhere keeps delivering (normally) parked calls selected by pred until none is left.
func deliverWhere(d *vc.Driver, pred func(r *vc.RPC) bool) {
	for i := 0; i < 200; i++ {
		var pick *vc.RPC
		for _, r := range d.Cl.S.Pending() {
			if r.State == vc.StParked && pred(r) {
				pick = r
				break
			}
		}
		if pick == nil {
			return
		}
		d.Step(pick, vc.ModeDeliver)
	}
}

func c01Report(d *vc.Driver, id string) {
	seen := map[string]bool{}
	for _, b := range d.Bads {
		if seen[b.Sig] {
			continue
		}
		seen[b.Sig] = true
		vw.Report(vw.Violation{Property: "C01", Signature: b.Sig, What: b.What, Case: id, Detail: b.Detail})
	}
}

// c01Directed: the window "leader change after the pulls were sent and before the commit", with the
// new leader repairing the same tract onto the same spare server while the old leader's PullTract
// is still in flight, and a client write racing the late pull.
func c01Directed(root *vw.Rng, tr *vw.Trace, id string, lateAfterWriteAtD bool) {
	d := vc.NewDriver(root.Fork(7777), 4, []bool{true, false}, id)
	defer d.Cl.Close()
	d.NewBlob(3)
	d.Cl.S.SetAuto(false)
	d.StartWrite(0, 0, 0, 100)
	d.Quiesce()
	st := d.Cl.D.Tract(d.TractID(0, 0))
	if !st.OK || len(st.Hosts) != 3 {
		return
	}
	bad := int(st.Hosts[2])
	spare := 0
	for i := 1; i <= 4; i++ {
		is := false
		for _, h := range st.Hosts {
			if int(h) == i {
				is = true
			}
		}
		if !is {
			spare = i
		}
	}
	// old leader: bump the survivors, send the pull, and get no further
	d.StartReplicate(0, 0, []int{bad})
	deliverWhere(d, func(r *vc.RPC) bool { return r.Kind == vc.KSetVersion })
	// leadership moves on; the new leader hears from everybody and repairs the same tract
	d.LeaderChange()
	for i := 1; i <= 4; i++ {
		d.Heartbeat(i)
	}
	d.StartReplicate(0, 0, []int{bad})
	deliverWhere(d, func(r *vc.RPC) bool { return r.Client < 0 && r.Gen == d.Cl.Cur.Gen })
	// the writer (stale cache) writes again; let everything of the client run except the data writes at the new version
	d.StartWrite(0, 0, 40, 100)
	deliverWhere(d, func(r *vc.RPC) bool { return r.Client == 0 && !(r.Kind == vc.KWrite && r.Version == st.Version+1) })
	if lateAfterWriteAtD {
		deliverWhere(d, func(r *vc.RPC) bool { return r.Client == 0 && r.Kind == vc.KWrite && r.TS == spare })
	}
	// now the old leader's PullTract finally reaches the spare server
	deliverWhere(d, func(r *vc.RPC) bool { return r.Client < 0 && r.Kind == vc.KPullTract })
	d.Quiesce()
	d.CheckAllReplicas()
	d.StartRead(1, 0, 0, 200)
	d.Quiesce()
	c01Report(d, id)
	d.WriteTrace(tr)
	vw.Stat("directed", 1)
}

// c01DirectedCache: "writer cache filled before a repair", with a later lookup that only partly
// overlaps what is cached (a write across the tract 0/1 boundary when only tract 0 is cached): the
// refreshed locations of tract 0 must replace the cached ones, or a later read inside tract 0 is
// served by the replaced server, which is alive at the old version and never saw the new write.
func c01DirectedCache(root *vw.Rng, tr *vw.Trace, id string) {
	d := vc.NewDriver(root.Fork(7778), 4, []bool{true, false}, id)
	defer d.Cl.Close()
	d.Big = true
	d.NewBlob(3)
	d.Cl.S.SetAuto(false)
	tl := vc.TractLen
	d.StartWrite(0, 0, 0, 100)
	d.Quiesce()
	d.StartRead(0, 0, 0, 50)
	d.Quiesce()
	d.StartWrite(0, 0, tl+10, 50) // the blob grows by a tract
	d.Quiesce()
	st := d.Cl.D.Tract(d.TractID(0, 0))
	if !st.OK || len(st.Hosts) != 3 {
		return
	}
	d.StartReplicate(0, 0, []int{int(st.Hosts[2])})
	d.Quiesce()
	d.StartWrite(0, 0, tl-20, 50) // across the boundary: looks tracts 0..1 up, tract 0 alone is cached
	d.Quiesce()
	d.StartRead(0, 0, tl-20, 19) // inside tract 0
	d.Quiesce()
	d.StartRead(1, 0, tl-30, 60)
	d.Quiesce()
	d.CheckAllReplicas()
	c01Report(d, id)
	d.WriteTrace(tr)
	vw.Stat("directed", 1)
}

// c01DirectedCrashPull: "TS restart between bump and pull" sharpened to a crash in the middle of the
// pull (file created, version recorded, data not written), then the repair is retried at the same
// version onto the same server: the half-made copy must not be taken for a complete one.
func c01DirectedCrashPull(root *vw.Rng, tr *vw.Trace, id string) {
	d := vc.NewDriver(root.Fork(7779), 4, []bool{true, false}, id)
	defer d.Cl.Close()
	d.NewBlob(3)
	d.Cl.S.SetAuto(false)
	d.StartWrite(0, 0, 0, 100)
	d.Quiesce()
	st := d.Cl.D.Tract(d.TractID(0, 0))
	if !st.OK || len(st.Hosts) != 3 {
		return
	}
	bad := int(st.Hosts[2])
	d.StartReplicate(0, 0, []int{bad})
	deliverWhere(d, func(r *vc.RPC) bool { return r.Kind == vc.KSetVersion })
	for _, r := range d.Cl.S.Pending() {
		if r.Kind == vc.KPullTract && r.State == vc.StParked {
			d.StepCrashPull(r)
			break
		}
	}
	d.Quiesce()
	d.StartReplicate(0, 0, []int{bad})
	d.Quiesce()
	d.StartWrite(0, 0, 50, 100)
	d.Quiesce()
	d.CheckAllReplicas()
	d.StartRead(1, 0, 0, 200)
	d.Quiesce()
	c01Report(d, id)
	d.WriteTrace(tr)
	vw.Stat("directed", 1)
}

func TestVerifC01(t *testing.T) {
	if !vw.Enabled() {
		t.Skip("verification harness: run through /verif/bin/check")
	}
	flag.Set("stderrthreshold", "FATAL")
	logdir := filepath.Join(vw.OutDir(), "glog")
	os.MkdirAll(logdir, 0o755)
	flag.Set("log_dir", logdir)
	old := runtime.GOMAXPROCS(1)
	defer runtime.GOMAXPROCS(old)

	root := vw.NewRng(vw.Seed())
	tr := vw.OpenTrace("C01.trace")
	defer tr.Close()
	defer vw.Finish("C01")
	if os.Getenv("VERIF_CHUNK") != "" {
		goto random
	}
	if vw.CaseSelected("d0") {
		c01Directed(root, tr, "d0", false)
	}
	if vw.CaseSelected("d1") {
		c01Directed(root, tr, "d1", true)
	}
	if vw.CaseSelected("d2") {
		c01DirectedCache(root, tr, "d2")
	}
	if vw.CaseSelected("d3") {
		c01DirectedCrashPull(root, tr, "d3")
	}
random:
	n := vw.Scale(40, 1000)
	lo, hi := 0, n
	if c := os.Getenv("VERIF_CHUNK"); c != "" {
		// child process of a thorough run: one chunk of cases (goroutines of finished cases idle forever
		// and make every quiescence scan slower, so long runs are cut into processes)
		k, _ := strconv.Atoi(c)
		lo, hi = k*c01Chunk, (k+1)*c01Chunk
		if hi > n {
			hi = n
		}
	} else if vw.Thorough() && os.Getenv("VERIF_CASES") == "" {
		c01Parent(t, tr, n)
		return
	}
	for ci := lo; ci < hi; ci++ {
		if !vw.CaseSelected(fmt.Sprint(ci)) {
			continue
		}
		c01Case(t, root, ci, tr)
	}
}

const c01Chunk = 50

// c01Parent runs the random cases of a thorough run in child processes and merges their output.
func c01Parent(t *testing.T, tr *vw.Trace, n int) {
	for k := 0; k*c01Chunk < n; k++ {
		sub := filepath.Join(vw.OutDir(), fmt.Sprintf("chunk%d", k))
		os.MkdirAll(sub, 0o755)
		cmd := exec.Command(os.Args[0], "-test.run=TestVerifC01$", "-test.timeout=1800s")
		cmd.Env = append(os.Environ(), "VERIF_CHUNK="+fmt.Sprint(k), "VERIF_OUT="+sub)
		if out, err := cmd.CombinedOutput(); err != nil {
			t.Fatalf("chunk %d failed: %v\n%s", k, err, out)
		}
		// traces
		f, err := os.Open(filepath.Join(sub, "C01.trace"))
		if err != nil {
			t.Fatalf("chunk %d: %v", k, err)
		}
		sc := bufio.NewScanner(f)
		sc.Buffer(make([]byte, 1<<20), 1<<26)
		for sc.Scan() {
			line := sc.Text()
			if strings.HasPrefix(line, "# case ") {
				tr.Case(strings.Fields(line)[2])
				continue
			}
			if len(line) == 0 {
				continue
			}
			var xs []int64
			for _, w := range strings.Fields(line[1:]) {
				v, _ := strconv.ParseInt(w, 10, 64)
				xs = append(xs, v)
			}
			if line[0] == '>' {
				tr.Op(xs...)
			} else if line[0] == '<' {
				tr.Obs(xs...)
			}
		}
		f.Close()
		// results
		var res struct {
			Stats      map[string]int64 `json:"stats"`
			Samples    []string         `json:"samples"`
			Violations []vw.Violation   `json:"violations"`
		}
		if b, err := os.ReadFile(filepath.Join(sub, "C01.result.json")); err == nil && json.Unmarshal(b, &res) == nil {
			for k2, v := range res.Stats {
				if k2 != "directed" {
					vw.Stat(k2, v)
				}
			}
			for _, s := range res.Samples {
				vw.Sample(s)
			}
			for _, v := range res.Violations {
				vw.Report(v)
			}
		}
		if b, err := os.ReadFile(filepath.Join(sub, "distinct.txt")); err == nil {
			for _, fp := range strings.Fields(string(b)) {
				vw.Distinct(fp)
			}
		}
		os.RemoveAll(filepath.Join(sub, "glog"))
	}
}
