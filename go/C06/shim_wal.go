//go:build verif

// Injected into package wal by the C06 verification harness (go test -overlay); lives in /verif, never in /repo.
// It only exposes what the package's own tests reach in-package: the maxFileSize knob of fsLog.
package wal

// VerifSetMaxFileSize sets the roll threshold of an fsLog (what wal_test.go does with l.(*fsLog).maxFileSize = n).
// Returns false when l is not an fsLog.
func VerifSetMaxFileSize(l Log, n int64) bool {
	fl, ok := l.(*fsLog)
	if !ok {
		return false
	}
	fl.lock.Lock()
	fl.maxFileSize = n
	fl.lock.Unlock()
	return true
}

// VerifDefaultMaxFileSize is the compiled-in roll threshold.
const VerifDefaultMaxFileSize = defaultMaxFileSize
