//go:build verif

// C06 overlay test for pkg/wal (injected by /verif/bin/check with `go test -tags verif -overlay`).
// Modes 0 (fsLog, every crash point) and 1 (memLog). See pkg/verifc06 (go/C06/harness.go in /verif).
package wal_test

import (
	"fmt"
	"os"
	"testing"

	c06 "github.com/westerndigitalcorporation/blb/pkg/verifc06"
	vw "github.com/westerndigitalcorporation/blb/pkg/verifwire"
	"github.com/westerndigitalcorporation/blb/pkg/wal"
)

// TestVerifC06SyncChild is the child half of the system-call witness (run under strace by TestVerifC06).
func TestVerifC06SyncChild(t *testing.T) {
	dir := os.Getenv("VERIF_C06_SYNCDIR")
	if dir == "" {
		t.Skip("child of the sync witness")
	}
	c06.SyncWitnessChild(dir)
}

func TestVerifC06(t *testing.T) {
	if !vw.Enabled() {
		t.Skip("verification harness: run through /verif/bin/check")
	}
	base := c06.Scratch()
	defer os.RemoveAll(base)
	c06.QuietLogs(base)
	root := vw.NewRng(vw.Seed())
	tr := vw.OpenTrace("C06.trace")
	defer tr.Close()
	defer vw.Finish("C06")

	fix := c06.ProbeFixes(base)
	vw.Stat(fmt.Sprintf("tree.fix.drop=%v.ro=%v.guard=%v.tsync=%v", fix.Drop, fix.RO, fix.Guard, fix.TSync), 1)
	if !c06.HooksPresent() {
		t.Fatalf("pkg/verifhook call sites are missing from pkg/wal: apply /verif/hooks/wal-hooks.patch (hooks commit) first")
	}

	// do the hook markers of the sync sites really enclose an fsync system call?
	if avail, pairs, missing := c06.SyncWitness(base, "TestVerifC06SyncChild$"); !avail {
		vw.Stat("syncwitness.unavailable", 1)
	} else {
		vw.Stat("syncwitness.pairs", int64(pairs))
		vw.Stat("syncwitness.without-fsync", int64(len(missing)))
	}

	nsmall := vw.Scale(130, 2500)
	nmem := vw.Scale(25, 300)
	nbig := vw.Scale(1, 6)
	idx := uint64(0)
	run := func(kind string, cfg c06.Config, nops func(r *vw.Rng) int) {
		id := fmt.Sprintf("%s%d", kind, idx)
		rng := root.Fork(idx)
		idx++
		if !vw.CaseSelected(id) {
			return
		}
		if cfg.MaxSz == 0 {
			cfg.MaxSz = rng.PickI64(1, 17, 40, 64, 64, 100, 129, 200, 200, 512, 1000, wal.VerifDefaultMaxFileSize)
		}
		baseID := rng.PickI64(0, 1, 1, 1, 2, 7, 1000, 1<<32-2, 1<<40)
		r := c06.NewRunner(cfg, fix, base, id, rng, tr)
		r.Run(nops(rng), baseID)
		vw.Stat("cases."+kind, 1)
	}
	for i := 0; i < nsmall; i++ {
		run("f", c06.Config{Mode: 0, Wire: true, WireCrash: true}, func(r *vw.Rng) int { return r.Range(4, 18) })
	}
	for i := 0; i < nmem; i++ {
		run("m", c06.Config{Mode: 1, Wire: true}, func(r *vw.Rng) int { return r.Range(4, 25) })
	}
	for i := 0; i < nbig; i++ {
		// the real roll threshold with megabyte records; on the wire (model replay) only in the thorough tier
		run("b", c06.Config{Mode: 0, Big: true, MaxSz: wal.VerifDefaultMaxFileSize, Wire: vw.Thorough() && i == 0, WireCrash: false},
			func(r *vw.Rng) int { return r.Range(7, 10) })
	}
}
