//go:build verif

// Package verifc06 is the C06 (write-ahead log crash atomicity) verification harness. It is injected into the
// repository's module with `go test -overlay` (lives in /verif, never in /repo) and is shared by the overlay
// tests of pkg/wal (modes 0,1: fsLog with every crash point, memLog) and pkg/raft/raft (modes 2,3: walCache).
//
// It drives the REAL code: wal.OpenFSLog / Append / Truncate / Trim / GetIterator on a scratch directory, with the
// verifhook callback recording every file-system mutation and snapshotting the directory; every crash state
// (each prefix of the mutation sequence, with the last write cut at intermediate lengths) is materialised in a
// fresh directory, reopened with the real OpenFSLog and judged by the MONITOR (the property's sentence over the
// harness's own oracle of acknowledged records). The same ops and observations are written to the trace that the
// extracted Coq model replays.
package verifc06

import (
	"bufio"
	"bytes"
	"encoding/binary"
	"flag"
	"fmt"
	"hash/crc32"
	"os"
	"os/exec"
	"path/filepath"
	"runtime"
	"sort"
	"strings"
	"syscall"

	"github.com/westerndigitalcorporation/blb/pkg/verifhook"
	vw "github.com/westerndigitalcorporation/blb/pkg/verifwire"
	"github.com/westerndigitalcorporation/blb/pkg/wal"
)

const Prop = "C06"

// opcodes on the wire
const (
	OpInit     = 1
	OpAppend   = 2
	OpTruncate = 3
	OpTrim     = 4
	OpIter     = 5
	OpReopen   = 6
	OpCrash    = 7
)

// mutation kinds on the wire
const (
	MCreate   = 1
	MWrite    = 2
	MSync     = 3
	MTruncate = 4
	MUnlink   = 5
	MDirSync  = 6
	MRepair   = 7
)

var opName = map[int]string{OpInit: "init", OpAppend: "append", OpTruncate: "truncate", OpTrim: "trim", OpIter: "iter", OpReopen: "reopen"}

var castagnoli = crc32.MakeTable(crc32.Castagnoli)

type Rec struct {
	ID   int64
	Data []byte
}

type Mut struct{ Kind, Seq, A, B int64 }

// ---------------------------------------------------------------- hook collector

type snapshot map[string][]byte

type collector struct {
	dir   string
	muts  []Mut
	snap  bool
	cur   snapshot
	snaps []snapshot // snaps[i] = directory after i mutations (only when snap)
	pre   int64
}

var active *collector
var hooksSeen int

func init() {
	verifhook.Callback = func(site string, args ...interface{}) {
		hooksSeen++
		if c := active; c != nil {
			c.on(site, args)
		}
	}
}

func seqOf(base string) (int64, bool) {
	var s int64
	if _, err := fmt.Sscanf(base, "wal-%d.log", &s); err != nil {
		return 0, false
	}
	return s, true
}

func fileSize(p string) int64 {
	fi, err := os.Stat(p)
	if err != nil {
		return -1
	}
	return fi.Size()
}

func (c *collector) push(m Mut, base string, content []byte, del bool) {
	c.muts = append(c.muts, m)
	if !c.snap {
		return
	}
	n := c.cur
	if base != "" {
		n = make(snapshot, len(c.cur)+1)
		for k, v := range c.cur {
			n[k] = v
		}
		if del {
			delete(n, base)
		} else {
			n[base] = content
		}
	}
	c.cur = n
	c.snaps = append(c.snaps, n)
}

func (c *collector) on(site string, args []interface{}) {
	if len(args) == 0 {
		return
	}
	p, _ := args[0].(string)
	isDir := strings.HasPrefix(site, "wal.dirsync")
	if isDir {
		if filepath.Clean(p) != c.dir {
			return
		}
	} else if filepath.Dir(p) != c.dir {
		return
	}
	base := filepath.Base(p)
	seq, _ := seqOf(base)
	if strings.HasSuffix(site, ".before") {
		if site == "wal.write.before" {
			c.pre = fileSize(p)
		}
		return
	}
	if len(args) > 1 && args[1] != nil {
		return // the mutation failed: nothing happened to the file system
	}
	read := func() []byte {
		if !c.snap {
			return nil
		}
		b, err := os.ReadFile(p)
		if err != nil {
			panic(err)
		}
		return b
	}
	switch site {
	case "wal.create.after":
		c.push(Mut{MCreate, seq, 0, 0}, base, []byte{}, false)
	case "wal.write.after":
		now := fileSize(p)
		var last [4]byte
		if now >= 4 {
			f, err := os.Open(p)
			if err == nil {
				f.ReadAt(last[:], now-4)
				f.Close()
			}
		}
		c.push(Mut{MWrite, seq, now - c.pre, int64(binary.LittleEndian.Uint32(last[:]))}, base, read(), false)
	case "wal.sync.after":
		if noRealSync["wal.sync"] {
			return // the system-call witness saw no fsync between the hook markers of this site
		}
		c.push(Mut{MSync, seq, 0, 0}, "", nil, false)
	case "wal.truncate.after":
		c.push(Mut{MTruncate, seq, fileSize(p), 0}, base, read(), false)
	case "wal.repair.after":
		c.push(Mut{MRepair, seq, fileSize(p), 0}, base, read(), false)
	case "wal.unlink.after":
		c.push(Mut{MUnlink, seq, 0, 0}, base, nil, true)
	case "wal.dirsync.after":
		if noRealSync["wal.dirsync"] {
			return
		}
		c.push(Mut{MDirSync, 0, 0, 0}, "", nil, false)
	}
}

func readDir(dir string) snapshot {
	s := snapshot{}
	ents, err := os.ReadDir(dir)
	if err != nil {
		panic(err)
	}
	for _, e := range ents {
		b, err := os.ReadFile(filepath.Join(dir, e.Name()))
		if err != nil {
			panic(err)
		}
		s[e.Name()] = b
	}
	return s
}

func materialise(dir string, s snapshot) {
	ents, _ := os.ReadDir(dir)
	for _, e := range ents {
		os.Remove(filepath.Join(dir, e.Name()))
	}
	os.MkdirAll(dir, 0o700)
	for k, v := range s {
		if err := os.WriteFile(filepath.Join(dir, k), v, 0o600); err != nil {
			panic(err)
		}
	}
}

// ---------------------------------------------------------------- oracle (the harness's own list of acknowledged records)

type oracle struct {
	data   map[int64][]byte
	lo, hi int64 // the acknowledged, not removed records are exactly ids lo..hi (empty iff lo > hi)
}

type bounds struct{ loMay, loMust, hiMust, hiMay int64 }

func (o *oracle) empty() bool { return o.lo > o.hi }

func (o *oracle) quiescent() bounds { return bounds{o.lo, o.lo, o.hi, o.hi} }

func min64(a, b int64) int64 {
	if a < b {
		return a
	}
	return b
}
func max64(a, b int64) int64 {
	if a > b {
		return a
	}
	return b
}

// validBatch: would a correct log accept this batch?
func (o *oracle) validBatch(recs []Rec) bool {
	for i := range recs {
		if recs[i].ID != recs[0].ID+int64(i) {
			return false
		}
	}
	if len(recs) == 0 || o.empty() {
		return true
	}
	return recs[0].ID == o.hi+1
}

// ---------------------------------------------------------------- observations

type obsRec struct {
	ID   int64
	Len  int64
	Csum int64
	Data []byte
}

func recCsum(id int64, data []byte) int64 {
	var h [12]byte
	binary.LittleEndian.PutUint64(h[0:8], uint64(id))
	binary.LittleEndian.PutUint32(h[8:12], uint32(len(data)))
	c := crc32.Update(0, castagnoli, h[:])
	c = crc32.Update(c, castagnoli, data)
	return int64(c)
}

func iterate(l wal.Log, start int64) (int64, []obsRec) {
	it := l.GetIterator(uint64(start))
	var out []obsRec
	for it.Next() {
		r := it.Record()
		d := append([]byte(nil), r.Data...)
		out = append(out, obsRec{int64(r.ID), int64(len(d)), recCsum(int64(r.ID), d), d})
		if len(out) > 100000 {
			break
		}
	}
	e1 := it.Err()
	e2 := it.Close()
	if e1 != nil || e2 != nil {
		return 1, out
	}
	return 0, out
}

func query(l wal.Log) [4]int64 {
	f, fe := l.FirstID()
	la, le := l.LastID()
	b := func(x bool) int64 {
		if x {
			return 1
		}
		return 0
	}
	return [4]int64{int64(f), b(fe), int64(la), b(le)}
}

func appendRC(err error) int64 {
	switch {
	case err == nil:
		return 0
	case err == wal.ErrRecordDataTooBig:
		return 2
	case strings.HasPrefix(err.Error(), "Invalid Record ID") || strings.HasPrefix(err.Error(), "Invalid index"):
		return 1
	}
	return 3
}

func toRecords(recs []Rec) []wal.Record {
	out := make([]wal.Record, len(recs))
	for i, r := range recs {
		out[i] = wal.Record{ID: uint64(r.ID), Data: r.Data}
	}
	return out
}

func addMuts(l *vw.L, ms []Mut) {
	l.Add(int64(len(ms)))
	for _, m := range ms {
		l.Add(m.Kind, m.Seq, m.A, m.B)
	}
}

func addRecs(l *vw.L, rs []obsRec) {
	l.Add(int64(len(rs)))
	for _, r := range rs {
		l.Add(r.ID, r.Len, r.Csum)
	}
}

// ---------------------------------------------------------------- runner

type Config struct {
	Mode      int   // 0 fsLog, 1 memLog, 2 walCache over fsLog, 3 walCache over memLog
	MaxSz     int64 // roll threshold (fs modes)
	Cap       uint  // cache capacity (modes 2,3)
	Big       bool  // megabyte records at the real threshold
	Wire      bool  // write this case to the trace (model correspondence)
	WireCrash bool  // also write (a sample of) crash states to the trace
	Wrap      func(capacity uint, l wal.Log) wal.Log
}

type Fix struct{ Drop, RO, Guard, TSync bool }

type Runner struct {
	cfg     Config
	fix     Fix
	base    string
	dir     string
	twinDir string
	evalDir string
	log     wal.Log // the log under test (possibly the cache)
	twin    wal.Log // modes 2,3: the same kind of log without the cache
	tr      *vw.Trace
	or      oracle
	caseID  string
	rng     *vw.Rng
	dead    bool // an Append failed half-way: the log must be reopened before further use
	pend    int64 // number of records of the failed batch that may have reached the file
	durable  map[string][]byte // per file: content as of its last fsync (a created file starts empty)
	durNames map[string]bool   // directory entries as of the last directory sync
	clsTag   string            // appended to the state class in signatures
	observe  bool              // judge, but only count (power-loss states outside C06's crash quantifier)
	nviol   int
	seen    map[string]bool
	desc    strings.Builder
}

func (r *Runner) fs() bool { return r.cfg.Mode == 0 || r.cfg.Mode == 2 }

var reportedGlobal = map[string]int{}
var obsSampled = map[string]bool{}

func (r *Runner) report(sig, what string, detail map[string]interface{}) {
	if r.observe {
		vw.Stat("observation."+sig, 1)
		clause := strings.SplitN(strings.TrimPrefix(sig, "crash-"), "-", 2)[0]
		if !obsSampled[clause] {
			obsSampled[clause] = true
			vw.Sample(fmt.Sprintf("OBSERVATION (power loss with an un-synced ftruncate pending; outside C06's crash quantifier) %s case=%s: %s; state=%v; after ops: %s",
				sig, r.caseID, what, detail["files"], r.desc.String()))
		}
		return
	}
	if strings.HasPrefix(sig, "live-") || strings.HasPrefix(sig, "cache-") {
		r.nviol++ // the live log is off the rails: stop this case
	}
	vw.Stat("violation."+sig, 1)
	if r.seen == nil {
		r.seen = map[string]bool{}
	}
	if r.seen[sig] || reportedGlobal[sig] >= 3 {
		return // one report per case and signature, three per run and signature (all are counted in the stats)
	}
	r.seen[sig] = true
	reportedGlobal[sig]++
	vw.Report(vw.Violation{Property: Prop, Signature: sig, What: what, Case: r.caseID, Detail: detail})
}

// Scratch returns a fast scratch directory (tmpfs when available: fsync is then free).
func Scratch() string {
	base := os.TempDir()
	if fi, err := os.Stat("/dev/shm"); err == nil && fi.IsDir() {
		base = "/dev/shm"
	}
	d, err := os.MkdirTemp(base, "blbverif-c06-")
	if err != nil {
		panic(err)
	}
	return d
}

// QuietLogs keeps glog from flooding stderr (torn-tail repairs log at ERROR) and puts its files in dir.
func QuietLogs(dir string) {
	flag.Set("stderrthreshold", "FATAL")
	flag.Set("log_dir", dir)
}

func (r *Runner) openFS(dir string) (wal.Log, error) {
	l, err := wal.OpenFSLog(dir)
	if err != nil {
		return nil, err
	}
	wal.VerifSetMaxFileSize(l, r.cfg.MaxSz)
	return l, nil
}

// ProbeFixes determines which of the repairs for findings F1/F2 the tree under test contains, by running the
// real code on the three canonical witness states. The result only selects the model variant on the wire; the
// monitor never looks at it.
func ProbeFixes(base string) Fix {
	var fx Fix
	ser := func(id int64, data []byte) []byte {
		b := make([]byte, 16+len(data))
		binary.LittleEndian.PutUint64(b[0:8], uint64(id))
		binary.LittleEndian.PutUint32(b[8:12], uint32(len(data)))
		copy(b[12:], data)
		binary.LittleEndian.PutUint32(b[12+len(data):], uint32(recCsum(id, data)))
		return b
	}
	// F1: trailing empty file
	d1 := filepath.Join(base, "probe1")
	materialise(d1, snapshot{"wal-0000000000.log": ser(1, []byte("x")), "wal-0000000001.log": {}})
	if l, err := wal.OpenFSLog(d1); err == nil {
		if id, e := l.LastID(); !e && id == 1 {
			fx.Drop = true
		}
		l.Close()
	}
	// F2: torn first record
	d2 := filepath.Join(base, "probe2")
	materialise(d2, snapshot{"wal-0000000000.log": ser(1, []byte("x"))[:5]})
	if l, err := wal.OpenFSLog(d2); err == nil {
		fx.RO = true
		l.Close()
	}
	// F1 (no-crash form): an empty batch rolls the file
	d3 := filepath.Join(base, "probe3")
	materialise(d3, snapshot{})
	if l, err := wal.OpenFSLog(d3); err == nil {
		wal.VerifSetMaxFileSize(l, 1)
		l.Append(wal.Record{ID: 1, Data: []byte("x")})
		l.Append()
		if id, e := l.LastID(); !e && id == 1 {
			fx.Guard = true
		}
		l.Close()
	}
	// F25 (proposed): does logFile.Truncate fsync after its ftruncate? (decided from the hook trace of a Truncate
	// that cuts inside a file)
	d4 := filepath.Join(base, "probe4")
	materialise(d4, snapshot{})
	if l, err := wal.OpenFSLog(d4); err == nil {
		l.Append(wal.Record{ID: 1, Data: []byte("x")}, wal.Record{ID: 2, Data: []byte("y")}, wal.Record{ID: 3, Data: []byte("z")})
		c := &collector{dir: d4}
		active = c
		l.Truncate(1)
		active = nil
		for i, m := range c.muts {
			if m.Kind == MTruncate && i+1 < len(c.muts) && c.muts[i+1].Kind == MSync {
				fx.TSync = true
			}
		}
		l.Close()
	}
	os.RemoveAll(d1)
	os.RemoveAll(d2)
	os.RemoveAll(d3)
	os.RemoveAll(d4)
	return fx
}

func b2i(b bool) int64 {
	if b {
		return 1
	}
	return 0
}

// NewRunner prepares one case.
func NewRunner(cfg Config, fix Fix, base, caseID string, rng *vw.Rng, tr *vw.Trace) *Runner {
	r := &Runner{cfg: cfg, fix: fix, base: base, caseID: caseID, rng: rng, tr: tr}
	r.dir = filepath.Join(base, "live")
	r.twinDir = filepath.Join(base, "twin")
	r.evalDir = filepath.Join(base, "eval")
	for _, d := range []string{r.dir, r.twinDir, r.evalDir} {
		os.RemoveAll(d)
		os.MkdirAll(d, 0o700)
	}
	r.or = oracle{data: map[int64][]byte{}, lo: 1, hi: 0}
	return r
}

func (r *Runner) wire() bool { return r.cfg.Wire && r.tr != nil }

// withHooks runs f with a collector on the live directory.
func (r *Runner) withHooks(snap bool, f func()) *collector {
	c := &collector{dir: r.dir, snap: snap}
	if snap {
		c.cur = readDir(r.dir)
		c.snaps = []snapshot{c.cur}
	}
	active = c
	f()
	active = nil
	return c
}

func (r *Runner) wantSnaps() bool { return r.cfg.Mode == 0 }

// Init opens the log (op 1).
func (r *Runner) Init() bool {
	var err error
	var c *collector
	switch r.cfg.Mode {
	case 0, 2:
		c = r.withHooks(r.wantSnaps(), func() { r.log, err = r.openFS(r.dir) })
		if err != nil {
			r.report("live-open-fails-init", "OpenFSLog fails on an empty directory", map[string]interface{}{"err": err.Error()})
			return false
		}
		if r.cfg.Mode == 2 {
			r.twin, _ = r.openFS(r.twinDir)
			r.log = r.cfg.Wrap(r.cfg.Cap, r.log)
		}
	default:
		c = &collector{}
		r.log = wal.NewMemLog()
		if r.cfg.Mode == 3 {
			r.twin = wal.NewMemLog()
			r.log = r.cfg.Wrap(r.cfg.Cap, r.log)
		}
	}
	if r.wire() {
		r.tr.Case(r.caseID)
		r.tr.Op(OpInit, int64(r.cfg.Mode), r.cfg.MaxSz, int64(r.cfg.Cap), b2i(r.fix.Drop), b2i(r.fix.RO), b2i(r.fix.Guard), 1)
		var l vw.L
		l.Add(0)
		addMuts(&l, c.muts)
		q := query(r.log)
		l.Add(q[:]...)
		r.tr.Obs(l...)
	}
	r.crashStates(OpInit, c, r.or.quiescent())
	return true
}

func (r *Runner) Close() {
	if r.log != nil {
		r.log.Close()
		r.log = nil
	}
	if r.twin != nil {
		r.twin.Close()
		r.twin = nil
	}
}

func rleArgs(l *vw.L, data []byte) {
	l.Add(vw.RLE(data)...)
}

// checkLive: FirstID/LastID of the live log against the oracle (after a completed operation).
func (r *Runner) checkLive(op int, q [4]int64, detail string) {
	ok := true
	if r.or.empty() {
		ok = q[1] == 1 && q[3] == 1
	} else {
		ok = q[1] == 0 && q[3] == 0 && q[0] == r.or.lo && q[2] == r.or.hi
	}
	if !ok {
		r.report("live-firstlast-after-"+opName[op]+detail,
			"without any crash, FirstID/LastID disagree with the acknowledged records after "+opName[op],
			map[string]interface{}{"first,empty,last,empty": q, "oracle_lo": r.or.lo, "oracle_hi": r.or.hi})
	}
}

// twinCompare: cache transparency (modes 2,3).
func (r *Runner) twinCompare(op int, a, b []int64) {
	if len(a) != len(b) {
		r.report("cache-diff-"+opName[op], "walCache(log) and log give different observations", map[string]interface{}{"cache": a, "plain": b})
		return
	}
	for i := range a {
		if a[i] != b[i] {
			r.report("cache-diff-"+opName[op], "walCache(log) and log give different observations", map[string]interface{}{"cache": a, "plain": b})
			return
		}
	}
}

// Append (op 2). Returns the result class.
func (r *Runner) Append(recs []Rec) int64 {
	valid := r.or.validBatch(recs)
	tooBig := -1
	for i, x := range recs {
		if len(x.Data) > wal.MaxRecordDataLen {
			tooBig = i
			break
		}
	}
	// in-flight bounds
	b := r.or.quiescent()
	saveLo, saveHi := r.or.lo, r.or.hi
	baseLo, baseHi := saveLo, saveHi
	if valid && len(recs) > 0 {
		n := len(recs)
		if tooBig >= 0 {
			n = tooBig
		}
		if r.or.empty() {
			r.or.lo, r.or.hi = recs[0].ID, recs[0].ID-1
			b = r.or.quiescent()
		}
		baseLo, baseHi = r.or.lo, r.or.hi
		b.hiMay = r.or.hi + int64(n)
		for _, x := range recs[:n] {
			r.or.data[x.ID] = x.Data
		}
	}
	var err error
	c := r.withHooks(r.wantSnaps(), func() { err = r.log.Append(toRecords(recs)...) })
	rc := appendRC(err)
	if r.fs() && !valid && len(c.muts) > 0 {
		r.report("live-append-rejected-but-mutated", "a rejected Append changed the file system", map[string]interface{}{"muts": c.muts})
	}
	var l vw.L
	l.Add(rc)
	addMuts(&l, c.muts)
	q := query(r.log)
	l.Add(q[:]...)
	if r.wire() {
		var o vw.L
		o.Add(OpAppend, int64(len(recs)))
		for _, x := range recs {
			o.Add(x.ID)
			rleArgs(&o, x.Data)
		}
		r.tr.Op(o...)
		r.tr.Obs(l...)
	}
	if r.twin != nil {
		terr := r.twin.Append(toRecords(recs)...)
		tq := query(r.twin)
		r.twinCompare(OpAppend, append([]int64{rc}, q[:]...), append([]int64{appendRC(terr)}, tq[:]...))
	}
	r.crashStates(OpAppend, c, b)
	// verdict on the result itself
	switch {
	case valid && tooBig < 0:
		if rc != 0 {
			r.report("live-append-next-rejected", "Append of the next id (or of any id on an empty log) was refused",
				map[string]interface{}{"rc": rc, "first_id": firstID(recs), "oracle_hi": saveHi, "err": fmt.Sprint(err)})
			r.or.lo, r.or.hi = saveLo, saveHi
			r.dead = true
		} else if len(recs) > 0 {
			r.or.hi += int64(len(recs))
		}
		r.checkLive(OpAppend, q, emptyTag(recs))
		if len(recs) == 0 && r.nviol == 0 {
			r.liveIterCheck("-after-append-emptybatch")
		}
	case !valid:
		if rc == 0 {
			r.report("live-append-wrong-id-accepted", "without any crash, Append accepted a batch whose ids do not continue the log",
				map[string]interface{}{"first_id": firstID(recs), "oracle_lo": saveLo, "oracle_hi": saveHi})
			r.dead = true
		} else {
			r.checkLive(OpAppend, q, "-rejected")
		}
	default: // too big somewhere in a valid batch: a prefix may have been written unsynced; the log must be reopened
		if rc == 0 && r.fs() {
			r.report("live-append-toobig-accepted", "a record above MaxRecordDataLen was accepted", nil)
		}
		r.or.lo, r.or.hi = baseLo, baseHi
		r.pend = int64(tooBig)
		r.dead = true
		vw.Stat("append.toobig", 1)
		return rc
	}
	return rc
}

func emptyTag(recs []Rec) string {
	if len(recs) == 0 {
		return "-emptybatch"
	}
	return ""
}

func firstID(recs []Rec) int64 {
	if len(recs) == 0 {
		return -1
	}
	return recs[0].ID
}

// liveIterCheck: iteration from the first and from the last position must return the acknowledged records (monitor only).
func (r *Runner) liveIterCheck(tag string) {
	if r.or.empty() {
		return
	}
	for _, st := range []int64{r.or.lo, r.or.hi} {
		e, recs := iterate(r.log, st)
		if !r.checkIter("live-iter", tag, st, e, recs, r.or.lo, r.or.hi) {
			return
		}
	}
}

// Truncate (op 3).
func (r *Runner) Truncate(k int64) {
	b := r.or.quiescent()
	if !r.or.empty() {
		b.hiMust = min64(r.or.hi, k)
	}
	var err error
	c := r.withHooks(r.wantSnaps(), func() { err = r.log.Truncate(uint64(k)) })
	rc := b2i(err != nil)
	q := query(r.log)
	if r.wire() {
		r.tr.Op(OpTruncate, k)
		var l vw.L
		l.Add(rc)
		addMuts(&l, c.muts)
		l.Add(q[:]...)
		r.tr.Obs(l...)
	}
	if r.twin != nil {
		terr := r.twin.Truncate(uint64(k))
		tq := query(r.twin)
		r.twinCompare(OpTruncate, append([]int64{rc}, q[:]...), append([]int64{b2i(terr != nil)}, tq[:]...))
	}
	r.crashStates(OpTruncate, c, b)
	if err != nil {
		r.report("live-truncate-fails", "Truncate returned an error without any fault", map[string]interface{}{"err": err.Error(), "k": k})
		r.dead = true
		return
	}
	if !r.or.empty() && k < r.or.hi {
		old := r.or.hi
		r.or.hi = k
		if r.or.hi < r.or.lo {
			r.or.hi = r.or.lo - 1
		}
		for id := r.or.hi + 1; id <= old; id++ {
			delete(r.or.data, id)
		}
	}
	r.checkLive(OpTruncate, q, "")
}

// Trim (op 4).
func (r *Runner) Trim(k int64) {
	b := r.or.quiescent()
	if !r.or.empty() {
		b.loMust = max64(r.or.lo, min64(k+1, r.or.hi+1))
	}
	var err error
	c := r.withHooks(r.wantSnaps(), func() { err = r.log.Trim(uint64(k)) })
	rc := b2i(err != nil)
	q := query(r.log)
	if r.wire() {
		r.tr.Op(OpTrim, k)
		var l vw.L
		l.Add(rc)
		addMuts(&l, c.muts)
		l.Add(q[:]...)
		r.tr.Obs(l...)
	}
	if r.twin != nil {
		terr := r.twin.Trim(uint64(k))
		tq := query(r.twin)
		r.twinCompare(OpTrim, append([]int64{rc}, q[:]...), append([]int64{b2i(terr != nil)}, tq[:]...))
	}
	r.crashStates(OpTrim, c, b)
	if err != nil {
		r.report("live-trim-fails", "Trim returned an error without any fault", map[string]interface{}{"err": err.Error(), "k": k})
		r.dead = true
		return
	}
	// Trim is a hint: the implementation may discard fewer records. Adopt what it reports, within the bounds.
	if !r.or.empty() {
		if q[1] == 1 { // reports empty
			if b.loMust <= r.or.hi {
				r.report("live-trim-lost", "Trim discarded records above the hint", map[string]interface{}{"k": k, "oracle_hi": r.or.hi})
			}
			r.or.lo = r.or.hi + 1
		} else if q[0] < b.loMay || q[0] > b.loMust {
			r.report("live-trim-first-out-of-range", "after Trim the first id is outside [old first, hint+1]",
				map[string]interface{}{"k": k, "first": q[0], "old_first": b.loMay, "bound": b.loMust})
		} else {
			for id := r.or.lo; id < q[0]; id++ {
				delete(r.or.data, id)
			}
			r.or.lo = q[0]
		}
	}
	r.checkLive(OpTrim, q, "")
}

// Iter (op 5).
func (r *Runner) Iter(start int64) {
	e, recs := iterate(r.log, start)
	if r.wire() {
		r.tr.Op(OpIter, start)
		var l vw.L
		l.Add(e)
		addRecs(&l, recs)
		r.tr.Obs(l...)
	}
	if r.twin != nil {
		te, trecs := iterate(r.twin, start)
		var a, b vw.L
		a.Add(e)
		addRecs(&a, recs)
		b.Add(te)
		addRecs(&b, trecs)
		r.twinCompare(OpIter, a, b)
	}
	r.checkIter("live-iter", "", start, e, recs, r.or.lo, r.or.hi)
}

// checkIter: iteration from start must return exactly the records lo..hi with id >= start, with their bytes.
func (r *Runner) checkIter(sigp, sigs string, start, e int64, recs []obsRec, lo, hi int64) bool {
	from := max64(lo, start)
	want := int64(0)
	if hi >= from {
		want = hi - from + 1
	}
	bad := ""
	if e != 0 {
		bad = "error"
	} else if int64(len(recs)) != want {
		bad = "count"
	} else {
		for i, x := range recs {
			if x.ID != from+int64(i) {
				bad = "ids"
				break
			}
			if !bytes.Equal(x.Data, r.or.data[x.ID]) {
				bad = "bytes"
				break
			}
		}
	}
	if bad != "" {
		ids := []int64{}
		for i, x := range recs {
			if i < 12 {
				ids = append(ids, x.ID)
			}
		}
		r.report(sigp+"-"+bad+sigs, "iteration does not return exactly the stored records from the requested position",
			map[string]interface{}{"start": start, "err": e, "got_ids": ids, "got_n": len(recs), "want_from": from, "want_to": hi})
		return false
	}
	return true
}

// Reopen (op 6): Close + OpenFSLog on the live directory.
func (r *Runner) Reopen() bool {
	if !r.fs() {
		return true
	}
	r.log.Close()
	r.log = nil
	// after a half-failed Append the unsynced prefix may or may not be there
	b := r.or.quiescent()
	if r.dead {
		b.hiMay = r.or.hi + r.pend
	}
	var err error
	var inner wal.Log
	cls := classify(readDir(r.dir))
	c := r.withHooks(r.wantSnaps(), func() { inner, err = r.openFS(r.dir) })
	rc := b2i(err != nil)
	var q [4]int64
	if err == nil {
		r.log = inner
		if r.cfg.Mode == 2 {
			r.log = r.cfg.Wrap(r.cfg.Cap, inner)
		}
		q = query(r.log)
	}
	if r.wire() {
		r.tr.Op(OpReopen)
		var l vw.L
		l.Add(rc)
		addMuts(&l, c.muts)
		l.Add(q[:]...)
		r.tr.Obs(l...)
	}
	if r.twin != nil {
		r.twin.Close()
		r.twin, _ = r.openFS(r.twinDir)
	}
	if err != nil {
		r.report("live-open-fails-"+cls, "OpenFSLog fails after a clean Close", map[string]interface{}{"err": err.Error()})
		return false
	}
	r.crashStates(OpReopen, c, b)
	if r.dead {
		// adopt the surviving prefix of the failed batch
		if q[3] == 0 && q[2] >= b.hiMust && q[2] <= b.hiMay {
			r.or.hi = q[2]
			if r.or.empty() {
				r.or.lo = r.or.hi + 1
			}
		}
		r.dead = false
		r.pend = 0
		// the surviving prefix of the failed batch was adopted as part of the log: from here on it counts as
		// durable (a failed Append leaves the log outside the documented contract; see notes)
		r.markDurable()
	}
	r.checkLive(OpReopen, q, "-"+cls)
	if r.nviol == 0 {
		r.liveIterCheck("-after-reopen-" + cls)
	}
	return true
}

// ---------------------------------------------------------------- crash states

// classify names the shape of a crash state (used in violation signatures).
func classify(s snapshot) string {
	var names []string
	for k := range s {
		if _, ok := seqOf(k); ok {
			names = append(names, k)
		}
	}
	sort.Strings(names)
	if len(names) == 0 {
		return "nofiles"
	}
	last := s[names[len(names)-1]]
	multi := ""
	if len(names) > 1 {
		multi = "-multi"
	}
	if len(last) == 0 {
		if len(names) > 1 {
			return "trailing-empty"
		}
		return "single-empty"
	}
	// walk the records of the last file
	off := 0
	nrec := 0
	for off < len(last) {
		if len(last)-off < 12 {
			break
		}
		n := int(binary.LittleEndian.Uint32(last[off+8 : off+12]))
		if n > wal.MaxRecordDataLen || len(last)-off < 16+n {
			break
		}
		off += 16 + n
		nrec++
	}
	switch {
	case off == len(last):
		return "clean" + multi
	case nrec == 0:
		return "torn-first" + multi
	}
	return "torn-tail" + multi
}

func cutSet(n int64, all bool) []int64 {
	if n <= 1 {
		return nil
	}
	var out []int64
	if all || n <= 48 {
		for c := int64(1); c < n; c++ {
			out = append(out, c)
		}
		return out
	}
	seen := map[int64]bool{}
	for _, c := range []int64{1, 7, 8, 11, 12, 13, 12 + (n-16)/2, n - 5, n - 4, n - 3, n - 1} {
		if c > 0 && c < n && !seen[c] {
			seen[c] = true
			out = append(out, c)
		}
	}
	sort.Slice(out, func(i, j int) bool { return out[i] < out[j] })
	return out
}

// crashStates enumerates every crash state of one operation and judges the reopened log.
// ---- power loss: the write-back cache model of coq/theories/C06/CrashCache.v, adversarial minimum ----
// durable[f] = content of f as of its last fsync (empty for a created file); durNames = entries as of the last
// directory sync. The state "every listed file holds its durable content" is what survives a power loss in the worst
// case. With the code as it stands this state differs from the volatile one only while an operation is in flight
// (and then it equals a prefix-crash state that is judged anyway, theorem wal_powerloss), except after a
// logFile.Truncate, whose ftruncate is not followed by an fsync.

type plState struct {
	durable  map[string][]byte
	durNames map[string]bool
}

func (p plState) clone() plState {
	q := plState{map[string][]byte{}, map[string]bool{}}
	for k, v := range p.durable {
		q.durable[k] = v
	}
	for k, v := range p.durNames {
		q.durNames[k] = v
	}
	return q
}

func (p plState) apply(m Mut, after snapshot) {
	name := fmt.Sprintf("wal-%.10d.log", m.Seq)
	switch m.Kind {
	case MCreate:
		p.durable[name] = []byte{}
	case MSync:
		p.durable[name] = after[name]
	case MDirSync:
		for k := range p.durNames {
			delete(p.durNames, k)
		}
		for k := range after {
			if _, ok := seqOf(k); ok {
				p.durNames[k] = true
			}
		}
		for k := range p.durable {
			if !p.durNames[k] {
				delete(p.durable, k)
			}
		}
	}
}

// worst returns the power-loss state and how it differs from the volatile one:
// "" (equal), "unsynced" (only bytes beyond a synced prefix are missing), "undirsynced" (directory entries differ),
// "unsynced-ftruncate" (a file is longer than, or not a prefix of, its volatile content: an un-synced truncation).
func (p plState) worst(vol snapshot) (snapshot, string) {
	s := snapshot{}
	kind := ""
	for k, v := range vol {
		if _, ok := seqOf(k); !ok {
			s[k] = v // not a log file
		}
	}
	for name := range p.durNames {
		s[name] = p.durable[name]
	}
	for name, content := range vol {
		if _, ok := seqOf(name); !ok {
			continue
		}
		d, listed := s[name]
		switch {
		case !listed:
			if kind == "" || kind == "unsynced" {
				kind = "undirsynced"
			}
		case len(d) <= len(content) && bytes.Equal(d, content[:len(d)]):
			if len(d) < len(content) && kind == "" {
				kind = "unsynced"
			}
		default:
			kind = "unsynced-ftruncate"
		}
	}
	for name := range p.durNames {
		if _, ok := vol[name]; !ok && kind != "unsynced-ftruncate" {
			kind = "undirsynced"
		}
	}
	return s, kind
}

func (r *Runner) plInit() {
	if r.durable == nil {
		r.durable = map[string][]byte{}
		r.durNames = map[string]bool{}
	}
}

// markDurable: everything on disk now counts as durable (used after the failed-Append path, see Reopen).
func (r *Runner) markDurable() {
	r.durable = map[string][]byte{}
	r.durNames = map[string]bool{}
	for name, content := range readDir(r.dir) {
		if _, ok := seqOf(name); ok {
			r.durable[name] = content
			r.durNames[name] = true
		}
	}
}

// powerLossStates: if the cache is dirty when the operation starts (something an earlier, acknowledged operation
// did is not durable), every crash point of this operation is also judged in its worst power-loss state.
//   - missing un-synced bytes ("every prefix of the last unsynced write") and missing/extra directory entries are
//     reported like any crash state (classes -unsynced, -undirsynced): they can only arise if an fsync or a
//     directory sync was dropped;
//   - an un-synced ftruncate (finding F25, repaired in 09d27e0 by an fsync after the ftruncate) is reported the same
//     way (class -unsynced-ftruncate): removed records reappear, possibly in the middle of the log.
func (r *Runner) powerLossStates(op int, c *collector, b bounds) {
	r.plInit()
	cur := plState{r.durable, r.durNames}.clone()
	_, kind0 := cur.worst(c.snaps[0])
	for j := 0; j <= len(c.muts); j++ {
		if j > 0 {
			cur.apply(c.muts[j-1], c.snaps[j])
		}
		if kind0 == "" {
			continue
		}
		s, kind := cur.worst(c.snaps[j])
		if kind == "" {
			continue
		}
		r.clsTag = "-" + kind
		r.evalCrash(op, c, j, -1, s, b, false)
		r.clsTag = ""
		vw.Stat("powerloss.states."+kind, 1)
	}
	r.durable, r.durNames = cur.durable, cur.durNames
}

func (r *Runner) crashStates(op int, c *collector, b bounds) {
	if !c.snap {
		return
	}
	defer r.powerLossStates(op, c, b)
	vw.Stat("crash.ops", 1)
	n := len(c.muts)
	for j := 0; j <= n; j++ {
		// state after j complete mutations
		onWire := r.cfg.WireCrash
		if j == n && op != OpInit && op != OpReopen {
			onWire = false // same file-system state as the next operation's j = 0
		}
		if j > 0 && (c.muts[j-1].Kind == MSync || c.muts[j-1].Kind == MDirSync) {
			// syncs do not change the prefix-crash state: evaluated once (monitor), not repeated on the wire
			onWire = false
		}
		r.evalCrash(op, c, j, -1, c.snaps[j], b, onWire)
		if j < n && c.muts[j].Kind == MWrite {
			m := c.muts[j]
			base := fmt.Sprintf("wal-%.10d.log", m.Seq)
			after := c.snaps[j+1][base]
			oldLen := int64(len(after)) - m.A
			cuts := cutSet(m.A, false)
			pick := map[int64]bool{}
			if r.cfg.WireCrash && len(cuts) > 0 {
				for t := 0; t < 2; t++ {
					pick[cuts[r.rng.Intn(len(cuts))]] = true
				}
			}
			for _, cut := range cuts {
				s := make(snapshot, len(c.snaps[j]))
				for k, v := range c.snaps[j] {
					s[k] = v
				}
				s[base] = after[:oldLen+cut]
				r.evalCrash(op, c, j, cut, s, b, pick[cut])
			}
		}
	}
}

func (r *Runner) evalCrash(op int, c *collector, j int, cut int64, s snapshot, b bounds, onWire bool) {
	vw.Stat("crash.states", 1)
	cls := classify(s) + r.clsTag
	vw.Stat("crash.class."+cls, 1)
	tag := cls + "-in-" + opName[op]
	materialise(r.evalDir, s)
	ec := &collector{dir: r.evalDir}
	active = ec
	l, err := r.openFS(r.evalDir)
	active = nil
	detail := func(extra map[string]interface{}) map[string]interface{} {
		d := map[string]interface{}{"op": opName[op], "after_mutations": j, "cut": cut, "mutations": fmt.Sprint(c.muts),
			"state_class": cls, "bounds(loMay,loMust,hiMust,hiMay)": []int64{b.loMay, b.loMust, b.hiMust, b.hiMay}, "files": describe(s)}
		for k, v := range extra {
			d[k] = v
		}
		return d
	}
	var line vw.L
	if err != nil {
		r.report("crash-open-fails-"+tag, "after a crash, OpenFSLog fails: the log cannot be reopened",
			detail(map[string]interface{}{"err": err.Error()}))
		if onWire && r.wire() {
			r.tr.Op(OpCrash, int64(j), cut)
			line.Add(1)
			addMuts(&line, ec.muts)
			r.tr.Obs(line...)
		}
		return
	}
	q := query(l)
	e, recs := iterate(l, 0)
	line.Add(0)
	addMuts(&line, ec.muts)
	line.Add(q[:]...)
	line.Add(e)
	addRecs(&line, recs)

	// ---- monitor: the property's sentence
	ok := true
	if e != 0 {
		r.report("crash-iter-error-"+tag, "after a crash, iteration over the reopened log fails", detail(nil))
		ok = false
	}
	for i := range recs {
		if i > 0 && recs[i].ID != recs[i-1].ID+1 {
			r.report("crash-gap-"+tag, "after a crash, the reopened log is not a gap-free run of records",
				detail(map[string]interface{}{"at": recs[i].ID, "prev": recs[i-1].ID}))
			ok = false
			break
		}
	}
	if ok {
		if len(recs) == 0 {
			if b.loMust <= b.hiMust {
				r.report("crash-lost-acked-"+tag, "after a crash, acknowledged records are missing from the reopened log",
					detail(map[string]interface{}{"got": "nothing"}))
				ok = false
			}
		} else {
			a, z := recs[0].ID, recs[len(recs)-1].ID
			switch {
			case a > b.loMust || z < b.hiMust:
				r.report("crash-lost-acked-"+tag, "after a crash, acknowledged records are missing from the reopened log",
					detail(map[string]interface{}{"got_first": a, "got_last": z}))
				ok = false
			case a < b.loMay || z > b.hiMay:
				r.report("crash-extra-"+tag, "after a crash, the reopened log holds records that were removed or never appended",
					detail(map[string]interface{}{"got_first": a, "got_last": z}))
				ok = false
			}
		}
	}
	if ok {
		for _, x := range recs {
			if !bytes.Equal(x.Data, r.or.data[x.ID]) {
				r.report("crash-bytes-"+tag, "after a crash, a record is returned with bytes other than those appended",
					detail(map[string]interface{}{"id": x.ID}))
				ok = false
				break
			}
		}
	}
	if ok {
		// FirstID / LastID agree with iteration
		good := false
		if len(recs) == 0 {
			good = q[1] == 1 && q[3] == 1
		} else {
			good = q[1] == 0 && q[3] == 0 && q[0] == recs[0].ID && q[2] == recs[len(recs)-1].ID
		}
		if !good {
			r.report("crash-firstlast-"+tag, "after a crash, FirstID/LastID of the reopened log disagree with what iteration returns",
				detail(map[string]interface{}{"first,empty,last,empty": q, "iterated": len(recs), "iter_first": firstOf(recs), "iter_last": lastOf(recs)}))
			ok = false
		}
	}
	if ok && len(recs) > 0 {
		// iteration from other positions
		a, z := recs[0].ID, recs[len(recs)-1].ID
		for _, st := range []int64{a + 1, (a + z) / 2, z - 1, z, z + 1} {
			if st < a || st < 0 {
				continue
			}
			e2, r2 := iterate(l, st)
			if !r.checkIter("crash-iter-start", "-"+tag, st, e2, r2, a, z) {
				ok = false
				break
			}
		}
	}
	// append probes: only the next id may be appended
	var cur int64
	have := len(recs) > 0
	if have {
		cur = recs[len(recs)-1].ID
	}
	probeBase := q[2]
	var accepted []int64
	for _, id := range []int64{probeBase, probeBase + 2, probeBase + 1} {
		perr := l.Append(wal.Record{ID: uint64(id), Data: []byte{0xA5}})
		acc := perr == nil
		accepted = append(accepted, b2i(acc))
		want := !have || id == cur+1
		if ok && acc != want {
			r.report("crash-append-probe-"+tag, "after a crash, the reopened log does not accept exactly the next id",
				detail(map[string]interface{}{"probe_id": id, "accepted": acc, "last_iterated": cur, "log_nonempty": have}))
			ok = false
		}
		if acc {
			have, cur = true, id
		}
	}
	line.Add(accepted...)
	l.Close()
	if ok {
		// recovery must leave a sound log behind: reopen once more (after the probe appends) and compare
		want := append([]obsRec(nil), recs...)
		for i, id := range []int64{probeBase, probeBase + 2, probeBase + 1} {
			if accepted[i] == 1 {
				want = append(want, obsRec{ID: id, Data: []byte{0xA5}})
			}
		}
		l2, err2 := r.openFS(r.evalDir)
		if err2 != nil {
			r.report("crash-second-reopen-fails-"+tag, "after crash recovery and further appends, the log cannot be reopened again",
				detail(map[string]interface{}{"err": err2.Error()}))
		} else {
			e2, r2 := iterate(l2, 0)
			same := e2 == 0 && len(r2) == len(want)
			for i := 0; same && i < len(want); i++ {
				same = r2[i].ID == want[i].ID && bytes.Equal(r2[i].Data, want[i].Data)
			}
			if !same {
				r.report("crash-second-reopen-differs-"+tag, "after crash recovery and further appends, a second reopen does not return the same records",
					detail(map[string]interface{}{"err": e2, "got": len(r2), "want": len(want)}))
			}
			l2.Close()
		}
	}
	if onWire && r.wire() {
		r.tr.Op(OpCrash, int64(j), cut)
		r.tr.Obs(line...)
		vw.Stat("crash.onwire", 1)
	}
}

func firstOf(rs []obsRec) int64 {
	if len(rs) == 0 {
		return -1
	}
	return rs[0].ID
}
func lastOf(rs []obsRec) int64 {
	if len(rs) == 0 {
		return -1
	}
	return rs[len(rs)-1].ID
}

func describe(s snapshot) string {
	var names []string
	for k := range s {
		names = append(names, k)
	}
	sort.Strings(names)
	var sb strings.Builder
	for _, k := range names {
		fmt.Fprintf(&sb, "%s:%dB ", k, len(s[k]))
	}
	return sb.String()
}

// ---------------------------------------------------------------- generator

func genData(rng *vw.Rng, n int) []byte {
	d := make([]byte, n)
	if n <= 40 {
		vw.Fill(d, rng.U64(), 0)
		return d
	}
	// a few constant runs (cheap on the wire), distinct per record
	runs := rng.Range(1, 4)
	pos := 0
	for i := 0; i < runs && pos < n; i++ {
		end := n
		if i < runs-1 {
			end = pos + rng.Range(1, n-pos)
		}
		v := byte(rng.Intn(256))
		for ; pos < end; pos++ {
			d[pos] = v
		}
	}
	return d
}

func (r *Runner) pickSize() int {
	rng := r.rng
	if r.cfg.Big {
		return rng.PickInt(wal.MaxRecordDataLen, wal.MaxRecordDataLen, wal.MaxRecordDataLen-16, 700000, 1<<19, 100, 0)
	}
	m := int(r.cfg.MaxSz)
	switch rng.Intn(10) {
	case 0:
		return 0
	case 1:
		return 1
	case 2:
		return rng.PickInt(100, 112, 113, 114, 130)
	case 3:
		// land exactly around the roll threshold with one record
		if m > 20 && m < 3000 {
			return max(0, m-16+rng.Range(-2, 1))
		}
		return rng.Range(0, 30)
	case 4:
		if m < 3000 {
			return rng.Range(0, m+20)
		}
		return rng.Range(0, 300)
	default:
		return rng.Range(0, 24)
	}
}

func max(a, b int) int {
	if a > b {
		return a
	}
	return b
}

// Run executes one generated case. nops = number of operations after Init.
func (r *Runner) Run(nops int, baseID int64) {
	// a panic inside the code under test is an observation about that code, not a harness failure
	defer func() {
		if p := recover(); p != nil {
			active = nil
			r.report("live-panic", "the log implementation panicked while executing an operation sequence without any fault",
				map[string]interface{}{"panic": fmt.Sprint(p), "ops": r.desc.String()})
		}
	}()
	r.run(nops, baseID)
}

func (r *Runner) safeClose() {
	defer func() { recover() }()
	r.Close()
}

func (r *Runner) run(nops int, baseID int64) {
	rng := r.rng
	if !r.Init() {
		return
	}
	defer r.safeClose()
	next := func() int64 {
		if r.or.empty() {
			return baseID
		}
		return r.or.hi + 1
	}
	for i := 0; i < nops && r.nviol == 0; i++ {
		if r.dead {
			if !r.fs() {
				return
			}
			if !r.Reopen() {
				return
			}
			continue
		}
		k := rng.Intn(100)
		switch {
		case k < 50: // append
			n := rng.PickInt(1, 1, 1, 2, 2, 3, 4)
			if rng.Chance(1, 25) {
				n = 0
			}
			start := next()
			if r.or.empty() && rng.Chance(1, 3) {
				start = baseID + int64(rng.Intn(5))
			}
			bad := rng.Chance(1, 8)
			if bad && !r.or.empty() {
				start = rng.PickI64(r.or.hi, r.or.hi+2, r.or.lo, 0, r.or.hi+1+int64(rng.Range(2, 9)))
				if start < 0 {
					start = 0
				}
			}
			var recs []Rec
			for t := 0; t < n; t++ {
				recs = append(recs, Rec{start + int64(t), genData(rng, r.pickSize())})
			}
			if r.cfg.Mode == 0 && n >= 2 && rng.Chance(1, 12) {
				recs[n-1].ID += int64(rng.Range(1, 3)) // hole inside the batch
			}
			if (r.cfg.Mode == 0 || r.cfg.Mode == 2) && n >= 1 && rng.Chance(1, 60) {
				recs[rng.Intn(n)].Data = make([]byte, wal.MaxRecordDataLen+1) // too big
			}
			vw.Stat("op.append", 1)
			fmt.Fprintf(&r.desc, "Append(")
			for _, x := range recs {
				fmt.Fprintf(&r.desc, "%d:%dB ", x.ID, len(x.Data))
			}
			fmt.Fprintf(&r.desc, ") ")
			vw.Stat(fmt.Sprintf("append.batch.%d", len(recs)), 1)
			r.Append(recs)
		case k < 62:
			var t int64
			if r.or.empty() {
				t = int64(rng.Intn(10))
			} else {
				t = rng.PickI64(r.or.lo-1, r.or.lo, r.or.lo+int64(rng.Intn(int(r.or.hi-r.or.lo)+1)), r.or.hi-1, r.or.hi, r.or.hi+1, r.or.hi+5)
			}
			if t < 0 {
				t = 0
			}
			vw.Stat("op.truncate", 1)
			fmt.Fprintf(&r.desc, "Truncate(%d) ", t)
			r.Truncate(t)
		case k < 74:
			var t int64
			if r.or.empty() {
				t = int64(rng.Intn(10))
			} else {
				t = rng.PickI64(r.or.lo-1, r.or.lo, r.or.lo+int64(rng.Intn(int(r.or.hi-r.or.lo)+1)), r.or.hi-1, r.or.hi, r.or.hi+1, r.or.hi+5)
			}
			if t < 0 {
				t = 0
			}
			vw.Stat("op.trim", 1)
			fmt.Fprintf(&r.desc, "Trim(%d) ", t)
			r.Trim(t)
		case k < 92:
			var s int64
			if r.or.empty() {
				s = int64(rng.Intn(4))
			} else {
				s = rng.PickI64(0, r.or.lo-1, r.or.lo, r.or.lo+int64(rng.Intn(int(r.or.hi-r.or.lo)+1)), r.or.hi, r.or.hi+1, r.or.hi+3)
			}
			if s < 0 {
				s = 0
			}
			vw.Stat("op.iter", 1)
			fmt.Fprintf(&r.desc, "Iter(%d) ", s)
			r.Iter(s)
		default:
			if r.fs() {
				vw.Stat("op.reopen", 1)
				fmt.Fprintf(&r.desc, "Reopen ")
				if !r.Reopen() {
					return
				}
			}
		}
	}
	if r.nviol == 0 && r.log != nil {
		if r.fs() {
			if !r.Reopen() {
				return
			}
		}
		r.Iter(0)
	}
	vw.Distinct(fmt.Sprintf("%d/%d/%d/%d/%d", r.cfg.Mode, r.cfg.MaxSz, r.or.lo, r.or.hi, nops))
	vw.Sample(fmt.Sprintf("case %s mode=%d maxFileSize=%d cap=%d: %s", r.caseID, r.cfg.Mode, r.cfg.MaxSz, r.cfg.Cap, r.desc.String()))
}

// HooksPresent reports whether any verifhook call site fired so far (they are required for crash points).
func HooksPresent() bool { return hooksSeen > 0 }

// ---------------------------------------------------------------- system-call witness for the sync sites

// noRealSync[site] is set when the witness found hook markers of a sync site without an fsync system call between
// them: the hook lines are still there but the call is gone. The collector then ignores the site's hook events, so
// that the missing sync shows up as a trace difference AND as lost acknowledged records in the power-loss states.
var noRealSync = map[string]bool{}

// SyncWitnessChild runs in a child process under strace: a short log session whose hook callback writes a marker
// (one write system call) before and after every fsync / directory-sync site.
func SyncWitnessChild(dir string) {
	runtime.LockOSThread()
	mk, err := syscall.Open(filepath.Join(dir, "markers"), syscall.O_WRONLY|syscall.O_CREAT|syscall.O_APPEND, 0o600)
	if err != nil {
		panic(err)
	}
	verifhook.Callback = func(site string, args ...interface{}) {
		switch site {
		case "wal.sync.before", "wal.sync.after", "wal.dirsync.before", "wal.dirsync.after":
			syscall.Write(mk, []byte("VERIFMARK "+site+"\n"))
		}
	}
	logdir := filepath.Join(dir, "log")
	os.MkdirAll(logdir, 0o700)
	QuietLogs(dir)
	l, err := wal.OpenFSLog(logdir)
	if err != nil {
		panic(err)
	}
	wal.VerifSetMaxFileSize(l, 64)
	id := uint64(1)
	for i := 0; i < 4; i++ {
		l.Append(wal.Record{ID: id, Data: make([]byte, 40)}, wal.Record{ID: id + 1, Data: []byte("x")})
		id += 2
	}
	l.Trim(4)
	l.Truncate(6)
	l.Close()
	syscall.Close(mk)
}

// SyncWitness runs the child under strace and checks that every marker pair of a sync site encloses an fsync (or
// fdatasync) system call of the same thread. Returns available=false when strace cannot be used.
func SyncWitness(base, childTest string) (available bool, pairs int, missing []string) {
	strace, err := exec.LookPath("strace")
	if err != nil {
		return false, 0, nil
	}
	dir := filepath.Join(base, "witness")
	os.MkdirAll(dir, 0o700)
	out := filepath.Join(dir, "strace.out")
	cmd := exec.Command(strace, "-f", "-qq", "-s", "64", "-e", "trace=fsync,fdatasync,write", "-o", out,
		os.Args[0], "-test.run", childTest)
	cmd.Env = append(os.Environ(), "VERIF_C06_SYNCDIR="+dir)
	if err := cmd.Run(); err != nil {
		return false, 0, nil
	}
	f, err := os.Open(out)
	if err != nil {
		return false, 0, nil
	}
	defer f.Close()
	open := map[string]string{} // pid -> site whose "before" marker was seen
	seen := map[string]bool{}
	sc := bufio.NewScanner(f)
	sc.Buffer(make([]byte, 1<<20), 1<<20)
	for sc.Scan() {
		line := sc.Text()
		fields := strings.Fields(line)
		if len(fields) < 2 {
			continue
		}
		pid := fields[0]
		switch {
		case strings.Contains(line, "VERIFMARK wal."):
			i := strings.Index(line, "VERIFMARK ") + len("VERIFMARK ")
			rest := line[i:]
			j := strings.IndexAny(rest, "\\\"")
			if j > 0 {
				rest = rest[:j]
			}
			site := strings.TrimSuffix(strings.TrimSuffix(rest, ".before"), ".after")
			if strings.HasSuffix(rest, ".before") {
				open[pid], seen[pid] = site, false
			} else if strings.HasSuffix(rest, ".after") && open[pid] == site {
				pairs++
				if !seen[pid] {
					missing = append(missing, site)
				}
				delete(open, pid)
			}
		case strings.Contains(line, "fsync(") || strings.Contains(line, "fdatasync(") || strings.Contains(line, "sync resumed"):
			seen[pid] = true
		}
	}
	if pairs == 0 {
		return false, 0, nil // no markers at all: the witness did not work, fall back to trusting the hooks
	}
	for _, site := range missing {
		noRealSync[site] = true
	}
	return true, pairs, missing
}
