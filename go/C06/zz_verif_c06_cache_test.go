//go:build verif

// C06 overlay test for pkg/raft/raft (injected by /verif/bin/check): walCache transparency.
// Modes 2 (walCache over fsLog) and 3 (walCache over memLog), each run next to the same log without the cache.
package raft

import (
	"bytes"
	"fmt"
	"hash/crc32"
	"os"
	"testing"

	c06 "github.com/westerndigitalcorporation/blb/pkg/verifc06"
	vw "github.com/westerndigitalcorporation/blb/pkg/verifwire"
	"github.com/westerndigitalcorporation/blb/pkg/wal"
)

func TestVerifC06Cache(t *testing.T) {
	if !vw.Enabled() {
		t.Skip("verification harness: run through /verif/bin/check")
	}
	base := c06.Scratch()
	defer os.RemoveAll(base)
	c06.QuietLogs(base)
	root := vw.NewRng(vw.Seed() ^ 0xC06CAC4E)
	tr := vw.OpenTrace("C06cache.trace")
	defer tr.Close()
	defer vw.Finish("C06cache")
	fix := c06.ProbeFixes(base)
	wrap := func(capacity uint, l wal.Log) wal.Log { return newWALCache(capacity, l) }

	n := vw.Scale(120, 3000)
	for i := 0; i < n; i++ {
		id := fmt.Sprintf("c%d", i)
		rng := root.Fork(uint64(i))
		if !vw.CaseSelected(id) {
			continue
		}
		cfg := c06.Config{Mode: 2 + i%2, Wire: true, Wrap: wrap}
		cfg.Cap = uint(rng.PickInt(1, 1, 2, 3, 4, 5, 8, 16, 100))
		cfg.MaxSz = rng.PickI64(1, 40, 64, 100, 200, 512, wal.VerifDefaultMaxFileSize)
		baseID := rng.PickI64(0, 0, 1, 1, 2, 7, 1000)
		r := c06.NewRunner(cfg, fix, base, id, rng, tr)
		r.Run(rng.Range(5, 30), baseID)
		vw.Stat(fmt.Sprintf("cases.cache.mode%d", cfg.Mode), 1)
	}
	verifEntryCodec(root, tr)
}

var c06Castagnoli = crc32.MakeTable(crc32.Castagnoli)

func c06EntryObs(e Entry, err error) []int64 {
	rc := int64(0)
	switch err {
	case nil:
	case errBadEntryFormat:
		rc = 1
	case errCorruptedEntry:
		rc = 2
	default:
		rc = 3
	}
	return []int64{rc, int64(e.Type), int64(e.Term >> 32), int64(e.Term & 0xffffffff), int64(len(e.Cmd)),
		int64(crc32.Checksum(e.Cmd, c06Castagnoli))}
}

// verifEntryCodec: raft/log.go serializeEntry / deserializeEntry against the model (ops 8 and 9) and the
// round-trip monitor.
func verifEntryCodec(root *vw.Rng, tr *vw.Trace) {
	n := vw.Scale(40, 2000)
	terms := []uint64{0, 1, 127, 128, 129, 16383, 16384, 1<<21 - 1, 1 << 21, 1<<28 - 1, 1 << 35, 1<<56 - 1, 1 << 56, 1<<63 - 1, 1 << 63, 1<<64 - 1}
	for i := 0; i < n; i++ {
		id := fmt.Sprintf("e%d", i)
		rng := root.Fork(uint64(1000000 + i))
		if !vw.CaseSelected(id) {
			continue
		}
		tr.Case(id)
		for k := 0; k < 12; k++ {
			term := terms[rng.Intn(len(terms))]
			if rng.Chance(1, 3) {
				term = rng.U64() >> uint(rng.Intn(64))
			}
			ty := uint8(rng.Intn(256))
			cmd := make([]byte, rng.PickInt(0, 0, 1, 2, 5, 17, 100))
			vw.Fill(cmd, rng.U64(), 0)
			e := Entry{Type: ty, Term: term, Cmd: cmd}
			b, serr := serializeEntry(e)
			if serr != nil {
				vw.Report(vw.Violation{Property: "C06", Signature: "entry-serialize-error", What: "serializeEntry returned an error", Case: id})
				continue
			}
			e2, derr := deserializeEntry(b)
			var o vw.L
			o.Add(8, int64(ty), int64(term>>32), int64(term&0xffffffff))
			o.Add(vw.RLE(cmd)...)
			tr.Op(o...)
			var l vw.L
			l.Add(int64(len(b)), int64(crc32.Checksum(b, c06Castagnoli)))
			l.Add(c06EntryObs(e2, derr)...)
			tr.Obs(l...)
			if derr != nil || e2.Type != ty || e2.Term != term || !bytes.Equal(e2.Cmd, cmd) {
				vw.Report(vw.Violation{Property: "C06", Signature: "entry-roundtrip", What: "deserializeEntry(serializeEntry(e)) differs from e",
					Case: id, Detail: map[string]interface{}{"type": ty, "term": term, "cmdlen": len(cmd)}})
			}
			vw.Stat("entry.roundtrip", 1)
			// damaged encodings: decoding must agree with the model (error class, never a panic)
			m := append([]byte(nil), b...)
			switch rng.Intn(5) {
			case 0:
				m[0] = byte(rng.Intn(256))
			case 1:
				m = m[:2+rng.Intn(len(m)-1)] // cut, possibly inside the varint
			case 2:
				m = append([]byte{0x80, ty}, bytes.Repeat([]byte{0xff}, rng.Range(8, 11))...)
				m = append(m, byte(rng.PickInt(0, 1, 2, 0x7f)))
				m = append(m, cmd...)
			case 3:
				if len(m) > 2 {
					m[2+rng.Intn(len(m)-2)] ^= byte(1 << uint(rng.Intn(8)))
				}
			}
			if m[0] == 0x80 && len(m) < 2 {
				m = append(m, ty)
			}
			e3, err3 := deserializeEntry(m)
			var o9 vw.L
			o9.Add(9)
			o9.Add(vw.RLE(m)...)
			tr.Op(o9...)
			tr.Obs(c06EntryObs(e3, err3)...)
			vw.Stat("entry.decode", 1)
		}
		vw.Stat("cases.entry", 1)
	}
}
