//go:build verif

// C06 overlay test for pkg/raft/raft (injected by /verif/bin/check): walCache transparency.
// Modes 2 (walCache over fsLog) and 3 (walCache over memLog), each run next to the same log without the cache.
package raft

import (
	"fmt"
	"os"
	"testing"

	c06 "github.com/westerndigitalcorporation/blb/pkg/verifc06"
	vw "github.com/westerndigitalcorporation/blb/pkg/verifwire"
	"github.com/westerndigitalcorporation/blb/pkg/wal"
)

func TestVerifC06Cache(t *testing.T) {
	if !vw.Enabled() {
		t.Skip("verification harness: run through /verif/bin/check")
	}
	base := c06.Scratch()
	defer os.RemoveAll(base)
	c06.QuietLogs(base)
	root := vw.NewRng(vw.Seed() ^ 0xC06CAC4E)
	tr := vw.OpenTrace("C06cache.trace")
	defer tr.Close()
	defer vw.Finish("C06cache")
	fix := c06.ProbeFixes(base)
	wrap := func(capacity uint, l wal.Log) wal.Log { return newWALCache(capacity, l) }

	n := vw.Scale(120, 3000)
	for i := 0; i < n; i++ {
		id := fmt.Sprintf("c%d", i)
		rng := root.Fork(uint64(i))
		if !vw.CaseSelected(id) {
			continue
		}
		cfg := c06.Config{Mode: 2 + i%2, Wire: true, Wrap: wrap}
		cfg.Cap = uint(rng.PickInt(1, 1, 2, 3, 4, 5, 8, 16, 100))
		cfg.MaxSz = rng.PickI64(1, 40, 64, 100, 200, 512, wal.VerifDefaultMaxFileSize)
		baseID := rng.PickI64(0, 0, 1, 1, 2, 7, 1000)
		r := c06.NewRunner(cfg, fix, base, id, rng, tr)
		r.Run(rng.Range(5, 30), baseID)
		vw.Stat(fmt.Sprintf("cases.cache.mode%d", cfg.Mode), 1)
	}
}
