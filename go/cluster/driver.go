package verifcluster

// driver.go: the reusable event loop.  A Driver owns a Cluster, the single-writer histories
// (Oracle per blob), the replica snapshots used by the frame monitor, and a log of Events (one per
// scheduling decision, with everything that was observed as its consequence) from which the
// property harness writes the model trace.  Property harnesses configure weights and may register
// extra actions (Driver.Extra) — C04 adds faults, C05 GC tasks, C14 the packing pipeline.

import (
	"fmt"
	"io"
	"math/rand"
	"sort"
	"strings"

	"github.com/westerndigitalcorporation/blb/client/blb"
	"github.com/westerndigitalcorporation/blb/internal/core"
	"github.com/westerndigitalcorporation/blb/internal/curator"
	"github.com/westerndigitalcorporation/blb/internal/tractserver"
	vw "github.com/westerndigitalcorporation/blb/pkg/verifwire"
)

// Event codes (first integer of an op line).
const (
	EvInit       = 1  // nTS, nClients, cache flags...
	EvNewBlob    = 2  // blob index, repl
	EvStartWrite = 3  // op id, client, blob, off, len, wid
	EvStartRead  = 4  // op id, client, blob, off, len
	EvStartRepl  = 5  // op id, gen, blob, tract, nbad, bad...
	EvStartFix   = 6  // op id, gen, blob, tract, version, bad ts   (a third party's FixVersion request)
	EvStep       = 7  // mode, rpc descriptor
	EvReply      = 8  // lose, rpc descriptor
	EvRestartTS  = 9  // ts
	EvLeader     = 10 // (old term, new term as observation)
	EvHeartbeat  = 11 // ts
	EvProbe      = 12 // raw ChangeTract probe: blob, tract, version delta, term delta
	EvInject     = 17 // a curator-side RPC no task owns (probe of the tractserver's version rules)
)

// OpResult is the outcome of a finished top-level activity.
type OpResult struct {
	Op   *Op
	Kind int // EvStartWrite / EvStartRead / EvStartRepl / EvStartFix
	N    int
	Err  core.Error
	Data []byte
}

// Event is one scheduling decision and its observed consequences.
type Event struct {
	Code     int
	Args     []int64
	RPC      *RPC   // for EvStep / EvReply
	Mode     int    // for EvStep
	NewRPCs  []*RPC // calls that appeared (parked) as a consequence, canonical order
	Resumed  []*RPC // calls whose callers were resumed (with Delivered flag)
	Finished []OpResult
	Touched  []int   // tractservers re-dumped
	DurAfter []int64 // durable hosts of the stepped RPC's tract after the event (curator->ts RPCs)
	Hint     []int64 // oracle inputs for the model (placement choices)
	Obs      []int64
	OpLines  [][]int64 // trace lines of this event (computed when the event happened)
	ObsLines [][]int64
}

type BlobState struct {
	Idx  int
	ID   core.BlobID
	Repl int
	O    *Oracle
}

type ClientState struct {
	Idx   int
	Busy  *Op
	Blobs map[int]*blb.Blob
	// Tau[blob idx][tract] = number of acknowledged writes the client's current locations for that tract are guaranteed to reflect
	Tau map[int]map[int]int
}

type opMeta struct {
	kind   int
	client int
	blob   int
	off    int64
	n      int
	wid    int
	rec    *WriteRec
	tract  int
	gen    int
	buf    []byte
	bad    []int
	ok     map[int]bool // servers the task has sent SetVersion to (its survivors)
}

// Weights of the generic actions.
type Weights struct {
	Deliver, ReplyExec, Write, Read, Replicate, ReplicateDuringWrite, ReplicateAfterLeader, ThirdPartyFix, Restart, Leader, LeaderDuringTask, Heartbeat, Complaint, Probe, CrashPull, ProbeStore int
	// per-mille mode probabilities for a delivery
	PLose, PFail, PTwice, PExecOnly int
	PReplyLose                      int
}

func DefaultWeights() Weights {
	return Weights{Deliver: 10, ReplyExec: 10, Write: 14, Read: 7, Replicate: 3, ReplicateDuringWrite: 25, ReplicateAfterLeader: 20, ThirdPartyFix: 1,
		Restart: 1, Leader: 1, LeaderDuringTask: 12, Heartbeat: 10, Complaint: 6, Probe: 1, CrashPull: 2, ProbeStore: 1,
		PLose: 70, PFail: 40, PTwice: 30, PExecOnly: 80, PReplyLose: 150}
}

// Action is a schedulable step offered to the random scheduler.
type Action struct {
	W   int
	Run func()
}

type Driver struct {
	Cl        *Cluster
	R         *vw.Rng
	W         Weights
	Snap      *Snap
	Blobs     []*BlobState
	Clients   []*ClientState
	Acks      int
	NextWid   int
	Big       bool // use offsets around the 8 MiB tract boundaries
	MaxTracts int
	// Wide: spread client operations over all MaxTracts tracts of a blob (small operations inside single
	// tracts far apart, operations spanning a tract boundary), so that a caching client's tract cache gets
	// gaps; AckCheck: run the replica check of the written blob right after every acknowledged write;
	// AllTracts: the replica check covers every durable tract of a blob, also those beyond the oracle's extent
	// ("no other tract changed"). All off by default (additive; the other Cluster properties do not set them).
	Wide      bool
	AckCheck  bool
	AllTracts bool
	Events    []*Event
	Bads      []Bad
	Case      string
	Extra     func(d *Driver) []Action // property-specific actions
	OnRead    func(d *Driver, res OpResult, m *opMeta)
	tasks     []*Op // running curator tasks
	lastRPC   *RPC
	known     map[*RPC]bool
	nFaults   int
	prePull   *curator.VerifTractState
	// Tainted[tract] = a PullTract re-copied a replica that already had the requested version and
	// changed its content (finding F21); read findings on such a tract carry a signature suffix.
	Tainted map[core.TractID]bool
}

// NewDriver builds a cluster with nTS tractservers and clients (0 = the writer, caching per flag).
func NewDriver(r *vw.Rng, nTS int, caches []bool, caseID string) *Driver {
	rand.Seed(int64(r.U64() >> 1)) // the code under test draws from math/rand (read order, placement)
	d := &Driver{Cl: NewCluster(nTS, caches), R: r, W: DefaultWeights(), Snap: NewSnap(), NextWid: 1, Case: caseID,
		known: map[*RPC]bool{}, MaxTracts: 3, Tainted: map[core.TractID]bool{}}
	for i := range caches {
		d.Clients = append(d.Clients, &ClientState{Idx: i, Blobs: map[int]*blb.Blob{}, Tau: map[int]map[int]int{}})
	}
	for i := 1; i <= nTS; i++ {
		d.Snap.Refresh(d.Cl, i)
	}
	d.Cl.OnExec = d.onExec
	ev := &Event{Code: EvInit, Args: []int64{int64(nTS), int64(len(caches))}}
	for _, c := range caches {
		ev.Args = append(ev.Args, b2i(c))
	}
	ev.OpLines, ev.ObsLines = d.Lines(ev)
	d.Events = append(d.Events, ev)
	return d
}

func toBlb(e error) core.Error {
	if e == nil {
		return core.NoError
	}
	if e == io.EOF {
		return core.ErrEOF
	}
	if b, ok := core.BlbError(e); ok {
		return b
	}
	return core.ErrUnknown
}

func b2i(b bool) int64 {
	if b {
		return 1
	}
	return 0
}

func (d *Driver) report(b Bad) {
	if strings.Contains(b.Sig, "-read-") && b.Detail != nil {
		bi, ok1 := b.Detail["blob"].(int)
		pos, ok2 := b.Detail["pos"].(int64)
		if ok1 && ok2 && bi >= 0 && bi < len(d.Blobs) && d.Tainted[d.tractID(bi, int(pos/TractLen))] {
			b.Sig += "-after-same-version-repull"
		}
	}
	d.Bads = append(d.Bads, b)
}

func (d *Driver) onExec(r *RPC, before bool) {
	if before {
		return
	}
	if r.Kind == KGetTracts {
		r.Meta = d.Acks // what a lookup executed now is guaranteed to reflect
	}
}

// NewBlob creates a blob through the real curator (not scheduled).
func (d *Driver) NewBlob(repl int) *BlobState {
	id, err := d.Cl.Cur.CreateBlob(repl)
	if err != core.NoError {
		panic("verif: CreateBlob: " + err.String())
	}
	b := &BlobState{Idx: len(d.Blobs), ID: id, Repl: repl, O: &Oracle{Blob: id}}
	d.Blobs = append(d.Blobs, b)
	for _, c := range d.Clients {
		c.Blobs[b.Idx] = blb.VerifBlob(d.Cl.Cli[c.Idx], id)
		c.Tau[b.Idx] = map[int]int{}
	}
	ev := &Event{Code: EvNewBlob, Args: []int64{int64(b.Idx), int64(repl)}}
	ev.OpLines, ev.ObsLines = d.Lines(ev)
	d.Events = append(d.Events, ev)
	return b
}

func (d *Driver) blobIdx(id uint64) int {
	for _, b := range d.Blobs {
		if uint64(b.ID) == id {
			return b.Idx
		}
	}
	return -1
}

// ---- starting activities ----

func (d *Driver) StartWrite(client, blob int, off int64, n int) *Event {
	b := d.Blobs[blob]
	wid := d.NextWid
	d.NextWid++
	rec := &WriteRec{Wid: wid, Off: off, Len: n}
	b.O.Writes = append(b.O.Writes, rec)
	data := Payload(wid, n)
	h := d.Clients[client].Blobs[blob]
	m := &opMeta{kind: EvStartWrite, client: client, blob: blob, off: off, n: n, wid: wid, rec: rec}
	op := d.Cl.S.Go("write", m, func() interface{} {
		k, e := h.WriteAt(data, off)
		return OpResult{Kind: EvStartWrite, N: k, Err: toBlb(e)}
	})
	d.Clients[client].Busy = op
	ev := &Event{Code: EvStartWrite, Args: []int64{int64(op.ID), int64(client), int64(blob), off, int64(n), int64(wid)}}
	return d.after(ev)
}

func (d *Driver) StartRead(client, blob int, off int64, n int) *Event {
	h := d.Clients[client].Blobs[blob]
	buf := make([]byte, n)
	m := &opMeta{kind: EvStartRead, client: client, blob: blob, off: off, n: n, buf: buf}
	op := d.Cl.S.Go("read", m, func() interface{} {
		k, e := h.ReadAt(buf, off)
		return OpResult{Kind: EvStartRead, N: k, Err: toBlb(e), Data: buf}
	})
	d.Clients[client].Busy = op
	ev := &Event{Code: EvStartRead, Args: []int64{int64(op.ID), int64(client), int64(blob), off, int64(n)}}
	return d.after(ev)
}

// TractID is the real id of tract 'tract' of blob number 'blob'.
func (d *Driver) TractID(blob, tract int) core.TractID { return d.tractID(blob, tract) }

func (d *Driver) tractID(blob, tract int) core.TractID {
	return core.TractID{Blob: d.Blobs[blob].ID, Index: core.TractKey(tract)}
}

func (d *Driver) StartReplicate(blob, tract int, bad []int) *Event {
	cur := d.Cl.Cur
	var ids []core.TractserverID
	for _, x := range bad {
		ids = append(ids, core.TractserverID(x))
	}
	tid := d.tractID(blob, tract)
	m := &opMeta{kind: EvStartRepl, blob: blob, tract: tract, gen: cur.Gen, bad: bad, ok: map[int]bool{}}
	op := d.Cl.S.Go("replicate", m, func() interface{} {
		return OpResult{Kind: EvStartRepl, Err: cur.ReplicateTract(tid, ids)}
	})
	d.tasks = append(d.tasks, op)
	ev := &Event{Code: EvStartRepl, Args: []int64{int64(op.ID), int64(cur.Gen), int64(blob), int64(tract), int64(len(bad))}}
	for _, x := range bad {
		ev.Args = append(ev.Args, int64(x))
	}
	return d.after(ev)
}

func (d *Driver) StartThirdPartyFix(blob, tract, version, badTS int) *Event {
	cur := d.Cl.Cur
	tid := d.tractID(blob, tract)
	m := &opMeta{kind: EvStartFix, blob: blob, tract: tract, gen: cur.Gen}
	op := d.Cl.S.Go("fixversion", m, func() interface{} {
		return OpResult{Kind: EvStartFix, Err: cur.FixVersion(tid, version, TSAddr(badTS))}
	})
	d.tasks = append(d.tasks, op)
	ev := &Event{Code: EvStartFix, Args: []int64{int64(op.ID), int64(cur.Gen), int64(blob), int64(tract), int64(version), int64(badTS)}}
	return d.after(ev)
}

// ---- scheduling decisions ----

// pinPlacement restricts the placement candidates right before a step that may run allocateTS
// (ExtendBlob at the curator; the reply of a re-replication's last SetVersion) to exactly as many
// servers as needed, chosen by the case's generator.
func (d *Driver) pinPlacement(r *RPC) {
	pick := func(from []int, n int) map[int]bool {
		m := map[int]bool{}
		perm := d.R.Perm(len(from))
		for _, i := range perm {
			if len(m) < n {
				m[from[i]] = true
			}
		}
		return m
	}
	switch {
	case r.Kind == KExtendBlob:
		inc := d.Cl.Cur
		bi := d.blobIdx(r.Blob)
		if bi < 0 {
			return
		}
		var known []int
		for i := 1; i < len(d.Cl.TS); i++ {
			if inc.KnowsTS(core.TractserverID(i)) {
				known = append(known, i)
			}
		}
		if len(known) > d.Blobs[bi].Repl {
			d.Cl.SetEligible(inc, pick(known, d.Blobs[bi].Repl))
		} else {
			d.Cl.SetEligible(inc, nil)
		}
	case r.Kind == KSetVersion && r.Client < 0:
		inc := d.Cl.Incarnation(r.Gen)
		bi := d.blobIdx(r.Blob)
		if inc == nil || bi < 0 {
			return
		}
		need := 0
		var tm *opMeta
		for _, t := range d.tasks {
			if m, ok := t.Meta.(*opMeta); ok && m != nil && m.kind == EvStartRepl && m.gen == r.Gen && m.blob == bi && m.tract == r.Tract {
				need = len(m.bad)
				tm = m
				break // the earliest one holds the tract lock, a later one waits for it
			}
		}
		if need == 0 {
			return
		}
		// allocateTS(len(bad), ok, bad) chooses among the servers the incarnation knows, minus ok, minus bad
		excl := map[int]bool{}
		for _, h := range tm.bad {
			excl[h] = true
		}
		for h := range tm.ok {
			excl[h] = true
		}
		var non []int
		for i := 1; i < len(d.Cl.TS); i++ {
			if inc.KnowsTS(core.TractserverID(i)) && !excl[i] {
				non = append(non, i)
			}
		}
		if len(non) > need {
			d.Cl.SetEligible(inc, pick(non, need))
		} else {
			d.Cl.SetEligible(inc, nil)
		}
	}
}

func (d *Driver) Step(r *RPC, mode int) *Event {
	// among calls with identical descriptors always take the oldest (the model does the same)
	for _, x := range d.Cl.S.Pending() {
		if x.State == StParked && x != r && !lessKey(x.key(), r.key()) && !lessKey(r.key(), x.key()) {
			if x.Seq < r.Seq {
				r = x
			}
		}
	}
	ev := &Event{Code: EvStep, RPC: r, Mode: mode}
	d.lastRPC = r
	if mode != ModeDeliver {
		d.nFaults++
	}
	d.pinPlacement(r)
	d.prePull = nil
	if r.Kind == KPullTract {
		if bi := d.blobIdx(r.Blob); bi >= 0 {
			st := d.Cl.D.Tract(d.tractID(bi, r.Tract))
			d.prePull = &st
		}
	}
	d.Cl.S.Start(r, mode)
	return d.after(ev)
}

// StepCrashPull executes a parked PullTract at a tractserver that crashes in the middle of it: at
// the data write of the pulled copy, i.e. after the local file was created and its version recorded
// (Store.doCreate order).  The caller sees an RPC error; the server restarts.
func (d *Driver) StepCrashPull(r *RPC) *Event {
	ev := &Event{Code: EvStep, RPC: r, Mode: ModeCrash}
	d.lastRPC = r
	d.nFaults++
	d.prePull = nil
	if bi := d.blobIdx(r.Blob); bi >= 0 {
		st := d.Cl.D.Tract(d.tractID(bi, r.Tract))
		d.prePull = &st
	}
	d.Cl.TS[r.TS].ArmCrash(core.TractID{Blob: core.BlobID(r.Blob), Index: core.TractKey(r.Tract)})
	d.Cl.S.Start(r, ModeLoseReply)
	d.Cl.RestartTS(r.TS)
	return d.after(ev)
}

func (d *Driver) Reply(r *RPC, lose bool) *Event {
	for _, x := range d.Cl.S.Pending() {
		if x.State == StExecuted && !x.AutoSend && x != r && !lessKey(x.key(), r.key()) && !lessKey(r.key(), x.key()) && x.Seq < r.Seq {
			r = x
		}
	}
	ev := &Event{Code: EvReply, RPC: r, Args: []int64{b2i(lose)}}
	d.pinPlacement(r)
	d.Cl.S.Reply(r, lose)
	return d.after(ev)
}

func (d *Driver) RestartTS(i int) *Event {
	ev := &Event{Code: EvRestartTS, Args: []int64{int64(i)}}
	d.lastRPC = nil
	d.Cl.RestartTS(i)
	d.nFaults++
	return d.after(ev)
}

func (d *Driver) LeaderChange() *Event {
	o, n := d.Cl.LeaderChange()
	d.nFaults++
	ev := &Event{Code: EvLeader, Obs: []int64{int64(n - o)}}
	return d.after(ev)
}

func (d *Driver) Heartbeat(i int) *Event {
	d.Cl.Heartbeat(i)
	return d.after(&Event{Code: EvHeartbeat, Args: []int64{int64(i)}})
}

// ProbeStore sends, from the curator side and owned by no task, a SetVersion or PullTract that the
// tractserver's version rules must reject on the state as it is right now (SetVersion jumping over a
// version; PullTract of a version older than the local copy), and delivers it at once.  On the real
// code these are no-ops; a Store that accepts them breaks the protocol the next moment.
func (d *Driver) ProbeStore(pull bool, ts, blob, tract int) {
	tid := d.tractID(blob, tract)
	rep, ok := d.Snap.TS[ts][tid]
	if !ok || !rep.HasVersion {
		return
	}
	cur := d.Cl.Cur
	var src []string
	for i := 1; i < len(d.Cl.TS); i++ {
		if i != ts {
			if _, has := d.Snap.TS[i][tid]; has {
				src = append(src, TSAddr(i))
			}
		}
	}
	if pull && (rep.Version < 2 || len(src) == 0) {
		return
	}
	tt := &curTalker{cl: d.Cl, gen: cur.Gen}
	m := &opMeta{kind: EvInject, blob: blob, tract: tract, gen: cur.Gen}
	d.Cl.S.Go("inject", m, func() interface{} {
		if pull {
			return OpResult{Kind: EvInject, Err: tt.PullTract(TSAddr(ts), core.TractserverID(ts), src, tid, rep.Version-1)}
		}
		return OpResult{Kind: EvInject, Err: tt.SetVersion(TSAddr(ts), core.TractserverID(ts), tid, rep.Version+2+d.R.Intn(2), 0)}
	})
	ev := d.after(&Event{Code: EvInject})
	for _, r := range ev.NewRPCs {
		if r.Client < 0 && r.TS == ts && r.State == StParked && (r.Kind == KSetVersion || r.Kind == KPullTract) {
			d.Step(r, ModeDeliver)
			return
		}
	}
}

// Probe submits a raw ChangeTract(durable version + dv, same hosts, current term - dt).
func (d *Driver) Probe(blob, tract, dv, dt int) *Event {
	tid := d.tractID(blob, tract)
	st := d.Cl.D.Tract(tid)
	ev := &Event{Code: EvProbe, Args: []int64{int64(blob), int64(tract), int64(dv), int64(dt)}}
	if !st.OK {
		ev.Obs = []int64{-1}
		return d.after(ev)
	}
	cur := d.Cl.D.Term()
	if uint64(dt) >= cur || (dv == 1 && dt == 0) {
		ev.Obs = []int64{-1} // would be an unconditional or a legitimate commit: not a probe
		return d.after(ev)
	}
	err := d.Cl.D.ChangeTract(tid, st.Version+dv, st.Hosts, cur-uint64(dt))
	ev.Obs = []int64{int64(ErrClass(err))}
	if err == core.NoError {
		sig := "changetract-accepted-version-not-old-plus-1"
		if dv == 1 {
			sig = "changetract-accepted-stale-term"
		}
		d.report(Bad{Sig: sig, What: "durable ChangeTract accepted a command that the old+1 / same-term rule must reject",
			Detail: map[string]interface{}{"dv": dv, "dt": dt, "durable": st.Version}})
	}
	return d.after(ev)
}

// ErrClass is the error's numeric code (the model uses the same constants, regenerated from /repo).
func ErrClass(e core.Error) int { return int(e) }

// after: settle, collect consequences, run the per-step monitors.
func (d *Driver) after(ev *Event) *Event {
	s := d.Cl.S
	s.Settle()
	s.Flush()
	// new calls
	for _, r := range s.Pending() {
		if !d.known[r] {
			d.known[r] = true
			ev.NewRPCs = append(ev.NewRPCs, r)
			if r.Client < 0 && r.Kind == KSetVersion {
				// the survivors of the re-replication that holds this tract's lock (the earliest one)
				for _, t := range d.tasks {
					if m, ok := t.Meta.(*opMeta); ok && m != nil && !t.Done && m.kind == EvStartRepl && m.gen == r.Gen && m.blob == d.blobIdx(r.Blob) && m.tract == r.Tract {
						m.ok[r.TS] = true
						break
					}
				}
			}
		}
	}
	// resumed callers
	for _, r := range s.TakeCompleted() {
		ev.Resumed = append(ev.Resumed, r)
		delete(d.known, r)
		if r.Kind == KFixVersion && r.Client >= 0 && r.Execs > 0 {
			d.markOrphans(ev, r.ExecGen, d.blobIdx(r.Blob), r.Tract) // the fixVersion it ran has returned
		}
		if r.Kind == KGetTracts && r.Delivered && r.Client >= 0 {
			if bi := d.blobIdx(r.Blob); bi >= 0 {
				tau, _ := r.Meta.(int)
				if rep, ok := r.Result.(tractsReply); ok && rep.Err == core.NoError {
					for _, ti := range rep.Tracts {
						d.Clients[r.Client].Tau[bi][int(ti.Tract.Index)] = tau
					}
				}
			}
		}
	}
	if ev.RPC != nil && ev.RPC.Client < 0 && ev.RPC.Tract >= 0 {
		if bi := d.blobIdx(ev.RPC.Blob); bi >= 0 {
			for _, h := range d.Cl.D.Tract(d.tractID(bi, ev.RPC.Tract)).Hosts {
				ev.DurAfter = append(ev.DurAfter, int64(h))
			}
			sort.Slice(ev.DurAfter, func(i, j int) bool { return ev.DurAfter[i] < ev.DurAfter[j] })
		}
	}
	// frames
	ev.Touched = d.Cl.Touched()
	for _, i := range ev.Touched {
		before, after := d.Snap.Refresh(d.Cl, i)
		if ev.Code == EvStep && ev.Mode == ModeCrash && d.lastRPC != nil && d.lastRPC.TS == i {
			// a crash in the middle of a pull may leave an empty copy with the version already recorded
			tid := core.TractID{Blob: core.BlobID(d.lastRPC.Blob), Index: core.TractKey(d.lastRPC.Tract)}
			for id, a := range after {
				if b, ok := before[id]; ok && replicaEqual(a, b) {
					continue
				}
				if id != tid || !(a.Version == d.lastRPC.Version && a.Len == 0) {
					d.report(Bad{Sig: "frame-crashed-pull-changed-other-data", What: "a tractserver crash during PullTract changed more than the pulled tract",
						Detail: map[string]interface{}{"ts": i, "tract": id.String()}})
				}
			}
			d.checkRepull(d.lastRPC, before, after) // the pull that crashed may have been a same-version re-pull of a committed host (F21)
		} else if ev.Code == EvStep && d.lastRPC != nil && d.lastRPC.TS == i {
			for _, b := range CheckFrame(d.lastRPC, before, after, d.Snap) {
				d.report(b)
			}
			d.checkRepull(d.lastRPC, before, after)
		} else if ev.Code != EvRestartTS {
			// a server changed without an RPC addressed to it in this step
			for id, a := range after {
				if b, ok := before[id]; !ok || !replicaEqual(a, b) {
					d.report(Bad{Sig: "frame-unexplained-change", What: "a tractserver's replicas changed in a step that executed no RPC at it",
						Detail: map[string]interface{}{"ts": i, "tract": id.String(), "event": ev.Code}})
				}
			}
		} else {
			for id, a := range after {
				if b, ok := before[id]; !ok || !replicaEqual(a, b) {
					d.report(Bad{Sig: "restart-changed-replica", What: "a tractserver restart changed stored data or versions",
						Detail: map[string]interface{}{"ts": i, "tract": id.String()}})
				}
			}
		}
	}
	// finished activities
	for _, op := range s.Ops {
		if !op.Done || op.Meta == nil {
			continue
		}
		m := op.Meta.(*opMeta)
		res := op.Result.(OpResult)
		res.Op = op
		op.Meta = nil
		ev.Finished = append(ev.Finished, res)
		switch m.kind {
		case EvStartWrite:
			d.Clients[m.client].Busy = nil
			if res.Err == core.NoError && res.N == m.n {
				d.Acks++
				m.rec.Status, m.rec.AckIdx = WAcked, d.Acks
				if d.AckCheck {
					d.checkBlobReplicas(d.Blobs[m.blob], true)
				}
			} else {
				m.rec.Status = WFailed
				if res.Err == core.NoError {
					d.report(Bad{Sig: "write-short-without-error", What: "WriteAt returned fewer bytes than asked without an error",
						Detail: map[string]interface{}{"n": res.N, "want": m.n}})
				}
			}
		case EvStartRead:
			d.Clients[m.client].Busy = nil
			d.checkClientRead(m, res)
		default:
			for i, t := range d.tasks {
				if t == op {
					d.tasks = append(d.tasks[:i], d.tasks[i+1:]...)
					break
				}
			}
			if m.kind != EvInject {
				d.markOrphans(ev, m.gen, m.blob, m.tract)
			}
		}
	}
	ev.OpLines, ev.ObsLines = d.Lines(ev)
	d.Events = append(d.Events, ev)
	return ev
}

// checkRepull: a PullTract executed at a server that already held the tract at the requested
// version.  If that changed the replica, writes the old copy had are gone from it; if the replica is
// at that moment a committed member of the repl group at that version, this is finding F21 (a
// superseded re-replication's pull clobbers a replica another leader committed).
func (d *Driver) checkRepull(r *RPC, before, after map[core.TractID]tractserver.VerifReplica) {
	if r.Kind != KPullTract {
		return
	}
	tid := core.TractID{Blob: core.BlobID(r.Blob), Index: core.TractKey(r.Tract)}
	b, ok := before[tid]
	if !ok || !b.HasVersion || b.Version != r.Version {
		return
	}
	a, oka := after[tid]
	if oka && replicaEqual(a, b) {
		return
	}
	if d.prePull == nil {
		return
	}
	st := *d.prePull // the durable record BEFORE the pull ran (its own task may commit in the same step)
	isHost := false
	for _, h := range st.Hosts {
		if int(h) == r.TS {
			isHost = true
		}
	}
	if st.OK && isHost && st.Version == r.Version {
		d.Tainted[tid] = true
		det := map[string]interface{}{"rpc": r.String(), "before": fmt.Sprintf("v%d len%d %v", b.Version, b.Len, b.Runs)}
		if oka {
			det["after"] = fmt.Sprintf("v%d len%d %v", a.Version, a.Len, a.Runs)
		}
		d.report(Bad{Sig: "pull-clobbers-committed-replica-same-version",
			What: "PullTract of a superseded re-replication overwrote a replica that is a committed host of the tract at that version", Detail: det})
	}
}

// checkClientRead judges a finished ReadAt of a real client against the oracle, tract by tract
// (each tract's locations may stem from a different lookup).
func (d *Driver) checkClientRead(m *opMeta, res OpResult) {
	if res.Err != core.NoError && res.Err != core.ErrEOF {
		return // a failed read promises nothing
	}
	b := d.Blobs[m.blob]
	who := "reader"
	if m.client == 0 {
		who = "writer"
	}
	data := res.Data[:res.N]
	end := m.off + int64(m.n)
	for pos := m.off; pos < end; {
		tr := int(pos / TractLen)
		segEnd := (int64(tr) + 1) * TractLen
		if segEnd > end {
			segEnd = end
		}
		tau := d.Acks
		if m.client != 0 {
			tau = d.Clients[m.client].Tau[m.blob][tr]
		}
		var seg []byte
		if int64(len(data)) > pos-m.off {
			hi := segEnd - m.off
			if hi > int64(len(data)) {
				hi = int64(len(data))
			}
			seg = data[pos-m.off : hi]
		}
		for _, bad := range b.O.CheckRead(who, pos, int(segEnd-pos), seg, tau) {
			bad.Detail["client"] = m.client
			bad.Detail["blob"] = m.blob
			d.report(bad)
		}
		pos = segEnd
	}
	if d.OnRead != nil {
		d.OnRead(d, res, m)
	}
}

// CheckAllReplicas reads, directly at every tractserver, every replica that (a) a lookup made now
// would name, at the durable version, and (b) each client's cached locations name, at the cached
// version; whatever answers successfully must satisfy the oracle for that observer
// ("whichever replica answers").
func (d *Driver) CheckAllReplicas() {
	for _, b := range d.Blobs {
		d.checkBlobReplicas(b, false)
	}
}

// checkBlobReplicas: fromSnap = judge the content the last dump of the server shows (run-length encoded, kept
// current after every event) instead of reading the whole tract; the server is still asked, with a one-byte
// read at the view's version, whether it would answer.
func (d *Driver) checkBlobReplicas(b *BlobState, fromSnap bool) {
	{
		ext := b.O.Extent()
		if ext == 0 {
			return
		}
		nt := int((ext + TractLen - 1) / TractLen)
		if d.AllTracts {
			if n := d.Cl.D.NumTracts(b.ID); n > nt {
				nt = n
			}
		}
		for tr := 0; tr < nt; tr++ {
			tid := d.tractID(b.Idx, tr)
			lo := int64(tr) * TractLen
			hi := lo + TractLen
			if hi > ext && !d.AllTracts {
				hi = ext
			}
			type view struct {
				who     string
				version int
				hosts   []int
				tau     int
			}
			var views []view
			if st := d.Cl.D.Tract(tid); st.OK {
				v := view{who: "replica-fresh", version: st.Version, tau: d.Acks}
				for _, h := range st.Hosts {
					v.hosts = append(v.hosts, int(h))
				}
				views = append(views, v)
			}
			for _, c := range d.Clients {
				if tis, ok := blb.VerifCachedTracts(d.Cl.Cli[c.Idx], b.ID, tr, tr+1); ok && len(tis) == 1 {
					v := view{who: "replica-cached-reader", version: tis[0].Version, tau: c.Tau[b.Idx][tr]}
					if c.Idx == 0 {
						v.who, v.tau = "replica-cached-writer", d.Acks
					}
					for _, h := range tis[0].Hosts {
						if i := TSIndex(h); i > 0 {
							v.hosts = append(v.hosts, i)
						}
					}
					views = append(views, v)
				}
			}
			for _, v := range views {
				for _, h := range v.hosts {
					var bads []Bad
					if fromSnap {
						if _, err := d.Cl.TS[h].Read(tid, v.version, 1, 0); err != core.NoError && err != core.ErrEOF {
							continue
						}
						rep, ok := d.Snap.TS[h][tid]
						if !ok {
							continue
						}
						bads = b.O.CheckRuns(v.who, lo, hi-lo, rep.Runs, v.tau)
					} else {
						data, err := d.Cl.TS[h].Read(tid, v.version, int(hi-lo), 0)
						if err != core.NoError && err != core.ErrEOF {
							continue
						}
						bads = b.O.CheckRead(v.who, lo, int(hi-lo), data, v.tau)
					}
					for _, bad := range bads {
						bad.Detail["ts"] = h
						bad.Detail["version"] = v.version
						bad.Detail["blob"] = b.Idx
						d.report(bad)
					}
				}
			}
		}
	}
}

// ---- the random scheduler ----

func (d *Driver) pickMode(r *RPC) int {
	w := d.W
	lose, fail := w.PLose, w.PFail
	switch r.Kind {
	case KAckExtend, KSetVersion, KPullTract, KFixVersion:
		lose *= 2
	case KRead, KStatBlob, KGetTracts:
		lose /= 2
	}
	x := d.R.Intn(1000)
	switch {
	case x < lose:
		return ModeLoseReply
	case x < lose+fail:
		return ModeFail
	case x < lose+fail+w.PTwice:
		if r.Kind == KFixVersion {
			return ModeDeliver // a duplicated FixVersion request is just a second FixVersion request
		}
		return ModeTwice
	case x < lose+fail+w.PTwice+w.PExecOnly:
		return ModeExecOnly
	}
	return ModeDeliver
}

func (d *Driver) writeShape(b *BlobState) (int64, int) {
	r := d.R
	ext := b.O.Extent()
	maxEnd := int64(d.MaxTracts) * TractLen
	if d.Wide {
		nt := d.Cl.D.NumTracts(b.ID)
		switch k := r.Intn(10); {
		case nt < d.MaxTracts && k < 4:
			// start the next tract (sometimes skipping one, which becomes a hole tract)
			t := nt
			if t+1 < d.MaxTracts && r.Chance(1, 4) {
				t++
			}
			return int64(t)*TractLen + int64(r.Range(0, 150)), r.Range(1, 160)
		case nt >= 2 && k >= 4 && k < 8:
			// across the boundary between two existing tracts
			hiB := nt - 1
			if hiB > d.MaxTracts-1 {
				hiB = d.MaxTracts - 1
			}
			bnd := int64(r.Range(1, hiB)) * TractLen
			off := bnd - int64(r.Range(1, 120))
			return off, int(bnd-off) + r.Range(1, 120)
		case nt >= 1:
			// inside one existing tract
			t := r.Intn(nt)
			return int64(t)*TractLen + int64(r.Range(0, 300)), r.Range(1, 160)
		}
	}
	var off int64
	n := r.Range(1, 160)
	switch k := r.Intn(10); {
	case d.Big && k < 5:
		// around a tract boundary
		bnd := int64(r.Range(1, d.MaxTracts-1)) * TractLen
		off = bnd - int64(r.Range(0, 120))
		n = r.Range(1, 200)
	case k < 3 && len(b.O.Writes) > 0:
		// overlap a previous write
		w := b.O.Writes[r.Intn(len(b.O.Writes))]
		off = w.Off + int64(r.Range(-40, w.Len))
		if off < 0 {
			off = 0
		}
	case k < 5:
		off = ext // append
	case k < 6:
		off = ext + int64(r.Range(1, 90)) // leave a hole
	default:
		off = int64(r.Intn(400))
	}
	if off+int64(n) > maxEnd {
		off = maxEnd - int64(n)
	}
	return off, n
}

// Burst runs n client operations one after the other, each delivered to completion without faults
// (Quiesce): writes by the writer and reads by any client, with the shapes of the random scheduler.
// It is the cheap way to get a client's caches into a non-trivial state between random-schedule rounds.
func (d *Driver) Burst(n int) {
	d.Cl.S.SetAuto(false)
	for i := 0; i < n && len(d.Blobs) > 0; i++ {
		b := d.Blobs[d.R.Intn(len(d.Blobs))]
		if d.Wide && d.R.Chance(1, 4) {
			// the cache is soft state: a client may lose a blob's entries at any time (eviction, restart)
			blb.VerifInvalidate(d.Cl.Cli[d.R.Intn(len(d.Clients))], b.ID)
			vw.Stat("wide.cache_dropped", 1)
		}
		if d.R.Chance(2, 5) && d.NextWid < 240 {
			if d.Clients[0].Busy != nil {
				continue
			}
			off, n := d.writeShape(b)
			if d.Wide {
				d.statSpan(0, b, off, n, false)
			}
			d.StartWrite(0, b.Idx, off, n)
		} else {
			c := d.Clients[d.R.Intn(len(d.Clients))]
			if c.Busy != nil {
				continue
			}
			off, n := d.readShape(b)
			if d.Wide {
				d.statSpan(c.Idx, b, off, n, true)
			}
			d.StartRead(c.Idx, b.Idx, off, n)
		}
		d.Quiesce()
	}
}

// statSpan counts the client operations whose location lookup covers more than one tract, and among them
// those for which the client has the first tract cached, a later tract of the range missing, and enough
// cached tracts behind the first one: a lookup answered from a cache with a gap (coverage figure).
func (d *Driver) statSpan(client int, b *BlobState, off int64, n int, read bool) {
	t0, e := int(off/TractLen), int((off+int64(n)-1)/TractLen)+1
	if read {
		e++ // a read also asks for the tract after its range
	}
	if nt := d.Cl.D.NumTracts(b.ID); e > nt {
		e = nt
	}
	if e-t0 < 2 {
		return
	}
	kind := "write"
	if read {
		kind = "read"
	}
	vw.Stat("wide.multi_tract_lookup."+kind, 1)
	has := func(t int) bool {
		tis, ok := blb.VerifCachedTracts(d.Cl.Cli[client], b.ID, t, t+1)
		return ok && len(tis) == 1
	}
	if !has(t0) {
		return
	}
	missing, behind := false, 0
	for t := t0; t <= d.MaxTracts; t++ {
		if has(t) {
			behind++
		} else if t < e {
			missing = true
		}
	}
	if missing && behind >= e-t0 {
		vw.Stat("wide.lookup_over_cache_gap."+kind, 1)
	}
}

func (d *Driver) readShape(b *BlobState) (int64, int) {
	r := d.R
	ext := b.O.Extent()
	if ext == 0 {
		return 0, r.Range(1, 50)
	}
	if d.Wide {
		if nt := d.Cl.D.NumTracts(b.ID); nt >= 1 {
			switch k := r.Intn(20); {
			case k < 12:
				// a small read inside one tract (a caching client also learns the following tract)
				t := r.Intn(nt)
				return int64(t)*TractLen + int64(r.Range(0, 100)), r.Range(1, 120)
			case k < 17 && nt >= 2:
				bnd := int64(r.Range(1, nt-1)) * TractLen
				off := bnd - int64(r.Range(1, 100))
				return off, int(bnd-off) + r.Range(1, 100)
			}
		}
	}
	if len(b.O.Writes) > 0 && r.Chance(2, 3) {
		w := b.O.Writes[r.Intn(len(b.O.Writes))]
		off := w.Off - int64(r.Range(0, 60))
		if off < 0 {
			off = 0
		}
		return off, w.Len + r.Range(0, 150)
	}
	if !d.Big || ext < 4096 {
		return 0, int(ext) + r.Range(0, 40)
	}
	off := ext - int64(r.Range(1, 300))
	if off < 0 {
		off = 0
	}
	return off, r.Range(1, 400)
}

func (d *Driver) durableTracts() (out [][2]int) {
	for _, b := range d.Blobs {
		n := d.Cl.D.NumTracts(b.ID)
		for t := 0; t < n; t++ {
			out = append(out, [2]int{b.Idx, t})
		}
	}
	return
}

func (d *Driver) randomBad(blob, tract int) []int {
	st := d.Cl.D.Tract(d.tractID(blob, tract))
	r := d.R
	var hosts []int
	for _, h := range st.Hosts {
		hosts = append(hosts, int(h))
	}
	if len(hosts) == 0 {
		return []int{1}
	}
	perm := r.Perm(len(hosts))
	k := 1
	switch x := r.Intn(20); {
	case x == 0:
		k = len(hosts) // everything bad
	case x < 4 && len(hosts) > 2:
		k = 2
	}
	var bad []int
	for _, i := range perm[:k] {
		bad = append(bad, hosts[i])
	}
	if r.Chance(1, 25) {
		bad = []int{r.Range(1, len(d.Cl.TS)-1)} // possibly not a host
	}
	sort.Ints(bad)
	return bad
}

// markOrphans flags the calls a curator activity on (gen, tract) left behind when it returned
// (fan-out stragglers).  The fault model lets a request execute at most before its issuer's next
// step, so the scheduler resolves them (execute or drop) before doing anything else.
func (d *Driver) markOrphans(ev *Event, gen, blob, tract int) {
	fresh := map[*RPC]bool{}
	for _, r := range ev.NewRPCs {
		fresh[r] = true
	}
	for _, r := range d.Cl.S.Pending() {
		if r.Client < 0 && r.Gen == gen && d.blobIdx(r.Blob) == blob && r.Tract == tract && !fresh[r] {
			r.Orphan = true
		}
	}
}

func (d *Driver) orphan() *RPC {
	for _, r := range d.Cl.S.Pending() {
		if r.Orphan && (r.State == StParked || (r.State == StExecuted && !r.AutoSend)) {
			return r
		}
	}
	return nil
}

func (d *Driver) resolveOrphan(r *RPC, allowDrop bool) {
	if r.State == StExecuted {
		d.Reply(r, false)
		return
	}
	if allowDrop && d.R.Chance(1, 2) {
		d.Step(r, ModeFail)
	} else {
		d.Step(r, ModeDeliver)
	}
}

// lockLoad counts activities of the current incarnation that hold or wait for a tract's lock.
func (d *Driver) lockLoad(blob, tract int) int {
	n := 0
	gen := d.Cl.Cur.Gen
	for _, t := range d.tasks {
		if m, ok := t.Meta.(*opMeta); ok && m != nil && m.gen == gen && m.blob == blob && m.tract == tract {
			n++
		}
	}
	for _, r := range d.Cl.S.Pending() {
		if r.Kind == KFixVersion && r.State == StRunning && r.ExecGen == gen && d.blobIdx(r.Blob) == blob && r.Tract == tract {
			n++
		}
	}
	return n
}

// Actions lists what the scheduler may do now.
func (d *Driver) Actions() []Action {
	var acts []Action
	w := d.W
	s := d.Cl.S
	if o := d.orphan(); o != nil {
		return []Action{{1, func() { d.resolveOrphan(o, true) }}}
	}
	pend := s.Pending()
	writesParked := map[[2]int]bool{}
	pullExecuted := false
	setvDone := false
	for _, r := range pend {
		r := r
		switch r.State {
		case StParked:
			if r.Kind == KFixVersion && d.lockLoad(d.blobIdx(r.Blob), r.Tract) >= 2 {
				continue // at most one waiter per tract lock (wake-up order of several waiters is not deterministic)
			}
			acts = append(acts, Action{w.Deliver, func() { d.Step(r, d.pickMode(r)) }})
			if r.Kind == KWrite || r.Kind == KCreate {
				if bi := d.blobIdx(r.Blob); bi >= 0 {
					writesParked[[2]int{bi, r.Tract}] = true
				}
			}
			if r.Kind == KPullTract {
				setvDone = true
				acts = append(acts, Action{w.CrashPull, func() { d.StepCrashPull(r) }})
			}
		case StExecuted:
			acts = append(acts, Action{w.ReplyExec, func() { d.Reply(r, d.R.Intn(1000) < w.PReplyLose) }})
			if r.Kind == KPullTract {
				pullExecuted = true
			}
		}
	}
	// client operations
	if len(d.Blobs) > 0 {
		if c := d.Clients[0]; c.Busy == nil && d.NextWid < 240 {
			acts = append(acts, Action{w.Write, func() {
				b := d.Blobs[d.R.Intn(len(d.Blobs))]
				off, n := d.writeShape(b)
				if d.Wide {
					d.statSpan(0, b, off, n, false)
				}
				d.StartWrite(0, b.Idx, off, n)
			}})
		}
		for _, c := range d.Clients {
			c := c
			if c.Busy == nil {
				acts = append(acts, Action{w.Read, func() {
					b := d.Blobs[d.R.Intn(len(d.Blobs))]
					off, n := d.readShape(b)
					if d.Wide {
						d.statSpan(c.Idx, b, off, n, true)
					}
					d.StartRead(c.Idx, b.Idx, off, n)
				}})
			}
		}
	}
	// curator tasks
	dts := d.durableTracts()
	if len(dts) > 0 && len(d.tasks) < 3 {
		acts = append(acts, Action{w.Replicate, func() {
			t := dts[d.R.Intn(len(dts))]
			if d.lockLoad(t[0], t[1]) < 2 {
				d.StartReplicate(t[0], t[1], d.randomBad(t[0], t[1]))
			}
		}})
		if len(d.tasks) == 0 {
			for t := range writesParked {
				t := t
				if d.Cl.D.Tract(d.tractID(t[0], t[1])).OK {
					acts = append(acts, Action{w.ReplicateDuringWrite, func() { d.StartReplicate(t[0], t[1], d.randomBad(t[0], t[1])) }})
				}
			}
		}
		acts = append(acts, Action{w.ThirdPartyFix, func() {
			t := dts[d.R.Intn(len(dts))]
			st := d.Cl.D.Tract(d.tractID(t[0], t[1]))
			v := st.Version + d.R.PickInt(0, 0, 0, 0, -1, 1)
			h := d.R.Range(1, len(d.Cl.TS)-1)
			if len(st.Hosts) > 0 && d.R.Chance(4, 5) {
				h = int(st.Hosts[d.R.Intn(len(st.Hosts))])
			}
			if d.lockLoad(t[0], t[1]) < 2 {
				d.StartThirdPartyFix(t[0], t[1], v, h)
			}
		}})
		acts = append(acts, Action{w.ProbeStore, func() {
			t := dts[d.R.Intn(len(dts))]
			d.ProbeStore(d.R.Bool(), d.R.Range(1, len(d.Cl.TS)-1), t[0], t[1])
		}})
		acts = append(acts, Action{w.Probe, func() {
			t := dts[d.R.Intn(len(dts))]
			d.Probe(t[0], t[1], d.R.PickInt(0, 2, 2, 1, 1, 3), d.R.PickInt(0, 1, 1))
		}})
	}
	// the new leader repairs a tract for which an old leader's PullTract is still in flight
	for _, r := range pend {
		r := r
		if r.Kind == KPullTract && r.State == StParked && r.Gen < d.Cl.Cur.Gen && len(d.tasks) < 3 {
			bi := d.blobIdx(r.Blob)
			if bi < 0 || d.lockLoad(bi, r.Tract) > 0 {
				continue
			}
			src := map[int]bool{}
			for _, x := range r.Aux[1:] {
				src[int(x)] = true
			}
			var bad []int
			for _, h := range d.Cl.D.Tract(d.tractID(bi, r.Tract)).Hosts {
				if !src[int(h)] {
					bad = append(bad, int(h))
				}
			}
			if len(bad) > 0 {
				acts = append(acts, Action{w.ReplicateAfterLeader, func() { d.StartReplicate(bi, r.Tract, bad) }})
			}
		}
	}
	// complaints queued by ReportBadTS -> the recovery loop would re-replicate
	if len(d.tasks) < 3 {
		if cs := d.Cl.Cur.DrainComplaints(); len(cs) > 0 {
			for _, c := range cs {
				c := c
				blobID := c[0] >> 16
				if bi := d.blobIdx(blobID); bi >= 0 {
					acts = append(acts, Action{w.Complaint, func() {
						if d.lockLoad(bi, int(c[0]&0xffff)) < 2 {
							d.StartReplicate(bi, int(c[0]&0xffff), []int{int(c[1])})
						}
					}})
				}
			}
		}
	}
	// faults
	nts := len(d.Cl.TS) - 1
	rw := w.Restart
	if setvDone {
		rw *= 6 // between the bumps and the pull
	}
	acts = append(acts, Action{rw, func() { d.RestartTS(d.R.Range(1, nts)) }})
	lw := w.Leader
	if pullExecuted || (len(d.tasks) > 0 && setvDone) {
		lw = w.LeaderDuringTask
	}
	acts = append(acts, Action{lw, func() { d.LeaderChange() }})
	for i := 1; i <= nts; i++ {
		i := i
		if !d.Cl.Cur.KnowsTS(core.TractserverID(i)) {
			acts = append(acts, Action{w.Heartbeat, func() { d.Heartbeat(i) }})
		}
	}
	if d.Extra != nil {
		acts = append(acts, d.Extra(d)...)
	}
	return acts
}

// RunRandom performs up to n scheduling decisions.
func (d *Driver) RunRandom(n int) {
	d.Cl.S.SetAuto(false)
	for i := 0; i < n; i++ {
		acts := d.Actions()
		tot := 0
		for _, a := range acts {
			tot += a.W
		}
		if tot == 0 {
			return
		}
		x := d.R.Intn(tot)
		for _, a := range acts {
			if x < a.W {
				a.Run()
				break
			}
			x -= a.W
		}
	}
}

// Quiesce delivers everything without further faults until all activities are finished.
func (d *Driver) Quiesce() bool {
	for i := 0; i < 2000; i++ {
		nts := len(d.Cl.TS) - 1
		for j := 1; j <= nts; j++ {
			if !d.Cl.Cur.KnowsTS(core.TractserverID(j)) {
				d.Heartbeat(j)
			}
		}
		if o := d.orphan(); o != nil {
			d.resolveOrphan(o, false)
			continue
		}
		pend := d.Cl.S.Pending()
		if len(pend) == 0 {
			return true
		}
		progressed := false
		for _, r := range pend {
			if r.State == StParked {
				if r.Kind == KFixVersion && d.lockLoad(d.blobIdx(r.Blob), r.Tract) >= 2 {
					continue // never a second waiter on a tract lock
				}
				d.Step(r, ModeDeliver)
				progressed = true
				break
			}
			if r.State == StExecuted {
				d.Reply(r, false)
				progressed = true
				break
			}
		}
		if !progressed {
			d.report(Bad{Sig: "harness-deadlock", What: "activities blocked on each other with nothing deliverable", Detail: map[string]interface{}{"pending": fmt.Sprint(pend)}})
			return false
		}
	}
	return false
}
