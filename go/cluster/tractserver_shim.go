package tractserver

// Cluster-harness shim (overlay-only; /verif/go/cluster/tractserver_shim.go injected as
// internal/tractserver/zz_verif_cluster.go).  A VerifTS is one tractserver of the in-process
// cluster: a REAL Store over a MemDisk, fronted by the REAL RPC handlers (TSSrvHandler /
// TSCtlHandler, including their HasID checks).  Restart() throws the Store (all volatile state:
// stamps, busy table, failure map) away and builds a new one over the same disk.

import (
	"context"
	"encoding/binary"
	"sort"
	"sync"

	"github.com/westerndigitalcorporation/blb/internal/core"
	"github.com/westerndigitalcorporation/blb/internal/server"
	"github.com/westerndigitalcorporation/blb/pkg/rpc"
)

var (
	verifOpmOnce sync.Once
	verifOpmCtl  *server.OpMetric
	verifOpmSrv  *server.OpMetric
)

func verifOpms() (*server.OpMetric, *server.OpMetric) {
	verifOpmOnce.Do(func() {
		verifOpmCtl = server.NewOpMetric("verif_ts_ctl_rpc", "rpc")
		verifOpmSrv = server.NewOpMetric("verif_ts_srv_rpc", "rpc")
	})
	return verifOpmCtl, verifOpmSrv
}

// verifDisk is MemDisk with one test-double limitation removed: MemDisk.Read slices
// files[fd][off:] and panics when off is beyond the end of the file, where a real disk
// (Manager/ChecksumFile) reports a zero-length read at EOF.  Everything else is MemDisk.
//
// It can also emulate a PROCESS CRASH at a data write: ArmCrash(id) makes the next Write to
// that tract "kill the process" — the write does not happen and from then on this incarnation
// of the tractserver changes nothing on the disk any more (its cleanup code does not run in a
// real crash either).  The harness then calls VerifTS.Restart().
type verifDisk struct {
	*MemDisk
	crashOn map[core.TractID]bool
	dead    bool
}

func (d *verifDisk) idOf(f interface{}) (core.TractID, bool) {
	fd, ok := f.(uint32)
	if !ok {
		return core.TractID{}, false
	}
	for id, x := range d.MemDisk.fds {
		if x == fd {
			return id, true
		}
	}
	return core.TractID{}, false
}

func (d *verifDisk) Read(ctx context.Context, f interface{}, b []byte, off int64) (int, core.Error) {
	d.MemDisk.lock.Lock()
	if d.MemDisk.fds != nil {
		if fd, ok := f.(uint32); ok {
			if _, open := d.MemDisk.open[fd]; open && off > int64(len(d.MemDisk.files[fd])) {
				d.MemDisk.lock.Unlock()
				return 0, core.NoError
			}
		}
	}
	d.MemDisk.lock.Unlock()
	return d.MemDisk.Read(ctx, f, b, off)
}

func (d *verifDisk) Write(ctx context.Context, f interface{}, b []byte, off int64) (int, core.Error) {
	if d.dead {
		return 0, core.ErrIO
	}
	d.MemDisk.lock.Lock()
	id, ok := d.idOf(f)
	d.MemDisk.lock.Unlock()
	if ok && d.crashOn[id] {
		d.dead = true
		return 0, core.ErrIO
	}
	return d.MemDisk.Write(ctx, f, b, off)
}

func (d *verifDisk) Open(ctx context.Context, id core.TractID, flags int) (interface{}, core.Error) {
	if d.dead {
		return uint32(0), core.ErrIO
	}
	return d.MemDisk.Open(ctx, id, flags)
}

func (d *verifDisk) Setxattr(f interface{}, name string, value []byte) core.Error {
	if d.dead {
		return core.ErrIO
	}
	return d.MemDisk.Setxattr(f, name, value)
}

func (d *verifDisk) Delete(id core.TractID) core.Error {
	if d.dead {
		return core.ErrIO
	}
	return d.MemDisk.Delete(id)
}

// VerifTS is one in-process tractserver.
type VerifTS struct {
	ID       core.TractserverID
	Disk     *MemDisk
	Store    *Store
	Restarts int

	tt   TractserverTalker
	cfg  Config
	ctl  *TSCtlHandler
	srv  *TSSrvHandler
	disk *verifDisk
}

// VerifNewTS creates a tractserver with a fresh MemDisk and the given id; 'tt' is how its
// Store reaches other tractservers (PullTract / PackTracts / RSEncode sources).
func VerifNewTS(id core.TractserverID, tt TractserverTalker) *VerifTS {
	t := &VerifTS{ID: id, Disk: NewMemDisk(), tt: tt, cfg: DefaultTestConfig}
	t.cfg.UseFailure = false
	t.boot()
	return t
}

func (t *VerifTS) boot() {
	cfg := t.cfg
	t.Store = NewStore(t.tt, NewMetadataStore(), &cfg)
	t.disk = &verifDisk{MemDisk: t.Disk, crashOn: map[core.TractID]bool{}}
	if err := t.Store.AddDisk(t.disk); err != nil {
		panic("verif: AddDisk: " + err.Error())
	}
	// After a restart the id is loaded from the meta tract on the disk; SetID then just returns it.
	if got, _ := t.Store.SetID(t.ID); got != t.ID {
		panic("verif: tractserver id changed across restart")
	}
	s := &Server{store: t.Store, cfg: &cfg, curators: make(map[string]curatorInfo)}
	oc, os := verifOpms()
	t.ctl = newTSCtlHandler(s, oc)
	t.srv = newTSSrvHandler(s, os)
}

// Restart models a tractserver process crash + restart: data and version xattrs survive on the
// disk, everything volatile (mod stamps, lock table, failure reports) is re-initialised.
func (t *VerifTS) Restart() {
	t.Restarts++
	t.boot()
}

// ArmCrash makes this incarnation of the tractserver die at its next data write to the tract
// (see verifDisk).  Restart() afterwards.
func (t *VerifTS) ArmCrash(id core.TractID) { t.disk.crashOn[id] = true }

// Crashed reports whether the armed crash has happened.
func (t *VerifTS) Crashed() bool { return t.disk.dead }

func verifErr(e error, reply core.Error) core.Error {
	if e != nil {
		return core.ErrRPC
	}
	return reply
}

// ---- client-facing RPCs (TSSrvHandler) ----

func (t *VerifTS) Create(tsid core.TractserverID, id core.TractID, b []byte, off int64) core.Error {
	req := core.CreateTractReq{TSID: tsid, ID: id, Off: off}
	req.Set(b, false)
	var reply core.Error
	return verifErr(t.srv.CreateTract(req, &reply), reply)
}

func (t *VerifTS) Write(id core.TractID, version int, b []byte, off int64) core.Error {
	req := core.WriteReq{ID: id, Version: version, Off: off, ReqID: rpc.GenID()}
	req.Set(b, false)
	var reply core.Error
	return verifErr(t.srv.Write(req, &reply), reply)
}

func (t *VerifTS) Read(id core.TractID, version int, length int, off int64) ([]byte, core.Error) {
	req := core.ReadReq{ID: id, Version: version, Len: length, Off: off, ReqID: rpc.GenID()}
	var reply core.ReadReply
	if e := t.srv.Read(req, &reply); e != nil {
		return nil, core.ErrRPC
	}
	return reply.B, reply.Err
}

func (t *VerifTS) StatTract(id core.TractID, version int) (int64, core.Error) {
	req := core.StatTractReq{ID: id, Version: version}
	var reply core.StatTractReply
	if e := t.srv.StatTract(req, &reply); e != nil {
		return 0, core.ErrRPC
	}
	return reply.Size, reply.Err
}

// ---- curator/tractserver-facing RPCs (TSCtlHandler) ----

func (t *VerifTS) SetVersion(tsid core.TractserverID, id core.TractID, newVersion int, stamp uint64) core.Error {
	req := core.SetVersionReq{TSID: tsid, ID: id, NewVersion: newVersion, ConditionalStamp: stamp}
	var reply core.SetVersionReply
	if e := t.ctl.SetVersion(req, &reply); e != nil {
		return core.ErrRPC
	}
	return reply.Err
}

func (t *VerifTS) PullTract(tsid core.TractserverID, from []string, id core.TractID, version int) core.Error {
	req := core.PullTractReq{TSID: tsid, From: from, ID: id, Version: version}
	var reply core.Error
	return verifErr(t.ctl.PullTract(req, &reply), reply)
}

func (t *VerifTS) GCTract(tsid core.TractserverID, old []core.TractState, gone []core.TractID) core.Error {
	req := core.GCTractReq{TSID: tsid, Old: old, Gone: gone}
	var reply core.Error
	return verifErr(t.ctl.GCTract(req, &reply), reply)
}

func (t *VerifTS) CtlStatTract(id core.TractID, version int) core.StatTractReply {
	req := core.StatTractReq{ID: id, Version: version}
	var reply core.StatTractReply
	if e := t.ctl.CtlStatTract(req, &reply); e != nil {
		reply.Err = core.ErrRPC
	}
	return reply
}

func (t *VerifTS) PackTracts(tsid core.TractserverID, length int, tracts []*core.PackTractSpec, id core.RSChunkID) core.Error {
	req := core.PackTractsReq{TSID: tsid, Length: length, Tracts: tracts, ChunkID: id}
	var reply core.Error
	return verifErr(t.ctl.PackTracts(req, &reply), reply)
}

func (t *VerifTS) RSEncode(tsid core.TractserverID, id core.RSChunkID, length int, srcs, dests []core.TSAddr, im []int) core.Error {
	req := core.RSEncodeReq{TSID: tsid, ChunkID: id, Length: length, Srcs: srcs, Dests: dests, IndexMap: im}
	var reply core.Error
	return verifErr(t.ctl.RSEncode(req, &reply), reply)
}

func (t *VerifTS) CtlRead(id core.TractID, version int, length int, off int64) ([]byte, core.Error) {
	req := core.ReadReq{ID: id, Version: version, Len: length, Off: off}
	var reply core.ReadReply
	if e := t.ctl.CtlRead(req, &reply); e != nil {
		return nil, core.ErrRPC
	}
	return reply.B, reply.Err
}

func (t *VerifTS) CtlWrite(id core.TractID, version int, off int64, b []byte) core.Error {
	req := core.WriteReq{ID: id, Version: version, Off: off}
	req.Set(b, false)
	var reply core.Error
	return verifErr(t.ctl.CtlWrite(req, &reply), reply)
}

// GetBadTracts / tract listing as the heartbeat loop would report them.
func (t *VerifTS) BadTracts(parts []core.PartitionID) []core.TractID {
	return t.Store.GetBadTracts(parts, 1<<20)
}

func (t *VerifTS) AllTracts() []core.TractID {
	var out []core.TractID
	for _, l := range t.Store.GetSomeTractsByPartition(0) {
		out = append(out, l...)
	}
	sort.Slice(out, func(i, j int) bool { return verifLess(out[i], out[j]) })
	return out
}

func verifLess(a, b core.TractID) bool {
	if a.Blob != b.Blob {
		return a.Blob < b.Blob
	}
	return a.Index < b.Index
}

// ---- state dumps straight from the disk (model-free observation) ----

// VerifReplica is what one tractserver holds for one tract.
type VerifReplica struct {
	ID         core.TractID
	HasVersion bool
	Version    int
	Len        int
	Runs       []int64 // run-length encoding of the content: (len, byte)*
	Stamp      uint64  // volatile mod stamp as the Store knows it (0 if unknown to the Store)
	InStore    bool    // the Store's tract map knows this tract
}

// VerifRLE is a fast run-length encoder: (len, val) pairs.
func VerifRLE(b []byte) []int64 {
	var out []int64
	n := len(b)
	i := 0
	for i < n {
		c := b[i]
		j := i + 1
		// fast path: 8 bytes at a time
		pat := uint64(c) * 0x0101010101010101
		for j+8 <= n && binary.LittleEndian.Uint64(b[j:]) == pat {
			j += 8
		}
		for j < n && b[j] == c {
			j++
		}
		out = append(out, int64(j-i), int64(c))
		i = j
	}
	return out
}

// Dump lists every tract file on the disk (sorted), with version xattr and RLE content.
// If 'only' is non-nil just those tracts are dumped.
func (t *VerifTS) Dump(only map[core.TractID]bool) []VerifReplica {
	m := t.Disk
	m.lock.Lock()
	var out []VerifReplica
	for id, fd := range m.fds {
		if id == metaTractID {
			continue
		}
		if only != nil && !only[id] {
			continue
		}
		r := VerifReplica{ID: id}
		if xa, ok := m.xattrs[fd]; ok {
			if v, ok := xa[versionXattr]; ok && len(v) == 8 {
				r.HasVersion = true
				r.Version = int(binary.LittleEndian.Uint64(v))
			}
		}
		data := m.files[fd]
		r.Len = len(data)
		r.Runs = VerifRLE(data)
		out = append(out, r)
	}
	m.lock.Unlock()
	t.Store.lock.Lock()
	for i := range out {
		if td, ok := t.Store.tracts[out[i].ID]; ok {
			out[i].InStore = true
			out[i].Stamp = td.stamp()
		}
	}
	t.Store.lock.Unlock()
	sort.Slice(out, func(i, j int) bool { return verifLess(out[i].ID, out[j].ID) })
	return out
}

// CorruptByte flips one byte of a replica on disk (fault event for C04).
func (t *VerifTS) CorruptByte(id core.TractID, off int) bool {
	m := t.Disk
	m.lock.Lock()
	defer m.lock.Unlock()
	fd, ok := m.fds[id]
	if !ok || off >= len(m.files[fd]) {
		return false
	}
	m.files[fd][off] ^= 0xff
	return true
}

// DeleteReplica removes a tract behind the Store's back... through the Store's own removal path
// (disk + tract map), as a disk-level loss the next heartbeat would report (fault event for C04).
func (t *VerifTS) DeleteReplica(id core.TractID) core.Error {
	return t.Store.removeTract(id)
}
